// Command c04 is the correspondence harness and implementation oracle for
// property C04: session establishment fails closed under faults.
//
// For every standard handshake (plain c2s, STARTTLS+SASL+bind over real
// crypto/tls, WebSocket framing, component handshake; both roles where the
// library has them) and for handshakes with a failing voluntary feature (and
// other failing steps) it runs the real NewSession / ReceiveSession over a
// fault-injecting in-memory connection and enumerates: the end of the peer's
// byte stream after every byte count, the failure of every connection
// operation from index k on ("cut") and of exactly operation k
// ("transient"), a silent peer after every byte count with cancellation once
// the library blocks, a blocking Write at every write with cancellation, and
// cancellation of the context at every instant between two operations.
//
// Oracle (independent of the Coq model): a fault before completion => non-nil
// error, Ready bit clear, returned within the watchdog, no panic; nil error =>
// no operation failed and no callback reported an error; the state of a
// failed session holds no bit a failed step wanted to set.
// Every run is also given to the Coq model (case_ok).
package main

import (
	"crypto/sha256"
	"encoding/json"
	"fmt"
	"os"
	"strings"
	"time"

	"verifharness/c04/fx"
	"verifharness/hx"
)

const ready = 4

type runCase struct {
	Seed  uint64   `json:"seed,omitempty"` // the seed the scenario variants were drawn from
	Scen  string   `json:"scen"`
	Fault fx.Fault `json:"fault"`
	Obs   *fx.Obs  `json:"obs,omitempty"`
}

type driver struct {
	res     *hx.Result
	mat     *fx.TLSMaterial
	cf      *hx.CaseFile
	seen    map[[32]byte]bool
	defs    []string
	thor    bool
	hangs   int
	aborted bool
	seed    uint64
	stats   map[string]int
}

// base facts of a scenario, from its un-faulted run
type baseInfo struct {
	obs        fx.Obs
	total      int   // bytes of the peer's stream the library consumes
	lastHeader int   // model-level index of the first Read of the last stream-header exchange (the Read Expect's ctx test guards)
	writes     []int // raw indexes of the Writes
}

func modelIndexOfEvents(tr []fx.Ev) []int {
	idx := make([]int, len(tr))
	n := 0
	for i, e := range tr {
		idx[i] = -1
		if e.K == "r" || e.K == "w" {
			idx[i] = n
			n++
		}
	}
	return idx
}

func (d *driver) base(sc *fx.Scenario) baseInfo {
	obs := fx.Run(sc, fx.Fault{}, d.mat)
	bi := baseInfo{obs: obs, lastHeader: -1}
	bi.total = sc.Clear.Len()
	if sc.TLS {
		bi.total = obs.Delivered
	}
	all := append(append(fx.Stream{}, sc.Clear...), sc.TLSs...)
	mi := modelIndexOfEvents(obs.Trace)
	r := 0
	for i, e := range obs.Trace {
		if e.K != "r" {
			continue
		}
		if e.OK && r < len(all) && all[r].Header {
			bi.lastHeader = mi[i]
		}
		if e.OK {
			r++
		}
	}
	return bi
}

// modelOpFailed reports whether the m-th connection operation of the trace failed.
func modelOpFailed(tr []fx.Ev, m int) bool {
	n := 0
	for _, e := range tr {
		if e.K != "r" && e.K != "w" {
			continue
		}
		if n == m {
			return !e.OK
		}
		n++
	}
	return false
}

func sname(sc *fx.Scenario, what string) string {
	return "s_" + strings.NewReplacer("-", "_", "~", "_", "!", "_X").Replace(sc.Name) + "_" + what
}

func coqList(xs []string) string { return "[" + strings.Join(xs, "; ") + "]" }

// coqCase renders the run as a term of type case, or "" if the run has no
// counterpart in the model (panic, hang).
func (d *driver) coqCase(sc *fx.Scenario, f fx.Fault, obs *fx.Obs) string {
	if obs.Panic != "" || obs.TimedOut {
		return ""
	}
	if f.Ctx == "expired" || f.Ctx == "timeout-short" {
		// done before the first operation / at an instant the harness does not control:
		// judged by the oracle only
		return ""
	}
	if (f.Class != "" && f.Class != "timeout") || f.Ctx == "timeout-own" {
		// the model does not look at the error class nor at how the context came by its
		// deadline: one class and one shape are given to it, the others are judged by the
		// oracle only (they would be the same model runs again)
		return ""
	}
	class := map[string]string{"": "CGeneric", "eof": "CEOF", "ueof": "CUnexpectedEOF", "timeout": "CTimeout",
		"temporary": "CTemporary", "wrapped": "CWrapped", "operror": "CWrapped"}[f.Class]
	fault, cancel, entry := "FNone", "None", false
	clear := sname(sc, "clear")
	blocked := f.Cancel == "blocked"
	switch f.Kind {
	case "cut":
		if obs.Fired {
			fault = fmt.Sprintf("FCut %d%%nat", obs.FiredModel)
		}
	case "transient":
		if obs.Fired {
			fault = fmt.Sprintf("FTransient %d%%nat", obs.FiredModel)
		}
	case "wblock":
		// the blocked operation fails because the cancellation expires the deadline (below)
	case "eof", "silent":
		if f.B < obs.ClearLen {
			k, extra := sc.Clear.Cut(f.B)
			if extra != "" && f.Cancel == "atlimit" {
				// the cut falls inside character data: the tokenizer performs the Read that
				// fails before it hands out the partial text, the model hands out the text
				// first; with a ctx test in between the two orders differ in the trace. The
				// oracle still judges the run; no model case.
				return ""
			}
			clear = fmt.Sprintf("(firstn %d%%nat %s)", k, clear)
			if extra != "" {
				clear = fmt.Sprintf("(%s ++ [%s])", clear, extra)
			}
		} else if obs.Fired && !(blocked && obs.Cancelled) && f.Cancel != "atlimit" {
			fault = fmt.Sprintf("FTransient %d%%nat", obs.FiredModel)
		}
	}
	if obs.Cancelled && obs.CancelModel >= 0 {
		cancel = fmt.Sprintf("(Some %d%%nat)", obs.CancelModel)
		// entry: the operation at which the context was cancelled had not completed (it was
		// entered or blocked, or - inside the TLS phase - only part of it had been done)
		entry = modelOpFailed(obs.Trace, obs.CancelModel) || f.Cancel == "idle" || blocked
	}
	var calls, trace []string
	for _, v := range obs.Calls {
		calls = append(calls, v.Coq())
	}
	for _, e := range obs.Trace {
		trace = append(trace, e.Coq())
	}
	result := "COk"
	if obs.HasErr {
		result = "CErr"
	}
	return fmt.Sprintf("mkCase %s (mkPlan (%s) %s %s %s %s %s %s) %d%%N %s %s %s %s %d%%N %s",
		sname(sc, "cfg"), fault, class, cancel, hx.CoqBool(entry), hx.CoqBool(!sc.RWOnly), hx.CoqBool(f.Ctx != ""), hx.CoqBool(!sc.HSBad), sc.InitBits(), clear, sname(sc, "tls"),
		coqList(calls), result, obs.State, coqList(trace))
}

func (d *driver) fail(sc *fx.Scenario, f fx.Fault, obs *fx.Obs, clause, what string) {
	d.res.Fail("C04/"+sc.Entry+"/"+clause, fmt.Sprintf("%s [%s, fault %+v]: %s", sc.Entry, sc.Name, f, what), runCase{Seed: d.seed, Scen: sc.Name, Fault: f, Obs: obs})
}

// oracle states the property on what the run showed.
func (d *driver) oracle(sc *fx.Scenario, f fx.Fault, obs *fx.Obs, bi *baseInfo) {
	injected := f.Kind != "" || f.Cancel != "" || f.Ctx != ""
	if obs.Panic != "" {
		d.fail(sc, f, obs, "panic", "session establishment panicked: "+obs.Panic)
		return
	}
	if obs.TimedOut {
		if f.Ctx == "expired" || f.Ctx == "timeout-short" {
			d.fail(sc, f, obs, "outlives-cancellation/context-deadline", "the context's own deadline had passed ("+f.Ctx+") and the call did not return on a connection with deadlines")
		} else if f.Cancel == "atlimit" && obs.Cancelled {
			d.fail(sc, f, obs, "outlives-cancellation/between-reads-then-silence", "the context was cancelled between two reads, the peer then stayed silent, and the call did not return on a connection with deadlines")
		} else if f.Cancel == "atlimit" {
			// the peer fell silent before the context was cancelled: nothing to hold against the library
		} else if f.Cancel == "blocked" {
			d.fail(sc, f, obs, "outlives-cancellation/"+f.Kind, "the call did not return after the context was cancelled while it was blocked on a connection with deadlines")
		} else {
			d.fail(sc, f, obs, "hang/"+f.Kind, "the call did not return within the watchdog")
		}
		return
	}
	init := sc.InitBits()
	if !obs.HasErr {
		if obs.State&ready == 0 {
			d.fail(sc, f, obs, "nil-error-not-ready", "nil error but the Ready bit is clear")
		}
		if obs.Fired {
			d.fail(sc, f, obs, "nil-error-after-failed-operation/"+obs.FiredSite,
				"a connection operation failed ("+obs.FiredSite+") and session establishment still returned a nil error")
		} else if f.Kind == "eof" && !sc.TLS && sc.WantOK && f.B < bi.total {
			d.fail(sc, f, obs, "truncated-stream-accepted", "the peer's stream ended before the handshake was complete and the session was reported established")
		}
		for _, cb := range obs.CBErrs {
			d.fail(sc, f, obs, "nil-error-after-failed-step/"+cb, "a "+cb+" callback returned an error and session establishment still returned a nil error")
		}
		if !sc.WantOK && len(obs.CBErrs) == 0 {
			d.fail(sc, f, obs, "nil-error-after-failed-step/protocol", "the handshake contains a step that must fail and session establishment returned a nil error")
		}
		if f.Ctx == "expired" {
			d.fail(sc, f, obs, "cancel-ignored/already-expired", "the context was done before the call and session establishment returned a nil error")
		}
		if obs.Cancelled && (f.Cancel == "after" || f.Cancel == "atlimit") {
			d.fail(sc, f, obs, "cancel-ignored/between-operations", "the context was cancelled between two connection operations, before negotiation completed, and session establishment returned a nil error")
		}
		if obs.Cancelled && f.Cancel == "idle" {
			class := "after-last-stream-header"
			if obs.CancelModel < bi.lastHeader {
				class = "before-stream-header"
			}
			d.fail(sc, f, obs, "cancel-ignored/"+class, "the context was cancelled before negotiation completed and session establishment returned a nil error")
		}
		if obs.Cancelled && f.Cancel == "blocked" && !obs.Fired {
			d.fail(sc, f, obs, "cancel-ignored/blocked", "the context was cancelled while the call was blocked and it returned a nil error")
		}
	} else {
		if obs.State&ready != 0 {
			class := "ready-not-granted-by-any-step"
			if obs.Masks&ready != 0 {
				class = "after-successful-step-reported-ready"
			}
			d.fail(sc, f, obs, "error-but-ready/"+class, "session establishment returned an error and the session has the Ready bit")
		}
		if extra := obs.State &^ (init | obs.Masks); extra&^ready != 0 {
			d.fail(sc, f, obs, "mask-of-failed-step-applied", fmt.Sprintf("state %#x of the failed session has bits %#x that no successful step granted", obs.State, extra))
		}
		if !injected && sc.WantStreamErr && !obs.StreamErr {
			d.fail(sc, f, obs, "stream-error-not-reported", "the peer sent a complete stream error in place of its reply and the returned error is not (errors.As) a stream.Error: "+obs.Err)
		}
		if !injected && sc.WantOK {
			d.fail(sc, f, obs, "unfaulted-handshake-fails", "the handshake fails without any fault: "+obs.Err)
		}
	}
}

// maxHangs bounds the cost of a library that hangs: every hanging run costs the whole
// watchdog, so after this many expiries (or at once when a call keeps spinning after its
// connection was shut down) nothing more is enumerated; the skipped runs are counted in the
// histogram ("skipped:after-repeated-hangs") and the hangs themselves are reported.
const maxHangs = 3

func (d *driver) one(sc *fx.Scenario, f fx.Fault, bi *baseInfo) fx.Obs {
	if d.aborted || d.hangs >= maxHangs {
		// every further run would cost the whole watchdog (and, next to a spinning call,
		// measure nothing): the hangs recorded so far are the finding
		d.res.Histogram["skipped:after-repeated-hangs"]++
		return fx.Obs{TimedOut: true}
	}
	obs := fx.Run(sc, f, d.mat)
	if obs.TimedOut {
		d.hangs++
	}
	if obs.Stuck {
		d.aborted = true
	}
	if os.Getenv("C04_DEBUG") != "" {
		fmt.Fprintf(os.Stderr, "%s %+v -> err=%v %q state=%d fired=%v/%d timedout=%v panic=%q ops=%d/%d %v\n", sc.Name, f, obs.HasErr, obs.Err, obs.State, obs.Fired, obs.FiredModel, obs.TimedOut, obs.Panic, obs.RawOps, obs.ModelOps, obs.Elapsed)
	}
	d.oracle(sc, f, &obs, bi)
	kind := f.Kind
	if kind == "" {
		kind = "none"
	}
	if f.Cancel != "" {
		kind += "+cancel-" + f.Cancel
	}
	if f.Class != "" {
		kind += "/" + f.Class
	}
	if f.Ctx != "" {
		kind += "@ctx:" + f.Ctx
	}
	nontrivial := obs.Fired || obs.Cancelled || (f.Kind == "" && f.Cancel == "" && f.Ctx == "")
	fj, _ := json.Marshal(f)
	d.res.Count(sc.Name+string(fj), nontrivial, "fault:"+kind, "scenario:"+sc.Name)
	if obs.HasErr {
		d.res.Histogram["outcome:error"]++
	} else {
		d.res.Histogram["outcome:ok"]++
	}
	if term := d.coqCase(sc, f, &obs); term != "" {
		h := sha256.Sum256([]byte(term))
		if !d.seen[h] {
			d.seen[h] = true
			d.cf.Add(term, runCase{Seed: d.seed, Scen: sc.Name, Fault: f})
		}
	}
	return obs
}

func (d *driver) enumerate(sc *fx.Scenario) {
	bi := d.base(sc)
	// definitions shared by the cases of this scenario
	d.defs = append(d.defs,
		fmt.Sprintf("Definition %s : config := %s.", sname(sc, "cfg"), sc.CoqConfig()),
		fmt.Sprintf("Definition %s : list sitem := %s.", sname(sc, "clear"), coqList(sc.Clear.CoqItems())),
		fmt.Sprintf("Definition %s : list sitem := %s.", sname(sc, "tls"), coqList(sc.TLSs.CoqItems())))
	d.cf.Imports = imports + strings.Join(d.defs, "\n") + "\n"

	base := d.one(sc, fx.Fault{}, &bi)
	if base.TimedOut || base.Panic != "" {
		return
	}
	if sc.Lite > 0 {
		// derived scenario: its prefix is that of the scenario it comes from; enumerate what
		// is new, the end of the stream and a silent peer at every byte of the replacement
		for b := sc.Lite; b < bi.total; b++ {
			d.one(sc, fx.Fault{Kind: "eof", B: b}, &bi)
			if b%3 == 0 || d.thor {
				d.one(sc, fx.Fault{Kind: "silent", B: b, Cancel: "blocked"}, &bi)
			}
		}
		return
	}
	nRaw := base.RawOps
	stride := 1
	if sc.TLS && !d.thor {
		stride = 7
	}
	if !sc.WantOK && !d.thor {
		stride = 5
	}
	// the peer's stream ends after b bytes
	for b := 0; b < bi.total; b++ {
		if b%stride != 0 && !(b < sc.Clear.Len() && sc.TLS && b%3 == 0) {
			continue
		}
		d.one(sc, fx.Fault{Kind: "eof", B: b}, &bi)
	}
	// operation k fails, alone or with everything after it
	for k := 0; k < nRaw; k++ {
		d.one(sc, fx.Fault{Kind: "cut", K: k}, &bi)
		d.one(sc, fx.Fault{Kind: "transient", K: k}, &bi)
	}
	// ... returning an error of every class, the context staying alive: a timeout as under a
	// deadline the caller set on the connection, a temporary network error, EOF, wrapped ones
	for _, cl := range []string{"eof", "ueof", "timeout", "temporary", "wrapped", "operror"} {
		for k := 0; k < nRaw; k++ {
			d.one(sc, fx.Fault{Kind: "transient", K: k, Class: cl}, &bi)
			if cl == "timeout" || cl == "operror" {
				d.one(sc, fx.Fault{Kind: "cut", K: k, Class: cl}, &bi)
			}
		}
	}
	// cancellation between two operations
	for c := 0; c < nRaw; c++ {
		d.one(sc, fx.Fault{Cancel: "idle", CancelAt: c}, &bi)
	}
	// the same with contexts that carry a deadline of their own (cancelled long before it)
	for _, sh := range []string{"timeout-parent", "timeout-own"} {
		for c := 0; c < nRaw; c++ {
			d.one(sc, fx.Fault{Cancel: "idle", CancelAt: c, Ctx: sh}, &bi)
			d.one(sc, fx.Fault{Cancel: "after", CancelAt: c, Ctx: sh}, &bi)
		}
	}
	// a context that is done before the call
	d.one(sc, fx.Fault{Ctx: "expired"}, &bi)
	// cancellation between two operations: when operation c has succeeded
	for c := 0; c < nRaw; c++ {
		d.one(sc, fx.Fault{Cancel: "after", CancelAt: c}, &bi)
	}
	if sc.RWOnly {
		return
	}
	bstride := stride
	if !d.thor && bstride < 3 {
		bstride = 3
	}
	// ... and the peer falls silent right then: the next read must not block for good
	for b := 1; b < bi.total; b++ {
		if b%bstride != 0 {
			continue
		}
		d.one(sc, fx.Fault{Kind: "silent", B: b, Cancel: "atlimit"}, &bi)
	}
	// a silent peer / a blocking write, and cancellation once the call blocks
	for b := 0; b < bi.total; b++ {
		if b%bstride != 0 {
			continue
		}
		d.one(sc, fx.Fault{Kind: "silent", B: b, Cancel: "blocked"}, &bi)
	}
	for k := 0; k < nRaw; k++ {
		d.one(sc, fx.Fault{Kind: "wblock", K: k, Cancel: "blocked"}, &bi)
	}
	// blocked read / blocked write / between two reads, with contexts that carry a deadline of
	// their own and are cancelled long before it: the call must return after the cancellation,
	// not when the deadline comes
	for _, sh := range []string{"timeout-parent", "timeout-own"} {
		for b := 0; b < bi.total; b++ {
			if b%16 != 5 && !d.thor {
				continue
			}
			d.one(sc, fx.Fault{Kind: "silent", B: b, Cancel: "blocked", Ctx: sh}, &bi)
			if b > 0 {
				d.one(sc, fx.Fault{Kind: "silent", B: b, Cancel: "atlimit", Ctx: sh}, &bi)
			}
		}
		for k := 0; k < nRaw; k++ {
			d.one(sc, fx.Fault{Kind: "wblock", K: k, Cancel: "blocked", Ctx: sh}, &bi)
		}
	}
	// a short timeout that expires by itself while the call is blocked on a silent peer
	if sc.WantOK && bi.total > 3 {
		for _, b := range []int{bi.total / 3, 2 * bi.total / 3} {
			d.one(sc, fx.Fault{Kind: "silent", B: b, Ctx: "timeout-short"}, &bi)
		}
	}
}

const imports = "From XV Require Import lib.Bytes C04.Model.\n"

func main() {
	o := hx.ParseFlags()
	res := hx.NewResult("C04")
	res.Rule = "a run is non-trivial when its fault was reached before the handshake completed (a connection operation failed, the peer's stream ended or fell silent, or the context was cancelled); distinct = distinct (scenario, fault plan)"
	d := &driver{res: res, mat: fx.NewTLSMaterial(), seen: map[[32]byte]bool{}, thor: o.Thorough() || o.Search, stats: map[string]int{},
		seed: o.Seed,
		cf:   &hx.CaseFile{Name: "c4", Imports: imports, Ok: "case_ok", Type: "case"}}
	scens := fx.Scenarios()
	if w := os.Getenv("C04_WATCHDOG_MS"); w != "" {
		var ms int
		fmt.Sscan(w, &ms)
		fx.Watchdog = time.Duration(ms) * time.Millisecond
	}
	if only := os.Getenv("C04_ONLY"); only != "" {
		var keep []*fx.Scenario
		for _, sc := range scens {
			if strings.Contains(","+only+",", ","+sc.Name+",") {
				keep = append(keep, sc)
			}
		}
		scens = keep
	}

	if o.Replay != "" {
		raw, err := os.ReadFile(o.Replay)
		if err != nil {
			fmt.Fprintln(os.Stderr, err)
			os.Exit(2)
		}
		var rp struct {
			Case runCase `json:"case"`
		}
		if err := json.Unmarshal(raw, &rp); err != nil {
			fmt.Fprintln(os.Stderr, err)
			os.Exit(2)
		}
		if rp.Case.Seed != 0 {
			d.seed = rp.Case.Seed
		}
		rnd := hx.NewRand(d.seed)
		all := append([]*fx.Scenario{}, scens...)
		for round := 0; round < 4; round++ {
			for _, sc := range scens {
				if sc.TLS || sc.NoReseg || sc.Lite > 0 {
					continue
				}
				v := *sc
				v.Name = sc.Name + "~seg"
				if round > 0 {
					v.Name = fmt.Sprintf("%s~seg%d", sc.Name, round)
				}
				r := rnd.Fork()
				v.Clear = fx.Resegment(sc.Clear, r.Intn)
				all = append(all, &v)
			}
		}
		for _, sc := range all {
			if sc.Name == rp.Case.Scen {
				bi := d.base(sc)
				d.defs = append(d.defs,
					fmt.Sprintf("Definition %s : config := %s.", sname(sc, "cfg"), sc.CoqConfig()),
					fmt.Sprintf("Definition %s : list sitem := %s.", sname(sc, "clear"), coqList(sc.Clear.CoqItems())),
					fmt.Sprintf("Definition %s : list sitem := %s.", sname(sc, "tls"), coqList(sc.TLSs.CoqItems())))
				d.cf.Imports = imports + strings.Join(d.defs, "\n") + "\n"
				obs := d.one(sc, rp.Case.Fault, &bi)
				res.Sample(runCase{Scen: sc.Name, Fault: rp.Case.Fault, Obs: &obs})
			}
		}
	} else {
		// seeded part: every scripted scenario once more with its peer stream cut into
		// smaller Reads at tag boundaries drawn from the seed
		rnd := hx.NewRand(o.Seed)
		var variants []*fx.Scenario
		rounds := 1
		if d.thor {
			rounds = 4
		}
		for round := 0; round < rounds; round++ {
			for _, sc := range scens {
				if sc.TLS || sc.NoReseg || sc.Lite > 0 {
					continue
				}
				v := *sc
				v.Name = sc.Name + "~seg"
				if round > 0 {
					v.Name = fmt.Sprintf("%s~seg%d", sc.Name, round)
				}
				r := rnd.Fork()
				v.Clear = fx.Resegment(sc.Clear, r.Intn)
				if len(v.Clear) == len(sc.Clear) {
					continue // nothing was split
				}
				variants = append(variants, &v)
			}
		}
		for _, sc := range append(scens, variants...) {
			d.enumerate(sc)
		}
		for i, sc := range scens {
			if i >= 3 {
				break
			}
			res.Sample(map[string]any{"scenario": sc.Name, "entry": sc.Entry, "peer_bytes": sc.Clear.Len()})
		}
	}
	res.CaseFiles = d.cf.Write(o.Out, 400)
	res.Extra["model_cases"] = d.cf.Len()
	res.Extra["exhaustive"] = true
	res.Write(o.Out)
}
