#!/bin/sh
# modelmut.sh CASEDIR — does the case set written by the harness pin the Coq model down?
#
# Evaluates the case files c4_*.v of CASEDIR (VERIF_KEEP_WORK=1 ./check C04 keeps them in
# work/C04) against perturbed copies of coq/C04/Model.v and prints, per perturbation, how
# many cases disagree. 0 for a perturbation means that no scenario reaches the perturbed
# branch of the model: that branch is then not validated against the library and a
# scenario should be added. These are mutants of the MODEL (coverage of the tie); mutants
# of the library are a different exercise (design/C04.md).
#
# A perturbation whose sed does not apply, a model that no longer compiles and a case file
# that cannot be evaluated are reported as such, never as "0".
set -u
CASES=${1:?usage: modelmut.sh CASEDIR}
COQ=$(cd "$(dirname "$0")/../../coq" && pwd)
W=$(mktemp -d /tmp/c04-modelmut.XXXXXX)
trap 'rm -rf "$W"' EXIT
mkdir -p "$W/mut/C04m"
total=$(cat "$CASES"/c4_*.jsonl | wc -l)

evalcases() { # prints the number of disagreeing cases, or a message starting with "!"
  out=$(coqc -R "$COQ" XV -R "$W/mut" XM "$W/mut/C04m/Model.v" 2>&1)
  if [ -n "$out" ]; then echo "! model does not compile: $(echo "$out" | tr '\n' ' ' | cut -c1-160)"; return; fi
  tot=0
  for f in "$CASES"/c4_*.v; do
    sed 's/From XV Require Import lib.Bytes C04.Model./From XV Require Import lib.Bytes. From XM Require Import C04m.Model./' "$f" > "$W/m.v"
    o=$(cd "$W" && coqc -R "$COQ" XV -R "$W/mut" XM m.v 2>&1 | tr '\n' ' ')
    if ! echo "$o" | grep -q 'bad = *\['; then echo "! case file not evaluated: $(echo "$o" | cut -c1-160)"; return; fi
    n=$(echo "$o" | grep -o 'bad = *\[[^]]*\]' | grep -o '[0-9]\+%nat' | wc -l)
    tot=$((tot + n))
  done
  echo "$tot"
}

mut() { # name, sed expression
  sed "$2" "$COQ/C04/Model.v" > "$W/mut/C04m/Model.v"
  if cmp -s "$W/mut/C04m/Model.v" "$COQ/C04/Model.v"; then echo "NOT APPLIED  $1 (the sed expression no longer matches Model.v)"; return; fi
  r=$(evalcases)
  case "$r" in
    "!"*) echo "BROKEN       $1: $r" ;;
    0) echo "MISSED       $1: 0 of $total cases disagree" ;;
    *) echo "caught       $1: $r of $total cases disagree" ;;
  esac
}

cp "$COQ/C04/Model.v" "$W/mut/C04m/Model.v"
echo "control      identical copy of the model: $(evalcases) of $total cases disagree (must be 0)"
mut "SASL <success/> flush unchecked (wru instead of wr: the code before its repair)" 's/  wr WSuccess ;;;/  wru WSuccess ;;;/'
mut "no ctx test after the negotiator call (the code before its repair)" '/^Fixpoint session/,/^  end\./ s/      ctx ;;;.*$/      Ret tt ;;;/'
# (no perturbation of Model.finish: since features.go stopped applying a feature's Ready bit early, the
#  clearing of Ready on error returns cannot be observed; C04_error_state_not_ready_before_clearing
#  proves the property without it)
mut "bind: stanza error of the callback answered and the session reported ready (before its repair)" 's/| VBind e => match e with BOk => false | _ => true end/| VBind e => match e with BErr => true | _ => false end/'
mut "ctx_done off by one (<=?)" 's/Some c => c <? w_ops w/Some c => c <=? w_ops w/'
mut "Expect without its ctx test" '/^Fixpoint expect/,/^  end\./ s/      ctx ;;;/      Ret tt ;;;/'
mut "Ready granted although the list has a required feature" 's/| RSNone => if ready || negb (fl_req l) then/| RSNone => if true then/'
mut "Ready bit reported by a voluntary feature forgotten at the end of the list" 's/| RSNone => if ready || negb (fl_req l) then/| RSNone => if negb (fl_req l) then/'
mut "Ready bit of a feature applied at once (features.go before 7abe030)" 's/  or_bits (N.ldiff (fst o) st_Ready) ;;;/  or_bits (fst o) ;;;/'
mut "features whose prerequisites do not hold are not cached (features.go before ca01fdb)" "s/(cache_add f req' (fl_cache acc1)))/(if allowed ft bits then cache_add f req' (fl_cache acc1) else fl_cache acc1))/"
mut "error of a custom List step swallowed (seeded change m8)" 's/  | VList _ e => e/  | VList _ e => false/'
mut "error of a custom Parse step swallowed" 's/  | VParse _ e => e/  | VParse _ e => false/'
mut "deadline not kept expired after the cancellation (session.go before e0a2b45)" 's/| Some c => p_deadline pl \&\& watched pl \&\& ((c <? i) || ((i =? c) \&\& p_entry pl))/| Some c => p_deadline pl \&\& watched pl \&\& ((i =? c) \&\& p_entry pl)/'
mut "restart keeps the tokens buffered by the old decoder" 's/| RSSame => mkW (w_ops w) (drop_to_brk (w_script w))/| RSSame => mkW (w_ops w) (w_script w)/'
mut "List error without the deferred partial flush" 's/                      (fun _ => wru WPartial ;;; Fail)/                      (fun _ => Fail)/'
mut "mask of a feature applied only by the session loop (not in negotiateFeatures)" 's/  or_bits (N.ldiff (fst o) st_Ready) ;;;/  Ret tt ;;;/'
mut "voluntary feature ends the selection loop" "/^Fixpoint init_loop/,/^  end\./ s/| RSNone => if req then Ret (after_loop l ready' o)/| RSNone => if true then Ret (after_loop l ready' o)/"
mut "component: <handshake/> accepted without reading its end" 's/| Open KHandshake => guard id ;;; skip n 0 ;;;/| Open KHandshake => guard id ;;;/'
mut "bind result accepted without reading the whole element" 's/| Open (KIq ok) => skip n 0 ;;; guard ok ;;; Ret (st_Ready, RSNone)/| Open (KIq ok) => guard ok ;;; Ret (st_Ready, RSNone)/'
mut "ws: <open/> accepted without reading its end" 's/(if ws then skip n'"'"' 0 else Ret tt) ;;;/Ret tt ;;;/'
mut "starttls client: <proceed> accepted without reading its end" 's/| Open (KSel _ EProceed) => skip n 0 ;;; Ret (st_Secure, RSTls)/| Open (KSel _ EProceed) => Ret (st_Secure, RSTls)/'
mut "a context that carries a deadline is not watched (seeded change m9)" 's/  if p_ctx_deadline pl then setdeadline_watcher_unconditional else true\./  if p_ctx_deadline pl then false else true./'

