package fx

import "fmt"

const (
	nsStreams = "http://etherx.jabber.org/streams"
	nsTLS     = "urn:ietf:params:xml:ns:xmpp-tls"
	nsSASL    = "urn:ietf:params:xml:ns:xmpp-sasl"
	nsBind    = "urn:ietf:params:xml:ns:xmpp-bind"
	nsFraming = "urn:ietf:params:xml:ns:xmpp-framing"
)

const (
	bSecure = 1
	bAuthn  = 2
	bReady  = 4
)

func kHdr(valid, addr, id bool) string {
	return fmt.Sprintf("KHdr %s %s %s", coqBool(valid), coqBool(addr), coqBool(id))
}
func kFeat(i int, req, perr bool) string {
	return fmt.Sprintf("KFeat %d%%nat %s %s", i, coqBool(req), coqBool(perr))
}
func kSel(i int, e string) string { return fmt.Sprintf("KSel %d%%nat (%s)", i, e) }

// ---- headers

// what a server answers an initiating client
func srvHeader(version string, valid bool) Seg {
	return HdrSeg(Decl(`<?xml version='1.0'?>`),
		S(`<stream:stream xmlns='jabber:client' xmlns:stream='`+nsStreams+`' version='`+version+`' id='s1' from='example.net' to='me@example.net'>`, kHdr(valid, true, true)))
}

// the same with white space between the declaration and the start tag
func srvHeaderSpaced() Seg {
	return HdrSeg(Decl(`<?xml version='1.0'?>`), X("\n  "),
		S(`<stream:stream xmlns='jabber:client' xmlns:stream='`+nsStreams+`' version='1.0' id='s1' from='example.net' to='me@example.net'>`, kHdr(true, true, true)))
}

// what a client sends a receiving server
func cliHeader() Seg {
	return HdrSeg(Decl(`<?xml version='1.0'?>`),
		S(`<stream:stream xmlns='jabber:client' xmlns:stream='`+nsStreams+`' version='1.0' to='example.net' from='me@example.net'>`, kHdr(true, true, false)))
}

func wsSrvOpen() Seg {
	return HdrSeg(SC(`<open xmlns="`+nsFraming+`" version="1.0" id="s1" from="example.net" to="me@example.net"/>`, kHdr(true, true, true)))
}

func wsCliOpen() Seg {
	return HdrSeg(SC(`<open xmlns="`+nsFraming+`" version="1.0" to="example.net" from="me@example.net"/>`, kHdr(true, true, false)))
}

// ---- features lists (what a server advertises)

func featuresSeg(ws bool, children ...[]Unit) Seg {
	open, close := `<stream:features>`, `</stream:features>`
	if ws {
		open, close = `<features xmlns="`+nsStreams+`">`, `</features>`
	}
	us := []Unit{S(open, "KFeatures")}
	for _, c := range children {
		us = append(us, c...)
	}
	us = append(us, E(close))
	return SegOf(us...)
}

func emptyFeatures(ws bool) Seg {
	if ws {
		return SegOf(SC(`<features xmlns="`+nsStreams+`"/>`, "KFeatures"))
	}
	return SegOf(SC(`<stream:features/>`, "KFeatures"))
}

func advStartTLS(i int, req bool) []Unit {
	if !req {
		return []Unit{SC(`<starttls xmlns='`+nsTLS+`'/>`, kFeat(i, false, false))}
	}
	return []Unit{S(`<starttls xmlns='`+nsTLS+`'>`, kFeat(i, true, false)), SC(`<required/>`, "KInner"), E(`</starttls>`)}
}

func advSASL(i int, mech string) []Unit {
	return []Unit{S(`<mechanisms xmlns='`+nsSASL+`'>`, kFeat(i, true, false)),
		S(`<mechanism>`, "KInner"), X(mech), E(`</mechanism>`), E(`</mechanisms>`)}
}

func advBind(i int) []Unit {
	return []Unit{SC(`<bind xmlns='`+nsBind+`'/>`, kFeat(i, true, false))}
}

func advCustom(i int, fs FeatSpec, req, perr bool) []Unit {
	s := "<" + fs.Local + " xmlns='" + fs.Space + "'"
	if req {
		s += " req='1'"
	}
	if perr {
		s += " perr='1'"
	}
	return []Unit{SC(s+"/>", kFeat(i, req, perr))}
}

// ---- server replies

func proceed(i int) Seg { return SegOf(SC(`<proceed xmlns='`+nsTLS+`'/>`, kSel(i, "EProceed"))) }
func tlsFailure(i int) Seg {
	return SegOf(SC(`<failure xmlns='`+nsTLS+`'/>`, kSel(i, "ETlsFailure")))
}
func saslSuccess(i int) Seg {
	return SegOf(S(`<success xmlns='`+nsSASL+`'>`, kSel(i, "ESuccess true")), E(`</success>`))
}
func saslChallenge(i int) Seg {
	return SegOf(S(`<challenge xmlns='`+nsSASL+`'>`, kSel(i, "EChallenge true")), X("eA=="), E(`</challenge>`))
}
func saslFailure(i int) Seg {
	return SegOf(S(`<failure xmlns='`+nsSASL+`'>`, kSel(i, "ESaslFailure")), SC(`<not-authorized/>`, "KInner"), E(`</failure>`))
}
func bindResult(ws bool) Seg {
	x := ""
	if ws {
		x = ` xmlns='jabber:client'`
	}
	return SegOf(S(`<iq`+x+` type='result' id='`+BindIDPlaceholder+`'>`, "KIq true"),
		S(`<bind xmlns='`+nsBind+`'>`, "KInner"), S(`<jid>`, "KInner"), X("me@example.net/r1"), E(`</jid>`), E(`</bind>`), E(`</iq>`))
}
func bindErrorResult(ws bool) Seg {
	x := ""
	if ws {
		x = ` xmlns='jabber:client'`
	}
	return SegOf(S(`<iq`+x+` type='error' id='`+BindIDPlaceholder+`'>`, "KIq false"),
		S(`<error type='cancel'>`, "KInner"), SC(`<conflict xmlns='urn:ietf:params:xml:ns:xmpp-stanzas'/>`, "KInner"), E(`</error>`), E(`</iq>`))
}

// ---- client requests

func reqStartTLS(i int) Seg { return SegOf(SC(`<starttls xmlns='`+nsTLS+`'/>`, kSel(i, "EStarttls"))) }
func reqAuth(i int, mech, payload string) Seg {
	known := mech == "PLAIN" || mech == "X-SCRIPTED"
	return SegOf(S(`<auth xmlns='`+nsSASL+`' mechanism='`+mech+`'>`, kSel(i, "EAuth "+coqBool(known)+" true")), X(payload), E(`</auth>`))
}
func reqResponse(i int) Seg {
	return SegOf(S(`<response xmlns='`+nsSASL+`'>`, kSel(i, "EResponse true")), X("eA=="), E(`</response>`))
}
func reqBind(i int, ws bool) Seg {
	x := ""
	if ws {
		x = ` xmlns='jabber:client'`
	}
	return SegOf(S(`<iq`+x+` type='set' id='b1'>`, "KIq false"), SC(`<bind xmlns='`+nsBind+`'/>`, kSel(i, "EBindReq")), E(`</iq>`))
}
func reqCustom(i int, fs FeatSpec) Seg {
	return SegOf(SC("<"+fs.Local+" xmlns='"+fs.Space+"'/>", kSel(i, "ECustom")))
}

const plainOK = "AG1lAHNlY3JldA==" // \0me\0secret

var (
	fStartTLS = FeatSpec{Kind: "starttls"}
	fSASL     = FeatSpec{Kind: "sasl"}
	fBind     = FeatSpec{Kind: "bind"}
	// a required feature that completes the session by itself
	fReady = FeatSpec{Kind: "custom", Space: "urn:x:ready", Local: "r", Neg: true, LReq: true}
	// a voluntary feature
	fVol  = FeatSpec{Kind: "custom", Space: "urn:x:vol", Local: "v", Neg: true}
	fVol2 = FeatSpec{Kind: "custom", Space: "urn:x:vol2", Local: "w", Neg: true}
	// a feature whose List fails
	fListErr = FeatSpec{Kind: "custom", Space: "urn:x:lerr", Local: "l", Neg: true, LErr: true, LMessy: true}
)

// Scenarios returns the handshakes the enumeration runs over.
func Scenarios() []*Scenario {
	var out []*Scenario
	add := func(sc *Scenario) { out = append(out, sc) }

	// ---- plain c2s: features -> Ready
	add(&Scenario{Name: "init-plain", Entry: "initiator/plain", Neg: "std", WantOK: true,
		Clear: Stream{srvHeader("1.0", true), emptyFeatures(false)}})
	add(&Scenario{Name: "init-plain-spaced", Entry: "initiator/plain", Neg: "std", WantOK: true,
		Clear: Stream{srvHeaderSpaced(), SegOf(S(`<stream:features>`, "KFeatures"), E(`</stream:features>`))}})
	add(&Scenario{Name: "init-plain-onechunk", Entry: "initiator/plain", Neg: "std", WantOK: true,
		Clear: Stream{HdrSeg(append(srvHeader("1.0", true).Units, emptyFeatures(false).Units...)...)}})
	add(&Scenario{Name: "init-plain-rw", Entry: "initiator/plain", Neg: "std", WantOK: true, RWOnly: true,
		Clear: Stream{srvHeader("1.0", true), emptyFeatures(false)}})
	add(&Scenario{Name: "recv-plain", Entry: "receiver/plain", Neg: "std", Recv: true, WantOK: true,
		Feats: []FeatSpec{fReady}, Outs: map[int][]SVal{0: {{K: "out", Mask: bReady}}},
		Clear: Stream{cliHeader(), reqCustom(0, fReady)}})

	// ---- SASL (PLAIN) + bind on a connection that is already secure
	sb := []FeatSpec{fSASL, fBind}
	add(&Scenario{Name: "init-sasl-bind", Entry: "initiator/sasl-bind", Neg: "std", Bits: bSecure, WantOK: true, Feats: sb,
		Clear: Stream{srvHeader("1.0", true), featuresSeg(false, advSASL(0, "PLAIN")), saslSuccess(0),
			srvHeader("1.0", true), featuresSeg(false, advBind(1)), bindResult(false)}})
	add(&Scenario{Name: "init-sasl-bind-rw", Entry: "initiator/sasl-bind", Neg: "std", Bits: bSecure, WantOK: true, Feats: sb, RWOnly: true,
		Clear: Stream{srvHeader("1.0", true), featuresSeg(false, advSASL(0, "PLAIN")), saslSuccess(0),
			srvHeader("1.0", true), featuresSeg(false, advBind(1)), bindResult(false)}})
	add(&Scenario{Name: "recv-sasl-bind", Entry: "receiver/sasl-bind", Neg: "std", Recv: true, Bits: bSecure, WantOK: true, Feats: sb,
		Clear: Stream{cliHeader(), reqAuth(0, "PLAIN", plainOK), cliHeader(), reqBind(1, false)}})

	// ---- STARTTLS + SASL + bind over real crypto/tls
	tsb := []FeatSpec{fStartTLS, fSASL, fBind}
	add(&Scenario{Name: "init-tls", Entry: "initiator/starttls-sasl-bind", Neg: "std", WantOK: true, Feats: tsb, TLS: true,
		Clear: Stream{srvHeader("1.0", true), featuresSeg(false, advStartTLS(0, true)), proceed(0)},
		TLSs: Stream{srvHeader("1.0", true), featuresSeg(false, advSASL(1, "PLAIN")), saslSuccess(1),
			srvHeader("1.0", true), featuresSeg(false, advBind(2)), bindResult(false)}})
	add(&Scenario{Name: "recv-tls", Entry: "receiver/starttls-sasl-bind", Neg: "std", Recv: true, WantOK: true, Feats: tsb, TLS: true,
		Clear: Stream{cliHeader(), reqStartTLS(0)},
		TLSs:  Stream{cliHeader(), reqAuth(1, "PLAIN", plainOK), cliHeader(), reqBind(2, false)}})
	add(&Scenario{Name: "init-tls-proceed-open", Entry: "initiator/starttls-sasl-bind", Neg: "std", WantOK: true, Feats: tsb, TLS: true,
		Clear: Stream{srvHeader("1.0", true), featuresSeg(false, advStartTLS(0, true)),
			SegOf(S(`<proceed xmlns='`+nsTLS+`'>`, kSel(0, "EProceed")), E(`</proceed>`))},
		TLSs: Stream{srvHeader("1.0", true), featuresSeg(false, advSASL(1, "PLAIN")), saslSuccess(1),
			srvHeader("1.0", true), featuresSeg(false, advBind(2)), bindResult(false)}})
	add(&Scenario{Name: "init-tls-badcert", Entry: "initiator/starttls-sasl-bind", Neg: "std", Feats: tsb, TLS: true, HSBad: true,
		Clear: Stream{srvHeader("1.0", true), featuresSeg(false, advStartTLS(0, true)), proceed(0)},
		TLSs:  Stream{srvHeader("1.0", true)}})

	// ---- WebSocket framing
	add(&Scenario{Name: "ws-init-plain", Entry: "ws-initiator/plain", Neg: "ws", WantOK: true,
		Clear: Stream{wsSrvOpen(), emptyFeatures(true)}})
	add(&Scenario{Name: "ws-init-sasl-bind", Entry: "ws-initiator/sasl-bind", Neg: "ws", Bits: bSecure, WantOK: true, Feats: sb,
		Clear: Stream{wsSrvOpen(), featuresSeg(true, advSASL(0, "PLAIN")), saslSuccess(0),
			wsSrvOpen(), featuresSeg(true, advBind(1)), bindResult(true)}})
	add(&Scenario{Name: "ws-recv-sasl-bind", Entry: "ws-receiver/sasl-bind", Neg: "ws", Recv: true, Bits: bSecure, WantOK: true, Feats: sb,
		Clear: Stream{wsCliOpen(), reqAuth(0, "PLAIN", plainOK), wsCliOpen(), reqBind(1, true)}})
	add(&Scenario{Name: "ws-recv-plain", Entry: "ws-receiver/plain", Neg: "ws", Recv: true, WantOK: true,
		Feats: []FeatSpec{fReady}, Outs: map[int][]SVal{0: {{K: "out", Mask: bReady}}},
		Clear: Stream{wsCliOpen(), reqCustom(0, fReady)}})

	// ---- component handshake
	compHdr := HdrSeg(Decl(`<?xml version='1.0'?>`),
		S(`<stream:stream xmlns='jabber:component:accept' xmlns:stream='`+nsStreams+`' id='c1' from='comp.example.net'>`, kHdr(true, true, true)))
	add(&Scenario{Name: "comp-init", Entry: "component-initiator/handshake", Neg: "comp", WantOK: true,
		Clear: Stream{compHdr, SegOf(S(`<handshake>`, "KHandshake"), E(`</handshake>`))}})
	add(&Scenario{Name: "comp-init-selfclosed", Entry: "component-initiator/handshake", Neg: "comp", WantOK: true,
		Clear: Stream{compHdr, SegOf(SC(`<handshake/>`, "KHandshake"))}})
	add(&Scenario{Name: "comp-init-error", Entry: "component-initiator/handshake", Neg: "comp",
		Clear: Stream{compHdr, SegOf(S(`<stream:error>`, "KCompErr"), SC(`<not-authorized xmlns='urn:ietf:params:xml:ns:xmpp-streams'/>`, "KInner"), E(`</stream:error>`))}})
	add(&Scenario{Name: "comp-recv", Entry: "component-receiver/handshake", Neg: "comp", Recv: true,
		Clear: Stream{compHdr}})

	// ---- handshakes with a failing voluntary feature
	vsb := []FeatSpec{fVol, fSASL, fBind}
	add(&Scenario{Name: "init-volfail", Entry: "initiator/failing-voluntary", Neg: "std", Bits: bSecure, Feats: vsb,
		Outs:  map[int][]SVal{0: {{K: "out", Mask: bReady | bAuthn, Err: true}}},
		Clear: Stream{srvHeader("1.0", true), featuresSeg(false, advCustom(0, fVol, false, false), advSASL(1, "PLAIN"))}})
	add(&Scenario{Name: "init-volfail-alone", Entry: "initiator/failing-voluntary", Neg: "std", Feats: []FeatSpec{fVol},
		Outs:  map[int][]SVal{0: {{K: "out", Mask: bReady, Err: true}}},
		Clear: Stream{srvHeader("1.0", true), featuresSeg(false, advCustom(0, fVol, false, false))}})
	add(&Scenario{Name: "init-volok", Entry: "initiator/voluntary-then-sasl-bind", Neg: "std", Bits: bSecure, WantOK: true, Feats: vsb,
		Outs: map[int][]SVal{0: {{K: "out"}}},
		Clear: Stream{srvHeader("1.0", true), featuresSeg(false, advCustom(0, fVol, false, false), advSASL(1, "PLAIN")), saslSuccess(1),
			srvHeader("1.0", true), featuresSeg(false, advBind(2)), bindResult(false)}})
	add(&Scenario{Name: "recv-volfail", Entry: "receiver/failing-voluntary", Neg: "std", Recv: true, Feats: []FeatSpec{fVol, fReady},
		Outs:  map[int][]SVal{0: {{K: "out", Mask: bReady | bAuthn, Err: true}}, 1: {{K: "out", Mask: bReady}}},
		Clear: Stream{cliHeader(), reqCustom(0, fVol), reqCustom(1, fReady)}})
	add(&Scenario{Name: "recv-volok", Entry: "receiver/voluntary-then-required", Neg: "std", Recv: true, WantOK: true, Feats: []FeatSpec{fVol, fReady},
		Outs:  map[int][]SVal{0: {{K: "out"}}, 1: {{K: "out", Mask: bReady}}},
		Clear: Stream{cliHeader(), reqCustom(0, fVol), reqCustom(1, fReady)}})

	// ---- failing steps of other kinds (the un-faulted run already ends in an error)
	add(&Scenario{Name: "init-parse-error", Entry: "initiator/failing-parse", Neg: "std", Feats: []FeatSpec{fVol},
		Clear: Stream{srvHeader("1.0", true), featuresSeg(false, advCustom(0, fVol, false, true))}})
	add(&Scenario{Name: "recv-list-error", Entry: "receiver/failing-list", Neg: "std", Recv: true, Feats: []FeatSpec{fReady, fListErr},
		Outs:  map[int][]SVal{0: {{K: "out", Mask: bReady}}},
		Clear: Stream{cliHeader(), reqCustom(0, fReady)}})
	add(&Scenario{Name: "init-sasl-badpass", Entry: "initiator/sasl-failure", Neg: "std", Bits: bSecure, Feats: sb,
		Clear: Stream{srvHeader("1.0", true), featuresSeg(false, advSASL(0, "PLAIN")), saslFailure(0)}})
	add(&Scenario{Name: "recv-sasl-badpass", Entry: "receiver/sasl-failure", Neg: "std", Recv: true, Bits: bSecure, Feats: sb,
		Clear: Stream{cliHeader(), reqAuth(0, "PLAIN", "AG1lAHdyb25n"), cliHeader(), reqBind(1, false)}})
	add(&Scenario{Name: "recv-bind-cberr", Entry: "receiver/bind-callback-error", Neg: "std", Recv: true, Bits: bSecure, Feats: sb, BindErr: true,
		Clear: Stream{cliHeader(), reqAuth(0, "PLAIN", plainOK), cliHeader(), reqBind(1, false)}})
	add(&Scenario{Name: "recv-bind-stanzaerr", Entry: "receiver/bind-callback-stanza-error", Neg: "std", Recv: true, Bits: bSecure, Feats: sb, BindStanzaErr: true,
		Clear: Stream{cliHeader(), reqAuth(0, "PLAIN", plainOK), cliHeader(), reqBind(1, false)}})
	add(&Scenario{Name: "init-bind-error", Entry: "initiator/bind-error", Neg: "std", Bits: bSecure | bAuthn, Feats: sb,
		Clear: Stream{srvHeader("1.0", true), featuresSeg(false, advBind(1)), bindErrorResult(false)}})
	add(&Scenario{Name: "init-tls-refused", Entry: "initiator/starttls-refused", Neg: "std", Feats: tsb,
		Clear: Stream{srvHeader("1.0", true), featuresSeg(false, advStartTLS(0, false)), tlsFailure(0)}})
	add(&Scenario{Name: "init-bad-header", Entry: "initiator/bad-header", Neg: "std",
		Clear: Stream{srvHeader("0.9", false), emptyFeatures(false)}})

	// ---- a List step (receiver) / Parse step (initiator) that fails by itself, without any
	// connection fault, for a voluntary and for a required feature, before and after a feature
	// that could complete the session, with both negotiators
	for _, neg := range []string{"std", "ws"} {
		ws := neg == "ws"
		for _, req := range []bool{false, true} {
			for _, first := range []bool{true, false} {
				tag := fmt.Sprintf("%s-%s-%s", neg, map[bool]string{false: "voluntary", true: "required"}[req], map[bool]string{true: "first", false: "last"}[first])
				bad := FeatSpec{Kind: "custom", Space: "urn:x:bad", Local: "b", Neg: true, LReq: req, LErr: true}
				feats, iBad, iOK := []FeatSpec{bad, fReady}, 0, 1
				if !first {
					feats, iBad, iOK = []FeatSpec{fReady, bad}, 1, 0
				}
				hdrC, hdrS := cliHeader(), srvHeader("1.0", true)
				if ws {
					hdrC, hdrS = wsCliOpen(), wsSrvOpen()
				}
				add(&Scenario{Name: "recv-list-fails-" + tag, Entry: map[bool]string{false: "receiver", true: "ws-receiver"}[ws] + "/failing-list", Neg: neg, Recv: true, Feats: feats,
					Outs:  map[int][]SVal{iOK: {{K: "out", Mask: bReady}}},
					Clear: Stream{hdrC, reqCustom(iOK, fReady)}})
				// the initiator's features: Parse of the advertisement of bad fails (perr)
				pfeats := make([]FeatSpec, len(feats))
				copy(pfeats, feats)
				pfeats[iBad].LErr = false
				adv := [][]Unit{advCustom(iBad, bad, req, true), advCustom(iOK, fReady, true, false)}
				if !first {
					adv = [][]Unit{advCustom(iOK, fReady, true, false), advCustom(iBad, bad, req, true)}
				}
				add(&Scenario{Name: "init-parse-fails-" + tag, Entry: map[bool]string{false: "initiator", true: "ws-initiator"}[ws] + "/failing-parse", Neg: neg, Feats: pfeats,
					Outs:  map[int][]SVal{iOK: {{K: "out", Mask: bReady}}},
					Clear: Stream{hdrS, featuresSeg(ws, adv...)}})
			}
		}
	}

	// ---- features.go's current rules: a feature whose prerequisites do not hold when the list is
	// read is still cached and becomes negotiable once another feature of the list has set the
	// bit it needs; the Ready bit of a voluntary feature takes effect at the end of the list only
	fNeedsAuthn := FeatSpec{Kind: "custom", Space: "urn:x:late", Local: "t", Neg: true, Nec: bAuthn}
	fGivesAuthn := FeatSpec{Kind: "custom", Space: "urn:x:early", Local: "e", Neg: true}
	add(&Scenario{Name: "init-late-prerequisite", Entry: "initiator/prerequisite-met-later", Neg: "std", WantOK: true, Feats: []FeatSpec{fNeedsAuthn, fGivesAuthn},
		Outs:  map[int][]SVal{0: {{K: "out", Mask: bReady}}, 1: {{K: "out", Mask: bAuthn}}},
		Clear: Stream{srvHeader("1.0", true), featuresSeg(false, advCustom(0, fNeedsAuthn, true, false), advCustom(1, fGivesAuthn, false, false))}})
	add(&Scenario{Name: "init-none-allowed", Entry: "initiator/nothing-negotiable", Neg: "std", Feats: []FeatSpec{fNeedsAuthn},
		Clear: Stream{srvHeader("1.0", true), featuresSeg(false, advCustom(0, fNeedsAuthn, true, false))}})
	add(&Scenario{Name: "init-volready-then-ok", Entry: "initiator/voluntary-reports-ready", Neg: "std", WantOK: true, Feats: []FeatSpec{fVol, fVol2},
		Outs:  map[int][]SVal{0: {{K: "out", Mask: bReady}}, 1: {{K: "out", Mask: bAuthn}}},
		Clear: Stream{srvHeader("1.0", true), featuresSeg(false, advCustom(0, fVol, false, false), advCustom(1, fVol2, true, false))}})
	// (bind is prohibited once Ready is set: it is still negotiated after a voluntary feature
	// reported Ready, because that bit is not applied before the end of the list)
	add(&Scenario{Name: "init-volready-then-bind", Entry: "initiator/voluntary-reports-ready", Neg: "std", Bits: bSecure | bAuthn, WantOK: true, Feats: []FeatSpec{fVol, fBind},
		Outs:  map[int][]SVal{0: {{K: "out", Mask: bReady}}},
		Clear: Stream{srvHeader("1.0", true), featuresSeg(false, advCustom(0, fVol, false, false), advBind(1)), bindResult(false)}})
	add(&Scenario{Name: "recv-volready-then-required", Entry: "receiver/voluntary-reports-ready", Neg: "std", Recv: true, WantOK: true,
		Feats: []FeatSpec{fVol, FeatSpec{Kind: "custom", Space: "urn:x:req", Local: "q", Neg: true, LReq: true}},
		Outs:  map[int][]SVal{0: {{K: "out", Mask: bReady}}, 1: {{K: "out"}}},
		Clear: Stream{cliHeader(), reqCustom(0, fVol), SegOf(SC("<q xmlns='urn:x:req'/>", kSel(1, "ECustom")))}})

	// ---- a multi-step SASL mechanism (scripted): challenge/response loops under faults
	more, last := SVal{K: "step", More: true}, SVal{K: "step"}
	add(&Scenario{Name: "init-sasl-steps", Entry: "initiator/sasl-multistep", Neg: "std", Bits: bSecure, WantOK: true, Feats: sb,
		Steps: []SVal{more, more, last},
		Clear: Stream{srvHeader("1.0", true), featuresSeg(false, advSASL(0, "X-SCRIPTED")), saslChallenge(0), saslChallenge(0), saslSuccess(0),
			srvHeader("1.0", true), featuresSeg(false, advBind(1)), bindResult(false)}})
	add(&Scenario{Name: "recv-sasl-steps", Entry: "receiver/sasl-multistep", Neg: "std", Recv: true, Bits: bSecure, WantOK: true, Feats: sb,
		Steps: []SVal{more, more, last},
		Clear: Stream{cliHeader(), reqAuth(0, "X-SCRIPTED", "eA=="), reqResponse(0), reqResponse(0), cliHeader(), reqBind(1, false)}})

	// ---- a required feature that neither restarts the stream nor completes the session: the
	// negotiator is called again without a header exchange and negotiates the next list
	fReq := FeatSpec{Kind: "custom", Space: "urn:x:req", Local: "q", Neg: true, LReq: true}
	add(&Scenario{Name: "init-required-then-more", Entry: "initiator/required-without-ready", Neg: "std", WantOK: true, Feats: []FeatSpec{fReq},
		Outs:  map[int][]SVal{0: {{K: "out"}}},
		Clear: Stream{srvHeader("1.0", true), featuresSeg(false, advCustom(0, fReq, true, false)), emptyFeatures(false)}})
	add(&Scenario{Name: "recv-required-then-more", Entry: "receiver/required-without-ready", Neg: "std", Recv: true, WantOK: true, Feats: []FeatSpec{fReq, fReady},
		Outs:  map[int][]SVal{0: {{K: "out"}}, 1: {{K: "out", Mask: bReady}}},
		Clear: Stream{cliHeader(), reqCustom(0, fReq), reqCustom(1, fReady)}})

	// ---- the peer pipelines its next stream header behind the element that restarts the
	// stream, in the same Read: the bytes sit in the old decoder's buffer and are lost
	add(&Scenario{Name: "init-pipelined-behind-success", Entry: "initiator/pipelined-behind-restart", Neg: "std", Bits: bSecure, Feats: sb, NoReseg: true,
		Clear: Stream{srvHeader("1.0", true), featuresSeg(false, advSASL(0, "PLAIN")),
			SegOf(append(saslSuccess(0).Units, srvHeader("1.0", true).Units...)...),
			featuresSeg(false, advBind(1)), bindResult(false)}})
	add(&Scenario{Name: "recv-pipelined-behind-auth", Entry: "receiver/pipelined-behind-restart", Neg: "std", Recv: true, Bits: bSecure, Feats: sb, NoReseg: true,
		Clear: Stream{cliHeader(), SegOf(append(reqAuth(0, "PLAIN", plainOK).Units, cliHeader().Units...)...), reqBind(1, false)}})

	// ---- a voluntary feature that reports Ready, followed by a failing one (features.go keeps the bit)
	// (the second one is required, so the voluntary one is always picked first)
	add(&Scenario{Name: "init-volready-then-fail", Entry: "initiator/voluntary-reports-ready", Neg: "std", Feats: []FeatSpec{fVol, fVol2},
		Outs:  map[int][]SVal{0: {{K: "out", Mask: bReady}}, 1: {{K: "out", Err: true}}},
		Clear: Stream{srvHeader("1.0", true), featuresSeg(false, advCustom(0, fVol, false, false), advCustom(1, fVol2, true, false))}})
	// ---- every reply the peer is expected to give (stream header, features list, <proceed/>,
	// <success/>, <challenge/>, bind result, selections, <handshake/>) replaced by a stream
	// error (tcp: <stream:error>, ws: <error xmlns=streams>) or by the end of the stream
	// (</stream:stream>, ws: <close/>), with nothing after it; the cuts inside the replacement
	// are enumerated as for every scenario
	var derived []*Scenario
	for _, sc := range out {
		if !sc.WantOK || sc.TLS || sc.RWOnly || sc.NoReseg {
			continue
		}
		ws := sc.Neg == "ws"
		for i := range sc.Clear {
			prefix := append(Stream{}, sc.Clear[:i]...)
			off := prefix.Len()
			var se, end Seg
			if ws {
				se = SegOf(S(`<error xmlns="`+nsStreams+`">`, "KStreamErr"), SC(`<host-unknown xmlns='urn:ietf:params:xml:ns:xmpp-streams'/>`, "KInner"), E(`</error>`))
				end = SegOf(SC(`<close xmlns="`+nsFraming+`"/>`, "KOther"))
			} else {
				se = SegOf(S(`<stream:error>`, "KStreamErr"), SC(`<host-unknown xmlns='urn:ietf:params:xml:ns:xmpp-streams'/>`, "KInner"), E(`</stream:error>`))
				end = SegOf(E(`</stream:stream>`))
			}
			if sc.Neg == "comp" {
				// component.Negotiator looks at the local name only
				se.Units[0] = S(`<stream:error>`, "KCompErr")
			}
			mk := func(tag string, seg Seg, wantSE bool) {
				v := *sc
				v.Name = fmt.Sprintf("%s!%s%d", sc.Name, tag, i)
				v.Entry = sc.Entry + "/" + map[string]string{"se": "stream-error-in-place-of-reply", "end": "stream-end-in-place-of-reply"}[tag]
				v.WantOK = false
				v.Lite = off + 1
				v.WantStreamErr = wantSE
				v.Clear = append(prefix, seg)
				derived = append(derived, &v)
			}
			hdr := sc.Clear[i].Header
			if hdr && !ws && sc.Neg != "comp" {
				// in place of a tcp stream header nothing has declared the stream prefix yet
				se = SegOf(S(`<stream:error xmlns:stream='`+nsStreams+`'>`, "KStreamErr"), SC(`<host-unknown xmlns='urn:ietf:params:xml:ns:xmpp-streams'/>`, "KInner"), E(`</stream:error>`))
			}
			// where the library decodes the error: everywhere but the receiving side's
			// feature selection (policy-violation, itself a stream error) and the component's
			// stream header (a plain error)
			mk("se", se, !(sc.Neg == "comp" && hdr))
			if hdr && sc.Neg == "comp" {
				// the component negotiator only checks the name of the first start tag
				derived[len(derived)-1].Clear[i].Units[0] = S(`<stream:error>`, "KOther")
			}
			if !hdr || ws {
				// (a stream end tag in place of a tcp stream header is a tokenizer error, no token)
				mk("end", end, false)
			}
		}
	}
	return append(out, derived...)
}
