package fx

import (
	"bytes"
	"context"
	"crypto/tls"
	"encoding/xml"
	"errors"
	"io"
	"strings"
	"sync"

	"mellium.im/sasl"
	"mellium.im/xmlstream"
	"mellium.im/xmpp"
	"mellium.im/xmpp/jid"
	"mellium.im/xmpp/stanza"
)

// ErrScripted is what a scripted callback returns when told to fail.
var ErrScripted = errors.New("verif: scripted callback error")

// Recorder collects, in the order in which they happen, the model-level
// connection operations and the callbacks of one run. Everything the library
// does during negotiation happens on one goroutine.
type Recorder struct {
	mu     sync.Mutex
	Trace  []Ev
	Calls  []SVal
	CBErrs []string // callbacks that returned an error
	Masks  uint8    // OR of the masks of the Negotiate calls that returned no error
}

// maxEvents bounds the logs of one run: a handshake takes a few dozen events; a call that
// spins (it cannot be stopped) must not exhaust the memory while the watchdog runs.
const maxEvents = 20000

func (r *Recorder) add(e Ev) int {
	r.mu.Lock()
	defer r.mu.Unlock()
	if len(r.Trace) >= maxEvents {
		return -1
	}
	r.Trace = append(r.Trace, e)
	return len(r.Trace) - 1
}

func (r *Recorder) setOK(i int, ok bool) {
	if i < 0 {
		return
	}
	r.mu.Lock()
	r.Trace[i].OK = ok
	r.mu.Unlock()
}

func (r *Recorder) call(v SVal) {
	r.mu.Lock()
	if len(r.Calls) >= maxEvents {
		r.mu.Unlock()
		return
	}
	r.Calls = append(r.Calls, v)
	vv := v
	r.Trace = append(r.Trace, Ev{K: "call", V: &vv})
	r.mu.Unlock()
}

func (r *Recorder) cbErr(what string) {
	r.mu.Lock()
	if len(r.CBErrs) < maxEvents {
		r.CBErrs = append(r.CBErrs, what)
	}
	r.mu.Unlock()
}

// Classify names the element a Write carries (coq: wsite).
func Classify(b []byte) string {
	s := string(b)
	switch {
	case strings.HasPrefix(s, "<?xml"), strings.HasPrefix(s, "<stream:stream"), strings.HasPrefix(s, "<open "):
		return "WHeader"
	case strings.HasPrefix(s, "<stream:features"), strings.HasPrefix(s, "<features"):
		if strings.HasSuffix(s, "</stream:features>") || strings.HasSuffix(s, "</features>") {
			return "WFeatures"
		}
		return "WPartial"
	case strings.HasPrefix(s, "<starttls"):
		return "WStarttls"
	case strings.HasPrefix(s, "<proceed"):
		return "WProceed"
	case strings.HasPrefix(s, "<auth"):
		return "WAuth"
	case strings.HasPrefix(s, "<response"):
		return "WResponse"
	case strings.HasPrefix(s, "<challenge"):
		return "WChallenge"
	case strings.HasPrefix(s, "<success"):
		return "WSuccess"
	case strings.HasPrefix(s, "<failure"):
		return "WSaslFail"
	case strings.HasPrefix(s, "<iq"):
		if strings.Contains(s, `type="set"`) || strings.Contains(s, `type='set'`) {
			return "WBindReq"
		}
		return "WBindRes"
	case strings.HasPrefix(s, "<handshake"):
		return "WHandshake"
	}
	return "WUnknown"
}

// opConn is the TLS connection a STARTTLS negotiation returned, passed through
// unchanged; its Reads and Writes are the model-level operations of the TLS
// phase (the raw operations underneath are attributed to them).
type opConn struct {
	*tls.Conn
	p   *Pipe
	rec *Recorder
}

func (c *opConn) Read(b []byte) (int, error) {
	c.p.BeginModelOp()
	i := c.rec.add(Ev{K: "r"})
	n, err := c.Conn.Read(b)
	c.rec.setOK(i, err == nil)
	c.p.EndModelOp()
	return n, err
}

func (c *opConn) Write(b []byte) (int, error) {
	c.p.BeginModelOp()
	i := c.rec.add(Ev{K: "w", Site: Classify(b)})
	n, err := c.Conn.Write(b)
	c.rec.setOK(i, err == nil)
	c.p.EndModelOp()
	return n, err
}

// restartRW is what a scripted feature returns as its new io.ReadWriter.
type restartRW struct{ io.ReadWriter }

// Env is what the instrumented features of one run share.
type Env struct {
	Sc                   *Scenario
	Rec                  *Recorder
	Pipe                 *Pipe
	outs                 map[int]int // next scripted outcome per custom feature
	step                 int
	TLSClient, TLSServer *tls.Config
}

func (env *Env) wrap(i int, f xmpp.StreamFeature) xmpp.StreamFeature {
	rec := env.Rec
	list, parse, neg := f.List, f.Parse, f.Negotiate
	if list != nil {
		f.List = func(ctx context.Context, e xmlstream.TokenWriter, start xml.StartElement) (bool, error) {
			rec.add(Ev{K: "list", F: i})
			req, err := list(ctx, e, start)
			if err != nil {
				rec.cbErr("list")
			}
			return req, err
		}
	}
	if parse != nil {
		f.Parse = func(ctx context.Context, d *xml.Decoder, start *xml.StartElement) (bool, interface{}, error) {
			rec.add(Ev{K: "parse", F: i})
			req, data, err := parse(ctx, d, start)
			if err != nil {
				rec.cbErr("parse")
			}
			return req, data, err
		}
	}
	if neg != nil {
		f.Negotiate = func(ctx context.Context, s *xmpp.Session, data interface{}) (xmpp.SessionState, io.ReadWriter, error) {
			if !env.Sc.Recv {
				rec.call(SVal{K: "choice", F: i})
			}
			rec.add(Ev{K: "negstart", F: i})
			mask, rw, err := neg(ctx, s, data)
			if err != nil {
				rec.cbErr("negotiate")
				return mask, rw, err
			}
			rs := "none"
			if rw != nil {
				rs = "same"
				if tc, ok := rw.(*tls.Conn); ok {
					rs = "tls"
					rw = &opConn{Conn: tc, p: env.Pipe, rec: rec}
				}
			}
			rec.mu.Lock()
			rec.Masks |= uint8(mask)
			rec.mu.Unlock()
			rec.add(Ev{K: "negok", F: i, Mask: uint8(mask), RS: rs})
			return mask, rw, nil
		}
	}
	return f
}

// custom builds a scripted feature: List and Parse answer from the
// configuration / the advertisement, Negotiate from the outcome script. On
// the receiving side Negotiate first consumes the element that selected it.
func (env *Env) custom(i int, fs FeatSpec) xmpp.StreamFeature {
	rec := env.Rec
	sf := xmpp.StreamFeature{
		Name:       xml.Name{Space: fs.Space, Local: fs.Local},
		Necessary:  xmpp.SessionState(fs.Nec),
		Prohibited: xmpp.SessionState(fs.Proh),
		List: func(ctx context.Context, e xmlstream.TokenWriter, start xml.StartElement) (bool, error) {
			rec.call(SVal{K: "list", More: fs.LReq, Err: fs.LErr})
			if fs.LErr {
				if fs.LMessy {
					// something is already in the encoder's buffer when the error is reported
					_ = e.EncodeToken(start)
				}
				return fs.LReq, ErrScripted
			}
			if err := e.EncodeToken(start); err != nil {
				return fs.LReq, err
			}
			return fs.LReq, e.EncodeToken(start.End())
		},
		Parse: func(ctx context.Context, d *xml.Decoder, start *xml.StartElement) (bool, interface{}, error) {
			var req, perr bool
			for _, a := range start.Attr {
				switch a.Name.Local {
				case "req":
					req = true
				case "perr":
					perr = true
				}
			}
			if err := d.Skip(); err != nil {
				return req, nil, err
			}
			rec.call(SVal{K: "parse", More: req, Err: perr})
			if perr {
				return req, nil, ErrScripted
			}
			return req, nil, nil
		},
	}
	if fs.Neg {
		sf.Negotiate = func(ctx context.Context, s *xmpp.Session, data interface{}) (xmpp.SessionState, io.ReadWriter, error) {
			if env.Sc.Recv {
				r := s.TokenReader()
				d := xml.NewTokenDecoder(r)
				tok, err := d.Token()
				if err == nil {
					if _, ok := tok.(xml.StartElement); !ok {
						err = errors.New("verif: selection is not an element")
					} else {
						err = d.Skip()
					}
				}
				r.Close()
				if err != nil {
					return 0, nil, err
				}
			}
			k := env.outs[i]
			env.outs[i] = k + 1
			o := SVal{K: "out"}
			if k < len(env.Sc.Outs[i]) {
				o = env.Sc.Outs[i][k]
			}
			rec.call(o)
			var rw io.ReadWriter
			if o.Restart {
				rw = restartRW{s.Conn()}
			}
			if o.Err {
				return xmpp.SessionState(o.Mask), rw, ErrScripted
			}
			return xmpp.SessionState(o.Mask), rw, nil
		}
	}
	return sf
}

// mechanism is PLAIN with its steps logged, or a scripted mechanism that
// replays env.Sc.Steps.
func (env *Env) mechanism() sasl.Mechanism {
	rec := env.Rec
	logStep := func(more bool, err error) {
		v := SVal{K: "step", More: more && err == nil}
		switch {
		case err == nil:
		case errors.Is(err, sasl.ErrAuthn):
			v.SErr = "authn"
		default:
			v.SErr = "other"
		}
		if err != nil {
			rec.cbErr("sasl-step")
		}
		rec.call(v)
	}
	if env.Sc.Steps == nil {
		real := sasl.Plain
		return sasl.Mechanism{
			Name: real.Name,
			Start: func(n *sasl.Negotiator) (bool, []byte, interface{}, error) {
				more, resp, cache, err := real.Start(n)
				logStep(more, err)
				return more, resp, cache, err
			},
			Next: func(n *sasl.Negotiator, challenge []byte, data interface{}) (bool, []byte, interface{}, error) {
				more, resp, cache, err := real.Next(n, challenge, data)
				logStep(more, err)
				return more, resp, cache, err
			},
		}
	}
	next := func() (bool, []byte, interface{}, error) {
		v := SVal{K: "step"}
		if env.step < len(env.Sc.Steps) {
			v = env.Sc.Steps[env.step]
		}
		env.step++
		var err error
		switch v.SErr {
		case "authn":
			err = sasl.ErrAuthn
		case "other":
			err = ErrScripted
		}
		logStep(v.More, err)
		return v.More, []byte("x"), nil, err
	}
	return sasl.Mechanism{
		Name:  "X-SCRIPTED",
		Start: func(n *sasl.Negotiator) (bool, []byte, interface{}, error) { return next() },
		Next: func(n *sasl.Negotiator, challenge []byte, data interface{}) (bool, []byte, interface{}, error) {
			return next()
		},
	}
}

// Features builds the instrumented feature list of the scenario.
func (env *Env) Features() []xmpp.StreamFeature {
	sc := env.Sc
	var out []xmpp.StreamFeature
	for i, fs := range sc.Feats {
		var f xmpp.StreamFeature
		switch fs.Kind {
		case "starttls":
			cfg := env.TLSClient
			if sc.Recv {
				cfg = env.TLSServer
			}
			f = xmpp.StartTLS(cfg)
		case "sasl":
			if sc.Recv {
				f = xmpp.SASLServer(func(n *sasl.Negotiator) bool {
					_, pass, _ := n.Credentials()
					return bytes.Equal(pass, []byte("secret"))
				}, env.mechanism())
			} else {
				pass := "secret"
				if sc.BadPass {
					pass = "wrong"
				}
				f = xmpp.SASL("", pass, env.mechanism())
			}
		case "bind":
			if sc.Recv {
				f = xmpp.BindCustom(func(j jid.JID, res string) (jid.JID, error) {
					switch {
					case sc.BindStanzaErr:
						env.Rec.call(SVal{K: "bind", SErr: "stanza"})
						env.Rec.cbErr("bind")
						return jid.JID{}, stanza.Error{Type: stanza.Cancel, Condition: stanza.Conflict}
					case sc.BindErr:
						env.Rec.call(SVal{K: "bind", SErr: "other"})
						env.Rec.cbErr("bind")
						return jid.JID{}, ErrScripted
					}
					env.Rec.call(SVal{K: "bind"})
					return j.WithResource("r1")
				})
			} else {
				f = xmpp.BindResource()
			}
		case "custom":
			f = env.custom(i, fs)
		default:
			panic("unknown feature kind " + fs.Kind)
		}
		out = append(out, env.wrap(i, f))
	}
	return out
}
