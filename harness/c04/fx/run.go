package fx

import (
	"bytes"
	"context"
	"crypto/ed25519"
	"crypto/rand"
	"crypto/tls"
	"crypto/x509"
	"crypto/x509/pkix"
	"errors"
	"fmt"
	"io"
	"math/big"
	"os"
	"regexp"
	"runtime"
	"sync"
	"sync/atomic"
	"time"

	"mellium.im/xmpp"
	"mellium.im/xmpp/component"
	"mellium.im/xmpp/jid"
	"mellium.im/xmpp/stream"
	"mellium.im/xmpp/websocket"
)

// Watchdog is how long a call may take before it is reported as hanging. It is
// generous: the machine is shared, and nothing on correct code comes near it.
var Watchdog = 20 * time.Second

// ShortTimeout is the timeout of the "timeout-short" context shape: it expires by itself
// while the call is blocked on a silent peer.
var ShortTimeout = 30 * time.Millisecond

// PulseWait is how long an idle cancellation waits for the library's deadline
// pulse (two Set*Deadline calls) before letting the operation proceed.
var PulseWait = 300 * time.Millisecond

// noPulse is set once a run has waited in vain for the deadline pulse, so that
// a library that never sets deadlines does not cost PulseWait per case.
var noPulse atomic.Bool

// DumpStacks makes a watchdog expiry print all goroutine stacks (debugging).
var DumpStacks = os.Getenv("C04_STACKS") != ""

// Obs is what one run of the implementation showed.
type Obs struct {
	HasErr    bool   `json:"has_err"`
	Err       string `json:"err,omitempty"`
	NilSess   bool   `json:"nil_session,omitempty"`
	State     uint8  `json:"state"`
	Panic     string `json:"panic,omitempty"`
	TimedOut  bool   `json:"timed_out,omitempty"`
	StreamErr bool   `json:"stream_err,omitempty"` // errors.As finds a stream.Error in the returned error
	Stuck     bool   `json:"stuck,omitempty"`      // did not return even after the connection was shut down

	Trace  []Ev     `json:"trace"`
	Calls  []SVal   `json:"calls"`
	CBErrs []string `json:"cb_errs,omitempty"`
	Masks  uint8    `json:"masks"`

	Fired       bool          `json:"fired"`       // an operation failed (injected, EOF, deadline)
	FiredModel  int           `json:"fired_model"` // model-level index of the first failed operation
	FiredSite   string        `json:"fired_site,omitempty"`
	RawOps      int           `json:"raw_ops"`
	ModelOps    int           `json:"model_ops"`
	Cancelled   bool          `json:"cancelled,omitempty"`
	CancelModel int           `json:"cancel_model"`
	PulseSeen   bool          `json:"pulse_seen,omitempty"`
	Delivered   int           `json:"delivered"`
	ClearLen    int           `json:"clear_len"`
	HeaderOps   []int         `json:"header_ops,omitempty"` // model-level indexes of the reads that fetched a stream header
	Elapsed     time.Duration `json:"-"`
}

// ---------------------------------------------------------------- TLS material

type TLSMaterial struct {
	Server    *tls.Config // for a receiving session under test / a peer acting as server
	Client    *tls.Config // trusts the certificate
	ClientBad *tls.Config // does not
}

func NewTLSMaterial() *TLSMaterial {
	pub, priv, err := ed25519.GenerateKey(rand.Reader)
	if err != nil {
		panic(err)
	}
	tmpl := &x509.Certificate{
		SerialNumber:          big.NewInt(1),
		Subject:               pkix.Name{CommonName: "example.net"},
		DNSNames:              []string{"example.net"},
		NotBefore:             time.Now().Add(-time.Hour),
		NotAfter:              time.Now().Add(24 * time.Hour),
		KeyUsage:              x509.KeyUsageDigitalSignature | x509.KeyUsageCertSign,
		ExtKeyUsage:           []x509.ExtKeyUsage{x509.ExtKeyUsageServerAuth},
		BasicConstraintsValid: true,
		IsCA:                  true,
	}
	der, err := x509.CreateCertificate(rand.Reader, tmpl, tmpl, pub, priv)
	if err != nil {
		panic(err)
	}
	cert, err := x509.ParseCertificate(der)
	if err != nil {
		panic(err)
	}
	pool := x509.NewCertPool()
	pool.AddCert(cert)
	return &TLSMaterial{
		Server: &tls.Config{
			Certificates:           []tls.Certificate{{Certificate: [][]byte{der}, PrivateKey: priv}},
			MinVersion:             tls.VersionTLS12,
			SessionTicketsDisabled: true,
		},
		Client:    &tls.Config{ServerName: "example.net", RootCAs: pool, MinVersion: tls.VersionTLS12},
		ClientBad: &tls.Config{ServerName: "example.net", RootCAs: x509.NewCertPool(), MinVersion: tls.VersionTLS12},
	}
}

// ---------------------------------------------------------------- the live peer of the TLS scenarios

type accum struct {
	mu   sync.Mutex
	cond *sync.Cond
	buf  []byte
	done bool
}

func newAccum() *accum { a := &accum{}; a.cond = sync.NewCond(&a.mu); return a }

func (a *accum) pump(r io.Reader) {
	b := make([]byte, 4096)
	for {
		n, err := r.Read(b)
		a.mu.Lock()
		a.buf = append(a.buf, b[:n]...)
		if err != nil {
			a.done = true
		}
		a.cond.Broadcast()
		a.mu.Unlock()
		if err != nil {
			return
		}
	}
}

// waitFor blocks until the accumulated input matches re; returns the match or nil at end of input.
func (a *accum) waitFor(re *regexp.Regexp) [][]byte {
	a.mu.Lock()
	defer a.mu.Unlock()
	for {
		if m := re.FindSubmatch(a.buf); m != nil {
			return m
		}
		if a.done {
			return nil
		}
		a.cond.Wait()
	}
}

var (
	reStarttls = regexp.MustCompile(`<starttls[^>]*/>`)
	reProceed  = regexp.MustCompile(`<proceed[^>]*/>`)
	reBindReq  = regexp.MustCompile(`<iq[^>]* id=["']([^"']+)["'][^>]*>.*</iq>`)
)

// livePeer plays the scripted peer of a TLS scenario: the clear-text segments,
// the STARTTLS exchange, a real TLS handshake and the TLS-layer segments (one
// TLS record each). It waits only where it has to: for the library's
// <starttls/> or <proceed/>, and for the id of the library's bind request.
func livePeer(sc *Scenario, p *Pipe, mat *TLSMaterial, done chan<- struct{}) {
	defer close(done)
	end := PeerEnd{P: p}
	clearIn := newAccum()
	// the clear-text reader must stop before the ClientHello: read byte-wise through the pipe
	for _, s := range sc.Clear {
		b := s.Bytes()
		if bytes.HasPrefix(b, []byte("<proceed")) {
			// wait for the library's request first
			if !readClearUntil(end, clearIn, reStarttls) {
				return
			}
		}
		if _, err := end.Write(b); err != nil {
			return
		}
	}
	var tc *tls.Conn
	if sc.Recv {
		// the library is the server: wait for its <proceed/>
		if !readClearUntil(end, clearIn, reProceed) {
			return
		}
		cfg := mat.Client
		if sc.HSBad {
			cfg = mat.ClientBad
		}
		tc = tls.Client(end, cfg)
	} else {
		tc = tls.Server(end, mat.Server)
	}
	if err := tc.Handshake(); err != nil {
		return
	}
	in := newAccum()
	go in.pump(tc)
	for _, s := range sc.TLSs {
		b := s.Bytes()
		if bytes.Contains(b, []byte(BindIDPlaceholder)) {
			m := in.waitFor(reBindReq)
			if m == nil {
				return
			}
			b = bytes.ReplaceAll(b, []byte(BindIDPlaceholder), m[1])
		}
		if _, err := tc.Write(b); err != nil {
			return
		}
	}
	// keep reading until the pipe is shut down so that the library's writes are consumed
	in.mu.Lock()
	for !in.done {
		in.cond.Wait()
	}
	in.mu.Unlock()
}

// readClearUntil reads the library's clear-text output one byte at a time (so
// that nothing of a following TLS record is consumed) until it matches re.
func readClearUntil(end PeerEnd, a *accum, re *regexp.Regexp) bool {
	one := make([]byte, 1)
	for {
		if re.Match(a.buf) {
			a.buf = nil
			return true
		}
		n, err := end.Read(one)
		if n > 0 {
			a.buf = append(a.buf, one[0])
		}
		if err != nil {
			return false
		}
	}
}

// ---------------------------------------------------------------- running one case

var (
	srvAddr  = jid.MustParse("example.net")
	userAddr = jid.MustParse("me@example.net")
	compAddr = jid.MustParse("comp.example.net")
)

// Run performs one session establishment of the scenario under the fault plan.
func Run(sc *Scenario, f Fault, mat *TLSMaterial) Obs {
	rec := &Recorder{}
	p := NewPipe(f, sc.TLS)
	p.Rec = rec
	env := &Env{Sc: sc, Rec: rec, Pipe: p, outs: map[int]int{}}
	if mat != nil {
		env.TLSServer = mat.Server
		env.TLSClient = mat.Client
		if sc.HSBad {
			env.TLSClient = mat.ClientBad
		}
	}
	feats := env.Features()
	// the context, in the shape the plan asks for; cancel is what "the context is cancelled" does
	var ctx context.Context
	var cancel context.CancelFunc
	switch f.Ctx {
	case "timeout-parent":
		parent, pc := context.WithCancel(context.Background())
		c, tc := context.WithTimeout(parent, time.Hour)
		defer tc()
		ctx, cancel = c, pc
	case "timeout-own":
		ctx, cancel = context.WithTimeout(context.Background(), time.Hour)
	case "expired":
		ctx, cancel = context.WithDeadline(context.Background(), time.Now().Add(-time.Second))
	case "timeout-short":
		ctx, cancel = context.WithTimeout(context.Background(), ShortTimeout)
	default:
		ctx, cancel = context.WithCancel(context.Background())
	}
	defer cancel()

	obs := Obs{CancelModel: -1, FiredModel: -1, ClearLen: sc.Clear.Len()}
	var cancelled atomic.Bool
	var cancelModel atomic.Int64
	cancelModel.Store(-1)
	var pulseSeen atomic.Bool

	peerDone := make(chan struct{})
	if sc.TLS {
		go livePeer(sc, p, mat, peerDone)
	} else {
		for _, s := range sc.Clear {
			p.PeerWrite(s.Bytes())
		}
		if f.Kind != "silent" {
			p.PeerClose()
		}
		close(peerDone)
	}

	doCancelIf := func(raw int, when bool) {
		if !when || cancelled.Load() {
			return
		}
		before := p.DeadlineCalls()
		cancelled.Store(true)
		ops := p.Ops()
		if raw < len(ops) {
			cancelModel.Store(int64(ops[raw].Model))
		}
		cancel()
		if !sc.RWOnly && !noPulse.Load() {
			// the library reacts with one Set*Deadline call (deadline in the past, kept) or
			// with two (set and cleared at once): wait for the first, give a second one a
			// moment, then go on
			if p.WaitDeadlineCalls(before+1, PulseWait) {
				pulseSeen.Store(true)
				p.WaitDeadlineCalls(before+2, 150*time.Microsecond)
			} else {
				noPulse.Store(true)
			}
		}
	}
	if f.Ctx == "expired" || f.Ctx == "timeout-short" {
		cancelled.Store(true)
	}
	if f.Ctx == "expired" && !sc.RWOnly {
		p.OnOp = func(raw int) {
			if raw == 0 && !noPulse.Load() {
				if !p.WaitDeadlineCalls(1, PulseWait) {
					noPulse.Store(true)
				}
			}
		}
	}
	switch f.Cancel {
	case "idle":
		p.OnOp = func(raw int) { doCancelIf(raw, raw == f.CancelAt) }
	case "after":
		p.OnOpDone = func(raw int) { doCancelIf(raw, raw == f.CancelAt) }
	case "atlimit":
		// between two reads: when the read that delivers the last byte the (silent) peer
		// sends has succeeded
		p.OnOpDone = func(raw int) {
			p.mu.Lock()
			hit := p.delivered >= f.B && !p.ops[raw].W
			p.mu.Unlock()
			doCancelIf(raw, hit)
		}
	case "blocked":
		go func() {
			select {
			case <-p.Blocked():
				cancelled.Store(true)
				cancel()
			case <-ctx.Done():
			}
		}()
	}

	var rw io.ReadWriter = LibConn{P: p}
	if sc.RWOnly {
		rw = RWOnly{C: LibConn{P: p}}
	}
	cfgf := func(*xmpp.Session, *xmpp.StreamConfig) xmpp.StreamConfig {
		return xmpp.StreamConfig{Features: feats}
	}
	type result struct {
		s     *xmpp.Session
		err   error
		panic string
	}
	resc := make(chan result, 1)
	start := time.Now()
	go func() {
		var r result
		r.panic = catch(func() {
			state := xmpp.SessionState(sc.Bits)
			switch {
			case sc.Neg == "comp" && sc.Recv:
				r.s, r.err = component.ReceiveSession(ctx, compAddr, []byte("secret"), rw)
			case sc.Neg == "comp":
				r.s, r.err = component.NewSession(ctx, compAddr, []byte("secret"), rw)
			case sc.Neg == "ws" && sc.Recv && sc.Bits == 0:
				r.s, r.err = websocket.ReceiveSession(ctx, rw, feats...)
			case sc.Neg == "ws" && sc.Recv:
				r.s, r.err = xmpp.ReceiveSession(ctx, rw, state, websocket.Negotiator(cfgf))
			case sc.Neg == "ws" && sc.Bits == 0:
				r.s, r.err = websocket.NewSession(ctx, userAddr, rw, feats...)
			case sc.Neg == "ws":
				r.s, r.err = xmpp.NewSession(ctx, srvAddr, userAddr, rw, state, websocket.Negotiator(cfgf))
			case sc.Recv:
				r.s, r.err = xmpp.ReceiveSession(ctx, rw, state, xmpp.NewNegotiator(cfgf))
			default:
				r.s, r.err = xmpp.NewSession(ctx, srvAddr, userAddr, rw, state, xmpp.NewNegotiator(cfgf))
			}
		})
		resc <- r
	}()

	var r result
	select {
	case r = <-resc:
	case <-time.After(Watchdog):
		obs.TimedOut = true
		if DumpStacks {
			buf := make([]byte, 1<<20)
			buf = buf[:runtime.Stack(buf, true)]
			fmt.Fprintf(os.Stderr, "=== watchdog: %s %+v\n%s\n", sc.Name, f, buf)
		}
	}
	obs.Elapsed = time.Since(start)
	cancel()
	p.Shutdown()
	if obs.TimedOut {
		// the shutdown unblocks a call that waits on the connection; collect it so that
		// nothing leaks. A call that does not come back even now is spinning (it cannot be
		// stopped): the caller must not start further runs next to it.
		select {
		case r = <-resc:
		case <-time.After(5 * time.Second):
			obs.Stuck = true
		}
	}
	select {
	case <-peerDone:
	case <-time.After(5 * time.Second):
	}

	obs.Panic = r.panic
	if !obs.TimedOut {
		obs.HasErr = r.err != nil
		if r.err != nil {
			obs.Err = r.err.Error()
			var se stream.Error
			obs.StreamErr = errors.As(r.err, &se)
		}
		if r.s != nil {
			obs.State = uint8(r.s.State())
		} else {
			obs.NilSess = true
			obs.State = sc.InitBits()
		}
	}
	rec.mu.Lock()
	obs.Trace = append([]Ev{}, rec.Trace...)
	obs.Calls = append([]SVal{}, rec.Calls...)
	obs.CBErrs = append([]string{}, rec.CBErrs...)
	obs.Masks = rec.Masks
	rec.mu.Unlock()
	obs.Fired, obs.FiredModel = p.Fired()
	ops := p.Ops()
	obs.RawOps = len(ops)
	obs.ModelOps = p.ModelOps()
	// the element class of the first failed operation, taken from the model-level event
	// (inside the TLS phase the raw bytes are ciphertext)
	if obs.Fired {
		n := 0
		for _, e := range obs.Trace {
			if e.K != "r" && e.K != "w" {
				continue
			}
			if n == obs.FiredModel {
				if e.K == "w" {
					obs.FiredSite = "write:" + e.Site
				} else {
					obs.FiredSite = "read"
				}
				break
			}
			n++
		}
		if obs.FiredSite == "" {
			obs.FiredSite = "operation"
		}
	}
	_ = ops
	obs.Cancelled = cancelled.Load()
	obs.CancelModel = int(cancelModel.Load())
	if f.Cancel == "blocked" && obs.Cancelled {
		obs.CancelModel = obs.FiredModel
	}
	obs.PulseSeen = pulseSeen.Load()
	p.mu.Lock()
	obs.Delivered = p.delivered
	p.mu.Unlock()
	return obs
}

func catch(f func()) (p string) {
	defer func() {
		if r := recover(); r != nil {
			p = fmt.Sprint(r)
		}
	}()
	f()
	return ""
}
