package fx

import (
	"fmt"
	"strings"
)

// ---------------------------------------------------------------- peer streams
//
// A peer stream is written by hand as lexical units (tags, character data),
// each with the model tokens it stands for, grouped in segments: one segment
// is delivered by one connection Read.

// Unit is one lexical unit of the peer's byte stream.
type Unit struct {
	B    string   // bytes
	Toks []string // Coq terms of type tok it yields once complete
	Text bool     // character data: a cut inside it yields a partial Text token
	WS   bool     // white space only (Text)
}

// Seg is what one connection Read delivers.
type Seg struct {
	Units  []Unit
	Header bool // the segment is a stream header (read by Expect)
}

type Stream []Seg

func S(text, cls string) Unit  { return Unit{B: text, Toks: []string{"Open (" + cls + ")"}} }
func SC(text, cls string) Unit { return Unit{B: text, Toks: []string{"Open (" + cls + ")", "Close"}} }
func E(text string) Unit       { return Unit{B: text, Toks: []string{"Close"}} }
func Decl(text string) Unit    { return Unit{B: text, Toks: []string{"Decl"}} }
func X(text string) Unit {
	ws := strings.TrimLeft(text, " \t\r\n") == ""
	return Unit{B: text, Toks: []string{"Text " + coqBool(ws)}, Text: true, WS: ws}
}

func coqBool(b bool) string {
	if b {
		return "true"
	}
	return "false"
}

func SegOf(us ...Unit) Seg  { return Seg{Units: us} }
func HdrSeg(us ...Unit) Seg { return Seg{Units: us, Header: true} }

func (s Seg) Bytes() []byte {
	var sb strings.Builder
	for _, u := range s.Units {
		sb.WriteString(u.B)
	}
	return []byte(sb.String())
}

func (st Stream) Len() int {
	n := 0
	for _, s := range st {
		n += len(s.Bytes())
	}
	return n
}

// CoqItems renders the whole stream as terms of type sitem: a Brk per Read,
// then the tokens of its units.
func (st Stream) CoqItems() []string {
	var items []string
	for _, s := range st {
		items = append(items, "Brk")
		for _, u := range s.Units {
			for _, t := range u.Toks {
				items = append(items, "T ("+t+")")
			}
		}
	}
	return items
}

// Cut describes what the first limit bytes of the stream amount to: the first
// k items of CoqItems, plus the partial Text token a cut inside character data
// leaves behind (extra, "" if none). A Read that delivers nothing is no Read:
// a segment of which not a single byte arrives contributes no Brk.
func (st Stream) Cut(limit int) (k int, extra string) {
	left := limit
	for _, s := range st {
		if left <= 0 {
			return k, ""
		}
		k++ // Brk
		for _, u := range s.Units {
			// character data is complete only once the byte after it (a '<') has arrived
			if len(u.B) < left || (len(u.B) == left && !u.Text) {
				k += len(u.Toks)
				left -= len(u.B)
				continue
			}
			if u.Text && left > 0 {
				part := u.B[:left]
				ws := strings.TrimLeft(part, " \t\r\n") == ""
				return k, "T (Text " + coqBool(ws) + ")"
			}
			return k, ""
		}
	}
	return k, ""
}

// IsHeader reports whether the segment carries the start tag of a stream header.
func (s Seg) IsHeader() bool {
	for _, u := range s.Units {
		for _, t := range u.Toks {
			if strings.HasPrefix(t, "Open (KHdr") {
				return true
			}
		}
	}
	return false
}

// Resegment splits the segments of a stream at tag boundaries chosen by next (a
// draw in [0,n)): the same bytes reach the library in more, smaller Reads, so
// that Reads fall inside elements and every operation index moves. A segment
// never ends with character data (the tokenizer would need the next Read before
// it can deliver that token), and segments are never merged (what follows a
// stream restart must stay in a Read of its own).
func Resegment(st Stream, next func(n int) int) Stream {
	var out Stream
	for _, s := range st {
		// Header stays on the first piece only: Expect tests ctx.Done() before the token it
		// asks for, and decl.Skip fetches the token after an XML declaration within the same
		// call, so only the first Read of a header exchange is preceded by a test
		cur := Seg{Header: s.Header}
		for i, u := range s.Units {
			cur.Units = append(cur.Units, u)
			last := i == len(s.Units)-1
			if !last && !u.Text && next(3) == 0 {
				out = append(out, cur)
				cur = Seg{}
			}
		}
		out = append(out, cur)
	}
	return out
}

// HeaderReads returns, for each segment, whether it is a stream header.
func (st Stream) HeaderReads() []bool {
	out := make([]bool, len(st))
	for i, s := range st {
		out[i] = s.Header
	}
	return out
}

// ---------------------------------------------------------------- configuration

type FeatSpec struct {
	Kind   string `json:"kind"` // starttls, sasl, bind, custom
	Space  string `json:"space,omitempty"`
	Local  string `json:"local,omitempty"`
	Nec    uint8  `json:"nec,omitempty"`
	Proh   uint8  `json:"proh,omitempty"`
	Neg    bool   `json:"neg,omitempty"`
	LReq   bool   `json:"lreq,omitempty"`
	LErr   bool   `json:"lerr,omitempty"`   // List fails
	LMessy bool   `json:"lmessy,omitempty"` // ... after it has written an unclosed start tag
}

func (f FeatSpec) Coq() string {
	kind := map[string]string{"starttls": "FStartTLS", "sasl": "FSASL", "bind": "FBind", "custom": "FCustom"}[f.Kind]
	neg := f.Neg || f.Kind != "custom"
	return fmt.Sprintf("(mkF %s %d%%N %d%%N %s %s %s)", kind, f.Nec, f.Proh, coqBool(neg), coqBool(f.LReq), coqBool(f.LErr))
}

// SVal is one scripted/observed callback value (coq: sval).
type SVal struct {
	K       string `json:"k"` // choice, out, step, bind
	F       int    `json:"f,omitempty"`
	Mask    uint8  `json:"mask,omitempty"`
	Restart bool   `json:"restart,omitempty"`
	Err     bool   `json:"err,omitempty"`
	More    bool   `json:"more,omitempty"` // step: more; list/parse: required
	SErr    string `json:"serr,omitempty"` // "", authn, other
}

func (v SVal) Coq() string {
	switch v.K {
	case "choice":
		return fmt.Sprintf("VChoice %d%%nat", v.F)
	case "out":
		return fmt.Sprintf("VOut %d%%N %s %s", v.Mask, coqBool(v.Restart), coqBool(v.Err))
	case "step":
		e := map[string]string{"": "SNone", "authn": "SAuthn", "other": "SOther"}[v.SErr]
		return fmt.Sprintf("VStep %s %s", coqBool(v.More), e)
	case "bind":
		e := map[string]string{"": "BOk", "stanza": "BStanza", "other": "BErr"}[v.SErr]
		return "VBind " + e
	case "list":
		return fmt.Sprintf("VList %s %s", coqBool(v.More), coqBool(v.Err))
	case "parse":
		return fmt.Sprintf("VParse %s %s", coqBool(v.More), coqBool(v.Err))
	}
	panic("unknown sval kind " + v.K)
}

func (v SVal) IsErr() bool {
	switch v.K {
	case "out", "list", "parse":
		return v.Err
	case "step", "bind":
		return v.SErr != ""
	}
	return false
}

// Ev is one observed event (coq: event).
type Ev struct {
	K    string `json:"k"` // r, w, call, parse, list, negstart, negok
	OK   bool   `json:"ok,omitempty"`
	Site string `json:"site,omitempty"`
	F    int    `json:"f,omitempty"`
	Mask uint8  `json:"mask,omitempty"`
	RS   string `json:"rs,omitempty"` // none, same, tls
	V    *SVal  `json:"v,omitempty"`
}

func (e Ev) Coq() string {
	switch e.K {
	case "r":
		return "ERead " + coqBool(e.OK)
	case "w":
		return fmt.Sprintf("EWrite %s %s", e.Site, coqBool(e.OK))
	case "call":
		return "ECall (" + e.V.Coq() + ")"
	case "parse":
		return fmt.Sprintf("EParse %d%%nat", e.F)
	case "list":
		return fmt.Sprintf("EList %d%%nat", e.F)
	case "negstart":
		return fmt.Sprintf("ENegStart %d%%nat", e.F)
	case "negok":
		rs := map[string]string{"none": "RSNone", "same": "RSSame", "tls": "RSTls"}[e.RS]
		return fmt.Sprintf("ENegOk %d%%nat %d%%N %s", e.F, e.Mask, rs)
	}
	panic("unknown event kind " + e.K)
}

// Scenario is one handshake with everything scripted but the faults.
type Scenario struct {
	Name          string     `json:"name"`
	Entry         string     `json:"entry"` // finding-key component: role and handshake
	Neg           string     `json:"neg"`   // std, ws, comp
	Recv          bool       `json:"recv,omitempty"`
	Bits          uint8      `json:"bits,omitempty"` // state passed to NewSession / ReceiveSession
	Feats         []FeatSpec `json:"feats,omitempty"`
	RWOnly        bool       `json:"rwonly,omitempty"`          // transport without deadlines
	NoReseg       bool       `json:"noreseg,omitempty"`         // the scenario depends on what shares a Read: never re-segmented
	Lite          int        `json:"lite,omitempty"`            // derived scenario: only the peer's bytes from this offset on are enumerated
	WantStreamErr bool       `json:"want_stream_err,omitempty"` // the un-faulted run must return an error errors.As recognises as a stream.Error
	TLS           bool       `json:"tls,omitempty"`             // live peer, real crypto/tls
	HSBad         bool       `json:"hsbad,omitempty"`           // the certificate is not trusted: the handshake fails

	Clear Stream `json:"-"`
	TLSs  Stream `json:"-"` // the peer's stream on the TLS layer

	// scripted callbacks
	Outs          map[int][]SVal `json:"outs,omitempty"`  // per custom feature: Negotiate outcomes in call order
	Steps         []SVal         `json:"steps,omitempty"` // scripted SASL mechanism (nil: the real PLAIN)
	BadPass       bool           `json:"badpass,omitempty"`
	BindErr       bool           `json:"binderr,omitempty"`
	BindStanzaErr bool           `json:"bindstanzaerr,omitempty"` // the bind callback returns a stanza error

	// expectations used by the oracle (independent of the model)
	WantOK bool `json:"want_ok"` // the un-faulted handshake completes
}

func (sc *Scenario) CoqConfig() string {
	neg := "NStd"
	if sc.Neg == "comp" {
		neg = "NComp"
	}
	var fs []string
	for _, f := range sc.Feats {
		fs = append(fs, f.Coq())
	}
	return fmt.Sprintf("(mkCfg %s %s [%s])", neg, coqBool(sc.Neg == "ws"), strings.Join(fs, "; "))
}

// InitBits is the state the session starts with.
func (sc *Scenario) InitBits() uint8 {
	b := sc.Bits
	if sc.Recv {
		b |= 8
	}
	return b
}
