// Package fx holds the fault-injecting transport, the scenario descriptions,
// the instrumented stream features and the Coq rendering used by the C04
// harness (session establishment fails closed under faults).
package fx

import (
	"bytes"
	"errors"
	"fmt"
	"io"
	"net"
	"os"
	"regexp"
	"runtime"
	"sync"
	"time"
)

// ErrInjected is what a connection operation returns when the fault plan says
// that it fails.
var ErrInjected = errors.New("verif: injected connection fault")

// BindIDPlaceholder stands for the id of the library's bind request in a
// scripted peer stream (same length as the ids the library generates).
const BindIDPlaceholder = "@@@@BINDID@@@@@@"

var iqIDRe = regexp.MustCompile(`^<iq[^>]* id=["']([^"']+)["']`)

// Fault is the fault plan of one run, in terms of the operations (Read and
// Write calls) that the library performs on the connection it was given.
type Fault struct {
	// Kind: "" (none), "cut" (every operation from index K on fails),
	// "transient" (exactly operation K fails), "eof" (the peer's byte stream
	// ends after B bytes; writes keep succeeding), "silent" (the peer's byte
	// stream stops after B bytes without ending: the read that needs more
	// blocks), "wblock" (the K-th operation, a Write, blocks).
	Kind string `json:"kind,omitempty"`
	K    int    `json:"k,omitempty"`
	B    int    `json:"b,omitempty"`
	// Cancel: "" (never), "idle" (the context is cancelled when operation
	// CancelAt is entered, the library's reaction on the deadlines is awaited,
	// then the operation proceeds), "after" (the same when operation CancelAt has
	// succeeded, before it returns to the library: a cancellation between two
	// operations), "blocked" (the context is cancelled as soon as an operation
	// blocks).
	Cancel   string `json:"cancel,omitempty"`
	CancelAt int    `json:"cancel_at,omitempty"`
	// Class: what the failing operations of a cut / transient fault return: "" (a plain
	// error), "eof", "ueof" (io.ErrUnexpectedEOF), "timeout" (os.ErrDeadlineExceeded, a
	// net.Error with Timeout() true, as under a deadline the caller set on the connection),
	// "temporary" (a net.Error with Temporary() true), "wrapped" (fmt.Errorf %w of the
	// timeout), "operror" (*net.OpError around the timeout). The context stays alive.
	Class string `json:"class,omitempty"`
	// Ctx: the shape of the context: "" (WithCancel), "timeout-parent" (WithTimeout(1h) of a
	// parent that is cancelled), "timeout-own" (WithTimeout(1h), cancelled through its own
	// cancel function), "expired" (WithDeadline in the past: done before the call),
	// "timeout-short" (WithTimeout(short) that expires by itself while the call is blocked).
	Ctx string `json:"ctx,omitempty"`
}

type temporaryErr struct{}

func (temporaryErr) Error() string   { return "verif: injected temporary network error" }
func (temporaryErr) Timeout() bool   { return false }
func (temporaryErr) Temporary() bool { return true }

// injected is the error a failing operation returns under the plan.
func (p *Pipe) injected(write bool) error {
	switch p.fault.Class {
	case "eof":
		return io.EOF
	case "ueof":
		return io.ErrUnexpectedEOF
	case "timeout":
		return os.ErrDeadlineExceeded
	case "temporary":
		return temporaryErr{}
	case "wrapped":
		return fmt.Errorf("verif: injected: %w", os.ErrDeadlineExceeded)
	case "operror":
		op := "read"
		if write {
			op = "write"
		}
		return &net.OpError{Op: op, Net: "fxpipe", Err: os.ErrDeadlineExceeded}
	}
	return ErrInjected
}

// Op is one operation the library performed on the connection (raw level).
type Op struct {
	W       bool   // Write (else Read)
	Data    []byte // what was written
	Failed  bool   // returned an error
	Model   int    // index of the model-level operation it belongs to
	Blocked bool   // it blocked until a deadline expired
	ti      int    // index of its event in the recorder's trace, or -1
}

// chunkq is one direction of the pipe: a queue of chunks; a Read is served
// from the head chunk only, so that the boundaries of the peer's writes are
// the boundaries of the library's reads.
type chunkq struct {
	chunks [][]byte
	closed bool
}

// Pipe is the in-memory connection given to the library (Lib) together with
// the end the scripted peer uses (Peer()).
type Pipe struct {
	mu   sync.Mutex
	cond *sync.Cond

	toLib  chunkq // peer -> library
	toPeer chunkq // library -> peer (read by a live peer only)
	live   bool   // a live peer reads toPeer; otherwise writes are only logged

	fault     Fault
	delivered int // bytes of the peer's stream handed to the library so far

	ops      []Op
	nextMod  int // next model-level operation index
	curMod   int // model-level operation in progress above the raw level, or -1
	fired    bool
	firedMod int

	// deadlines (net.Pipe-like: an operation blocked when a deadline in the
	// past is set fails, even if the deadline is cleared again at once)
	rEpoch, wEpoch   int
	rExpired         bool
	wExpired         bool
	deadlineCalls    int
	closedLib        bool
	blockedNotify    chan struct{} // receives one value whenever an operation starts blocking
	OnOp             func(raw int) // called (without the lock) when raw operation number raw is entered
	Rec              *Recorder     // model-level operations of the clear-text phase are logged here
	OnOpDone         func(raw int) // called (without the lock) when raw operation number raw has succeeded, before it returns
	AllOut           []byte        // everything the library wrote (successful writes)
	blockedOps       int
	everBlockedAfter bool
}

// NewPipe makes a pipe with the given fault plan.
func NewPipe(f Fault, live bool) *Pipe {
	p := &Pipe{fault: f, live: live, curMod: -1, firedMod: -1, blockedNotify: make(chan struct{}, 64)}
	p.cond = sync.NewCond(&p.mu)
	return p
}

// Blocked is signalled whenever an operation of the library starts blocking.
func (p *Pipe) Blocked() <-chan struct{} { return p.blockedNotify }

// PeerWrite queues one chunk of the peer's byte stream.
func (p *Pipe) PeerWrite(b []byte) (int, error) {
	p.mu.Lock()
	defer p.mu.Unlock()
	if p.toLib.closed {
		return 0, io.ErrClosedPipe
	}
	if len(b) > 0 {
		p.toLib.chunks = append(p.toLib.chunks, append([]byte{}, b...))
	}
	p.cond.Broadcast()
	return len(b), nil
}

// PeerClose ends the peer's byte stream (the library reads what is queued, then EOF).
func (p *Pipe) PeerClose() {
	p.mu.Lock()
	p.toLib.closed = true
	p.cond.Broadcast()
	p.mu.Unlock()
}

// Shutdown releases everything that may still block on the pipe.
func (p *Pipe) Shutdown() {
	p.mu.Lock()
	p.toLib.closed = true
	p.toPeer.closed = true
	p.closedLib = true
	p.cond.Broadcast()
	p.mu.Unlock()
}

// PeerRead reads what the library wrote (live peers only).
func (p *Pipe) PeerRead(b []byte) (int, error) {
	p.mu.Lock()
	defer p.mu.Unlock()
	for len(p.toPeer.chunks) == 0 && !p.toPeer.closed {
		p.cond.Wait()
	}
	if len(p.toPeer.chunks) == 0 {
		return 0, io.EOF
	}
	n := copy(b, p.toPeer.chunks[0])
	if n == len(p.toPeer.chunks[0]) {
		p.toPeer.chunks = p.toPeer.chunks[1:]
	} else {
		p.toPeer.chunks[0] = p.toPeer.chunks[0][n:]
	}
	return n, nil
}

// Ops returns the raw operation log.
func (p *Pipe) Ops() []Op {
	p.mu.Lock()
	defer p.mu.Unlock()
	return append([]Op{}, p.ops...)
}

// Fired reports whether the planned fault was reached, and the model-level
// operation during which it was.
func (p *Pipe) Fired() (bool, int) {
	p.mu.Lock()
	defer p.mu.Unlock()
	return p.fired, p.firedMod
}

// DeadlineCalls is the number of Set*Deadline calls seen so far.
func (p *Pipe) DeadlineCalls() int {
	p.mu.Lock()
	defer p.mu.Unlock()
	return p.deadlineCalls
}

// WaitDeadlineCalls waits until at least n Set*Deadline calls were seen.
func (p *Pipe) WaitDeadlineCalls(n int, d time.Duration) bool {
	end := time.Now().Add(d)
	for {
		if p.DeadlineCalls() >= n {
			return true
		}
		if time.Now().After(end) {
			return false
		}
		if d < time.Millisecond {
			runtime.Gosched() // a short grace: spin, the sleep granularity is coarser than the wait
		} else {
			time.Sleep(20 * time.Microsecond)
		}
	}
}

// BeginModelOp / EndModelOp bracket an operation of a layer above the raw one
// (a Read or Write of the TLS connection): raw operations in between belong to it.
func (p *Pipe) BeginModelOp() int {
	p.mu.Lock()
	defer p.mu.Unlock()
	p.curMod = p.nextMod
	p.nextMod++
	return p.curMod
}

func (p *Pipe) EndModelOp() {
	p.mu.Lock()
	p.curMod = -1
	p.mu.Unlock()
}

// ModelOps is the number of model-level operations started so far.
func (p *Pipe) ModelOps() int {
	p.mu.Lock()
	defer p.mu.Unlock()
	return p.nextMod
}

func (p *Pipe) enter(w bool, data []byte) (idx int, fail bool) {
	p.mu.Lock()
	if len(p.ops) >= maxEvents {
		// a spinning call: keep failing its operations without logging them
		p.mu.Unlock()
		return -1, true
	}
	idx = len(p.ops)
	m := p.curMod
	if m < 0 {
		m = p.nextMod
		p.nextMod++
	}
	op := Op{W: w, Model: m, ti: -1}
	if w {
		op.Data = append([]byte{}, data...)
	}
	if p.curMod < 0 && p.Rec != nil {
		if w {
			op.ti = p.Rec.add(Ev{K: "w", Site: Classify(data), OK: true})
		} else {
			op.ti = p.Rec.add(Ev{K: "r", OK: true})
		}
	}
	switch p.fault.Kind {
	case "cut":
		fail = idx >= p.fault.K
	case "transient":
		fail = idx == p.fault.K
	}
	if fail {
		op.Failed = true
		if !p.fired {
			p.fired, p.firedMod = true, m
		}
		if op.ti >= 0 {
			p.Rec.setOK(op.ti, false)
		}
	}
	p.ops = append(p.ops, op)
	hook := p.OnOp
	p.mu.Unlock()
	if hook != nil {
		hook(idx)
	}
	return idx, fail
}

func (p *Pipe) markFailed(idx int, blocked bool) {
	if idx < 0 {
		return
	}
	p.ops[idx].Failed = true
	p.ops[idx].Blocked = blocked
	if p.ops[idx].ti >= 0 {
		p.Rec.setOK(p.ops[idx].ti, false)
	}
	if !p.fired {
		p.fired, p.firedMod = true, p.ops[idx].Model
	}
}

func (p *Pipe) notifyBlocked() {
	select {
	case p.blockedNotify <- struct{}{}:
	default:
	}
}

// LibConn is the library's end of a Pipe; it implements net.Conn.
type LibConn struct{ P *Pipe }

type pipeAddr struct{}

func (pipeAddr) Network() string { return "fxpipe" }
func (pipeAddr) String() string  { return "fxpipe" }

var _ net.Conn = LibConn{}

func (c LibConn) Read(b []byte) (int, error) {
	p := c.P
	idx, fail := p.enter(false, nil)
	if fail {
		return 0, p.injected(false)
	}
	p.mu.Lock()
	defer p.mu.Unlock()
	epoch := p.rEpoch
	notified := false
	for {
		if p.closedLib {
			p.markFailed(idx, false)
			return 0, io.ErrClosedPipe
		}
		if p.rExpired || p.rEpoch != epoch {
			p.markFailed(idx, notified)
			return 0, os.ErrDeadlineExceeded
		}
		limited := p.fault.Kind == "eof" || p.fault.Kind == "silent"
		room := len(b)
		if limited && p.fault.B-p.delivered < room {
			room = p.fault.B - p.delivered
		}
		if limited && room <= 0 {
			if p.fault.Kind == "eof" {
				p.markFailed(idx, false)
				return 0, io.EOF
			}
			// silent: block until a deadline expires
		} else if len(p.toLib.chunks) > 0 {
			n := copy(b[:room], p.toLib.chunks[0])
			if n == len(p.toLib.chunks[0]) {
				p.toLib.chunks = p.toLib.chunks[1:]
			} else {
				p.toLib.chunks[0] = p.toLib.chunks[0][n:]
			}
			p.delivered += n
			if hook := p.OnOpDone; hook != nil {
				p.mu.Unlock()
				hook(idx)
				p.mu.Lock()
			}
			return n, nil
		} else if p.toLib.closed {
			p.markFailed(idx, false)
			return 0, io.EOF
		}
		if !notified && limited && room <= 0 {
			// the peer has fallen silent for good: tell the harness
			notified = true
			p.notifyBlocked()
		}
		p.cond.Wait()
	}
}

func (c LibConn) Write(b []byte) (int, error) {
	p := c.P
	idx, fail := p.enter(true, b)
	if fail {
		return 0, p.injected(true)
	}
	p.mu.Lock()
	defer p.mu.Unlock()
	if p.fault.Kind == "wblock" && idx == p.fault.K {
		epoch := p.wEpoch
		p.notifyBlocked()
		for !(p.wExpired || p.wEpoch != epoch || p.closedLib) {
			p.cond.Wait()
		}
		p.markFailed(idx, true)
		if p.closedLib {
			return 0, io.ErrClosedPipe
		}
		return 0, os.ErrDeadlineExceeded
	}
	if p.closedLib {
		p.markFailed(idx, false)
		return 0, io.ErrClosedPipe
	}
	if p.wExpired {
		p.markFailed(idx, false)
		return 0, os.ErrDeadlineExceeded
	}
	p.AllOut = append(p.AllOut, b...)
	if m := iqIDRe.FindSubmatch(b); m != nil && len(m[1]) == len(BindIDPlaceholder) {
		// a scripted peer answers the bind request with the id it carries
		for i, c := range p.toLib.chunks {
			p.toLib.chunks[i] = bytes.ReplaceAll(c, []byte(BindIDPlaceholder), m[1])
		}
	}
	if p.live && !p.toPeer.closed {
		p.toPeer.chunks = append(p.toPeer.chunks, append([]byte{}, b...))
		p.cond.Broadcast()
	}
	if hook := p.OnOpDone; hook != nil {
		p.mu.Unlock()
		hook(idx)
		p.mu.Lock()
	}
	return len(b), nil
}

func (c LibConn) Close() error {
	c.P.mu.Lock()
	c.P.closedLib = true
	c.P.toPeer.closed = true
	c.P.cond.Broadcast()
	c.P.mu.Unlock()
	return nil
}

func (c LibConn) LocalAddr() net.Addr  { return pipeAddr{} }
func (c LibConn) RemoteAddr() net.Addr { return pipeAddr{} }

func (c LibConn) setDeadline(t time.Time, r, w bool) error {
	p := c.P
	p.mu.Lock()
	defer p.mu.Unlock()
	p.deadlineCalls++
	past := !t.IsZero() && !t.After(time.Now())
	if r {
		p.rExpired = past
		if past {
			p.rEpoch++
		}
	}
	if w {
		p.wExpired = past
		if past {
			p.wEpoch++
		}
	}
	p.cond.Broadcast()
	return nil
}

func (c LibConn) SetDeadline(t time.Time) error      { return c.setDeadline(t, true, true) }
func (c LibConn) SetReadDeadline(t time.Time) error  { return c.setDeadline(t, true, false) }
func (c LibConn) SetWriteDeadline(t time.Time) error { return c.setDeadline(t, false, true) }

// RWOnly hides everything but Read and Write: a transport without deadlines.
type RWOnly struct{ C LibConn }

func (r RWOnly) Read(b []byte) (int, error)  { return r.C.Read(b) }
func (r RWOnly) Write(b []byte) (int, error) { return r.C.Write(b) }

// PeerEnd is the scripted peer's end of a live pipe; it implements net.Conn
// so that crypto/tls can run over it.
type PeerEnd struct{ P *Pipe }

var _ net.Conn = PeerEnd{}

func (e PeerEnd) Read(b []byte) (int, error)         { return e.P.PeerRead(b) }
func (e PeerEnd) Write(b []byte) (int, error)        { return e.P.PeerWrite(b) }
func (e PeerEnd) Close() error                       { e.P.PeerClose(); return nil }
func (e PeerEnd) LocalAddr() net.Addr                { return pipeAddr{} }
func (e PeerEnd) RemoteAddr() net.Addr               { return pipeAddr{} }
func (e PeerEnd) SetDeadline(t time.Time) error      { return nil }
func (e PeerEnd) SetReadDeadline(t time.Time) error  { return nil }
func (e PeerEnd) SetWriteDeadline(t time.Time) error { return nil }
