package main

// Resource binding on both sides, through the real negotiator with the real
// BindResource / BindCustom features on a scripted connection.

import (
	"bytes"
	"context"
	"encoding/xml"
	"errors"
	"fmt"
	"strings"

	"mellium.im/xmpp"
	"mellium.im/xmpp/jid"
	"mellium.im/xmpp/stanza"
	"verifharness/hx"
)

func bindClass(err error) string {
	var se stanza.Error
	var sp *stanza.Error
	switch {
	case err == nil:
		return "ok"
	case errors.As(err, &se), errors.As(err, &sp):
		return "stanza"
	}
	return classify(err)
}

func coqBres(c string) string {
	switch {
	case c == "ok":
		return "BReady"
	case c == "io":
		return "BIo"
	case c == "stanza":
		return "BStanzaErr"
	case strings.HasPrefix(c, "stream:"):
		return "(BStream " + cb(c[7:]) + ")"
	}
	return "BOther"
}

// coqItem states what the session meets first when it reads b inside an open
// stream: a complete element, a token that is not a start element, or a failure
// of the stream reader (class given: that reader is not part of this model).
func coqItem(b []byte, defaultNS string) (string, *Node) {
	hdr := "<w xmlns='" + defaultNS + "' xmlns:stream='" + nsStream + "'>"
	d := xml.NewDecoder(bytes.NewReader(append([]byte(hdr), b...)))
	if _, err := d.Token(); err != nil {
		return "(IFail BIo)", nil
	}
	t, err := d.Token()
	if err != nil {
		return "(IFail BIo)", nil
	}
	switch x := t.(type) {
	case xml.CharData:
		// (the stream reader flags other character data than white space, but it
		// returns the token along with the error and the token decoder on top of it
		// drops the error)
		return "INonStart", nil
	case xml.StartElement:
		if x.Name.Space == nsStream {
			if x.Name.Local != "error" {
				return "(IFail BOther)", nil
			}
			cond := ""
			if nodes, ok := parseNodes(b, defaultNS); ok && len(nodes) > 0 {
				for _, k := range nodes[0].Kids {
					if k.Text == nil && k.Space == nsSErr && k.Local != "text" {
						cond = k.Local
					}
				}
			}
			return "(IFail (BStream " + cb(cond) + "))", nil
		}
		depth := 1
		for depth > 0 {
			t, err := d.Token()
			if err != nil {
				return "(IFail BIo)", nil
			}
			switch y := t.(type) {
			case xml.StartElement:
				if y.Name.Space == nsStream {
					return "(IFail BOther)", nil
				}
				depth++
			case xml.EndElement:
				depth--
			case xml.CharData:
			default:
				return "(IFail BOther)", nil
			}
		}
		end := int(d.InputOffset()) - len(hdr)
		nodes, ok := parseNodes(b[:end], defaultNS)
		if !ok || len(nodes) != 1 || nodes[0].Text != nil {
			return "(IFail BIo)", nil
		}
		return "(IElem " + coqNode(nodes[0]) + ")", &nodes[0]
	case xml.EndElement:
		return "(IFail BIo)", nil
	}
	return "(IFail BOther)", nil
}

// ---- initiating side ----

const idMark = "\x00ID\x00"

type bindClientCase struct {
	Kind   string `json:"kind"`
	Origin string `json:"origin"`
	Reply  string `json:"reply_hex"` // what the peer answers; idMark stands for the request's id
	Text   string `json:"reply,omitempty"`
}

func (x *runner) runBindClient(c bindClientCase) {
	origin := jid.MustParse(c.Origin)
	tmpl := string(hx.UnHex(c.Reply))
	c.Text = strings.ReplaceAll(tmpl, idMark, "{ID}")
	hdr := "<stream:stream xmlns='jabber:client' xmlns:stream='" + nsStream + "' version='1.0' id='s1' from='" + xmlEsc(origin.Domainpart()) + "'>" +
		"<stream:features><bind xmlns='" + nsBind + "'/></stream:features>"
	reqID := ""
	var request *Node
	var reply []byte
	conn := &scriptConn{answer: map[int]bool{0: true, 1: true}}
	conn.chunks = []func([]byte) []byte{
		static(hdr),
		func(out []byte) []byte {
			// the request is what follows the client's stream header
			if e := headerEnd(out); e >= 0 {
				if nodes, ok := parseNodes(out[e:], nsClient); ok && len(nodes) == 1 && nodes[0].Text == nil {
					request = &nodes[0]
					reqID, _ = attrOfNode(nodes[0], "id")
				}
			}
			reply = []byte(strings.ReplaceAll(tmpl, idMark, xmlEsc(reqID)))
			return reply
		},
	}
	neg := xmpp.NewNegotiator(func(*xmpp.Session, *xmpp.StreamConfig) xmpp.StreamConfig {
		return xmpp.StreamConfig{Features: []xmpp.StreamFeature{xmpp.BindResource()}}
	})
	var s *xmpp.Session
	var err error
	p := hx.Catch(func() {
		s, err = xmpp.NewSession(context.Background(), origin.Domain(), origin, conn, xmpp.Secure|xmpp.Authn, neg)
	})
	x.res.Count("bindc|"+c.Origin+c.Reply, true, "bind/client")
	if p != "" {
		x.res.Fail("C12/bind/client/panic", "bind panics on the initiating side: "+p, c)
		return
	}
	hdrOK := false
	if e := headerEnd(conn.out.Bytes()); e >= 0 {
		if t, _, ok := firstStart(conn.out.Bytes()[:e]); ok {
			f, _ := attrOf(t, "", "from")
			hdrOK = f == origin.String()
		}
	}
	if !hdrOK {
		x.res.Fail("C12/send/roundtrip/"+map[bool]string{true: "special-chars", false: "plain"}[hasSpecial(c.Origin)],
			"the stream header printed by the session is not well-formed XML carrying our address: "+conn.out.String(), c)
		return
	}
	if conn.next < 2 {
		x.res.Fail("C12/bind/client/no-request", fmt.Sprintf("the initiating side never asked for the reply (err=%v)", err), c)
		return
	}
	class := bindClass(err)
	x.res.Histogram["bind/client/"+strings.SplitN(class, ":", 2)[0]]++

	// ---- oracle: the request asks for exactly our resourcepart (or none) ----
	res := origin.Resourcepart()
	switch {
	case request == nil:
		x.res.Fail("C12/bind/client/request-malformed", "the bind request is not one well-formed element: "+conn.out.String(), c)
	default:
		typ, _ := attrOfNode(*request, "type")
		bad := ""
		if request.Space != nsClient || request.Local != "iq" || typ != "set" || reqID == "" {
			bad = "not an iq of type set with an id"
		}
		var binds, rs []Node
		for _, k := range request.Kids {
			if k.Text == nil && k.Space == nsBind && k.Local == "bind" {
				binds = append(binds, k)
			}
		}
		if len(binds) != 1 || len(request.Kids) != 1 {
			bad = "payload is not exactly one <bind/>"
		} else {
			for _, k := range binds[0].Kids {
				if k.Text == nil && k.Local == "resource" {
					rs = append(rs, k)
				}
			}
			switch {
			case res == "" && len(binds[0].Kids) != 0:
				bad = "no resourcepart in the local address but the request is not empty"
			case res != "" && (len(rs) != 1 || len(binds[0].Kids) != 1 || nodeText(rs[0]) != res):
				got := "<none>"
				if len(rs) > 0 {
					got = nodeText(rs[0])
				}
				bad = fmt.Sprintf("local resourcepart %q, requested %q", res, got)
			}
		}
		if bad != "" {
			x.res.Fail("C12/bind/client/request-resource", "the bind request does not ask for the resourcepart of the local address: "+bad, c)
		}
	}

	// ---- oracle: the assigned address is adopted; anything else is an error ----
	verdict, assigned := judgeReply(reply, reqID)
	if s != nil {
		switch verdict {
		case "good":
			if err != nil || !s.LocalAddr().Equal(assigned) {
				x.res.Fail("C12/bind/client/assigned-not-adopted", fmt.Sprintf("server assigned %q; err=%v, LocalAddr=%q", assigned, err, s.LocalAddr()), c)
			}
		case "":
		default:
			if err == nil {
				x.res.Fail("C12/bind/client/accepted/"+verdict, fmt.Sprintf("a bind reply that is not a result carrying an address (%s) is accepted; LocalAddr=%q", verdict, s.LocalAddr()), c)
			} else {
				if !s.LocalAddr().Equal(origin) {
					x.res.Fail("C12/bind/client/address-changed-on-error", fmt.Sprintf("bind failed (%v) but LocalAddr changed to %q", err, s.LocalAddr()), c)
				}
				if pp := hx.Catch(func() { _ = err.Error() }); pp != "" {
					x.res.Fail("C12/bind/client/unusable-error/"+verdict, "the error returned for the reply panics when Error is called: "+pp, c)
				}
			}
		}
	}

	// ---- model case ----
	if s == nil || request == nil {
		return
	}
	item, node := coqItem(reply, nsClient)
	tbl := parseTable{}
	if node != nil {
		tbl.addNode(*node)
	}
	x.bc.Add(fmt.Sprintf("mkbccase %s %s %s %s %s %s %s", tbl.coq(), coqJID(origin), cb(reqID), item,
		coqToks(flatten(*request)), coqBres(class), coqJID(s.LocalAddr())), c)
	x.res.Sample(c)
}

func attrOfNode(n Node, local string) (string, bool) {
	for _, a := range n.Attrs {
		if a.Local == local && a.Space == "" {
			return a.Val, true
		}
	}
	return "", false
}

// judgeReply states, independently of the library, what a reply is: "good"
// (a result for our id carrying exactly one valid address) with that address,
// a reason why it must be refused, or "" when it is neither clearly.
func judgeReply(reply []byte, reqID string) (string, jid.JID) {
	nodes, ok := parseNodes(reply, nsClient)
	if !ok || len(nodes) == 0 {
		return "malformed", jid.JID{}
	}
	n := nodes[0]
	if n.Text != nil {
		if strings.Trim(*n.Text, " \t\r\n") == "" {
			return "", jid.JID{} // white space between stanzas is legal; the library refuses it
		}
		return "malformed", jid.JID{}
	}
	if n.Local != "iq" || n.Space != nsClient {
		return "not-an-iq", jid.JID{}
	}
	ids, types := 0, 0
	id, typ := "", ""
	for _, a := range n.Attrs {
		if a.Local == "id" {
			ids++
			id = a.Val
		}
		if a.Local == "type" {
			types++
			typ = a.Val
		}
	}
	if ids > 1 || types > 1 {
		return "", jid.JID{}
	}
	if id != reqID {
		return "wrong-id", jid.JID{}
	}
	if typ == "error" {
		return "error-reply", jid.JID{}
	}
	if typ != "result" {
		return "wrong-type", jid.JID{}
	}
	var jids []string
	nbind := 0
	for _, k := range n.Kids {
		if k.Text == nil && k.Local == "bind" && k.Space == nsBind {
			nbind++
			for _, kk := range k.Kids {
				if kk.Text == nil && kk.Local == "jid" {
					jids = append(jids, nodeText(kk))
				}
			}
		}
	}
	if len(jids) == 0 {
		return "result-without-address", jid.JID{}
	}
	if len(jids) > 1 || nbind > 1 {
		return "", jid.JID{}
	}
	j, err := jid.Parse(jids[0])
	if err != nil {
		return "invalid-address", jid.JID{}
	}
	for _, a := range n.Attrs {
		if (a.Local == "to" || a.Local == "from") && a.Val != "" {
			if _, err := jid.Parse(a.Val); err != nil {
				return "", jid.JID{}
			}
		}
	}
	return "good", j
}

func (x *runner) genBindClient(r *hx.Rand) bindClientCase {
	origin := genJID(r, 95, 70)
	c := bindClientCase{Kind: "bindc", Origin: origin.String()}
	assigned := origin
	switch r.Intn(4) {
	case 0:
		assigned, _ = origin.WithResource(pick(r, resources[2:]))
	case 1:
		assigned = genJID(r, 90, 90)
	case 2:
		assigned, _ = origin.WithResource(fmt.Sprintf("%x", r.Uint64()))
	}
	if assigned.Equal(jid.JID{}) {
		assigned = origin
	}
	a := xmlEsc(assigned.String())
	bindOpen, bindClose := "<bind xmlns='"+nsBind+"'>", "</bind>"
	good := "<iq type='result' id='" + idMark + "'>" + bindOpen + "<jid>" + a + "</jid>" + bindClose + "</iq>"
	errEl := "<error type='cancel'><conflict xmlns='urn:ietf:params:xml:ns:xmpp-stanzas'/></error>"
	reply := good
	switch r.Intn(24) {
	case 0, 1, 2, 3, 4, 5, 6, 7:
	case 8:
		reply = "<iq id='" + idMark + "' to='" + xmlEsc(origin.String()) + "' from='" + xmlEsc(origin.Domainpart()) + "' type='result' xmlns='jabber:client'>" + bindOpen + "<jid>" + a + "</jid>" + bindClose + "</iq>"
	case 9:
		reply = "<iq type='error' id='" + idMark + "'>" + pick(r, []string{errEl, bindOpen + bindClose + errEl, "", bindOpen + errEl + bindClose, "<error/>"}) + "</iq>"
	case 10:
		reply = "<iq type='result' id='" + pick(r, []string{"", "x", idMark + "0", "0" + idMark, " " + idMark}) + "'>" + bindOpen + "<jid>" + a + "</jid>" + bindClose + "</iq>"
	case 11:
		reply = "<iq type='result' id='" + idMark + "'>" + pick(r, []string{"", bindOpen + bindClose, "<bind xmlns='" + nsBind + "'/>", "<bind xmlns='urn:other'><jid>" + a + "</jid></bind>", "<bind><jid>" + a + "</jid></bind>",
			"<jid>" + a + "</jid>", bindOpen + "<resource>r</resource>" + bindClose, bindOpen + "<jid/>" + bindClose, bindOpen + "<jid></jid>" + bindClose}) + "</iq>"
	case 12:
		reply = "<iq type='result' id='" + idMark + "'>" + bindOpen + "<jid>" + xmlEsc(pick(r, badJIDs)) + "</jid>" + bindClose + "</iq>"
	case 13:
		reply = "<iq type='" + pick(r, []string{"get", "set", "", "Result", "results", "ERROR"}) + "' id='" + idMark + "'>" + bindOpen + "<jid>" + a + "</jid>" + bindClose + "</iq>"
	case 14:
		reply = "<iq id='" + idMark + "'>" + bindOpen + "<jid>" + a + "</jid>" + bindClose + "</iq>"
	case 15:
		reply = pick(r, []string{" ", "\n", "text"}) + good
	case 16:
		reply = pick(r, []string{"", "<iq type='result' id='" + idMark + "'>" + bindOpen + "<jid>" + a, "<iq type='result' id='" + idMark + "'>" + bindOpen + "<jid>" + a + "</jid></iq>", "<iq", "</stream:stream>"})
	case 17:
		reply = pick(r, []string{"<message id='" + idMark + "' type='result'>" + bindOpen + "<jid>" + a + "</jid>" + bindClose + "</message>",
			"<iq xmlns='jabber:server' type='result' id='" + idMark + "'>" + bindOpen + "<jid>" + a + "</jid>" + bindClose + "</iq>",
			"<iq xmlns='urn:x' type='result' id='" + idMark + "'>" + bindOpen + "<jid>" + a + "</jid>" + bindClose + "</iq>",
			"<presence/>"})
	case 18:
		reply = "<stream:error><" + pick(r, sconds) + " xmlns='" + nsSErr + "'/></stream:error>"
	case 19:
		reply = "<iq type='result' id='" + idMark + "' " + pick(r, []string{"to", "from"}) + "='" + xmlEsc(pick(r, badJIDs)) + "'>" + bindOpen + "<jid>" + a + "</jid>" + bindClose + "</iq>"
	case 20:
		reply = "<iq type='result' id='" + idMark + "'>" + pick(r, []string{"<other xmlns='urn:x'/>", " ", "text"}) + bindOpen + pick(r, []string{"", " ", "<x/>"}) + "<jid>" + a + "</jid>" + bindClose + "</iq>"
	case 21:
		reply = "<iq type='result' id='" + idMark + "'>" + bindOpen + "<jid>" + a + "</jid>" + bindClose + bindOpen + pick(r, []string{"", "<jid>other@example.org/x</jid>"}) + bindClose + "</iq>"
	case 22:
		reply = "<iq type='result' id='" + idMark + "'>" + bindOpen + "<jid> " + a + "</jid>" + bindClose + "</iq>"
	case 23:
		reply = "<iq type='result' id='" + idMark + "'>" + bindOpen + "<jid>" + a + "<x/></jid>" + bindClose + errEl + "</iq>"
	}
	c.Reply = hx.Hex([]byte(reply))
	return c
}

// ---- receiving side ----

type bindServerCase struct {
	Kind    string `json:"kind"`
	S2S     bool   `json:"s2s"`
	From    string `json:"from,omitempty"` // the client's address in its stream header
	Request string `json:"request_hex"`
	Text    string `json:"request,omitempty"`
	Verdict string `json:"verdict"` // default | jid | stanza-error | other-error
	VJid    string `json:"vjid,omitempty"`
}

var lastDefaultResource string

func (x *runner) runBindServer(c bindServerCase) {
	req := hx.UnHex(c.Request)
	c.Text = string(req)
	iqns := nsClient
	if c.S2S {
		iqns = nsServer
	}
	hdr := "<stream:stream xmlns='" + iqns + "' xmlns:stream='" + nsStream + "' version='1.0' to='example.net'"
	if c.From != "" {
		hdr += " from='" + xmlEsc(c.From) + "'"
	}
	hdr += ">"
	conn := &scriptConn{answer: map[int]bool{1: true}, chunks: []func([]byte) []byte{static(hdr), static(string(req))}}
	type call struct {
		j   jid.JID
		res string
	}
	var calls []call
	stanzaErr := stanza.Error{Type: stanza.Cancel, Condition: stanza.Conflict}
	feature := xmpp.BindResource()
	if c.Verdict != "default" {
		feature = xmpp.BindCustom(func(j jid.JID, res string) (jid.JID, error) {
			calls = append(calls, call{j, res})
			switch c.Verdict {
			case "jid":
				return mustJID(c.VJid), nil
			case "stanza-error":
				return jid.JID{}, stanzaErr
			}
			return jid.JID{}, errors.New("verif: callback failed")
		})
	}
	neg := xmpp.NewNegotiator(func(*xmpp.Session, *xmpp.StreamConfig) xmpp.StreamConfig {
		return xmpp.StreamConfig{Features: []xmpp.StreamFeature{feature}}
	})
	state := xmpp.Secure | xmpp.Authn
	if c.S2S {
		state |= xmpp.S2S
	}
	var s *xmpp.Session
	var err error
	p := hx.Catch(func() { s, err = xmpp.ReceiveSession(context.Background(), conn, state, neg) })
	x.res.Count("binds|"+fmt.Sprint(c.S2S, c.From, c.Verdict, c.VJid)+c.Request, true, "bind/server", "bind/server/"+c.Verdict)
	if p != "" {
		x.res.Fail("C12/bind/server/panic", "bind panics on the receiving side: "+p, c)
		return
	}
	if s == nil {
		return
	}
	class := bindClass(err)
	x.res.Histogram["bind/server/result/"+strings.SplitN(class, ":", 2)[0]]++
	// the reply is what was written after the request was fetched
	replyBytes := conn.segment(2)
	if conn.next < 2 {
		replyBytes = nil
	}
	replyNodes, replyOK := parseNodes(replyBytes, iqns)
	remote := s.RemoteAddr()

	// did the request reach bind at all? (negotiateFeatures selects the feature
	// by the name space of the iq's first child element)
	reqNodes, reqOK := parseNodes(req, iqns)
	reached := false
	var reqNode Node
	if reqOK && len(reqNodes) > 0 && reqNodes[0].Text == nil {
		reqNode = reqNodes[0]
		if reqNode.Local == "iq" && (reqNode.Space == nsClient || reqNode.Space == nsServer) {
			for _, k := range reqNode.Kids {
				if k.Text != nil {
					if strings.Trim(*k.Text, " \t\r\n") == "" {
						continue
					}
					break
				}
				reached = k.Space == nsBind
				break
			}
		}
	}

	// ---- oracle ----
	if reached && reqNode.Space == iqns {
		reqID, _ := firstAttrNode(reqNode, "id")
		wantRes, clear := requestedResource(reqNode)
		if c.Verdict != "default" && clear && addressesOK(reqNode) {
			if len(calls) != 1 {
				x.res.Fail("C12/bind/server/callback-count", fmt.Sprintf("the application's callback ran %d times for one request", len(calls)), c)
			} else if calls[0].res != wantRes || !calls[0].j.Equal(remote) {
				x.res.Fail("C12/bind/server/callback-arguments", fmt.Sprintf("callback got (%q, %q), request asks %q from %q", calls[0].j, calls[0].res, wantRes, remote), c)
			}
		}
		noRemote := c.Verdict == "default" && remote.Equal(jid.JID{})
		if noRemote && clear && addressesOK(reqNode) && (err == nil || len(replyBytes) != 0) {
			// no address is known for the peer: there is nothing a fresh resource
			// could be bound to (JID.WithResource refuses), bind must fail
			x.res.Fail("C12/bind/server/default-without-remote-address", fmt.Sprintf("the peer has no address, yet err=%v and the reply is %q", err, replyBytes), c)
		}
		if clear && addressesOK(reqNode) && c.Verdict != "other-error" && !noRemote {
			switch {
			case !replyOK || len(replyNodes) != 1 || replyNodes[0].Text != nil:
				x.res.Fail("C12/bind/server/no-reply", fmt.Sprintf("the request is not answered with one element (err=%v): %s", err, replyBytes), c)
			default:
				rep := replyNodes[0]
				id, _ := attrOfNode(rep, "id")
				typ, _ := attrOfNode(rep, "type")
				if rep.Local != "iq" || rep.Space != iqns || id != reqID {
					x.res.Fail("C12/bind/server/reply-id", fmt.Sprintf("reply does not answer the request's id %q: %s", reqID, replyBytes), c)
				}
				rto, _ := attrOfNode(rep, "to")
				rfrom, _ := attrOfNode(rep, "from")
				qto, _ := attrOfNode(reqNode, "to")
				qfrom, _ := attrOfNode(reqNode, "from")
				if !sameAddr(rto, qfrom) || !sameAddr(rfrom, qto) {
					x.res.Fail("C12/bind/server/reply-addresses", fmt.Sprintf("reply to=%q from=%q for request from=%q to=%q", rto, rfrom, qfrom, qto), c)
				}
				var jids []string
				errKids, errInBind := 0, 0
				for _, k := range rep.Kids {
					if k.Text == nil && k.Local == "error" {
						errKids++
					}
					if k.Text == nil && k.Local == "bind" && k.Space == nsBind {
						for _, kk := range k.Kids {
							if kk.Text == nil && kk.Local == "jid" {
								jids = append(jids, nodeText(kk))
							}
							if kk.Text == nil && kk.Local == "error" {
								errInBind++
							}
						}
					}
				}
				switch c.Verdict {
				case "stanza-error":
					if typ != "error" {
						x.res.Fail("C12/bind/server/error-reply-type", fmt.Sprintf("the callback's stanza error is sent in a reply of type %q", typ), c)
					}
					if errKids != 1 || errInBind != 0 {
						x.res.Fail("C12/bind/server/error-reply-placement", "the callback's stanza error is not sent as the <error/> child of the iq: "+string(replyBytes), c)
					}
					if len(jids) != 0 {
						x.res.Fail("C12/bind/server/error-reply-with-address", "an error reply carries an address", c)
					}
				case "jid":
					want := mustJID(c.VJid)
					if typ != "result" || len(jids) != 1 || jids[0] != want.String() {
						if want.Equal(jid.JID{}) {
							x.res.Histogram["bind/server/callback-returned-empty-address"]++
						} else {
							x.res.Fail("C12/bind/server/reply-address", fmt.Sprintf("callback chose %q, reply (type %q) carries %q", want, typ, jids), c)
						}
					}
				case "default":
					ok := typ == "result" && len(jids) == 1
					var j jid.JID
					if ok {
						var perr error
						j, perr = jid.Parse(jids[0])
						ok = perr == nil
					}
					if !ok || !j.Bare().Equal(remote.Bare()) || j.Resourcepart() == "" {
						x.res.Fail("C12/bind/server/default-address", fmt.Sprintf("default reply (type %q) carries %q for remote %q", typ, jids, remote), c)
					} else {
						if j.Resourcepart() == lastDefaultResource {
							x.res.Fail("C12/bind/server/resource-not-fresh", "two default binds produced the same resource "+j.Resourcepart(), c)
						}
						lastDefaultResource = j.Resourcepart()
					}
				}
				if c.Verdict == "stanza-error" {
					// the error was reported to the peer; nothing was bound, so the
					// step fails with the callback's stanza error and the session is
					// not ready
					var se stanza.Error
					if !errors.As(err, &se) || se.Condition != stanzaErr.Condition || s.State()&xmpp.Ready != 0 {
						x.res.Fail("C12/bind/server/error-reply-outcome", fmt.Sprintf("the callback's stanza error was sent, but the negotiation returns err=%v, ready=%v (want that stanza error, not ready)", err, s.State()&xmpp.Ready != 0), c)
					}
				} else if err != nil {
					x.res.Fail("C12/bind/server/error-after-reply", fmt.Sprintf("the request was answered with an address but negotiation failed: %v", err), c)
				} else if s.State()&xmpp.Ready == 0 {
					x.res.Fail("C12/bind/server/not-ready-after-bind", "a resource was bound but the session is not ready", c)
				}
			}
		}
		if c.Verdict == "other-error" && clear && addressesOK(reqNode) && (err == nil || len(replyBytes) != 0) {
			x.res.Fail("C12/bind/server/callback-error-ignored", fmt.Sprintf("the callback failed but err=%v and the reply is %q", err, replyBytes), c)
		}
	}

	// ---- model case (only when the request reaches bind) ----
	if !reached {
		x.res.Histogram["bind/server/not-reached"]++
		return
	}
	item, node := coqItem(req, iqns)
	tbl := parseTable{}
	if node != nil {
		tbl.addNode(*node)
	}
	verdict := "VFail"
	switch c.Verdict {
	case "jid":
		verdict = "(VJid " + coqJID(mustJID(c.VJid)) + ")"
	case "stanza-error":
		var buf bytes.Buffer
		e := xml.NewEncoder(&buf)
		e.EncodeToken(xml.StartElement{Name: xml.Name{Local: "w"}, Attr: []xml.Attr{{Name: xml.Name{Local: "xmlns"}, Value: iqns}}})
		stanzaErr.WriteXML(e)
		e.EncodeToken(xml.EndElement{Name: xml.Name{Local: "w"}})
		e.Flush()
		b := buf.Bytes()
		inner := b[bytes.IndexByte(b, '>')+1 : bytes.LastIndex(b, []byte("</w>"))]
		nodes, _ := parseNodes(inner, iqns)
		ks := make([]string, len(nodes))
		for i, n := range nodes {
			ks[i] = coqNode(n)
		}
		verdict = "(VStanzaErr " + coqList(ks) + ")"
	case "default":
		rid := ""
		if replyOK && len(replyNodes) == 1 {
			for _, k := range replyNodes[0].Kids {
				for _, kk := range k.Kids {
					if kk.Text == nil && kk.Local == "jid" {
						t := nodeText(kk)
						if i := strings.Index(t, "/"); i >= 0 && strings.HasPrefix(t, remote.Bare().String()) {
							rid = t[len(remote.Bare().String())+1:]
						}
					}
				}
			}
		}
		verdict = fmt.Sprintf("(default_verdict %s %s)", coqJID(remote), cb(rid))
	}
	cbArg := "None"
	if len(calls) > 0 {
		cbArg = "(Some " + cb(calls[0].res) + ")"
	}
	var replyToks []Tok
	if replyOK {
		replyToks = flattenAll(replyNodes)
	} else if len(replyBytes) > 0 {
		replyToks = []Tok{{K: "directive"}} // unparsable reply: never equal to the model's
	}
	x.bs.Add(fmt.Sprintf("mkbscase %s %s %s %s %s %s %s %s", tbl.coq(), hx.CoqBool(c.S2S), hx.CoqBool(c.Verdict != "default"), item, verdict, coqBres(class), cbArg, coqToks(replyToks)), c)
	x.res.Sample(c)
}

func sameAddr(a, b string) bool {
	if a == b {
		return true
	}
	ja, e1 := jid.Parse(a)
	jb, e2 := jid.Parse(b)
	return e1 == nil && e2 == nil && ja.Equal(jb)
}

func firstAttrNode(n Node, local string) (string, bool) {
	for _, a := range n.Attrs {
		if a.Local == local {
			return a.Val, true
		}
	}
	return "", false
}

func addressesOK(n Node) bool {
	for _, a := range n.Attrs {
		if (a.Local == "to" || a.Local == "from") && a.Val != "" {
			if _, err := jid.Parse(a.Val); err != nil {
				return false
			}
		}
	}
	ids := 0
	for _, a := range n.Attrs {
		if a.Local == "id" {
			ids++
		}
	}
	return ids <= 1
}

// requestedResource: the resource a bind request asks for; clear is false when
// the request is not a plain one (several payloads, nested addresses, ...).
func requestedResource(n Node) (string, bool) {
	res, nb, nr := "", 0, 0
	clear := true
	for _, k := range n.Kids {
		if k.Text != nil {
			continue
		}
		if k.Local == "bind" && k.Space == nsBind {
			nb++
			for _, kk := range k.Kids {
				if kk.Text != nil {
					continue
				}
				switch kk.Local {
				case "resource":
					nr++
					res = nodeText(kk)
					for _, k3 := range kk.Kids {
						if k3.Text == nil {
							clear = false
						}
					}
				case "jid":
					clear = false
				}
			}
		} else if k.Local == "error" || k.Local == "bind" {
			clear = false
		}
	}
	return res, clear && nb == 1 && nr <= 1
}

func (x *runner) genBindServer(r *hx.Rand) bindServerCase {
	c := bindServerCase{Kind: "binds", S2S: r.Chance(1, 8)}
	if !c.S2S && r.Chance(9, 10) {
		c.From = genJID(r, 90, 20).String()
	}
	switch r.Intn(8) {
	case 0, 1, 2:
		c.Verdict = "default"
	case 3, 4, 5:
		c.Verdict = "jid"
		var j jid.JID
		switch r.Intn(5) {
		case 0:
			j = genJID(r, 90, 95)
		case 1:
			// nothing: the callback returns the zero address
		default:
			base := mustJID(c.From)
			if c.From == "" {
				base = jid.MustParse("someone@example.net")
			}
			j, _ = base.WithResource(pick(r, resources[2:]))
		}
		c.VJid = j.String()
	case 6:
		c.Verdict = "stanza-error"
	default:
		c.Verdict = "other-error"
	}
	iqns := ""
	if c.S2S {
		iqns = " xmlns='jabber:server'"
	}
	id := fmt.Sprintf("%x", r.Uint64()>>40)
	if r.Chance(1, 6) {
		id = pick(r, []string{"", "it's <&>", "é", " ", "a b"})
	}
	res := pick(r, resources)
	if r.Chance(1, 4) {
		res = specials(r, res)
	}
	bindOpen, bindClose := "<bind xmlns='"+nsBind+"'>", "</bind>"
	payload := bindOpen + "<resource>" + xmlEsc(res) + "</resource>" + bindClose
	if res == "" {
		payload = pick(r, []string{"<bind xmlns='" + nsBind + "'/>", bindOpen + bindClose, bindOpen + "<resource/>" + bindClose, bindOpen + "<resource></resource>" + bindClose})
	}
	attrs := " type='set' id='" + xmlEsc(id) + "'"
	if r.Chance(1, 3) {
		attrs += " to='" + xmlEsc(pick(r, []string{"example.net", "example.net", "other.example", "a@b/c"})) + "'"
	}
	if r.Chance(1, 3) {
		f := c.From
		if f == "" || r.Chance(1, 4) {
			f = genJID(r, 80, 50).String()
		}
		attrs += " from='" + xmlEsc(f) + "'"
	}
	req := "<iq" + iqns + attrs + ">" + payload + "</iq>"
	switch r.Intn(20) {
	case 0:
		req = "<iq" + iqns + " id='" + xmlEsc(id) + "'>" + payload + "</iq>" // no type
	case 1:
		req = "<iq" + iqns + " type='get' id='" + xmlEsc(id) + "'>" + payload + "</iq>"
	case 2:
		req = "<iq" + iqns + " type='set'>" + payload + "</iq>" // no id
	case 3:
		req = "<iq" + iqns + attrs + ">" + pick(r, []string{" ", "\n  "}) + payload + "</iq>"
	case 4:
		req = "<iq" + iqns + attrs + ">" + bindOpen + "<resource>" + xmlEsc(res) + "</resource><resource>second</resource>" + bindClose + "</iq>"
	case 5:
		req = "<iq" + iqns + attrs + ">" + payload + bindOpen + pick(r, []string{"", "<resource>again</resource>"}) + bindClose + "</iq>"
	case 6:
		req = "<iq" + iqns + attrs + " " + pick(r, []string{"to", "from"}) + "2='x' " + pick(r, []string{"to", "from"}) + "='" + xmlEsc(pick(r, badJIDs)) + "'>" + payload + "</iq>"
	case 7:
		req = "<iq" + iqns + attrs + ">" + bindOpen + "<resource>a<b/>c</resource>" + bindClose + "</iq>"
	case 8:
		req = "<iq" + iqns + attrs + ">" + bindOpen + "<jid>" + xmlEsc(pick(r, append([]string{"a@b/c"}, badJIDs...))) + "</jid>" + bindClose + "</iq>"
	case 9:
		req = pick(r, []string{"<iq xmlns='jabber:server'" + attrs + ">" + payload + "</iq>", "<iq xmlns='jabber:client'" + attrs + ">" + payload + "</iq>"})
	case 10:
		req = pick(r, []string{"<bind xmlns='" + nsBind + "'/>", "<iq" + iqns + attrs + "><other xmlns='urn:x'/>" + payload + "</iq>", "<iq" + iqns + attrs + "/>", "<iq" + iqns + attrs + ">text" + payload + "</iq>",
			"<message" + iqns + attrs + ">" + payload + "</message>", "", "<iq" + iqns + attrs + ">" + bindOpen + "<resource>x", " " + req})
	case 11:
		req = "<iq" + iqns + attrs + ">" + payload + "<error type='cancel'><conflict xmlns='urn:ietf:params:xml:ns:xmpp-stanzas'/></error></iq>"
	case 12:
		req = "<iq" + iqns + attrs + " xml:lang='en' id='second'>" + payload + "</iq>"
	}
	c.Request = hx.Hex([]byte(req))
	return c
}

// ---- receiving side, several negotiations with one feature value ----

// bindManyCase: 2-5 sessions served with one and the same BindResource()
// StreamFeature value (and negotiator), as a server does: every negotiation
// must draw its own random resource.
type bindManyCase struct {
	Kind     string   `json:"kind"`
	S2S      bool     `json:"s2s"`
	Froms    []string `json:"froms"`
	Requests []string `json:"requests_hex"`
	Texts    []string `json:"requests,omitempty"`
}

func (x *runner) runBindMany(c bindManyCase) {
	iqns := nsClient
	if c.S2S {
		iqns = nsServer
	}
	feature := xmpp.BindResource()
	neg := xmpp.NewNegotiator(func(*xmpp.Session, *xmpp.StreamConfig) xmpp.StreamConfig {
		return xmpp.StreamConfig{Features: []xmpp.StreamFeature{feature}}
	})
	state := xmpp.Secure | xmpp.Authn
	if c.S2S {
		state |= xmpp.S2S
	}
	c.Texts = nil
	tbl := parseTable{}
	var negs, outs []string
	seen := map[string]int{}
	modelOK := true
	x.res.Count("bindm|"+fmt.Sprint(c.S2S, c.Froms, c.Requests), true, "bind/many", fmt.Sprintf("bind/many/%d", len(c.Requests)))
	for i := range c.Requests {
		req := hx.UnHex(c.Requests[i])
		c.Texts = append(c.Texts, string(req))
		from := ""
		if i < len(c.Froms) {
			from = c.Froms[i]
		}
		hdr := "<stream:stream xmlns='" + iqns + "' xmlns:stream='" + nsStream + "' version='1.0' to='example.net'"
		if from != "" {
			hdr += " from='" + xmlEsc(from) + "'"
		}
		hdr += ">"
		conn := &scriptConn{answer: map[int]bool{1: true}, chunks: []func([]byte) []byte{static(hdr), static(string(req))}}
		var s *xmpp.Session
		var err error
		if p := hx.Catch(func() { s, err = xmpp.ReceiveSession(context.Background(), conn, state, neg) }); p != "" {
			x.res.Fail("C12/bind/server/panic", "bind panics on the receiving side: "+p, c)
			return
		}
		if s == nil {
			return
		}
		remote := s.RemoteAddr()
		replyBytes := conn.segment(2)
		if conn.next < 2 {
			replyBytes = nil
		}
		replyNodes, replyOK := parseNodes(replyBytes, iqns)
		rid := ""
		if replyOK && len(replyNodes) == 1 {
			for _, k := range replyNodes[0].Kids {
				for _, kk := range k.Kids {
					if kk.Text == nil && kk.Local == "jid" {
						t := nodeText(kk)
						if j := strings.Index(t, "/"); j >= 0 && strings.HasPrefix(t, remote.Bare().String()+"/") {
							rid = t[len(remote.Bare().String())+1:]
						}
					}
				}
			}
		}
		// ---- oracle: a fresh resource per negotiation ----
		if !remote.Equal(jid.JID{}) {
			if err != nil || rid == "" {
				x.res.Fail("C12/bind/server/default-address", fmt.Sprintf("negotiation %d with a shared feature value: err=%v, reply %q", i+1, err, replyBytes), c)
			} else if prev, dup := seen[rid]; dup {
				x.res.Fail("C12/bind/server/resource-not-fresh", fmt.Sprintf("negotiations %d and %d performed with the same BindResource() value were both assigned the resourcepart %q", prev, i+1, rid), c)
			} else {
				seen[rid] = i + 1
			}
		}
		// ---- model case ----
		item, node := coqItem(req, iqns)
		if node != nil {
			tbl.addNode(*node)
		} else {
			modelOK = false
		}
		var replyToks []Tok
		if replyOK {
			replyToks = flattenAll(replyNodes)
		} else if len(replyBytes) > 0 {
			replyToks = []Tok{{K: "directive"}}
		}
		negs = append(negs, fmt.Sprintf("(%s, %s, %s)", coqJID(remote), item, cb(rid)))
		outs = append(outs, fmt.Sprintf("(%s, %s)", coqBres(bindClass(err)), coqToks(replyToks)))
	}
	if modelOK {
		x.bm.Add(fmt.Sprintf("mkbmcase %s %s %s %s", tbl.coq(), hx.CoqBool(c.S2S), coqList(negs), coqList(outs)), c)
	}
	x.res.Sample(c)
}

func (x *runner) genBindMany(r *hx.Rand) bindManyCase {
	// (c2s only: a receiving s2s session with no origin set refuses a header that has a "from")
	c := bindManyCase{Kind: "bindm"}
	n := 2 + r.Intn(4)
	account := genJID(r, 100, 0).Bare()
	for i := 0; i < n; i++ {
		from := account // several clients of one account
		if r.Chance(1, 3) {
			from = genJID(r, 90, 30)
		}
		f := from.String()
		if r.Chance(1, 12) {
			f = "" // (no address for this peer: the default bind fails)
		}
		c.Froms = append(c.Froms, f)
		iqns := ""
		if c.S2S {
			iqns = " xmlns='jabber:server'"
		}
		id := fmt.Sprintf("%x", r.Uint64()>>44)
		if r.Chance(1, 4) {
			id = "bind1" // clients tend to use the same ids
		}
		res := pick(r, resources)
		payload := "<bind xmlns='" + nsBind + "'><resource>" + xmlEsc(res) + "</resource></bind>"
		if res == "" {
			payload = "<bind xmlns='" + nsBind + "'/>"
		}
		c.Requests = append(c.Requests, hx.Hex([]byte("<iq"+iqns+" type='set' id='"+xmlEsc(id)+"'>"+payload+"</iq>")))
	}
	return c
}
