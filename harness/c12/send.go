package main

// Header printing: internal/stream.Send at function level, the emitted header
// read back with encoding/xml and with the library's own Expect; and the small
// start-tag reader of the model against encoding/xml.

import (
	"bytes"
	"context"
	"encoding/xml"
	"fmt"
	"strings"

	"mellium.im/xmpp"
	"mellium.im/xmpp/stream"
	"verifharness/hx"
)

const (
	nsStream = "http://etherx.jabber.org/streams"
	nsWS     = "urn:ietf:params:xml:ns:xmpp-framing"
	nsClient = "jabber:client"
	nsServer = "jabber:server"
	nsBind   = "urn:ietf:params:xml:ns:xmpp-bind"
	nsXML    = "http://www.w3.org/XML/1998/namespace"
	nsSErr   = "urn:ietf:params:xml:ns:xmpp-streams"
)

type sendCase struct {
	Kind  string `json:"kind"`
	WS    bool   `json:"ws"`
	XMLNS string `json:"xmlns"`
	Major uint8  `json:"major"`
	Minor uint8  `json:"minor"`
	Lang  string `json:"lang_hex"`
	To    string `json:"to_hex"`
	From  string `json:"from_hex"`
	ID    string `json:"id_hex"`
	Wire  string `json:"wire,omitempty"`
}

// firstStart reads b the way a peer would: an optional XML declaration, white
// space, then a start element. selfClose says whether the tag ended in "/>".
func firstStart(b []byte) (t Tok, selfClose bool, ok bool) {
	d := xml.NewDecoder(bytes.NewReader(b))
	sawDecl := false
	for {
		tk, err := d.Token()
		if err != nil {
			return Tok{}, false, false
		}
		switch x := tk.(type) {
		case xml.ProcInst:
			if sawDecl {
				return Tok{}, false, false
			}
			sawDecl = true
			continue
		case xml.CharData:
			if len(bytes.TrimLeft(x, " \t\r\n")) == 0 {
				continue
			}
			return Tok{}, false, false
		case xml.StartElement:
			off := int(d.InputOffset())
			return tokOf(x), off >= 2 && off <= len(b) && b[off-2] == '/', true
		default:
			return Tok{}, false, false
		}
	}
}

func coqParsed(t Tok, sc, ok bool) string {
	if !ok {
		return "None"
	}
	return fmt.Sprintf("(Some (%s, %s))", coqTok(t), hx.CoqBool(sc))
}

func attrOf(t Tok, space, local string) (string, bool) {
	for _, a := range t.Attrs {
		if a.Space == space && a.Local == local {
			return a.Val, true
		}
	}
	return "", false
}

func hasSpecial(ss ...string) bool {
	for _, s := range ss {
		if strings.ContainsAny(s, "'\"&<>\t\n\r") {
			return true
		}
	}
	return false
}

func (x *runner) runSend(c sendCase) {
	lang, to, from, id := string(hx.UnHex(c.Lang)), string(hx.UnHex(c.To)), string(hx.UnHex(c.From)), string(hx.UnHex(c.ID))
	var buf bytes.Buffer
	out := stream.Info{XMLNS: c.XMLNS}
	var err error
	p := hx.Catch(func() {
		err = xmpp.VerifStreamSend(&buf, &out, c.WS, stream.Version{Major: c.Major, Minor: c.Minor}, lang, to, from, id)
	})
	wire := buf.Bytes()
	c.Wire = string(wire)
	valid := xmlClean(lang) && xmlClean(to) && xmlClean(from) && xmlClean(id)
	class := "plain"
	if hasSpecial(lang, to, from, id) {
		class = "special-chars"
	}
	x.res.Count("send|"+fmt.Sprint(c), class == "special-chars" || !valid, "send", "send/"+class)
	if p != "" || err != nil {
		x.res.Fail("C12/send/error", fmt.Sprintf("Send on a buffer fails: %v %s", err, p), c)
		return
	}
	t, sc, ok := firstStart(wire)

	// ---- oracle: the header is well-formed and a peer recovers the values ----
	if valid {
		key := "C12/send/roundtrip/" + class
		switch {
		case !ok:
			x.res.Fail(key, "the stream header is not well-formed XML: "+string(wire), c)
		default:
			wantName := [2]string{nsStream, "stream"}
			if c.WS {
				wantName = [2]string{nsWS, "open"}
			}
			bad := ""
			chk := func(what, space, local, want string, always bool) {
				got, has := attrOf(t, space, local)
				if want == "" && !always {
					if has {
						bad += what + " present though empty; "
					}
					return
				}
				if !has || got != want {
					bad += fmt.Sprintf("%s: sent %q, peer reads %q; ", what, want, got)
				}
			}
			if t.Space != wantName[0] || t.Local != wantName[1] {
				bad += fmt.Sprintf("element is {%s}%s; ", t.Space, t.Local)
			}
			if sc != c.WS {
				bad += "self-closing mismatch; "
			}
			chk("to", "", "to", to, false)
			chk("from", "", "from", from, false)
			chk("id", "", "id", id, false)
			chk("xml:lang", nsXML, "lang", lang, false)
			chk("version", "", "version", fmt.Sprintf("%d.%d", c.Major, c.Minor), true)
			if !c.WS {
				chk("xmlns", "", "xmlns", c.XMLNS, true)
			}
			if len(t.Attrs) > 7 {
				bad += "unexpected extra attributes; "
			}
			if bad != "" {
				x.res.Fail(key, "a peer parsing the header does not recover what was sent: "+bad, c)
			} else if out.ID != id {
				x.res.Fail("C12/send/info-id", "Send does not record the id in the output stream info", c)
			} else if out.Name.Space != t.Space || out.Name.Local != t.Local {
				x.res.Fail("C12/send/info-name", fmt.Sprintf("Send records the opening element %v in the output stream info but prints {%s}%s", out.Name, t.Space, t.Local), c)
			} else {
				x.expectBack(c, wire, lang, to, from, id)
			}
		}
	}
	x.sc.Add(fmt.Sprintf("mkscase %s %s %s %s %s %s %s %s (%s, %s) %s", hx.CoqBool(c.WS), cb(c.XMLNS), coqVer(c.Major, c.Minor),
		cb(lang), cb(to), cb(from), cb(id), hx.CoqBytes(wire), cb(out.Name.Space), cb(out.Name.Local), coqParsed(t, sc, ok)), c)
	x.res.Sample(c)
}

// expectBack feeds the emitted header to the library's own Expect (the peer
// being this library): addresses, id, version, name space and language must
// come back.
func (x *runner) expectBack(c sendCase, wire []byte, lang, to, from, id string) {
	if c.Major != 1 || c.Minor != 0 || (!c.WS && c.XMLNS != nsClient && c.XMLNS != nsServer) {
		return
	}
	var in stream.Info
	var err error
	p := hx.Catch(func() {
		err = xmpp.VerifStreamExpect(context.Background(), &in, xml.NewDecoder(bytes.NewReader(wire)), id == "", c.WS)
	})
	if p != "" || err != nil {
		x.res.Fail("C12/sendexpect/rejected", fmt.Sprintf("Expect rejects the header Send printed: %v %s", err, p), c)
		return
	}
	bad := ""
	if in.To.String() != to {
		bad += fmt.Sprintf("to %q->%q; ", to, in.To)
	}
	if in.From.String() != from {
		bad += fmt.Sprintf("from %q->%q; ", from, in.From)
	}
	if in.ID != id {
		bad += "id; "
	}
	if in.Version != stream.DefaultVersion {
		bad += "version; "
	}
	if !c.WS && in.XMLNS != c.XMLNS {
		bad += "xmlns; "
	}
	if bad != "" {
		x.res.Fail("C12/sendexpect/not-recovered", "Expect does not recover what Send printed: "+bad, c)
	}
	if in.Lang != lang {
		x.res.Fail("C12/expect/lang-not-recorded", fmt.Sprintf("Info.FromStartElement does not record xml:lang (sent %q, Info.Lang %q)", lang, in.Lang), c)
	}
}

func (x *runner) genSend(r *hx.Rand) sendCase {
	c := sendCase{Kind: "send", WS: r.Chance(1, 3), XMLNS: nsClient, Major: 1, Minor: 0}
	switch r.Intn(8) {
	case 0:
		c.XMLNS = nsServer
	case 1:
		c.XMLNS = pick(r, []string{"", "urn:example:other", "jabber:component:accept", "a", "http://etherx.jabber.org/streams"})
	}
	if r.Chance(1, 6) {
		c.Major, c.Minor = uint8(r.Intn(256)), uint8(r.Intn(256))
		if r.Bool() {
			c.Major, c.Minor = uint8(pickInt(r, []int{0, 1, 2, 9, 10, 99, 100, 255})), uint8(pickInt(r, []int{0, 1, 9, 10, 99, 100, 199, 255}))
		}
	}
	to, from := "", ""
	if r.Chance(4, 5) {
		to = genJID(r, 50, 50).String()
	}
	if r.Chance(4, 5) {
		from = genJID(r, 70, 70).String()
	}
	c.To, c.From = hx.Hex([]byte(to)), hx.Hex([]byte(from))
	c.Lang, c.ID = hx.Hex([]byte(genLang(r))), hx.Hex([]byte(genID(r)))
	return c
}

func pickInt(r *hx.Rand, l []int) int { return l[r.Intn(len(l))] }

// ---- the model's start-tag reader against encoding/xml ----

type readCase struct {
	Kind string `json:"kind"`
	In   string `json:"in_hex"`
}

func (x *runner) runRead(c readCase) {
	b := hx.UnHex(c.In)
	t, sc, ok := firstStart(b)
	x.res.Count("read|"+c.In, ok, "read")
	x.rc.Add(fmt.Sprintf("mkrcase %s %s", hx.CoqBytes(b), coqParsed(t, sc, ok)), c)
}

var tagNames = []string{"stream:stream", "open", "a", "stream:error", "x:y", "a:b:c", "s", "_u", "stream:features", "iq"}
var attrNames = []string{"to", "from", "id", "version", "xmlns", "xmlns:stream", "xml:lang", "xmlns:x", "x:attr", "a", "b:c", "xmlns:a", "a:b:c"}
var valuePieces = []string{"", "a", "1.0", "jabber:client", nsStream, "&amp;", "&lt;", "&gt;", "&apos;", "&quot;", "&#39;", "&#x27;", "&#34;", "&#x9;", "&#xA;", "&#xD;", "&#x1F600;", "&#233;",
	"é", "\U0001F600", ">", " ", "a b", "x@y/z", "=", "/", "?", "&#xD7FF;", "&#xE000;", "&#1114111;", "\t", "\n"}
var badPieces = []string{"<", "&", "&foo;", "&#0;", "&#x0;", "&#xFFFE;", "&#65535;", "&#1114112;", "&#x;", "&#;", "&lt", "&#X41;", "&#+1;", "\x01", "\xff", "\xef\xbf\xbe", "& amp;", "&l t;"}

func (x *runner) genRead(r *hx.Rand) readCase {
	var sb strings.Builder
	switch r.Intn(6) {
	case 0:
		sb.WriteString(`<?xml version="1.0" encoding="UTF-8"?>`)
	case 1:
		sb.WriteString(`<?xml version='1.0'?>`)
	}
	sb.WriteString(pick(r, []string{"", "", "", " ", "\n", "\r\n\t"}))
	sb.WriteString("<" + pick(r, tagNames))
	bad := r.Chance(1, 5)
	for n := r.Intn(5); n > 0; n-- {
		sb.WriteString(pick(r, []string{" ", " ", " ", "  ", "\n", "\t", ""}))
		q := pick(r, []string{"'", "'", "\""})
		sb.WriteString(pick(r, attrNames) + pick(r, []string{"=", "=", "=", " = ", "= ", " ="}) + q)
		for k := r.Intn(4); k > 0; k-- {
			if bad && r.Chance(1, 4) {
				sb.WriteString(pick(r, badPieces))
			} else {
				sb.WriteString(pick(r, valuePieces))
			}
			if r.Chance(1, 10) {
				if q == "'" {
					sb.WriteString("\"")
				} else {
					sb.WriteString("'")
				}
			}
		}
		if bad && r.Chance(1, 8) {
			continue // missing closing quote
		}
		sb.WriteString(q)
	}
	if bad && r.Chance(1, 6) {
		sb.WriteString(pick(r, []string{" novalue", " x=y", "/ >", " ='v'", "<"}))
	}
	sb.WriteString(pick(r, []string{">", ">", "/>", " >", " />", "\n>"}))
	sb.WriteString(pick(r, []string{"", "", "trailing", "<b/>", "</x>"}))
	return readCase{Kind: "read", In: hx.Hex([]byte(sb.String()))}
}
