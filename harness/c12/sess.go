package main

// Sessions through the real negotiator (xmpp.NewNegotiator /
// websocket.Negotiator) on a scripted in-memory connection: sequences of stream
// headers across restarts, in both roles and framings.

import (
	"bytes"
	"context"
	"encoding/xml"
	"errors"
	"fmt"
	"io"
	"strings"

	"mellium.im/xmlstream"
	"mellium.im/xmpp"
	"mellium.im/xmpp/jid"
	"mellium.im/xmpp/stanza"
	"mellium.im/xmpp/stream"
	"mellium.im/xmpp/websocket"
	"verifharness/hx"
)

// scriptConn is the peer: chunk i is handed to the session only when it asks
// for more input after having consumed chunk i-1 (a peer that waits for the
// answer before it goes on), and may depend on what the session wrote so far.
type scriptConn struct {
	chunks []func(out []byte) []byte
	// answer[i]: chunk i is an answer to something the session says, so the peer
	// sends it only once the session has written since chunk i-1 was fetched
	// (otherwise the peer stays silent: end of input).
	answer map[int]bool
	next   int
	cur    []byte
	out    bytes.Buffer
	marks  []int // len(out) when chunk i was fetched
}

func (c *scriptConn) Read(p []byte) (int, error) {
	for len(c.cur) == 0 {
		if c.next >= len(c.chunks) {
			return 0, io.EOF
		}
		if c.answer[c.next] {
			last := 0
			if len(c.marks) > 0 {
				last = c.marks[len(c.marks)-1]
			}
			if c.out.Len() == last {
				return 0, io.EOF
			}
		}
		c.marks = append(c.marks, c.out.Len())
		c.cur = c.chunks[c.next](c.out.Bytes())
		c.next++
	}
	n := copy(p, c.cur)
	c.cur = c.cur[n:]
	return n, nil
}

func (c *scriptConn) Write(p []byte) (int, error) { return c.out.Write(p) }

// segment i: what the session wrote between fetching chunk i-1 and chunk i
// (i = len(marks): what it wrote after the last fetch).
func (c *scriptConn) segment(i int) []byte {
	out := c.out.Bytes()
	lo, hi := 0, len(out)
	if i > 0 && i-1 < len(c.marks) {
		lo = c.marks[i-1]
	}
	if i < len(c.marks) {
		hi = c.marks[i]
	}
	if i > len(c.marks) {
		return nil
	}
	return out[lo:hi]
}

func static(s string) func([]byte) []byte { return func([]byte) []byte { return []byte(s) } }

const nsRestart = "urn:verif:restart"
const nsFinish = "urn:verif:finish"

// restartFeature asks for a stream restart every time it is negotiated;
// finishFeature ends the negotiation.
func verifFeature(ns string, restart bool) xmpp.StreamFeature {
	return xmpp.StreamFeature{
		Name: xml.Name{Space: ns, Local: "f"},
		List: func(ctx context.Context, e xmlstream.TokenWriter, start xml.StartElement) (bool, error) {
			if err := e.EncodeToken(start); err != nil {
				return true, err
			}
			return true, e.EncodeToken(start.End())
		},
		Parse: func(ctx context.Context, d *xml.Decoder, start *xml.StartElement) (bool, interface{}, error) {
			return true, nil, d.Skip()
		},
		Negotiate: func(ctx context.Context, s *xmpp.Session, data interface{}) (xmpp.SessionState, io.ReadWriter, error) {
			if s.State()&xmpp.Received == xmpp.Received {
				r := s.TokenReader()
				tok, err := r.Token()
				if err == nil {
					if _, ok := tok.(xml.StartElement); ok {
						err = xmlstream.Skip(r)
					}
				}
				r.Close()
				if err != nil {
					return 0, nil, err
				}
			}
			if restart {
				return 0, s.Conn(), nil
			}
			return xmpp.Ready, nil, nil
		},
	}
}

func negotiatorFor(ws bool, cfg xmpp.StreamConfig) xmpp.Negotiator {
	f := func(*xmpp.Session, *xmpp.StreamConfig) xmpp.StreamConfig { return cfg }
	if ws {
		return websocket.Negotiator(f)
	}
	return xmpp.NewNegotiator(f)
}

type sessCase struct {
	Kind    string   `json:"kind"`
	Recv    bool     `json:"recv"`
	S2S     bool     `json:"s2s"`
	WS      bool     `json:"ws"`
	Lang    string   `json:"lang_hex"`
	Local   string   `json:"local,omitempty"`  // established before the first header ("" = none)
	Remote  string   `json:"remote,omitempty"` //
	Headers []string `json:"headers"`          // what the peer sends at each (re)start (hex)
	Texts   []string `json:"headers_text,omitempty"`
}

// featuresXML does not rely on the prefix the generated header may or may not bind.
func featuresXML(ws bool, ns string) string {
	return "<features xmlns='" + nsStream + "'><f xmlns='" + ns + "'/></features>"
}

// headerEnd returns the length of the stream header at the head of b (a start
// tag, self-closing for ws), or -1.
func headerEnd(b []byte) int {
	d := xml.NewDecoder(bytes.NewReader(b))
	for {
		t, err := d.Token()
		if err != nil {
			return -1
		}
		if _, ok := t.(xml.StartElement); ok {
			return int(d.InputOffset())
		}
	}
}

func sessClass(err error) string {
	if err != nil && strings.Contains(err.Error(), "does not match previously set") && classify(err) == "other" {
		return "mismatch"
	}
	return classify(err)
}

func coqNres(c string) string {
	switch c {
	case "ok":
		return "NOk"
	case "mismatch":
		return "NMismatch"
	}
	return "(NExpect " + coqEres(c) + ")"
}

func (x *runner) runSess(c sessCase) {
	lang := string(hx.UnHex(c.Lang))
	n := len(c.Headers)
	conn := &scriptConn{answer: map[int]bool{}}
	hdrs := make([][]byte, n)
	c.Texts = nil
	for k := 0; k < n; k++ {
		hdrs[k] = hx.UnHex(c.Headers[k])
		c.Texts = append(c.Texts, string(hdrs[k]))
		last := k == n-1
		fns := nsRestart
		if last {
			fns = nsFinish
		}
		if c.Recv {
			conn.chunks = append(conn.chunks, static(string(hdrs[k])), static("<f xmlns='"+fns+"'/>"))
			conn.answer[2*k+1] = true
		} else {
			conn.chunks = append(conn.chunks, static(string(hdrs[k])+featuresXML(c.WS, fns)))
			conn.answer[k] = true
		}
	}
	state := xmpp.SessionState(0)
	if c.S2S {
		state |= xmpp.S2S
	}
	cfg := xmpp.StreamConfig{Lang: lang, Features: []xmpp.StreamFeature{verifFeature(nsRestart, true), verifFeature(nsFinish, false)}}
	neg := negotiatorFor(c.WS, cfg)
	local, remote := mustJID(c.Local), mustJID(c.Remote)
	var s *xmpp.Session
	var err error
	p := hx.Catch(func() {
		if c.Recv {
			// NewSession with the Received bit: a receiving session with addresses
			// already established (ReceiveSession is the same with none).
			s, err = xmpp.NewSession(context.Background(), local, remote, conn, state|xmpp.Received, neg)
		} else {
			s, err = xmpp.NewSession(context.Background(), remote, local, conn, state, neg)
		}
	})
	role := "init"
	if c.Recv {
		role = "recv"
	}
	x.res.Count("sess|"+fmt.Sprint(c), n > 1, "sess", "sess/"+role, fmt.Sprintf("sess/rounds/%d", n))
	isErrHdr := func(b []byte) bool {
		toks, _ := tokenize(b)
		for _, t := range toks {
			if t.K == "start" && t.Space == nsStream && t.Local == "error" {
				return true
			}
		}
		return false
	}
	if p != "" {
		k := conn.next - 1
		if c.Recv {
			k = (conn.next - 1) / 2
		}
		if k >= 0 && k < n && isErrHdr(hdrs[k]) {
			x.res.Fail("C12/expect/stream-error/panic", "session negotiation panics on a stream error sent in place of a header: "+p, c)
		} else {
			x.res.Fail("C12/session/panic", "session negotiation panics: "+p, c)
		}
		return
	}
	class := sessClass(err)
	x.res.Histogram["sess/result/"+strings.SplitN(class, ":", 2)[0]]++

	// per round: was the header accepted, what did the session write
	per := 1
	if c.Recv {
		per = 2
	}
	roundsRun := (conn.next + per - 1) / per
	var wires [][]byte
	var rids []string
	wellFormed := true
	for k := 0; k < roundsRun && k < n; k++ {
		var seg []byte
		if c.Recv {
			seg = conn.segment(2*k + 1)
		} else {
			seg = conn.segment(k)
		}
		rid := ""
		hdr := seg
		if len(seg) > 0 {
			e := headerEnd(seg)
			if e < 0 {
				wellFormed = false
			} else {
				hdr = seg[:e]
				if t, _, ok := firstStart(hdr); ok {
					rid, _ = attrOf(t, "", "id")
				}
				if c.Recv {
					fns := nsRestart
					if k == n-1 {
						fns = nsFinish
					}
					want := "<stream:features><f xmlns=\"" + nsRestart + "\"></f><f xmlns=\"" + nsFinish + "\"></f></stream:features>"
					if c.WS {
						want = "<features xmlns=\"" + nsStream + "\"><f xmlns=\"" + nsRestart + "\"></f><f xmlns=\"" + nsFinish + "\"></f></features>"
					}
					_ = fns
					if string(seg[e:]) != want {
						x.res.Histogram["sess/unexpected-features-output"]++
					}
				}
			}
		}
		if !c.Recv {
			rid = ""
		}
		wires = append(wires, hdr)
		rids = append(rids, rid)
	}

	// ---- oracle: addresses established earlier cannot change at a restart ----
	accepted := func(k int) bool {
		if c.Recv {
			return conn.next > 2*k+1 || (err == nil && k == n-1)
		}
		return conn.next > k+1 || (err == nil && k == n-1)
	}
	estTo, estFrom := local, remote
	drift := false
	emptyTo := false // an accepted header carried to=''
	type roundAddr struct {
		acc, emptyBefore       bool
		bTo, bFrom, aTo, aFrom jid.JID // established before / after this round
	}
	ra := make([]roundAddr, n)
	for k := range ra {
		ra[k].bTo, ra[k].bFrom = estTo, estFrom
	}
	for k := 0; k < n && k < roundsRun; k++ {
		ra[k].bTo, ra[k].bFrom = estTo, estFrom
		if !accepted(k) {
			break
		}
		ra[k].acc = true
		t, _, ok := firstStart(hdrs[k])
		if !ok {
			x.res.Fail("C12/session/accepted-garbage", "a round was accepted although no header was presented", c)
			drift = true
			break
		}
		hTo, hFrom := jid.JID{}, jid.JID{}
		for _, a := range t.Attrs {
			if a.Space == "" && a.Local == "to" {
				emptyTo = a.Val == ""
			}
			if a.Space == "" && (a.Local == "to" || a.Local == "from") {
				// (the last attribute of a name counts; an empty one is no address)
				var j jid.JID
				if a.Val != "" {
					var perr error
					j, perr = jid.Parse(a.Val)
					if perr != nil {
						x.res.Fail("C12/session/accepted-invalid-address", "a header with an invalid address was accepted", c)
						continue
					}
				}
				if a.Local == "to" {
					hTo = j
				} else {
					hFrom = j
				}
			}
		}
		zero := jid.JID{}
		if k >= 1 {
			if !hTo.Equal(zero) && !estTo.Equal(zero) && !hTo.Equal(estTo) {
				x.res.Fail("C12/restart/"+role+"/to-changed", fmt.Sprintf("after a restart a header with to=%q was accepted although %q was established", hTo, estTo), c)
				drift = true
			}
			if !hFrom.Equal(zero) && !estFrom.Equal(zero) && !hFrom.Equal(estFrom) {
				x.res.Fail("C12/restart/"+role+"/from-changed", fmt.Sprintf("after a restart a header with from=%q was accepted although %q was established", hFrom, estFrom), c)
				drift = true
			}
		}
		if !hTo.Equal(zero) {
			estTo = hTo
		}
		if !hFrom.Equal(zero) {
			estFrom = hFrom
		}
		ra[k].aTo, ra[k].aFrom = estTo, estFrom
	}
	if s != nil && err == nil && !drift {
		if !c.Recv && emptyTo && s.LocalAddr().Equal(jid.JID{}) && !estTo.Equal(jid.JID{}) && s.RemoteAddr().Equal(estFrom) {
			// (negotiator.go tolerates the zero "to" that JID.UnmarshalXMLAttr makes
			// of an empty attribute; it used to leave it in the Info LocalAddr reads)
			x.res.Fail("C12/restart/init/empty-to-clears-local-address", fmt.Sprintf("after a header with to='' was accepted the session reports the local address %q, established was %q", s.LocalAddr(), estTo), c)
		} else if !s.LocalAddr().Equal(estTo) || !s.RemoteAddr().Equal(estFrom) {
			x.res.Fail("C12/restart/"+role+"/reported-address", fmt.Sprintf("session reports local=%q remote=%q, established were %q and %q", s.LocalAddr(), s.RemoteAddr(), estTo, estFrom), c)
		}
	}
	// a stream error sent in place of a header (initial or after a restart) is
	// returned as that stream.Error (errors.As), in both roles and framings
	if err != nil {
		fk := 0
		for fk < n && fk < roundsRun && accepted(fk) {
			fk++
		}
		if fk < n && fk < roundsRun {
			if cond, isErr := streamErrorIn(hdrs[fk]); isErr {
				var se stream.Error
				if !errors.As(err, &se) || se.Err != cond {
					x.res.Fail("C12/session/stream-error-not-returned/"+role, fmt.Sprintf("the peer sent the stream error %q in place of stream header %d; the session returns %T %q, which is not that stream.Error", cond, fk+1, err, err.Error()), c)
				}
			}
		}
	}
	// every header the session printed must be well-formed and carry the addresses
	for k, w := range wires {
		if len(w) == 0 {
			continue
		}
		t, sc, ok := firstStart(w)
		if !ok {
			wellFormed = false
			continue
		}
		if drift || k >= n {
			continue
		}
		// the receiving side answers an accepted header with the peer's addresses
		// swapped and a fresh id; the initiating side opens with the established
		// addresses and no id
		var wantTo, wantFrom jid.JID
		if c.Recv {
			if !ra[k].acc {
				x.res.Fail("C12/session/header/recv/answered-refused", "a header that was refused was answered with a stream header", c)
				continue
			}
			wantTo, wantFrom = ra[k].aFrom, ra[k].aTo
		} else {
			wantTo, wantFrom = ra[k].bFrom, ra[k].bTo
		}
		bad := func(field, msg string) {
			x.res.Fail("C12/session/header/"+role+"/"+field, fmt.Sprintf("stream header %d printed by the session: %s: %s", k+1, msg, w), c)
		}
		wantName := [2]string{nsStream, "stream"}
		if c.WS {
			wantName = [2]string{nsWS, "open"}
		}
		if t.Space != wantName[0] || t.Local != wantName[1] || sc != c.WS {
			bad("name", "not the stream-open element of the framing in use")
		}
		if got, _ := attrOf(t, "", "to"); got != wantTo.String() {
			bad("to", fmt.Sprintf("to=%q, the peer's address is %q", got, wantTo))
		}
		if got, _ := attrOf(t, "", "from"); got != wantFrom.String() {
			bad("from", fmt.Sprintf("from=%q, our address is %q", got, wantFrom))
		}
		if got, _ := attrOf(t, "", "version"); got != "1.0" {
			bad("version", "version is "+got)
		}
		wantNS := nsClient
		if c.S2S {
			wantNS = nsServer
		}
		if got, _ := attrOf(t, "", "xmlns"); !c.WS && got != wantNS {
			bad("xmlns", "content name space is "+got)
		}
		if got, _ := attrOf(t, nsXML, "lang"); xmlClean(lang) && got != lang {
			bad("lang", fmt.Sprintf("xml:lang=%q, configured %q", got, lang))
		}
		id, hasID := attrOf(t, "", "id")
		if c.Recv {
			if id == "" {
				bad("id", "the receiving side sent no stream id")
			}
			for kk := 0; kk < k && kk < len(rids); kk++ {
				if rids[kk] == id && id != "" {
					bad("id", "stream id reused after a restart")
				}
			}
		} else if hasID {
			bad("id", "the initiating side sent a stream id")
		}
	}
	if !wellFormed {
		cl := "plain"
		if hasSpecial(c.Local, c.Remote, lang) || hasSpecial(c.Texts...) {
			cl = "special-chars"
		}
		x.res.Fail("C12/send/roundtrip/"+cl, "a stream header printed by the session is not well-formed XML: "+conn.out.String(), c)
	}

	// ---- model case ----
	if s == nil {
		return
	}
	tbl := parseTable{}
	var rounds []string
	for k := 0; k < n; k++ {
		toks, _ := tokenize(hdrs[k])
		if !c.Recv {
			fns := nsRestart
			if k == n-1 {
				fns = nsFinish
			}
			toks, _ = tokenize(append(append([]byte(nil), hdrs[k]...), featuresXML(c.WS, fns)...))
		}
		for _, t := range toks {
			tbl.addAttrs(t.Attrs)
		}
		rid := ""
		if k < len(rids) {
			rid = rids[k]
		}
		rounds = append(rounds, fmt.Sprintf("(%s, %s)", cb(rid), coqToks(toks)))
	}
	ws := make([]string, len(wires))
	for i, w := range wires {
		ws[i] = hx.CoqBytes(w)
	}
	x.nc.Add(fmt.Sprintf("mkncase %s %s %s %s %s %s %s %s %s %s %s %s", tbl.coq(), hx.CoqBool(c.Recv), hx.CoqBool(c.S2S), hx.CoqBool(c.WS), cb(lang),
		coqJID(local), coqJID(remote), coqList(rounds), coqNres(class), coqJID(s.LocalAddr()), coqJID(s.RemoteAddr()), coqList(ws)), c)
	x.res.Sample(c)
}

var _ = errors.New
var _ = stanza.NSClient

// ---- generator ----

func perturbJID(r *hx.Rand, j jid.JID) string {
	for tries := 0; tries < 20; tries++ {
		var cand jid.JID
		var err error
		switch r.Intn(7) {
		case 0:
			cand, err = j.WithResource(pick(r, resources))
		case 1:
			cand = j.Bare()
		case 2:
			cand = j.Domain()
		case 3:
			cand, err = jid.New(j.Localpart(), pick(r, domains), j.Resourcepart())
		case 4:
			cand, err = jid.New(pick(r, locals), j.Domainpart(), j.Resourcepart())
		case 5:
			cand, err = jid.New(j.Localpart(), "x"+j.Domainpart(), j.Resourcepart())
		default:
			cand = genJID(r, 50, 50)
		}
		if err == nil && !cand.Equal(j) && !cand.Equal(jid.JID{}) {
			return cand.String()
		}
	}
	return "other.example"
}

func (x *runner) genSess(r *hx.Rand) sessCase {
	c := sessCase{Kind: "sess", Recv: r.Bool(), S2S: r.Chance(1, 4), WS: r.Chance(1, 4)}
	c.Lang = hx.Hex([]byte(pick(r, []string{"", "en", "en", "de-CH", "e'n", "<&>"})))
	var local, remote jid.JID
	if c.Recv {
		if r.Chance(1, 2) {
			local = genJID(r, 0, 0)
		}
		if r.Chance(1, 3) {
			remote = genJID(r, 80, 40)
		}
	} else {
		local = genJID(r, 90, 60)
		remote = local.Domain()
		if r.Chance(1, 8) {
			remote = genJID(r, 0, 0)
		}
		if r.Chance(1, 10) {
			local = jid.JID{}
		}
	}
	c.Local, c.Remote = local.String(), remote.String()
	n := 1 + r.Intn(4)
	// the peer's view of the addresses: what it will put in its headers
	pTo, pFrom := local, remote // header to = our local address, from = the peer's
	if c.Recv && local.Equal(jid.JID{}) {
		pTo = genJID(r, 0, 0)
	}
	if c.Recv && remote.Equal(jid.JID{}) && !c.S2S {
		pFrom = genJID(r, 90, 50)
	}
	for k := 0; k < n; k++ {
		var to, from *string
		if !pTo.Equal(jid.JID{}) && r.Chance(4, 5) {
			s := pTo.String()
			to = &s
		}
		if !pFrom.Equal(jid.JID{}) && r.Chance(4, 5) {
			s := pFrom.String()
			from = &s
		}
		// deviations: changed, emptied or invalid addresses, mostly after a restart
		if r.Chance(1, 4) {
			which := r.Intn(2)
			var s string
			switch r.Intn(6) {
			case 0:
				s = ""
			case 1:
				s = pick(r, badJIDs)
			default:
				if which == 0 {
					s = perturbJID(r, pTo)
				} else {
					s = perturbJID(r, pFrom)
				}
			}
			if which == 0 {
				to = &s
			} else {
				from = &s
			}
		}
		h := ""
		switch {
		case r.Chance(1, 25):
			h = genStreamError(r, false)
		case r.Chance(1, 30):
			h = genHeader(r, c.WS, to, from, false)
		default:
			h = genHeader(r, c.WS, to, from, true)
		}
		if !c.WS && strings.HasSuffix(h, "/>") && !strings.HasPrefix(h, "<stream:error") && !strings.HasPrefix(h, "<error") {
			// an empty <stream:stream/> passes Expect and fails in the feature
			// exchange, which is not part of this property's model
			h = h[:len(h)-2] + ">"
		}
		if !c.WS && r.Chance(1, 3) {
			h = `<?xml version="1.0" encoding="UTF-8"?>` + h
		}
		c.Headers = append(c.Headers, hx.Hex([]byte(h)))
	}
	return c
}
