package main

// Header acceptance: internal/stream.Expect at function level on generated
// start elements (names, name spaces, attribute sets, versions), in both
// framings and roles, with stream errors in place of a header.

import (
	"bytes"
	"context"
	"encoding/xml"
	"errors"
	"fmt"
	"io"
	"strings"

	"mellium.im/xmpp"
	"mellium.im/xmpp/jid"
	"mellium.im/xmpp/stanza"
	"mellium.im/xmpp/stream"
	"verifharness/hx"
)

type expectCase struct {
	Kind   string `json:"kind"`
	Recv   bool   `json:"recv"`
	WS     bool   `json:"ws"`
	InitTo string `json:"init_to,omitempty"`
	InitFr string `json:"init_from,omitempty"`
	Stale  bool   `json:"stale,omitempty"` // Info holds id/version/xmlns/lang of an earlier stream
	Script string `json:"script_hex"`
	Text   string `json:"script,omitempty"`
}

// error classes shared with the model: ok | io | stream:<cond> | other | panic
func classify(err error) string {
	var se stream.Error
	var sy *xml.SyntaxError
	switch {
	case err == nil:
		return "ok"
	case errors.As(err, &se):
		return "stream:" + se.Err
	case errors.Is(err, io.EOF), errors.Is(err, io.ErrUnexpectedEOF), errors.As(err, &sy):
		return "io"
	case strings.HasPrefix(err.Error(), "xml: unsupported version"), strings.HasPrefix(err.Error(), "xml: encoding"):
		// the tokenizer's two failures that are not SyntaxErrors (XML declaration)
		return "io"
	}
	return "other"
}

func coqEres(c string) string {
	switch {
	case c == "ok":
		return "EOk"
	case c == "io":
		return "EIo"
	case strings.HasPrefix(c, "stream:"):
		return "(EStream " + cb(c[7:]) + ")"
	}
	return "EOther"
}

func coqInfo(i stream.Info) string {
	return fmt.Sprintf("(mkinfo %s %s %s %s %s %s %s %s)", cb(i.Name.Space), cb(i.Name.Local), cb(i.XMLNS),
		coqJID(i.To), coqJID(i.From), cb(i.ID), coqVer(i.Version.Major, i.Version.Minor), cb(i.Lang))
}

func mustJID(s string) jid.JID {
	if s == "" {
		return jid.JID{}
	}
	return jid.MustParse(s)
}

// versionIsOneZero: the attribute denotes version 1.0 ("Major.Minor", decimal).
func versionIsOneZero(v string) bool {
	parts := strings.Split(v, ".")
	if len(parts) != 2 {
		return false
	}
	val := func(s string) int {
		if s == "" {
			return -1
		}
		n := 0
		for _, c := range []byte(s) {
			if c < '0' || c > '9' {
				return -1
			}
			n = n*10 + int(c-'0')
			if n > 1000 {
				return -1
			}
		}
		return n
	}
	return val(parts[0]) == 1 && val(parts[1]) == 0
}

func lastAttr(t Tok, space, local string) (string, bool) {
	v, ok := "", false
	for _, a := range t.Attrs {
		if a.Space == space && a.Local == local {
			v, ok = a.Val, true
		}
	}
	return v, ok
}

// streamErrorIn: script is white space / one leading XML declaration followed by
// one complete, well-formed stream error element; its condition (the last child
// of the stream error name space that is not <text/>).
func streamErrorIn(script []byte) (cond string, ok bool) {
	toks, offs := tokenize(script)
	first := -1
	for i, t := range toks {
		if t.K == "start" {
			first = i
			break
		}
		switch {
		case t.K == "procinst" && t.Data == "xml" && i == 0:
		case t.K == "char" && strings.Trim(t.Data, " \t\r\n") == "":
		default:
			return "", false
		}
	}
	if first < 0 || toks[first].Space != nsStream || toks[first].Local != "error" {
		return "", false
	}
	rest := script
	if first > 0 {
		rest = script[offs[first-1]:]
	}
	nodes, pok := parseNodes(rest, "")
	if !pok || len(nodes) == 0 || nodes[0].Text != nil {
		return "", false
	}
	for _, k := range nodes[0].Kids {
		if k.Text == nil && k.Space == nsSErr && k.Local != "text" {
			cond = k.Local
		}
	}
	return cond, true
}

func (x *runner) runExpect(c expectCase) {
	script := hx.UnHex(c.Script)
	c.Text = string(script)
	init := stream.Info{To: mustJID(c.InitTo), From: mustJID(c.InitFr)}
	if c.Stale {
		init.ID, init.Version, init.XMLNS, init.Lang = "old", stream.DefaultVersion, stanza.NSClient, "xx"
		init.Name = xml.Name{Space: nsStream, Local: "stream"}
	}
	in := init
	toks, offs := tokenize(script)
	d := xml.NewDecoder(bytes.NewReader(script))
	var err error
	p := hx.Catch(func() { err = xmpp.VerifStreamExpect(context.Background(), &in, d, c.Recv, c.WS) })

	// what the script is, in the property's terms
	first := -1 // index of the first start element
	cleanPrefix := true
	for i, t := range toks {
		if t.K == "start" {
			first = i
			break
		}
		switch {
		case t.K == "procinst" && t.Data == "xml" && i == 0:
		case t.K == "char" && strings.Trim(t.Data, " \t\r\n") == "":
		default:
			cleanPrefix = false
		}
	}
	isErr := first >= 0 && toks[first].Space == nsStream && toks[first].Local == "error"
	shape := "none"
	if first >= 0 {
		shape = "other-element"
		switch {
		case isErr:
			shape = "stream-error"
		case !c.WS && toks[first].Space == nsStream && toks[first].Local == "stream",
			c.WS && toks[first].Space == nsWS && toks[first].Local == "open":
			shape = "header"
		}
	}
	class := "panic"
	if p == "" {
		class = classify(err)
	}
	x.res.Count("expect|"+fmt.Sprint(c.Recv, c.WS, c.InitTo, c.InitFr, c.Stale)+c.Script, first >= 0,
		"expect", "expect/shape/"+shape, "expect/result/"+strings.SplitN(class, ":", 2)[0])

	// ---- oracle ----
	if p != "" {
		anyErr := isErr
		for _, t := range toks {
			if t.K == "start" && t.Space == nsStream && t.Local == "error" {
				anyErr = true // (inside <open>: the same decoding of a stream error)
			}
		}
		if anyErr {
			x.res.Fail("C12/expect/stream-error/panic", "Expect panics on a stream error sent in place of a header: "+p, c)
		} else {
			x.res.Fail("C12/expect/panic/"+shape, "Expect panics: "+p, c)
		}
		return
	}
	if err == nil {
		why := ""
		switch {
		case first < 0:
			why = "no-start-element"
		case !cleanPrefix:
			why = "junk-before-header"
		case shape != "header":
			why = "not-the-stream-open-element"
		}
		if why == "" && !c.Stale {
			t := toks[first]
			v, _ := lastAttr(t, "", "version")
			ns, _ := lastAttr(t, "", "xmlns")
			id, _ := lastAttr(t, "", "id")
			switch {
			case !versionIsOneZero(v):
				why = "version-not-1.0"
			case !c.WS && ns != nsClient && ns != nsServer:
				why = "unsupported-content-namespace"
			case !c.Recv && id == "":
				why = "no-stream-id"
			}
		}
		if why != "" {
			x.res.Fail("C12/expect/accepted/"+why, "Expect accepts a header it must reject ("+why+")", c)
		} else if !c.Stale {
			// recovered values
			t := toks[first]
			bad := ""
			for _, f := range []struct {
				name string
				got  jid.JID
				init jid.JID
			}{{"to", in.To, init.To}, {"from", in.From, init.From}} {
				want, v := f.init, ""
				for _, a := range t.Attrs {
					if a.Space != "" || a.Local != f.name {
						continue
					}
					v = a.Val
					if v == "" {
						// the empty attribute is the encoding of the zero address
						want = jid.JID{}
						continue
					}
					j, perr := jid.Parse(v)
					if perr != nil {
						bad += f.name + " invalid but accepted; "
						continue
					}
					want = j
				}
				if !f.got.Equal(want) {
					bad += fmt.Sprintf("%s: header %q, Info %q; ", f.name, v, f.got)
				}
			}
			if id, _ := lastAttr(t, "", "id"); in.ID != id {
				bad += "id; "
			}
			if in.Version != stream.DefaultVersion {
				bad += "version; "
			}
			if ns, _ := lastAttr(t, "", "xmlns"); in.XMLNS != ns {
				bad += "xmlns; "
			}
			if in.Name.Space != t.Space || in.Name.Local != t.Local {
				bad += "name; "
			}
			if bad != "" {
				x.res.Fail("C12/expect/info-not-recovered", "Expect accepted the header but Info does not hold its values: "+bad, c)
			}
			if l, has := lastAttr(t, nsXML, "lang"); has && in.Lang != l {
				x.res.Fail("C12/expect/lang-not-recorded", fmt.Sprintf("Info.FromStartElement does not record xml:lang (header %q, Info.Lang %q)", l, in.Lang), c)
			}
		}
	}
	if isErr && cleanPrefix {
		// a complete, well-formed stream error: must come back as that error
		rest := script
		if first > 0 {
			rest = script[offs[first-1]:]
		}
		if nodes, ok := parseNodes(rest, ""); ok && len(nodes) > 0 && nodes[0].Text == nil {
			cond, foreign := "", false
			for _, k := range nodes[0].Kids {
				if k.Text != nil {
					continue
				}
				if k.Space == nsSErr {
					if k.Local != "text" {
						cond = k.Local
					}
				} else {
					foreign = true
				}
			}
			if class != "stream:"+cond {
				key := "C12/expect/stream-error/not-returned"
				if foreign {
					key = "C12/expect/stream-error/application-condition"
				}
				x.res.Fail(key, fmt.Sprintf("a stream error (%q) sent in place of a header is not returned as such (got %s: %v)", cond, class, err), c)
			}
		}
	}

	// ---- model case ----
	// tokens left unread: what the same decoder still yields
	rest := 0
	for {
		if _, terr := d.Token(); terr != nil {
			break
		}
		rest++
	}
	tbl := parseTable{}
	for _, t := range toks {
		tbl.addAttrs(t.Attrs)
	}
	x.ec.Add(fmt.Sprintf("mkecase %s %s %s %s %s %s %s %s", tbl.coq(), hx.CoqBool(c.Recv), hx.CoqBool(c.WS), coqInfo(init),
		coqToks(toks), coqEres(class), coqInfo(in), hx.CoqNat(rest)), c)
	x.res.Sample(c)
}

// ---- generator ----

type hattr struct{ name, val string }

func renderTag(r *hx.Rand, name string, attrs []hattr, end string) string {
	var sb strings.Builder
	sb.WriteString("<" + name)
	for _, a := range attrs {
		q := "'"
		if r.Chance(1, 3) {
			q = "\""
		}
		sb.WriteString(pick(r, []string{" ", " ", " ", "\n  ", "  "}) + a.name + "=" + q + xmlEsc(a.val) + q)
	}
	sb.WriteString(end)
	return sb.String()
}

var versions = []string{"1.0", "1.0", "1.0", "1.0", "1.0", "1.0", "1.00", "01.0", "001.000", "1.1", "0.9", "2.0", "1.10", "", "1", "1.0.0", "1.", ".0", ".", "a.b", "1.x", "256.0", "1.256", "255.255",
	" 1.0", "+1.0", "1.0 ", "１.０", "-1.0", "1_0.0", "0x1.0", "1.0e0", "10.0", "1,0", "18446744073709551617.0", "1.00000000000000000000"}

var badJIDs = []string{"@@", "a@", "/r", "@b", "a@b@c/", "a b@c", " ", "x@/y", strings.Repeat("a", 1024) + "@b", "a@b/" + strings.Repeat("r", 1024), "<", "a@b/"}

func genAddr(r *hx.Rand) string {
	switch r.Intn(12) {
	case 0:
		return ""
	case 1:
		return pick(r, badJIDs)
	}
	return genJID(r, 60, 50).String()
}

func shuffle(r *hx.Rand, a []hattr) {
	for i := len(a) - 1; i > 0; i-- {
		j := r.Intn(i + 1)
		a[i], a[j] = a[j], a[i]
	}
}

var sconds = []string{"host-unknown", "not-well-formed", "invalid-namespace", "unsupported-version", "bad-format", "see-other-host", "system-shutdown", "conflict", "undefined-condition", "policy-violation", "made-up-condition"}

func genStreamError(r *hx.Rand, prefixBound bool) string {
	var sb strings.Builder
	if prefixBound {
		sb.WriteString("<stream:error>")
	} else if r.Chance(1, 4) {
		sb.WriteString("<error xmlns='" + nsStream + "'>")
	} else {
		sb.WriteString("<stream:error xmlns:stream='" + nsStream + "'>")
	}
	closeTag := "</stream:error>"
	if strings.HasPrefix(sb.String(), "<error") {
		closeTag = "</error>"
	}
	parts := []string{}
	nc := 1
	switch r.Intn(10) {
	case 0:
		nc = 0
	case 1:
		nc = 2
	}
	for i := 0; i < nc; i++ {
		c := pick(r, sconds)
		switch {
		case c == "see-other-host":
			parts = append(parts, "<see-other-host xmlns='"+nsSErr+"'>other.example:5222</see-other-host>")
		case r.Chance(1, 3):
			parts = append(parts, "<"+c+" xmlns='"+nsSErr+"'></"+c+">")
		default:
			parts = append(parts, "<"+c+" xmlns='"+nsSErr+"'/>")
		}
	}
	if r.Chance(1, 3) {
		parts = append(parts, "<text xmlns='"+nsSErr+"' xml:lang='en'>some <![CDATA[text]]> &amp; more</text>")
	}
	if r.Chance(1, 5) {
		parts = append(parts, pick(r, []string{
			"<escape-your-data xmlns='urn:example:app'/>",
			"<too-many xmlns='urn:example:app'><limit>3</limit></too-many>",
			"<text xmlns='urn:example:app'>x</text>",
		}))
	}
	if r.Chance(1, 6) {
		for i := len(parts) - 1; i > 0; i-- {
			j := r.Intn(i + 1)
			parts[i], parts[j] = parts[j], parts[i]
		}
	}
	for _, p := range parts {
		sb.WriteString(pick(r, []string{"", "", "\n  "}) + p)
	}
	switch r.Intn(12) {
	case 0: // truncated
		return sb.String()
	case 1:
		return sb.String() + "</stream:err"
	}
	return sb.String() + closeTag
}

// genHeader renders a stream header; to/from are given (possibly ""), the
// other attributes are drawn, with the deviations the property quantifies over.
func genHeader(r *hx.Rand, ws bool, to, from *string, mostlyValid bool) string {
	dev := func(n int) bool { // deviate with probability 1/n, rarely when mostlyValid
		if mostlyValid {
			return r.Chance(1, n*6)
		}
		return r.Chance(1, n)
	}
	name := "stream:stream"
	attrs := []hattr{}
	streamNS, contentNS := nsStream, pick(r, []string{nsClient, nsClient, nsServer})
	if dev(12) {
		streamNS = pick(r, []string{"http://etherx.jabber.org/stream", "http://wrong.example/streams", "", nsClient, nsWS})
	}
	if dev(8) {
		contentNS = pick(r, []string{"", "jabber:component:accept", "jabber:clien", "jabber:client ", nsStream, nsWS, "JABBER:CLIENT"})
	}
	if ws {
		name = "open"
		contentNS = nsWS
		if dev(8) {
			contentNS = pick(r, []string{nsClient, "", "urn:ietf:params:xml:ns:xmpp-framing-server", nsStream})
		}
	}
	if dev(10) {
		name = pick(r, []string{"stream:streams", "stream:features", "stream", "open", "stream:stream", "s:stream", "close", "stream:open", "iq"})
	}
	prefix := ""
	if i := strings.Index(name, ":"); i > 0 {
		prefix = name[:i]
	}
	switch {
	case prefix != "" && !dev(20):
		attrs = append(attrs, hattr{"xmlns:" + prefix, streamNS})
		if !dev(15) {
			attrs = append(attrs, hattr{"xmlns", contentNS})
		}
	case prefix == "" && name == "stream" && !ws:
		attrs = append(attrs, hattr{"xmlns", streamNS})
	case prefix == "":
		if !dev(15) {
			attrs = append(attrs, hattr{"xmlns", contentNS})
		}
		if r.Chance(1, 3) {
			attrs = append(attrs, hattr{"xmlns:stream", nsStream})
		}
	}
	if !dev(12) {
		v := "1.0"
		if dev(3) {
			v = pick(r, versions)
		}
		attrs = append(attrs, hattr{"version", v})
	}
	if !dev(5) {
		id := fmt.Sprintf("%x", r.Uint64()>>32)
		if dev(4) {
			id = pick(r, []string{"", "it's <&>", " ", "é"})
		}
		attrs = append(attrs, hattr{"id", id})
	}
	if to != nil {
		attrs = append(attrs, hattr{"to", *to})
	}
	if from != nil {
		attrs = append(attrs, hattr{"from", *from})
	}
	if r.Chance(1, 3) {
		attrs = append(attrs, hattr{"xml:lang", pick(r, []string{"en", "de", "", "x'y", "fr-CA"})})
	}
	if dev(10) {
		k := pick(r, []string{"version", "id", "to", "from", "xmlns"})
		v := pick(r, []string{"1.0", "2.0", "x", "", "example.net", nsClient})
		attrs = append(attrs, hattr{k, v})
	}
	if dev(10) {
		attrs = append(attrs, hattr{"xmlns:foo", "urn:foo"}, hattr{pick(r, []string{"foo:id", "foo:version", "foo:to", "foo:lang"}), pick(r, []string{"zzz", "9.9", "@@"})})
	}
	shuffle(r, attrs)
	end := ">"
	if ws {
		end = "/>"
		switch {
		case dev(8):
			end = "></open>"
		case dev(10):
			end = ">" + pick(r, []string{"text", " ", "<child xmlns='urn:x'><deep/>t</child>", "<!-- c -->", "<?pi?>",
				"<stream:error xmlns:stream='" + nsStream + "'><conflict xmlns='" + nsSErr + "'/></stream:error>",
				"<stream:stream xmlns:stream='" + nsStream + "'/>", "<stream:other xmlns:stream='" + nsStream + "'/>"}) + pick(r, []string{"</open>", "</open>", ""})
		case dev(12):
			end = ">"
		}
	} else if dev(12) {
		end = "/>"
	}
	return renderTag(r, name, attrs, end)
}

func (x *runner) genExpect(r *hx.Rand, malformed bool) expectCase {
	c := expectCase{Kind: "expect", Recv: r.Bool(), WS: r.Chance(1, 3)}
	if r.Chance(1, 2) {
		c.InitTo = genJID(r, 50, 40).String()
	}
	if r.Chance(1, 2) {
		c.InitFr = genJID(r, 50, 40).String()
	}
	c.Stale = r.Chance(1, 12)
	var sb strings.Builder
	// what precedes the element
	switch r.Intn(12) {
	case 0, 1, 2:
		sb.WriteString(`<?xml version="1.0" encoding="UTF-8"?>`)
	case 3:
		sb.WriteString(`<?xml version='1.0'?>` + pick(r, []string{" ", "\n", "\r\n  "}))
	case 4:
		sb.WriteString(pick(r, []string{" ", "\n\n", "\t"}))
	case 5:
		if malformed || r.Chance(1, 3) {
			sb.WriteString(pick(r, []string{"<!-- hi -->", "<?pi x?>", "x", " <?xml version='1.0'?>", "<!DOCTYPE x>", "<?xml version='1.0'?><?xml version='1.0'?>",
				"<?xml version='1.0'?><!-- c -->", "&amp;", "<![CDATA[ ]]>", "<?xml version='1.0'?>text", "<?xml-stylesheet href='a'?>", "<?xml version='1.1'?>", "\xff"}))
		}
	}
	switch {
	case r.Chance(1, 7):
		sb.WriteString(genStreamError(r, false))
	case malformed && r.Chance(1, 4):
		sb.WriteString(pick(r, []string{"", "<", "<stream:stream", "<stream:stream xmlns='jabber:client'>", "</stream:stream>", "<a></b>", "<stream:stream version='1.0' version=>",
			"<open xmlns='" + nsWS + "' version='1.0' id='x'", "<stream:stream xmlns:stream='" + nsStream + "' xmlns='jabber:client' version='1.0' id='a' to='a@b/it's'>"}))
	default:
		var to, from *string
		if r.Chance(3, 5) {
			s := genAddr(r)
			if c.InitTo != "" && r.Chance(1, 2) {
				s = c.InitTo
			}
			to = &s
		}
		if r.Chance(3, 5) {
			s := genAddr(r)
			if c.InitFr != "" && r.Chance(1, 2) {
				s = c.InitFr
			}
			from = &s
		}
		sb.WriteString(genHeader(r, c.WS != r.Chance(1, 10), to, from, !malformed && r.Chance(1, 2)))
		if r.Chance(1, 4) {
			sb.WriteString(pick(r, []string{"<stream:features/>", " ", "<a/>", "<stream:features><bind xmlns='" + nsBind + "'/></stream:features>"}))
		}
	}
	c.Script = hx.Hex([]byte(sb.String()))
	return c
}
