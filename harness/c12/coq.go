package main

// Coq term printers for the case records of coq/C12/Model.v, and the
// token/tree types shared by the drivers.

import (
	"bytes"
	"encoding/xml"
	"fmt"
	"io"
	"sort"
	"strings"

	"mellium.im/xmpp/jid"
	"verifharness/hx"
)

// Strings that occur in most cases are defined once per case file.
var shortNames = [][2]string{
	{"k_iq", "iq"}, {"k_bind", "bind"}, {"k_jid", "jid"}, {"k_resource", "resource"}, {"k_type", "type"}, {"k_id", "id"},
	{"k_to", "to"}, {"k_from", "from"}, {"k_xmlns", "xmlns"}, {"k_version", "version"}, {"k_stream", "stream"}, {"k_open", "open"},
	{"k_lang", "lang"}, {"k_error", "error"}, {"k_features", "features"}, {"k_f", "f"}, {"k_set", "set"}, {"k_result", "result"},
	{"k_10", "1.0"}, {"k_text", "text"}, {"k_xml", "xml"}, {"k_restart", "urn:verif:restart"}, {"k_finish", "urn:verif:finish"},
	{"k_stanzas", "urn:ietf:params:xml:ns:xmpp-stanzas"}, {"k_examplenet", "example.net"}, {"k_en", "en"},
}

var shortOf = map[string]string{
	"http://etherx.jabber.org/streams":     "ns_stream",
	"urn:ietf:params:xml:ns:xmpp-streams":  "ns_stream_error",
	"jabber:client":                        "ns_client",
	"jabber:server":                        "ns_server",
	"urn:ietf:params:xml:ns:xmpp-framing":  "ns_ws",
	"urn:ietf:params:xml:ns:xmpp-bind":     "ns_bind",
	"http://www.w3.org/XML/1998/namespace": "ns_xml",
	"":                                     "[]",
}

var imports = func() string {
	var sb strings.Builder
	sb.WriteString("From XV Require Import lib.Bytes gen.StreamHdr C12.Model.\nFrom Coq Require Import NArith.\n")
	for _, kv := range shortNames {
		fmt.Fprintf(&sb, "Definition %s : bytes := str \"%s\".\n", kv[0], kv[1])
		shortOf[kv[1]] = kv[0]
	}
	return sb.String()
}()

// Attr / Tok mirror Model.v's attr / tok (names after name space translation).
type Attr struct {
	Space string `json:"s,omitempty"`
	Local string `json:"l"`
	Val   string `json:"v"`
}

type Tok struct {
	K     string `json:"k"` // start end char comment procinst directive
	Space string `json:"s,omitempty"`
	Local string `json:"l,omitempty"`
	Attrs []Attr `json:"a,omitempty"`
	Data  string `json:"d,omitempty"`
}

// Node mirrors Model.v's node.
type Node struct {
	Text  *string `json:"t,omitempty"`
	Space string  `json:"s,omitempty"`
	Local string  `json:"l,omitempty"`
	Attrs []Attr  `json:"a,omitempty"`
	Kids  []Node  `json:"k,omitempty"`
}

func textNode(s string) Node { return Node{Text: &s} }

func cb(s string) string {
	if n, ok := shortOf[s]; ok {
		return n
	}
	return hx.CoqBytes([]byte(s))
}

func coqList(items []string) string { return "[" + strings.Join(items, "; ") + "]" }

func coqAttr(a Attr) string {
	return fmt.Sprintf("(mkattr %s %s %s)", cb(a.Space), cb(a.Local), cb(a.Val))
}

func coqAttrs(as []Attr) string {
	out := make([]string, len(as))
	for i, a := range as {
		out[i] = coqAttr(a)
	}
	return coqList(out)
}

func coqTok(t Tok) string {
	switch t.K {
	case "start":
		return fmt.Sprintf("(TStart %s %s %s)", cb(t.Space), cb(t.Local), coqAttrs(t.Attrs))
	case "end":
		return fmt.Sprintf("(TEnd %s %s)", cb(t.Space), cb(t.Local))
	case "char":
		return fmt.Sprintf("(TChar %s)", cb(t.Data))
	case "comment":
		return "TComment"
	case "procinst":
		return fmt.Sprintf("(TProcInst %s)", cb(t.Data))
	}
	return "TDirective"
}

func coqToks(ts []Tok) string {
	out := make([]string, len(ts))
	for i, t := range ts {
		out[i] = coqTok(t)
	}
	return coqList(out)
}

func coqNode(n Node) string {
	if n.Text != nil {
		return fmt.Sprintf("(NText %s)", cb(*n.Text))
	}
	ks := make([]string, len(n.Kids))
	for i, k := range n.Kids {
		ks[i] = coqNode(k)
	}
	return fmt.Sprintf("(NElem %s %s %s %s)", cb(n.Space), cb(n.Local), coqAttrs(n.Attrs), coqList(ks))
}

func coqJID(j jid.JID) string {
	return fmt.Sprintf("(mkjid %s %s %s)", cb(j.Localpart()), cb(j.Domainpart()), cb(j.Resourcepart()))
}

func coqVer(ma, mi uint8) string { return fmt.Sprintf("(%d, %d)%%N", ma, mi) }

// parseTable collects jid.Parse results for every value a case may look up.
type parseTable map[string]bool

func (p parseTable) add(vs ...string) {
	for _, v := range vs {
		p[v] = true
	}
}

func (p parseTable) addAttrs(as []Attr) {
	for _, a := range as {
		if a.Local == "to" || a.Local == "from" {
			p[a.Val] = true
		}
	}
}

func (p parseTable) addNode(n Node) {
	if n.Text != nil {
		return
	}
	p.addAttrs(n.Attrs)
	if n.Local == "jid" {
		p[nodeText(n)] = true
	}
	for _, k := range n.Kids {
		p.addNode(k)
	}
}

func nodeText(n Node) string {
	var sb strings.Builder
	for _, k := range n.Kids {
		if k.Text != nil {
			sb.WriteString(*k.Text)
		}
	}
	return sb.String()
}

func (p parseTable) coq() string {
	keys := make([]string, 0, len(p))
	for k := range p {
		keys = append(keys, k)
	}
	sort.Strings(keys)
	out := make([]string, 0, len(keys))
	for _, k := range keys {
		j, err := jid.Parse(k)
		if err != nil {
			out = append(out, fmt.Sprintf("(%s, None)", cb(k)))
		} else {
			out = append(out, fmt.Sprintf("(%s, Some %s)", cb(k), coqJID(j)))
		}
	}
	return coqList(out)
}

// ---- tokenising with encoding/xml (the tokenizer the library uses) ----

func tokOf(t xml.Token) Tok {
	switch x := t.(type) {
	case xml.StartElement:
		tk := Tok{K: "start", Space: x.Name.Space, Local: x.Name.Local}
		for _, a := range x.Attr {
			tk.Attrs = append(tk.Attrs, Attr{a.Name.Space, a.Name.Local, a.Value})
		}
		return tk
	case xml.EndElement:
		return Tok{K: "end", Space: x.Name.Space, Local: x.Name.Local}
	case xml.CharData:
		return Tok{K: "char", Data: string(x)}
	case xml.Comment:
		return Tok{K: "comment"}
	case xml.ProcInst:
		return Tok{K: "procinst", Data: x.Target}
	}
	return Tok{K: "directive"}
}

// tokenize returns the tokens encoding/xml reads from b up to its first error
// (end of input included) and the input offset after each token.
func tokenize(b []byte) (toks []Tok, offs []int64) {
	d := xml.NewDecoder(bytes.NewReader(b))
	for {
		t, err := d.Token()
		if err != nil || t == nil {
			return
		}
		toks = append(toks, tokOf(t))
		offs = append(offs, d.InputOffset())
	}
}

func dropXmlns(as []Attr) []Attr {
	var out []Attr
	for _, a := range as {
		if a.Space == "xmlns" || (a.Space == "" && a.Local == "xmlns") {
			continue
		}
		out = append(out, a)
	}
	return out
}

// parseNodes parses complete elements and character data found in b inside a
// wrapper that binds the default name space (and the stream prefix). ok is
// false when b is not a sequence of well-formed nodes.
func parseNodes(b []byte, defaultNS string) (nodes []Node, ok bool) {
	hdr := `<w xmlns="` + defaultNS + `" xmlns:stream="http://etherx.jabber.org/streams">`
	d := xml.NewDecoder(io.MultiReader(strings.NewReader(hdr), bytes.NewReader(b), strings.NewReader("</w>")))
	if _, err := d.Token(); err != nil {
		return nil, false
	}
	var stack []*Node
	top := &Node{}
	stack = append(stack, top)
	for {
		t, err := d.Token()
		if err != nil {
			return nil, false
		}
		switch x := t.(type) {
		case xml.StartElement:
			tk := tokOf(x)
			n := &Node{Space: tk.Space, Local: tk.Local, Attrs: dropXmlns(tk.Attrs)}
			stack = append(stack, n)
		case xml.EndElement:
			if len(stack) == 1 {
				return top.Kids, true
			}
			n := stack[len(stack)-1]
			stack = stack[:len(stack)-1]
			p := stack[len(stack)-1]
			p.Kids = append(p.Kids, *n)
		case xml.CharData:
			p := stack[len(stack)-1]
			p.Kids = append(p.Kids, textNode(string(x)))
		default:
			// comments, processing instructions: not part of the model's trees
			return nil, false
		}
	}
}

func flatten(n Node) []Tok {
	if n.Text != nil {
		return []Tok{{K: "char", Data: *n.Text}}
	}
	out := []Tok{{K: "start", Space: n.Space, Local: n.Local, Attrs: n.Attrs}}
	for _, k := range n.Kids {
		out = append(out, flatten(k)...)
	}
	return append(out, Tok{K: "end", Space: n.Space, Local: n.Local})
}

func flattenAll(ns []Node) []Tok {
	var out []Tok
	for _, n := range ns {
		out = append(out, flatten(n)...)
	}
	return out
}

// ---- rendering trees as XML text (for the peer's side of a script) ----

func xmlEsc(s string) string {
	var b bytes.Buffer
	xml.EscapeText(&b, []byte(s))
	return b.String()
}

// render writes a node with explicit name space declarations (every element
// declares its own default name space when it differs from the parent's).
func render(n Node, parentNS string) string {
	if n.Text != nil {
		return xmlEsc(*n.Text)
	}
	var sb strings.Builder
	sb.WriteString("<" + n.Local)
	if n.Space != parentNS {
		sb.WriteString(` xmlns='` + xmlEsc(n.Space) + `'`)
	}
	for _, a := range n.Attrs {
		name := a.Local
		if a.Space == "http://www.w3.org/XML/1998/namespace" {
			name = "xml:" + a.Local
		}
		sb.WriteString(" " + name + `='` + xmlEsc(a.Val) + `'`)
	}
	if len(n.Kids) == 0 {
		sb.WriteString("/>")
		return sb.String()
	}
	sb.WriteString(">")
	for _, k := range n.Kids {
		sb.WriteString(render(k, n.Space))
	}
	sb.WriteString("</" + n.Local + ">")
	return sb.String()
}
