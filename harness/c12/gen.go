package main

// Generators: addresses (resourceparts with quotes, ampersands, angle brackets
// and non-ASCII characters), language strings, stream ids, versions.

import (
	"fmt"
	"unicode/utf8"

	"mellium.im/xmpp/jid"
	"verifharness/hx"
)

var locals = []string{"", "", "me", "user", "user.name", "ünï", "a+b", "x_y~z", "q=1", "d\\27artagnan", "名前"}
var domains = []string{"example.net", "example.net", "b", "a.b.c", "chat.example.org", "münchen.example", "192.0.2.1", "[::1]", "xn--bcher-kva.example"}
var resources = []string{
	"", "", "r", "phone", "it's <&>", `q"uote`, "a>b", "<", ">", "&", "'", `"`, "&amp;", "&#39;", "&lt;", "a'b\"c", "x y",
	"ünï©ode", "emoji\U0001F600", "with/slash", "a@b", "]]>", "<!--", "<stream:error/>", "' to='evil.example", "é", " nbsp",
	"tail'", "'head", "=", "/>", "a&b<c>d'e\"f",
}

func pick(r *hx.Rand, l []string) string { return l[r.Intn(len(l))] }

// specials sprinkles XML-special characters into a base string.
func specials(r *hx.Rand, base string) string {
	sp := []string{"'", "\"", "&", "<", ">", "&#", ";", "é", "\U0001F600", " ", "]]>", " "}
	out := base
	for k := r.Intn(3); k >= 0; k-- {
		p := 0
		if len(out) > 0 {
			p = r.Intn(len(out) + 1)
			for p < len(out) && !utf8.RuneStart(out[p]) {
				p++
			}
		}
		out = out[:p] + pick(r, sp) + out[p:]
	}
	return out
}

// genJID returns a valid address; full says whether a resourcepart is wanted.
func genJID(r *hx.Rand, wantLocal, wantRes int) jid.JID {
	for {
		l, d, res := "", pick(r, domains), ""
		if r.Intn(100) < wantLocal {
			l = pick(r, locals)
		}
		if r.Intn(100) < wantRes {
			res = pick(r, resources)
			if r.Chance(1, 4) {
				res = specials(r, res)
			}
		}
		j, err := jid.New(l, d, res)
		if err == nil {
			return j
		}
	}
}

var langs = []string{"", "", "en", "de-CH", "und", "x-klingon", "e'n", "<&>", "a\"b", "en\tUS", "en\nUS", "en\rUS", "fr-CA-x-'", "é", "日本語"}

// invalid UTF-8, control characters, non-characters: what EscapeText replaces
var rawStrings = []string{"\xff", "a\xc3", "\xc3\x28", "\xe2\x82", "\xf0\x9f\x98", "\x01", "a\x00b", "\xef\xbf\xbe", "\xef\xbf\xbf", "\xed\xa0\x80", "\xc0\xaf", "\xf4\x90\x80\x80", "\x7f", "\xef\xbf\xbd", "\x1b[0m", "\xe0\x9f\xbf", "\xf0\x8f\xbf\xbf", "ok\xf8"}

func genLang(r *hx.Rand) string {
	switch r.Intn(10) {
	case 0:
		return specials(r, pick(r, langs))
	case 1:
		return pick(r, rawStrings) + pick(r, langs)
	}
	return pick(r, langs)
}

func genID(r *hx.Rand) string {
	switch r.Intn(10) {
	case 0:
		return ""
	case 1:
		return specials(r, "id")
	case 2:
		return pick(r, rawStrings)
	case 3:
		return pick(r, resources)
	}
	return fmt.Sprintf("%x", r.Uint64()>>uint(8*r.Intn(7)))
}

// xmlClean reports whether s is valid UTF-8 made of XML characters only (the
// values the property speaks about: valid addresses, language tags and ids).
func xmlClean(s string) bool {
	for i := 0; i < len(s); {
		c, w := utf8.DecodeRuneInString(s[i:])
		if c == utf8.RuneError && w == 1 {
			return false
		}
		ok := c == 0x9 || c == 0xA || c == 0xD || (c >= 0x20 && c <= 0xD7FF) || (c >= 0xE000 && c <= 0xFFFD) || (c >= 0x10000 && c <= 0x10FFFF)
		if !ok {
			return false
		}
		i += w
	}
	return true
}
