// Command c12 is the correspondence harness and implementation oracle for
// property C12: negotiation carries addresses and identifiers faithfully and
// checks them (stream headers, address checks across restarts, resource binding).
package main

import (
	"encoding/json"
	"fmt"
	"os"

	"verifharness/hx"
)

type runner struct {
	res                        *hx.Result
	sc, rc, ec, nc, bc, bs, bm hx.CaseFile
}

func (x *runner) replay(raw json.RawMessage) error {
	var k struct {
		Kind string `json:"kind"`
	}
	if err := json.Unmarshal(raw, &k); err != nil {
		return err
	}
	switch k.Kind {
	case "send":
		var c sendCase
		if err := json.Unmarshal(raw, &c); err != nil {
			return err
		}
		x.runSend(c)
	case "read":
		var c readCase
		if err := json.Unmarshal(raw, &c); err != nil {
			return err
		}
		x.runRead(c)
	case "expect":
		var c expectCase
		if err := json.Unmarshal(raw, &c); err != nil {
			return err
		}
		x.runExpect(c)
	case "sess":
		var c sessCase
		if err := json.Unmarshal(raw, &c); err != nil {
			return err
		}
		x.runSess(c)
	case "bindc":
		var c bindClientCase
		if err := json.Unmarshal(raw, &c); err != nil {
			return err
		}
		x.runBindClient(c)
	case "binds":
		var c bindServerCase
		if err := json.Unmarshal(raw, &c); err != nil {
			return err
		}
		x.runBindServer(c)
	case "bindm":
		var c bindManyCase
		if err := json.Unmarshal(raw, &c); err != nil {
			return err
		}
		x.runBindMany(c)
	default:
		return fmt.Errorf("unknown case kind %q", k.Kind)
	}
	return nil
}

func main() {
	o := hx.ParseFlags()
	res := hx.NewResult("C12")
	x := &runner{res: res}
	x.sc = hx.CaseFile{Name: "send", Imports: imports, Ok: "scase_ok", Type: "scase"}
	x.rc = hx.CaseFile{Name: "read", Imports: imports, Ok: "rcase_ok", Type: "rcase"}
	x.ec = hx.CaseFile{Name: "expect", Imports: imports, Ok: "ecase_ok", Type: "ecase"}
	x.nc = hx.CaseFile{Name: "sess", Imports: imports, Ok: "ncase_ok", Type: "ncase"}
	x.bc = hx.CaseFile{Name: "bindc", Imports: imports, Ok: "bccase_ok", Type: "bccase"}
	x.bs = hx.CaseFile{Name: "binds", Imports: imports, Ok: "bscase_ok", Type: "bscase"}
	x.bm = hx.CaseFile{Name: "bindm", Imports: imports, Ok: "bmcase_ok", Type: "bmcase"}
	// hx.NewRand(seed) starts seed draws into one and the same splitmix64 orbit, so
	// neighbouring seeds re-synchronise; spread the seeds far apart on the orbit.
	r := hx.NewRand(o.Seed*0x2545F4914F6CDD1D + 0x5bd1e995)

	if o.Replay != "" {
		b, err := os.ReadFile(o.Replay)
		if err != nil {
			fmt.Fprintln(os.Stderr, err)
			os.Exit(2)
		}
		var rp struct {
			Case json.RawMessage `json:"case"`
		}
		if err := json.Unmarshal(b, &rp); err != nil || rp.Case == nil {
			fmt.Fprintln(os.Stderr, "replay file has no case:", err)
			os.Exit(2)
		}
		if err := x.replay(rp.Case); err != nil {
			fmt.Fprintln(os.Stderr, err)
			os.Exit(2)
		}
	} else {
		for _, c := range corpus {
			if err := x.replay(json.RawMessage(c)); err != nil {
				fmt.Fprintln(os.Stderr, "corpus:", err)
				os.Exit(2)
			}
		}
		nSend, nRead, nExp, nSess, nBc, nBs := 2000, 2000, 3500, 2200, 1400, 1600
		if o.Thorough() {
			nSend, nRead, nExp, nSess, nBc, nBs = 12000, 10000, 20000, 12000, 7000, 8000
		}
		if o.Search {
			nSend, nRead, nExp, nSess, nBc, nBs = 30000, 0, 60000, 40000, 20000, 25000
		}
		exhaustiveSend(x)
		for i := 0; i < nSend; i++ {
			x.runSend(x.genSend(r))
		}
		for i := 0; i < nRead; i++ {
			x.runRead(x.genRead(r))
		}
		for i := 0; i < nExp; i++ {
			x.runExpect(x.genExpect(r, i%4 == 3))
		}
		for i := 0; i < nSess; i++ {
			x.runSess(x.genSess(r))
		}
		for i := 0; i < nBc; i++ {
			x.runBindClient(x.genBindClient(r))
		}
		for i := 0; i < nBs; i++ {
			x.runBindServer(x.genBindServer(r))
		}
		for i := 0; i < nBs/4; i++ {
			x.runBindMany(x.genBindMany(r))
		}
	}
	res.Rule = "cases: (send) internal/stream.Send on generated address pairs (resourceparts with quotes, ampersands, angle brackets, non-ASCII), language strings, ids, versions, both framings, " +
		"output re-read with encoding/xml and with the library's Expect; (read) the model's start-tag reader against encoding/xml on generated tags; (expect) Expect on generated scripts " +
		"(declarations, junk, names, name spaces, attribute sets, versions, stream errors) in both roles and framings; (sess) NewSession with the real negotiator over 1-4 stream (re)starts " +
		"with kept/changed/dropped/invalid addresses; (bind) both sides of resource binding through the real negotiator with generated requests, callback verdicts and replies; (bind/many) 2-5 receiving sessions served with one BindResource() feature value. " +
		"distinct = hash of the case's inputs; non-trivial = send: a value needs escaping or replacing; read: encoding/xml accepts the tag; expect: the script has a start element; " +
		"sess: at least one restart; bind: always"
	per := 1500
	for _, cf := range []*hx.CaseFile{&x.sc, &x.rc, &x.ec, &x.nc, &x.bc, &x.bs, &x.bm} {
		res.CaseFiles = append(res.CaseFiles, cf.Write(o.Out, per)...)
	}
	res.Extra["model_cases"] = x.sc.Len() + x.rc.Len() + x.ec.Len() + x.nc.Len() + x.bc.Len() + x.bs.Len() + x.bm.Len()
	res.Write(o.Out)
}

// exhaustiveSend: every combination of a small set of values for each field.
func exhaustiveSend(x *runner) {
	vals := []string{"", "a@b/it's <&>", "x"}
	for _, ws := range []bool{false, true} {
		for _, to := range vals {
			for _, from := range vals {
				for _, id := range []string{"", "i'd", "1"} {
					for _, lang := range []string{"", "e\"n", "\xff"} {
						x.runSend(sendCase{Kind: "send", WS: ws, XMLNS: nsClient, Major: 1, Minor: 0,
							Lang: hx.Hex([]byte(lang)), To: hx.Hex([]byte(to)), From: hx.Hex([]byte(from)), ID: hx.Hex([]byte(id))})
					}
				}
			}
		}
	}
	x.res.Extra["exhaustive_small_scope"] = "Send: all combinations of {empty, special, plain} for to/from/id/lang x both framings"
}

// corpus: witnesses of the defects found on the pinned tree; always run first.
var corpus = []string{
	// Send printed to/from/id unescaped
	`{"kind":"send","ws":false,"xmlns":"jabber:client","major":1,"minor":0,"lang_hex":"","to_hex":"6578616d706c652e6e6574","from_hex":"6d65406578616d706c652e6e65742f69742773203c263e","id_hex":""}`,
	`{"kind":"send","ws":true,"xmlns":"jabber:client","major":1,"minor":0,"lang_hex":"656e","to_hex":"","from_hex":"","id_hex":"6127206262623d2763"}`,
	// a stream error in place of a header made Expect panic
	`{"kind":"expect","recv":false,"ws":false,"script_hex":"3c73747265616d3a6572726f7220786d6c6e733a73747265616d3d27687474703a2f2f6574686572782e6a61626265722e6f72672f73747265616d73273e3c686f73742d676f6e6520786d6c6e733d2775726e3a696574663a706172616d733a786d6c3a6e733a786d70702d73747265616d73272f3e3c2f73747265616d3a6572726f723e"}`,
	`{"kind":"sess","recv":true,"s2s":false,"ws":false,"lang_hex":"","headers":["3c73747265616d3a6572726f7220786d6c6e733a73747265616d3d27687474703a2f2f6574686572782e6a61626265722e6f72672f73747265616d73273e3c686f73742d756e6b6e6f776e20786d6c6e733d2775726e3a696574663a706172616d733a786d6c3a6e733a786d70702d73747265616d73272f3e3c2f73747265616d3a6572726f723e"]}`,
	// the bind request carried an empty resource whatever the local address
	`{"kind":"bindc","origin":"me@example.net/phone","reply_hex":"3c697120747970653d27726573756c74272069643d2700494400273e3c62696e6420786d6c6e733d2775726e3a696574663a706172616d733a786d6c3a6e733a786d70702d62696e64273e3c6a69643e6d65406578616d706c652e6e65742f70686f6e653c2f6a69643e3c2f62696e643e3c2f69713e"}`,
	// a result without an address replaced the local address by nothing
	`{"kind":"bindc","origin":"me@example.net","reply_hex":"3c697120747970653d27726573756c74272069643d2700494400272f3e"}`,
	// an error reply without <error/> came back as a nil *stanza.Error
	`{"kind":"bindc","origin":"me@example.net","reply_hex":"3c697120747970653d276572726f72272069643d2700494400272f3e"}`,
	// the callback's stanza error was sent typed "result", nested in <bind/>
	`{"kind":"binds","s2s":false,"from":"me@example.net","request_hex":"3c697120747970653d27736574272069643d2731273e3c62696e6420786d6c6e733d2775726e3a696574663a706172616d733a786d6c3a6e733a786d70702d62696e64273e3c7265736f757263653e783c2f7265736f757263653e3c2f62696e643e3c2f69713e","verdict":"stanza-error"}`,
	// a stream error with an application-specific condition was not returned as such (fixed in stream/error.go)
	`{"kind":"expect","recv":true,"ws":false,"script_hex":"3c73747265616d3a6572726f7220786d6c6e733a73747265616d3d27687474703a2f2f6574686572782e6a61626265722e6f72672f73747265616d73273e3c636f6e666c69637420786d6c6e733d2775726e3a696574663a706172616d733a786d6c3a6e733a786d70702d73747265616d73272f3e3c746f6f2d6d616e7920786d6c6e733d2775726e3a6578616d706c653a617070273e3c6e2f3e3c2f746f6f2d6d616e793e3c7465787420786d6c6e733d2775726e3a696574663a706172616d733a786d6c3a6e733a786d70702d73747265616d73273e783c2f746578743e3c2f73747265616d3a6572726f723e"}`,
	// a header with to='' on the initiating side cleared the local address (fixed in negotiator.go)
	`{"kind":"sess","recv":false,"s2s":false,"ws":false,"lang_hex":"","local":"me@example.net","remote":"example.net","headers":["3c73747265616d3a73747265616d20786d6c6e733d276a61626265723a636c69656e742720786d6c6e733a73747265616d3d27687474703a2f2f6574686572782e6a61626265722e6f72672f73747265616d73272066726f6d3d276578616d706c652e6e65742720746f3d27272076657273696f6e3d27312e30272069643d2778273e"]}`,
	// the default bind without any address for the peer
	`{"kind":"binds","s2s":false,"request_hex":"3c697120747970653d27736574272069643d2731273e3c62696e6420786d6c6e733d2775726e3a696574663a706172616d733a786d6c3a6e733a786d70702d62696e64273e3c7265736f757263653e783c2f7265736f757263653e3c2f62696e643e3c2f69713e","verdict":"default"}`,
	// (false alarm once) two "to" attributes, the last one empty: the last one counts
	`{"kind":"sess","recv":true,"s2s":false,"ws":false,"lang_hex":"656e","headers":["3c3f786d6c2076657273696f6e3d22312e302220656e636f64696e673d225554462d38223f3e3c73747265616d3a73747265616d2020746f3d22622220786d6c6e733a73747265616d3d22687474703a2f2f6574686572782e6a61626265722e6f72672f73747265616d7322202076657273696f6e3d22312e30222066726f6d3d2775736572406dc3bc6e6368656e2e6578616d706c6527202069643d2735366338646635392720746f3d27272020786d6c6e733d226a61626265723a736572766572223e"]}`,
	// two clients of one account bound with one and the same feature value
	`{"kind":"bindm","s2s":false,"froms":["me@example.net","me@example.net"],"requests_hex":["3c697120747970653d27736574272069643d2762696e6431273e3c62696e6420786d6c6e733d2775726e3a696574663a706172616d733a786d6c3a6e733a786d70702d62696e64272f3e3c2f69713e","3c697120747970653d27736574272069643d2762696e6431273e3c62696e6420786d6c6e733d2775726e3a696574663a706172616d733a786d6c3a6e733a786d70702d62696e64273e3c7265736f757263653e783c2f7265736f757263653e3c2f62696e643e3c2f69713e"]}`,
}
