// Command c11 is the correspondence harness and implementation oracle for
// property C11 (jid/jid.go, jid/unsafe.go): JIDs are canonical.
package main

import (
	"encoding/json"
	"encoding/xml"
	"fmt"
	"net"
	"os"
	"sort"
	"strings"
	"unicode/utf8"

	"golang.org/x/net/idna"
	"golang.org/x/text/secure/precis"

	"mellium.im/xmpp/jid"
	"verifharness/hx"
)

const imports = "From XV Require Import lib.Bytes C11.Model.\n"

// ---- the external functions, called directly (recorded into the case tables) ----

func extUser(x string) (string, bool) {
	b, err := precis.UsernameCaseMapped.Append(nil, []byte(x))
	return string(b), err == nil
}

func extOpaque(x string) (string, bool) {
	b, err := precis.OpaqueString.Append(nil, []byte(x))
	return string(b), err == nil
}

func extIdna(x string) (string, bool) {
	s, err := idna.Display.ToUnicode(x)
	return s, err == nil
}

func extIP4(x string) bool { ip := net.ParseIP(x); return ip != nil && ip.To4() != nil }
func extIP6(x string) bool { ip := net.ParseIP(x); return ip != nil && ip.To4() == nil }

func trimDot(d string) string { return strings.TrimSuffix(d, ".") }

func bracketInner(d string) (string, bool) {
	if l := len(d) - 1; l > 1 && d[0] == '[' && d[l] == ']' {
		return d[1:l], true
	}
	return "", false
}

// ---- error kinds ----

func errKind(err error) string {
	if err == nil {
		return "ENone"
	}
	m := err.Error()
	switch {
	case strings.Contains(m, "invalid UTF-8"):
		return "EUtf8"
	case strings.Contains(m, "domainpart must be between"):
		return "EDomainLen"
	case strings.Contains(m, "domainpart must not end"):
		return "EDomainDot"
	case strings.Contains(m, "localpart must be smaller"):
		return "ELongLocal"
	case strings.Contains(m, "resourcepart must be smaller"):
		return "ELongRes"
	case strings.Contains(m, "localpart contains forbidden"):
		return "EForbidden"
	case strings.Contains(m, "localpart must be larger"):
		return "ENoLocal"
	case strings.Contains(m, "resourcepart must be larger"):
		return "ENoRes"
	case strings.HasPrefix(m, "idna:"):
		return "EIdna"
	}
	return "EPrecis"
}

// ---- recorded tables ----

type optStr struct {
	s  string
	ok bool
}

type tables struct {
	user, opaque, idna map[string]optStr
	ip4, ip6           map[string]bool
}

func newTables() *tables {
	return &tables{map[string]optStr{}, map[string]optStr{}, map[string]optStr{}, map[string]bool{}, map[string]bool{}}
}

type hypRec struct {
	user, opaque, idna map[string]bool
	ip4, ip6           map[string]bool
}

type runner struct {
	res   *hx.Result
	r     *hx.Rand
	files map[string]*hx.CaseFile
	order []string
	hyp   hypRec
	pool  []jid.JID // recently returned JIDs (for Equal)
	limit int       // max number of model cases
	bytes int       // bytes of terms emitted
	seen  map[string]bool

	failedHist int // histories with an oracle failure (the first ones also become model cases)
}

func (x *runner) file(name string) *hx.CaseFile {
	f := x.files[name]
	if f == nil {
		f = &hx.CaseFile{Name: name, Imports: imports, Ok: "case_ok", Type: "case"}
		x.files[name] = f
		x.order = append(x.order, name)
	}
	return f
}

func (x *runner) emit(name, term string, desc interface{}) {
	if x.seen[term] {
		return
	}
	if x.bytes > x.limit {
		x.res.Histogram["model-cases-dropped(budget)"]++
		return
	}
	x.seen[term] = true
	x.bytes += len(term)
	x.file(name).Add(term, desc)
}

func (x *runner) addLocal(t *tables, s string) {
	if s == "" {
		return
	}
	y, ok := extUser(s)
	t.user[s] = optStr{y, ok}
	if ok && utf8.ValidString(s) && !x.hyp.user[s] {
		x.hyp.user[s] = true
		y2, ok2 := extUser(y)
		x.emit("hyp", fmt.Sprintf("CHypUser %s %s %s", cb(s), cb(y), coqOpt(optStr{y2, ok2})), map[string]string{"kind": "hyp-user", "x": hx.Hex([]byte(s))})
	}
}

func (x *runner) addRes(t *tables, s string) {
	if s == "" {
		return
	}
	y, ok := extOpaque(s)
	t.opaque[s] = optStr{y, ok}
	if ok && utf8.ValidString(s) && !x.hyp.opaque[s] {
		x.hyp.opaque[s] = true
		y2, ok2 := extOpaque(y)
		x.emit("hyp", fmt.Sprintf("CHypOpaque %s %s %s", cb(s), cb(y), coqOpt(optStr{y2, ok2})), map[string]string{"kind": "hyp-opaque", "x": hx.Hex([]byte(s))})
	}
}

func (x *runner) addDomain(t *tables, d string) {
	t.ip4[d] = extIP4(d)
	if t.ip4[d] && !x.hyp.ip4[d] {
		x.hyp.ip4[d] = true
		x.emit("hyp", "CHypIp4 "+cb(d), map[string]string{"kind": "hyp-ip4", "x": hx.Hex([]byte(d))})
	}
	if in, ok := bracketInner(d); ok {
		t.ip6[in] = extIP6(in)
		if t.ip6[in] && !x.hyp.ip6[in] {
			x.hyp.ip6[in] = true
			x.emit("hyp", "CHypIp6 "+cb(in), map[string]string{"kind": "hyp-ip6", "x": hx.Hex([]byte(in))})
		}
	}
	td := trimDot(d)
	y, ok := extIdna(td)
	t.idna[td] = optStr{y, ok}
	if ok && utf8.ValidString(d) && !x.hyp.idna[td] {
		x.hyp.idna[td] = true
		y2, ok2 := extIdna(y)
		x.emit("hyp", fmt.Sprintf("CHypIdna %s %s %s", cb(td), cb(y), coqOpt(optStr{y2, ok2})), map[string]string{"kind": "hyp-idna", "x": hx.Hex([]byte(td))})
	}
}

func (x *runner) addParse(t *tables, s string) {
	l, d, r, e := refSplit(s, true)
	if e == "ENone" {
		x.addLocal(t, l)
		x.addDomain(t, d)
		x.addRes(t, r)
	}
}

func cb(s string) string { return hx.CoqBytes([]byte(s)) }

func coqOpt(o optStr) string {
	if !o.ok {
		return "None"
	}
	return "(Some " + cb(o.s) + ")"
}

func coqOptTab(m map[string]optStr) string {
	ks := make([]string, 0, len(m))
	for k := range m {
		ks = append(ks, k)
	}
	sort.Strings(ks)
	var sb strings.Builder
	sb.WriteString("[")
	for i, k := range ks {
		if i > 0 {
			sb.WriteString(";")
		}
		fmt.Fprintf(&sb, "(%s,%s)", cb(k), coqOpt(m[k]))
	}
	sb.WriteString("]")
	return sb.String()
}

func coqBoolTab(m map[string]bool) string {
	ks := make([]string, 0, len(m))
	for k := range m {
		ks = append(ks, k)
	}
	sort.Strings(ks)
	var sb strings.Builder
	sb.WriteString("[")
	for i, k := range ks {
		if i > 0 {
			sb.WriteString(";")
		}
		fmt.Fprintf(&sb, "(%s,%s)", cb(k), hx.CoqBool(m[k]))
	}
	sb.WriteString("]")
	return sb.String()
}

func (t *tables) coq() string {
	return fmt.Sprintf("(mktab %s %s %s %s %s)", coqOptTab(t.user), coqOptTab(t.opaque), coqOptTab(t.idna), coqBoolTab(t.ip4), coqBoolTab(t.ip6))
}

// ---- observations ----

type parts struct{ L, D, R string }

func partsOf(j jid.JID) (p parts, panicked string) {
	panicked = hx.Catch(func() { p = parts{j.Localpart(), j.Domainpart(), j.Resourcepart()} })
	return
}

func coqObs(p parts, e string) string {
	return fmt.Sprintf("(mkpobs %s %s %s %s)", cb(p.L), cb(p.D), cb(p.R), e)
}

func assemble(l, d, r string) string {
	s := d
	if l != "" {
		s = l + "@" + d
	}
	if r != "" {
		s += "/" + r
	}
	return s
}

// refSplit: the splitting rule of RFC 7622 §3.2, restated (oracle side).
func refSplit(s string, safe bool) (l, d, r, e string) {
	head := s
	slash := -1
	for i := 0; i < len(s); i++ {
		if s[i] == '/' {
			slash = i
			break
		}
	}
	if slash >= 0 {
		if safe && slash == len(s)-1 {
			return "", "", "", "ENoRes"
		}
		head, r = s[:slash], s[slash+1:]
	}
	at := -1
	for i := 0; i < len(head); i++ {
		if head[i] == '@' {
			at = i
			break
		}
	}
	switch {
	case at < 0:
		return "", head, r, "ENone"
	case safe && at == 0:
		return "", "", r, "ENoLocal"
	}
	return head[:at], head[at+1:], r, "ENone"
}

// sepOK: assembling l d r and splitting again gives back l d r.
func sepOK(l, d, r string) bool {
	if strings.ContainsAny(l, "/@") || strings.Contains(d, "/") {
		return false
	}
	if l == "" && strings.Contains(d, "@") {
		return false
	}
	return true
}

type cdesc struct {
	Kind string `json:"kind"`
	L    string `json:"l,omitempty"` // hex
	D    string `json:"d,omitempty"`
	R    string `json:"r,omitempty"`
	X    string `json:"x,omitempty"`
	S    string `json:"s,omitempty"`
	Op   string `json:"op,omitempty"`
	Hist []hopJ `json:"hist,omitempty"` // kind "history": the program
}

func hexs(s string) string { return hx.Hex([]byte(s)) }

const forbiddenLocal = "\"&'/:<>@"

// failKey computes the finding key from the failing clause and trigger class.
func failKey(entry, clause string, p parts) string {
	switch {
	case strings.HasSuffix(p.D, "."):
		return "C11/domainpart/trailing-dot"
	case p.D == "" && (p.L != "" || p.R != ""):
		return "C11/with/empty-domain"
	}
	return "C11/" + entry + "/" + clause
}

// checkJID is the implementation oracle for one address returned without error.
func (x *runner) checkJID(entry string, j jid.JID, c cdesc) {
	p, pan := partsOf(j)
	if pan != "" {
		x.res.Fail("C11/"+entry+"/accessor-panic", "accessor panics on a returned JID: "+pan, c)
		return
	}
	if p == (parts{}) {
		return // the zero value (no address)
	}
	fail := func(clause, what string) { x.res.Fail(failKey(entry, clause, p), entry+": "+what, c) }
	var s string
	if pan := hx.Catch(func() { s = j.String() }); pan != "" {
		fail("string-panic", "String panics: "+pan)
		return
	}
	// parts obey the address rules
	switch {
	case !utf8.ValidString(p.L) || !utf8.ValidString(p.D) || !utf8.ValidString(p.R):
		fail("parts/utf8", fmt.Sprintf("a part of %q is not valid UTF-8", s))
	case len(p.D) == 0:
		fail("parts/domain-empty", fmt.Sprintf("returned address %q has an empty domainpart", s))
	case len(p.L) > 1023 || len(p.D) > 1023 || len(p.R) > 1023:
		fail("parts/length", fmt.Sprintf("a part is longer than 1023 bytes (%d/%d/%d)", len(p.L), len(p.D), len(p.R)))
	case strings.ContainsAny(p.L, forbiddenLocal):
		fail("parts/forbidden-local", fmt.Sprintf("localpart %q contains a forbidden character", p.L))
	case strings.ContainsAny(p.D, "/@"):
		fail("parts/domain-separator", fmt.Sprintf("domainpart %q contains a separator", p.D))
	}
	// accessors agree
	if s != assemble(p.L, p.D, p.R) {
		fail("accessors/string", fmt.Sprintf("String()=%q but parts are %q %q %q", s, p.L, p.D, p.R))
	}
	if bp, pan := partsOf(j.Bare()); pan != "" || bp != (parts{p.L, p.D, ""}) {
		fail("accessors/bare", fmt.Sprintf("Bare() of %q has parts %q", s, bp))
	}
	if dp, pan := partsOf(j.Domain()); pan != "" || dp != (parts{"", p.D, ""}) {
		fail("accessors/domain", fmt.Sprintf("Domain() of %q has parts %q", s, dp))
	}
	if !j.Equal(j) || !j.Equal(j.Copy()) || !j.Equal(jid.NewUnsafe(p.L, p.D, p.R).JID) {
		fail("accessors/equal-reflexive", fmt.Sprintf("%q is not Equal to itself", s))
	}
	if len(p.D) > 1 && j.Equal(jid.NewUnsafe(p.L+p.D[:1], p.D[1:], p.R).JID) {
		fail("accessors/equal-boundary", fmt.Sprintf("%q Equal to an address with the same bytes and other part boundaries", s))
	}
	if p.L != "" && p.D != "" && j.Equal(jid.NewUnsafe(p.L[:len(p.L)-1], p.L[len(p.L)-1:]+p.D[:len(p.D)-1], p.D[len(p.D)-1:]+p.R).JID) {
		fail("accessors/equal-boundary", fmt.Sprintf("%q Equal to an address with the same bytes and other part boundaries", s))
	}
	if p.R != "" && j.Equal(jid.NewUnsafe(p.L, p.D+p.R[:1], p.R[1:]).JID) {
		fail("accessors/equal-boundary", fmt.Sprintf("%q Equal to an address with the same bytes and other part boundaries", s))
	}
	for _, k := range x.pool {
		kp, _ := partsOf(k)
		if j.Equal(k) != (kp == p) || k.Equal(j) != (kp == p) {
			fail("accessors/equal", fmt.Sprintf("Equal(%q,%q) disagrees with part-wise equality", s, k.String()))
			break
		}
	}
	// canonical: parsing the string form yields an equal address
	j2, err := jid.Parse(s)
	if err != nil {
		fail("roundtrip", fmt.Sprintf("Parse(String()) fails for the returned address %q: %v", s, err))
	} else if !j2.Equal(j) || !j.Equal(j2) || j2.String() != s {
		fail("roundtrip", fmt.Sprintf("Parse(%q).String() = %q: returned address is not canonical", s, j2.String()))
	}
	// XML attribute and element encodings
	x.xmlChecks(entry, j, p, s, c)
	if len(x.pool) < 24 {
		x.pool = append(x.pool, j)
	} else {
		x.pool[x.r.Intn(len(x.pool))] = j
	}
}

type wrapA struct {
	XMLName xml.Name `xml:"w"`
	A       jid.JID  `xml:"a,attr"`
}
type wrapE struct {
	XMLName xml.Name `xml:"w"`
	E       jid.JID  `xml:"e"`
}
type wrapC struct {
	XMLName xml.Name `xml:"w"`
	E       struct {
		C string `xml:",chardata"`
	} `xml:"e"`
}

func (x *runner) xmlChecks(entry string, j jid.JID, p parts, s string, c cdesc) {
	fail := func(clause, what string) { x.res.Fail(failKey("xml-"+clause, "roundtrip", p), entry+": "+what, c) }
	// attribute, method level, into a fresh and into a used receiver
	a, err := j.MarshalXMLAttr(xml.Name{Local: "a"})
	if err != nil || a.Value != s {
		fail("attr", fmt.Sprintf("MarshalXMLAttr of %q gives %q, %v", s, a.Value, err))
	}
	for _, target := range []jid.JID{{}, jid.NewUnsafe("u", "v.example", "w").JID} {
		t := target
		if err := (&t).UnmarshalXMLAttr(a); err != nil || !t.Equal(j) {
			fail("attr", fmt.Sprintf("UnmarshalXMLAttr(MarshalXMLAttr(%q)) = %q, %v", s, t.String(), err))
		}
	}
	// through encoding/xml
	if b, err := xml.Marshal(wrapA{A: j}); err != nil {
		fail("attr", fmt.Sprintf("xml.Marshal of attribute %q: %v", s, err))
	} else {
		var w wrapA
		if err := xml.Unmarshal(b, &w); err != nil || !w.A.Equal(j) {
			fail("attr", fmt.Sprintf("attribute %q does not survive xml.Marshal/Unmarshal: %q, %v", s, w.A.String(), err))
		}
	}
	if b, err := xml.Marshal(wrapE{E: j}); err != nil {
		fail("element", fmt.Sprintf("xml.Marshal of element %q: %v", s, err))
	} else {
		for _, target := range []jid.JID{{}, jid.NewUnsafe("u", "v.example", "w").JID} {
			w := wrapE{E: target}
			if err := xml.Unmarshal(b, &w); err != nil || !w.E.Equal(j) {
				fail("element", fmt.Sprintf("element %q does not survive xml.Marshal/Unmarshal: %q, %v", s, w.E.String(), err))
			}
		}
	}
}

// zeroChecks: the zero value and the empty encodings.
func (x *runner) zeroChecks() {
	c := cdesc{Kind: "zero"}
	var z jid.JID
	if z.String() != "" || !z.Equal(jid.JID{}) || !z.Bare().Equal(z) || !z.Domain().Equal(z) {
		x.res.Fail("C11/zero/accessors", "the zero JID's String/Equal/Bare/Domain disagree", c)
	}
	a, _ := z.MarshalXMLAttr(xml.Name{Local: "a"})
	for _, target := range []jid.JID{{}, jid.MustParse("u@v.example/w")} {
		t := target
		if err := (&t).UnmarshalXMLAttr(a); err != nil || !t.Equal(z) {
			x.res.Fail("C11/xml-attr/zero-jid", fmt.Sprintf("attribute %q of the zero JID unmarshals to %q (err %v): the empty attribute does not round-trip", a.Value, t.String(), err), c)
		}
	}
	b, err := xml.Marshal(wrapE{})
	if err == nil {
		var w wrapE
		if err := xml.Unmarshal(b, &w); err != nil || !w.E.Equal(z) {
			x.res.Fail("C11/xml-element/zero-jid", fmt.Sprintf("element encoding %s of the zero JID does not unmarshal: %v", b, err), c)
		}
	}
	// With* on the zero value must not manufacture an address without a domain
	for _, op := range []string{"withlocal", "withresource"} {
		var j jid.JID
		var err error
		if op == "withlocal" {
			j, err = z.WithLocal("foo")
		} else {
			j, err = z.WithResource("foo")
		}
		if err == nil {
			x.checkJID(op, j, cdesc{Kind: "with", Op: op, X: hexs("foo")})
		}
	}
}

// ---- scenario: one triple of part strings ----

func (x *runner) obsRes(j jid.JID, err error) (parts, string, bool) {
	p, pan := partsOf(j)
	if pan != "" {
		return p, "", false
	}
	return p, errKind(err), true
}

func (x *runner) newCase(l, d, r string) (jid.JID, error) {
	var j jid.JID
	var err error
	c := cdesc{Kind: "triple", L: hexs(l), D: hexs(d), R: hexs(r)}
	if pan := hx.Catch(func() { j, err = jid.New(l, d, r) }); pan != "" {
		x.res.Fail("C11/new/panic", "New panics: "+pan, c)
		return jid.JID{}, fmt.Errorf("panic")
	}
	if p, e, ok := x.obsRes(j, err); ok {
		t := newTables()
		x.addLocal(t, l)
		x.addDomain(t, d)
		x.addRes(t, r)
		x.emit("new", fmt.Sprintf("CNew %s %s %s %s %s", t.coq(), cb(l), cb(d), cb(r), coqObs(p, e)), c)
		if err != nil && p != (parts{}) {
			x.res.Fail("C11/new/value-with-error", "New returns a non-zero JID together with an error", c)
		}
	}
	if err == nil {
		x.checkJID("new", j, c)
	}
	return j, err
}

func (x *runner) parseCase(s string) (jid.JID, error) {
	var j jid.JID
	var err error
	c := cdesc{Kind: "string", S: hexs(s)}
	if pan := hx.Catch(func() { j, err = jid.Parse(s) }); pan != "" {
		x.res.Fail("C11/parse/panic", "Parse panics: "+pan, c)
		return jid.JID{}, fmt.Errorf("panic")
	}
	if p, e, ok := x.obsRes(j, err); ok {
		t := newTables()
		x.addParse(t, s)
		x.emit("parse", fmt.Sprintf("CParse %s %s %s", t.coq(), cb(s), coqObs(p, e)), c)
	}
	if err == nil {
		x.checkJID("parse", j, c)
	}
	// SplitString and ParseUnsafe on the same string
	var sl, sd, sr string
	var serr error
	if pan := hx.Catch(func() { sl, sd, sr, serr = jid.SplitString(s) }); pan != "" {
		x.res.Fail("C11/split/panic", "SplitString panics: "+pan, c)
	} else {
		rl, rd, rr, re := refSplit(s, true)
		if sl != rl || sd != rd || sr != rr || errKind(serr) != re {
			x.res.Fail("C11/split/first-separators", fmt.Sprintf("SplitString(%q) = %q %q %q %v; the rule (first '/', then first '@') gives %q %q %q %s", s, sl, sd, sr, serr, rl, rd, rr, re), c)
		}
		if serr == nil {
			re := sd
			if sl != "" || strings.HasPrefix(s, "@") {
				re = sl + "@" + sd
			}
			if strings.Contains(s, "/") {
				re += "/" + sr
			}
			if re != s || strings.ContainsAny(sl, "/@") || strings.Contains(sd, "/") {
				x.res.Fail("C11/split/reassemble", fmt.Sprintf("parts %q %q %q of %q do not reassemble", sl, sd, sr, s), c)
			}
		}
		x.emit("split", fmt.Sprintf("CSplit true %s %s %s %s %s", cb(s), cb(sl), cb(sd), cb(sr), errKind(serr)), c)
	}
	var u jid.Unsafe
	var uerr error
	if pan := hx.Catch(func() { u, uerr = jid.ParseUnsafe(s) }); pan != "" {
		x.res.Fail("C11/unsafe/panic", "ParseUnsafe panics: "+pan, c)
	} else if up, pan := partsOf(u.JID); pan == "" {
		rl, rd, rr, _ := refSplit(s, false)
		if up != (parts{rl, rd, rr}) || uerr != nil {
			x.res.Fail("C11/unsafe/first-separators", fmt.Sprintf("ParseUnsafe(%q) has parts %q, %v", s, up, uerr), c)
		}
		var us string
		if pan := hx.Catch(func() { us = u.String() }); pan == "" {
			x.emit("split", fmt.Sprintf("CUnsafe %s %s %s", cb(s), coqObs(up, errKind(uerr)), cb(us)), c)
			x.emit("split", fmt.Sprintf("CSplit false %s %s %s %s %s", cb(s), cb(up.L), cb(up.D), cb(up.R), errKind(uerr)), c)
		}
	}
	return j, err
}

// withCase runs one With* call on recv (given by its parts; built by build) and
// emits the model case. Returns the result.
func (x *runner) withCase(op string, recv jid.JID, arg string, c cdesc) (jid.JID, error) {
	var j jid.JID
	var err error
	rp, pan := partsOf(recv)
	if pan != "" {
		return jid.JID{}, fmt.Errorf("bad receiver")
	}
	c.Op, c.X = op, hexs(arg)
	if pan := hx.Catch(func() {
		switch op {
		case "withlocal":
			j, err = recv.WithLocal(arg)
		case "withdomain":
			j, err = recv.WithDomain(arg)
		default:
			j, err = recv.WithResource(arg)
		}
	}); pan != "" {
		x.res.Fail("C11/"+op+"/panic", op+" panics: "+pan, c)
		return jid.JID{}, fmt.Errorf("panic")
	}
	if p, e, ok := x.obsRes(j, err); ok {
		t := newTables()
		ctor := "CWithR"
		switch op {
		case "withlocal":
			x.addLocal(t, arg)
			ctor = "CWithL"
		case "withdomain":
			x.addDomain(t, arg)
			ctor = "CWithD"
		default:
			x.addRes(t, arg)
		}
		x.emit("with", fmt.Sprintf("%s %s %s %s %s %s %s", ctor, t.coq(), cb(rp.L), cb(rp.D), cb(rp.R), cb(arg), coqObs(p, e)), c)
	}
	return j, err
}

func same(a jid.JID, aerr error, b jid.JID, berr error) bool {
	if (aerr == nil) != (berr == nil) {
		return false
	}
	if aerr != nil {
		return true
	}
	return a.Equal(b) && b.Equal(a) && a.String() == b.String()
}

func (x *runner) viewCase(j, k jid.JID) {
	jp, pan1 := partsOf(j)
	kp, pan2 := partsOf(k)
	if pan1 != "" || pan2 != "" {
		return
	}
	var s string
	var bp, dp parts
	var eq bool
	if pan := hx.Catch(func() {
		s = j.String()
		bp, _ = partsOf(j.Bare())
		dp, _ = partsOf(j.Domain())
		eq = j.Equal(k)
	}); pan != "" {
		return
	}
	x.emit("view", fmt.Sprintf("CView %s %s %s %s %s %s %s %s %s %s", cb(jp.L), cb(jp.D), cb(jp.R), cb(kp.L), cb(kp.D), cb(kp.R),
		cb(s), coqObs(bp, "ENone"), coqObs(dp, "ENone"), hx.CoqBool(eq)),
		cdesc{Kind: "view", L: hexs(jp.L), D: hexs(jp.D), R: hexs(jp.R)})
}

func (x *runner) attrElemCases(target jid.JID, v string) {
	tp, pan := partsOf(target)
	if pan != "" {
		return
	}
	c := cdesc{Kind: "string", S: hexs(v)}
	t := target
	var err error
	if pan := hx.Catch(func() { err = (&t).UnmarshalXMLAttr(xml.Attr{Name: xml.Name{Local: "a"}, Value: v}) }); pan != "" {
		x.res.Fail("C11/xml-attr/panic", "UnmarshalXMLAttr panics: "+pan, c)
	} else if p, e, ok := x.obsRes(t, err); ok {
		tb := newTables()
		x.addParse(tb, v)
		x.emit("xml", fmt.Sprintf("CAttr %s %s %s %s %s %s", tb.coq(), cb(tp.L), cb(tp.D), cb(tp.R), cb(v), coqObs(p, e)), c)
		if err == nil {
			x.checkJID("xml-attr", t, c)
		}
	}
	// element: only strings that survive as XML character data unchanged
	b, merr := xml.Marshal(wrapC{E: struct {
		C string `xml:",chardata"`
	}{v}})
	if merr != nil {
		return
	}
	var wc wrapC
	if xml.Unmarshal(b, &wc) != nil {
		return
	}
	cd := wc.E.C
	w := wrapE{E: target}
	if pan := hx.Catch(func() { err = xml.Unmarshal(b, &w) }); pan != "" {
		x.res.Fail("C11/xml-element/panic", "UnmarshalXML panics: "+pan, c)
	} else if p, e, ok := x.obsRes(w.E, err); ok {
		tb := newTables()
		x.addParse(tb, cd)
		x.emit("xml", fmt.Sprintf("CElem %s %s %s %s %s %s", tb.coq(), cb(tp.L), cb(tp.D), cb(tp.R), cb(cd), coqObs(p, e)), c)
		if err == nil {
			x.checkJID("xml-element", w.E, c)
		}
	}
}

func plain(s string) bool {
	for i := 0; i < len(s); i++ {
		c := s[i]
		if !(c >= 'a' && c <= 'z' || c >= '0' && c <= '9' || c == '.') {
			return false
		}
	}
	return true
}

func (x *runner) triple(l, d, r, alt string) {
	c := cdesc{Kind: "triple", L: hexs(l), D: hexs(d), R: hexs(r), X: hexs(alt)}
	classes := []string{"triple"}
	if !utf8.ValidString(l + d + r) {
		classes = append(classes, "shape/invalid-utf8")
	}
	if len(l) > 1000 || len(d) > 1000 || len(r) > 1000 {
		classes = append(classes, "shape/near-1023")
	}
	if strings.ContainsAny(l, "/@") || strings.ContainsAny(d, "/@") {
		classes = append(classes, "shape/separator-inside-part")
	}
	if strings.HasSuffix(d, ".") {
		classes = append(classes, "shape/trailing-dot")
	}
	if extIP4(d) || strings.HasPrefix(d, "[") {
		classes = append(classes, "shape/ip-literal")
	}
	if strings.Contains(strings.ToLower(d), "xn--") {
		classes = append(classes, "shape/a-label")
	}
	x.res.Count("t|"+c.L+"|"+c.D+"|"+c.R+"|"+c.X, !(plain(l) && plain(d) && plain(r)), classes...)

	j, err := x.newCase(l, d, r)
	x.res.Histogram["new/"+errKind(err)]++
	if err == nil && !plain(l+d+r) {
		x.res.Sample(map[string]string{"new": fmt.Sprintf("%q %q %q", l, d, r), "string": j.String()})
	}
	s := assemble(l, d, r)
	pj, perr := x.parseCase(s)
	if sepOK(l, d, r) && !same(j, err, pj, perr) {
		x.res.Fail(failKey("parse", "agree/new-vs-parse", parts{}), fmt.Sprintf("New(%q,%q,%q) and Parse(%q) disagree (%v / %v)", l, d, r, s, err, perr), c)
	}
	// building by replacement, both orders
	base, berr := x.withCase("withdomain", jid.JID{}, d, c)
	b0, b0err := jid.New("", d, "")
	if !same(base, berr, b0, b0err) {
		x.res.Fail("C11/withdomain/agree/zero-vs-new", fmt.Sprintf("JID{}.WithDomain(%q) and New(\"\",%q,\"\") disagree (%v / %v)", d, d, berr, b0err), c)
	}
	if berr == nil {
		a1, e1 := x.withCase("withlocal", base, l, c)
		var a2 jid.JID
		e2 := e1
		if e1 == nil {
			a2, e2 = x.withCase("withresource", a1, r, c)
		}
		c1, f1 := x.withCase("withresource", base, r, c)
		var c2 jid.JID
		f2 := f1
		if f1 == nil {
			c2, f2 = x.withCase("withlocal", c1, l, c)
		}
		if !same(j, err, a2, e2) {
			x.res.Fail(failKey("withlocal", "agree/new-vs-with", parts{}), fmt.Sprintf("New(%q,%q,%q) disagrees with New(\"\",d,\"\").WithLocal(l).WithResource(r) (%v / %v)", l, d, r, err, e2), c)
		}
		if !same(j, err, c2, f2) {
			x.res.Fail(failKey("withresource", "agree/new-vs-with", parts{}), fmt.Sprintf("New(%q,%q,%q) disagrees with New(\"\",d,\"\").WithResource(r).WithLocal(l) (%v / %v)", l, d, r, err, f2), c)
		}
		for _, y := range []struct {
			j jid.JID
			e error
			n string
		}{{a1, e1, "withlocal"}, {a2, e2, "withresource"}, {c1, f1, "withresource"}, {c2, f2, "withlocal"}} {
			if y.e == nil {
				x.checkJID(y.n, y.j, c)
			}
		}
	}
	if err == nil {
		p, _ := partsOf(j)
		// replacing one part agrees with rebuilding from the parts
		for _, op := range []string{"withlocal", "withdomain", "withresource"} {
			w, werr := x.withCase(op, j, alt, c)
			var n jid.JID
			var nerr error
			switch op {
			case "withlocal":
				n, nerr = jid.New(alt, p.D, p.R)
			case "withdomain":
				n, nerr = jid.New(p.L, alt, p.R)
			default:
				n, nerr = jid.New(p.L, p.D, alt)
			}
			if !same(w, werr, n, nerr) {
				x.res.Fail(failKey(op, "agree/replace-vs-rebuild", p), fmt.Sprintf("%q.%s(%q) disagrees with New on the replaced parts (%v / %v)", j.String(), op, alt, werr, nerr), c)
			}
			if werr == nil {
				x.checkJID(op, w, c)
			}
		}
		// removing parts
		for _, op := range []string{"withlocal", "withresource"} {
			w, werr := x.withCase(op, j, "", c)
			if werr != nil {
				x.res.Fail("C11/"+op+"/agree/remove", op+"(\"\") fails: "+werr.Error(), c)
			} else {
				x.checkJID(op, w, c)
			}
		}
		if len(x.pool) > 0 {
			x.viewCase(j, x.pool[x.r.Intn(len(x.pool))])
		}
		x.viewCase(j, j)
		if p.L != "" && p.D != "" {
			x.viewCase(j, jid.NewUnsafe(p.L[:len(p.L)-1], p.L[len(p.L)-1:]+p.D[:len(p.D)-1], p.D[len(p.D)-1:]+p.R).JID)
		}
		x.attrElemCases(jid.JID{}, j.String())
	}
	// model fidelity on arbitrary receivers (no oracle: garbage in)
	if x.r.Chance(1, 3) {
		u := jid.NewUnsafe(l, d, r).JID
		x.viewCase(u, jid.NewUnsafe(l+d, "", r).JID)
		x.withCase([]string{"withlocal", "withdomain", "withresource"}[x.r.Intn(3)], u, alt, c)
	}
	// decoding attribute / element values
	if x.r.Chance(1, 2) {
		x.attrElemCases(jid.NewUnsafe("u", "v.example", "w").JID, s)
	}
}

func (x *runner) str(s string) {
	c := cdesc{Kind: "string", S: hexs(s)}
	x.res.Count("s|"+c.S, !plain(s), "string")
	_, err := x.parseCase(s)
	x.res.Histogram["parse/"+errKind(err)]++
	x.attrElemCases(jid.JID{}, s)
}

// ---- generators ----

var localPool = []string{
	"", "a", "user", "User", "USER", "juliet", "ｕｓｅｒ", "Ｕser", "ΑΣ", "ς", "σ", "ß", "ẞ", "İ", "I", "ı", "ǰ", "Å", "Å", "Å", "é", "é", "가", "가",
	"a‍b", "a‌b", "‍", "אבג", "ابج", "aא", "אa", "1א", "٣", "۳", "x٣",
	"a b", " ", "a b", "a\"b", "a&b", "a'b", "a/b", "a:b", "a<b", "a>b", "a@b", "＠", "a＠b", "／", "＂", "＆", "＇", "：", "＜", "＞", "﹫", "﹕",
	"ﬁ", "ŉ", "ǅ", "ⅸ", "ℌ", "ϑ", "ͅ", "ͅa", "aͅ", "😀", "a😀", "­", "a­b", "·", "l·l", "a·", "・", "ア・", "͵", "׳", "a-b", "a_b", "a.b", ".", "..", "a+b", "a%40b", "\\40", "a\\20b",
	"\xff", "a\xc3", "\xc0\x80", "\xed\xa0\x80", "\xf4\x90\x80\x80", "\xe0\x80\x80", "a\x00b", "\x7f", "\t", "\u0085", " ", "\ufffe", "\ufeff", "�",
}

var domainPool = []string{
	"", "example.com", "example.net", "Example.COM", "EXAMPLE.com.", "example.com..", "example.com...", ".", "..", "a", "A", "a.", "a..b", ".a", "a.b.c.d.e", "localhost",
	"ｅｘａｍｐｌｅ.com", "example。com", "example．com", "example｡com", "example.com。", "example.com｡", "example.com．", "example.com.。", "。",
	"xn--bcher-kva.example", "XN--BCHER-KVA.example", "bücher.example", "BÜCHER.example", "bücher.example", "xn--fa-hia.de", "faß.de", "FASS.de", "xn--", "xn--a", "xn--a-.com", "xn--xn--a--.com", "xn--0.com", "xn--zca.xn--zca", "ｘｎ--bcher-kva.example",
	"xn--nxasmq6b", "βόλος", "ΒΌΛΟΣ", "βόλοσ", "xn--nxasmm1c",
	"127.0.0.1", "127.0.0.1.", "1.2.3.4", "01.2.3.4", "1.2.3", "256.1.1.1", "１２７.0.0.1", "127。0。0。1", "0x7f.1", "1.2.3.4.5",
	"[::1]", "[::1].", "[::FFFF]", "[::ffff:1.2.3.4]", "::1", "::ffff:1.2.3.4", "::ffff:102:304", "[fe80::1%eth0]", "[::1", "::1]", "[]", "[1.2.3.4]", "[2001:db8::ff00:42:8329]", "[2001:0db8:0000:0000:0000:ff00:0042:8329]", "[::1]]", "[[::1]",
	"-a", "a-", "ab--c", "a_b", "a b", "a\tb", "a/b", "a@b", "a＠b", "a／b", "a:b", "*.a", "a‍b", "a‌b", "ab‍", "א.example", "א1.example", "1א.example", "اب.example", "aא.example", "٣.example",
	"ß", "ς.example", "İ.example", "ı.example", "ǆ.example", "ℌ.example", "ⅸ.example", "ﬁ.example", "😀.example", "á.example", "́a.example", "가.example", "가.example", "日本語.example", "日本語。example",
	"\xff.example", "a\xc3", "exa\x00mple", "­", "a­b.example", "\ufeffa",
}

var resPool = []string{
	"", "r", "Resource", "balcony", "a/b", "a@b", "/", "@", "//", "a/b@c/d", " ", " a", "a ", "a b", "a b", "　", "a b", "ΑΣ", "ß", "İ", "Å", "Å", "é", "ﬁ", "ℌ", "ⅸ", "😀", "👩‍👩", "a‍b",
	"אבג", "aא", "א1", "<&>\"'", "a:b", "ｒｅｓ", "／", "＠", "가", "­", "a­b", "\t", "a\nb", "a\rb", "\x00", "\x7f", "\u0085", " ", " ", "\ufffe", "\ufeff", "�", "\U000e0001",
	"\xff", "a\xc3", "\xc0\x80", "\xed\xa0\x80", "\xf4\x90\x80\x80",
}

var runePool = []rune{'a', 'b', 'Z', '0', '.', '-', '_', ' ', '/', '@', ':', '"', '&', '\'', '<', '>', '[', ']', '%',
	'é', 'É', 'ß', 'ẞ', 'Σ', 'ς', 'σ', 'İ', 'ı', 'Å', 'Å', 0x30a, 0x301, 0x345, 0x200d, 0x200c, 0xad, 0xa0, 0x3000, 0x3002, 0xff0e, 0xff61, 0xff20, 0xff0f, 0xff21, 0xff41, 0xff11,
	0x5d0, 0x627, 0x663, 0x1100, 0x1161, 0xac00, 0x65e5, 0x1f600, 0xfb01, 0x210c, 0x2178, 0x1c5, 0x149, 0x3d1, 0xb7, 0x30fb, 0x375, 0x5f3, 0x85, 0x2028, 0xfffe, 0xfeff, 0xfffd, 0x7f, 0, '\t'}

func (x *runner) randStr(max int) string {
	n := x.r.Intn(max + 1)
	var sb strings.Builder
	mode := x.r.Intn(3)
	for i := 0; i < n; i++ {
		switch {
		case mode == 0:
			sb.WriteByte("abcxyz019.-"[x.r.Intn(11)])
		case mode == 1 && x.r.Chance(3, 4):
			sb.WriteByte("abcABC.z"[x.r.Intn(8)])
		default:
			sb.WriteRune(runePool[x.r.Intn(len(runePool))])
		}
	}
	return sb.String()
}

// long returns a string of exactly n bytes built from unit (last unit cut at a rune boundary, padded with 'a').
func long(unit string, n int) string {
	var sb strings.Builder
	for sb.Len()+len(unit) <= n {
		sb.WriteString(unit)
	}
	for sb.Len() < n {
		sb.WriteByte('a')
	}
	return sb.String()
}

func (x *runner) longPart(kind int) string {
	n := []int{1021, 1022, 1023, 1024, 1025, 1023, 1024}[x.r.Intn(7)]
	switch kind {
	case 0: // local
		return long([]string{"a", "é", "İ", "ｕ", "A", "ß", "á", "가"}[x.r.Intn(8)], n)
	case 1: // domain: labels of <= 63
		u := []string{"a", "é", "ａ", "A", "ß"}[x.r.Intn(5)]
		var sb strings.Builder
		for sb.Len() < n {
			lab := long(u, 1+x.r.Intn(60))
			if sb.Len()+len(lab)+1 > n {
				lab = long("a", n-sb.Len())
				sb.WriteString(lab)
				break
			}
			sb.WriteString(lab)
			sb.WriteByte('.')
		}
		s := sb.String()
		if strings.HasSuffix(s, ".") && x.r.Bool() {
			s = s[:len(s)-1] + "a"
		}
		return s
	default:
		return long([]string{"r", "é", "　", "ﬁ", "/", "@", "😀", "Å"}[x.r.Intn(8)], n)
	}
}

func (x *runner) genPart(kind int) string {
	pool := [][]string{localPool, domainPool, resPool}[kind]
	switch k := x.r.Intn(20); {
	case k < 9:
		return pool[x.r.Intn(len(pool))]
	case k < 12: // mostly valid plain
		switch kind {
		case 0:
			return []string{"alice", "bob", "romeo", "x", "n0"}[x.r.Intn(5)]
		case 1:
			return []string{"example.com", "example.net", "a.example", "chat.example.org", "shakespeare.lit"}[x.r.Intn(5)]
		default:
			return []string{"", "", "home", "mobile", "x"}[x.r.Intn(5)]
		}
	case k < 14: // two pool entries joined
		return pool[x.r.Intn(len(pool))] + pool[x.r.Intn(len(pool))]
	case k < 15: // cross-pool (a domain in the local slot, ...)
		other := [][]string{localPool, domainPool, resPool}[x.r.Intn(3)]
		return other[x.r.Intn(len(other))]
	case k < 16:
		if x.r.Chance(1, 8) {
			return x.longPart(kind)
		}
		return x.randStr(6)
	case k < 17 && kind == 1: // domain with decorations
		d := []string{"example.com", "bücher.example", "xn--bcher-kva.example", "127.0.0.1", "[::1]", "a"}[x.r.Intn(6)]
		return d + []string{".", "..", "。", "｡", "．", "", ".。"}[x.r.Intn(7)]
	default:
		return x.randStr(12)
	}
}

func (x *runner) genString() string {
	switch x.r.Intn(6) {
	case 0:
		return x.randStr(10)
	case 1: // random bytes
		n := x.r.Intn(8)
		b := make([]byte, n)
		for i := range b {
			b[i] = "a@/.\xc3\xa9\xff["[x.r.Intn(8)]
		}
		return string(b)
	default:
		s := assemble(x.genPart(0), x.genPart(1), x.genPart(2))
		switch x.r.Intn(6) {
		case 0:
			s += "/"
		case 1:
			s = "@" + s
		case 2:
			s += "@"
		case 3:
			i := x.r.Intn(len(s) + 1)
			s = s[:i] + []string{"/", "@", "＠", "／", "."}[x.r.Intn(5)] + s[i:]
		}
		return s
	}
}

func enumerate(alpha []string, n int, f func(string)) {
	var rec func(i int, s string)
	rec = func(i int, s string) {
		if i == n {
			f(s)
			return
		}
		for _, c := range alpha {
			rec(i+1, s+c)
		}
	}
	rec(0, "")
}

// corpus: witnesses of defects found earlier and RFC 7622 examples; always run first.
var corpusStrings = []string{
	"example.com..", "example.com。", "a@b｡", "a@..", "example.com...", "a@example.com./r", "a@b.．",
	"juliet@example.com", "juliet@example.com/foo", "juliet@example.com/foo bar", "juliet@example.com/foo@bar", "foo\\20bar@example.com",
	"fussball@example.com", "fußball@example.com", "π@example.com", "Σ@example.com", "ς@example.com", "king@example.com/♚", "example.com", "example.com/foobar", "a.example.com/b@example.net",
	"\"juliet\"@example.com", "foo bar@example.com", "juliet@example.com/ foo", "@example.com/", "henryⅣ@example.com", "♚@example.com", "juliet@", "/foobar", "@example.com", "example.com/", "a@b@c", "a@b/c/d", "a/b@c", "@/", "/", "@", "",
	"a@[::1]/x", "[::1]", "a@127.0.0.1", "１２７.0.0.1", "a@xn--bcher-kva.example/r", "ＡＢ@example.com", "a＠b", "a@b／c",
}

var corpusTriples = [][4]string{
	{"a", "example.com..", "r", "b"}, {"", "b｡", "", ""}, {"a", "..", "", "x"}, {"user", "example.com", "res", "other"},
	{"", "", "", "foo"}, {"a", "b", "", "example.com.."}, {"a", "b", "c", "d。"},
	{"a/b", "c", "", ""}, {"a@b", "c", "", ""}, {"", "a@b", "", ""}, {"a", "b@c", "", ""}, {"a", "b/c", "", ""}, {"a", "b", "c/d@e", "/"},
	{"ＵＳＥＲ", "ＥＸＡＭＰＬＥ.com", "ＲＥＳ", "Ｘ"}, {"ΑΣ", "ΑΣ.example", "ΑΣ", "Σ"}, {"İ", "İ.example", "İ", "ı"},
}

func main() {
	o := hx.ParseFlags()
	res := hx.NewResult("C11")
	x := &runner{res: res, r: hx.NewRand(o.Seed), files: map[string]*hx.CaseFile{}, seen: map[string]bool{},
		hyp: hypRec{map[string]bool{}, map[string]bool{}, map[string]bool{}, map[string]bool{}, map[string]bool{}}}
	x.limit = 10000000
	n, depth := 600, 3
	hdepth, hevery, nhist := 3, 40, 300
	if o.Thorough() {
		x.limit, n, depth = 46000000, 9000, 4
		hdepth, hevery, nhist = 4, 400, 6000
	}
	if o.Search {
		x.limit, n, depth = 0, 30000, 4
		hdepth, hevery, nhist = 4, 1000000, 40000
	}

	if o.Replay != "" {
		b, err := os.ReadFile(o.Replay)
		if err != nil {
			fmt.Fprintln(os.Stderr, err)
			os.Exit(2)
		}
		var rp struct {
			Case cdesc `json:"case"`
		}
		if err := json.Unmarshal(b, &rp); err != nil {
			fmt.Fprintln(os.Stderr, err)
			os.Exit(2)
		}
		c := rp.Case
		h := func(s string) string { return string(hx.UnHex(s)) }
		switch c.Kind {
		case "string":
			x.str(h(c.S))
		case "zero":
			x.zeroChecks()
		case "history":
			x.history(histFromJ(c.Hist), "replay", true)
		default:
			x.zeroChecks()
			x.triple(h(c.L), h(c.D), h(c.R), h(c.X))
		}
	} else {
		x.zeroChecks()
		for _, s := range corpusStrings {
			x.str(s)
		}
		for _, t := range corpusTriples {
			x.triple(t[0], t[1], t[2], t[3])
		}
		// histories of calls on values that share backing arrays: witnesses, then
		// every small program, (seeded random ones after the triples)
		for _, hcase := range corpusHistories {
			x.history(append([]hop(nil), hcase...), "corpus", true)
		}
		nh := x.exhaustiveHistories(hdepth, hevery)
		res.Extra["exhaustive_histories"] = fmt.Sprintf("%d programs: every sequence of up to %d calls (Bare, Domain, Copy, WithLocal/WithDomain/WithResource with shorter/equal/longer arguments, UnmarshalXMLAttr) on every register after each of 3 start values; all earlier results re-read after every call", nh, hdepth)
		// exhaustive small scope: every string over the separator alphabet
		alpha := []string{"a", "@", "/", "."}
		for l := 0; l <= depth+1; l++ {
			enumerate(alpha, l, x.str)
		}
		res.Extra["exhaustive_small_scope"] = fmt.Sprintf("all strings over %q up to length %d (Parse, SplitString, ParseUnsafe, attribute and element decoding)", alpha, depth+1)
		// every pool entry once in its slot
		for _, l := range localPool {
			x.triple(l, "example.com", "r", "b")
		}
		for _, d := range domainPool {
			x.triple("a", d, "", d)
		}
		for _, r := range resPool {
			x.triple("", "example.com", r, r)
		}
		for k := 0; k < 3; k++ {
			ps := []string{"a", "example.com", "r"}
			for _, nn := range []int{1022, 1023, 1024} {
				ps[k] = long("a", nn)
				x.triple(ps[0], ps[1], ps[2], "b")
			}
		}
		// length limits apply to the normalised parts: units that grow or shrink
		// under PRECIS/IDNA, with raw and normalised lengths on both sides of 1023
		for _, bc := range []struct {
			u    string
			cnts []int
		}{{"İ", []int{341, 342, 512}}, {"ｕ", []int{342, 1023, 1024}}, {"Å", []int{342, 511, 512}}, {"\u0958", []int{170, 171, 342}}, {"　", []int{342, 1023, 1024}}} {
			for i, cnt := range bc.cnts {
				u := bc.u
				p := strings.Repeat(u, cnt)
				x.res.Count("b|"+u+fmt.Sprint(cnt), true, "boundary/normalised-length")
				if u != "　" {
					x.newCase(p, "example.com", "")
					x.newCase("", p+".example", "")
				}
				x.newCase("", "example.com", p)
				if base, err := jid.New("a", "example.com", "r"); err == nil && i == 1 {
					c := cdesc{Kind: "triple", L: "61", D: hexs("example.com"), R: "72", X: hexs(p)}
					for _, op := range []string{"withlocal", "withdomain", "withresource"} {
						if w, werr := x.withCase(op, base, p, c); werr == nil {
							x.checkJID(op, w, c)
						}
					}
				}
			}
		}
		for i := 0; i < n; i++ {
			l, d, r := x.genPart(0), x.genPart(1), x.genPart(2)
			alt := x.genPart(x.r.Intn(3))
			x.triple(l, d, r, alt)
			if i%2 == 0 {
				x.str(x.genString())
			}
			for k := i * nhist / n; k < (i+1)*nhist/n; k++ { // nhist random histories, interleaved
				x.history(x.randomHistory(), "random", true)
			}
		}
	}
	res.Rule = "inputs: corpus (defect witnesses, RFC 7622 examples), all strings over {a @ / .} up to a length bound, every entry of the Unicode part pools " +
		"(case/width variants, final sigma, combining sequences, Hangul, ZWJ, bidi, A-labels, IP literals, trailing and ideographic dots, invalid UTF-8), 1021..1025-byte parts, " +
		"seeded random triples and strings; per triple: New, Parse/SplitString/ParseUnsafe of the assembled string, WithDomain/WithLocal/WithResource chains in both orders, " +
		"replacement of each part, Equal against a pool, attribute and element codecs; histories (programs of calls over registers of values sharing backing arrays: " +
		"witnesses, every program up to a depth bound over three start values, seeded random ones) with every earlier result re-read after every call; distinct = hash of the input; non-trivial = some part is not plain [a-z0-9.]*"
	per := 1500
	sort.Strings(x.order)
	total := 0
	for _, name := range x.order {
		res.CaseFiles = append(res.CaseFiles, x.files[name].Write(o.Out, per)...)
		total += x.files[name].Len()
		res.Extra["model_cases/"+name] = x.files[name].Len()
	}
	res.Extra["model_cases"] = total
	res.Extra["model_term_bytes"] = x.bytes
	res.Write(o.Out)
}
