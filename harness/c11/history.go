package main

// Histories of calls on values that share backing arrays.
//
// A JID holds a slice; Bare, Domain, Copy, WithResource("") and plain
// assignment share the backing array between values.  The property talks about
// "every address the package returns": such an address must keep its value
// whatever is done afterwards with any other value derived from the same data.
// A history is a program over registers; every call puts its result into a new
// register, and after every call ALL earlier registers are read again and
// compared with what they read when they were created (oracle, independent of
// the Coq model).  The whole history is also one model case (CHist): the model
// runs the program over its heap of backing arrays and over plain values and
// must reproduce what every register reads after the last call.

import (
	"encoding/xml"
	"fmt"
	"strings"

	"mellium.im/xmpp/jid"
	"verifharness/hx"
)

type hop struct {
	Op      string // new parse unsafe bare domain copy withlocal withdomain withresource attr elem
	I       int    // receiver register
	A, B, C string // arguments (new/unsafe: l d r; others: A)
}

type hopJ struct {
	Op string `json:"op"`
	I  int    `json:"i"`
	A  string `json:"a,omitempty"` // hex
	B  string `json:"b,omitempty"`
	C  string `json:"c,omitempty"`
}

func histJ(ops []hop) []hopJ {
	out := make([]hopJ, len(ops))
	for i, o := range ops {
		out[i] = hopJ{o.Op, o.I, hexs(o.A), hexs(o.B), hexs(o.C)}
	}
	return out
}

func histFromJ(js []hopJ) []hop {
	h := func(s string) string { return string(hx.UnHex(s)) }
	out := make([]hop, len(js))
	for i, o := range js {
		out[i] = hop{o.Op, o.I, h(o.A), h(o.B), h(o.C)}
	}
	return out
}

func (o hop) String() string {
	switch o.Op {
	case "new":
		return fmt.Sprintf("New(%q,%q,%q)", o.A, o.B, o.C)
	case "unsafe":
		return fmt.Sprintf("NewUnsafe(%q,%q,%q)", o.A, o.B, o.C)
	case "parse":
		return fmt.Sprintf("Parse(%q)", o.A)
	case "bare":
		return fmt.Sprintf("v%d.Bare()", o.I)
	case "domain":
		return fmt.Sprintf("v%d.Domain()", o.I)
	case "copy":
		return fmt.Sprintf("v%d.Copy()", o.I)
	case "withlocal":
		return fmt.Sprintf("v%d.WithLocal(%q)", o.I, o.A)
	case "withdomain":
		return fmt.Sprintf("v%d.WithDomain(%q)", o.I, o.A)
	case "withresource":
		return fmt.Sprintf("v%d.WithResource(%q)", o.I, o.A)
	case "attr":
		return fmt.Sprintf("(t := v%d; t.UnmarshalXMLAttr(%q))", o.I, o.A)
	case "elem":
		return fmt.Sprintf("(t := v%d; t.UnmarshalXML(<e>%s</e>))", o.I, o.A)
	}
	return o.Op
}

func histString(ops []hop) string {
	var sb strings.Builder
	for k, o := range ops {
		if k > 0 {
			sb.WriteString("; ")
		}
		fmt.Fprintf(&sb, "v%d := %s", k, o.String())
	}
	return sb.String()
}

func (o hop) coq(x *runner, t *tables) string {
	n := hx.CoqNat(o.I)
	switch o.Op {
	case "new":
		x.addLocal(t, o.A)
		x.addDomain(t, o.B)
		x.addRes(t, o.C)
		return fmt.Sprintf("HNew %s %s %s", cb(o.A), cb(o.B), cb(o.C))
	case "unsafe":
		return fmt.Sprintf("HUnsafe %s %s %s", cb(o.A), cb(o.B), cb(o.C))
	case "parse":
		x.addParse(t, o.A)
		return "HParse " + cb(o.A)
	case "bare":
		return "HBare " + n
	case "domain":
		return "HDomain " + n
	case "copy":
		return "HCopy " + n
	case "withlocal":
		x.addLocal(t, o.A)
		return fmt.Sprintf("HWithL %s %s", n, cb(o.A))
	case "withdomain":
		x.addDomain(t, o.A)
		return fmt.Sprintf("HWithD %s %s", n, cb(o.A))
	case "withresource":
		x.addRes(t, o.A)
		return fmt.Sprintf("HWithR %s %s", n, cb(o.A))
	case "attr":
		x.addParse(t, o.A)
		return fmt.Sprintf("HAttr %s %s", n, cb(o.A))
	default:
		x.addParse(t, o.A)
		return fmt.Sprintf("HElem %s %s", n, cb(o.A))
	}
}

// xmlSafe: the string survives as XML character data unchanged.
func xmlSafe(v string) bool {
	b, err := xml.Marshal(wrapC{E: struct {
		C string `xml:",chardata"`
	}{v}})
	if err != nil {
		return false
	}
	var wc wrapC
	return xml.Unmarshal(b, &wc) == nil && wc.E.C == v
}

type hsnap struct {
	p parts
	s string
	e string
}

func observe(j jid.JID) (p parts, s string, pan string) {
	pan = hx.Catch(func() {
		p = parts{j.Localpart(), j.Domainpart(), j.Resourcepart()}
		s = j.String()
	})
	return
}

// history runs one program; emit says whether it also becomes a model case.
func (x *runner) history(ops []hop, class string, emit bool) {
	c := cdesc{Kind: "history", Hist: histJ(ops)}
	canon := "h"
	if class != "exhaustive" {
		for _, o := range ops {
			canon += fmt.Sprintf("|%s,%d,%s,%s,%s", o.Op, o.I, hexs(o.A), hexs(o.B), hexs(o.C))
		}
	}
	if class == "exhaustive" { // distinct by construction: no hash kept
		x.res.Evaluations++
		x.res.Distinct++
		x.res.Histogram["history"]++
		x.res.Histogram["history/exhaustive"]++
	} else {
		x.res.Count(canon, len(ops) > 1, "history", "history/"+class)
	}
	regs := make([]jid.JID, 0, len(ops))
	snaps := make([]hsnap, 0, len(ops))
	failed := false // an oracle failure was recorded; the run goes on so that the model case has the final observation
	for k := range ops {
		o := &ops[k]
		if o.I < 0 || o.I >= len(regs) {
			o.I = 0
		}
		if o.Op == "elem" && !xmlSafe(o.A) {
			o.Op = "attr"
		}
		var recv jid.JID
		if o.I < len(regs) {
			recv = regs[o.I]
		}
		var j jid.JID
		var err error
		if pan := hx.Catch(func() {
			switch o.Op {
			case "new":
				j, err = jid.New(o.A, o.B, o.C)
			case "unsafe":
				j = jid.NewUnsafe(o.A, o.B, o.C).JID
			case "parse":
				j, err = jid.Parse(o.A)
			case "bare":
				j = recv.Bare()
			case "domain":
				j = recv.Domain()
			case "copy":
				j = recv.Copy()
			case "withlocal":
				j, err = recv.WithLocal(o.A)
			case "withdomain":
				j, err = recv.WithDomain(o.A)
			case "withresource":
				j, err = recv.WithResource(o.A)
			case "attr":
				t := recv
				err = (&t).UnmarshalXMLAttr(xml.Attr{Name: xml.Name{Local: "a"}, Value: o.A})
				j = t
			default:
				b, _ := xml.Marshal(wrapC{E: struct {
					C string `xml:",chardata"`
				}{o.A}})
				w := wrapE{E: recv}
				err = xml.Unmarshal(b, &w)
				j = w.E
			}
		}); pan != "" {
			x.res.Fail("C11/"+o.Op+"/history/panic", fmt.Sprintf("step %d of [%s] panics: %s", k, histString(ops[:k+1]), pan), c)
			return
		}
		x.res.Histogram["history-op/"+o.Op]++
		p, s, pan := observe(j)
		if pan != "" {
			x.res.Fail("C11/"+o.Op+"/history/accessor-panic", fmt.Sprintf("the result of step %d of [%s] cannot be read: %s", k, histString(ops[:k+1]), pan), c)
			return
		}
		// value semantics of the views (restated here, not taken from the model)
		if o.I < len(snaps) && !failed {
			rp := snaps[o.I].p
			var want *parts
			switch o.Op {
			case "bare":
				want = &parts{rp.L, rp.D, ""}
			case "domain":
				want = &parts{"", rp.D, ""}
			case "copy":
				want = &rp
			}
			if want != nil && p != *want {
				x.res.Fail("C11/"+o.Op+"/history/view", fmt.Sprintf("[%s]: v%d has parts %q, its receiver had %q", histString(ops[:k+1]), k, p, rp), c)
				return
			}
		}
		regs = append(regs, j)
		snaps = append(snaps, hsnap{p, s, errKind(err)})
		// no call may change a value returned earlier
		for i := 0; i < k && !failed; i++ {
			q, qs, pan := observe(regs[i])
			if pan != "" || q != snaps[i].p || qs != snaps[i].s {
				x.res.Fail("C11/"+o.Op+"/history/earlier-value-changed",
					fmt.Sprintf("[%s]: v%d was %q when it was returned and reads %q after step %d (%s): a returned address changed value, it no longer equals the parse of its string form",
						histString(ops[:k+1]), i, snaps[i].s, qs, k, o.String()), c)
				failed = true
			}
		}
	}
	// canonical values stay canonical and equal to the parse of their first string form
	for i, j := range regs {
		if failed {
			break
		}
		if snaps[i].e != "ENone" || snaps[i].p == (parts{}) || !canonReg(ops, snaps, i) {
			continue
		}
		if j2, err := jid.Parse(snaps[i].s); err != nil || !j2.Equal(j) || !j.Equal(j2) {
			x.res.Fail(failKey(ops[i].Op, "history/roundtrip", snaps[i].p), fmt.Sprintf("[%s]: v%d does not equal Parse(%q) at the end of the history (%v)", histString(ops), i, snaps[i].s, err), c)
			failed = true
		}
	}
	if failed {
		x.failedHist++
		emit = x.failedHist <= 40
	}
	if !emit {
		return
	}
	t := newTables()
	var sb strings.Builder
	sb.WriteString("[")
	for k, o := range ops {
		if k > 0 {
			sb.WriteString("; ")
		}
		sb.WriteString(o.coq(x, t))
	}
	sb.WriteString("]")
	var ob strings.Builder
	ob.WriteString("[")
	for i := range regs {
		if i > 0 {
			ob.WriteString("; ")
		}
		q, _, _ := observe(regs[i])
		ob.WriteString(coqObs(q, snaps[i].e))
	}
	ob.WriteString("]")
	x.emit("hist", fmt.Sprintf("CHist %s %s %s", t.coq(), sb.String(), ob.String()), c)
}

// canonReg: register i was derived only from values the validating API returned
// without error (no NewUnsafe ancestor, no value returned together with an error).
func canonReg(ops []hop, snaps []hsnap, i int) bool {
	for {
		if snaps[i].e != "ENone" {
			return false
		}
		switch ops[i].Op {
		case "new", "parse":
			return true
		case "unsafe":
			return false
		case "attr":
			return true // a successful decode replaces the variable
		case "elem":
			return true
		}
		if ops[i].I >= i {
			return false
		}
		i = ops[i].I
	}
}

// ---- deterministic witnesses: histories that need shared backing arrays ----

var corpusHistories = [][]hop{
	// Bare() of a full JID, then WithResource on the bare value: the original and
	// the earlier result must keep their resourceparts (seeded C11-m6)
	{{Op: "new", A: "juliet", B: "example.com", C: "balcony"}, {Op: "bare", I: 0}, {Op: "withresource", I: 1, A: "orchard"}, {Op: "withresource", I: 1, A: "chamber"}},
	{{Op: "parse", A: "juliet@example.com/balcony"}, {Op: "bare", I: 0}, {Op: "withresource", I: 1, A: "b"}, {Op: "withresource", I: 1, A: "c"}, {Op: "withresource", I: 2, A: "dd"}},
	// spare capacity left by New when PRECIS shrinks a part
	{{Op: "new", A: "ｕｓｅｒ", B: "example.com", C: ""}, {Op: "withresource", I: 0, A: "x"}, {Op: "withresource", I: 0, A: "y"}, {Op: "withlocal", I: 0, A: "v"}},
	{{Op: "new", A: "a", B: "ｅｘａｍｐｌｅ.com", C: "ｒ"}, {Op: "withresource", I: 0, A: ""}, {Op: "withresource", I: 1, A: "zz"}, {Op: "withdomain", I: 1, A: "d"}},
	// Domain() shares the middle of the array
	{{Op: "new", A: "user", B: "example.com", C: "res"}, {Op: "domain", I: 0}, {Op: "withresource", I: 1, A: "r"}, {Op: "withlocal", I: 1, A: "u"}, {Op: "withdomain", I: 1, A: "example.net"}, {Op: "withlocal", I: 0, A: ""}},
	// copies of a variable that is decoded into again
	{{Op: "parse", A: "a@b/c"}, {Op: "copy", I: 0}, {Op: "attr", I: 0, A: "x@y/z"}, {Op: "attr", I: 0, A: ""}, {Op: "elem", I: 1, A: "p@q"}, {Op: "elem", I: 1, A: "@"}},
	// replacing parts of a value and of the values derived from it, all lengths
	{{Op: "new", A: "a", B: "b", C: "cccc"}, {Op: "withdomain", I: 0, A: "dd"}, {Op: "withdomain", I: 0, A: "e"}, {Op: "withlocal", I: 0, A: "lll"}, {Op: "withlocal", I: 0, A: "m"}, {Op: "bare", I: 3}, {Op: "withresource", I: 5, A: "rr"}, {Op: "withresource", I: 5, A: "s"}},
	{{Op: "unsafe", A: "a", B: "b", C: "c"}, {Op: "bare", I: 0}, {Op: "withresource", I: 1, A: "d"}, {Op: "domain", I: 0}, {Op: "withresource", I: 3, A: "e"}},
	// the zero value and values returned together with an error
	{{Op: "bare", I: 0}, {Op: "withresource", I: 0, A: "r"}, {Op: "withdomain", I: 0, A: "d"}, {Op: "withlocal", I: 2, A: "a@b"}, {Op: "withresource", I: 3, A: "r"}},
}

// exhaustive small scope: every program of the given number of calls after one
// of the start values, every call on every register, with arguments shorter
// than, as long as and longer than what they replace.
func (x *runner) exhaustiveHistories(depth int, emitEvery int) int {
	starts := []hop{
		{Op: "new", A: "a", B: "b.c", C: "rrrr"},
		{Op: "new", A: "ｕ", B: "b.c", C: ""}, // two bytes of spare capacity
		{Op: "parse", A: "b.c/rr"},
	}
	type alt struct{ op, a string }
	alts := []alt{{"bare", ""}, {"domain", ""}, {"copy", ""},
		{"withresource", ""}, {"withresource", "x"}, {"withresource", "yyyy"}, {"withresource", "zzzzzzz"},
		{"withlocal", ""}, {"withlocal", "l"}, {"withlocal", "mmmmm"},
		{"withdomain", "d"}, {"withdomain", "eeeee.f"},
		{"attr", "p@q/r"}, {"attr", ""}}
	count := 0
	var rec func(prog []hop, left int)
	rec = func(prog []hop, left int) {
		if left == 0 {
			count++
			p := append([]hop(nil), prog...)
			x.history(p, "exhaustive", len(prog) <= 3 || count%emitEvery == 0)
			return
		}
		for i := 0; i < len(prog); i++ {
			for _, a := range alts {
				rec(append(prog, hop{Op: a.op, I: i, A: a.a}), left-1)
			}
		}
	}
	for _, s := range starts {
		for d := 1; d <= depth; d++ {
			rec([]hop{s}, d)
		}
	}
	return count
}

func (x *runner) plainOfLen(n int) string {
	var sb strings.Builder
	for i := 0; i < n; i++ {
		sb.WriteByte("abcxyz019"[x.r.Intn(9)])
	}
	return sb.String()
}

func (x *runner) histArg(kind int) string {
	switch x.r.Intn(6) {
	case 0:
		return ""
	case 1, 2:
		s := x.plainOfLen(1 + x.r.Intn(14))
		if kind == 1 && x.r.Bool() {
			s += ".example"
		}
		return s
	case 3:
		pool := [][]string{localPool, domainPool, resPool}[kind]
		return pool[x.r.Intn(len(pool))]
	default:
		return x.genPart(kind)
	}
}

// randomHistory: one or two start values, then calls on random registers
// (biased towards views of earlier values, which share their arrays).
func (x *runner) randomHistory() []hop {
	var ops []hop
	valid := func(kind int) string {
		switch kind {
		case 0:
			return []string{"alice", "juliet", "ｕｓｅｒ", "ΑΣ", "a", ""}[x.r.Intn(6)]
		case 1:
			return []string{"example.com", "ｅｘａｍｐｌｅ.com", "xn--bcher-kva.example", "a", "[::1]", "127.0.0.1", "BÜCHER.example"}[x.r.Intn(7)]
		}
		return []string{"balcony", "r", "ｒｅｓ", "a/b@c", "", "home office"}[x.r.Intn(6)]
	}
	for n := 1 + x.r.Intn(2); n > 0; n-- {
		switch x.r.Intn(4) {
		case 0:
			ops = append(ops, hop{Op: "parse", A: assemble(valid(0), valid(1), valid(2))})
		case 1:
			ops = append(ops, hop{Op: "new", A: x.histArg(0), B: valid(1), C: x.histArg(2)})
		default:
			ops = append(ops, hop{Op: "new", A: valid(0), B: valid(1), C: valid(2)})
		}
	}
	steps := 3 + x.r.Intn(7)
	for k := 0; k < steps; k++ {
		i := x.r.Intn(len(ops))
		if x.r.Chance(1, 3) { // prefer a recent view
			for t := len(ops) - 1; t >= 0; t-- {
				if ops[t].Op == "bare" || ops[t].Op == "domain" || ops[t].Op == "copy" {
					i = t
					break
				}
			}
		}
		switch w := x.r.Intn(20); {
		case w < 4:
			ops = append(ops, hop{Op: "bare", I: i})
		case w < 5:
			ops = append(ops, hop{Op: "domain", I: i})
		case w < 6:
			ops = append(ops, hop{Op: "copy", I: i})
		case w < 11:
			ops = append(ops, hop{Op: "withresource", I: i, A: x.histArg(2)})
		case w < 14:
			ops = append(ops, hop{Op: "withlocal", I: i, A: x.histArg(0)})
		case w < 16:
			ops = append(ops, hop{Op: "withdomain", I: i, A: x.histArg(1)})
		case w < 17:
			ops = append(ops, hop{Op: "attr", I: i, A: assemble(x.histArg(0), valid(1), x.histArg(2))})
		case w < 18:
			ops = append(ops, hop{Op: "elem", I: i, A: assemble(valid(0), valid(1), x.histArg(2))})
		case w < 19:
			ops = append(ops, hop{Op: "unsafe", A: x.histArg(0), B: x.histArg(1), C: x.histArg(2)})
		default:
			ops = append(ops, hop{Op: "parse", A: assemble(x.histArg(0), valid(1), x.histArg(2))})
		}
	}
	return ops
}
