module verifharness

go 1.22.0

require (
	golang.org/x/text v0.21.0
	mellium.im/xmpp v0.0.0
)

require (
	golang.org/x/net v0.33.0 // indirect
	mellium.im/reader v0.1.0 // indirect
	mellium.im/xmlstream v0.15.4 // indirect
)

replace mellium.im/xmpp => /repo
