module verifharness

go 1.22.0

require (
	golang.org/x/crypto v0.31.0
	golang.org/x/net v0.33.0
	golang.org/x/text v0.21.0
	mellium.im/sasl v0.3.2
	mellium.im/xmlstream v0.15.4
	mellium.im/xmpp v0.0.0
)

require (
	golang.org/x/sys v0.28.0 // indirect
	mellium.im/reader v0.1.0 // indirect
)

replace mellium.im/xmpp => /repo
