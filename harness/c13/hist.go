package main

// Histories: token readers (and start elements) are values.  What a reader
// built by IQ/Message/Presence.Wrap/Result/Error, stanza.Error.Wrap/TokenReader
// or stream.Error.TokenReader delivers must not depend on constructor calls
// made after it was built: replies are built up front and sent later, several
// sessions build errors at the same time.  An input of class "hist" is a list
// of constructor calls interleaved with partial reads of the readers created
// so far.
//
// Oracle (independent of the Coq model): the tokens a reader delivered during
// the history are a prefix — all of them when it was drained — of the tokens
// of a reader built from the same value and consumed at once; and the
// attributes of the start elements it delivered are the ones its own value
// calls for (type/by of the error, type/to/from/id of the stanza).
// Correspondence: the model executes the same history over a heap of backing
// arrays (coq/C13/Heap.v, case kind CHist) and must predict every read.

import (
	"encoding/json"
	"encoding/xml"
	"fmt"
	"io"
	"reflect"
	"strings"

	"mellium.im/xmpp/stanza"
	"mellium.im/xmpp/stream"
	"verifharness/hx"
)

const himports = "From XV Require Import lib.Bytes gen.Stanza gen.StanzaAlloc C13.Xml C13.Model C13.Heap.\n"

const readAllN = 400 // "drain": more than any generated reader holds

type histOp struct {
	Op  string    `json:"op"` // start | wrap | result | errreply | serr | sterr | read
	St  *stanzaIn `json:"st,omitempty"`
	Se  *serrIn   `json:"se,omitempty"`
	Ste *sterrIn  `json:"ste,omitempty"`
	I   int       `json:"i,omitempty"`
	N   int       `json:"n,omitempty"`
	// Ref > 0: use the very Go value (same Text map / Text slice) of the Ref-th
	// constructor call of this history as the error instead of Se / St.Err / Ste.
	Ref int `json:"ref,omitempty"`
}

type histIn struct {
	Shape string   `json:"shape,omitempty"`
	Ops   []histOp `json:"ops"`
}

// startHolder is a caller that keeps the value StartElement() returned and
// looks at it later.
type startHolder struct {
	st   xml.StartElement
	done bool
}

func (s *startHolder) Token() (xml.Token, error) {
	if s.done {
		return nil, io.EOF
	}
	s.done = true
	return xml.CopyToken(s.st), io.EOF
}

// expectation about one start element a reader delivers: token index and the
// attribute values its own value calls for ("" = absent).
type attrWant struct {
	idx   int
	class string
	want  map[string]string
}

type created struct {
	kind  string // for the histogram
	coq   string
	mk    func() xml.TokenReader
	wants []attrWant
	// the error value handed to the constructor and what it looked like before
	se     *stanza.Error
	seIn   *serrIn
	seWas  sev
	ste    *stream.Error
	steIn  *sterrIn
	steWas stev
}

// sharedSE returns the stanza error of an earlier constructor call of the history.
func sharedSE(op histOp, prev []*created) (*stanza.Error, *serrIn, bool) {
	if op.Ref <= 0 {
		return nil, nil, false
	}
	if op.Ref > len(prev) || prev[op.Ref-1].se == nil {
		return nil, nil, true
	}
	return prev[op.Ref-1].se, prev[op.Ref-1].seIn, true
}

func stvOf(s *stanzaIn) (stv, bool) {
	if _, ok := mustJID(string(s.To)); !ok {
		return stv{}, false
	}
	if _, ok := mustJID(string(s.From)); !ok {
		return stv{}, false
	}
	return stv{string(s.NS), string(s.Local), string(s.ID), jj(string(s.To)).String(), jj(string(s.From)).String(), string(s.Lang), string(s.Type)}, true
}

func stanzaWant(k *kindOps, typ, to, from, id string) map[string]string {
	w := map[string]string{"to": to, "from": from, "id": id}
	if k.name == "presence" || typ != "" {
		w["type"] = typ
	}
	return w
}

func errWant(e stanza.Error) map[string]string {
	return map[string]string{"type": string(e.Type), "by": e.By.String()}
}

// build turns a constructor op into the closure that performs the call, its Coq term and its expectations.
func build(op histOp, prev []*created) (*created, bool) {
	switch op.Op {
	case "start", "wrap", "result", "errreply":
		if op.St == nil {
			return nil, false
		}
		k := kinds[op.St.Kind]
		if k == nil {
			return nil, false
		}
		v, ok := stvOf(op.St)
		if !ok {
			return nil, false
		}
		pl := op.St.Payload
		pay := coqTokens(tokensOf(pl))
		switch op.Op {
		case "start":
			return &created{kind: k.name + "-start", coq: "HStart " + k.coq + " " + v.coq(),
				mk:    func() xml.TokenReader { return &startHolder{st: k.start(v)} },
				wants: []attrWant{{0, "stanza-start", stanzaWant(k, v.Type, v.To, v.From, v.ID)}}}, true
		case "wrap":
			return &created{kind: k.name + "-wrap", coq: "HWrap " + k.coq + " " + v.coq() + " " + pay,
				mk:    func() xml.TokenReader { return k.wrap(v, readerOf(pl)) },
				wants: []attrWant{{0, "stanza-start", stanzaWant(k, v.Type, v.To, v.From, v.ID)}}}, true
		case "result":
			if k.name != "iq" {
				return nil, false
			}
			return &created{kind: "iq-result", coq: "HResult " + v.coq() + " " + pay,
				mk:    func() xml.TokenReader { return mkIQ(v).Result(readerOf(pl)) },
				wants: []attrWant{{0, "stanza-start", stanzaWant(k, "result", v.From, v.To, v.ID)}}}, true
		default:
			ep, ein, isRef := sharedSE(op, prev)
			if isRef && ep == nil {
				return nil, false
			}
			if !isRef {
				if op.St.Err == nil {
					return nil, false
				}
				e, ok := mkSE(op.St.Err)
				if !ok {
					return nil, false
				}
				ep, ein = &e, op.St.Err
			}
			return &created{kind: k.name + "-error", coq: "HErrReply " + k.coq + " " + v.coq() + " " + seInCoq(ein),
				mk: func() xml.TokenReader { return k.errReply(v, *ep) },
				wants: []attrWant{{0, "stanza-start", stanzaWant(k, "error", v.From, v.To, v.ID)},
					{1, "stanza-error-start", errWant(*ep)}},
				se: ep, seIn: ein, seWas: sevOf(*ep)}, true
		}
	case "serr":
		ep, ein, isRef := sharedSE(op, prev)
		if isRef && ep == nil {
			return nil, false
		}
		var pl []*node
		if !isRef {
			if op.Se == nil {
				return nil, false
			}
			e, ok := mkSE(op.Se)
			if !ok {
				return nil, false
			}
			ep, ein, pl = &e, op.Se, op.Se.Payload
		}
		return &created{kind: "stanza-error", coq: "HErr " + seInCoq(ein) + " " + coqTokens(tokensOf(pl)),
			mk: func() xml.TokenReader {
				if len(pl) == 0 {
					return ep.TokenReader()
				}
				return ep.Wrap(readerOf(pl))
			},
			wants: []attrWant{{0, "stanza-error-start", errWant(*ep)}},
			se:    ep, seIn: ein, seWas: sevOf(*ep)}, true
	case "sterr":
		if op.Ref > 0 {
			// the same stream.Error value (one Text slice) read twice; a value with an
			// application payload may only be marshalled once and is not shared
			if op.Ref > len(prev) || prev[op.Ref-1].ste == nil || prev[op.Ref-1].steIn.HasPayload {
				return nil, false
			}
			p := prev[op.Ref-1]
			return &created{kind: "stream-error", coq: "HStream " + steInCoq(p.steIn) + " []",
				mk: func() xml.TokenReader { return p.ste.TokenReader() }, ste: p.ste, steIn: p.steIn, steWas: stevOf(*p.ste)}, true
		}
		if op.Ste == nil {
			return nil, false
		}
		s := op.Ste
		var pay []xml.Token
		if s.HasPayload {
			pay = tokensOf(s.Payload)
		}
		if s.HasPayload {
			return &created{kind: "stream-error", coq: "HStream " + steInCoq(s) + " " + coqTokens(pay),
				mk: func() xml.TokenReader { return mkSTE(s).TokenReader() }}, true
		}
		val := mkSTE(s)
		return &created{kind: "stream-error", coq: "HStream " + steInCoq(s) + " " + coqTokens(pay),
			mk: func() xml.TokenReader { return val.TokenReader() }, ste: &val, steIn: s, steWas: stevOf(val)}, true
	}
	return nil, false
}

// liveReader reads a bounded number of tokens and remembers the end of the stream.
type liveReader struct {
	r    xml.TokenReader
	done bool
	got  []xml.Token
	req  int
}

func (l *liveReader) read(n int) ([]xml.Token, error) {
	var out []xml.Token
	idle := 0
	for len(out) < n && !l.done {
		tok, err := l.r.Token()
		if tok != nil {
			out = append(out, xml.CopyToken(tok))
			idle = 0
		} else if err == nil {
			if idle++; idle > 8 {
				return out, fmt.Errorf("reader returns (nil, nil) forever")
			}
		}
		if err == io.EOF {
			l.done = true
		} else if err != nil {
			l.done = true
			return out, err
		}
	}
	return out, nil
}

func tokenClass(t xml.Token, idx int) string {
	st, ok := t.(xml.StartElement)
	if !ok {
		return "non-start-token"
	}
	switch {
	case st.Name.Local == "error" && st.Name.Space == "":
		return "stanza-error-start"
	case st.Name.Local == "error" && st.Name.Space == stream.NS:
		return "stream-error-start"
	case idx == 0 && (st.Name.Local == "iq" || st.Name.Local == "message" || st.Name.Local == "presence"):
		return "stanza-start"
	case st.Name.Local == "text" && (st.Name.Space == stanza.NSError || st.Name.Space == stream.NSError):
		return "text-start"
	}
	return "other-start"
}

func tokEqual(a, b xml.Token) bool {
	sa, oka := a.(xml.StartElement)
	sb, okb := b.(xml.StartElement)
	if oka && okb {
		if sa.Name != sb.Name || len(sa.Attr) != len(sb.Attr) {
			return false
		}
		for i := range sa.Attr {
			if sa.Attr[i] != sb.Attr[i] {
				return false
			}
		}
		return true
	}
	return reflect.DeepEqual(a, b)
}

func describe(t xml.Token) string {
	b, err := encodeTokens([]xml.Token{t})
	if st, ok := t.(xml.StartElement); ok {
		b, err = encodeTokens([]xml.Token{st, st.End()})
	}
	if err != nil {
		return fmt.Sprintf("%#v", t)
	}
	return string(b)
}

func (x *runner) runHist(in input) {
	h := in.Hist
	var cs []*created
	var live []*liveReader
	var coqOps, coqObs, kindsSeen []string
	reads := 0
	for _, op := range h.Ops {
		if op.Op == "read" {
			if op.I < 0 || op.N < 0 || op.N > readAllN {
				return
			}
			reads++
			var toks []xml.Token
			if op.I < len(live) {
				l := live[op.I]
				var err error
				var p string
				p = hx.Catch(func() { toks, err = l.read(op.N) })
				if p != "" {
					x.res.Fail("C13/history/"+cs[op.I].kind+"/panic", p, in)
					return
				}
				if err != nil {
					x.res.Fail("C13/history/"+cs[op.I].kind+"/read-error", err.Error(), in)
					return
				}
				l.got = append(l.got, toks...)
				l.req += op.N
			}
			coqOps = append(coqOps, "HRead "+hx.CoqNat(op.I)+" "+hx.CoqNat(op.N))
			coqObs = append(coqObs, "("+hx.CoqNat(op.I)+", "+coqTokens(toks)+")")
			continue
		}
		c, ok := build(op, cs)
		if !ok {
			return
		}
		var r xml.TokenReader
		if p := hx.Catch(func() { r = c.mk() }); p != "" {
			x.res.Fail("C13/history/"+c.kind+"/panic", p, in)
			return
		}
		cs = append(cs, c)
		live = append(live, &liveReader{r: r})
		coqOps = append(coqOps, c.coq)
		kindsSeen = append(kindsSeen, c.kind)
	}
	cj, _ := json.Marshal(in)
	x.res.Count(string(cj), len(cs) > 1 && reads > 0, "history", "hist-shape/"+h.Shape, fmt.Sprintf("hist-readers/%d", len(cs)), "hist-kinds/"+strings.Join(kindsSeen, "+"))
	x.hcf.Add("CHist ["+strings.Join(coqOps, "; ")+"] ["+strings.Join(coqObs, "; ")+"]", map[string]interface{}{"check": "history", "case": in})

	// the constructors leave the values they are given as they were
	for i, c := range cs {
		if c.se != nil && !sevOf(*c.se).equal(c.seWas) {
			x.res.Fail("C13/history/stanza-error/argument-changed", fmt.Sprintf("constructor %d (%s): the stanza.Error it was given is now %+v, was %+v", i, c.kind, sevOf(*c.se), c.seWas), in)
		}
		if c.ste != nil && !stevOf(*c.ste).equal(c.steWas) {
			x.res.Fail("C13/history/stream-error/argument-changed", fmt.Sprintf("constructor %d (%s): the stream.Error it was called on is now %+v, was %+v", i, c.kind, stevOf(*c.ste), c.steWas), in)
		}
	}
	// the oracle: every reader against a reader of the same value consumed at once
	for i, c := range cs {
		var ref []xml.Token
		var err error
		if p := hx.Catch(func() { ref, err = readAll(c.mk()) }); p != "" || err != nil {
			x.res.Fail("C13/history/"+c.kind+"/reference-failed", fmt.Sprintf("%s %v", p, err), in)
			continue
		}
		got := live[i].got
		wantLen := live[i].req
		if wantLen > len(ref) {
			wantLen = len(ref)
		}
		reported := false
		for j := 0; j < len(got) && j < len(ref); j++ {
			if !tokEqual(got[j], ref[j]) {
				x.res.Fail("C13/history/"+tokenClass(ref[j], j)+"/changed-by-later-call",
					fmt.Sprintf("reader %d (%s): token %d read during the history is %s, the same value encoded on its own gives %s", i, c.kind, j, describe(got[j]), describe(ref[j])), in)
				reported = true
				break
			}
		}
		if !reported && len(got) != wantLen {
			x.res.Fail("C13/history/token-count", fmt.Sprintf("reader %d (%s) delivered %d tokens for %d requested; consumed at once it has %d", i, c.kind, len(got), live[i].req, len(ref)), in)
			reported = true
		}
		if reported {
			continue
		}
		// the start elements against the value itself
		for _, w := range c.wants {
			if w.idx >= len(got) {
				continue
			}
			st, ok := got[w.idx].(xml.StartElement)
			if !ok {
				x.res.Fail("C13/history/"+w.class+"/not-a-start-element", fmt.Sprintf("reader %d (%s): token %d is %s", i, c.kind, w.idx, describe(got[w.idx])), in)
				continue
			}
			for name, want := range w.want {
				gotv, n := "", 0
				for _, a := range st.Attr {
					if a.Name.Space == "" && a.Name.Local == name {
						gotv = a.Value
						n++
					}
				}
				if gotv != want || n > 1 || (want == "" && n == 1 && !(name == "type" && w.class == "stanza-start")) {
					x.res.Fail("C13/history/"+w.class+"/attribute-not-of-its-value",
						fmt.Sprintf("reader %d (%s): %s carries %s=%q (%d times), its value calls for %q", i, c.kind, describe(st), name, gotv, n, want), in)
					break
				}
			}
		}
	}
}

// ---- generators ----

var histKinds = []string{"iq-start", "message-start", "presence-start", "iq-wrap", "message-wrap", "presence-wrap", "iq-result",
	"iq-error", "message-error", "presence-error", "stanza-error", "stanza-error-payload", "stream-error"}

// histValue builds the constructor op of the given kind; n selects among
// values that differ in every attribute the start elements carry.
func histValue(kind string, n int) histOp {
	etypes := errTypes
	bys := []string{"first.example.net", "room@muc.example.org/nick", "", "b@example.net"}
	conds := []string{"item-not-found", "forbidden", "resource-constraint", "bad-request", ""}
	texts := [][]pairS{nil, {{"", "no <&> entry"}, {"de", "kein Zutritt"}}, {{"en", "wait"}}, {{"", ""}, {"fr", "non"}}}
	se := func() *serrIn {
		return &serrIn{By: S(bys[n%len(bys)]), Type: S(etypes[n%len(etypes)]), Cond: S(conds[n%len(conds)]), Text: texts[n%len(texts)]}
	}
	st := func(kn string) *stanzaIn {
		k := kinds[kn]
		return &stanzaIn{Kind: kn, NS: S(spaces[1+n%2]), Local: S(k.local), ID: S(fmt.Sprintf("id-%d", n)),
			To: S(jj(jidStrings[n%len(jidStrings)]).String()), From: S(jj(jidStrings[(n+3)%len(jidStrings)]).String()),
			Lang: S(langs[n%4]), Type: S(k.types[n%len(k.types)])}
	}
	app := []*node{elem("urn:example:app", "app", []nattr{{"", "v", S(fmt.Sprintf("%d", n))}}, textNode("p"))}
	parts := strings.SplitN(kind, "-", 2)
	switch {
	case kind == "stanza-error":
		return histOp{Op: "serr", Se: se()}
	case kind == "stanza-error-payload":
		e := se()
		e.Payload = app
		return histOp{Op: "serr", Se: e}
	case kind == "stream-error":
		s := &sterrIn{Err: S(steConds[n%len(steConds)]), Text: []pairS{{S(langs[n%4]), S(fmt.Sprintf("text %d", n))}}}
		if n%2 == 1 {
			s.HasPayload, s.Payload = true, app
		}
		return histOp{Op: "sterr", Ste: s}
	case parts[1] == "start":
		return histOp{Op: "start", St: st(parts[0])}
	case parts[1] == "wrap":
		s := st(parts[0])
		if n%2 == 0 {
			s.Payload = app
		}
		return histOp{Op: "wrap", St: s}
	case parts[1] == "result":
		s := st("iq")
		s.Payload = app
		return histOp{Op: "result", St: s}
	default: // error reply
		s := st(parts[0])
		s.Err = se()
		return histOp{Op: "errreply", St: s}
	}
}

func rd(i, n int) histOp { return histOp{Op: "read", I: i, N: n} }

func hist(shape string, ops ...histOp) input {
	return input{Class: "hist", Hist: &histIn{Shape: shape, Ops: ops}}
}

// histCorpus: deterministic witnesses of the interleavings that matter.
func histCorpus() []input {
	a := histOp{Op: "serr", Se: &serrIn{Type: "cancel", Cond: "item-not-found", By: "first.example.net"}}
	b := histOp{Op: "serr", Se: &serrIn{Type: "auth", Cond: "forbidden", Text: []pairS{{"", "no <&> entry"}, {"de", "kein Zutritt für „dich“"}}}}
	c := histOp{Op: "serr", Se: &serrIn{Type: "wait", Cond: "resource-constraint", By: "room@muc.example.org/näck"}}
	d := histOp{Op: "serr", Se: &serrIn{Type: "modify", Cond: "bad-request"}}
	iq := &stanzaIn{Kind: "iq", NS: stanza.NSClient, Local: "iq", ID: "q1", Type: "get", To: "a@example.net/r", From: "b@example.net/s"}
	reply := func(e histOp) histOp {
		s := *iq
		s.Err = e.Se
		return histOp{Op: "errreply", St: &s}
	}
	msg := &stanzaIn{Kind: "message", NS: stanza.NSServer, Local: "message", ID: "m1", Type: "chat", To: "room@muc.example.org", From: "a@example.net/r",
		Err: &serrIn{Type: "continue", Cond: "not-acceptable", By: "muc.example.org"}}
	return []input{
		// replies built up front, sent later
		hist("built-then-read", a, b, c, d, rd(0, readAllN), rd(1, readAllN), rd(2, readAllN), rd(3, readAllN)),
		hist("built-then-read-reversed", a, b, c, d, rd(3, readAllN), rd(2, readAllN), rd(1, readAllN), rd(0, readAllN)),
		hist("built-then-read", reply(a), reply(b), reply(c), reply(d), rd(0, readAllN), rd(1, readAllN), rd(2, readAllN), rd(3, readAllN)),
		// a reader whose stanza start has been sent when another error is built
		hist("partial-then-build", reply(a), rd(0, 1), reply(c), rd(0, readAllN), rd(1, readAllN)),
		hist("partial-then-build", reply(c), rd(0, 2), reply(a), rd(1, 2), histOp{Op: "errreply", St: msg}, rd(0, readAllN), rd(2, readAllN), rd(1, readAllN)),
		// every constructor of the library in one history
		hist("all-kinds", histValue("iq-start", 1), histValue("iq-wrap", 2), histValue("iq-result", 3), reply(a), histOp{Op: "errreply", St: msg},
			histValue("presence-error", 5), histValue("stanza-error-payload", 6), histValue("stream-error", 7), histValue("stream-error", 8),
			rd(8, readAllN), rd(7, 3), rd(6, 1), rd(5, 2), rd(4, readAllN), rd(3, readAllN), rd(2, readAllN), rd(1, readAllN), rd(0, 1),
			rd(5, readAllN), rd(6, readAllN), rd(7, readAllN)),
		// one error value (one Text map) behind several replies and its own reader
		hist("same-value", b, histOp{Op: "errreply", St: iq, Ref: 1}, histOp{Op: "errreply", St: msg, Ref: 1}, histOp{Op: "serr", Ref: 1},
			rd(1, 3), rd(0, 2), rd(3, readAllN), rd(2, readAllN), rd(1, readAllN), rd(0, readAllN)),
		hist("same-value", histValue("stream-error", 2), histOp{Op: "sterr", Ref: 1}, rd(0, 4), rd(1, readAllN), rd(0, readAllN)),
		// reads of readers that do not exist (yet) deliver nothing
		hist("read-before-build", rd(0, 3), a, rd(1, 1), rd(0, readAllN), rd(0, 1)),
	}
}

// histExhaustive: every ordered pair of constructors x the interleavings of two readers.
func histExhaustive() []input {
	var out []input
	n := 0
	for _, ka := range histKinds {
		for _, kb := range histKinds {
			n++
			a, b := histValue(ka, n), histValue(kb, n+1)
			out = append(out,
				hist("AB-readA-readB", a, b, rd(0, readAllN), rd(1, readAllN)),
				hist("AB-readB-readA", a, b, rd(1, readAllN), rd(0, readAllN)),
				hist("A-part-B-rest", a, rd(0, 1+n%2), b, rd(1, 1), rd(0, readAllN), rd(1, readAllN)))
			// both constructors given the very same error value
			usesSE := func(k string) bool { return strings.HasSuffix(k, "-error") && k != "stream-error" }
			if (usesSE(ka) && usesSE(kb)) || (ka == "stream-error" && kb == "stream-error") {
				a2 := histValue(ka, n-n%2) // even n: a stream error without payload
				b2 := histValue(kb, n+1)
				b2.Ref = 1
				out = append(out, hist("same-value", a2, b2, rd(1, 2), rd(0, readAllN), rd(1, readAllN)))
			}
		}
	}
	return out
}

// random histories: up to six readers, reads of random length in random order, everything drained at the end or not.
func (g *gen) hist() input {
	var ops []histOp
	nc := 2 + g.r.Intn(5)
	made := 0
	for made < nc {
		if made > 0 && g.r.Chance(2, 5) {
			ops = append(ops, rd(g.r.Intn(made+1), g.pickN()))
			continue
		}
		var op histOp
		switch g.r.Intn(7) {
		case 0:
			s := g.stanzaIn()
			s.Err = nil
			op = histOp{Op: "start", St: s}
		case 1:
			s := g.stanzaIn()
			s.Err = nil
			op = histOp{Op: "wrap", St: s}
		case 2:
			s := g.stanzaIn()
			s.Kind, s.Local, s.Err = "iq", "iq", nil
			op = histOp{Op: "result", St: s}
		case 3, 4:
			s := g.stanzaIn()
			s.Err = g.serr()
			s.Err.Payload = nil
			s.Payload = nil
			op = histOp{Op: "errreply", St: s}
		case 5:
			op = histOp{Op: "serr", Se: g.serr()}
		default:
			op = histOp{Op: "sterr", Ste: g.sterr()}
		}
		if g.r.Chance(1, 4) {
			// share the error value of an earlier call when there is one of the right type
			for j := made; j > 0; j-- {
				prev := creations(ops)[j-1]
				if (op.Op == "serr" || op.Op == "errreply") && (prev.Op == "serr" || prev.Op == "errreply") ||
					(op.Op == "sterr" && prev.Op == "sterr" && !prev.Ste.HasPayload && prev.Ref == 0) {
					op.Ref = j
					if prev.Ref > 0 {
						op.Ref = prev.Ref
					}
					break
				}
			}
		}
		ops = append(ops, op)
		made++
	}
	order := make([]int, nc)
	for i := range order {
		order[i] = i
	}
	for i := nc - 1; i > 0; i-- {
		j := g.r.Intn(i + 1)
		order[i], order[j] = order[j], order[i]
	}
	for _, i := range order {
		if g.r.Chance(1, 3) {
			ops = append(ops, rd(i, g.pickN()))
		}
		if g.r.Chance(5, 6) {
			ops = append(ops, rd(i, readAllN))
		}
	}
	return hist("random", ops...)
}

func creations(ops []histOp) []histOp {
	var out []histOp
	for _, o := range ops {
		if o.Op != "read" {
			out = append(out, o)
		}
	}
	return out
}

func (g *gen) pickN() int {
	switch g.r.Intn(5) {
	case 0:
		return 0
	case 1:
		return 1
	case 2:
		return 2
	case 3:
		return 1 + g.r.Intn(8)
	}
	return readAllN
}
