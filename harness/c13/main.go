// Command c13 is the correspondence harness and implementation oracle for
// property C13: core stanzas and errors encode consistently and round-trip
// (stanza/iq.go, message.go, presence.go, error.go, stream/error.go).
package main

import (
	"bytes"
	"encoding/json"
	"encoding/xml"
	"fmt"
	"os"
	"sort"

	"mellium.im/xmpp/jid"
	"mellium.im/xmpp/stanza"
	"mellium.im/xmpp/stream"
	"verifharness/hx"
)

const imports = "From XV Require Import lib.Bytes gen.Stanza C13.Xml C13.Model.\n"

// ---- inputs (replayable) ----

type pairS [2]S

type stanzaIn struct {
	Kind    string  `json:"kind"` // iq | message | presence
	NS      S       `json:"ns"`
	Local   S       `json:"local"`
	ID      S       `json:"id"`
	To      S       `json:"to"`
	From    S       `json:"from"`
	Lang    S       `json:"lang"`
	Type    S       `json:"type"`
	Payload []*node `json:"payload,omitempty"`
	Err     *serrIn `json:"err,omitempty"` // the error used for the error reply
}

type serrIn struct {
	By      S       `json:"by"`
	Type    S       `json:"type"`
	Cond    S       `json:"cond"`
	Text    []pairS `json:"text,omitempty"` // distinct keys
	Payload []*node `json:"payload,omitempty"`
}

type sterrIn struct {
	Err        S       `json:"err"`
	Text       []pairS `json:"text,omitempty"`
	Content    S       `json:"content"`
	HasPayload bool    `json:"has_payload,omitempty"`
	Payload    []*node `json:"payload,omitempty"`
}

type decodeIn struct {
	XML S `json:"xml"`
}

type input struct {
	Class string    `json:"class"` // stanza | serror | sterror | decode | hist
	St    *stanzaIn `json:"st,omitempty"`
	Se    *serrIn   `json:"se,omitempty"`
	Ste   *sterrIn  `json:"ste,omitempty"`
	Dec   *decodeIn `json:"dec,omitempty"`
	Hist  *histIn   `json:"hist,omitempty"`
}

// ---- observed values ----

type stv struct{ NS, Local, ID, To, From, Lang, Type string }

func (v stv) coq() string {
	return "(mkst " + cb(v.NS) + " " + cb(v.Local) + " " + cb(v.ID) + " " + cb(v.To) + " " + cb(v.From) + " " + cb(v.Lang) + " " + cb(v.Type) + ")"
}

type sev struct {
	By, Type, Cond string
	Text           [][2]string // sorted by key
}

func (e sev) coq() string {
	return "(mkse " + cb(e.By) + " " + cb(e.Type) + " " + cb(e.Cond) + " " + coqPairs(e.Text) + ")"
}

func sevOf(e stanza.Error) sev {
	out := sev{By: e.By.String(), Type: string(e.Type), Cond: string(e.Condition)}
	keys := make([]string, 0, len(e.Text))
	for k := range e.Text {
		keys = append(keys, k)
	}
	sort.Strings(keys)
	for _, k := range keys {
		out.Text = append(out.Text, [2]string{k, e.Text[k]})
	}
	return out
}

func (e sev) equal(o sev) bool {
	if e.By != o.By || e.Type != o.Type || e.Cond != o.Cond || len(e.Text) != len(o.Text) {
		return false
	}
	for i := range e.Text {
		if e.Text[i] != o.Text[i] {
			return false
		}
	}
	return true
}

type stev struct {
	Err, Content string
	Text         [][2]string
}

func (s stev) coq() string {
	return "(mkste " + cb(s.Err) + " " + coqPairs(s.Text) + " " + cb(s.Content) + ")"
}

func stevOf(s stream.Error) stev {
	out := stev{Err: s.Err, Content: s.Content}
	for _, t := range s.Text {
		out.Text = append(out.Text, [2]string{t.Lang, t.Value})
	}
	return out
}

func (s stev) equal(o stev) bool {
	if s.Err != o.Err || s.Content != o.Content || len(s.Text) != len(o.Text) {
		return false
	}
	for i := range s.Text {
		if s.Text[i] != o.Text[i] {
			return false
		}
	}
	return true
}

// diff names the first clause in which two decoded errors differ (finding keys).
func (e sev) diff(o sev) string {
	switch {
	case e.By != o.By:
		return "by"
	case e.Type != o.Type:
		return "type"
	case e.Cond != o.Cond:
		return "condition"
	}
	return "text"
}

func (s stev) diff(o stev) string {
	switch {
	case s.Err != o.Err:
		return "condition"
	case s.Content != o.Content:
		return "content"
	}
	return "text"
}

func optCoq(ok bool, term string) string {
	if !ok {
		return "None"
	}
	return "(Some " + term + ")"
}

// ---- the three stanza kinds ----

func mustJID(s string) (jid.JID, bool) {
	if s == "" {
		return jid.JID{}, true
	}
	j, err := jid.Parse(s)
	return j, err == nil
}

type kindOps struct {
	name, coq, local string
	types            []string
	start            func(v stv) xml.StartElement
	wrap             func(v stv, p xml.TokenReader) xml.TokenReader
	errReply         func(v stv, e stanza.Error) xml.TokenReader
	newFrom          func(st xml.StartElement) (stv, error)
	marshal          func(v stv) ([]byte, error)
	unmarshal        func(b []byte) (stv, error)
}

func jj(s string) jid.JID { j, _ := mustJID(s); return j }

func mkIQ(v stv) stanza.IQ {
	return stanza.IQ{XMLName: xml.Name{Space: v.NS, Local: v.Local}, ID: v.ID, To: jj(v.To), From: jj(v.From), Lang: v.Lang, Type: stanza.IQType(v.Type)}
}
func ofIQ(x stanza.IQ) stv {
	return stv{x.XMLName.Space, x.XMLName.Local, x.ID, x.To.String(), x.From.String(), x.Lang, string(x.Type)}
}
func mkMsg(v stv) stanza.Message {
	return stanza.Message{XMLName: xml.Name{Space: v.NS, Local: v.Local}, ID: v.ID, To: jj(v.To), From: jj(v.From), Lang: v.Lang, Type: stanza.MessageType(v.Type)}
}
func ofMsg(x stanza.Message) stv {
	return stv{x.XMLName.Space, x.XMLName.Local, x.ID, x.To.String(), x.From.String(), x.Lang, string(x.Type)}
}
func mkPres(v stv) stanza.Presence {
	return stanza.Presence{XMLName: xml.Name{Space: v.NS, Local: v.Local}, ID: v.ID, To: jj(v.To), From: jj(v.From), Lang: v.Lang, Type: stanza.PresenceType(v.Type)}
}
func ofPres(x stanza.Presence) stv {
	return stv{x.XMLName.Space, x.XMLName.Local, x.ID, x.To.String(), x.From.String(), x.Lang, string(x.Type)}
}

var kinds = map[string]*kindOps{
	"iq": {
		name: "iq", coq: "KIQ", local: "iq",
		types:    []string{string(stanza.GetIQ), string(stanza.SetIQ), string(stanza.ResultIQ), string(stanza.ErrorIQ)},
		start:    func(v stv) xml.StartElement { return mkIQ(v).StartElement() },
		wrap:     func(v stv, p xml.TokenReader) xml.TokenReader { return mkIQ(v).Wrap(p) },
		errReply: func(v stv, e stanza.Error) xml.TokenReader { return mkIQ(v).Error(e) },
		newFrom:  func(st xml.StartElement) (stv, error) { x, err := stanza.NewIQ(st); return ofIQ(x), err },
		marshal:  func(v stv) ([]byte, error) { return xml.Marshal(mkIQ(v)) },
		unmarshal: func(b []byte) (stv, error) {
			var x stanza.IQ
			err := xml.Unmarshal(b, &x)
			return ofIQ(x), err
		},
	},
	"message": {
		name: "message", coq: "KMessage", local: "message",
		types:    []string{string(stanza.NormalMessage), string(stanza.ChatMessage), string(stanza.ErrorMessage), string(stanza.GroupChatMessage), string(stanza.HeadlineMessage)},
		start:    func(v stv) xml.StartElement { return mkMsg(v).StartElement() },
		wrap:     func(v stv, p xml.TokenReader) xml.TokenReader { return mkMsg(v).Wrap(p) },
		errReply: func(v stv, e stanza.Error) xml.TokenReader { return mkMsg(v).Error(e) },
		newFrom:  func(st xml.StartElement) (stv, error) { x, err := stanza.NewMessage(st); return ofMsg(x), err },
		marshal:  func(v stv) ([]byte, error) { return xml.Marshal(mkMsg(v)) },
		unmarshal: func(b []byte) (stv, error) {
			var x stanza.Message
			err := xml.Unmarshal(b, &x)
			return ofMsg(x), err
		},
	},
	"presence": {
		name: "presence", coq: "KPresence", local: "presence",
		types: []string{string(stanza.AvailablePresence), string(stanza.ErrorPresence), string(stanza.ProbePresence), string(stanza.SubscribePresence),
			string(stanza.SubscribedPresence), string(stanza.UnavailablePresence), string(stanza.UnsubscribePresence), string(stanza.UnsubscribedPresence)},
		start:    func(v stv) xml.StartElement { return mkPres(v).StartElement() },
		wrap:     func(v stv, p xml.TokenReader) xml.TokenReader { return mkPres(v).Wrap(p) },
		errReply: func(v stv, e stanza.Error) xml.TokenReader { return mkPres(v).Error(e) },
		newFrom:  func(st xml.StartElement) (stv, error) { x, err := stanza.NewPresence(st); return ofPres(x), err },
		marshal:  func(v stv) ([]byte, error) { return xml.Marshal(mkPres(v)) },
		unmarshal: func(b []byte) (stv, error) {
			var x stanza.Presence
			err := xml.Unmarshal(b, &x)
			return ofPres(x), err
		},
	},
}

var kindNames = []string{"iq", "message", "presence"}

func contains(l []string, s string) bool {
	for _, x := range l {
		if x == s {
			return true
		}
	}
	return false
}

var errTypes = []string{string(stanza.Cancel), string(stanza.Auth), string(stanza.Continue), string(stanza.Modify), string(stanza.Wait)}

var seConds = []string{
	string(stanza.BadRequest), string(stanza.Conflict), string(stanza.FeatureNotImplemented), string(stanza.Forbidden), string(stanza.Gone),
	string(stanza.InternalServerError), string(stanza.ItemNotFound), string(stanza.JIDMalformed), string(stanza.NotAcceptable),
	string(stanza.NotAllowed), string(stanza.NotAuthorized), string(stanza.PolicyViolation), string(stanza.RecipientUnavailable),
	string(stanza.Redirect), string(stanza.RegistrationRequired), string(stanza.RemoteServerNotFound), string(stanza.RemoteServerTimeout),
	string(stanza.ResourceConstraint), string(stanza.ServiceUnavailable), string(stanza.SubscriptionRequired),
	string(stanza.UndefinedCondition), string(stanza.UnexpectedRequest),
}

var steConds = []string{
	stream.BadFormat.Err, stream.BadNamespacePrefix.Err, stream.Conflict.Err, stream.ConnectionTimeout.Err, stream.HostGone.Err,
	stream.HostUnknown.Err, stream.ImproperAddressing.Err, stream.InternalServerError.Err, stream.InvalidFrom.Err,
	stream.InvalidNamespace.Err, stream.InvalidXML.Err, stream.NotAuthorized.Err, stream.NotWellFormed.Err, stream.PolicyViolation.Err,
	stream.RemoteConnectionFailed.Err, stream.Reset.Err, stream.ResourceConstraint.Err, stream.RestrictedXML.Err, "see-other-host",
	stream.SystemShutdown.Err, stream.UndefinedCondition.Err, stream.UnsupportedEncoding.Err, stream.UnsupportedFeature.Err,
	stream.UnsupportedStanzaType.Err, stream.UnsupportedVersion.Err,
}

// ---- runner ----

type runner struct {
	res *hx.Result
	cf  hx.CaseFile
	hcf hx.CaseFile // histories (case type hcase of C13/Heap.v)
	r   *hx.Rand
}

func (x *runner) add(term string, in input, what string) {
	x.cf.Add(term, map[string]interface{}{"check": what, "case": in})
}

func nodeOfStart(st xml.StartElement) *node {
	n := &node{Space: S(st.Name.Space), Local: S(st.Name.Local)}
	for _, a := range st.Attr {
		n.Attrs = append(n.Attrs, nattr{S(a.Name.Space), S(a.Name.Local), S(a.Value)})
	}
	return n
}

// wireOK mirrors the model's [wire_ok]: the trees on which the encoder model is claimed.
func modelName(s string) bool {
	if s == "" {
		return false
	}
	for i := 0; i < len(s); i++ {
		c := s[i]
		start := (c >= 'A' && c <= 'Z') || (c >= 'a' && c <= 'z') || c == '_' || c >= 0x80
		if start || (i > 0 && ((c >= '0' && c <= '9') || c == '-' || c == '.')) {
			continue
		}
		return false
	}
	return true
}

func wireOK(n *node) bool {
	if n.Text != nil {
		return true
	}
	if !modelName(string(n.Local)) || !isXMLText(string(n.Space)) {
		return false
	}
	seen := map[[2]S]bool{}
	for _, a := range n.Attrs {
		if !modelName(string(a.Local)) || (a.Space != "" && a.Space != nsXML) || (a.Space == "" && a.Local == "xmlns") {
			return false
		}
		if seen[[2]S{a.Space, a.Local}] {
			return false
		}
		seen[[2]S{a.Space, a.Local}] = true
	}
	for _, k := range n.Kids {
		if !wireOK(k) {
			return false
		}
	}
	return true
}

// encodeCheck serialises tokens, applies the well-formedness oracle and emits the CWire case.
func (x *runner) encodeCheck(in input, entry string, toks []xml.Token) (b []byte, root *node) {
	b, err := encodeTokens(toks)
	if err != nil {
		x.res.Fail("C13/"+entry+"/encode-error", "the encoder rejects the tokens: "+err.Error(), in)
		return nil, nil
	}
	root, why := wellFormedDoc(b)
	if why != "" {
		x.res.Fail("C13/"+entry+"/not-well-formed", "output is not well-formed XML: "+why, in)
		return b, nil
	}
	if f, ok := forestOf(toks); ok && len(f) == 1 && onlyModelTokens(toks) && wireOK(f[0]) {
		x.add("CWire ("+coqTree(f[0])+") ("+coqTree(root)+")", in, entry+"/wire")
	}
	return b, root
}

func payloadOK(f []*node) bool {
	for _, n := range f {
		if !wireOK(n) {
			return false
		}
	}
	return true
}

func allClean(ss ...string) bool {
	for _, s := range ss {
		if !isXMLText(s) {
			return false
		}
	}
	return true
}

func (x *runner) runStanza(in input) {
	s := in.St
	k := kinds[s.Kind]
	if k == nil {
		return
	}
	if _, ok := mustJID(string(s.To)); !ok {
		return
	}
	if _, ok := mustJID(string(s.From)); !ok {
		return
	}
	v := stv{string(s.NS), string(s.Local), string(s.ID), jj(string(s.To)).String(), jj(string(s.From)).String(), string(s.Lang), string(s.Type)}
	defined := contains(k.types, v.Type)
	clean := allClean(v.ID, v.Lang, v.Type, v.NS)
	cj, _ := json.Marshal(in)
	x.res.Count(string(cj), v.ID != "" || v.To != "" || v.From != "" || v.Lang != "" || len(s.Payload) > 0,
		"stanza/"+k.name, "type/"+k.name+"/"+v.Type, fmt.Sprintf("ns/%s", v.NS), fmt.Sprintf("clean/%v", clean), fmt.Sprintf("payload/%d", len(s.Payload)))
	want := v
	want.Local = k.local
	pre := "C13/" + k.name

	// StartElement and New*
	var st xml.StartElement
	if p := hx.Catch(func() { st = k.start(v) }); p != "" {
		x.res.Fail(pre+"/start-element/panic", p, in)
		return
	}
	x.add("CStart "+k.coq+" "+v.coq()+" "+coqName(st.Name.Space, st.Name.Local)+" "+coqXMLAttrs(st.Attr), in, "StartElement")
	var back stv
	var nerr error
	if p := hx.Catch(func() { back, nerr = k.newFrom(st) }); p != "" {
		x.res.Fail(pre+"/new/panic", p, in)
	} else {
		x.add("CNew "+k.coq+" "+jidTable([]*node{nodeOfStart(st)})+" "+coqName(st.Name.Space, st.Name.Local)+" "+coqXMLAttrs(st.Attr)+" "+optCoq(nerr == nil, back.coq()), in, "New(StartElement)")
		if defined && (nerr != nil || back != want) {
			x.res.Fail(pre+"/start-element/not-inverse", fmt.Sprintf("New%s(v.StartElement()) = %+v, %v; want %+v", k.name, back, nerr, want), in)
		}
	}

	// Wrap
	pay := tokensOf(s.Payload)
	payF, _ := forestOf(pay)
	toks, err := readAll(k.wrap(v, readerOf(s.Payload)))
	if err != nil {
		x.res.Fail(pre+"/wrap/error", err.Error(), in)
		return
	}
	x.add("CWrap "+k.coq+" "+v.coq()+" "+coqTokens(pay)+" "+coqTokens(toks), in, "Wrap")
	x.wrapOracle(in, pre+"/wrap", toks, k.local, v.NS, v.Type, v.To, v.From, payF)

	if k.name == "iq" {
		rt, err := readAll(mkIQ(v).Result(readerOf(s.Payload)))
		if err != nil {
			x.res.Fail(pre+"/result/error", err.Error(), in)
		} else {
			x.add("CResult "+v.coq()+" "+coqTokens(pay)+" "+coqTokens(rt), in, "Result")
			x.wrapOracle(in, pre+"/result", rt, "iq", v.NS, "result", v.From, v.To, payF)
		}
	}

	// the two encodings
	bTok, rootTok := x.encodeCheck(in, k.name+"/token-path", toks)
	bM, merr := k.marshal(v)
	var rootM *node
	if merr != nil {
		x.res.Fail(pre+"/marshal/error", merr.Error(), in)
	} else {
		var why string
		rootM, why = wellFormedDoc(bM)
		if why != "" {
			x.res.Fail(pre+"/marshal/not-well-formed", "xml.Marshal output is not well-formed: "+why, in)
		} else {
			x.add("CMarshal "+k.coq+" "+v.coq()+" ("+coqTree(rootM)+")", in, "xml.Marshal")
		}
	}
	var vT, vM stv
	var eT, eM error
	okT, okM := false, false
	if rootTok != nil {
		if p := hx.Catch(func() { vT, eT = k.unmarshal(bTok) }); p != "" {
			x.res.Fail(pre+"/unmarshal/panic", p, in)
		} else {
			okT = true
			x.add("CUnmarshal "+k.coq+" "+jidTable([]*node{rootTok})+" ("+coqTree(rootTok)+") "+optCoq(eT == nil, vT.coq()), in, "xml.Unmarshal(token path)")
		}
	}
	if rootM != nil {
		if p := hx.Catch(func() { vM, eM = k.unmarshal(bM) }); p != "" {
			x.res.Fail(pre+"/unmarshal/panic", p, in)
		} else {
			okM = true
			x.add("CUnmarshal "+k.coq+" "+jidTable([]*node{rootM})+" ("+coqTree(rootM)+") "+optCoq(eM == nil, vM.coq()), in, "xml.Unmarshal(marshal path)")
		}
	}
	// the same attribute names (name space included) on both paths, and every
	// decoder reads every encoding to the same value: the struct decoder accepts
	// an attribute of any name space for a tag without one, so only the start
	// element parser New* and the names themselves show a tag that lost its name space
	if rootM != nil {
		x.attrNamesOracle(in, pre, st, rootM, defined && clean && allClean(v.To, v.From))
	}
	for _, enc := range []struct {
		path string
		root *node
	}{{"token-path", rootTok}, {"marshal-path", rootM}} {
		if enc.root == nil {
			continue
		}
		rst := startOfNode(enc.root)
		var nv stv
		var nerr error
		if p := hx.Catch(func() { nv, nerr = k.newFrom(rst) }); p != "" {
			x.res.Fail(pre+"/new/panic", p, in)
			continue
		}
		x.add("CNew "+k.coq+" "+jidTable([]*node{enc.root})+" "+coqName(rst.Name.Space, rst.Name.Local)+" "+coqXMLAttrs(rst.Attr)+" "+optCoq(nerr == nil, nv.coq()), in, "New("+enc.path+" re-parsed)")
		if !(defined && clean && allClean(v.To, v.From)) {
			continue
		}
		w := want
		if enc.path == "marshal-path" {
			w.NS = nv.NS // the element name space on this path is the known finding, reported above
		}
		if nerr != nil {
			x.res.Fail(pre+"/two-paths/cross-decode/error", fmt.Sprintf("New%s on the %s encoding fails: %v", k.name, enc.path, nerr), in)
		} else if nv != w {
			x.res.Fail(pre+"/two-paths/cross-decode/"+stvDiff(nv, w), fmt.Sprintf("New%s on the %s encoding = %+v; want %+v", k.name, enc.path, nv, w), in)
		}
	}
	if defined && okT && okM {
		switch {
		case eT != nil || eM != nil:
			x.res.Fail(pre+"/roundtrip/decode-error", fmt.Sprintf("decoding an encoding fails: token path %v, marshal path %v", eT, eM), in)
		default:
			vMn := vM
			vMn.NS = vT.NS
			if vMn != vT {
				x.res.Fail(pre+"/two-paths/fields-differ", fmt.Sprintf("the two encodings decode differently: %+v vs %+v", vT, vM), in)
			} else if vM.NS != vT.NS {
				x.res.Fail("C13/stanza/marshal/xmlname-space-dropped",
					fmt.Sprintf("xml.Marshal ignores XMLName.Space (struct tag wins): token path decodes to name space %q, marshal path to %q", vT.NS, vM.NS), in)
			}
			if clean {
				if vT != want {
					x.res.Fail(pre+"/roundtrip/token-path", fmt.Sprintf("decode(encode(v)) = %+v; want %+v", vT, want), in)
				}
				if vMn != want && vMn == vT {
					// already reported through the token path
				} else if vMn != want {
					x.res.Fail(pre+"/roundtrip/marshal-path", fmt.Sprintf("decode(xml.Marshal(v)) = %+v; want %+v", vM, want), in)
				}
			}
		}
	}

	// error reply
	if s.Err != nil {
		x.runErrorReply(in, k, v)
	}
}

func startOfNode(n *node) xml.StartElement {
	st := xml.StartElement{Name: xml.Name{Space: string(n.Space), Local: string(n.Local)}}
	for _, a := range n.Attrs {
		st.Attr = append(st.Attr, xml.Attr{Name: xml.Name{Space: string(a.Space), Local: string(a.Local)}, Value: string(a.Value)})
	}
	return st
}

// stvDiff names the first field in which two stanza values differ (finding keys).
func stvDiff(a, b stv) string {
	switch {
	case a.NS != b.NS || a.Local != b.Local:
		return "name"
	case a.ID != b.ID:
		return "id"
	case a.To != b.To || a.From != b.From:
		return "addresses"
	case a.Lang != b.Lang:
		return "lang"
	}
	return "type"
}

// attrNamesOracle: every attribute with a value that xml.Marshal writes is, name
// space included, an attribute StartElement writes with the same value, and
// the other way round (xmlns aside: the element name space is the known finding).
func (x *runner) attrNamesOracle(in input, pre string, st xml.StartElement, rootM *node, strict bool) {
	if !strict {
		return
	}
	type an struct{ space, local string }
	tok := map[an]string{}
	for _, a := range st.Attr {
		if a.Value != "" {
			tok[an{a.Name.Space, a.Name.Local}] = a.Value
		}
	}
	mar := map[an]string{}
	for _, a := range rootM.Attrs {
		if a.Value != "" && !(a.Space == "" && a.Local == "xmlns") {
			mar[an{string(a.Space), string(a.Local)}] = string(a.Value)
		}
	}
	for _, a := range rootM.Attrs {
		n, v := an{string(a.Space), string(a.Local)}, string(a.Value)
		if _, counted := mar[n]; !counted {
			continue
		}
		if tv, ok := tok[n]; !ok || tv != v {
			x.res.Fail(pre+"/two-paths/attribute-names-differ", fmt.Sprintf("xml.Marshal writes attribute {%s}%s=%q, StartElement writes %v", n.space, n.local, v, st.Attr), in)
			return
		}
	}
	for _, a := range st.Attr {
		n, v := an{a.Name.Space, a.Name.Local}, a.Value
		if v == "" {
			continue
		}
		if mv, ok := mar[n]; !ok || mv != v {
			x.res.Fail(pre+"/two-paths/attribute-names-differ", fmt.Sprintf("StartElement writes attribute {%s}%s=%q, xml.Marshal writes %v", n.space, n.local, v, rootM.Attrs), in)
			return
		}
	}
}

// wrapOracle: the wrapper is one element of the right kind, type and addresses, holding the payload unchanged.
func (x *runner) wrapOracle(in input, key string, toks []xml.Token, local, ns, typ, to, from string, payload []*node) {
	f, ok := forestOf(toks)
	if !ok || len(f) != 1 || f[0].Text != nil {
		x.res.Fail(key+"/not-one-element", "wrapper output is not a single element", in)
		return
	}
	root := f[0]
	if string(root.Local) != local || string(root.Space) != ns {
		x.res.Fail(key+"/wrong-kind", fmt.Sprintf("wrapper element is {%s}%s, want {%s}%s", root.Space, root.Local, ns, local), in)
	}
	if got, _ := attrOf(root, "", "type"); got != typ {
		x.res.Fail(key+"/wrong-type", fmt.Sprintf("type=%q, want %q", got, typ), in)
	}
	gt, _ := attrOf(root, "", "to")
	gf, _ := attrOf(root, "", "from")
	if gt != to || gf != from {
		x.res.Fail(key+"/addresses", fmt.Sprintf("to=%q from=%q, want to=%q from=%q", gt, gf, to, from), in)
	}
	if payload != nil || len(root.Kids) > 0 {
		if !sameForest(root.Kids, payload) {
			x.res.Fail(key+"/payload-changed", "the children of the wrapper are not the payload", in)
		}
	}
}

func mkSE(e *serrIn) (stanza.Error, bool) {
	by, ok := mustJID(string(e.By))
	if !ok {
		return stanza.Error{}, false
	}
	out := stanza.Error{By: by, Type: stanza.ErrorType(e.Type), Condition: stanza.Condition(e.Cond)}
	if e.Text != nil {
		out.Text = map[string]string{}
		for _, p := range e.Text {
			out.Text[string(p[0])] = string(p[1])
		}
	}
	return out, true
}

// normSE: the documented normal form an Error decodes to.
func normSE(e stanza.Error) sev {
	n := sevOf(e)
	if n.Cond == "" {
		n.Cond = string(stanza.UndefinedCondition)
	}
	var t [][2]string
	for _, p := range n.Text {
		if p[1] != "" {
			t = append(t, p)
		}
	}
	n.Text = t
	return n
}

func seExpectRoundtrip(e *serrIn) bool {
	if !(e.Cond == "" || contains(seConds, string(e.Cond))) || !(e.Type == "" || contains(errTypes, string(e.Type))) {
		return false
	}
	for _, p := range e.Text {
		if !allClean(string(p[0]), string(p[1])) {
			return false
		}
	}
	for _, n := range e.Payload {
		if n.Text == nil && n.Space == stanza.NSError {
			return false
		}
	}
	return true
}

func firstErrorIsAfterNonElement(kids []*node) bool {
	for _, n := range kids {
		if n.Text != nil {
			return true
		}
		if n.Local == "error" {
			return false
		}
	}
	return false
}

// unmarshalErrorCheck runs stanza.UnmarshalError on the children of root
// delivered by r (positioned after the start token) and emits the model case.
func (x *runner) unmarshalErrorCheck(in input, entry string, r xml.TokenReader, kids []*node, modelable bool) (sev, error, bool) {
	var e stanza.Error
	var err error
	if p := hx.Catch(func() { e, err = stanza.UnmarshalError(r) }); p != "" {
		key := "C13/UnmarshalError/panic"
		if firstErrorIsAfterNonElement(kids) || !modelable {
			key = "C13/UnmarshalError/panic/non-element-child"
		}
		x.res.Fail(key, "stanza.UnmarshalError panics ("+entry+"): "+p, in)
		return sev{}, nil, false
	}
	got := sevOf(e)
	if modelable {
		x.add("CUnmarshalError "+jidTable(kids)+" "+coqForest(kids)+" "+optCoq(err == nil, got.coq()), in, entry+"/UnmarshalError")
	}
	return got, err, true
}

func (x *runner) runErrorReply(in input, k *kindOps, v stv) {
	e, ok := mkSE(in.St.Err)
	if !ok {
		return
	}
	pre := "C13/" + k.name + "/error-reply"
	toks, err := readAll(k.errReply(v, e))
	if err != nil {
		x.res.Fail(pre+"/error", err.Error(), in)
		return
	}
	eIn := *in.St.Err
	x.add("CErrReply "+k.coq+" "+v.coq()+" "+seInCoq(&eIn)+" "+coqTokens(toks), in, "Error")
	f, okf := forestOf(toks)
	if !okf || len(f) != 1 {
		x.res.Fail(pre+"/not-one-element", "error reply is not a single element", in)
		return
	}
	root := f[0]
	etoks, _ := readAll(e.TokenReader())
	ef, _ := forestOf(etoks)
	x.wrapOracle(in, pre, toks, k.local, v.NS, "error", v.From, v.To, ef)
	// the error can be read back from the reply, from the tokens and from the wire
	want := normSE(e)
	expect := seExpectRoundtrip(in.St.Err)
	got, uerr, ran := x.unmarshalErrorCheck(in, k.name+"/error-reply/tokens", &sliceReader{toks: toks[1:]}, root.Kids, true)
	if ran && expect && (uerr != nil || !got.equal(want)) {
		x.res.Fail(pre+"/unmarshal-error/"+got.diff(want), fmt.Sprintf("UnmarshalError(reply tokens) = %+v, %v; want %+v", got, uerr, want), in)
	}
	b, wroot := x.encodeCheck(in, k.name+"/error-reply", toks)
	if wroot != nil {
		d := xml.NewDecoder(bytes.NewReader(b))
		d.Token()
		got, uerr, ran := x.unmarshalErrorCheck(in, k.name+"/error-reply/wire", d, wroot.Kids, true)
		if ran && expect && (uerr != nil || !got.equal(want)) {
			x.res.Fail(pre+"/unmarshal-error/"+got.diff(want), fmt.Sprintf("UnmarshalError(reply bytes) = %+v, %v; want %+v", got, uerr, want), in)
		}
		if k.name == "iq" {
			x.iqErrorCheck(in, b, wroot)
		}
	}
}

// iqErrorCheck: stanza.UnmarshalIQError on a document.
func (x *runner) iqErrorCheck(in input, b []byte, root *node) {
	d := xml.NewDecoder(bytes.NewReader(b))
	var st xml.StartElement
	for {
		tok, err := d.Token()
		if err != nil {
			return
		}
		if s, ok := tok.(xml.StartElement); ok {
			st = s
			break
		}
	}
	var iq stanza.IQ
	var err error
	if p := hx.Catch(func() { iq, err = stanza.UnmarshalIQError(d, st) }); p != "" {
		key := "C13/UnmarshalIQError/panic"
		if firstErrorIsAfterNonElement(root.Kids) {
			key = "C13/UnmarshalError/panic/non-element-child"
		}
		x.res.Fail(key, "stanza.UnmarshalIQError panics: "+p, in)
		return
	}
	// result classes: (iq, nil) | (iq, stanza.Error) | (iq, other error)
	res := "None"
	if err == nil {
		res = "(Some (" + ofIQ(iq).coq() + ", None))"
	} else if se, ok := err.(stanza.Error); ok {
		res = "(Some (" + ofIQ(iq).coq() + ", Some " + sevOf(se).coq() + "))"
	}
	tabNodes := append([]*node{nodeOfStart(st)}, root.Kids...)
	x.add("CIQError "+jidTable(tabNodes)+" "+coqName(st.Name.Space, st.Name.Local)+" "+coqXMLAttrs(st.Attr)+" "+coqForest(root.Kids)+" "+res, in, "UnmarshalIQError")
}

func seInCoq(e *serrIn) string {
	ps := make([][2]string, len(e.Text))
	for i, p := range e.Text {
		ps[i] = [2]string{string(p[0]), string(p[1])}
	}
	by := ""
	if j, ok := mustJID(string(e.By)); ok {
		by = j.String()
	}
	return "(mkse " + cb(by) + " " + cb(string(e.Type)) + " " + cb(string(e.Cond)) + " " + coqPairs(ps) + ")"
}

func (x *runner) runSErr(in input) {
	s := in.Se
	e, ok := mkSE(s)
	if !ok {
		return
	}
	cj, _ := json.Marshal(in)
	x.res.Count(string(cj), len(s.Text) > 0 || s.By != "" || len(s.Payload) > 0, "stanza-error", "cond/"+string(s.Cond), "errtype/"+string(s.Type),
		fmt.Sprintf("texts/%d", len(s.Text)), fmt.Sprintf("payload/%d", len(s.Payload)))
	pre := "C13/stanza-error"
	pay := tokensOf(s.Payload)
	payF, _ := forestOf(pay)
	var toks []xml.Token
	var err error
	if p := hx.Catch(func() { toks, err = readAll(e.Wrap(readerOf(s.Payload))) }); p != "" {
		x.res.Fail(pre+"/wrap/panic", p, in)
		return
	}
	if err != nil {
		x.res.Fail(pre+"/wrap/error", err.Error(), in)
		return
	}
	x.add("CErrTokens "+seInCoq(s)+" "+coqTokens(pay)+" "+coqTokens(toks), in, "Error.Wrap")
	f, okf := forestOf(toks)
	if !okf || len(f) != 1 || f[0].Text != nil || f[0].Local != "error" {
		x.res.Fail(pre+"/wrap/not-one-element", "Error.Wrap output is not a single <error/> element", in)
		return
	}
	kids := f[0].Kids
	if len(kids) < len(payF) || !sameForest(kids[len(kids)-len(payF):], payF) {
		x.res.Fail(pre+"/wrap/payload-changed", "the payload is not carried unchanged at the end of the error", in)
	}
	expect := seExpectRoundtrip(s) && payloadOK(s.Payload)
	b, root := x.encodeCheck(in, "stanza-error", toks)
	if len(s.Payload) == 0 {
		// the standard marshaller, WriteXML and TokenReader are the same encoding
		bm, merr := xml.Marshal(e)
		var bw bytes.Buffer
		enc := xml.NewEncoder(&bw)
		_, werr := e.WriteXML(enc)
		enc.Flush()
		if merr != nil || werr != nil {
			x.res.Fail(pre+"/marshal/error", fmt.Sprintf("xml.Marshal: %v, WriteXML: %v", merr, werr), in)
		} else if b != nil && (!bytes.Equal(bm, b) || !bytes.Equal(bw.Bytes(), b)) {
			x.res.Fail(pre+"/two-paths/bytes-differ", fmt.Sprintf("xml.Marshal %q, WriteXML %q, TokenReader %q", bm, bw.Bytes(), b), in)
		}
	}
	if root == nil {
		return
	}
	var e2 stanza.Error
	var derr error
	if p := hx.Catch(func() { derr = xml.Unmarshal(b, &e2) }); p != "" {
		x.res.Fail(pre+"/unmarshal/panic", p, in)
		return
	}
	got := sevOf(e2)
	x.add("CErrUnmarshal "+jidTable([]*node{root})+" ("+coqTree(root)+") "+optCoq(derr == nil, got.coq()), in, "Error.UnmarshalXML")
	want := normSE(e)
	if expect && derr != nil {
		x.res.Fail(pre+"/roundtrip/decode-error", fmt.Sprintf("decode(encode(e)) fails: %v", derr), in)
	} else if expect && !got.equal(want) {
		x.res.Fail(pre+"/roundtrip/"+got.diff(want), fmt.Sprintf("decode(encode(e)) = %+v; want %+v", got, want), in)
	}
	// decoding the token stream directly gives the same value as decoding the bytes
	var e3 stanza.Error
	var terr error
	if p := hx.Catch(func() { terr = xml.NewTokenDecoder(&sliceReader{toks: toks}).Decode(&e3) }); p != "" {
		x.res.Fail(pre+"/unmarshal/panic", p, in)
	} else if expect && (terr != nil || !sevOf(e3).equal(got)) {
		x.res.Fail(pre+"/two-paths/decode-differs", fmt.Sprintf("token decode %+v, %v vs byte decode %+v", sevOf(e3), terr, got), in)
	}
}

func mkSTE(s *sterrIn) stream.Error {
	out := stream.Error{Err: string(s.Err), Content: string(s.Content)}
	for _, p := range s.Text {
		out.Text = append(out.Text, struct{ Lang, Value string }{string(p[0]), string(p[1])})
	}
	if s.HasPayload {
		out = out.ApplicationError(readerOf(s.Payload))
	}
	return out
}

func steInCoq(s *sterrIn) string {
	ps := make([][2]string, len(s.Text))
	for i, p := range s.Text {
		ps[i] = [2]string{string(p[0]), string(p[1])}
	}
	return "(mkste " + cb(string(s.Err)) + " " + coqPairs(ps) + " " + cb(string(s.Content)) + ")"
}

func (x *runner) runStErr(in input) {
	s := in.Ste
	cj, _ := json.Marshal(in)
	x.res.Count(string(cj), len(s.Text) > 0 || s.HasPayload || s.Content != "", "stream-error", "stream-cond/"+string(s.Err),
		fmt.Sprintf("texts/%d", len(s.Text)), fmt.Sprintf("has-payload/%v", s.HasPayload && len(s.Payload) > 0))
	pre := "C13/stream-error"
	var pay []xml.Token
	if s.HasPayload {
		pay = tokensOf(s.Payload)
	}
	payF, _ := forestOf(pay)
	var toks []xml.Token
	var err error
	if p := hx.Catch(func() { toks, err = readAll(mkSTE(s).TokenReader()) }); p != "" {
		x.res.Fail(pre+"/token-reader/panic", p, in)
		return
	}
	if err != nil {
		x.res.Fail(pre+"/token-reader/error", err.Error(), in)
		return
	}
	x.add("CStreamTokens "+steInCoq(s)+" "+coqTokens(pay)+" "+coqTokens(toks), in, "stream.Error.TokenReader")
	f, okf := forestOf(toks)
	if !okf || len(f) != 1 || f[0].Text != nil || f[0].Local != "error" || f[0].Space != stream.NS {
		x.res.Fail(pre+"/token-reader/not-one-element", "TokenReader output is not a single stream error element", in)
		return
	}
	if len(payF) > 0 {
		kids := f[0].Kids
		if len(kids) < 1+len(payF) || !sameForest(kids[1:1+len(payF)], payF) {
			x.res.Fail(pre+"/token-reader/payload-changed", "the application payload is not carried unchanged after the condition", in)
		}
	}
	b, root := x.encodeCheck(in, "stream-error", toks)
	bm, merr := xml.Marshal(mkSTE(s))
	var bw bytes.Buffer
	enc := xml.NewEncoder(&bw)
	_, werr := mkSTE(s).WriteXML(enc)
	enc.Flush()
	if merr != nil || werr != nil {
		x.res.Fail(pre+"/marshal/error", fmt.Sprintf("xml.Marshal: %v, WriteXML: %v", merr, werr), in)
	} else if b != nil && (!bytes.Equal(bm, b) || !bytes.Equal(bw.Bytes(), b)) {
		x.res.Fail(pre+"/two-paths/bytes-differ", fmt.Sprintf("xml.Marshal %q, WriteXML %q, TokenReader %q", bm, bw.Bytes(), b), in)
	}
	if root == nil {
		return
	}
	var s2 stream.Error
	var derr error
	if p := hx.Catch(func() { derr = xml.Unmarshal(b, &s2) }); p != "" {
		x.res.Fail(pre+"/unmarshal/panic", p, in)
		return
	}
	got := stevOf(s2)
	x.add("CStreamUnmarshal ("+coqTree(root)+") "+optCoq(derr == nil, got.coq()), in, "stream.Error.UnmarshalXML")
	expect := contains(steConds, string(s.Err)) && payloadOK(s.Payload)
	want := stev{Err: string(s.Err)}
	for _, p := range s.Text {
		expect = expect && allClean(string(p[0]), string(p[1]))
		want.Text = append(want.Text, [2]string{string(p[0]), string(p[1])})
	}
	if s.Err == "see-other-host" {
		want.Content = string(s.Content)
		expect = expect && allClean(want.Content)
	}
	for _, n := range s.Payload {
		if n.Text == nil && n.Space == stream.NSError {
			expect = false
		}
	}
	if expect && derr != nil {
		key := pre + "/roundtrip/decode-error"
		if s.HasPayload && len(payF) > 0 {
			key = pre + "/unmarshal/application-payload"
		}
		x.res.Fail(key, fmt.Sprintf("decode(encode(e)) = %+v, %v; want %+v", got, derr, want), in)
	} else if expect && !got.equal(want) {
		x.res.Fail(pre+"/roundtrip/"+got.diff(want), fmt.Sprintf("decode(encode(e)) = %+v; want %+v", got, want), in)
	}
}

// runDecode: arbitrary documents through every decoder: no panic, and the model agrees.
func (x *runner) runDecode(in input) {
	b := []byte(in.Dec.XML)
	x.res.Count("dec|"+string(b), true, "decode-input")
	toks, perr := reparse(b)
	var root *node
	modelable := false
	if perr == nil {
		if f, ok := forestOf(toks); ok {
			nroots := 0
			for _, n := range f {
				if n.Text == nil {
					if root == nil {
						root = n
					}
					nroots++
				}
			}
			modelable = onlyModelTokens(toks) && nroots == 1
		}
	}
	if root == nil {
		root = &node{Local: "none"}
	}
	tab := jidTable([]*node{root})
	for _, kn := range kindNames {
		k := kinds[kn]
		var v stv
		var err error
		if p := hx.Catch(func() { v, err = k.unmarshal(b) }); p != "" {
			x.res.Fail("C13/"+kn+"/unmarshal/panic", p, in)
		} else if modelable {
			x.add("CUnmarshal "+k.coq+" "+tab+" ("+coqTree(root)+") "+optCoq(err == nil, v.coq()), in, "decode/"+kn)
		}
		st := xml.StartElement{Name: xml.Name{Space: string(root.Space), Local: string(root.Local)}}
		for _, a := range root.Attrs {
			st.Attr = append(st.Attr, xml.Attr{Name: xml.Name{Space: string(a.Space), Local: string(a.Local)}, Value: string(a.Value)})
		}
		if p := hx.Catch(func() { v, err = k.newFrom(st) }); p != "" {
			x.res.Fail("C13/"+kn+"/new/panic", p, in)
		} else if modelable {
			x.add("CNew "+k.coq+" "+tab+" "+coqName(st.Name.Space, st.Name.Local)+" "+coqXMLAttrs(st.Attr)+" "+optCoq(err == nil, v.coq()), in, "decode/New"+kn)
		}
	}
	var e stanza.Error
	var err error
	if p := hx.Catch(func() { err = xml.Unmarshal(b, &e) }); p != "" {
		x.res.Fail("C13/stanza-error/unmarshal/panic", p, in)
	} else if modelable {
		x.add("CErrUnmarshal "+tab+" ("+coqTree(root)+") "+optCoq(err == nil, sevOf(e).coq()), in, "decode/stanza.Error")
	}
	var se stream.Error
	if p := hx.Catch(func() { err = xml.Unmarshal(b, &se) }); p != "" {
		x.res.Fail("C13/stream-error/unmarshal/panic", p, in)
	} else if modelable {
		x.add("CStreamUnmarshal ("+coqTree(root)+") "+optCoq(err == nil, stevOf(se).coq()), in, "decode/stream.Error")
	}
	// UnmarshalError / UnmarshalIQError on the children of the first element
	d := xml.NewDecoder(bytes.NewReader(b))
	for {
		tok, err := d.Token()
		if err != nil {
			return
		}
		if _, ok := tok.(xml.StartElement); ok {
			break
		}
	}
	x.unmarshalErrorCheck(in, "decode", d, root.Kids, modelable)
	if modelable {
		x.iqErrorCheck(in, b, root)
	}
}

func (x *runner) run(in input) {
	switch in.Class {
	case "stanza":
		if in.St != nil {
			x.runStanza(in)
		}
	case "serror":
		if in.Se != nil {
			x.runSErr(in)
		}
	case "sterror":
		if in.Ste != nil {
			x.runStErr(in)
		}
	case "decode":
		if in.Dec != nil {
			x.runDecode(in)
		}
	case "hist":
		if in.Hist != nil {
			x.runHist(in)
		}
	}
	x.res.Sample(in)
}

func main() {
	o := hx.ParseFlags()
	res := hx.NewResult("C13")
	x := &runner{res: res, r: hx.NewRand(o.Seed)}
	x.cf = hx.CaseFile{Name: "c13", Imports: imports, Ok: "case_ok", Type: "case"}
	x.hcf = hx.CaseFile{Name: "c13h", Imports: himports, Ok: "hcase_ok", Type: "hcase"}

	if o.Replay != "" {
		b, err := os.ReadFile(o.Replay)
		if err != nil {
			fmt.Fprintln(os.Stderr, err)
			os.Exit(2)
		}
		var rp struct {
			Case json.RawMessage `json:"case"`
		}
		if err := json.Unmarshal(b, &rp); err != nil {
			fmt.Fprintln(os.Stderr, err)
			os.Exit(2)
		}
		var in input
		if err := json.Unmarshal(rp.Case, &in); err != nil || in.Class == "" {
			// correspondence mismatches wrap the input as {"check":..., "case": input}
			var w struct {
				Case input `json:"case"`
			}
			if err2 := json.Unmarshal(rp.Case, &w); err2 != nil {
				fmt.Fprintln(os.Stderr, err, err2)
				os.Exit(2)
			}
			in = w.Case
		}
		x.run(in)
	} else {
		for _, in := range corpus() {
			x.run(in)
		}
		for _, in := range histCorpus() {
			x.run(in)
		}
		for _, in := range exhaustive(x.r.Fork()) {
			x.run(in)
		}
		for _, in := range histExhaustive() {
			x.run(in)
		}
		n := 800
		if o.Thorough() {
			n = 15000
		}
		if o.Search {
			n = 15000
		}
		g := &gen{r: x.r.Fork()}
		for i := 0; i < n; i++ {
			x.run(g.input())
		}
		// histories draw from their own stream (forked last, so the streams above are what they were)
		gh := &gen{r: x.r.Fork()}
		for i := 0; i < n/5; i++ {
			x.run(gh.hist())
		}
	}
	res.Rule = "inputs: corpus (minimised witnesses, RFC examples), exhaustive small scope (every kind x type constant x name space x presence of id/to/from/lang; " +
		"every stanza condition x error type; every stream condition x payload x texts), seeded random values (ids, JIDs, language tags, multi-language texts incl. empty, " +
		"XML-special, non-ASCII, control and invalid UTF-8 text, application payload forests, client/server/empty name spaces) and a malformed stream of documents for the decoders; " +
		"per input: StartElement, New*, Wrap/Result/Error, TokenReader/WriteXML/xml.Marshal, encoder+strict re-parse, xml.Unmarshal, UnmarshalError, UnmarshalIQError; " +
		"histories (class hist): constructor calls (StartElement, Wrap, Result, Error, stanza.Error.Wrap/TokenReader, stream.Error.TokenReader) interleaved with partial reads of the readers built so far " +
		"- corpus witnesses, every ordered pair of the 13 constructors x 3 interleavings, random histories of 2-6 readers - each reader compared with one built from the same value and consumed at once; " +
		"distinct = hash of the input; non-trivial = at least one optional field, text or payload present"
	res.CaseFiles = append(res.CaseFiles, x.cf.Write(o.Out, 1500)...)
	res.CaseFiles = append(res.CaseFiles, x.hcf.Write(o.Out, 1500)...)
	res.Extra["model_cases"] = x.cf.Len() + x.hcf.Len()
	res.Extra["history_cases"] = x.hcf.Len()
	res.Write(o.Out)
}
