package main

// Generators: corpus, exhaustive small scope, seeded random values and the
// malformed stream for the decoders.

import (
	"mellium.im/xmpp/jid"
	"mellium.im/xmpp/stanza"
	"mellium.im/xmpp/stream"
	"verifharness/hx"
)

type gen struct{ r *hx.Rand }

var cleanTexts = []string{
	"", "a", "hello world", "x<y", "a&b", "\"quoted\" 'single'", "]]>", "<![CDATA[x]]>", "&amp;", "&#x0;", "tab\there", "line\nbreak", "cr\rhere",
	" lead", "trail ", "é", "日本語", "\U0001F600", "ß→☃", "�", "a b", "<error xmlns='x'/>", "</iq>", "--", "?>", " ",
}

var dirtyTexts = []string{"\x00", "a\x01b", "\x1f", "\xff", "ab\xc3", "\xc3\x28", "\xed\xa0\x80", "\xef\xbf\xbe", "\xef\xbf\xbf", "\xf4\x90\x80\x80", "\x7f", "\xc0\xaf", "\xe0\x80\x80", "ok\x0bvt", "\xf0\x9f\x98"}

var langs = []string{"", "en", "de", "de-CH", "en-US", "fr", "x-klingon", "ja", "zh-Hant", "E N", "l<g", "\"", "é"}

var jidStrings = []string{
	"example.net", "a@example.net", "a@example.net/res", "juliet@capulet.example/balcony 1", "romeo@montague.example",
	"j\\27a@x.example/r&d", "ß@example.net/☃", "[::1]", "node@[2001:db8::1]/x", "shakespeare.lit/<tag>", "a@b/c\"d'e", "user@example.org/ res ",
	"xn--bcher-kva.example", "a.b-c@d.example/\U0001F600",
}

var spaces = []string{"", stanza.NSClient, stanza.NSServer, "urn:example:other"}

func (g *gen) pick(l []string) string { return l[g.r.Intn(len(l))] }

func (g *gen) jidString() string {
	if g.r.Chance(3, 10) {
		return ""
	}
	s := g.pick(jidStrings)
	j, err := jid.Parse(s)
	if err != nil {
		return ""
	}
	return j.String()
}

// text: mostly text XML can carry; dirty = may contain bytes it cannot.
func (g *gen) text(dirty bool) string {
	switch g.r.Intn(10) {
	case 0:
		return ""
	case 1, 2, 3, 4:
		return g.pick(cleanTexts)
	case 5, 6:
		return g.pick(cleanTexts) + g.pick(cleanTexts)
	case 7:
		n := g.r.Intn(40)
		b := make([]byte, n)
		const alpha = "abc <>&\"'\n\t\r;#x]-é"
		for i := range b {
			b[i] = alpha[g.r.Intn(len(alpha)-2)]
		}
		return string(b)
	default:
		if dirty {
			s := g.pick(cleanTexts) + g.pick(dirtyTexts)
			if g.r.Bool() {
				s += g.pick(cleanTexts)
			}
			if g.r.Chance(1, 3) {
				n := 1 + g.r.Intn(6)
				b := make([]byte, n)
				for i := range b {
					b[i] = byte(g.r.Intn(256))
				}
				s += string(b)
			}
			return s
		}
		return g.pick(cleanTexts)
	}
}

var payloadNames = [][2]string{
	{"urn:xmpp:ping", "ping"}, {"urn:example:app", "app"}, {"", "plain"}, {stanza.NSClient, "body"}, {"jabber:iq:roster", "query"},
	{"urn:example:app", "too-many-parameters"}, {stanza.NSError, "text"}, {stanza.NSError, "gone"}, {stream.NSError, "text"}, {"", "error"},
	{"urn:example:app", "error"}, {stream.NSError, "see-other-host"}, {stream.NSError, "host-gone"},
}

func (g *gen) payloadNode(depth int, rareNS bool) *node {
	if depth > 0 && g.r.Chance(1, 3) {
		return textNode(g.text(false))
	}
	nm := payloadNames[g.r.Intn(6)]
	if rareNS && g.r.Chance(1, 8) {
		nm = payloadNames[g.r.Intn(len(payloadNames))]
	}
	n := elem(nm[0], nm[1], nil)
	attrNames := []string{"id", "node", "jid", "type", "by", "to", "v"}
	used := map[string]bool{}
	for i := g.r.Intn(3); i > 0; i-- {
		a := g.pick(attrNames)
		if used[a] {
			continue
		}
		used[a] = true
		n.Attrs = append(n.Attrs, nattr{"", S(a), S(g.text(false))})
	}
	if g.r.Chance(1, 5) {
		n.Attrs = append(n.Attrs, nattr{nsXML, "lang", S(g.pick(langs))})
	}
	if depth < 3 {
		for i := g.r.Intn(3); i > 0; i-- {
			n.Kids = append(n.Kids, g.payloadNode(depth+1, rareNS))
		}
	}
	return n
}

func (g *gen) payload(rareNS bool) []*node {
	var f []*node
	switch g.r.Intn(6) {
	case 0, 1:
		return nil
	case 2, 3, 4:
		f = append(f, g.payloadNode(0, rareNS))
	default:
		f = append(f, g.payloadNode(0, rareNS), g.payloadNode(0, rareNS))
	}
	return f
}

func (g *gen) serr() *serrIn {
	e := &serrIn{By: S(g.jidString())}
	if g.r.Chance(1, 2) {
		e.By = ""
	}
	switch g.r.Intn(12) {
	case 0:
		e.Type = ""
	case 1:
		e.Type = "custom"
	default:
		e.Type = S(g.pick(errTypes))
	}
	switch g.r.Intn(14) {
	case 0:
		e.Cond = ""
	case 1:
		e.Cond = S(g.pick([]string{"my-condition", "text", "error", "Gone"}))
	default:
		e.Cond = S(g.pick(seConds))
	}
	dirty := g.r.Chance(1, 6)
	n := g.r.Intn(4)
	used := map[string]bool{}
	for i := 0; i < n; i++ {
		l := g.pick(langs)
		if i == 0 && g.r.Bool() {
			l = ""
		}
		if dirty && g.r.Chance(1, 4) {
			l = g.text(true)
		}
		if used[l] {
			continue
		}
		used[l] = true
		e.Text = append(e.Text, pairS{S(l), S(g.text(dirty))})
	}
	if g.r.Chance(1, 3) {
		e.Payload = g.payload(true)
	}
	return e
}

func (g *gen) stanzaIn() *stanzaIn {
	kn := kindNames[g.r.Intn(3)]
	k := kinds[kn]
	dirty := g.r.Chance(1, 6)
	s := &stanzaIn{Kind: kn, Local: S(k.local), NS: S(spaces[g.r.Intn(3)])}
	switch g.r.Intn(20) {
	case 0:
		s.NS = S(spaces[3])
	case 1:
		s.Local = ""
	case 2:
		s.Local = "other"
	}
	if g.r.Chance(4, 5) {
		s.ID = S(g.text(dirty))
	}
	s.To, s.From = S(g.jidString()), S(g.jidString())
	if g.r.Chance(1, 2) {
		s.Lang = S(g.pick(langs))
		if dirty && g.r.Chance(1, 3) {
			s.Lang = S(g.text(true))
		}
	}
	switch g.r.Intn(12) {
	case 0:
		s.Type = S(g.pick([]string{"", "foo", "GET", "normal", "probe", "t<y"}))
	default:
		s.Type = S(g.pick(k.types))
	}
	s.Payload = g.payload(true)
	if g.r.Chance(1, 2) {
		s.Err = g.serr()
		s.Err.Payload = nil
	}
	return s
}

func (g *gen) sterr() *sterrIn {
	s := &sterrIn{Err: S(g.pick(steConds))}
	if g.r.Chance(1, 5) {
		s.Err = "see-other-host"
	}
	if g.r.Chance(1, 25) {
		s.Err = S(g.pick([]string{"custom-condition", "text", "error"}))
	}
	dirty := g.r.Chance(1, 6)
	for i := g.r.Intn(4); i > 0; i-- {
		s.Text = append(s.Text, pairS{S(g.pick(langs)), S(g.text(dirty))})
	}
	if s.Err == "see-other-host" || g.r.Chance(1, 6) {
		s.Content = S(g.pick([]string{"", "example.org", "[::1]:5222", "10.0.0.1:5269", "a<b&c", "ü.example"}))
		if dirty {
			s.Content = S(g.text(true))
		}
	}
	if g.r.Chance(2, 5) {
		s.HasPayload = true
		s.Payload = g.payload(true)
	}
	return s
}

// ---- malformed / arbitrary documents for the decoders ----

var decNames = [][2]string{
	{"", "error"}, {stanza.NSClient, "error"}, {stanza.NSError, "text"}, {stanza.NSError, "bad-request"}, {stanza.NSError, "gone"},
	{stream.NSError, "text"}, {stream.NSError, "see-other-host"}, {stream.NSError, "host-unknown"}, {stream.NS, "error"},
	{stanza.NSClient, "iq"}, {"", "iq"}, {stanza.NSServer, "message"}, {"", "presence"}, {"urn:example:app", "app"}, {"", "text"},
	{"urn:example:app", "text"}, {stanza.NSClient, "body"},
}

var decAttrs = [][2]string{
	{"", "type"}, {"", "by"}, {"", "to"}, {"", "from"}, {"", "id"}, {nsXML, "lang"}, {"", "lang"}, {"urn:example:app", "id"},
	{"urn:example:app", "type"}, {stanza.NSClient, "to"}, {"", "xml"}, {"urn:example:app", "lang"}, {stanza.NSClient, "type"},
}

var decValues = []string{"", "error", "get", "result", "cancel", "chat", "nonsense", "a@example.net", "example.net/r", "@", "a@@b", "a@b/", "en", "x<y", "é", "subscribe", "normal", "headline"}

func (g *gen) decNode(depth int) *node {
	if depth > 0 && g.r.Chance(1, 4) {
		return textNode(g.pick([]string{" ", "\n  ", "text", "x<y", ""}))
	}
	nm := decNames[g.r.Intn(len(decNames))]
	n := elem(nm[0], nm[1], nil)
	used := map[[2]string]bool{}
	for i := g.r.Intn(4); i > 0; i-- {
		a := decAttrs[g.r.Intn(len(decAttrs))]
		if used[a] {
			continue
		}
		used[a] = true
		n.Attrs = append(n.Attrs, nattr{S(a[0]), S(a[1]), S(g.pick(decValues))})
	}
	if depth < 3 {
		for i := g.r.Intn(4); i > 0; i-- {
			n.Kids = append(n.Kids, g.decNode(depth+1))
		}
	}
	return n
}

func (g *gen) decodeIn() *decodeIn {
	var root *node
	switch g.r.Intn(4) {
	case 0: // a mutated stanza error inside an iq
		e := g.serr()
		se, ok := mkSE(e)
		if ok {
			toks, err := readAll(se.Wrap(readerOf(e.Payload)))
			f, okf := forestOf(toks)
			if err == nil && okf && len(f) == 1 {
				root = elem(stanza.NSClient, "iq", []nattr{{"", "type", "error"}, {"", "id", "1"}}, f[0])
				g.mutate(root)
				g.mutate(f[0])
			}
		}
	case 1: // a mutated stream error
		s := g.sterr()
		toks, err := readAll(mkSTE(s).TokenReader())
		f, okf := forestOf(toks)
		if err == nil && okf && len(f) == 1 {
			root = f[0]
			g.mutate(root)
		}
	}
	if root == nil {
		root = g.decNode(0)
		if root.Text != nil {
			root = elem("", "iq", nil, root)
		}
	}
	b, err := encodeTokens(tokensOf([]*node{root}))
	if err != nil {
		b = []byte("<iq type='error'>x<error/></iq>")
	}
	if g.r.Chance(1, 12) && len(b) > 4 { // truncated or damaged document
		b = b[:g.r.Intn(len(b))]
	}
	return &decodeIn{XML: S(b)}
}

// mutate inserts character data, stray elements and duplicates among the children.
func (g *gen) mutate(n *node) {
	for i := g.r.Intn(3); i > 0; i-- {
		var ins *node
		switch g.r.Intn(4) {
		case 0:
			ins = textNode(g.pick([]string{" ", "\n", "stray"}))
		case 1:
			ins = g.decNode(1)
		case 2:
			if len(n.Kids) > 0 {
				ins = n.Kids[g.r.Intn(len(n.Kids))]
			} else {
				ins = textNode("x")
			}
		default:
			ins = elem(g.pick([]string{stanza.NSError, stream.NSError, "urn:example:app"}), g.pick([]string{"text", "gone", "redirect", "see-other-host", "app"}), nil, textNode(g.pick(cleanTexts)))
		}
		p := g.r.Intn(len(n.Kids) + 1)
		n.Kids = append(n.Kids[:p:p], append([]*node{ins}, n.Kids[p:]...)...)
	}
}

func (g *gen) input() input {
	switch g.r.Intn(10) {
	case 0, 1, 2, 3:
		return input{Class: "stanza", St: g.stanzaIn()}
	case 4, 5:
		return input{Class: "serror", Se: g.serr()}
	case 6, 7:
		return input{Class: "sterror", Ste: g.sterr()}
	default:
		return input{Class: "decode", Dec: g.decodeIn()}
	}
}

// ---- exhaustive small scope ----

func exhaustive(r *hx.Rand) []input {
	var out []input
	g := &gen{r: r}
	i := 0
	rot := func(l []string) string { i++; return l[i%len(l)] }
	for _, kn := range kindNames {
		k := kinds[kn]
		for _, t := range k.types {
			for _, ns := range spaces[:3] {
				for m := 0; m < 16; m++ {
					s := &stanzaIn{Kind: kn, NS: S(ns), Local: S(k.local), Type: S(t)}
					if m&1 != 0 {
						s.ID = S(rot(cleanTexts[1:]))
					}
					if m&2 != 0 {
						s.To = S(jj(rot(jidStrings)).String())
					}
					if m&4 != 0 {
						s.From = S(jj(rot(jidStrings)).String())
					}
					if m&8 != 0 {
						s.Lang = S(rot(langs[1:]))
					}
					if m%5 == 0 {
						s.Payload = g.payload(false)
					}
					if m%4 == 3 {
						s.Err = &serrIn{Type: S(rot(errTypes)), Cond: S(rot(seConds)), Text: []pairS{{"", S(rot(cleanTexts[1:]))}}}
					}
					out = append(out, input{Class: "stanza", St: s})
				}
			}
		}
	}
	for _, c := range append([]string{""}, seConds...) {
		for _, t := range append([]string{""}, errTypes...) {
			e := &serrIn{Cond: S(c), Type: S(t)}
			switch i++; i % 4 {
			case 1:
				e.Text = []pairS{{"", S(rot(cleanTexts))}}
			case 2:
				e.Text = []pairS{{S(rot(langs[1:])), S(rot(cleanTexts))}, {"", S(rot(cleanTexts))}}
				e.By = S(jj(rot(jidStrings)).String())
			case 3:
				e.Text = []pairS{{"en", ""}, {"de", S(rot(cleanTexts[1:]))}, {"", ""}}
				e.Payload = []*node{elem("urn:example:app", "too-many-parameters", nil)}
			}
			out = append(out, input{Class: "serror", Se: e})
		}
	}
	for _, c := range steConds {
		for m := 0; m < 6; m++ {
			s := &sterrIn{Err: S(c)}
			for j := 0; j < m%3; j++ {
				s.Text = append(s.Text, pairS{S(rot(langs)), S(rot(cleanTexts))})
			}
			if m >= 3 {
				s.HasPayload = true
				s.Payload = []*node{elem("urn:example:app", "app", []nattr{{"", "v", S(rot(cleanTexts))}}, textNode(rot(cleanTexts)))}
			}
			if c == "see-other-host" {
				s.Content = S(rot([]string{"example.org", "[::1]:5222", "a<b"}))
			}
			out = append(out, input{Class: "sterror", Ste: s})
		}
	}
	return out
}

// ---- corpus: witnesses of defects and examples from the RFCs / the test suite ----

func dec(s string) input { return input{Class: "decode", Dec: &decodeIn{XML: S(s)}} }

func corpus() []input {
	app := []*node{elem("urn:example:app", "escape-your-data", nil)}
	out := []input{
		// stanza.UnmarshalError: character data before the error element (nil start element)
		dec(`<iq type="error"> <error type="cancel"><bad-request xmlns="urn:ietf:params:xml:ns:xmpp-stanzas"/></error></iq>`),
		dec("<iq xmlns='jabber:client' type='error' id='1'>\n  <ping xmlns='urn:xmpp:ping'/>\n  <error type='cancel'><service-unavailable xmlns='urn:ietf:params:xml:ns:xmpp-stanzas'/></error>\n</iq>"),
		dec(`<iq type="error"><!-- c --><error type="wait"><gone xmlns="urn:ietf:params:xml:ns:xmpp-stanzas">xmpp:a@b</gone></error></iq>`),
		dec(`<iq type="error">text only</iq>`),
		dec(`<iq type="error"/>`),
		// stream.Error.UnmarshalXML: application payload between condition and text
		{Class: "sterror", Ste: &sterrIn{Err: "not-well-formed", Text: []pairS{{"en", "Some special application diagnostic information!"}}, HasPayload: true, Payload: app}},
		{Class: "sterror", Ste: &sterrIn{Err: "see-other-host", Content: "[2001:41D0:1:A49b::1]:9222", HasPayload: true, Payload: []*node{elem("urn:example:app", "a", nil, elem(stream.NSError, "host-gone", nil))}}},
		dec(`<stream:error xmlns:stream="http://etherx.jabber.org/streams"><not-well-formed xmlns="urn:ietf:params:xml:ns:xmpp-streams"/><escape-your-data xmlns="urn:example:app"/><text xml:lang="en" xmlns="urn:ietf:params:xml:ns:xmpp-streams">x</text></stream:error>`),
		dec(`<error xmlns="http://etherx.jabber.org/streams"><see-other-host xmlns="urn:ietf:params:xml:ns:xmpp-streams">a<b/>c</see-other-host><text xmlns="urn:ietf:params:xml:ns:xmpp-streams" xml:lang="en" xml:lang="de">t<i/>u</text></error>`),
		// XMLName.Space and xml.Marshal
		{Class: "stanza", St: &stanzaIn{Kind: "iq", NS: stanza.NSServer, Local: "iq", ID: "1", Type: "set"}},
		{Class: "stanza", St: &stanzaIn{Kind: "message", NS: stanza.NSClient, Local: "message", Type: "chat", To: "a@example.net"}},
		{Class: "stanza", St: &stanzaIn{Kind: "presence", NS: "", Local: "presence", Type: "", ID: ""}},
		// RFC 6120 8.3.2 / 4.9.3 style values
		{Class: "serror", Se: &serrIn{Type: "modify", Cond: "gone", By: "example.net", Text: []pairS{{"en", "moved"}, {"", "xmpp:romeo@afterlife.example.net"}, {"de", ""}}}},
		{Class: "serror", Se: &serrIn{Type: "cancel", Cond: "", Text: []pairS{{"", "<&>\"'\r\n\t"}}}},
		{Class: "serror", Se: &serrIn{Type: "auth", Cond: "text", Text: []pairS{{"", "a"}}}},
		{Class: "serror", Se: &serrIn{Type: "wait", Cond: "resource-constraint", Text: []pairS{{"\x00", "a"}, {"\x01", "b"}}}},
		{Class: "serror", Se: &serrIn{Type: "wait", Cond: "bad-request", Payload: []*node{elem(stanza.NSError, "text", nil, textNode("smuggled"))}}},
		{Class: "stanza", St: &stanzaIn{Kind: "iq", NS: stanza.NSClient, Local: "iq", ID: "a\x00b\xffc", Type: "get", From: "a@example.net/r", To: "example.net",
			Err: &serrIn{Type: "cancel", Cond: "item-not-found", Text: []pairS{{"en", "nope"}}}}},
		dec(`<error type="cancel" xmlns:type="urn:x" by="a@@b"><bad-request xmlns="urn:ietf:params:xml:ns:xmpp-stanzas"/></error>`),
		dec(`<error type="cancel" type="auth" a:type="wait" xmlns:a="urn:a"><x xmlns="urn:a"/><conflict xmlns="urn:ietf:params:xml:ns:xmpp-stanzas"/><gone xmlns="urn:ietf:params:xml:ns:xmpp-stanzas"/><text xmlns="urn:ietf:params:xml:ns:xmpp-stanzas">a<b/>c</text><text xmlns="urn:ietf:params:xml:ns:xmpp-stanzas"></text></error>`),
		dec(`<message xmlns="jabber:client" type="weird" a:id="7" xmlns:a="urn:a" to="" from="x@y/z"><body>hi</body></message>`),
		dec(`<presence id="1" id="2" to="@" />`),
		dec(`<iq xmlns="jabber:server" a:to="q@" xmlns:a="urn:a" xml:lang="en" lang="de" type=""/>`),
	}
	return out
}
