package main

// Token/tree utilities and the Coq term printers of the C13 harness.

import (
	"bytes"
	"encoding/hex"
	"encoding/json"
	"encoding/xml"
	"fmt"
	"io"
	"sort"
	"strings"
	"unicode/utf8"

	"mellium.im/xmpp/jid"
	"mellium.im/xmpp/stanza"
	"mellium.im/xmpp/stream"
	"verifharness/hx"
)

// S is a byte string that survives JSON (hex encoded): replay files must
// reproduce invalid UTF-8 and control characters exactly.
type S string

func (s S) MarshalJSON() ([]byte, error) { return json.Marshal(hex.EncodeToString([]byte(s))) }
func (s *S) UnmarshalJSON(b []byte) error {
	var h string
	if err := json.Unmarshal(b, &h); err != nil {
		return err
	}
	raw, err := hex.DecodeString(h)
	*s = S(raw)
	return err
}

const nsXML = "http://www.w3.org/XML/1998/namespace"

// node is an element (Text == nil) or character data.
type node struct {
	Text  *S      `json:"t,omitempty"`
	Space S       `json:"s,omitempty"`
	Local S       `json:"l,omitempty"`
	Attrs []nattr `json:"a,omitempty"`
	Kids  []*node `json:"k,omitempty"`
}

type nattr struct {
	Space S `json:"s,omitempty"`
	Local S `json:"l"`
	Value S `json:"v"`
}

func textNode(s string) *node { t := S(s); return &node{Text: &t} }

func elem(space, local string, attrs []nattr, kids ...*node) *node {
	return &node{Space: S(space), Local: S(local), Attrs: attrs, Kids: kids}
}

// tokensOf flattens a forest into xml tokens (what a payload reader delivers).
func tokensOf(f []*node) []xml.Token {
	var out []xml.Token
	for _, n := range f {
		if n.Text != nil {
			out = append(out, xml.CharData([]byte(*n.Text)))
			continue
		}
		st := xml.StartElement{Name: xml.Name{Space: string(n.Space), Local: string(n.Local)}}
		for _, a := range n.Attrs {
			st.Attr = append(st.Attr, xml.Attr{Name: xml.Name{Space: string(a.Space), Local: string(a.Local)}, Value: string(a.Value)})
		}
		out = append(out, st)
		out = append(out, tokensOf(n.Kids)...)
		out = append(out, st.End())
	}
	return out
}

type sliceReader struct {
	toks []xml.Token
	i    int
}

func (s *sliceReader) Token() (xml.Token, error) {
	if s.i >= len(s.toks) {
		return nil, io.EOF
	}
	t := s.toks[s.i]
	s.i++
	return xml.CopyToken(t), nil
}

func readerOf(f []*node) xml.TokenReader { return &sliceReader{toks: tokensOf(f)} }

// readAll drains a token reader.
func readAll(r xml.TokenReader) ([]xml.Token, error) {
	var out []xml.Token
	idle := 0
	for len(out) < 100000 {
		tok, err := r.Token()
		if tok != nil {
			out = append(out, xml.CopyToken(tok))
			idle = 0
		} else if err == nil {
			if idle++; idle > 8 {
				return out, fmt.Errorf("reader returns (nil, nil) forever")
			}
		}
		if err == io.EOF {
			return out, nil
		}
		if err != nil {
			return out, err
		}
	}
	return out, fmt.Errorf("token flood")
}

// onlyModelTokens reports whether the tokens are start/end/chardata only.
func onlyModelTokens(toks []xml.Token) bool {
	for _, t := range toks {
		switch t.(type) {
		case xml.StartElement, xml.EndElement, xml.CharData:
		default:
			return false
		}
	}
	return true
}

// forestOf builds trees from a token list (independent of the Coq parser).
// ok is false when the tokens are not well bracketed.
func forestOf(toks []xml.Token) (f []*node, ok bool) {
	type frame struct {
		n     *node
		saved []*node
	}
	var stack []frame
	var cur []*node
	for _, t := range toks {
		switch tt := t.(type) {
		case xml.StartElement:
			n := &node{Space: S(tt.Name.Space), Local: S(tt.Name.Local)}
			for _, a := range tt.Attr {
				n.Attrs = append(n.Attrs, nattr{S(a.Name.Space), S(a.Name.Local), S(a.Value)})
			}
			stack = append(stack, frame{n, cur})
			cur = nil
		case xml.EndElement:
			if len(stack) == 0 {
				return nil, false
			}
			top := stack[len(stack)-1]
			stack = stack[:len(stack)-1]
			if string(top.n.Space) != tt.Name.Space || string(top.n.Local) != tt.Name.Local {
				return nil, false
			}
			top.n.Kids = cur
			cur = append(top.saved, top.n)
		case xml.CharData:
			cur = append(cur, textNode(string(tt)))
		default:
			// comments, directives, processing instructions: not part of the model's trees
		}
	}
	if len(stack) != 0 {
		return nil, false
	}
	return cur, true
}

// encodeTokens writes tokens with a fresh xml.Encoder.
func encodeTokens(toks []xml.Token) ([]byte, error) {
	var b bytes.Buffer
	e := xml.NewEncoder(&b)
	for _, t := range toks {
		if err := e.EncodeToken(t); err != nil {
			return b.Bytes(), err
		}
	}
	err := e.Flush()
	return b.Bytes(), err
}

// reparse tokenizes bytes with a strict decoder.
func reparse(b []byte) ([]xml.Token, error) {
	d := xml.NewDecoder(bytes.NewReader(b))
	var out []xml.Token
	for {
		tok, err := d.Token()
		if err == io.EOF {
			return out, nil
		}
		if err != nil {
			return out, err
		}
		out = append(out, xml.CopyToken(tok))
	}
}

func isNameStart(r rune) bool {
	return r == ':' || r == '_' || (r >= 'A' && r <= 'Z') || (r >= 'a' && r <= 'z') || r >= 0xC0
}

func isXMLName(s string) bool {
	if s == "" || !utf8.ValidString(s) {
		return false
	}
	for i, r := range s {
		if isNameStart(r) {
			continue
		}
		if i > 0 && (r == '-' || r == '.' || (r >= '0' && r <= '9') || r == 0xB7) {
			continue
		}
		return false
	}
	return true
}

// wellFormedDoc: the bytes are one well-formed element (strict decoder, one
// root, proper names, no repeated attribute, nothing but the root at top level).
func wellFormedDoc(b []byte) (root *node, why string) {
	toks, err := reparse(b)
	if err != nil {
		return nil, "strict decoder: " + err.Error()
	}
	depth, roots := 0, 0
	for _, t := range toks {
		switch tt := t.(type) {
		case xml.StartElement:
			if depth == 0 {
				roots++
			}
			depth++
			if !isXMLName(tt.Name.Local) {
				return nil, fmt.Sprintf("element name %q", tt.Name.Local)
			}
			seen := map[xml.Name]bool{}
			for _, a := range tt.Attr {
				if seen[a.Name] {
					return nil, fmt.Sprintf("attribute %v repeated", a.Name)
				}
				seen[a.Name] = true
			}
		case xml.EndElement:
			depth--
		case xml.CharData:
			if depth == 0 && len(bytes.TrimSpace(tt)) > 0 {
				return nil, "character data outside the root element"
			}
		}
	}
	if roots != 1 {
		return nil, fmt.Sprintf("%d root elements", roots)
	}
	f, ok := forestOf(toks)
	if !ok {
		return nil, "not well bracketed"
	}
	for _, n := range f {
		if n.Text == nil {
			return n, ""
		}
	}
	return nil, "no root"
}

// isXMLText: valid UTF-8 made of XML Chars only — text the encoder can carry losslessly.
func isXMLText(s string) bool {
	if !utf8.ValidString(s) {
		return false
	}
	for _, r := range s {
		ok := r == 0x9 || r == 0xA || r == 0xD || (r >= 0x20 && r <= 0xD7FF) || (r >= 0xE000 && r <= 0xFFFD) || (r >= 0x10000 && r <= 0x10FFFF)
		if !ok {
			return false
		}
	}
	return true
}

// canonical comparison of trees for the payload-unchanged oracle
func sameForest(a, b []*node) bool {
	if len(a) != len(b) {
		return false
	}
	for i := range a {
		x, y := a[i], b[i]
		if (x.Text == nil) != (y.Text == nil) {
			return false
		}
		if x.Text != nil {
			if *x.Text != *y.Text {
				return false
			}
			continue
		}
		if x.Space != y.Space || x.Local != y.Local || len(x.Attrs) != len(y.Attrs) {
			return false
		}
		for j := range x.Attrs {
			if x.Attrs[j] != y.Attrs[j] {
				return false
			}
		}
		if !sameForest(x.Kids, y.Kids) {
			return false
		}
	}
	return true
}

func attrOf(n *node, space, local string) (string, bool) {
	for _, a := range n.Attrs {
		if string(a.Space) == space && string(a.Local) == local {
			return string(a.Value), true
		}
	}
	return "", false
}

// ---- jid parse table (jid.Parse is an input of the model) ----

func collectJIDStrings(f []*node, into map[string]bool) {
	for _, n := range f {
		if n.Text != nil {
			continue
		}
		for _, a := range n.Attrs {
			switch string(a.Local) {
			case "to", "from", "by":
				into[string(a.Value)] = true
			}
		}
		collectJIDStrings(n.Kids, into)
	}
}

func jidTable(f []*node) string {
	m := map[string]bool{}
	collectJIDStrings(f, m)
	keys := make([]string, 0, len(m))
	for k := range m {
		keys = append(keys, k)
	}
	sort.Strings(keys)
	var parts []string
	for _, k := range keys {
		j, err := jid.Parse(k)
		if err != nil {
			parts = append(parts, "("+cb(k)+", None)")
		} else {
			parts = append(parts, "("+cb(k)+", Some "+cb(j.String())+")")
		}
	}
	return "[" + strings.Join(parts, "; ") + "]"
}

// ---- Coq printers ----

var interned = map[string]string{
	stanza.NSError: "NS_SE", stream.NS: "NS_STREAM", stream.NSError: "NS_STE",
	stanza.NSClient: "NS_CLIENT", stanza.NSServer: "NS_SERVER", nsXML: "NS_XML",
	"iq": "L_iq", "message": "L_message", "presence": "L_presence", "type": "L_type", "to": "L_to",
	"from": "L_from", "id": "L_id", "lang": "L_lang", "by": "L_by", "error": "L_error", "text": "L_text",
	"normal": "L_normal", "get": "L_get", "result": "L_result", "undefined-condition": "L_undefined",
	"see-other-host": "L_soh",
}

// cb renders a byte string as a Coq term.
func cb(s string) string {
	if s == "" {
		return "[]"
	}
	if c, ok := interned[s]; ok {
		return c
	}
	return hx.CoqBytes([]byte(s))
}

func coqName(space, local string) string { return "(Nm " + cb(space) + " " + cb(local) + ")" }

func coqAttrs(as []nattr) string {
	parts := make([]string, len(as))
	for i, a := range as {
		parts[i] = "At " + cb(string(a.Space)) + " " + cb(string(a.Local)) + " " + cb(string(a.Value))
	}
	return "[" + strings.Join(parts, "; ") + "]"
}

func coqXMLAttrs(as []xml.Attr) string {
	parts := make([]string, len(as))
	for i, a := range as {
		parts[i] = "At " + cb(a.Name.Space) + " " + cb(a.Name.Local) + " " + cb(a.Value)
	}
	return "[" + strings.Join(parts, "; ") + "]"
}

func coqTree(n *node) string {
	if n.Text != nil {
		return "Text " + cb(string(*n.Text))
	}
	return "Elem " + coqName(string(n.Space), string(n.Local)) + " " + coqAttrs(n.Attrs) + " " + coqForest(n.Kids)
}

func coqForest(f []*node) string {
	parts := make([]string, len(f))
	for i, n := range f {
		parts[i] = coqTree(n)
	}
	return "[" + strings.Join(parts, "; ") + "]"
}

func coqTokens(toks []xml.Token) string {
	parts := make([]string, 0, len(toks))
	for _, t := range toks {
		switch tt := t.(type) {
		case xml.StartElement:
			parts = append(parts, "TStart "+coqName(tt.Name.Space, tt.Name.Local)+" "+coqXMLAttrs(tt.Attr))
		case xml.EndElement:
			parts = append(parts, "TEnd "+coqName(tt.Name.Space, tt.Name.Local))
		case xml.CharData:
			parts = append(parts, "TText "+cb(string(tt)))
		}
	}
	return "[" + strings.Join(parts, "; ") + "]"
}

func coqPairs(ps [][2]string) string {
	parts := make([]string, len(ps))
	for i, p := range ps {
		parts[i] = "(" + cb(p[0]) + ", " + cb(p[1]) + ")"
	}
	return "[" + strings.Join(parts, "; ") + "]"
}
