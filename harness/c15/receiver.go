package main

// receiver.go — scripted events against one handler: open requests in both
// directions, data packets (valid and bad) on both carriers, reads, buffer
// limits, close requests. Observed: every reply and every byte read.

import (
	"bytes"
	"encoding/base64"
	"fmt"
	"io"
	"strconv"
	"strings"

	"mellium.im/xmpp/ibb"
	"verifharness/hx"
)

type evJ struct {
	Op        string `json:"op"` // openl | openr | data | read | setmax | write | closer | closel
	SID       string `json:"sid"`
	BS        int    `json:"bs,omitempty"`
	Accept    bool   `json:"accept,omitempty"`    // openl: the peer answers with a result; write: the peer acknowledges the data packet
	ErrCond   string `json:"errcond,omitempty"`   // openl: the refusal
	NoErrElem bool   `json:"noerrelem,omitempty"` // openl: error reply without an <error/> child
	Listening bool   `json:"listening,omitempty"` // openr: addressed to the listener
	Stanza    string `json:"stanza,omitempty"`    // openr: stanza attribute
	BSText    string `json:"bstext,omitempty"`    // openr: malformed block-size attribute (not modelled; oracle only)
	IQ        bool   `json:"iq,omitempty"`        // data: carrier
	Seq       string `json:"seq,omitempty"`       // data: text of the seq attribute
	Data      string `json:"data,omitempty"`      // data: hex of the character data
	Raw       bool   `json:"raw,omitempty"`       // data: malformed attributes (not modelled; oracle only)
	NoSeq     bool   `json:"noseq,omitempty"`     // data: seq attribute absent
	N         int    `json:"n,omitempty"`         // read: buffer size
	Max       int    `json:"max,omitempty"`       // setmax
	H         int    `json:"h,omitempty"`         // read | setmax | write | closel: which connection (1-based order of creation in this script); 0: the latest one created under SID
	Reopen    bool   `json:"reopen,omitempty"`    // closel: while Close waits for the peer's answer the peer opens a new stream under the same sid
}

type recvCase struct {
	Events []evJ `json:"events"`
}

// ---- reference semantics (the property, stated independently of the model) ----

type refConn struct {
	bs     int
	seq    int
	buf    []byte
	max    int
	open   bool // accepted and not closed
	exists bool // the application holds a connection
	iq     bool // data packets travel in iqs (and can be refused)
	werr   bool // a packet of the local writer was refused: the error sticks
	gen    int  // how many streams were created under this sid before this one
}

// hnd is one connection the application holds: session identifiers may be
// reused, so application calls go by handle, packets go by sid (ref.conns maps
// a sid to the newest stream created under it).
type hnd struct {
	conn *ibb.Conn
	rc   *refConn
	sid  string
}

type refHandler struct{ conns map[string]*refConn }

func (h *refHandler) get(sid string) *refConn {
	c := h.conns[sid]
	if c == nil {
		c = &refConn{}
		h.conns[sid] = c
	}
	return c
}

const (
	defUnknown = "item-not-found"
	defSeq     = "unexpected-request"
	defSize    = "resource-constraint"
	defDecode  = "bad-request"
)

// defects returns the refusal conditions that apply to a packet, and those
// that may apply (the size test may use an upper bound of the decoded length).
func (h *refHandler) defects(sid string, seq int, data []byte) (must, may map[string]bool, decoded []byte) {
	must, may = map[string]bool{}, map[string]bool{}
	c := h.conns[sid]
	if c == nil || !c.open {
		must[defUnknown] = true
		return
	}
	if seq != c.seq {
		must[defSeq] = true
	}
	d, err := base64.StdEncoding.DecodeString(string(data))
	if err != nil {
		must[defDecode] = true
	}
	decoded = d
	if c.max > 0 {
		upper := len(data) / 4 * 3
		exact := len(d)
		if err != nil {
			exact = 0
		}
		if len(c.buf)+exact > c.max && err == nil {
			must[defSize] = true
		} else if len(c.buf)+upper > c.max {
			may[defSize] = true
		}
	}
	return
}

func effBS(bs int) int {
	if bs == 0 {
		return ibb.BlockSize
	}
	return bs
}

// ---- execution ----

func coqCond(c string) string {
	switch c {
	case "item-not-found":
		return "ItemNotFound"
	case "unexpected-request":
		return "UnexpectedRequest"
	case "resource-constraint":
		return "ResourceConstraint"
	case "bad-request":
		return "BadRequest"
	case "not-acceptable":
		return "NotAcceptable"
	}
	return ""
}

func coqZ(n int) string { return fmt.Sprintf("(%d)%%Z", n) }

func coqSid(s string) string { return hx.CoqBytes([]byte(s)) }

func (x *runner) runReceiver(c recvCase, origin string) bool {
	k := kase{Kind: "receiver", Receiver: &c}
	r := x.getRig()
	if r == nil {
		return false
	}
	// sids are made unique per run so that one rig can serve many scripts
	prefix := x.sid() + "-"
	ref := &refHandler{conns: map[string]*refConn{}}
	classes := []string{"receiver/origin/" + origin}
	var handles []*hnd
	newHandle := func(conn *ibb.Conn, sid string, rc *refConn) {
		if old := ref.conns[sid]; old != nil && old.exists {
			rc.gen = old.gen + 1
			classes = append(classes, "receiver/sid-reused")
		}
		ref.conns[sid] = rc
		handles = append(handles, &hnd{conn: conn, rc: rc, sid: sid})
	}
	pick := func(e evJ, sid string) *hnd {
		if e.H > 0 {
			if e.H <= len(handles) {
				return handles[e.H-1]
			}
			return nil
		}
		for j := len(handles) - 1; j >= 0; j-- {
			if handles[j].sid == sid {
				return handles[j]
			}
		}
		return nil
	}
	idOf := func(h *hnd) int {
		for j, x := range handles {
			if x == h {
				return j
			}
		}
		return -1
	}
	var evTerms, obsTerms []string
	modelled := true
	accepted, refused, closes := 0, 0, 0
	fail := func(key, what string) { x.res.Fail(key, what, k) }
	abort := func(key, what string) bool {
		fail(key, what)
		x.dropRig()
		return false
	}

	for i, e := range c.Events {
		sid := prefix + e.SID
		switch e.Op {
		case "openl":
			accept, cond, noErr := e.Accept, e.ErrCond, e.NoErrElem
			r.peer.setAuto(func(w wstanza) string {
				if w.Name == "iq" && w.Child == "open" && w.SID == sid {
					if accept {
						return resultFor(w)
					}
					if noErr {
						return `<iq type="error" id="` + xmlEscape(w.ID) + `" from="` + remoteAddr + `" to="` + localAddr + `"/>`
					}
					return errorFor(w, "cancel", cond)
				}
				return ackAll(w)
			})
			var conn *ibb.Conn
			var err error
			if !hx.WithTimeout(2*watchdog, func() { conn, err = openLocal(r, sid, e.BS, true) }) {
				return abort("C15/open/hang", "OpenIQ does not return although the peer answered")
			}
			r.peer.setAuto(ackAll)
			ok := conn != nil && err == nil
			if ok && !accept {
				fail("C15/open/error-reply-accepted", fmt.Sprintf("event %d: OpenIQ returns a connection and a nil error although the peer answered the open request with an error (%s)", i, cond))
			}
			if !ok && accept {
				fail("C15/open/accepted-but-failed", fmt.Sprintf("event %d: OpenIQ fails although the peer accepted: %v", i, err))
			}
			if conn != nil {
				newHandle(conn, sid, &refConn{bs: effBS(e.BS), max: ibb.MaxBufferSize, open: accept, exists: true, iq: true})
			}
			evTerms = append(evTerms, fmt.Sprintf("EOpenLocal %s %s %s", coqSid(sid), coqN(e.BS), hx.CoqBool(accept)))
			obsTerms = append(obsTerms, "OOpen "+hx.CoqBool(ok))
			classes = append(classes, "receiver/openl/"+map[bool]string{true: "accepted", false: "refused"}[accept])

		case "openr":
			to := r.s.LocalAddr().String()
			if !e.Listening {
				to = "nobody@example.org/z"
			}
			id := r.id("op")
			from := r.peer.logLen()
			st := ""
			if e.Stanza != "" {
				st = ` stanza="` + e.Stanza + `"`
			}
			bsText := strconv.Itoa(e.BS)
			if e.BSText != "" {
				bsText = e.BSText
			}
			r.peer.send(`<iq type="set" id="` + id + `" from="` + remoteAddr + `" to="` + to + `"><open xmlns="` + ibb.NS + `" block-size="` + xmlEscape(bsText) + `" sid="` + sid + `"` + st + `/></iq>`)
			w, ok := r.peer.replyTo(id, from, watchdog)
			if msg, alive := r.alive(); !alive {
				key := "C15/open/serve-aborted"
				if e.BSText != "" {
					key = "C15/open/malformed-attribute:serve-aborted"
				}
				return abort(key, fmt.Sprintf("event %d: the serve loop ends (%s) on an open request", i, msg))
			}
			if !ok {
				return abort("C15/open/request-unanswered", "an open request is not answered")
			}
			if e.BSText != "" {
				modelled = false
				if w.Type == "result" {
					fail("C15/open/malformed-attribute:accepted", fmt.Sprintf("event %d: an open request with block-size=%q is accepted", i, e.BSText))
					select {
					case conn := <-r.accepted:
						newHandle(conn, sid, &refConn{bs: 8, max: ibb.MaxBufferSize, open: true, exists: true, iq: true})
					case <-timeAfter(watchdog):
					}
				}
				continue
			}
			obs := ""
			if w.Type == "result" {
				obs = "OReply RAck"
				select {
				case conn := <-r.accepted:
					newHandle(conn, sid, &refConn{bs: effBS(e.BS), max: ibb.MaxBufferSize, open: true, exists: true, iq: e.Stanza != "message"})
				case <-timeAfter(watchdog):
					return abort("C15/open/accept-missing", "an accepted open request never reaches Accept")
				}
				if !e.Listening {
					fail("C15/open/accepted-without-listener", fmt.Sprintf("event %d: an open request for an address nobody listens on is accepted", i))
				}
			} else {
				if cc := coqCond(w.ErrCond); cc != "" {
					obs = "OReply (RErr " + cc + ")"
				} else {
					obs = "OReply RSilent"
				}
				if e.Listening {
					fail("C15/open/listener-refused", fmt.Sprintf("event %d: an open request addressed to a listener is refused with %s", i, w.ErrCond))
				} else if w.ErrCond != "not-acceptable" {
					fail("C15/open/wrong-refusal", fmt.Sprintf("event %d: open request without listener refused with %q, expected not-acceptable", i, w.ErrCond))
				}
			}
			evTerms = append(evTerms, fmt.Sprintf("EOpenRemote %s %s %s", coqSid(sid), coqN(e.BS), hx.CoqBool(e.Listening)))
			obsTerms = append(obsTerms, obs)
			classes = append(classes, "receiver/openr")

		case "data":
			data := hx.UnHex(e.Data)
			id := r.id("d")
			from := r.peer.logLen()
			seqAttr := e.Seq
			stz := dataStanza(e.IQ, id, sid, seqAttr, string(data))
			if e.NoSeq {
				stz = strings.Replace(stz, ` seq="`+xmlEscape(seqAttr)+`"`, "", 1)
			}
			r.peer.send(stz)
			var w wstanza
			got := false
			if e.IQ {
				w, got = r.peer.replyTo(id, from, watchdog)
			} else {
				if r.sync() {
					for _, l := range r.peer.snapshotFrom(from) {
						if l.Name == "message" && l.ID == id && l.Type == "error" {
							w, got = l, true
						}
					}
				}
			}
			if msg, alive := r.alive(); !alive {
				what := "the serve loop ends (" + msg + ") on a data packet"
				key := "C15/payload/serve-aborted"
				seq, err := strconv.Atoi(e.Seq)
				switch {
				case strings.HasPrefix(msg, "panic"):
					key = "C15/payload/panic"
					if rc := ref.conns[sid]; rc != nil && rc.exists && !rc.open {
						key = "C15/payload/closed-session:panic"
						what = "a data packet for a stream the application has closed panics the serve goroutine: " + msg
					}
				case e.Raw || e.NoSeq || err != nil:
					key = "C15/payload/malformed-attribute:serve-aborted"
				default:
					if must, _, _ := ref.defects(sid, seq, data); must[defDecode] {
						key = "C15/payload/undecodable:serve-aborted"
						what = "an undecodable data packet ends the serve loop instead of being refused with bad-request: " + msg
					}
				}
				return abort(key, fmt.Sprintf("event %d: %s", i, what))
			}
			if e.IQ && !got {
				return abort("C15/payload/unanswered", fmt.Sprintf("event %d: a data iq gets no reply", i))
			}
			cond := ""
			acked := false
			switch {
			case got && w.Type == "error":
				cond = w.ErrCond
			case got && w.Type == "result":
				acked = true
			}
			seq, serr := strconv.Atoi(e.Seq)
			if e.Raw || e.NoSeq || serr != nil || seq < 0 || seq > 65535 {
				// malformed attributes: not modelled; the packet must be refused and change nothing
				modelled = false
				if acked || (!e.IQ && cond == "") {
					if !(e.NoSeq && okAsSeqZero(ref, sid, data)) {
						fail("C15/payload/malformed-attribute:accepted", fmt.Sprintf("event %d: a data packet with seq=%q is not refused", i, e.Seq))
					}
				}
				refused++
				continue
			}
			must, may, decoded := ref.defects(sid, seq, data)
			clean := len(must) == 0 && len(may) == 0
			switch {
			case cond == "" && len(must) > 0:
				which := firstKey(must)
				fail("C15/payload/"+which+":not-refused", fmt.Sprintf("event %d: a packet that must be refused with %s is accepted", i, which))
			case cond != "" && clean && cond == "item-not-found" && ref.conns[sid] != nil && ref.conns[sid].gen > 0:
				fail("C15/reuse/live-stream-unregistered", fmt.Sprintf("event %d: a valid packet for the live stream %q (the %d. stream under this session id) is refused with item-not-found: closing an older connection with the same session id has removed the new stream from the handler", i, e.SID, ref.conns[sid].gen+1))
			case cond != "" && clean:
				fail("C15/payload/good-packet-refused", fmt.Sprintf("event %d: a valid in-sequence packet is refused with %s", i, cond))
			case cond != "" && !must[cond] && !may[cond]:
				fail("C15/payload/wrong-condition", fmt.Sprintf("event %d: refused with %s, applicable: %v", i, cond, keys(must, may)))
			}
			if cond == "" {
				rc := ref.conns[sid]
				if len(must) == 0 && rc != nil {
					rc.buf = append(rc.buf, decoded...)
					rc.seq = (rc.seq + 1) % 65536
				}
				accepted++
			} else {
				refused++
			}
			obs := "OReply RSilent"
			if acked {
				obs = "OReply RAck"
			} else if cond != "" {
				if cc := coqCond(cond); cc != "" {
					obs = "OReply (RErr " + cc + ")"
				} else {
					obs = "ONone"
				}
			}
			evTerms = append(evTerms, fmt.Sprintf("EData %s %s %s %s", hx.CoqBool(e.IQ), coqSid(sid), coqN(seq), hx.CoqBytes(data)))
			obsTerms = append(obsTerms, obs)
			cl := "ok"
			if len(must) > 0 {
				cl = firstKey(must)
			} else if len(may) > 0 {
				cl = "size-borderline"
			}
			classes = append(classes, "receiver/data/"+cl)

		case "read":
			hd := pick(e, sid)
			if hd == nil || hd.conn == nil || e.N <= 0 {
				continue
			}
			conn, rc := hd.conn, hd.rc
			if len(rc.buf) == 0 && rc.open {
				continue // would block by the reference semantics: not issued
			}
			buf := make([]byte, e.N)
			var n int
			var err error
			if !hx.WithTimeout(watchdog, func() { n, err = conn.Read(buf) }) {
				key, what := "C15/read/blocked-with-data", "Read blocks although delivered bytes are buffered"
				if len(rc.buf) == 0 {
					key, what = "C15/read/no-eof-after-close", "Read blocks on a closed, drained stream instead of returning end-of-file"
				}
				return abort(key, fmt.Sprintf("event %d: %s", i, what))
			}
			eof := err == io.EOF
			if err != nil && !eof {
				fail("C15/read/error", fmt.Sprintf("event %d: Read fails: %v", i, err))
			}
			want := rc.buf
			if len(want) > e.N {
				want = want[:e.N]
			}
			switch {
			case len(rc.buf) > 0 && (n == 0 || eof):
				fail("C15/read/eof-with-data-buffered", fmt.Sprintf("event %d: Read returns %d, %v although %d delivered bytes are unread", i, n, err, len(rc.buf)))
			case !bytes.Equal(buf[:n], want[:min(n, len(want))]) || n > len(want):
				fail("C15/read/bytes-differ:refused-packet-disturbs-stream", fmt.Sprintf("event %d: Read returns % x, the accepted packets carry % x next", i, clip(buf[:n]), clip(want)))
			case len(rc.buf) == 0 && !eof:
				fail("C15/read/no-eof-after-close", fmt.Sprintf("event %d: Read on a closed, drained stream returns %d, %v", i, n, err))
			}
			if n <= len(rc.buf) {
				rc.buf = rc.buf[n:]
			} else {
				rc.buf = nil
			}
			evTerms = append(evTerms, fmt.Sprintf("ERead %s %s", hx.CoqNat(idOf(hd)), coqBigNat(e.N)))
			obsTerms = append(obsTerms, fmt.Sprintf("ORead %s %s", hx.CoqBytes(buf[:n]), hx.CoqBool(eof)))
			classes = append(classes, "receiver/read")

		case "setmax":
			hd := pick(e, sid)
			if hd == nil || hd.conn == nil {
				continue
			}
			conn, rc := hd.conn, hd.rc
			conn.SetReadBuffer(e.Max)
			rc.max = e.Max
			if e.Max > 0 && e.Max < rc.bs {
				rc.max = rc.bs
			}
			evTerms = append(evTerms, fmt.Sprintf("ESetMax %s %s", hx.CoqNat(idOf(hd)), coqZ(e.Max)))
			obsTerms = append(obsTerms, "ONone")
			classes = append(classes, "receiver/setmax")

		case "write":
			hd := pick(e, sid)
			if hd == nil || hd.conn == nil {
				continue
			}
			conn, rc := hd.conn, hd.rc
			accept := e.Accept || !rc.iq // a message carrier has no acknowledgements: nothing can be refused
			r.peer.setAuto(func(w wstanza) string {
				if w.Name == "iq" && w.Type == "set" && w.Child == "data" && w.SID == sid && !accept {
					return errorFor(w, "wait", "resource-constraint")
				}
				return ackAll(w)
			})
			var werr, ferr error
			done := hx.WithTimeout(2*watchdog, func() {
				_, werr = conn.Write([]byte("abc"))
				if werr == nil {
					ferr = conn.Flush()
				}
			})
			r.peer.setAuto(ackAll)
			if !done {
				return abort("C15/write/hang", fmt.Sprintf("event %d: Write/Flush does not return although the peer answers every packet", i))
			}
			ok := werr == nil && ferr == nil
			want := rc.open && !rc.werr && accept
			switch {
			case ok && !want && !rc.open:
				fail("C15/write/after-close-succeeded", fmt.Sprintf("event %d: Write on a closed stream succeeds", i))
			case ok && !want:
				fail("C15/write/refused-but-succeeded", fmt.Sprintf("event %d: Write and Flush return nil although the peer refused the data packet (now or earlier)", i))
			case !ok && want:
				fail("C15/write/error", fmt.Sprintf("event %d: writing to an open stream fails although the peer acknowledges: %v %v", i, werr, ferr))
			}
			if rc.open && !rc.werr && !accept {
				rc.werr = true
			}
			evTerms = append(evTerms, fmt.Sprintf("EWrite %s %s", hx.CoqNat(idOf(hd)), hx.CoqBool(accept)))
			obsTerms = append(obsTerms, "OWrite "+hx.CoqBool(ok))
			classes = append(classes, "receiver/write/"+map[bool]string{true: "acked", false: "refused"}[accept])

		case "closer":
			id := r.id("cl")
			from := r.peer.logLen()
			r.peer.send(`<iq type="set" id="` + id + `" from="` + remoteAddr + `" to="` + localAddr + `"><close xmlns="` + ibb.NS + `" sid="` + sid + `"/></iq>`)
			w, ok := r.peer.replyTo(id, from, watchdog)
			if msg, alive := r.alive(); !alive || !ok {
				if rc := ref.conns[sid]; rc != nil && rc.open && rc.werr {
					return abort("C15/close/peer-close-unanswered:stale-write-error", fmt.Sprintf("event %d: after a data packet of the local writer was refused, the peer's close request is never answered: the close handler returns the buffered writer's stale error, which makes Serve stop handling stanzas (Serve: %q)", i, msg))
				}
				return abort("C15/close/request-unanswered", fmt.Sprintf("event %d: a close request is not answered", i))
			}
			rc := ref.conns[sid]
			if rc != nil && rc.open && rc.werr {
				classes = append(classes, "receiver/closer/after-refused-write")
			}
			wasOpen := rc != nil && rc.open
			obs := "OReply RAck"
			if w.Type == "error" {
				obs = "OReply (RErr " + coqCond(w.ErrCond) + ")"
				if coqCond(w.ErrCond) == "" {
					obs = "ONone"
				}
			}
			if wasOpen && w.Type != "result" {
				fail("C15/close/open-stream-refused", fmt.Sprintf("event %d: close request for an open stream refused with %s", i, w.ErrCond))
			}
			if !wasOpen && (w.Type != "error" || w.ErrCond != "item-not-found") {
				fail("C15/close/unknown-session-not-refused", fmt.Sprintf("event %d: close request for an unknown or closed stream answered with %s %s", i, w.Type, w.ErrCond))
			}
			if wasOpen {
				rc.open = false
			}
			closes++
			evTerms = append(evTerms, "ECloseRemote "+coqSid(sid))
			obsTerms = append(obsTerms, obs)
			classes = append(classes, "receiver/closer")

		case "closel":
			hd := pick(e, sid)
			if hd == nil || hd.conn == nil {
				continue
			}
			conn, rc := hd.conn, hd.rc
			sid = hd.sid
			redundant := !rc.open
			reopen := e.Reopen && rc.open
			opID := r.id("op")
			logFrom := r.peer.logLen()
			if reopen {
				// the peer answers the close request, but first opens a new stream
				// under the same session id: the handler registers it while Close is
				// still waiting
				st := `<iq type="set" id="` + opID + `" from="` + remoteAddr + `" to="` + r.s.LocalAddr().String() + `"><open xmlns="` + ibb.NS + `" block-size="` + strconv.Itoa(e.BS) + `" sid="` + sid + `"/></iq>`
				csid := sid
				r.peer.setAuto(func(w wstanza) string {
					if w.Name == "iq" && w.Type == "set" && w.Child == "close" && w.SID == csid {
						return st + resultFor(w)
					}
					return ackAll(w)
				})
			} else {
				r.peer.setAuto(ackAll)
			}
			var err error
			if !hx.WithTimeout(2*watchdog, func() { err = conn.Close() }) {
				return abort("C15/close/hang", fmt.Sprintf("event %d: Close does not return although the peer answers", i))
			}
			r.peer.setAuto(ackAll)
			if err != nil && !rc.werr {
				// with a refused packet pending Close may report that error (it is
				// the writer's next call), but it must still close the stream: the
				// events that follow check that
				fail("C15/close/error", fmt.Sprintf("event %d: Close fails: %v", i, err))
			}
			if rc.werr && !redundant {
				classes = append(classes, "receiver/closel/after-refused-write")
				// the peer must have been told
				told := false
				for _, l := range r.peer.snapshotFrom(logFrom) {
					if l.Name == "iq" && l.Child == "close" && l.SID == sid {
						told = true
					}
				}
				if !told {
					fail("C15/close/peer-not-told:stale-write-error", fmt.Sprintf("event %d: Close with a refused data packet pending returns (%v) without sending the close request: the peer keeps the stream open for ever", i, err))
				}
			}
			if redundant {
				classes = append(classes, "receiver/closel/redundant")
				for _, l := range r.peer.snapshotFrom(logFrom) {
					if l.Name == "iq" && l.Child == "close" {
						fail("C15/close/redundant-close-sends-request", fmt.Sprintf("event %d: Close on a connection that is closed already sends a close request for %q", i, l.SID))
					}
				}
			}
			if reopen {
				w, ok := r.peer.replyTo(opID, logFrom, watchdog)
				if !ok || w.Type != "result" {
					return abort("C15/open/listener-refused", fmt.Sprintf("event %d: an open request arriving while Close waits for its answer is not accepted", i))
				}
				select {
				case nc := <-r.accepted:
					newHandle(nc, sid, &refConn{bs: effBS(e.BS), max: ibb.MaxBufferSize, open: true, exists: true, iq: true})
				case <-timeAfter(watchdog):
					return abort("C15/open/accept-missing", "an accepted open request never reaches Accept")
				}
				evTerms = append(evTerms, fmt.Sprintf("EOpenRemote %s %s true", coqSid(sid), coqN(e.BS)))
				obsTerms = append(obsTerms, "OReply RAck")
				classes = append(classes, "receiver/closel/reopen-during-close")
			}
			rc.open = false
			closes++
			evTerms = append(evTerms, "ECloseLocal "+hx.CoqNat(idOf(hd)))
			obsTerms = append(obsTerms, "ONone")
			classes = append(classes, "receiver/closel")
		}
	}
	healthy := r.sync()
	if msg, alive := r.alive(); !alive {
		return abort("C15/serve/aborted", "the serve loop ended: "+msg)
	}
	// leave nothing registered behind on a rig that is reused
	for _, hd := range handles {
		if hd.rc.open && hd.conn != nil {
			conn := hd.conn
			hx.WithTimeout(watchdog, func() { conn.Close() })
		}
	}
	x.res.Count("r|"+fmt.Sprint(c.Events), accepted > 0 && (refused > 0 || closes > 0), classes...)
	x.res.Sample(k)
	_ = modelled
	x.rc.Add("mkrcase ["+strings.Join(evTerms, "; ")+"] ["+strings.Join(obsTerms, "; ")+"]", k)
	return healthy
}

// okAsSeqZero: a missing seq attribute is read as 0; accepting it is not a
// failure when 0 is the expected number of a valid packet.
func okAsSeqZero(ref *refHandler, sid string, data []byte) bool {
	must, _, _ := ref.defects(sid, 0, data)
	return len(must) == 0
}

func firstKey(m map[string]bool) string {
	for _, k := range []string{defUnknown, defSeq, defSize, defDecode} {
		if m[k] {
			return k
		}
	}
	return "?"
}

func keys(ms ...map[string]bool) []string {
	var out []string
	for _, m := range ms {
		for _, k := range []string{defUnknown, defSeq, defSize, defDecode} {
			if m[k] {
				out = append(out, k)
			}
		}
	}
	return out
}

func clip(b []byte) []byte {
	if len(b) > 24 {
		return b[:24]
	}
	return b
}

func min(a, b int) int {
	if a < b {
		return a
	}
	return b
}

// ---- generator: mostly valid scripts, bad packets injected ----

var badChars = []byte{'!', ' ', '-', '_', '=', '\n', '*', '.', '~', '\t'}

func genData(r *hx.Rand, n int) []byte {
	d := []byte(base64.StdEncoding.EncodeToString(genBytes(r, n)))
	// now and then a padded quantum whose unused bits are not zero: StdEncoding
	// (not Strict) accepts it and decodes to the same bytes
	if l := len(d); l >= 4 && d[l-1] == '=' && r.Chance(1, 6) {
		const alphabet = "ABCDEFGHIJKLMNOPQRSTUVWXYZabcdefghijklmnopqrstuvwxyz0123456789+/"
		i := l - 2
		mask := 3 // two unused bits before one pad
		if d[l-2] == '=' {
			i, mask = l-3, 15
		}
		v := strings.IndexByte(alphabet, d[i])
		if v >= 0 {
			d[i] = alphabet[v|(1+r.Intn(mask))]
		}
	}
	return d
}

// corrupt turns valid base64 text into something one of the usual ways.
func corrupt(r *hx.Rand, d []byte) []byte {
	d = append([]byte(nil), d...)
	switch r.Intn(8) {
	case 0: // truncated quantum
		if len(d) > 1 {
			return d[:len(d)-1-r.Intn(min(3, len(d)-1))]
		}
		return []byte("Q")
	case 1: // bad character somewhere
		if len(d) == 0 {
			return []byte("!!!!")
		}
		d[r.Intn(len(d))] = badChars[r.Intn(4)]
		return d
	case 2: // bad character in the last quantum, after a long valid prefix
		if len(d) < 8 {
			return []byte("QUJD*A==")
		}
		d[len(d)-4+r.Intn(2)] = '*'
		return d
	case 3: // padding in the middle
		if len(d) < 8 {
			return []byte("QQ==QUJD")
		}
		q := 4 * r.Intn(len(d)/4-1)
		d[q+2], d[q+3] = '=', '='
		return d
	case 4: // data after the padding
		return append(d, []byte("QQ==QUJD")...)
	case 5: // extra character
		return append(d, 'A')
	case 6: // only padding
		return []byte("====")
	}
	// url-safe alphabet
	return []byte("-_-_")
}

func genReceiver(r *hx.Rand) recvCase {
	ref := &refHandler{conns: map[string]*refConn{}}
	var ev []evJ
	nstreams := 1 + r.Intn(2)
	var sids []string
	for s := 0; s < nstreams; s++ {
		sid := fmt.Sprintf("%c", 'a'+s)
		sids = append(sids, sid)
		bs := []int{0, 1, 4, 5, 16, 64, 300, 4096}[r.Intn(8)]
		if r.Bool() {
			ev = append(ev, evJ{Op: "openl", SID: sid, BS: bs, Accept: true})
		} else {
			ev = append(ev, evJ{Op: "openr", SID: sid, BS: bs, Listening: true, Stanza: []string{"", "iq", "message"}[r.Intn(3)]})
		}
		*ref.get(sid) = refConn{bs: effBS(bs), max: ibb.MaxBufferSize, open: true, exists: true}
	}
	if r.Chance(1, 3) { // a refused open: the stream must stay unknown
		cond := []string{"not-acceptable", "service-unavailable", "resource-constraint", "forbidden"}[r.Intn(4)]
		ev = append(ev, evJ{Op: "openl", SID: "x", BS: 8, Accept: false, ErrCond: cond, NoErrElem: r.Chance(1, 5)})
		sids = append(sids, "x")
	}
	if r.Chance(1, 4) {
		ev = append(ev, evJ{Op: "openr", SID: "y", BS: 8, Listening: false})
		sids = append(sids, "y")
	}
	if r.Chance(1, 3) {
		seq0 := 0
		_ = seq0
	}
	steps := 4 + r.Intn(14)
	for i := 0; i < steps; i++ {
		sid := sids[r.Intn(len(sids))]
		rc := ref.conns[sid]
		live := rc != nil && rc.open
		switch p := r.Intn(20); {
		case p < 9: // valid packet (if the stream is live; otherwise it is a packet for an unknown session)
			n := []int{0, 1, 2, 3, 4, 5, 6, 7, 30, 31, 32, 300, 767, 768, 769}[r.Intn(15)]
			d := genData(r, n)
			if r.Chance(1, 10) {
				d = append(append(append([]byte(nil), d[:len(d)/2/4*4]...), '\n'), d[len(d)/2/4*4:]...)
			}
			seq := 0
			if live {
				seq = rc.seq
			}
			e := evJ{Op: "data", SID: sid, IQ: r.Chance(2, 3), Seq: strconv.Itoa(seq), Data: hx.Hex(d)}
			ev = append(ev, e)
			if live {
				must, may, dec := ref.defects(sid, seq, d)
				if len(may) > 0 && len(must) == 0 {
					ev = ev[:len(ev)-1] // ambiguous size: not generated
				} else if len(must) == 0 {
					rc.buf = append(rc.buf, dec...)
					rc.seq = (rc.seq + 1) % 65536
				}
			}
		case p < 11: // out of sequence
			seq := r.Intn(65536)
			if live {
				seq = (rc.seq + []int{1, 65535, 2, 65534, 32768}[r.Intn(5)]) % 65536
			}
			ev = append(ev, evJ{Op: "data", SID: sid, IQ: r.Chance(2, 3), Seq: strconv.Itoa(seq), Data: hx.Hex(genData(r, r.Intn(8)))})
		case p >= 11 && p < 14 && r.Chance(1, 3): // two defects at once: the first in the order sequence, size, encoding decides
			if live {
				seq := rc.seq
				d := genData(r, 3+r.Intn(6))
				switch r.Intn(3) {
				case 0: // out of sequence and undecodable
					seq = (rc.seq + 1 + r.Intn(3)) % 65536
					d = corrupt(r, d)
				case 1: // out of sequence and too large
					seq = (rc.seq + 65535) % 65536
					if rc.max > 0 && rc.max < 3000 {
						d = genData(r, rc.max+4)
					}
				default: // too large and undecodable
					if rc.max > 0 && rc.max < 3000 {
						d = append(genData(r, rc.max+4), '*')
					} else {
						d = corrupt(r, d)
					}
				}
				if _, err := base64.StdEncoding.DecodeString(string(d)); err != nil || seq != rc.seq {
					ev = append(ev, evJ{Op: "data", SID: sid, IQ: r.Chance(2, 3), Seq: strconv.Itoa(seq), Data: hx.Hex(d)})
				}
			}
		case p < 14: // undecodable
			seq := 0
			if live {
				seq = rc.seq
			}
			d := corrupt(r, genData(r, []int{1, 3, 4, 6, 9, 30, 300}[r.Intn(7)]))
			if _, err := base64.StdEncoding.DecodeString(string(d)); err == nil {
				d = []byte("QUJD*")
			}
			ev = append(ev, evJ{Op: "data", SID: sid, IQ: r.Chance(2, 3), Seq: strconv.Itoa(seq), Data: hx.Hex(d)})
		case p < 15: // unknown session
			ev = append(ev, evJ{Op: "data", SID: "nosuch", IQ: r.Chance(2, 3), Seq: strconv.Itoa(r.Intn(3)), Data: hx.Hex(genData(r, r.Intn(8)))})
		case p < 16: // over the buffer limit
			if live {
				max := []int{-1, 0, 1, 5, rc.bs, rc.bs + 7, 40}[r.Intn(7)]
				ev = append(ev, evJ{Op: "setmax", SID: sid, Max: max})
				rc.max = max
				if max > 0 && max < rc.bs {
					rc.max = rc.bs
				}
				if rc.max > 0 {
					n := rc.max - len(rc.buf) + 1 + r.Intn(6)
					if n < 1 {
						n = 1
					}
					if n < 3000 {
						d := genData(r, n)
						must, may, dec := ref.defects(sid, rc.seq, d)
						if !(len(may) > 0 && len(must) == 0) {
							ev = append(ev, evJ{Op: "data", SID: sid, IQ: r.Chance(2, 3), Seq: strconv.Itoa(rc.seq), Data: hx.Hex(d)})
							if len(must) == 0 {
								rc.buf = append(rc.buf, dec...)
								rc.seq = (rc.seq + 1) % 65536
							}
						}
					}
				}
			}
		case p == 16 && r.Chance(1, 2): // the application writes a block; now and then the peer refuses it
			if rc != nil && rc.exists {
				ev = append(ev, evJ{Op: "write", SID: sid, Accept: !r.Chance(2, 5)})
			}
		case p < 18: // read
			if rc != nil && rc.exists && (len(rc.buf) > 0 || !rc.open) {
				n := []int{1, 2, 3, 5, 8, 64, 1000}[r.Intn(7)]
				ev = append(ev, evJ{Op: "read", SID: sid, N: n})
				if n > len(rc.buf) {
					n = len(rc.buf)
				}
				rc.buf = rc.buf[n:]
			}
		case p < 19: // close by the peer
			if r.Chance(1, 2) {
				ev = append(ev, evJ{Op: "closer", SID: sid})
				if live {
					rc.open = false
				}
			}
		default: // close by the application
			if live && r.Chance(1, 2) {
				ev = append(ev, evJ{Op: "closel", SID: sid})
				rc.open = false
			}
		}
	}
	// drain everything, close everything, read the end-of-file
	for _, sid := range sids {
		rc := ref.conns[sid]
		if rc == nil || !rc.exists {
			continue
		}
		if rc.open {
			if r.Bool() {
				ev = append(ev, evJ{Op: "closer", SID: sid})
			} else {
				ev = append(ev, evJ{Op: "closel", SID: sid})
			}
			rc.open = false
		}
		if r.Chance(1, 2) { // a late packet for the closed session
			ev = append(ev, evJ{Op: "data", SID: sid, IQ: r.Chance(2, 3), Seq: strconv.Itoa(rc.seq), Data: hx.Hex(genData(r, 3))})
		}
		for len(rc.buf) > 0 {
			n := 1 + r.Intn(2*len(rc.buf))
			ev = append(ev, evJ{Op: "read", SID: sid, N: n})
			if n > len(rc.buf) {
				n = len(rc.buf)
			}
			rc.buf = rc.buf[n:]
		}
		ev = append(ev, evJ{Op: "read", SID: sid, N: 4})
	}
	return recvCase{Events: ev}
}

// genReuse generates histories in which one session identifier is used for
// several streams one after the other (and now and then at the same time):
// open(x), transfer, close, open(x) again, redundant Close calls on the old
// connections at every later point, transfer on the new one.
func genReuse(r *hx.Rand) recvCase {
	var ev []evJ
	sid := "x"
	nh, seq := 0, 0
	isOpen := false
	openNew := func() {
		bs := []int{0, 1, 4, 8, 64}[r.Intn(5)]
		if r.Bool() {
			ev = append(ev, evJ{Op: "openl", SID: sid, BS: bs, Accept: true})
		} else {
			ev = append(ev, evJ{Op: "openr", SID: sid, BS: bs, Listening: true, Stanza: []string{"", "iq", "message"}[r.Intn(3)]})
		}
		nh++
		seq, isOpen = 0, true
	}
	redundant := func() {
		for h := 1; h < nh; h++ {
			if r.Chance(1, 2) {
				ev = append(ev, evJ{Op: "closel", SID: sid, H: h})
			}
		}
	}
	packet := func() {
		ev = append(ev, evJ{Op: "data", SID: sid, IQ: r.Chance(2, 3), Seq: strconv.Itoa(seq), Data: hx.Hex(genData(r, 1+r.Intn(6)))})
		if isOpen {
			seq = (seq + 1) % 65536
		}
	}
	gens := 2 + r.Intn(2)
	for g := 0; g < gens; g++ {
		if !isOpen || r.Chance(1, 6) { // now and then a second stream under the sid while the first is still open
			openNew()
		}
		for k := 1 + r.Intn(3); k > 0; k-- {
			redundant()
			packet()
			if r.Bool() {
				ev = append(ev, evJ{Op: "read", SID: sid, H: nh, N: 1 + r.Intn(8)})
			}
			if r.Chance(1, 4) {
				ev = append(ev, evJ{Op: "write", SID: sid, H: nh, Accept: r.Chance(3, 4)})
			}
		}
		if g == gens-1 {
			break
		}
		switch r.Intn(3) {
		case 0:
			ev = append(ev, evJ{Op: "closer", SID: sid})
			isOpen = false
		case 1:
			ev = append(ev, evJ{Op: "closel", SID: sid, H: nh})
			isOpen = false
		default: // the peer reopens the sid while Close is waiting for its answer
			ev = append(ev, evJ{Op: "closel", SID: sid, H: nh, Reopen: true, BS: 8})
			nh++
			seq, isOpen = 0, true
		}
		if r.Chance(1, 3) {
			packet() // a packet between two generations: refused, or the first of the reopened stream
		}
	}
	redundant()
	packet()
	ev = append(ev, evJ{Op: "read", SID: sid, H: nh, N: 64})
	if r.Bool() {
		ev = append(ev, evJ{Op: "closer", SID: sid})
	} else {
		ev = append(ev, evJ{Op: "closel", SID: sid, H: nh})
	}
	isOpen = false
	packet()
	redundant()
	for h := 1; h <= nh; h++ {
		ev = append(ev, evJ{Op: "closel", SID: sid, H: h})
		ev = append(ev, evJ{Op: "read", SID: sid, H: h, N: 1000}, evJ{Op: "read", SID: sid, H: h, N: 4})
	}
	return recvCase{Events: ev}
}
