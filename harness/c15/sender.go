package main

// sender.go — the write side: Conn.Write / Flush / Close against a raw peer
// that acknowledges everything; observed: the data packets on the wire.

import (
	"bytes"
	"context"
	"encoding/base64"
	"fmt"
	"strconv"
	"strings"
	"time"

	"mellium.im/xmpp/ibb"
	"mellium.im/xmpp/jid"
	"mellium.im/xmpp/stanza"
	"verifharness/hx"
)

type opJ struct {
	W string `json:"w,omitempty"` // hex of the bytes written
	F bool   `json:"f,omitempty"` // Flush
}

type senderCase struct {
	BS           int   `json:"bs"` // as passed to OpenIQ (0: default)
	Acked        bool  `json:"acked"`
	Seq0         int   `json:"seq0"`
	Ops          []opJ `json:"ops"`
	Remote       bool  `json:"remote_close"`             // the peer closes instead of the application
	Incoming     bool  `json:"incoming,omitempty"`       // the stream was opened by the peer and accepted
	NoStanzaAttr bool  `json:"no_stanza_attr,omitempty"` // incoming: the open request has no stanza attribute (means iq)
}

type wpkt struct {
	Carrier string
	Seq     string
	SID     string
	Data    string
	To      string
}

// coqList writes a list literal; long lists are written as the concatenation
// of chunks, because Coq elaborates a list literal recursively (a literal of
// 65536 elements overflows its stack).
func coqList(items []string) string {
	const chunk = 1000
	if len(items) <= chunk {
		return "[" + strings.Join(items, "; ") + "]"
	}
	var parts []string
	for i := 0; i < len(items); i += chunk {
		j := i + chunk
		if j > len(items) {
			j = len(items)
		}
		parts = append(parts, "["+strings.Join(items[i:j], "; ")+"]")
	}
	return "(concat [" + strings.Join(parts, "; ") + "])"
}

func coqOps(ops []opJ) string {
	items := make([]string, 0, len(ops))
	for _, o := range ops {
		if o.F {
			items = append(items, "WFlush")
		} else {
			items = append(items, "WWrite "+hx.CoqBytes(hx.UnHex(o.W)))
		}
	}
	return coqList(items)
}

func coqN(n int) string { return fmt.Sprintf("%d%%N", n) }

// coqBigNat writes a nat that may be large without a large nat literal.
func coqBigNat(n int) string {
	if n < 1000 {
		return hx.CoqNat(n)
	}
	return fmt.Sprintf("(N.to_nat %d%%N)", n)
}

func openLocal(r *rig, sid string, bs int, acked bool) (*ibb.Conn, error) {
	ctx, cancel := context.WithTimeout(context.Background(), watchdog)
	defer cancel()
	return r.h.OpenIQ(ctx, stanza.IQ{To: jid.MustParse(remoteAddr)}, r.s, acked, uint16(bs), sid)
}

func dataPackets(log []wstanza, sid string) (pk []wpkt, closeAt int) {
	closeAt = -1
	for _, w := range log {
		if w.Child == "data" && w.SID == sid && (w.Type == "set" || w.Name == "message") {
			pk = append(pk, wpkt{Carrier: w.Name, Seq: w.Seq, SID: w.SID, Data: w.Data, To: w.To})
		}
		if w.Child == "close" && w.SID == sid && closeAt < 0 {
			closeAt = len(pk)
		}
	}
	return pk, closeAt
}

// runSender executes one sender case; it returns false when the rig must be
// replaced (something hung or died).
func (x *runner) runSender(c senderCase, origin string) bool {
	k := kase{Kind: "sender", Sender: &c}
	r := x.getRig()
	if r == nil {
		return false
	}
	sid := x.sid()
	var total []byte
	for _, o := range c.Ops {
		if !o.F {
			total = append(total, hx.UnHex(o.W)...)
		}
	}
	carrier := "message"
	if c.Acked {
		carrier = "iq"
	}
	classes := []string{"sender/" + carrier, "sender/origin/" + origin}
	r.peer.setAuto(ackAll)
	start := r.peer.logLen()
	var conn *ibb.Conn
	var err error
	if c.Incoming {
		id := r.id("op")
		st := ` stanza="` + carrier + `"`
		if c.NoStanzaAttr && c.Acked {
			st = ""
		}
		r.peer.send(`<iq type="set" id="` + id + `" from="` + remoteAddr + `" to="` + r.s.LocalAddr().String() + `"><open xmlns="` + ibb.NS + `" block-size="` + strconv.Itoa(c.BS) + `" sid="` + sid + `"` + st + `/></iq>`)
		w, ok := r.peer.replyTo(id, start, watchdog)
		if !ok || w.Type != "result" {
			x.res.Fail("C15/open/listener-refused", "an open request addressed to a listener is not accepted", k)
			x.dropRig()
			return false
		}
		select {
		case conn = <-r.accepted:
		case <-timeAfter(watchdog):
			x.res.Fail("C15/open/accept-missing", "an accepted open request never reaches Accept", k)
			x.dropRig()
			return false
		}
		classes = append(classes, "sender/incoming")
	} else {
		conn, err = openLocal(r, sid, c.BS, c.Acked)
	}
	if err != nil || conn == nil {
		x.res.Fail("C15/open/accepted-but-failed", fmt.Sprintf("OpenIQ fails although the peer accepted: %v", err), k)
		x.dropRig()
		return false
	}
	if c.Seq0 != 0 {
		conn.VerifSetSeq(uint16(c.Seq0), 0)
	}
	healthy := true
	var opErr string
	okRun := hx.WithTimeout(4*watchdog+time.Duration(len(total)/50)*time.Millisecond, func() {
		p := hx.Catch(func() {
			for i, o := range c.Ops {
				if o.F {
					if err := conn.Flush(); err != nil {
						opErr = fmt.Sprintf("op %d: Flush: %v", i, err)
						return
					}
					continue
				}
				b := hx.UnHex(o.W)
				n, err := conn.Write(b)
				if err != nil || n != len(b) {
					opErr = fmt.Sprintf("op %d: Write(%d bytes) = %d, %v", i, len(b), n, err)
					return
				}
			}
		})
		if p != "" {
			opErr = "panic: " + p
		}
	})
	if !okRun {
		x.res.Fail("C15/write/hang", "Write/Flush does not return although the peer acknowledges every packet", k)
		x.dropRig()
		return false
	}
	if opErr != "" {
		x.res.Fail("C15/write/error", "writing to an open stream fails: "+opErr, k)
		x.dropRig()
		return false
	}
	if !r.sync() {
		healthy = false
	}
	before, _ := dataPackets(r.peer.snapshotFrom(start), sid)
	nBefore := len(before)
	// close
	var closeErr string
	okClose := hx.WithTimeout(4*watchdog, func() {
		if c.Remote {
			id := r.id("cl")
			from := r.peer.logLen()
			r.peer.send(`<iq type="set" id="` + id + `" from="` + remoteAddr + `" to="` + localAddr + `"><close xmlns="` + ibb.NS + `" sid="` + sid + `"/></iq>`)
			w, ok := r.peer.replyTo(id, from, 3*watchdog)
			if !ok {
				closeErr = "no reply to the close request"
			} else if w.Type != "result" {
				closeErr = "close request refused: " + w.ErrCond
			}
		} else {
			if err := conn.Close(); err != nil {
				closeErr = err.Error()
			}
		}
	})
	if !okClose {
		x.res.Fail("C15/close/hang", "Close does not return although the peer answers", k)
		x.dropRig()
		return false
	}
	if closeErr != "" {
		x.res.Fail("C15/close/error", "closing fails: "+closeErr, k)
		x.dropRig()
		return false
	}
	if !r.sync() {
		healthy = false
	}
	if msg, alive := r.alive(); !alive {
		x.res.Fail("C15/serve/aborted", "the serve loop ended during a plain transfer: "+msg, k)
		x.dropRig()
		return false
	}
	log := r.peer.snapshotFrom(start)
	pk, closeAt := dataPackets(log, sid)

	// ---- implementation oracle (independent of the Coq model) ----
	nontrivial := len(pk) >= 2
	var got []byte
	bad := false
	for i, p := range pk {
		want := strconv.Itoa((c.Seq0 + i) % 65536)
		if p.Seq != want {
			x.res.Fail("C15/send/seq-not-consecutive", fmt.Sprintf("packet %d carries seq %s, expected %s", i, p.Seq, want), k)
			bad = true
			break
		}
		if p.Carrier != carrier {
			x.res.Fail("C15/send/wrong-carrier", fmt.Sprintf("packet %d is carried by <%s/>, negotiated %s", i, p.Carrier, carrier), k)
			bad = true
			break
		}
		if p.To != remoteAddr {
			x.res.Fail("C15/send/wrong-addressee", fmt.Sprintf("packet %d is addressed to %q, the peer of the stream is %s", i, p.To, remoteAddr), k)
			bad = true
			break
		}
		d, err := base64.StdEncoding.DecodeString(p.Data)
		if err != nil {
			x.res.Fail("C15/send/packet-not-decodable", fmt.Sprintf("packet %d does not decode on its own: %v", i, err), k)
			bad = true
			break
		}
		got = append(got, d...)
	}
	if !bad && !bytes.Equal(got, total) {
		x.res.Fail("C15/send/bytes-differ", fmt.Sprintf("the packets carry %d bytes, %d were written (first difference at %d)", len(got), len(total), firstDiff(got, total)), k)
	}
	if !c.Remote && closeAt >= 0 && closeAt != len(pk) {
		x.res.Fail("C15/send/data-after-close", "a data packet follows the close request", k)
	}
	if (c.Seq0+len(pk)) > 65536 && len(pk) > 0 {
		classes = append(classes, "sender/wraps-65536")
	}
	classes = append(classes, fmt.Sprintf("sender/packets/%s", bucket(len(pk))), fmt.Sprintf("sender/bytes/%s", bucket(len(total))))
	x.res.Count(fmt.Sprintf("s|%d|%v|%d|%v|%v|%v", c.BS, c.Acked, c.Seq0, c.Remote, c.Incoming, c.Ops), nontrivial, classes...)
	x.res.Sample(k)

	// ---- correspondence case ----
	var pkTerms []string
	okNum := true
	for _, p := range pk {
		n, err := strconv.Atoi(p.Seq)
		if err != nil || n < 0 {
			okNum = false
			break
		}
		pkTerms = append(pkTerms, "mkpkt "+coqN(n)+" "+hx.CoqBytes([]byte(p.Data)))
	}
	if okNum {
		x.sc.Add(fmt.Sprintf("mkscase %s %s %s %s %s", coqN(c.BS), coqN(c.Seq0), coqOps(c.Ops), coqList(pkTerms), coqBigNat(nBefore)), k)
	}
	return healthy
}

func firstDiff(a, b []byte) int {
	for i := 0; i < len(a) && i < len(b); i++ {
		if a[i] != b[i] {
			return i
		}
	}
	if len(a) < len(b) {
		return len(a)
	}
	return len(b)
}

func bucket(n int) string {
	switch {
	case n == 0:
		return "0"
	case n == 1:
		return "1"
	case n < 10:
		return "2-9"
	case n < 100:
		return "10-99"
	case n < 1000:
		return "100-999"
	case n < 10000:
		return "1k-10k"
	case n < 65536:
		return "10k-64k"
	}
	return ">=65536"
}

// ---- generators ----

func genBytes(r *hx.Rand, n int) []byte {
	b := make([]byte, n)
	mode := r.Intn(4)
	for i := range b {
		switch mode {
		case 0:
			b[i] = byte(r.Intn(256))
		case 1:
			b[i] = byte('a' + r.Intn(26))
		case 2:
			b[i] = []byte{0x00, 0xff, 0xfb, 0xef, 0xbe, '<', '&', '=', '\n', '\r'}[r.Intn(10)]
		default:
			b[i] = byte(i)
		}
	}
	return b
}

func genBS(r *hx.Rand) int {
	switch r.Intn(10) {
	case 0:
		return 0 // default 2048
	case 1, 2, 3:
		return 1 + r.Intn(8)
	case 4, 5:
		return 9 + r.Intn(24)
	case 6:
		return []int{766, 767, 768, 769, 770, 1024, 1535, 1536, 1537}[r.Intn(9)]
	case 7:
		return 100 + r.Intn(1000)
	case 8:
		return []int{2047, 2048, 2049, 4096, 65535}[r.Intn(5)]
	}
	return 1 + r.Intn(64)
}

// genLen picks a write length near the boundaries that matter: the block size,
// 3-byte groups and the encoder's 768-byte slices.
func genLen(r *hx.Rand, bs int, max int) int {
	if bs == 0 {
		bs = 2048
	}
	var n int
	switch r.Intn(12) {
	case 0:
		n = 0
	case 1, 2:
		n = 1 + r.Intn(4)
	case 3, 4:
		n = bs - 2 + r.Intn(5)
	case 5:
		n = 2*bs - 2 + r.Intn(5)
	case 6:
		n = 766 + r.Intn(5)
	case 7:
		n = 1534 + r.Intn(5)
	case 8:
		n = 3*r.Intn(20) + r.Intn(2)
	case 9:
		n = r.Intn(3 * bs)
	default:
		n = r.Intn(40)
	}
	if n < 0 {
		n = 0
	}
	if n > max {
		n = max
	}
	return n
}

func genOps(r *hx.Rand, bs int, budget int) []opJ {
	var ops []opJ
	nops := 1 + r.Intn(8)
	if r.Chance(1, 6) {
		nops = 8 + r.Intn(24)
	}
	for i := 0; i < nops && budget > 0; i++ {
		if r.Chance(1, 4) {
			ops = append(ops, opJ{F: true})
			continue
		}
		n := genLen(r, bs, budget)
		budget -= n
		ops = append(ops, opJ{W: hx.Hex(genBytes(r, n))})
	}
	return ops
}

func genSender(r *hx.Rand, budget int) senderCase {
	bs := genBS(r)
	c := senderCase{BS: bs, Acked: r.Chance(3, 5), Remote: r.Chance(1, 4), Incoming: r.Chance(1, 4), NoStanzaAttr: r.Chance(1, 3)}
	if r.Chance(1, 3) {
		c.Seq0 = 65536 - 1 - r.Intn(6)
	} else if r.Chance(1, 8) {
		c.Seq0 = r.Intn(65536)
	}
	c.Ops = genOps(r, bs, budget)
	return c
}
