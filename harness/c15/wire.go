package main

// wire.go — a served xmpp.Session with an ibb.Handler on one end of an
// in-memory connection and a raw, scripted XMPP peer on the other end.

import (
	"encoding/xml"
	"fmt"
	"io"
	"net"
	"strings"
	"sync"
	"time"

	"mellium.im/xmpp"
	"mellium.im/xmpp/ibb"
	"mellium.im/xmpp/jid"
	"mellium.im/xmpp/mux"
	"mellium.im/xmpp/stanza"
	"mellium.im/xmpp/stream"
	"verifharness/hx"
)

const (
	localAddr  = "a@example.net/x"
	remoteAddr = "b@example.net/y"
	watchdog   = 10 * time.Second
)

// wstanza is one top-level element written by the session, projected.
type wstanza struct {
	Name    string `json:"name"` // iq | message | ...
	Type    string `json:"type,omitempty"`
	ID      string `json:"id,omitempty"`
	To      string `json:"to,omitempty"`
	Child   string `json:"child,omitempty"` // local name of the first non-error child
	ChildNS string `json:"childns,omitempty"`
	Seq     string `json:"seq,omitempty"`
	SID     string `json:"sid,omitempty"`
	BS      string `json:"bs,omitempty"`
	Stanza  string `json:"stanza,omitempty"`
	Data    string `json:"data,omitempty"`
	ErrType string `json:"errtype,omitempty"`
	ErrCond string `json:"errcond,omitempty"`
	End     bool   `json:"end,omitempty"` // </stream:stream> or read error
}

// queue is an unbounded FIFO of byte slices written by one goroutine, so that
// nobody ever blocks while holding up a reader (net.Pipe is synchronous).
type queue struct {
	mu     sync.Mutex
	cond   *sync.Cond
	items  [][]byte
	closed bool
}

func newQueue(w io.Writer) *queue {
	q := &queue{}
	q.cond = sync.NewCond(&q.mu)
	go func() {
		for {
			q.mu.Lock()
			for len(q.items) == 0 && !q.closed {
				q.cond.Wait()
			}
			if len(q.items) == 0 && q.closed {
				q.mu.Unlock()
				return
			}
			b := q.items[0]
			q.items = q.items[1:]
			q.mu.Unlock()
			if _, err := w.Write(b); err != nil {
				return
			}
		}
	}()
	return q
}

func (q *queue) put(b []byte) {
	q.mu.Lock()
	q.items = append(q.items, b)
	q.mu.Unlock()
	q.cond.Signal()
}

func (q *queue) close() {
	q.mu.Lock()
	q.closed = true
	q.mu.Unlock()
	q.cond.Signal()
}

// rawPeer parses what the session writes and sends scripted bytes back.
type rawPeer struct {
	conn net.Conn
	out  *queue

	mu   sync.Mutex
	cond *sync.Cond
	log  []wstanza
	auto func(w wstanza) string // called for every stanza; a non-empty result is sent
	done bool
}

func newRawPeer(conn net.Conn) *rawPeer {
	p := &rawPeer{conn: conn, out: newQueue(conn)}
	p.cond = sync.NewCond(&p.mu)
	go p.parse()
	return p
}

func (p *rawPeer) setAuto(f func(w wstanza) string) {
	p.mu.Lock()
	p.auto = f
	p.mu.Unlock()
}

func (p *rawPeer) send(s string) { p.out.put([]byte(s)) }

func (p *rawPeer) push(w wstanza) {
	p.mu.Lock()
	f := p.auto
	p.mu.Unlock()
	var reply string
	if f != nil && !w.End {
		reply = f(w)
	}
	p.mu.Lock()
	p.log = append(p.log, w)
	if w.End {
		p.done = true
	}
	p.mu.Unlock()
	p.cond.Broadcast()
	if reply != "" {
		p.send(reply)
	}
}

func (p *rawPeer) parse() { parseStream(p.conn, p.push) }

func timeAfter(d time.Duration) <-chan time.Time { return time.After(d) }

// parseStream projects the top-level elements of an XMPP stream (without its
// header) and calls push for each; a final call has End set.
func parseStream(rd io.Reader, push func(wstanza)) {
	hdr := `<stream:stream xmlns="` + stanza.NSClient + `" xmlns:stream="` + stream.NS + `">`
	d := xml.NewDecoder(io.MultiReader(strings.NewReader(hdr), rd))
	if _, err := d.Token(); err != nil {
		push(wstanza{End: true})
		return
	}
	depth := 0
	var cur wstanza
	inErr, inChild := false, false
	var data strings.Builder
	for {
		tok, err := d.Token()
		if err != nil {
			push(wstanza{End: true})
			return
		}
		switch t := tok.(type) {
		case xml.StartElement:
			depth++
			switch depth {
			case 1:
				cur = wstanza{Name: t.Name.Local}
				inErr, inChild = false, false
				data.Reset()
				for _, a := range t.Attr {
					switch a.Name.Local {
					case "type":
						cur.Type = a.Value
					case "id":
						cur.ID = a.Value
					case "to":
						cur.To = a.Value
					}
				}
			case 2:
				if t.Name.Local == "error" {
					inErr = true
					for _, a := range t.Attr {
						if a.Name.Local == "type" {
							cur.ErrType = a.Value
						}
					}
				} else if cur.Child == "" {
					inChild = true
					cur.Child, cur.ChildNS = t.Name.Local, t.Name.Space
					for _, a := range t.Attr {
						switch a.Name.Local {
						case "seq":
							cur.Seq = a.Value
						case "sid":
							cur.SID = a.Value
						case "block-size":
							cur.BS = a.Value
						case "stanza":
							cur.Stanza = a.Value
						}
					}
				}
			case 3:
				if inErr && cur.ErrCond == "" {
					cur.ErrCond = t.Name.Local
				}
			}
		case xml.CharData:
			if depth == 2 && inChild {
				data.Write(t)
			}
		case xml.EndElement:
			if depth == 0 {
				push(wstanza{End: true})
				return
			}
			if depth == 2 {
				if inChild {
					cur.Data = data.String()
				}
				inErr, inChild = false, false
			}
			depth--
			if depth == 0 {
				push(cur)
			}
		}
	}
}

// waitFor waits until pred holds of the log (it is called with the lock held).
func (p *rawPeer) waitFor(d time.Duration, pred func(log []wstanza, done bool) bool) bool {
	deadline := time.Now().Add(d)
	timer := time.AfterFunc(d, func() { p.cond.Broadcast() })
	defer timer.Stop()
	p.mu.Lock()
	defer p.mu.Unlock()
	for {
		if pred(p.log, p.done) {
			return true
		}
		if p.done || !time.Now().Before(deadline) {
			return pred(p.log, p.done)
		}
		p.cond.Wait()
	}
}

func (p *rawPeer) snapshot() []wstanza {
	p.mu.Lock()
	defer p.mu.Unlock()
	return append([]wstanza(nil), p.log...)
}

// snapshotFrom copies the log from index from on (the log of a rig that serves
// thousands of cases is long: never copy all of it per packet).
func (p *rawPeer) snapshotFrom(from int) []wstanza {
	p.mu.Lock()
	defer p.mu.Unlock()
	if from > len(p.log) {
		from = len(p.log)
	}
	return append([]wstanza(nil), p.log[from:]...)
}

func (p *rawPeer) logLen() int {
	p.mu.Lock()
	defer p.mu.Unlock()
	return len(p.log)
}

// replyTo waits for the session's reply with the given id (an iq result/error,
// or — for message carriers — a message of type error with that id).
func (p *rawPeer) replyTo(id string, from int, d time.Duration) (wstanza, bool) {
	var found wstanza
	ok := p.waitFor(d, func(log []wstanza, done bool) bool {
		for i := from; i < len(log); i++ {
			if log[i].ID == id && (log[i].Type == "result" || log[i].Type == "error") {
				found = log[i]
				return true
			}
		}
		return false
	})
	return found, ok
}

// rig is a served session with an IBB handler and its raw peer.
type rig struct {
	s        *xmpp.Session
	h        *ibb.Handler
	ln       *ibb.Listener
	peer     *rawPeer
	sessEnd  net.Conn
	served   chan string
	accepted chan *ibb.Conn
	nextID   int
}

func newRig(listen bool) (*rig, error) {
	a, b := net.Pipe()
	r := &rig{sessEnd: a, served: make(chan string, 1), accepted: make(chan *ibb.Conn, 64)}
	r.peer = newRawPeer(b)
	s, err := hx.NewReadySession(a, stanza.NSClient, 0, jid.MustParse(remoteAddr), jid.MustParse(localAddr)) // (location, origin): LocalAddr() is localAddr
	if err != nil {
		return nil, err
	}
	r.s = s
	r.h = &ibb.Handler{}
	m := mux.New(stanza.NSClient, ibb.Handle(r.h))
	if listen {
		r.ln = r.h.Listen(s)
		go func() {
			for {
				c, err := r.ln.Accept()
				if err != nil {
					return
				}
				r.accepted <- c.(*ibb.Conn)
			}
		}()
	}
	go func() {
		var err error
		p := hx.Catch(func() { err = s.Serve(m) })
		switch {
		case p != "":
			r.served <- "panic: " + p
		case err != nil:
			r.served <- "error: " + err.Error()
		default:
			r.served <- ""
		}
	}()
	return r, nil
}

// alive reports whether the serve loop is still running.
func (r *rig) alive() (string, bool) {
	select {
	case m := <-r.served:
		r.served <- m
		return m, false
	default:
		return "", true
	}
}

func (r *rig) close() {
	if r.ln != nil {
		hx.Catch(func() { r.ln.Close() })
	}
	r.peer.send("</stream:stream>")
	hx.WithTimeout(500*time.Millisecond, func() { r.s.Close() })
	r.sessEnd.Close()
	r.peer.conn.Close()
	r.peer.out.close()
}

func (r *rig) id(prefix string) string {
	r.nextID++
	return fmt.Sprintf("%s%d", prefix, r.nextID)
}

// sync sends a request the multiplexer answers by itself and waits for the
// answer: everything sent before it has been handled by then.
func (r *rig) sync() bool {
	id := r.id("sync")
	from := r.peer.logLen()
	r.peer.send(`<iq type="get" id="` + id + `" from="` + remoteAddr + `" to="` + localAddr + `"><ping xmlns="urn:xmpp:ping"/></iq>`)
	_, ok := r.peer.replyTo(id, from, watchdog)
	return ok
}

func xmlEscape(s string) string {
	var sb strings.Builder
	xml.EscapeText(&sb, []byte(s))
	return sb.String()
}

func dataStanza(iq bool, id, sid string, seq string, data string) string {
	payload := `<data xmlns="` + ibb.NS + `" seq="` + xmlEscape(seq) + `" sid="` + xmlEscape(sid) + `">` + xmlEscape(data) + `</data>`
	if iq {
		return `<iq type="set" id="` + id + `" from="` + remoteAddr + `" to="` + localAddr + `">` + payload + `</iq>`
	}
	return `<message id="` + id + `" from="` + remoteAddr + `" to="` + localAddr + `">` + payload + `</message>`
}

func resultFor(w wstanza) string {
	return `<iq type="result" id="` + xmlEscape(w.ID) + `" from="` + remoteAddr + `" to="` + localAddr + `"/>`
}

func errorFor(w wstanza, typ, cond string) string {
	return `<iq type="error" id="` + xmlEscape(w.ID) + `" from="` + remoteAddr + `" to="` + localAddr + `"><error type="` + typ + `"><` + cond + ` xmlns="urn:ietf:params:xml:ns:xmpp-stanzas"/></error></iq>`
}

// ackAll answers every request of the session with an empty result.
func ackAll(w wstanza) string {
	if w.Name == "iq" && (w.Type == "set" || w.Type == "get") {
		return resultFor(w)
	}
	return ""
}
