package main

// pipe.go — two served sessions back to back (net.Pipe pairs joined by a
// recording relay), an IBB stream between them, both directions at once with
// free-running readers and writers. Oracle: what is read equals what was
// written, then end-of-file; the recorded packets go to the sender
// correspondence as well.

import (
	"bytes"
	"context"
	"encoding/base64"
	"fmt"
	"io"
	"net"
	"runtime"
	"strconv"
	"sync"
	"time"

	"mellium.im/xmpp"
	"mellium.im/xmpp/ibb"
	"mellium.im/xmpp/jid"
	"mellium.im/xmpp/mux"
	"mellium.im/xmpp/stanza"
	"verifharness/hx"
)

func b64(b []byte) string { return base64.StdEncoding.EncodeToString(b) }

type pipeCase struct {
	Seed    uint64 `json:"seed"`
	BS      int    `json:"bs"`
	Acked   bool   `json:"acked"`
	AB      int    `json:"ab"` // bytes written by the opener
	BA      int    `json:"ba"` // bytes written by the acceptor
	CloserA bool   `json:"closer_a"`
	Slow    bool   `json:"slow"`             // readers dawdle
	SeqAB   int    `json:"seq_ab,omitempty"` // first sequence number opener -> acceptor (set on both ends)
	SeqBA   int    `json:"seq_ba,omitempty"` // first sequence number acceptor -> opener
}

// tap copies src to dst through an unbounded queue and records the bytes.
type tap struct {
	mu  sync.Mutex
	rec bytes.Buffer
}

func (t *tap) run(src io.Reader, dst io.Writer) {
	q := newQueue(dst)
	buf := make([]byte, 8192)
	for {
		n, err := src.Read(buf)
		if n > 0 {
			t.mu.Lock()
			t.rec.Write(buf[:n])
			t.mu.Unlock()
			q.put(append([]byte(nil), buf[:n]...))
		}
		if err != nil {
			q.close()
			return
		}
	}
}

func (t *tap) stanzas() []wstanza {
	t.mu.Lock()
	b := append([]byte(nil), t.rec.Bytes()...)
	t.mu.Unlock()
	var out []wstanza
	parseStream(bytes.NewReader(b), func(w wstanza) {
		if !w.End {
			out = append(out, w)
		}
	})
	return out
}

type pair struct {
	sa, sb     *xmpp.Session
	ha, hb     *ibb.Handler
	ln         *ibb.Listener
	ab, ba     *tap
	conns      []net.Conn
	servedA    chan string
	servedB    chan string
	acceptedCh chan *ibb.Conn
}

func serveOn(s *xmpp.Session, h *ibb.Handler, out chan string) {
	m := mux.New(stanza.NSClient, ibb.Handle(h))
	go func() {
		var err error
		p := hx.Catch(func() { err = s.Serve(m) })
		switch {
		case p != "":
			out <- "panic: " + p
		case err != nil:
			out <- "error: " + err.Error()
		default:
			out <- ""
		}
	}()
}

func newPair() (*pair, error) {
	a1, a2 := net.Pipe()
	b1, b2 := net.Pipe()
	p := &pair{ab: &tap{}, ba: &tap{}, conns: []net.Conn{a1, a2, b1, b2},
		servedA: make(chan string, 1), servedB: make(chan string, 1), acceptedCh: make(chan *ibb.Conn, 8)}
	go p.ab.run(a2, b2)
	go p.ba.run(b2, a2)
	var err error
	p.sa, err = hx.NewReadySession(a1, stanza.NSClient, 0, jid.MustParse(remoteAddr), jid.MustParse(localAddr)) // (location, origin): LocalAddr() is localAddr
	if err != nil {
		return nil, err
	}
	p.sb, err = hx.NewReadySession(b1, stanza.NSClient, xmpp.Received, jid.JID{}, jid.JID{})
	if err != nil {
		return nil, err
	}
	p.ha, p.hb = &ibb.Handler{}, &ibb.Handler{}
	p.ln = p.hb.Listen(p.sb)
	go func() {
		for {
			c, err := p.ln.Accept()
			if err != nil {
				return
			}
			p.acceptedCh <- c.(*ibb.Conn)
		}
	}()
	serveOn(p.sa, p.ha, p.servedA)
	serveOn(p.sb, p.hb, p.servedB)
	return p, nil
}

func (p *pair) close() {
	hx.Catch(func() { p.ln.Close() })
	hx.WithTimeout(300*time.Millisecond, func() { p.sa.Close() })
	hx.WithTimeout(300*time.Millisecond, func() { p.sb.Close() })
	for _, c := range p.conns {
		c.Close()
	}
}

func dawdle(r *hx.Rand, slow bool) {
	switch r.Intn(6) {
	case 0:
		runtime.Gosched()
	case 1:
		if slow {
			time.Sleep(time.Duration(r.Intn(300)) * time.Microsecond)
		}
	}
}

// writeAll performs a random partition of payload into Write and Flush calls.
func writeAll(r *hx.Rand, c *ibb.Conn, payload []byte, bs int, slow bool) (ops []opJ, err error) {
	rest := payload
	for len(rest) > 0 {
		n := genLen(r, bs, len(rest))
		if n == 0 && r.Chance(1, 2) {
			n = 1
		}
		m, werr := c.Write(rest[:n])
		if werr != nil || m != n {
			return ops, fmt.Errorf("Write(%d) = %d, %v", n, m, werr)
		}
		ops = append(ops, opJ{W: hx.Hex(rest[:n])})
		rest = rest[n:]
		if r.Chance(1, 5) {
			if ferr := c.Flush(); ferr != nil {
				return ops, fmt.Errorf("Flush: %v", ferr)
			}
			ops = append(ops, opJ{F: true})
		}
		dawdle(r, slow)
	}
	return ops, nil
}

func readAll(r *hx.Rand, c *ibb.Conn, slow bool) (got []byte, err error) {
	for {
		buf := make([]byte, 1+r.Intn(700))
		if r.Chance(1, 4) {
			buf = make([]byte, 1+r.Intn(5))
		}
		n, rerr := c.Read(buf)
		got = append(got, buf[:n]...)
		if rerr == io.EOF {
			return got, nil
		}
		if rerr != nil {
			return got, rerr
		}
		if n == 0 {
			return got, fmt.Errorf("Read returned 0, nil")
		}
		dawdle(r, slow)
	}
}

func (x *runner) runPipe(c pipeCase, origin string) {
	k := kase{Kind: "pipe", Pipe: &c}
	p, err := newPair()
	if err != nil {
		fmt.Println("pipe: cannot build sessions:", err)
		return
	}
	defer p.close()
	r := hx.NewRand(c.Seed)
	sid := "p" + strconv.FormatUint(c.Seed%1000000, 10)
	ctx, cancel := context.WithTimeout(context.Background(), watchdog)
	ca, err := p.ha.OpenIQ(ctx, stanza.IQ{To: jid.MustParse(remoteAddr)}, p.sa, c.Acked, uint16(c.BS), sid)
	cancel()
	if err != nil || ca == nil {
		x.res.Fail("C15/open/accepted-but-failed", fmt.Sprintf("OpenIQ to a listening peer fails: %v", err), k)
		return
	}
	var cb *ibb.Conn
	select {
	case cb = <-p.acceptedCh:
	case <-time.After(watchdog):
		x.res.Fail("C15/open/accept-missing", "the accepted stream never reaches Accept", k)
		return
	}
	if c.SeqAB != 0 || c.SeqBA != 0 {
		// both ends agree on where the numbering stands: the wrap-around at 65536
		// is reached by writer and reader without 65536 packets
		ca.VerifSetSeq(uint16(c.SeqAB), uint16(c.SeqBA))
		cb.VerifSetSeq(uint16(c.SeqBA), uint16(c.SeqAB))
	}
	payAB, payBA := genBytes(r, c.AB), genBytes(r, c.BA)
	var opsA, opsB []opJ
	var gotA, gotB []byte
	var errWA, errWB, errRA, errRB error
	rwa, rwb, rra, rrb := r.Fork(), r.Fork(), r.Fork(), r.Fork()
	var writers, readers sync.WaitGroup
	writers.Add(2)
	readers.Add(2)
	go func() { defer writers.Done(); opsA, errWA = writeAll(rwa, ca, payAB, c.BS, c.Slow) }()
	go func() { defer writers.Done(); opsB, errWB = writeAll(rwb, cb, payBA, c.BS, c.Slow) }()
	go func() { defer readers.Done(); gotA, errRA = readAll(rra, ca, c.Slow) }()
	go func() { defer readers.Done(); gotB, errRB = readAll(rrb, cb, c.Slow) }()
	budget := 5*watchdog + time.Duration((c.AB+c.BA)/20)*time.Millisecond
	if !hx.WithTimeout(budget, writers.Wait) {
		x.res.Fail("C15/pipe/writer-hang", "a writer does not finish although the peer reads", k)
		return
	}
	if errWA != nil || errWB != nil {
		x.res.Fail("C15/pipe/write-error", fmt.Sprintf("writing fails: opener %v, acceptor %v", errWA, errWB), k)
		return
	}
	closer, other := ca, cb
	if !c.CloserA {
		closer, other = cb, ca
	}
	var cerr error
	if !hx.WithTimeout(2*watchdog, func() { cerr = closer.Close() }) {
		x.res.Fail("C15/close/hang", "Close does not return on a served pair", k)
		return
	}
	if cerr != nil {
		x.res.Fail("C15/close/error", "Close fails: "+cerr.Error(), k)
	}
	if !hx.WithTimeout(budget, readers.Wait) {
		x.res.Fail("C15/pipe/reader-hang", "a reader does not reach end-of-file after the stream was closed", k)
		return
	}
	hx.WithTimeout(watchdog, func() { other.Close() })
	for _, s := range []chan string{p.servedA, p.servedB} {
		select {
		case m := <-s:
			x.res.Fail("C15/serve/aborted", "a serve loop ended during a transfer: "+m, k)
			return
		default:
		}
	}
	if errRA != nil || errRB != nil {
		x.res.Fail("C15/pipe/read-error", fmt.Sprintf("reading fails: opener %v, acceptor %v", errRA, errRB), k)
	}
	if !bytes.Equal(gotB, payAB) {
		x.res.Fail("C15/pipe/bytes-differ", fmt.Sprintf("opener wrote %d bytes, acceptor read %d (first difference at %d)", len(payAB), len(gotB), firstDiff(gotB, payAB)), k)
	}
	if !bytes.Equal(gotA, payBA) {
		x.res.Fail("C15/pipe/bytes-differ", fmt.Sprintf("acceptor wrote %d bytes, opener read %d (first difference at %d)", len(payBA), len(gotA), firstDiff(gotA, payBA)), k)
	}
	x.res.Count(fmt.Sprintf("p|%+v", c), c.AB >= effBS(c.BS) && c.BA >= effBS(c.BS), "pipe/origin/"+origin,
		"pipe/carrier/"+map[bool]string{true: "iq", false: "message"}[c.Acked], "pipe/bytes/"+bucket(c.AB+c.BA))
	x.res.Sample(k)

	// the recorded packets, per direction: oracle and correspondence
	carrier := "message"
	if c.Acked {
		carrier = "iq"
	}
	for _, d := range []struct {
		name string
		log  []wstanza
		ops  []opJ
		seq0 int
	}{{"opener", p.ab.stanzas(), opsA, c.SeqAB}, {"acceptor", p.ba.stanzas(), opsB, c.SeqBA}} {
		pk, _ := dataPackets(d.log, sid)
		var terms []string
		for i, q := range pk {
			if q.Seq != strconv.Itoa((d.seq0+i)%65536) {
				x.res.Fail("C15/send/seq-not-consecutive", fmt.Sprintf("%s: packet %d carries seq %s", d.name, i, q.Seq), k)
				break
			}
			if q.Carrier != carrier {
				x.res.Fail("C15/send/wrong-carrier", fmt.Sprintf("%s: packet %d is carried by <%s/>, negotiated %s", d.name, i, q.Carrier, carrier), k)
				break
			}
			terms = append(terms, "mkpkt "+coqN((d.seq0+i)%65536)+" "+hx.CoqBytes([]byte(q.Data)))
		}
		if len(terms) == len(pk) {
			sk := kase{Kind: "pipe", Pipe: &c}
			x.pc.Add(fmt.Sprintf("mkscase %s %s %s %s 0%%nat", coqN(c.BS), coqN(d.seq0), coqOps(d.ops), coqList(terms)), sk)
		}
	}
}

func genPipe(r *hx.Rand, maxBytes int) pipeCase {
	c := pipeCase{Seed: r.Uint64(), BS: genBS(r), Acked: r.Chance(3, 5), CloserA: r.Bool(), Slow: r.Chance(1, 3)}
	if c.BS == 65535 {
		c.BS = 4096
	}
	size := func() int {
		switch r.Intn(5) {
		case 0:
			return r.Intn(10)
		case 1:
			return effBS(c.BS)*(1+r.Intn(4)) + r.Intn(3) - 1
		default:
			return r.Intn(maxBytes)
		}
	}
	c.AB, c.BA = size(), size()
	if r.Chance(1, 2) {
		c.SeqAB = 65536 - 1 - r.Intn(4)
	}
	if r.Chance(1, 2) {
		c.SeqBA = 65536 - 1 - r.Intn(4)
	}
	if c.AB > maxBytes {
		c.AB = maxBytes
	}
	if c.BA > maxBytes {
		c.BA = maxBytes
	}
	return c
}
