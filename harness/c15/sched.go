package main

// sched.go — forced schedules of Conn.Read against handlePayload and the two
// ways of closing, through the library's `verif` yield points:
//
//	ibb.read.checked   Read found the buffer empty and released the lock
//	ibb.read.woken     Read received from readReady and is about to lock again
//
// The labels are those of the model's transition system (C15/Model.v, lstep).

import (
	"fmt"
	"io"
	"strconv"
	"strings"
	"time"

	"mellium.im/xmpp/ibb"
	"verifharness/hx"
)

type labJ struct {
	L     string `json:"l"` // start | wait | resume | deliver | close
	N     int    `json:"n,omitempty"`
	D     string `json:"d,omitempty"` // deliver: hex of the decoded bytes
	Local bool   `json:"local,omitempty"`
}

type schedCase struct {
	Labels []labJ `json:"labels"`
	Msg    bool   `json:"msg,omitempty"` // data packets travel in <message/> stanzas (no acknowledgement)
}

const (
	hkChecked = "ibb.read.checked"
	hkWoken   = "ibb.read.woken"
	hkPayload = "ibb.payload.locked" // handlePayload holds readLock and has not yet touched the buffer
)

type readRes struct {
	data []byte
	err  error
}

func coqLabel(l labJ, msg bool) string {
	switch l.L {
	case "start":
		return "LStart " + hx.CoqNat(l.N)
	case "wait":
		return "LWait"
	case "resume":
		return "LResume"
	case "deliver":
		return "LDeliver " + hx.CoqBool(!msg) + " " + hx.CoqBytes(hx.UnHex(l.D))
	}
	return "LClose"
}

var schedDur [2]time.Duration // time spent in forced schedules per carrier (C15_TIMING)

func (x *runner) runSched(c schedCase, origin string) bool {
	t0 := time.Now()
	defer func() {
		i := 0
		if c.Msg {
			i = 1
		}
		schedDur[i] += time.Since(t0)
	}()
	r := x.getRig()
	if r == nil {
		return false
	}
	g := x.gate
	g.UnblockAll()
	defer g.UnblockAll()
	sid := x.sid()
	r.peer.setAuto(ackAll)
	conn, err := openLocal(r, sid, 64, !c.Msg)
	if err != nil || conn == nil {
		x.res.Fail("C15/open/accepted-but-failed", fmt.Sprintf("OpenIQ fails although the peer accepted: %v", err), kase{Kind: "sched", Sched: &c})
		x.dropRig()
		return false
	}
	g.Block(hkChecked, hkWoken)

	// reader position
	const (
		idle = iota
		atChecked
		inRecv
		atWoken
	)
	pos := idle
	resCh := make(chan readRes, 1)
	checked0, woken0 := g.Arrived(hkChecked), g.Arrived(hkWoken)
	// reference bookkeeping (independent of the Coq model)
	var delivered, read []byte
	tok, closed := false, false
	seq := 0
	reached := false

	labels := append([]labJ(nil), c.Labels...)
	var done []labJ
	var obs []string
	k := func() kase {
		return kase{Kind: "sched", Sched: &schedCase{Labels: append(append([]labJ(nil), done...), labels...), Msg: c.Msg}}
	}
	fail := func(key, what string) { x.res.Fail(key, what, k()) }
	abort := func(key, what string) bool {
		fail(key, what)
		g.UnblockAll()
		x.dropRig()
		return false
	}

	// after the reader was started or resumed: it returns or parks at checked
	settle := func() (string, bool) {
		deadline := time.Now().Add(watchdog)
		for {
			select {
			case rr := <-resCh:
				pos = idle
				eof := rr.err == io.EOF
				if rr.err != nil && !eof {
					fail("C15/read/error", fmt.Sprintf("Read fails: %v", rr.err))
				}
				unread := delivered[len(read):]
				switch {
				case eof && !closed:
					fail("C15/read/eof-before-close", fmt.Sprintf("Read returns %d, io.EOF although the stream has not been closed (after %s)", len(rr.data), labelsText(done)))
				case eof && len(unread) > 0 && len(rr.data) == 0:
					fail("C15/read/eof-with-data-buffered", fmt.Sprintf("Read returns 0, io.EOF although %d delivered bytes are unread", len(unread)))
				case !eof && len(rr.data) == 0:
					fail("C15/read/empty-read", "Read returns 0, nil for a non-empty buffer")
				case len(rr.data) > len(unread) || string(rr.data) != string(unread[:len(rr.data)]):
					fail("C15/read/bytes-differ", fmt.Sprintf("Read returns % x, delivered and unread: % x", clip(rr.data), clip(unread)))
				}
				read = append(read, rr.data...)
				return fmt.Sprintf("SDid (BReturned %s %s)", hx.CoqBytes(rr.data), hx.CoqBool(eof)), true
			default:
			}
			if g.Arrived(hkChecked) > checked0 && g.Parked(hkChecked) > 0 {
				checked0 = g.Arrived(hkChecked)
				pos = atChecked
				reached = true
				return "SDid BParked", true
			}
			if time.Now().After(deadline) {
				return "", false
			}
			time.Sleep(50 * time.Microsecond)
		}
	}
	lostBudget := 3
	awaitWoken := func(d time.Duration) bool {
		deadline := time.Now().Add(d)
		for {
			if g.Arrived(hkWoken) > woken0 && g.Parked(hkWoken) > 0 {
				woken0 = g.Arrived(hkWoken)
				return true
			}
			if time.Now().After(deadline) {
				return false
			}
			time.Sleep(50 * time.Microsecond)
		}
	}

	for len(labels) > 0 {
		l := labels[0]
		labels = labels[1:]
		done = append(done, l)
		o := "SSkip"
		switch l.L {
		case "start":
			if pos != idle || l.N <= 0 {
				break
			}
			n := l.N
			go func() {
				buf := make([]byte, n)
				var m int
				var err error
				p := hx.Catch(func() { m, err = conn.Read(buf) })
				if p != "" {
					err = fmt.Errorf("panic: %s", p)
				}
				resCh <- readRes{buf[:m], err}
			}()
			var ok bool
			if o, ok = settle(); !ok {
				return abort("C15/read/hang", "Read neither returns nor reaches its wait")
			}
		case "wait":
			if pos != atChecked && pos != inRecv {
				break
			}
			entered := false
			if pos == atChecked {
				g.Release(hkChecked)
				pos = inRecv
				entered = true
			}
			expectWake := tok || closed
			wait := 8 * time.Millisecond
			if expectWake {
				wait = time.Second
				if lostBudget <= 0 {
					wait = 50 * time.Millisecond
				}
			}
			deadline := time.Now().Add(wait)
			woke := false
			for {
				if g.Arrived(hkWoken) > woken0 && g.Parked(hkWoken) > 0 {
					woken0 = g.Arrived(hkWoken)
					woke = true
					break
				}
				if time.Now().After(deadline) {
					break
				}
				time.Sleep(50 * time.Microsecond)
			}
			if woke {
				pos = atWoken
				tok = false
				o = "SDid BWoke"
			} else {
				o = "SBlocked"
				if entered {
					o = "SDid BInRecv"
				}
				if len(delivered) > len(read) {
					lostBudget--
					fail("C15/read/lost-wakeup:notify-between-check-and-wait", fmt.Sprintf("the reader is blocked in its wait although %d delivered bytes are buffered (after %s)", len(delivered)-len(read), labelsText(done)))
				} else if closed {
					lostBudget--
					fail("C15/read/no-eof-after-close", "the reader stays blocked after the stream was closed")
				}
			}
		case "resume":
			if pos != atWoken {
				break
			}
			g.Release(hkWoken)
			var ok bool
			if o, ok = settle(); !ok {
				return abort("C15/read/hang", "a woken Read neither returns nor waits again")
			}
		case "deliver":
			d := hx.UnHex(l.D)
			id := r.id("d")
			from := r.peer.logLen()
			// A reader blocked in its wait must not be woken before the data is in
			// the buffer: park the handler inside its locked region, before it
			// appends, and see whether the reader arrives at its wake-up point.
			probe := pos == inRecv && !closed
			p0 := g.Arrived(hkPayload)
			if probe {
				g.Block(hkPayload)
			}
			r.peer.send(dataStanza(!c.Msg, id, sid, strconv.Itoa(seq), b64(d)))
			if probe {
				if g.WaitArrived(hkPayload, p0+1, watchdog) {
					time.Sleep(3 * time.Millisecond)
					if g.Arrived(hkWoken) > woken0 {
						fail("C15/payload/notify-before-append", "a reader blocked in its wait is woken while handlePayload has not yet appended the packet's data (the wake-up can be consumed before there is anything to read)")
					}
				}
				g.Unblock(hkPayload)
			}
			var w wstanza
			var ok bool
			if c.Msg {
				// no acknowledgement on this carrier: the packet has been handled
				// once a later request has been answered; a refusal is a message
				// of type error with the packet's id
				ok = r.sync()
				w = wstanza{Type: "result"}
				for _, l := range r.peer.snapshotFrom(from) {
					if l.Name == "message" && l.ID == id && l.Type == "error" {
						w = l
					}
				}
			} else {
				w, ok = r.peer.replyTo(id, from, watchdog)
			}
			if msg, alive := r.alive(); !alive {
				key, what := "C15/payload/serve-aborted", "the serve loop ends on a valid data packet: "+msg
				if strings.HasPrefix(msg, "panic") && closed {
					key, what = "C15/payload/closed-session:panic", "a data packet for a stream the application has closed panics the serve goroutine: "+msg
				}
				return abort(key, what)
			}
			if !ok {
				return abort("C15/payload/unanswered", "a data packet is not handled (no reply to it or to the request that follows it)")
			}
			if w.Type == "result" {
				o = "SDid BAck"
				if c.Msg {
					o = "SDid BTaken"
				}
				if closed {
					fail("C15/payload/item-not-found:not-refused", "a data packet for a closed stream is accepted")
				}
				delivered = append(delivered, d...)
				seq = (seq + 1) % 65536
				if pos == inRecv {
					// a reader blocked in the receive takes the wake-up directly
					if awaitWoken(time.Second) {
						pos = atWoken
					} else {
						fail("C15/read/lost-wakeup:reader-in-receive", fmt.Sprintf("a reader blocked in its wait is not woken by an accepted data packet (carrier: %s); the stream stays open and the bytes stay in the buffer", map[bool]string{true: "message", false: "iq"}[c.Msg]))
					}
				} else {
					tok = true
				}
			} else {
				o = "SDid BRefused"
				if !closed {
					fail("C15/payload/good-packet-refused", "a valid in-sequence packet is refused with "+w.ErrCond)
				}
			}
		case "close":
			if l.Local {
				var err error
				if !hx.WithTimeout(2*watchdog, func() { err = conn.Close() }) {
					return abort("C15/close/hang", "Close does not return although the peer answers")
				}
				if err != nil {
					fail("C15/close/error", "Close fails: "+err.Error())
				}
			} else {
				id := r.id("cl")
				from := r.peer.logLen()
				r.peer.send(`<iq type="set" id="` + id + `" from="` + remoteAddr + `" to="` + localAddr + `"><close xmlns="` + ibb.NS + `" sid="` + sid + `"/></iq>`)
				if _, ok := r.peer.replyTo(id, from, watchdog); !ok {
					return abort("C15/close/request-unanswered", "a close request is not answered")
				}
			}
			closed = true
			o = "SDid BClosed"
			if pos == inRecv {
				if awaitWoken(time.Second) {
					pos = atWoken
				} else {
					fail("C15/read/no-eof-after-close", "a reader blocked in its wait is not woken by the close")
				}
			}
		}
		obs = append(obs, o)
		// complete the schedule: close, then let the reader run to end-of-file
		if len(labels) == 0 && len(done) < len(c.Labels)+40 {
			switch {
			case !closed:
				labels = append(labels, labJ{L: "close", Local: len(done)%2 == 0})
			case pos == idle && !(strings.Contains(o, "BReturned") && strings.HasSuffix(o, "true)")):
				labels = append(labels, labJ{L: "start", N: 64})
			case pos == atChecked || pos == inRecv:
				if o != "SBlocked" && o != "SDid BInRecv" {
					labels = append(labels, labJ{L: "wait"})
				}
			case pos == atWoken:
				labels = append(labels, labJ{L: "resume"})
			}
		}
	}
	g.UnblockAll()
	if pos != idle {
		// a reader left behind (only after a failure): let it go
		hx.WithTimeout(200*time.Millisecond, func() { <-resCh })
	} else if len(read) != len(delivered) && closed {
		fail("C15/read/bytes-lost", fmt.Sprintf("%d bytes were delivered, %d were read before end-of-file", len(delivered), len(read)))
	}
	healthy := r.sync()
	var lt []string
	for _, l := range done {
		lt = append(lt, coqLabel(l, c.Msg))
	}
	kk := kase{Kind: "sched", Sched: &schedCase{Labels: done, Msg: c.Msg}}
	x.res.Count(fmt.Sprintf("l|%v|%s", c.Msg, labelsText(done)), reached, "sched/origin/"+origin, fmt.Sprintf("sched/len/%s", bucket(len(done))),
		"sched/carrier/"+map[bool]string{true: "message", false: "iq"}[c.Msg])
	x.res.Sample(kk)
	x.lc.Add("mklcase ["+strings.Join(lt, "; ")+"] ["+strings.Join(obs, "; ")+"]", kk)
	return healthy
}

func labelsText(ls []labJ) string {
	var out []string
	for _, l := range ls {
		switch l.L {
		case "start":
			out = append(out, fmt.Sprintf("start(%d)", l.N))
		case "deliver":
			out = append(out, fmt.Sprintf("deliver(%d bytes)", len(l.D)/2))
		case "close":
			if l.Local {
				out = append(out, "close(local)")
			} else {
				out = append(out, "close(peer)")
			}
		default:
			out = append(out, l.L)
		}
	}
	return strings.Join(out, " ")
}

// ---- schedule generation ----

var schedAlphabet = []labJ{
	{L: "start", N: 1}, {L: "start", N: 4}, {L: "wait"}, {L: "resume"},
	{L: "deliver", D: ""}, {L: "deliver", D: "6162"}, {L: "deliver", D: "303132333435"},
	{L: "close"}, {L: "close", Local: true},
}

// enumSched enumerates all label sequences of the given length whose labels
// are applicable to the reader's position (a small reference automaton decides
// that; it only prunes sequences, it is not compared with anything).
func enumSched(n int) []schedCase {
	type st struct {
		pos    int // 0 idle 1 checked 2 woken 3 blocked in the receive
		buf    int
		tok    bool
		closed bool
		wokeOK bool
	}
	var out []schedCase
	var rec func(s st, pre []labJ)
	rec = func(s st, pre []labJ) {
		if len(pre) == n {
			out = append(out, schedCase{Labels: append([]labJ(nil), pre...)})
			return
		}
		for _, l := range schedAlphabet {
			t := s
			switch l.L {
			case "start":
				if s.pos != 0 {
					continue
				}
				if s.buf > 0 {
					t.buf -= min(l.N, s.buf)
				} else {
					t.pos = 1
				}
			case "wait":
				if s.pos != 1 {
					continue
				}
				if s.tok {
					t.pos, t.tok, t.wokeOK = 2, false, true
				} else if s.closed {
					t.pos, t.wokeOK = 2, false
				} else {
					t.pos = 3
				}
			case "resume":
				if s.pos != 2 {
					continue
				}
				if s.buf > 0 {
					t.buf -= min(4, s.buf)
					t.pos = 0
				} else if s.wokeOK {
					t.pos = 1
				} else {
					t.pos = 0
				}
			case "deliver":
				if !s.closed {
					t.buf += len(l.D) / 2
					if s.pos == 3 {
						t.pos, t.wokeOK = 2, true
					} else {
						t.tok = true
					}
				}
			case "close":
				if s.closed {
					continue
				}
				t.closed = true
				if s.pos == 3 {
					t.pos, t.wokeOK = 2, false
				}
			}
			rec(t, append(pre, l))
		}
	}
	rec(st{}, nil)
	return out
}

func genSched(r *hx.Rand) schedCase {
	n := 3 + r.Intn(10)
	var ls []labJ
	closed := false
	for i := 0; i < n; i++ {
		l := schedAlphabet[r.Intn(len(schedAlphabet))]
		if l.L == "close" {
			if closed || r.Chance(2, 3) {
				l = labJ{L: "wait"}
			} else {
				closed = true
			}
		}
		if l.L == "deliver" && r.Chance(1, 3) {
			l.D = hx.Hex(genBytes(r, r.Intn(9)))
		}
		if l.L == "start" {
			l.N = 1 + r.Intn(8)
		}
		ls = append(ls, l)
	}
	return schedCase{Labels: ls}
}
