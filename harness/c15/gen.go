package main

// gen.go — the built-in corpus (witnesses of the defects found on the pinned
// tree and the test suite's own transfers) and the generated workload per tier.

import (
	"fmt"
	"os"
	"strconv"
	"strings"
	"sync"
	"time"

	"context"

	"mellium.im/xmpp/ibb"
	"mellium.im/xmpp/jid"
	"mellium.im/xmpp/stanza"
	"verifharness/hx"
)

func w(s string) opJ { return opJ{W: hx.Hex([]byte(s))} }

func wn(n int) opJ {
	b := make([]byte, n)
	for i := range b {
		b[i] = byte(i*7 + 3)
	}
	return opJ{W: hx.Hex(b)}
}

var flush = opJ{F: true}

func d64(s string) string { return hx.Hex([]byte(s)) }

func (x *runner) corpus() {
	const iqPayload = "There are two spiritual dangers in not owning a farm."
	const msgPayload = "One is the danger of supposing that breakfast comes from the grocery, and the other that heat comes from the furnace."
	senders := []senderCase{
		{BS: 0, Acked: true, Ops: []opJ{w(iqPayload)}},                                   // ibb_test.go TestSendSelf/iq
		{BS: 5, Acked: false, Ops: []opJ{w(msgPayload)}},                                 // ibb_test.go TestSendSelf/msg
		{BS: 5, Acked: true, Ops: []opJ{w("hello world, this is a test")}},               // one packet larger than the block size
		{BS: 3, Acked: true, Seq0: 65534, Ops: []opJ{wn(3), wn(3), wn(3), wn(3), wn(2)}}, // wrap-around
		{BS: 1, Acked: false, Seq0: 65535, Ops: []opJ{wn(1), wn(1), wn(1), wn(1), wn(1), wn(1), wn(1)}},
		{BS: 4, Acked: true, Ops: []opJ{w(""), flush, w("ab"), flush, w("c"), flush, w("defgh"), flush}},
		{BS: 8, Acked: true, Ops: []opJ{wn(8), wn(1)}},
		{BS: 8, Acked: true, Ops: []opJ{wn(3), wn(9), wn(20)}, Remote: true},
		{BS: 0, Acked: true, Ops: []opJ{wn(768*2 + 1), wn(2047), wn(2048), wn(2049)}},
		{BS: 4096, Acked: false, Ops: []opJ{wn(1), wn(4096), wn(767), flush, wn(769)}, Remote: true},
		{BS: 16, Acked: true, Ops: nil},
		{BS: 6, Acked: false, Incoming: true, Ops: []opJ{w("accepted streams write too"), flush, w("!")}},
		{BS: 0, Acked: true, Incoming: true, NoStanzaAttr: true, Ops: []opJ{wn(5000)}, Remote: true},
		{BS: 16, Acked: true, Ops: []opJ{flush, flush}},
	}
	for _, c := range senders {
		x.runSender(c, "corpus")
	}
	recvs := []recvCase{
		// the peer refuses the open request: no connection, the stream stays unknown
		{Events: []evJ{{Op: "openl", SID: "a", BS: 8, Accept: false, ErrCond: "not-acceptable"},
			{Op: "data", SID: "a", IQ: true, Seq: "0", Data: d64("QUJD")}}},
		{Events: []evJ{{Op: "openl", SID: "a", BS: 8, Accept: false, ErrCond: "service-unavailable", NoErrElem: true}}},
		// a corrupt packet must leave the stream as it was
		{Events: []evJ{{Op: "openl", SID: "a", BS: 8, Accept: true},
			{Op: "data", SID: "a", IQ: true, Seq: "0", Data: d64("QUJD")},
			{Op: "data", SID: "a", IQ: true, Seq: "1", Data: d64("REVG!!!!")},
			{Op: "data", SID: "a", IQ: true, Seq: "1", Data: d64("R0hJ")},
			{Op: "read", SID: "a", N: 64}, {Op: "closer", SID: "a"}, {Op: "read", SID: "a", N: 4}}},
		// a quantum cut short
		{Events: []evJ{{Op: "openl", SID: "a", BS: 8, Accept: true},
			{Op: "data", SID: "a", IQ: true, Seq: "0", Data: d64("QUJDR")},
			{Op: "data", SID: "a", IQ: true, Seq: "0", Data: d64("QUJD")},
			{Op: "read", SID: "a", N: 64}}},
		{Events: []evJ{{Op: "openr", SID: "a", BS: 8, Listening: true, Stanza: "message"},
			{Op: "data", SID: "a", IQ: false, Seq: "0", Data: d64("QUJDRA")},
			{Op: "data", SID: "a", IQ: false, Seq: "0", Data: d64("QUJD")},
			{Op: "read", SID: "a", N: 64}}},
		// over the limit, then the same packet again once there is room (ibb_test.go TestBufferFull)
		{Events: []evJ{{Op: "openr", SID: "a", BS: 4, Listening: true, Stanza: "iq"},
			{Op: "setmax", SID: "a", Max: 6},
			{Op: "data", SID: "a", IQ: true, Seq: "0", Data: d64("QUJDRA==")},
			{Op: "data", SID: "a", IQ: true, Seq: "1", Data: d64("QUJDRA==")},
			{Op: "read", SID: "a", N: 3},
			{Op: "data", SID: "a", IQ: true, Seq: "1", Data: d64("QUJDRA==")},
			{Op: "read", SID: "a", N: 64}}},
		// the application closes; a late packet for the closed session
		{Events: []evJ{{Op: "openl", SID: "a", BS: 8, Accept: true},
			{Op: "data", SID: "a", IQ: true, Seq: "0", Data: d64("QUJD")},
			{Op: "closel", SID: "a"},
			{Op: "data", SID: "a", IQ: true, Seq: "1", Data: d64("QUJD")},
			{Op: "read", SID: "a", N: 64}, {Op: "read", SID: "a", N: 64}}},
		// the peer closes; late packet, drain, end-of-file; a second close request
		{Events: []evJ{{Op: "openr", SID: "a", BS: 0, Listening: true},
			{Op: "data", SID: "a", IQ: true, Seq: "0", Data: d64("QUJD")},
			{Op: "closer", SID: "a"},
			{Op: "data", SID: "a", IQ: true, Seq: "1", Data: d64("QUJD")},
			{Op: "closer", SID: "a"},
			{Op: "read", SID: "a", N: 2}, {Op: "read", SID: "a", N: 2}, {Op: "read", SID: "a", N: 2}}},
		// the peer refuses a data packet of the local writer and then closes: the
		// close request must be answered, the error stays with the writer
		{Events: []evJ{{Op: "openl", SID: "a", BS: 8, Accept: true},
			{Op: "data", SID: "a", IQ: true, Seq: "0", Data: d64("QUJD")},
			{Op: "write", SID: "a", Accept: true},
			{Op: "write", SID: "a", Accept: false},
			{Op: "write", SID: "a", Accept: true},
			{Op: "closer", SID: "a"},
			{Op: "write", SID: "a", Accept: true},
			{Op: "read", SID: "a", N: 64}, {Op: "read", SID: "a", N: 64}}},
		{Events: []evJ{{Op: "openr", SID: "a", BS: 2, Listening: true, Stanza: "iq"},
			{Op: "write", SID: "a", Accept: false},
			{Op: "closer", SID: "a"},
			{Op: "data", SID: "a", IQ: true, Seq: "0", Data: d64("QUJD")},
			{Op: "read", SID: "a", N: 4}}},
		{Events: []evJ{{Op: "openr", SID: "a", BS: 64, Listening: true, Stanza: "message"},
			{Op: "write", SID: "a", Accept: false},
			{Op: "write", SID: "a", Accept: true},
			{Op: "closel", SID: "a"},
			{Op: "write", SID: "a", Accept: true}}},
		// one session id, several streams: a redundant Close on the old connection
		// must not touch the new stream
		{Events: []evJ{{Op: "openl", SID: "x", BS: 8, Accept: true},
			{Op: "data", SID: "x", IQ: true, Seq: "0", Data: d64("QUJD")},
			{Op: "read", SID: "x", N: 64}, {Op: "closel", SID: "x"},
			{Op: "openl", SID: "x", BS: 8, Accept: true},
			{Op: "closel", SID: "x", H: 1},
			{Op: "data", SID: "x", IQ: true, Seq: "0", Data: d64("REVG")},
			{Op: "read", SID: "x", H: 2, N: 64},
			{Op: "closel", SID: "x", H: 1},
			{Op: "data", SID: "x", IQ: false, Seq: "1", Data: d64("R0hJ")},
			{Op: "read", SID: "x", H: 2, N: 64}, {Op: "read", SID: "x", H: 1, N: 64},
			{Op: "closer", SID: "x"}, {Op: "read", SID: "x", H: 2, N: 4}}},
		{Events: []evJ{{Op: "openr", SID: "x", BS: 8, Listening: true},
			{Op: "data", SID: "x", IQ: true, Seq: "0", Data: d64("QUJD")},
			{Op: "closer", SID: "x"},
			{Op: "openr", SID: "x", BS: 4, Listening: true, Stanza: "message"},
			{Op: "closel", SID: "x", H: 1},
			{Op: "data", SID: "x", IQ: false, Seq: "0", Data: d64("REVG")},
			{Op: "read", SID: "x", H: 2, N: 64}, {Op: "read", SID: "x", H: 1, N: 64}, {Op: "read", SID: "x", H: 1, N: 64}}},
		// the peer reopens the session id while Close still waits for its answer
		{Events: []evJ{{Op: "openl", SID: "x", BS: 8, Accept: true},
			{Op: "data", SID: "x", IQ: true, Seq: "0", Data: d64("QUJD")},
			{Op: "closel", SID: "x", Reopen: true, BS: 8},
			{Op: "data", SID: "x", IQ: true, Seq: "0", Data: d64("REVG")},
			{Op: "read", SID: "x", H: 2, N: 64},
			{Op: "closel", SID: "x", H: 1},
			{Op: "data", SID: "x", IQ: true, Seq: "1", Data: d64("R0hJ")},
			{Op: "read", SID: "x", H: 2, N: 64}, {Op: "read", SID: "x", H: 1, N: 64}, {Op: "read", SID: "x", H: 1, N: 64}}},
		// a second stream under a session id that is still in use takes the id over
		{Events: []evJ{{Op: "openl", SID: "x", BS: 8, Accept: true},
			{Op: "openr", SID: "x", BS: 8, Listening: true},
			{Op: "data", SID: "x", IQ: true, Seq: "0", Data: d64("QUJD")},
			{Op: "closel", SID: "x", H: 1},
			{Op: "data", SID: "x", IQ: true, Seq: "1", Data: d64("REVG")},
			{Op: "read", SID: "x", H: 2, N: 64}, {Op: "read", SID: "x", H: 1, N: 64}}},
		// nobody listens
		{Events: []evJ{{Op: "openr", SID: "a", BS: 8, Listening: false},
			{Op: "data", SID: "a", IQ: true, Seq: "0", Data: d64("QUJD")}, {Op: "closer", SID: "a"}}},
		// sequence numbers: repeated, skipped, and newlines inside the data
		{Events: []evJ{{Op: "openl", SID: "a", BS: 8, Accept: true},
			{Op: "data", SID: "a", IQ: true, Seq: "1", Data: d64("QUJD")},
			{Op: "data", SID: "a", IQ: true, Seq: "0", Data: d64("QU\nJD")},
			{Op: "data", SID: "a", IQ: true, Seq: "0", Data: d64("QUJD")},
			{Op: "data", SID: "a", IQ: true, Seq: "65535", Data: d64("QUJD")},
			{Op: "data", SID: "a", IQ: false, Seq: "1", Data: d64("")},
			{Op: "data", SID: "a", IQ: true, Seq: "2", Data: d64("QQ==")},
			{Op: "read", SID: "a", N: 64}}},
		// malformed attributes
		{Events: []evJ{{Op: "openl", SID: "a", BS: 8, Accept: true},
			{Op: "data", SID: "a", IQ: true, Seq: "65536", Data: d64("QUJD"), Raw: true},
			{Op: "data", SID: "a", IQ: true, Seq: "0", Data: d64("QUJD")},
			{Op: "read", SID: "a", N: 64}}},
		{Events: []evJ{{Op: "openr", SID: "b", BS: 8, BSText: "65536", Listening: true},
			{Op: "openr", SID: "c", BS: 8, BSText: "abc", Listening: true},
			{Op: "openr", SID: "a", BS: 8, Listening: true},
			{Op: "data", SID: "a", IQ: false, Seq: "70000", Data: d64("QUJD"), Raw: true},
			{Op: "data", SID: "a", IQ: false, Seq: "0", Data: d64("QUJD")},
			{Op: "read", SID: "a", N: 64}}},
		{Events: []evJ{{Op: "openl", SID: "a", BS: 8, Accept: true},
			{Op: "data", SID: "a", IQ: true, Seq: "-1", Data: d64("QUJD"), Raw: true},
			{Op: "data", SID: "a", IQ: true, Seq: "abc", Data: d64("QUJD"), Raw: true},
			{Op: "data", SID: "a", IQ: true, Seq: "0", Data: d64("QUJD")},
			{Op: "read", SID: "a", N: 64}}},
	}
	for _, c := range recvs {
		x.runReceiver(c, "corpus")
	}
	ab := hx.Hex([]byte("ab"))
	scheds := []schedCase{
		// notify between the empty test and the wait
		{Labels: []labJ{{L: "start", N: 4}, {L: "deliver", D: ab}, {L: "wait"}, {L: "resume"}}},
		// woken by a zero-length packet
		{Labels: []labJ{{L: "start", N: 4}, {L: "wait"}, {L: "deliver", D: ""}, {L: "wait"}, {L: "resume"}, {L: "deliver", D: ab}, {L: "wait"}, {L: "resume"}}},
		// a stale wake-up must not end the stream
		{Labels: []labJ{{L: "deliver", D: ab}, {L: "start", N: 4}, {L: "start", N: 4}, {L: "wait"}, {L: "resume"}, {L: "deliver", D: ab}, {L: "wait"}, {L: "resume"}}},
		// close while waiting; drain after close
		{Labels: []labJ{{L: "start", N: 1}, {L: "wait"}, {L: "close"}, {L: "wait"}, {L: "resume"}}},
		{Labels: []labJ{{L: "deliver", D: ab}, {L: "close", Local: true}, {L: "start", N: 1}, {L: "start", N: 1}, {L: "start", N: 1}}},
		{Labels: []labJ{{L: "start", N: 4}, {L: "close", Local: true}, {L: "deliver", D: ab}, {L: "wait"}, {L: "resume"}}},
	}
	for _, c := range scheds {
		x.runSched(c, "corpus")
		c.Msg = true
		x.runSched(c, "corpus")
	}
	// a reader parked in Read before a message-carrier packet arrives, the stream
	// staying open: the bytes must come out of Read without any close
	x.runSched(schedCase{Msg: true, Labels: []labJ{{L: "start", N: 8}, {L: "wait"}, {L: "deliver", D: ab}, {L: "resume"},
		{L: "start", N: 8}, {L: "wait"}, {L: "deliver", D: ab}, {L: "resume"}, {L: "start", N: 8}, {L: "wait"}, {L: "deliver", D: ab}, {L: "resume"}}}, "corpus")
	x.runPipe(pipeCase{Seed: 7, BS: 5, Acked: false, AB: 117, BA: 53, CloserA: true}, "corpus")
	x.runPipe(pipeCase{Seed: 8, BS: 0, Acked: true, AB: 5000, BA: 3000, CloserA: false}, "corpus")
	x.runPipe(pipeCase{Seed: 9, BS: 4, Acked: true, AB: 40, BA: 33, CloserA: true, SeqAB: 65534, SeqBA: 65535}, "corpus")
}

func (x *runner) generated() {
	th := x.o.Thorough()
	nSend, nRecv, nSchedRand, schedLen, nPipe, pipeMax, sendBudget := 140, 160, 120, 4, 24, 6000, 5000
	nReuse := 80
	if th {
		nReuse = 500
	}
	if th {
		nSend, nRecv, nSchedRand, schedLen, nPipe, pipeMax, sendBudget = 800, 1500, 1200, 5, 100, 40000, 20000
	}
	if x.o.Search {
		nSend, nRecv, nSchedRand, nPipe = nSend*4, nRecv*4, nSchedRand*4, nPipe*3
	}
	t0 := time.Now()
	lap := func(what string) {
		if os.Getenv("C15_TIMING") != "" {
			fmt.Fprintf(os.Stderr, "timing %-10s %v\n", what, time.Since(t0).Round(time.Millisecond))
		}
		t0 = time.Now()
	}
	x.runRaces()
	lap("races")
	for i := 0; i < nSend; i++ {
		x.runSender(genSender(x.r, sendBudget), "generated")
	}
	lap("sender")
	for i := 0; i < nRecv; i++ {
		x.runReceiver(genReceiver(x.r), "generated")
	}
	lap("receiver")
	for i := 0; i < nReuse; i++ {
		x.runReceiver(genReuse(x.r), "reuse")
	}
	lap("reuse")
	for n := 1; n <= schedLen; n++ {
		for _, c := range enumSched(n) {
			x.runSched(c, "exhaustive")
			c.Msg = true
			x.runSched(c, "exhaustive")
		}
	}
	for i := 0; i < nSchedRand; i++ {
		sc := genSched(x.r)
		sc.Msg = i%2 == 1
		x.runSched(sc, "generated")
	}
	lap("sched")
	if os.Getenv("C15_TIMING") != "" {
		fmt.Fprintf(os.Stderr, "timing sched iq %v message %v\n", schedDur[0], schedDur[1])
	}
	x.dropRig()
	for i := 0; i < nPipe; i++ {
		x.runPipe(genPipe(x.r, pipeMax), "generated")
	}
	lap("pipe")
	if th {
		// a genuine pass over the 65536-packet boundary, both carriers
		var ops []opJ
		for i := 0; i < 65536+40; i++ {
			ops = append(ops, wn(3))
		}
		x.runSender(senderCase{BS: 3, Acked: false, Ops: ops}, "wrap-65536")
		x.dropRig()
		x.runSender(senderCase{BS: 3, Acked: true, Ops: ops[:65536+8]}, "wrap-65536")
		x.dropRig()
		x.runPipe(pipeCase{Seed: x.r.Uint64(), BS: 3, Acked: false, AB: 3 * (65536 + 20), BA: 10, CloserA: true}, "wrap-65536")
	}
}

// runRaces exercises the documented concurrent uses (net.Conn: "multiple
// goroutines may invoke methods on a Conn simultaneously") under the race
// detector: the oracle here is "no hang, no panic"; the detector's reports are
// turned into oracle failures by the parent process.
func (x *runner) runRaces() {
	k := kase{Kind: "races"}
	x.res.Count("races", true, "races")
	// 1. data flowing towards a handler while the application opens more streams on it
	func() {
		p, err := newPair()
		if err != nil {
			return
		}
		defer p.close()
		open := func(sid string) (*ibb.Conn, *ibb.Conn) {
			ctx, cancel := context.WithTimeout(context.Background(), watchdog)
			defer cancel()
			ca, err := p.ha.OpenIQ(ctx, stanza.IQ{To: jid.MustParse(remoteAddr)}, p.sa, true, 16, sid)
			if err != nil {
				return nil, nil
			}
			select {
			case cb := <-p.acceptedCh:
				return ca, cb
			case <-time.After(watchdog):
				return ca, nil
			}
		}
		ca, cb := open("r0")
		if ca == nil || cb == nil {
			x.res.Fail("C15/open/accepted-but-failed", "cannot open a stream on a served pair", k)
			return
		}
		var wg sync.WaitGroup
		wg.Add(2)
		go func() { // acceptor -> opener: handlePayload runs on the opener's handler
			defer wg.Done()
			for i := 0; i < 60; i++ {
				if _, err := cb.Write([]byte(strings.Repeat("x", 16))); err != nil {
					return
				}
				cb.Flush()
			}
		}()
		go func() {
			defer wg.Done()
			for i := 1; i <= 12; i++ {
				open("r" + strconv.Itoa(i))
			}
		}()
		go func() {
			buf := make([]byte, 4096)
			for {
				if _, err := ca.Read(buf); err != nil {
					return
				}
			}
		}()
		if !hx.WithTimeout(5*watchdog, wg.Wait) {
			x.res.Fail("C15/concurrent/open-during-transfer:hang", "opening further streams while data arrives wedges the handler", k)
			return
		}
		hx.WithTimeout(watchdog, func() { ca.Close() })
	}()
	// 3. the peer closes while the application writes
	func() {
		p, err := newPair()
		if err != nil {
			return
		}
		defer p.close()
		ctx, cancel := context.WithTimeout(context.Background(), watchdog)
		ca, err := p.ha.OpenIQ(ctx, stanza.IQ{To: jid.MustParse(remoteAddr)}, p.sa, true, 16, "w0")
		cancel()
		if err != nil {
			return
		}
		var cb *ibb.Conn
		select {
		case cb = <-p.acceptedCh:
		case <-time.After(watchdog):
			return
		}
		var got []byte
		var wg sync.WaitGroup
		wg.Add(3)
		go func() {
			defer wg.Done()
			got, _ = readAll(hx.NewRand(5), cb, false)
		}()
		written := 0
		go func() {
			defer wg.Done()
			for i := 0; i < 400; i++ {
				n, err := ca.Write([]byte("0123456789"))
				written += n
				if err != nil {
					return
				}
			}
		}()
		var pn string
		go func() {
			defer wg.Done()
			time.Sleep(3 * time.Millisecond)
			pn = hx.Catch(func() { cb.Close() })
		}()
		if !hx.WithTimeout(5*watchdog, wg.Wait) {
			x.res.Fail("C15/concurrent/peer-close-during-write:hang", "a close request arriving while the application writes wedges writer, reader or Close", k)
			return
		}
		if pn != "" {
			x.res.Fail("C15/concurrent/peer-close-during-write:panic", "Close panics: "+pn, k)
		}
		for _, s := range []chan string{p.servedA, p.servedB} {
			select {
			case m := <-s:
				x.res.Fail("C15/concurrent/peer-close-during-write:serve-aborted", "a serve loop ended: "+m, k)
			default:
			}
		}
		// what the closing side read must be a prefix of what was written, intact
		want := []byte(strings.Repeat("0123456789", 400))
		if len(got) > len(want) || string(got) != string(want[:len(got)]) {
			x.res.Fail("C15/concurrent/peer-close-during-write:bytes-differ", "the closing side read bytes that are not a prefix of what the peer wrote", k)
		}
	}()
	// 2. the application closes while another goroutine of it reads and writes
	func() {
		p, err := newPair()
		if err != nil {
			return
		}
		defer p.close()
		ctx, cancel := context.WithTimeout(context.Background(), watchdog)
		ca, err := p.ha.OpenIQ(ctx, stanza.IQ{To: jid.MustParse(remoteAddr)}, p.sa, true, 16, "c0")
		cancel()
		if err != nil {
			return
		}
		var cb *ibb.Conn
		select {
		case cb = <-p.acceptedCh:
		case <-time.After(watchdog):
			return
		}
		go func() {
			buf := make([]byte, 64)
			for {
				if _, err := cb.Read(buf); err != nil {
					return
				}
			}
		}()
		var wg sync.WaitGroup
		wg.Add(3)
		go func() {
			defer wg.Done()
			for i := 0; i < 200; i++ {
				if _, err := ca.Write([]byte("0123456789abcdef0")); err != nil {
					return
				}
			}
		}()
		go func() {
			defer wg.Done()
			buf := make([]byte, 64)
			for {
				if _, err := ca.Read(buf); err != nil {
					return
				}
			}
		}()
		var pn string
		go func() {
			defer wg.Done()
			time.Sleep(2 * time.Millisecond)
			pn = hx.Catch(func() { ca.Close() })
		}()
		if !hx.WithTimeout(5*watchdog, wg.Wait) {
			x.res.Fail("C15/concurrent/close-during-use:hang", "Close while another goroutine reads and writes does not unblock them", k)
			return
		}
		if pn != "" {
			x.res.Fail("C15/concurrent/close-during-use:panic", "Close panics: "+pn, k)
		}
	}()
}
