// Command c15 is the correspondence harness and implementation oracle for
// property C15 (mellium.im/xmpp/ibb): an in-band bytestream is a reliable
// ordered byte pipe.
//
// Families of cases
//
//	sender    Write/Flush/Close against a raw peer: packets on the wire      (scase)
//	receiver  scripted events against one handler: replies and bytes read    (rcase)
//	sched     forced schedules of Read / handlePayload / close (yield hooks) (lcase)
//	pipe      two served sessions back to back, both directions, free timing (oracle; packets -> scase)
//	races     concurrent use under the race detector                         (oracle)
//
// The binary is built with -race. It re-executes itself as a child with GORACE
// pointing at a log file, so that a data-race report becomes an oracle failure
// with a finding key instead of an exit code.
package main

import (
	"encoding/json"
	"fmt"
	"os"
	"os/exec"
	"path/filepath"
	"regexp"
	"sort"
	"strings"

	"mellium.im/xmpp"
	"verifharness/hx"
)

const imports = "From Coq Require Import ZArith.\nFrom XV Require Import lib.Bytes C15.Model.\n"

type kase struct {
	Kind     string      `json:"kind"`
	Sender   *senderCase `json:"sender,omitempty"`
	Receiver *recvCase   `json:"receiver,omitempty"`
	Sched    *schedCase  `json:"sched,omitempty"`
	Pipe     *pipeCase   `json:"pipe,omitempty"`
	Race     string      `json:"race,omitempty"`
}

type runner struct {
	o      hx.Opts
	r      *hx.Rand
	res    *hx.Result
	sc     hx.CaseFile
	pc     hx.CaseFile
	rc     hx.CaseFile
	lc     hx.CaseFile
	rig    *rig
	listen bool
	nsid   int
	gate   *hx.Gate
}

func (x *runner) sid() string {
	x.nsid++
	return fmt.Sprintf("s%d", x.nsid)
}

// getRig returns a live rig (with a listener), replacing a dead one.
func (x *runner) getRig() *rig {
	if x.rig != nil {
		if _, alive := x.rig.alive(); alive {
			return x.rig
		}
		x.dropRig()
	}
	r, err := newRig(true)
	if err != nil {
		fmt.Fprintln(os.Stderr, "cannot build a session:", err)
		return nil
	}
	x.rig = r
	return r
}

func (x *runner) dropRig() {
	if x.rig != nil {
		x.rig.close()
		x.rig = nil
	}
}

func main() {
	o := hx.ParseFlags()
	if os.Getenv("C15_CHILD") == "" {
		os.Exit(parent(o))
	}
	child(o)
}

// parent runs the real work in a child whose race reports go to files, then
// turns the reports into oracle failures.
func parent(o hx.Opts) int {
	for _, f := range globRace(o.Out) {
		os.Remove(f)
	}
	cmd := exec.Command(os.Args[0], os.Args[1:]...)
	cmd.Env = append(os.Environ(), "C15_CHILD=1",
		"GORACE=log_path="+filepath.Join(o.Out, "race")+" exitcode=0 halt_on_error=0 history_size=3")
	cmd.Stdout, cmd.Stderr = os.Stdout, os.Stderr
	if err := cmd.Run(); err != nil {
		fmt.Fprintln(os.Stderr, "child:", err)
		return 1
	}
	reports := readRaceReports(o.Out)
	if len(reports) == 0 {
		return 0
	}
	path := filepath.Join(o.Out, "result.json")
	b, err := os.ReadFile(path)
	if err != nil {
		fmt.Fprintln(os.Stderr, err)
		return 1
	}
	var res map[string]interface{}
	if err := json.Unmarshal(b, &res); err != nil {
		fmt.Fprintln(os.Stderr, err)
		return 1
	}
	fails, _ := res["oracle_failures"].([]interface{})
	seen := map[string]bool{}
	for _, rep := range reports {
		key := raceKey(rep)
		if seen[key] {
			continue
		}
		seen[key] = true
		if len(rep) > 6000 {
			rep = rep[:6000]
		}
		fails = append(fails, map[string]interface{}{
			"key":  key,
			"what": "the race detector reports unsynchronised access (the model's atomic regions are not atomic): " + strings.TrimPrefix(key, "C15/race/"),
			"case": kase{Kind: "races", Race: rep},
		})
	}
	res["oracle_failures"] = fails
	nb, _ := json.MarshalIndent(res, "", " ")
	if err := os.WriteFile(path, nb, 0o644); err != nil {
		fmt.Fprintln(os.Stderr, err)
		return 1
	}
	return 0
}

func globRace(dir string) []string {
	m, _ := filepath.Glob(filepath.Join(dir, "race.*"))
	return m
}

func readRaceReports(dir string) []string {
	var out []string
	for _, f := range globRace(dir) {
		b, err := os.ReadFile(f)
		if err != nil {
			continue
		}
		for _, part := range strings.Split(string(b), "==================") {
			if strings.Contains(part, "WARNING: DATA RACE") {
				out = append(out, strings.TrimSpace(part))
			}
		}
	}
	return out
}

var frameRe = regexp.MustCompile(`(?m)^  (\S+)\(`)

// raceKey names a race by the two innermost library functions involved.
func raceKey(rep string) string {
	var fns []string
	for _, blk := range strings.Split(rep, "\n\n") {
		if !(strings.Contains(blk, " by goroutine") || strings.Contains(blk, " by main goroutine")) ||
			strings.HasPrefix(strings.TrimSpace(blk), "Goroutine") {
			continue
		}
		name := "?"
		for _, m := range frameRe.FindAllStringSubmatch(blk, -1) {
			if strings.Contains(m[1], "mellium.im/xmpp/") || strings.HasPrefix(m[1], "main.") {
				name = m[1]
				name = strings.TrimPrefix(name, "mellium.im/xmpp/")
				break
			}
		}
		fns = append(fns, name)
		if len(fns) == 2 {
			break
		}
	}
	sort.Strings(fns)
	return "C15/race/" + strings.Join(fns, "+")
}

func child(o hx.Opts) {
	x := &runner{o: o, r: hx.NewRand(o.Seed), res: hx.NewResult("C15")}
	x.sc = hx.CaseFile{Name: "send", Imports: imports, Ok: "scase_ok", Type: "scase"}
	x.pc = hx.CaseFile{Name: "pipe", Imports: imports, Ok: "scase_packets_ok", Type: "scase"}
	x.rc = hx.CaseFile{Name: "recv", Imports: imports, Ok: "rcase_ok", Type: "rcase"}
	x.lc = hx.CaseFile{Name: "sched", Imports: imports, Ok: "lcase_ok", Type: "lcase"}
	x.gate = hx.NewGate()
	xmpp.VerifSetHook(x.gate.Hook)
	x.res.Rule = "a case is non-trivial when it exercises a property-relevant branch: a sender case with at least two data packets; a receiver script with at least one accepted and one refused packet or a close; a schedule in which the reader reaches the wait; a pipe transfer of at least one block in each direction"

	if o.Replay != "" {
		x.replay(o.Replay)
	} else {
		x.corpus()
		x.generated()
	}
	x.dropRig()
	x.res.CaseFiles = append(x.res.CaseFiles, x.sc.Write(o.Out, 400)...)
	x.res.CaseFiles = append(x.res.CaseFiles, x.pc.Write(o.Out, 400)...)
	x.res.CaseFiles = append(x.res.CaseFiles, x.rc.Write(o.Out, 400)...)
	x.res.CaseFiles = append(x.res.CaseFiles, x.lc.Write(o.Out, 1000)...)
	x.res.Extra["model_cases"] = x.sc.Len() + x.pc.Len() + x.rc.Len() + x.lc.Len()
	x.res.Write(o.Out)
}

func (x *runner) replay(path string) {
	b, err := os.ReadFile(path)
	if err != nil {
		fmt.Fprintln(os.Stderr, err)
		os.Exit(2)
	}
	var f struct {
		Case kase `json:"case"`
	}
	if err := json.Unmarshal(b, &f); err != nil {
		fmt.Fprintln(os.Stderr, err)
		os.Exit(2)
	}
	x.runCase(f.Case, "replay")
}

func (x *runner) runCase(k kase, origin string) {
	switch k.Kind {
	case "sender":
		if k.Sender != nil {
			x.runSender(*k.Sender, origin)
		}
	case "receiver":
		if k.Receiver != nil {
			x.runReceiver(*k.Receiver, origin)
		}
	case "sched":
		if k.Sched != nil {
			x.runSched(*k.Sched, origin)
		}
	case "pipe":
		if k.Pipe != nil {
			x.runPipe(*k.Pipe, origin)
		}
	case "races":
		x.runRaces()
	}
}
