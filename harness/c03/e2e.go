package main

import (
	"context"
	"encoding/json"
	"fmt"
	"net"
	"sync"
	"time"

	"mellium.im/sasl"
	"mellium.im/xmpp"
	"mellium.im/xmpp/jid"
	"verifharness/hx"
)

// e2e: the library's initiating side against the library's receiving side over
// net.Pipe, scripted or real mechanisms on both ends. Oracle only (no model):
// neither side may end up authenticated unless the server's mechanism completed
// without error (and, for PLAIN, the callback accepted) and the server said so.

type e2eObs struct {
	CAuthn, SAuthn bool
	CErr, SErr     string
	CEvents        []event
	SEvents        []event
	Hung           bool
	Panic          string
}

func (x *runner) e2e(c *caseT) {
	hc := &run{c: &caseT{Role: "client", Steps: c.Steps}}
	hs := &run{c: &caseT{Role: "server", Steps: c.SSteps, Verdicts: c.Verdicts}}
	var cm, sm []sasl.Mechanism
	for _, m := range c.Mechs {
		cm = append(cm, hc.mech(m))
	}
	for _, m := range c.SMechs {
		sm = append(sm, hs.mech(m))
	}
	a, b := net.Pipe()
	o := &e2eObs{}
	var wg sync.WaitGroup
	var mu sync.Mutex
	wg.Add(2)
	go func() {
		defer wg.Done()
		defer a.Close()
		p := hx.Catch(func() {
			neg := xmpp.NewNegotiator(func(*xmpp.Session, *xmpp.StreamConfig) xmpp.StreamConfig {
				return xmpp.StreamConfig{Features: []xmpp.StreamFeature{xmpp.SASL(c.Ident, c.Pass, cm...), doneFeature()}}
			})
			s, err := xmpp.NewSession(context.Background(), jid.MustParse("example.net"), localJID(c.User), a, xmpp.Secure, neg)
			mu.Lock()
			defer mu.Unlock()
			if s != nil {
				o.CAuthn = s.State()&xmpp.Authn != 0
			}
			if err != nil {
				o.CErr = err.Error()
			}
		})
		if p != "" {
			mu.Lock()
			o.Panic = "client: " + p
			mu.Unlock()
		}
	}()
	go func() {
		defer wg.Done()
		defer b.Close()
		p := hx.Catch(func() {
			neg := xmpp.NewNegotiator(func(*xmpp.Session, *xmpp.StreamConfig) xmpp.StreamConfig {
				return xmpp.StreamConfig{Features: []xmpp.StreamFeature{xmpp.SASLServer(hs.perm, sm...), doneFeature()}}
			})
			s, err := xmpp.ReceiveSession(context.Background(), b, xmpp.Secure, neg)
			mu.Lock()
			defer mu.Unlock()
			if s != nil {
				o.SAuthn = s.State()&xmpp.Authn != 0
			}
			if err != nil {
				o.SErr = err.Error()
			}
		})
		if p != "" {
			mu.Lock()
			o.Panic = "server: " + p
			mu.Unlock()
		}
	}()
	if !hx.WithTimeout(3*time.Second, wg.Wait) {
		a.Close()
		b.Close()
		o.Hung = true
		hx.WithTimeout(2*time.Second, wg.Wait)
	}
	o.CEvents, o.SEvents = hc.events, hs.events
	canon, _ := json.Marshal(c)
	x.res.Count(string(canon), len(o.CEvents) > 0, "role/e2e", fmt.Sprintf("result/e2e/client=%v,server=%v", o.CAuthn, o.SAuthn))
	fail := func(key, what string) { x.res.Fail("C03/e2e/"+key, what, c) }
	if o.Panic != "" {
		fail("panic", o.Panic)
		return
	}
	if o.Hung {
		fail("hang", "client/server pair did not finish")
		return
	}
	lastStep := func(evs []event) (event, bool) {
		for i := len(evs) - 1; i >= 0; i-- {
			if evs[i].Kind == "step" {
				return evs[i], true
			}
		}
		return event{}, false
	}
	if o.CAuthn {
		if e, ok := lastStep(o.CEvents); !ok || e.Res.Err != "" || e.Res.More {
			fail("client-authn-mechanism-incomplete", "the client is authenticated although its mechanism did not complete")
		}
		if e, ok := lastStep(o.SEvents); !ok || e.Res.Err != "" || e.Res.More {
			fail("client-authn-without-server", "the client is authenticated although the server's mechanism did not complete without error")
		}
	}
	if o.SAuthn {
		e, ok := lastStep(o.SEvents)
		if !ok || e.Res.Err != "" || e.Res.More {
			fail("server-authn-mechanism-incomplete", "the server is authenticated although its mechanism did not complete")
		}
		if ok && e.Mech == "PLAIN" {
			if _, real := hasMech(c.SMechs, "PLAIN"); real {
				granted := false
				for _, ev := range o.SEvents {
					if ev.Kind == "perm" {
						granted = ev.Verdict
					}
				}
				if spec, _ := hasMech(c.SMechs, "PLAIN"); spec.Kind == "plain" && !granted {
					fail("server-authn-permission-not-granted", "the server is authenticated (PLAIN) although the callback refused")
				}
			}
		}
	}
}

func e2eCases(x *runner, r *hx.Rand, n int) {
	for i := 0; i < n; i++ {
		c := &caseT{Role: "e2e", Tag: "e2e", User: "test", Pass: "pw"}
		if r.Chance(1, 2) {
			c.Mechs = []mechSpec{{Kind: "plain"}}
			c.SMechs = []mechSpec{{Kind: "plain"}}
			c.Verdicts = []bool{r.Bool()}
		} else {
			c.Mechs = []mechSpec{{Kind: "script", Name: "X-A"}}
			c.SMechs = []mechSpec{{Kind: "script", Name: "X-A"}}
			k := 1 + r.Intn(3)
			for j := 0; j < k; j++ {
				c.Steps = append(c.Steps, stepRes{More: j < k-1, Resp: "6162"})
			}
			ks := k
			if r.Chance(1, 3) {
				ks = 1 + r.Intn(3)
			}
			for j := 0; j < ks; j++ {
				c.SSteps = append(c.SSteps, stepRes{More: j < ks-1, Resp: "6364"})
			}
			if r.Chance(1, 5) {
				c.SSteps[r.Intn(len(c.SSteps))].Err = "authn"
			}
		}
		x.one(c)
	}
}
