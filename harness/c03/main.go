// Command c03 is the correspondence harness and implementation oracle for
// property C03 (sasl.go): the Authn bit is only set by a completed, accepted
// SASL exchange.
//
// Every case drives the real xmpp.NewSession / xmpp.ReceiveSession with the
// real default negotiator and xmpp.SASL / xmpp.SASLServer against a scripted
// peer. The peer is a deterministic in-memory connection that hands the
// session one top-level item per Read; mechanisms are scripted sasl.Mechanism
// values (the k-th Step returns a scripted result) or the real PLAIN / SCRAM
// mechanisms of mellium.im/sasl wrapped by a logger. A few end-to-end cases run
// the library's client against the library's server over net.Pipe.
package main

import (
	"bytes"
	"context"
	"crypto/sha1"
	"crypto/sha256"
	"encoding/base64"
	"encoding/json"
	"errors"
	"fmt"
	"hash"
	"io"
	"os"
	"reflect"
	"strings"
	"time"

	"golang.org/x/crypto/pbkdf2"

	"mellium.im/sasl"
	"mellium.im/xmlstream"
	"mellium.im/xmpp"
	"mellium.im/xmpp/jid"
	"verifharness/hx"

	"encoding/xml"
)

const (
	nsSASL   = "urn:ietf:params:xml:ns:xmpp-sasl"
	nsStream = "http://etherx.jabber.org/streams"
	nsDone   = "urn:verif:done"
	imports  = "From XV Require Import lib.Bytes C03.Model.\n"
)

// ---------------------------------------------------------------- case description

type mechSpec struct {
	Name string `json:"name"`
	Kind string `json:"kind"` // script | plain | scram-sha-1 | scram-sha-256 | scram-sha-1-plus | scram-sha-256-plus
}

type stepRes struct {
	More bool   `json:"more,omitempty"`
	Resp string `json:"resp,omitempty"` // hex
	Err  string `json:"err,omitempty"`  // "" | authn | other
}

type advName struct {
	NS   bool   `json:"ns"` // in the SASL namespace
	Name string `json:"name"`
}

type item struct {
	Kind       string `json:"kind"` // challenge success failure auth response abort other nonstart bad
	Raw        string `json:"raw,omitempty"`
	Mech       string `json:"mech,omitempty"`
	NoMech     bool   `json:"nomech,omitempty"`
	Cond       string `json:"cond,omitempty"`
	Text       bool   `json:"text,omitempty"`
	Variant    int    `json:"variant,omitempty"`
	BadContent int    `json:"badcontent,omitempty"` // 0 ok, 1 mismatched tags inside, 2 comment inside
	Name       string `json:"name,omitempty"`
	Space      string `json:"space,omitempty"`
	Bad        int    `json:"bad,omitempty"`
	WS         string `json:"ws,omitempty"`
	Dyn        string `json:"dyn,omitempty"` // scram-first | scram-final | scram-final-bad
}

type caseT struct {
	Role     string     `json:"role"` // client | server | e2e
	Mechs    []mechSpec `json:"mechs"`
	Adv      []advName  `json:"adv,omitempty"`
	Steps    []stepRes  `json:"steps,omitempty"`
	Verdicts []bool     `json:"verdicts,omitempty"`
	Ident    string     `json:"ident,omitempty"`
	User     string     `json:"user,omitempty"`
	Pass     string     `json:"pass,omitempty"`
	PeerPass string     `json:"peerpass,omitempty"`
	Script   []item     `json:"script"`
	Tag      string     `json:"tag,omitempty"`
	// e2e only: the server side of the pair
	SMechs []mechSpec `json:"smechs,omitempty"`
	SSteps []stepRes  `json:"ssteps,omitempty"`
	// hist only (hist.go): several connections on ONE feature value
	Side     string      `json:"side,omitempty"` // client | server
	Sessions []sessSpec  `json:"sessions,omitempty"`
	Sched    []schedStep `json:"sched,omitempty"`
}

// ---------------------------------------------------------------- observation

type event struct {
	Kind      string  `json:"kind"` // step | perm
	Mech      string  `json:"mech,omitempty"`
	Challenge string  `json:"challenge,omitempty"` // hex
	Res       stepRes `json:"res"`
	User      string  `json:"user,omitempty"` // hex
	Pass      string  `json:"pass,omitempty"`
	Ident     string  `json:"ident,omitempty"`
	Verdict   bool    `json:"verdict,omitempty"`
	At        int     `json:"at"` // script items delivered when it happened
}

type outElem struct {
	Kind    string `json:"kind"` // auth response challenge success failure other
	Mech    string `json:"mech,omitempty"`
	Payload string `json:"payload,omitempty"`
	Cond    int    `json:"cond,omitempty"`
}

type obsT struct {
	Panic     string    `json:"panic,omitempty"`
	Hung      bool      `json:"hung,omitempty"`
	Called    bool      `json:"called"`
	Mask      uint8     `json:"mask"`
	NegErr    string    `json:"negerr,omitempty"`
	NegText   string    `json:"negtext,omitempty"`
	FinalErr  string    `json:"finalerr,omitempty"`
	FinalText string    `json:"finaltext,omitempty"`
	State     uint8     `json:"state"`
	Authn     bool      `json:"authn"`
	Out       []outElem `json:"out,omitempty"`
	Listed    []string  `json:"listed,omitempty"`
	Events    []event   `json:"events,omitempty"`
	Delivered int       `json:"delivered"`
	Used      int       `json:"used"`
	Wire      string    `json:"wire,omitempty"`
}

// ---------------------------------------------------------------- scripted connection

type run struct {
	c *caseT

	pre    [][]byte
	post   [][]byte
	preI   int
	postI  int
	cur    []byte
	inPost bool
	out    bytes.Buffer

	delivered int
	textlike  []bool

	k, pk       int
	table       []stepRes
	events      []event
	lastMechErr error

	called  bool
	mask    xmpp.SessionState
	negErr  error
	peerNeg *sasl.Negotiator

	// histories (hist.go): called before every chunk is handed over; the
	// scheduler decides when the connection goes on
	park func()
}

func (h *run) restartSeen() bool {
	o := h.out.Bytes()
	if h.c.Role == "client" {
		return bytes.Count(o, []byte("<stream:stream")) >= 2
	}
	return bytes.Contains(o, []byte("<success"))
}

func (h *run) Read(p []byte) (int, error) {
	if len(h.cur) == 0 {
		if h.park != nil {
			h.park()
		}
		switch {
		case h.preI < len(h.pre):
			h.cur = h.pre[h.preI]
			h.preI++
		case h.inPost || h.restartSeen():
			h.inPost = true
			if h.postI >= len(h.post) {
				return 0, io.EOF
			}
			h.cur = h.post[h.postI]
			h.postI++
		case h.delivered < len(h.c.Script):
			it := &h.c.Script[h.delivered]
			data, tl := h.render(it)
			h.textlike = append(h.textlike, tl)
			h.delivered++
			h.cur = data
		default:
			return 0, io.EOF
		}
		if len(h.cur) == 0 {
			return 0, io.EOF
		}
	}
	n := copy(p, h.cur)
	h.cur = h.cur[n:]
	return n, nil
}

func (h *run) Write(p []byte) (int, error) { return h.out.Write(p) }

// ---------------------------------------------------------------- rendering of peer items

func xmlEsc(s string) string {
	var b bytes.Buffer
	_ = xml.EscapeText(&b, []byte(s))
	return b.String()
}

func elem(local, space, attrs, content string, variant int) string {
	if variant == 1 && space != "" {
		return fmt.Sprintf("<s:%s xmlns:s='%s'%s>%s</s:%s>", local, space, attrs, content, local)
	}
	x := ""
	if space != "" {
		x = " xmlns='" + space + "'"
	}
	if variant == 4 && content == "" {
		return fmt.Sprintf("<%s%s%s/>", local, x, attrs)
	}
	return fmt.Sprintf("<%s%s%s>%s</%s>", local, x, attrs, content, local)
}

func content(raw string, variant, bad int) string {
	c := raw
	switch variant {
	case 2:
		h := len(raw) / 2
		c = raw[:h] + "<x xmlns='urn:x'>ignored<y/></x>" + raw[h:]
	case 3:
		if !strings.Contains(raw, "]]>") {
			c = "<![CDATA[" + raw + "]]>"
		}
	}
	switch bad {
	case 1:
		c += "<a></b>"
	case 2:
		c += "<!-- c -->"
	}
	return c
}

var badChunks = []string{
	"",                    // 0: end of input
	"</stream:stream>",    // 1
	"<stream:error><not-authorized xmlns='urn:ietf:params:xml:ns:xmpp-streams'/></stream:error>", // 2
	"<!-- comment -->",    // 3
	"<?target inst?>",     // 4
	"<!DOCTYPE foo>",      // 5
	"<1a/>",               // 6: not a name
	"<stream:foo/>",       // 7: unknown stream-level element
	"<stream:stream xmlns='jabber:client' xmlns:stream='http://etherx.jabber.org/streams'>", // 8: restart
	"<a b></a>",           // 9: attribute without value
}

func (h *run) render(it *item) ([]byte, bool) {
	if it.Dyn != "" {
		it.Raw = h.dynPayload(it.Dyn)
	}
	switch it.Kind {
	case "challenge", "success", "response", "abort":
		return []byte(elem(it.Kind, nsSASL, "", content(it.Raw, it.Variant, it.BadContent), it.Variant)), false
	case "auth":
		attrs := ""
		if !it.NoMech {
			attrs = " mechanism='" + xmlEsc(it.Mech) + "'"
		}
		return []byte(elem("auth", nsSASL, attrs, content(it.Raw, it.Variant, it.BadContent), it.Variant)), false
	case "failure":
		c := ""
		if it.Cond != "" {
			c = "<" + it.Cond + "/>"
		}
		if it.Text {
			c += "<text xml:lang='en'>nope</text>"
		}
		return []byte(elem("failure", nsSASL, "", content(c, 0, it.BadContent), it.Variant)), false
	case "other":
		return []byte(elem(it.Name, it.Space, "", content(it.Raw, it.Variant, it.BadContent), it.Variant)), false
	case "nonstart":
		return []byte(it.WS), true
	case "bad":
		return []byte(badChunks[it.Bad%len(badChunks)]), false
	}
	panic("unknown item kind " + it.Kind)
}

// ---------------------------------------------------------------- SCRAM peer (server role) for dynamic items

func hashFor(mech string) func() hash.Hash {
	if strings.Contains(mech, "256") {
		return sha256.New
	}
	return sha1.New
}

func lastPayload(out []byte, local string) []byte {
	i := bytes.LastIndex(out, []byte("<"+local+" "))
	if i < 0 {
		return nil
	}
	rest := out[i:]
	a := bytes.IndexByte(rest, '>')
	b := bytes.Index(rest, []byte("</"+local+">"))
	if a < 0 || b < a {
		return nil
	}
	raw := rest[a+1 : b]
	dec := make([]byte, base64.StdEncoding.DecodedLen(len(raw)))
	n, err := base64.StdEncoding.Decode(dec, raw)
	if err != nil {
		return nil
	}
	return dec[:n]
}

func (h *run) dynPayload(kind string) string {
	out := h.out.Bytes()
	enc := func(b []byte) string { return base64.StdEncoding.EncodeToString(b) }
	switch kind {
	case "scram-first":
		name := ""
		if i := bytes.LastIndex(out, []byte(`mechanism="`)); i >= 0 {
			rest := out[i+len(`mechanism="`):]
			name = string(rest[:bytes.IndexByte(rest, '"')])
		}
		var m sasl.Mechanism
		switch strings.TrimSuffix(name, "-PLUS") {
		case "SCRAM-SHA-256":
			m = sasl.ScramSha256
		default:
			m = sasl.ScramSha1
		}
		fn := hashFor(name)
		salt := []byte("verif-salt")
		h.peerNeg = sasl.NewServer(m, nil, sasl.SaltedCredentials(func(user, ident []byte, mech string) ([]byte, []byte, int64, error) {
			return salt, pbkdf2.Key([]byte(h.c.PeerPass), salt, 64, fn().Size(), fn), 64, nil
		}))
		var resp []byte
		if p := hx.Catch(func() { _, resp, _ = h.peerNeg.Step(lastPayload(out, "auth")) }); p != "" || resp == nil {
			h.peerNeg = nil
			return enc([]byte("r=bogus,s=QQ==,i=64"))
		}
		return enc(resp)
	case "scram-final", "scram-final-bad":
		if h.peerNeg == nil {
			return enc([]byte("v=AAAA"))
		}
		var resp []byte
		if p := hx.Catch(func() { _, resp, _ = h.peerNeg.Step(lastPayload(out, "response")) }); p != "" || resp == nil {
			return enc([]byte("e=other-error"))
		}
		if kind == "scram-final-bad" && len(resp) > 4 {
			resp = append([]byte(nil), resp...)
			if resp[3] == 'A' {
				resp[3] = 'B'
			} else {
				resp[3] = 'A'
			}
		}
		return enc(resp)
	}
	return ""
}

// ---------------------------------------------------------------- mechanisms

var errScripted = errors.New("scripted mechanism error")

func realMech(kind string) sasl.Mechanism {
	switch kind {
	case "plain":
		return sasl.Plain
	case "scram-sha-1":
		return sasl.ScramSha1
	case "scram-sha-256":
		return sasl.ScramSha256
	case "scram-sha-1-plus":
		return sasl.ScramSha1Plus
	case "scram-sha-256-plus":
		return sasl.ScramSha256Plus
	}
	panic("unknown mechanism kind " + kind)
}

func (h *run) record(name string, ch []byte, r stepRes, err error) {
	if r.Err != "" { // Negotiator.Step: if err != nil { return false, nil, err }
		r.More, r.Resp = false, ""
	}
	idx := h.k
	h.k++
	for len(h.table) <= idx {
		h.table = append(h.table, stepRes{Err: "other"})
	}
	h.lastMechErr = err
	h.events = append(h.events, event{Kind: "step", Mech: name, Challenge: hx.Hex(ch), Res: r, At: h.delivered})
}

func (h *run) scripted(name string, ch []byte) (bool, []byte, interface{}, error) {
	idx := h.k
	r := stepRes{Err: "other"}
	if idx < len(h.c.Steps) {
		r = h.c.Steps[idx]
	}
	var err error
	switch r.Err {
	case "authn":
		err = sasl.ErrAuthn
	case "other":
		err = errScripted
	}
	h.record(name, ch, r, err)
	h.table[idx] = r
	return r.More, hx.UnHex(r.Resp), nil, err
}

func mechErrClass(err error) string {
	switch {
	case err == nil:
		return ""
	case errors.Is(err, sasl.ErrAuthn):
		return "authn"
	}
	return "other"
}

func (h *run) mech(spec mechSpec) sasl.Mechanism {
	return mechOf(func() *run { return h }, spec)
}

// mechOf builds the mechanism value; who is the connection whose log and
// script a Step belongs to at the time of the call. (A feature value shared by
// several connections shares its mechanism values too.)
func mechOf(who func() *run, spec mechSpec) sasl.Mechanism {
	if spec.Kind == "script" {
		name := spec.Name
		return sasl.Mechanism{
			Name: name,
			Start: func(n *sasl.Negotiator) (bool, []byte, interface{}, error) {
				return who().scripted(name, nil)
			},
			Next: func(n *sasl.Negotiator, ch []byte, _ interface{}) (bool, []byte, interface{}, error) {
				return who().scripted(name, ch)
			},
		}
	}
	real := realMech(spec.Kind)
	return sasl.Mechanism{
		Name: real.Name,
		Start: func(n *sasl.Negotiator) (bool, []byte, interface{}, error) {
			h := who()
			more, resp, cache, err := real.Start(n)
			idx := h.k
			r := stepRes{More: more, Resp: hx.Hex(resp), Err: mechErrClass(err)}
			h.record(real.Name, nil, r, err)
			h.table[idx] = r
			return more, resp, cache, err
		},
		Next: func(n *sasl.Negotiator, ch []byte, data interface{}) (bool, []byte, interface{}, error) {
			h := who()
			more, resp, cache, err := real.Next(n, ch, data)
			idx := h.k
			r := stepRes{More: more, Resp: hx.Hex(resp), Err: mechErrClass(err)}
			h.record(real.Name, ch, r, err)
			h.table[idx] = r
			return more, resp, cache, err
		},
	}
}

func (h *run) perm(n *sasl.Negotiator) bool {
	u, p, i := n.Credentials()
	idx := h.pk
	h.pk++
	v := idx < len(h.c.Verdicts) && h.c.Verdicts[idx]
	h.events = append(h.events, event{Kind: "perm", User: hx.Hex(u), Pass: hx.Hex(p), Ident: hx.Hex(i), Verdict: v, At: h.delivered})
	return v
}

// ---------------------------------------------------------------- error classes

func (h *run) classify(err error) string {
	if err == nil {
		return ""
	}
	switch err.Error() {
	case "xmpp: no matching SASL mechanisms found":
		return "nomech"
	case "xmpp: unexpected payload encountered during auth":
		return "unexpected"
	case "xmpp: the remote entity terminated authentication":
		return "terminated"
	}
	if errors.Is(err, sasl.ErrAuthn) {
		return "mechauthn"
	}
	if h.lastMechErr != nil && errors.Is(err, h.lastMechErr) {
		return "mechother"
	}
	var ce base64.CorruptInputError
	if errors.As(err, &ce) {
		return "b64"
	}
	if t := reflect.TypeOf(err); t != nil && t.String() == "saslerr.Error" {
		return fmt.Sprintf("saslfail:%d", reflect.ValueOf(err).FieldByName("Condition").Uint())
	}
	return "stream"
}

var condNames = []string{"none", "aborted", "account-disabled", "credentials-expired", "encryption-required",
	"incorrect-encoding", "invalid-authzid", "invalid-mechanism", "malformed-request", "mechanism-too-weak",
	"not-authorized", "temporary-auth-failure"}

func condIndex(name string) int {
	for i, n := range condNames {
		if n == name && i > 0 {
			return i
		}
	}
	return 0
}

// ---------------------------------------------------------------- running one case on the real code

func (h *run) wrap(f xmpp.StreamFeature) xmpp.StreamFeature {
	orig := f.Negotiate
	f.Negotiate = func(ctx context.Context, s *xmpp.Session, data interface{}) (xmpp.SessionState, io.ReadWriter, error) {
		mask, rw, err := orig(ctx, s, data)
		h.called, h.mask, h.negErr = true, mask, err
		return mask, rw, err
	}
	return f
}

func doneFeature() xmpp.StreamFeature {
	return xmpp.StreamFeature{
		Name:      xml.Name{Space: nsDone, Local: "done"},
		Necessary: xmpp.Authn,
		List: func(ctx context.Context, e xmlstream.TokenWriter, start xml.StartElement) (bool, error) {
			if err := e.EncodeToken(start); err != nil {
				return true, err
			}
			return true, e.EncodeToken(start.End())
		},
		Parse: func(ctx context.Context, d *xml.Decoder, start *xml.StartElement) (bool, interface{}, error) {
			return true, nil, d.Skip()
		},
		Negotiate: func(ctx context.Context, s *xmpp.Session, data interface{}) (xmpp.SessionState, io.ReadWriter, error) {
			if s.State()&xmpp.Received == 0 {
				w := s.TokenWriter()
				defer w.Close()
				st := xml.StartElement{Name: xml.Name{Space: nsDone, Local: "done"}}
				if err := w.EncodeToken(st); err != nil {
					return 0, nil, err
				}
				if err := w.EncodeToken(st.End()); err != nil {
					return 0, nil, err
				}
				return xmpp.Ready, nil, w.Flush()
			}
			r := s.TokenReader()
			defer r.Close()
			_, err := xmlstream.Copy(xmlstream.Discard(), xmlstream.Inner(r)) // consume up to the end element
			if err != nil {
				return 0, nil, err
			}
			return xmpp.Ready, nil, nil
		},
	}
}

func header(attrs string) []byte {
	return []byte("<?xml version='1.0'?><stream:stream" + attrs + " version='1.0' xmlns='jabber:client' xmlns:stream='" + nsStream + "'>")
}

func localJID(user string) jid.JID {
	if user == "" {
		return jid.MustParse("example.net")
	}
	return jid.MustParse(user + "@example.net")
}

// serve runs one connection on the real code with the given feature value.
func (h *run) serve(feat xmpp.StreamFeature) (*xmpp.Session, error) {
	c := h.c
	if c.Role == "client" {
		var adv strings.Builder
		adv.WriteString("<stream:features><mechanisms xmlns='" + nsSASL + "'>")
		for _, a := range c.Adv {
			if a.NS {
				adv.WriteString("<mechanism>" + xmlEsc(a.Name) + "</mechanism>")
			} else {
				adv.WriteString("<mechanism xmlns='urn:other'>" + xmlEsc(a.Name) + "</mechanism>")
			}
		}
		adv.WriteString("</mechanisms></stream:features>")
		h.pre = [][]byte{header(" id='verif1' from='example.net'"), []byte(adv.String())}
		h.post = [][]byte{header(" id='verif2' from='example.net'"), []byte("<stream:features/>")}
		neg := xmpp.NewNegotiator(func(*xmpp.Session, *xmpp.StreamConfig) xmpp.StreamConfig {
			return xmpp.StreamConfig{Features: []xmpp.StreamFeature{feat}}
		})
		return xmpp.NewSession(context.Background(), jid.MustParse("example.net"), localJID(c.User), h, xmpp.Secure, neg)
	}
	h.pre = [][]byte{header(" to='example.net'")}
	h.post = [][]byte{header(" to='example.net'"), []byte("<done xmlns='" + nsDone + "'/>")}
	neg := xmpp.NewNegotiator(func(*xmpp.Session, *xmpp.StreamConfig) xmpp.StreamConfig {
		return xmpp.StreamConfig{Features: []xmpp.StreamFeature{feat, doneFeature()}}
	})
	return xmpp.ReceiveSession(context.Background(), h, xmpp.Secure, neg)
}

// observe projects what the connection did.
func (h *run) observe(o *obsT, sess *xmpp.Session, err error) {
	c := h.c
	o.Called, o.Mask = h.called, uint8(h.mask)
	o.NegErr = h.classify(h.negErr)
	if h.negErr != nil {
		o.NegText = h.negErr.Error()
	}
	o.FinalErr = h.classify(err)
	if err != nil {
		o.FinalText = err.Error()
	}
	if sess != nil {
		o.State = uint8(sess.State())
		o.Authn = sess.State()&xmpp.Authn != 0
	}
	o.Events = h.events
	o.Delivered = h.delivered
	// Items the session consumed. A text item is only terminated by the '<' of
	// a later chunk, so the tokenizer pulls in the following chunks (all of them
	// while they are text too) before it can return the character data; the
	// session then fails on that token. So: everything up to and including the
	// first text item that was handed over.
	o.Used = h.delivered
	for i := 0; i < h.delivered; i++ {
		if h.textlike[i] {
			o.Used = i + 1
			break
		}
	}
	o.Wire = h.out.String()
	o.Out, o.Listed = parseOut(c.Role, h.out.Bytes())
	// what the model needs of the oracle table (real mechanisms: as logged)
	c.Steps = mergeSteps(c.Steps, h.table)
}

func runCase(c *caseT) *obsT {
	h := &run{c: c}
	o := &obsT{}
	var mechs []sasl.Mechanism
	for _, m := range c.Mechs {
		mechs = append(mechs, h.mech(m))
	}
	var sess *xmpp.Session
	var err error
	body := func() {
		if c.Role == "client" {
			sess, err = h.serve(h.wrap(xmpp.SASL(c.Ident, c.Pass, mechs...)))
		} else {
			sess, err = h.serve(h.wrap(xmpp.SASLServer(h.perm, mechs...)))
		}
	}
	finished := hx.WithTimeout(10*time.Second, func() { o.Panic = hx.Catch(body) })
	if !finished {
		o.Hung = true
		return o
	}
	h.observe(o, sess, err)
	return o
}

func mergeSteps(given, table []stepRes) []stepRes {
	out := append([]stepRes(nil), given...)
	for i, r := range table {
		if i < len(out) {
			out[i] = r
		} else {
			out = append(out, r)
		}
	}
	return out
}

// parseOut extracts the SASL-phase elements the session wrote (between its
// first stream header and the restart, if any) and, for a server, the names
// it listed in <mechanisms/>.
func parseOut(role string, wire []byte) (outs []outElem, listed []string) {
	i := bytes.Index(wire, []byte("<stream:stream"))
	if i < 0 {
		return nil, nil
	}
	j := bytes.IndexByte(wire[i:], '>')
	if j < 0 {
		return nil, nil
	}
	seg := wire[i+j+1:]
	if k := bytes.Index(seg, []byte("<?xml")); k >= 0 {
		seg = seg[:k]
	}
	elems, _, _, _ := hx.ParseTopLevel(seg, "jabber:client")
	for _, e := range elems {
		text := ""
		var kids []hx.Elem
		for _, n := range e.Children {
			if n.Elem != nil {
				kids = append(kids, *n.Elem)
			} else {
				text += n.Text
			}
		}
		if e.Space == nsStream && e.Local == "features" {
			for _, k := range kids {
				if k.Space == nsSASL && k.Local == "mechanisms" {
					listed = []string{}
					for _, m := range k.Children {
						if m.Elem != nil && m.Elem.Local == "mechanism" {
							t := ""
							for _, x := range m.Elem.Children {
								t += x.Text
							}
							listed = append(listed, t)
						}
					}
				}
			}
			continue
		}
		oe := outElem{Kind: "other", Payload: text}
		if e.Space == nsSASL {
			switch e.Local {
			case "auth":
				oe.Kind = "auth"
				oe.Mech, _ = e.Attr("mechanism")
			case "response", "challenge", "success":
				oe.Kind = e.Local
			case "failure":
				oe.Kind = "failure"
				if len(kids) > 0 {
					oe.Cond = condIndex(kids[0].Local)
				}
			}
		}
		outs = append(outs, oe)
	}
	return outs, listed
}

// ---------------------------------------------------------------- implementation oracle (independent of the Coq model)

func goDecode(raw string) ([]byte, bool) {
	dec := make([]byte, base64.StdEncoding.DecodedLen(len(raw)))
	n, err := base64.StdEncoding.Decode(dec, []byte(raw))
	if err != nil {
		return nil, false
	}
	return dec[:n], true
}

// strictB64 is the oracle's own reading of a payload: canonical padded base64
// (RFC 4648) with nothing else in it.
func strictB64(raw string) ([]byte, bool) {
	raw = strings.NewReplacer("\n", "", "\r", "").Replace(raw)
	b, err := base64.StdEncoding.Strict().DecodeString(raw)
	if err != nil { // DecodeString returns what it had decoded so far together with the error
		return nil, false
	}
	return b, true
}

// payloadOK: RFC 6120 6.4.2 — the payload of <auth/> / <response/> is base64, a
// single "=" for zero-length data, or absent.
func payloadOK(raw string) bool {
	if raw == "" || raw == "=" {
		return true
	}
	_, ok := strictB64(raw)
	return ok
}

func hasMech(specs []mechSpec, name string) (mechSpec, bool) {
	for _, m := range specs {
		n := m.Name
		if m.Kind != "script" {
			n = realMech(m.Kind).Name
		}
		if n == name {
			return m, true
		}
	}
	return mechSpec{}, false
}

type failure struct{ key, what string }

func oracle(c *caseT, o *obsT) []failure {
	var fs []failure
	add := func(key, what string) { fs = append(fs, failure{"C03/" + c.Role + "/" + key, what}) }
	if o.Panic != "" {
		add("panic", "session negotiation panicked: "+o.Panic)
		return fs
	}
	if o.Hung {
		add("hang", "session negotiation did not return")
		return fs
	}
	if o.Called && o.NegErr != "" && o.Mask != 0 {
		add("mask-with-error", fmt.Sprintf("the feature returned mask %d together with an error", o.Mask))
	}
	if o.Called && o.NegErr == "" && xmpp.SessionState(o.Mask) != xmpp.Authn {
		add("wrong-mask", fmt.Sprintf("the feature returned mask %d without error", o.Mask))
	}
	var steps []event
	for _, e := range o.Events {
		if e.Kind == "step" {
			steps = append(steps, e)
		}
	}
	delivered := c.Script[:o.Delivered]
	if c.Role == "client" {
		// a mechanism that both sides did not offer is never used
		advertised := map[string]bool{}
		for _, a := range c.Adv {
			if a.NS {
				advertised[a.Name] = true
			}
		}
		for _, e := range steps {
			if _, ok := hasMech(c.Mechs, e.Mech); !ok || !advertised[e.Mech] || e.Mech != steps[0].Mech {
				add("unoffered-mechanism", fmt.Sprintf("Step was called on mechanism %q, advertised: %v", e.Mech, c.Adv))
				break
			}
		}
		for _, e := range o.Out {
			if e.Kind == "auth" && (!advertised[e.Mech] || len(steps) == 0 || steps[0].Mech != e.Mech) {
				add("unoffered-mechanism", fmt.Sprintf("<auth/> names mechanism %q, advertised: %v", e.Mech, c.Adv))
			}
		}
		if !o.Authn {
			return fs
		}
		if len(steps) == 0 {
			add("authn-mechanism-not-run", "Authn is set although the mechanism was never stepped")
			return fs
		}
		for _, e := range steps {
			if e.Res.Err != "" {
				add("authn-after-mechanism-error", "Authn is set although a Step returned an error")
				return fs
			}
		}
		if steps[len(steps)-1].Res.More {
			add("authn-mechanism-incomplete", "Authn is set although the last Step returned more=true")
		}
		if len(delivered) == 0 {
			add("authn-without-success", "Authn is set although the peer sent nothing after the features")
			return fs
		}
		last := delivered[len(delivered)-1]
		if _, ok := goDecode(last.Raw); last.Kind != "success" || last.BadContent != 0 || !ok {
			add("authn-without-success", fmt.Sprintf("Authn is set although the last element read from the peer is %s, not a well-formed <success/>", describe(last)))
		}
		for _, it := range delivered[:len(delivered)-1] {
			if _, ok := goDecode(it.Raw); (it.Kind != "challenge" && it.Kind != "success") || it.BadContent != 0 || !ok {
				add("authn-after-bad-element", fmt.Sprintf("Authn is set although the peer sent %s during the exchange", describe(it)))
				break
			}
		}
		return fs
	}

	// ---- server
	successes := 0
	for i, e := range o.Out {
		if e.Kind == "success" {
			successes++
			if i != len(o.Out)-1 {
				add("success-not-last", "<success/> was written but is not the last SASL element")
			}
		}
	}
	if successes > 0 && !o.Authn {
		add("success-without-authn", "<success/> was written although the session is not authenticated")
	}
	// every Step is on a mechanism of the server's own list, named by the latest <auth/>
	for _, e := range steps {
		lastAuth := -1
		for i := 0; i < e.At && i < len(c.Script); i++ {
			if c.Script[i].Kind == "auth" {
				lastAuth = i
			}
		}
		_, ok := hasMech(c.Mechs, e.Mech)
		if !ok || lastAuth < 0 || c.Script[lastAuth].NoMech || c.Script[lastAuth].Mech != e.Mech || e.Mech == "" {
			add("unoffered-mechanism", fmt.Sprintf("Step was called on mechanism %q which the latest <auth/> did not select from the server's list", e.Mech))
			break
		}
	}
	if !o.Authn {
		return fs
	}
	if successes != 1 {
		add("authn-without-success-element", fmt.Sprintf("Authn is set and %d <success/> elements were written", successes))
	}
	if len(steps) == 0 {
		add("authn-mechanism-not-run", "Authn is set although no mechanism was stepped")
		return fs
	}
	lastStep := steps[len(steps)-1]
	if lastStep.Res.Err != "" || lastStep.Res.More {
		add("authn-mechanism-incomplete", "Authn is set although the last Step did not complete without error")
	}
	lastAuth := -1
	for i, it := range delivered {
		if it.Kind == "auth" {
			lastAuth = i
		}
	}
	if lastAuth < 0 {
		add("authn-without-auth", "Authn is set although the peer never sent <auth/>")
		return fs
	}
	for _, it := range delivered[lastAuth+1:] {
		if it.Kind != "response" || it.BadContent != 0 {
			add("authn-after-bad-element", fmt.Sprintf("Authn is set although the peer sent %s after its <auth/>", describe(it)))
			break
		}
	}
	for _, e := range steps {
		if e.At > lastAuth && e.Res.Err != "" {
			add("authn-after-mechanism-error", "Authn is set although a Step of the selected mechanism returned an error")
		}
	}
	// what was fed to the mechanism is what the peer sent: every payload since that <auth/> is
	// well-formed (padded base64 and nothing else, or "=" / nothing for no data)
	for _, it := range delivered[lastAuth:] {
		if !payloadOK(it.Raw) {
			add("authn-after-undecodable-payload", fmt.Sprintf("Authn is set although the peer sent %s, which is not base64", describe(it)))
			break
		}
	}
	spec, _ := hasMech(c.Mechs, c.Script[lastAuth].Mech)
	if spec.Kind == "plain" {
		// the permission callback accepted exactly the credentials of that <auth/>
		var perms []event
		for _, e := range o.Events {
			if e.Kind == "perm" && e.At > lastAuth {
				perms = append(perms, e)
			}
		}
		raw := c.Script[lastAuth].Raw
		var dec []byte
		if len(raw) >= 4 {
			dec, _ = strictB64(raw)
		}
		parts := bytes.Split(dec, []byte{0})
		switch {
		case len(perms) != 1 || !perms[0].Verdict:
			add("authn-permission-not-granted", "Authn is set (PLAIN) although the permission callback did not accept the credentials")
		case len(parts) != 3 || perms[0].Ident != hx.Hex(parts[0]) || perms[0].User != hx.Hex(parts[1]) || perms[0].Pass != hx.Hex(parts[2]):
			add("authn-wrong-credentials", "Authn is set (PLAIN) but the callback accepted other credentials than the <auth/> carried")
		}
	}
	return fs
}

func describe(it item) string {
	switch it.Kind {
	case "other":
		return fmt.Sprintf("<%s xmlns=%q>", it.Name, it.Space)
	case "nonstart":
		return fmt.Sprintf("text %q", it.WS)
	case "bad":
		return fmt.Sprintf("malformed input %q", badChunks[it.Bad%len(badChunks)])
	}
	s := "<" + it.Kind + ">"
	if it.BadContent != 0 {
		s += " with undecodable content"
	} else if it.Raw != "" {
		s += fmt.Sprintf(" with payload %q", it.Raw)
	}
	return s
}

// ---------------------------------------------------------------- Coq terms

func coqStr(s string) string { return hx.CoqBytes([]byte(s)) }
func coqHex(s string) string { return hx.CoqBytes(hx.UnHex(s)) }

func coqList(xs []string) string { return "[" + strings.Join(xs, "; ") + "]" }

func coqMechs(ms []mechSpec) string {
	var xs []string
	for _, m := range ms {
		name, kind := m.Name, "KScript"
		if m.Kind != "script" {
			name = realMech(m.Kind).Name
		}
		if m.Kind == "plain" {
			kind = "KPlain"
		}
		xs = append(xs, fmt.Sprintf("mkMech %s %s", coqStr(name), kind))
	}
	return coqList(xs)
}

func coqMerr(e string) string {
	switch e {
	case "authn":
		return "MAuthn"
	case "other":
		return "MOther"
	}
	return "MNone"
}

func coqSres(r stepRes) string {
	return fmt.Sprintf("(mkSres %s %s %s)", hx.CoqBool(r.More), coqHex(r.Resp), coqMerr(r.Err))
}

func coqSteps(rs []stepRes) string {
	var xs []string
	for _, r := range rs {
		xs = append(xs, coqSres(r))
	}
	return coqList(xs)
}

func coqPay(it item) string {
	if it.BadContent != 0 {
		return "None"
	}
	dec, ok := goDecode(it.Raw)
	d := "None"
	if ok {
		d = "(Some " + hx.CoqBytes(dec) + ")"
	}
	form := "PText"
	switch it.Raw {
	case "":
		form = "PNone"
	case "=":
		form = "PEq"
	}
	return fmt.Sprintf("(Some (mkPay %s %s))", form, d)
}

func coqCond(it item) string {
	if it.BadContent != 0 {
		return "None"
	}
	return "(Some " + hx.CoqNat(condIndex(it.Cond)) + ")"
}

func coqClientItem(it item) string {
	switch it.Kind {
	case "challenge":
		return "CChallenge " + coqPay(it)
	case "success":
		return "CSuccess " + coqPay(it)
	case "failure":
		return "CFailure " + coqCond(it)
	case "nonstart":
		return "CNonStart"
	case "bad":
		return "CBad"
	}
	return "COther"
}

func coqServerItem(it item) string {
	okc := hx.CoqBool(it.BadContent == 0)
	switch it.Kind {
	case "auth":
		name := it.Mech
		if it.NoMech {
			name = ""
		}
		return fmt.Sprintf("SAuth %s %s", coqStr(name), coqPay(it))
	case "response":
		return "SResponse " + coqPay(it)
	case "abort":
		return "SAbort " + okc
	case "failure":
		return "SFailure " + coqCond(it)
	case "nonstart":
		return "SNonStart"
	case "bad":
		return "SBad"
	}
	return "SOther " + okc
}

func coqErr(cls string) string {
	switch {
	case cls == "":
		return "None"
	case cls == "nomech":
		return "(Some ENoMech)"
	case cls == "unexpected":
		return "(Some EUnexpected)"
	case cls == "terminated":
		return "(Some ETerminated)"
	case cls == "mechauthn":
		return "(Some EMechAuthn)"
	case cls == "mechother":
		return "(Some EMechOther)"
	case cls == "b64":
		return "(Some EB64)"
	case strings.HasPrefix(cls, "saslfail:"):
		return "(Some (ESaslFailure " + cls[len("saslfail:"):] + "%nat))"
	}
	return "(Some EStream)"
}

func coqObs(o *obsT) string {
	var outs, evs []string
	for _, e := range o.Out {
		switch e.Kind {
		case "auth":
			outs = append(outs, fmt.Sprintf("OAuth %s %s", coqStr(e.Mech), coqStr(e.Payload)))
		case "response":
			outs = append(outs, "OResponse "+coqStr(e.Payload))
		case "challenge":
			outs = append(outs, "OChallenge "+coqStr(e.Payload))
		case "success":
			outs = append(outs, "OSuccess "+coqStr(e.Payload))
		case "failure":
			outs = append(outs, "OFailure "+hx.CoqNat(e.Cond))
		default:
			outs = append(outs, "OFailure 99%nat") // something the model never writes
		}
	}
	for _, e := range o.Events {
		if e.Kind == "step" {
			evs = append(evs, fmt.Sprintf("EvStep %s %s %s", coqStr(e.Mech), coqHex(e.Challenge), coqSres(e.Res)))
		} else {
			evs = append(evs, fmt.Sprintf("EvPerm %s %s %s %s", coqHex(e.User), coqHex(e.Pass), coqHex(e.Ident), hx.CoqBool(e.Verdict)))
		}
	}
	return fmt.Sprintf("(mkRes %s %s %s %s)", coqErr(o.NegErr), coqList(outs), coqList(evs), hx.CoqNat(o.Used))
}

func coqClientCase(c *caseT, o *obsT) string {
	var adv, items []string
	for _, a := range c.Adv {
		adv = append(adv, fmt.Sprintf("(%s, %s)", hx.CoqBool(a.NS), coqStr(a.Name)))
	}
	for _, it := range c.Script {
		items = append(items, coqClientItem(it))
	}
	cfg := fmt.Sprintf("(mkCcfg %s %s (mkCreds %s %s %s))", coqMechs(c.Mechs), coqList(adv), coqStr(c.Ident), coqStr(c.User), coqStr(c.Pass))
	return fmt.Sprintf("mkCcase %s %s %s %s %s", cfg, coqSteps(c.Steps), coqList(items), coqObs(o), hx.CoqBool(o.Authn))
}

func coqServerCase(c *caseT, o *obsT) string {
	var items, vs, listed []string
	for _, it := range c.Script {
		items = append(items, coqServerItem(it))
	}
	for _, v := range c.Verdicts {
		vs = append(vs, hx.CoqBool(v))
	}
	for _, n := range o.Listed {
		listed = append(listed, coqStr(n))
	}
	return fmt.Sprintf("mkScase %s %s %s %s %s %s %s", coqMechs(c.Mechs), coqSteps(c.Steps), coqList(vs), coqList(items), coqObs(o), hx.CoqBool(o.Authn), coqList(listed))
}

// ---------------------------------------------------------------- runner

type runner struct {
	res *hx.Result
	cc  hx.CaseFile
	sc  hx.CaseFile
	bc  hx.CaseFile
	hc  hx.CaseFile
}

type record struct {
	Case *caseT `json:"case"`
	Obs  *obsT  `json:"obs"`
}

func (x *runner) one(c *caseT) {
	if c.Role == "e2e" {
		x.e2e(c)
		return
	}
	if c.Role == "hist" {
		x.hist(c)
		return
	}
	o := runCase(c)
	canon, _ := json.Marshal(c)
	resultClass := "err:" + o.NegErr
	if !o.Called {
		resultClass = "sasl-not-reached"
	} else if o.NegErr == "" {
		resultClass = "authn"
	}
	classes := []string{"role/" + c.Role, "result/" + c.Role + "/" + resultClass, fmt.Sprintf("scriptlen/%d", len(c.Script)), "gen/" + c.Tag}
	for _, it := range c.Script[:o.Delivered] {
		classes = append(classes, "item/"+c.Role+"/"+it.Kind)
	}
	for _, m := range c.Mechs {
		classes = append(classes, "mech/"+m.Kind)
	}
	x.res.Count(string(canon), o.Called && (o.Delivered > 0 || len(o.Events) > 0), classes...)
	wire := o.Wire
	o.Wire = ""
	for _, f := range oracle(c, o) {
		o.Wire = wire
		x.res.Fail(f.key, f.what, c)
	}
	x.res.Sample(record{c, o})
	if !o.Called || o.Panic != "" || o.Hung {
		return
	}
	if c.Role == "client" {
		x.cc.Add(coqClientCase(c, o), record{c, o})
	} else {
		x.sc.Add(coqServerCase(c, o), record{c, o})
	}
}

func main() {
	o := hx.ParseFlags()
	res := hx.NewResult("C03")
	x := &runner{res: res}
	x.cc = hx.CaseFile{Name: "client", Imports: imports, Ok: "ccase_ok", Type: "ccase"}
	x.sc = hx.CaseFile{Name: "server", Imports: imports, Ok: "scase_ok", Type: "scase"}
	x.bc = hx.CaseFile{Name: "b64", Imports: imports, Ok: "bcase_ok", Type: "bcase"}
	x.hc = hx.CaseFile{Name: "hist", Imports: "From XV Require Import lib.Bytes C03.Model C03.Hist.\n", Ok: "hcase_ok", Type: "hcase"}
	r := hx.NewRand(o.Seed)

	if o.Replay != "" {
		b, err := os.ReadFile(o.Replay)
		if err != nil {
			fmt.Fprintln(os.Stderr, err)
			os.Exit(2)
		}
		var rp struct {
			Case caseT `json:"case"`
		}
		if err := json.Unmarshal(b, &rp); err != nil {
			fmt.Fprintln(os.Stderr, err)
			os.Exit(2)
		}
		x.one(&rp.Case)
	} else {
		generate(x, r, o)
	}
	res.Rule = "every case is a full xmpp.NewSession / xmpp.ReceiveSession (default negotiator, state Secure) with xmpp.SASL / xmpp.SASLServer " +
		"against a scripted peer: corpus (minimised defect witnesses), exhaustive peer-choice trees over a small item alphabet x mechanism step patterns, " +
		"honest transcripts with single mutations, random scripts (elements in and outside the SASL namespace, valid/invalid/empty/'=' base64, malformed XML), " +
		"real PLAIN / SCRAM-SHA-1 / SCRAM-SHA-256 (+ -PLUS names) against a reactive SCRAM peer, both permission verdicts, and client-vs-server pairs over net.Pipe; " +
		"distinct = hash of the case description; non-trivial = the SASL feature's Negotiate ran and read a peer element or stepped a mechanism"
	per := 1500
	if !o.Search { // search mode: implementation oracle only
		res.CaseFiles = append(res.CaseFiles, x.cc.Write(o.Out, per)...)
		res.CaseFiles = append(res.CaseFiles, x.sc.Write(o.Out, per)...)
		res.CaseFiles = append(res.CaseFiles, x.bc.Write(o.Out, per)...)
		res.CaseFiles = append(res.CaseFiles, x.hc.Write(o.Out, per)...)
		res.Extra["model_cases"] = x.cc.Len() + x.sc.Len() + x.bc.Len() + x.hc.Len()
	}
	res.Write(o.Out)
}
