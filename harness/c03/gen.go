package main

import (
	"encoding/base64"
	"fmt"

	"verifharness/hx"
)

func b64(b []byte) string { return base64.StdEncoding.EncodeToString(b) }

var weirdRaw = []string{"", "=", "==", "A", "AA", "AAA", "AA==", "AAA=", "AAAA", "!!!!", "AA=A", "A===", "AAAAA",
	"AAAA=", "=AAA", "YQ==\n", "YQ\n==", " YQ==", "YQ==YQ==", "YWJj====", "YQ=", "YQ", "YWJjZA", "*", "YWJj\n",
	"YQ==!!!!", "YWJj*", "YWJjAA=A", "YQ==AAA", "YWJjYQ=", "YWJj=", "YWJj!!!!YWJj"}

// spoil turns a valid base64 text into an undecodable one whose leading
// quanta still decode to the same bytes (or to a prefix of them): trailing
// garbage, data after the padding, an illegal character or bad padding in a
// later quantum. A decoder that returns what it had decoded so far together
// with its error hands exactly the original message to a careless caller.
func spoil(r *hx.Rand, valid string) string {
	tails := []string{"!!!!", "AAA", "*", "AA=A", "=", "====", "A", "....", "YQ=", "-_-_", " x"}
	return valid + tails[r.Intn(len(tails))]
}

// spoiled: the fixed shapes, for corpora and exhaustive alphabets
func spoiled(valid string) []string {
	return []string{valid + "!!!!", valid + "AAA", valid + "*", valid + "AA=A", valid + "="}
}

func genBytes(r *hx.Rand) []byte {
	var n int
	switch r.Intn(8) {
	case 0:
		n = 0
	case 1, 2, 3:
		n = 1 + r.Intn(6)
	case 4:
		n = 20 + r.Intn(30)
	default:
		n = r.Intn(12)
	}
	b := make([]byte, n)
	for i := range b {
		switch r.Intn(6) {
		case 0:
			b[i] = 0
		case 1:
			b[i] = byte(r.Intn(256))
		default:
			b[i] = "abcuserpw,=12"[r.Intn(13)]
		}
	}
	return b
}

func genRaw(r *hx.Rand) string {
	if r.Chance(1, 12) {
		return spoil(r, b64(genBytes(r)))
	}
	if r.Chance(7, 10) {
		b := genBytes(r)
		if len(b) == 0 && r.Bool() {
			return "="
		}
		return b64(b)
	}
	return weirdRaw[r.Intn(len(weirdRaw))]
}

func genCreds(r *hx.Rand) string {
	users := []string{"test", "user", "", "a"}
	if r.Chance(1, 7) { // well-formed credentials inside an undecodable payload
		return spoil(r, b64([]byte("\x00"+users[r.Intn(len(users))]+"\x00"+[]string{"pass", "passwd", "pw"}[r.Intn(3)])))
	}
	switch r.Intn(8) {
	case 0:
		return b64([]byte("user\x00pass")) // two parts
	case 1:
		return b64([]byte("a\x00b\x00c\x00d")) // four parts
	case 2:
		return "AAA=" // two NUL bytes: three empty parts
	default:
		return b64([]byte([]string{"", "admin"}[r.Intn(2)] + "\x00" + users[r.Intn(len(users))] + "\x00" + []string{"pass", "", "p\xc3\xa9"}[r.Intn(3)]))
	}
}

func genStepRes(r *hx.Rand, more bool) stepRes {
	s := stepRes{More: more}
	switch r.Intn(6) {
	case 0:
	case 1:
		s.Resp = hx.Hex(genBytes(r))
	default:
		s.Resp = hx.Hex([]byte("abcdef")[:1+r.Intn(5)])
	}
	return s
}

type space struct{ ns, local string }

var clientOthers = []space{{nsSASL, "auth"}, {nsSASL, "response"}, {nsSASL, "abort"}, {nsSASL, "mechanisms"}, {nsSASL, "foo"},
	{"jabber:client", "success"}, {"", "success"}, {"urn:x", "challenge"}, {"jabber:client", "iq"},
	{"urn:ietf:params:xml:ns:xmpp-tls", "proceed"}, {nsSASL + "x", "success"}, {"", "challenge"}, {nsSASL, "Success"}}

var serverOthers = []space{{nsSASL, "challenge"}, {nsSASL, "success"}, {nsSASL, "foo"}, {nsSASL, "AUTH"}, {nsSASL, "mechanisms"},
	{"jabber:client", "auth"}, {"urn:x", "auth"}, {"", "response"}, {"jabber:client", "message"}, {nsSASL + "x", "auth"}}

var wsTexts = []string{"\n", " ", "\t\n ", "junk", "x"}
var conds = []string{"", "not-authorized", "aborted", "temporary-auth-failure", "bogus-condition", "invalid-mechanism"}

func decorate(r *hx.Rand, it item) item {
	if r.Chance(1, 3) {
		it.Variant = r.Intn(5)
	}
	if r.Chance(1, 14) {
		it.BadContent = 1 + r.Intn(2)
	}
	return it
}

func genClientItem(r *hx.Rand) item {
	switch k := r.Intn(100); {
	case k < 35:
		return decorate(r, item{Kind: "challenge", Raw: genRaw(r)})
	case k < 65:
		return decorate(r, item{Kind: "success", Raw: genRaw(r)})
	case k < 75:
		return decorate(r, item{Kind: "failure", Cond: conds[r.Intn(len(conds))], Text: r.Chance(1, 3)})
	case k < 86:
		o := clientOthers[r.Intn(len(clientOthers))]
		return decorate(r, item{Kind: "other", Name: o.local, Space: o.ns, Raw: genRaw(r)})
	case k < 91:
		return item{Kind: "nonstart", WS: wsTexts[r.Intn(len(wsTexts))]}
	}
	return item{Kind: "bad", Bad: r.Intn(len(badChunks))}
}

func genServerItem(r *hx.Rand, names []string) item {
	switch k := r.Intn(100); {
	case k < 35:
		it := item{Kind: "auth", Raw: genRaw(r)}
		switch r.Intn(10) {
		case 0:
			it.NoMech = true
		case 1:
			it.Mech = []string{"UNKNOWN", "plain", "PLAIN ", "", "X-Z"}[r.Intn(5)]
		default:
			it.Mech = names[r.Intn(len(names))]
		}
		if it.Mech == "PLAIN" && r.Chance(3, 4) {
			it.Raw = genCreds(r)
		}
		return decorate(r, it)
	case k < 65:
		return decorate(r, item{Kind: "response", Raw: genRaw(r)})
	case k < 72:
		return decorate(r, item{Kind: "abort", Raw: []string{"", "x", "<not-authorized/>"}[0]})
	case k < 78:
		return decorate(r, item{Kind: "failure", Cond: conds[r.Intn(len(conds))], Text: r.Chance(1, 3)})
	case k < 88:
		o := serverOthers[r.Intn(len(serverOthers))]
		return decorate(r, item{Kind: "other", Name: o.local, Space: o.ns, Raw: genRaw(r)})
	case k < 92:
		return item{Kind: "nonstart", WS: wsTexts[r.Intn(len(wsTexts))]}
	}
	return item{Kind: "bad", Bad: r.Intn(len(badChunks))}
}

// ---- mechanism lists

var scriptNames = []string{"X-A", "X-B", "PLAIN", "SCRAM-SHA-1", "X-A&B", "", "X-A"}

func genMechs(r *hx.Rand, allowReal bool) []mechSpec {
	n := 1 + r.Intn(3)
	var ms []mechSpec
	for i := 0; i < n; i++ {
		if allowReal && r.Chance(1, 4) {
			ms = append(ms, mechSpec{Kind: "plain"})
			continue
		}
		ms = append(ms, mechSpec{Kind: "script", Name: scriptNames[r.Intn(len(scriptNames))]})
	}
	return ms
}

func mechName(m mechSpec) string {
	if m.Kind == "script" {
		return m.Name
	}
	return realMech(m.Kind).Name
}

func genAdv(r *hx.Rand, ms []mechSpec) []advName {
	var adv []advName
	extra := []string{"DIGEST-MD5", "X-OAUTH2", "", "x-a", "SCRAM-SHA-1-PLUS", "X-B"}
	switch r.Intn(10) {
	case 0: // nothing advertised
		return nil
	case 1: // only unrelated names
		for i := 0; i < 1+r.Intn(2); i++ {
			adv = append(adv, advName{NS: true, Name: extra[r.Intn(len(extra))]})
		}
		return adv
	}
	for _, m := range ms {
		if r.Chance(3, 4) {
			adv = append(adv, advName{NS: !r.Chance(1, 8), Name: mechName(m)})
		}
		if r.Chance(1, 3) {
			adv = append(adv, advName{NS: true, Name: extra[r.Intn(len(extra))]})
		}
	}
	// shuffle
	for i := len(adv) - 1; i > 0; i-- {
		j := r.Intn(i + 1)
		adv[i], adv[j] = adv[j], adv[i]
	}
	return adv
}

func genSteps(r *hx.Rand) []stepRes {
	n := r.Intn(5)
	var ss []stepRes
	for i := 0; i < n; i++ {
		s := genStepRes(r, r.Chance(3, 5))
		if r.Chance(1, 9) {
			s.Err = []string{"authn", "other"}[r.Intn(2)]
		}
		ss = append(ss, s)
	}
	return ss
}

// ---- honest transcripts and single mutations

func honestClient(r *hx.Rand) *caseT {
	n := 1 + r.Intn(4)
	c := &caseT{Role: "client", Tag: "honest", User: "test", Pass: "pw"}
	c.Mechs = []mechSpec{{Kind: "script", Name: "X-A"}}
	if r.Chance(1, 3) {
		c.Mechs = append([]mechSpec{{Kind: "script", Name: "X-B"}}, c.Mechs...)
	}
	c.Adv = []advName{{NS: true, Name: "X-A"}}
	if r.Chance(1, 3) {
		c.Adv = append(c.Adv, advName{NS: true, Name: "PLAIN"})
	}
	for i := 0; i < n; i++ {
		c.Steps = append(c.Steps, genStepRes(r, i < n-1))
	}
	onChallenge := n > 1 && r.Chance(1, 3) // the mechanism completes on a challenge, success follows
	for i := 1; i < n; i++ {
		kind := "challenge"
		if i == n-1 && !onChallenge {
			kind = "success"
		}
		c.Script = append(c.Script, item{Kind: kind, Raw: b64(genBytes(r))})
	}
	if n == 1 || onChallenge {
		raw := ""
		if r.Chance(1, 3) {
			raw = b64(genBytes(r))
		}
		c.Script = append(c.Script, item{Kind: "success", Raw: raw, Variant: 4 * r.Intn(2)})
	}
	return c
}

func honestServer(r *hx.Rand) *caseT {
	c := &caseT{Role: "server", Tag: "honest"}
	if r.Chance(1, 3) {
		c.Mechs = []mechSpec{{Kind: "script", Name: "X-A"}, {Kind: "plain"}}
		c.Verdicts = []bool{r.Chance(3, 4)}
		c.Script = []item{{Kind: "auth", Mech: "PLAIN", Raw: genCreds(r)}}
		return c
	}
	n := 1 + r.Intn(4)
	c.Mechs = []mechSpec{{Kind: "script", Name: "X-A"}}
	if r.Chance(1, 3) {
		c.Mechs = append(c.Mechs, mechSpec{Kind: "script", Name: "X-B"}, mechSpec{Kind: "plain"})
	}
	for i := 0; i < n; i++ {
		c.Steps = append(c.Steps, genStepRes(r, i < n-1))
	}
	c.Script = append(c.Script, item{Kind: "auth", Mech: "X-A", Raw: genRaw(r)})
	for i := 1; i < n; i++ {
		c.Script = append(c.Script, item{Kind: "response", Raw: b64(genBytes(r))})
	}
	return c
}

func mutate(r *hx.Rand, c *caseT, gen func() item) {
	c.Tag = "mutated"
	switch r.Intn(9) {
	case 0: // drop the last element
		if len(c.Script) > 0 {
			c.Script = c.Script[:len(c.Script)-1]
		}
	case 1: // replace one
		if len(c.Script) > 0 {
			c.Script[r.Intn(len(c.Script))] = gen()
		}
	case 2: // insert one
		p := r.Intn(len(c.Script) + 1)
		c.Script = append(c.Script[:p], append([]item{gen()}, c.Script[p:]...)...)
	case 3: // repeat the last
		if len(c.Script) > 0 {
			c.Script = append(c.Script, c.Script[len(c.Script)-1])
		}
	case 4: // swap two
		if len(c.Script) > 1 {
			i, j := r.Intn(len(c.Script)), r.Intn(len(c.Script))
			c.Script[i], c.Script[j] = c.Script[j], c.Script[i]
		}
	case 5: // a step fails
		if len(c.Steps) > 0 {
			c.Steps[r.Intn(len(c.Steps))].Err = []string{"authn", "other"}[r.Intn(2)]
		}
	case 6: // the mechanism wants more than the transcript has
		if len(c.Steps) > 0 {
			c.Steps[len(c.Steps)-1].More = true
		}
	case 7: // the mechanism finishes early
		if len(c.Steps) > 1 {
			c.Steps[r.Intn(len(c.Steps)-1)].More = false
		}
	case 8: // corrupt a payload
		if len(c.Script) > 0 {
			c.Script[r.Intn(len(c.Script))].Raw = weirdRaw[r.Intn(len(weirdRaw))]
		}
	}
}

// ---- exhaustive small scope

func enumerate(alpha []item, depth int, f func([]item)) {
	var rec func(cur []item, d int)
	rec = func(cur []item, d int) {
		f(append([]item(nil), cur...))
		if d == 0 {
			return
		}
		for _, a := range alpha {
			rec(append(cur, a), d-1)
		}
	}
	rec(nil, depth)
}

// step patterns: every assignment of more over the first k steps, plus error placements
func stepPatterns(k int) [][]stepRes {
	var ps [][]stepRes
	for bits := 0; bits < 1<<k; bits++ {
		var p []stepRes
		for i := 0; i < k; i++ {
			p = append(p, stepRes{More: bits>>i&1 == 1, Resp: []string{"", "61", "6162"}[i%3]})
		}
		ps = append(ps, p)
	}
	for pos := 0; pos < k; pos++ {
		for _, e := range []string{"authn", "other"} {
			var p []stepRes
			for i := 0; i < k; i++ {
				p = append(p, stepRes{More: true, Resp: "61"})
			}
			p[pos].Err = e
			ps = append(ps, p)
		}
	}
	return ps
}

func smallScope(x *runner, full, reduced int) {
	cFull := []item{
		{Kind: "challenge", Raw: "YQ=="}, {Kind: "challenge", Raw: ""}, {Kind: "success", Raw: "YWI="},
		{Kind: "success", Raw: "", Variant: 4}, {Kind: "success", Raw: "="}, {Kind: "success", Raw: "YQ==", BadContent: 1},
		{Kind: "failure", Cond: "not-authorized"}, {Kind: "other", Name: "success", Space: "jabber:client"},
		{Kind: "nonstart", WS: "\n"}, {Kind: "bad", Bad: 3},
	}
	cRed := []item{cFull[0], cFull[2], cFull[4], cFull[6], cFull[7]}
	run := func(alpha []item, depth, k int) {
		for _, p := range stepPatterns(k) {
			enumerate(alpha, depth, func(s []item) {
				x.one(&caseT{Role: "client", Tag: "smallscope", Mechs: []mechSpec{{Kind: "script", Name: "X-A"}},
					Adv: []advName{{NS: true, Name: "X-A"}}, User: "test", Steps: p, Script: s})
			})
		}
	}
	run(cFull, full, 3)
	run(cRed, reduced, 3)

	sFull := []item{
		{Kind: "auth", Mech: "X-A", Raw: "YQ=="}, {Kind: "auth", Mech: "PLAIN", Raw: b64([]byte("\x00test\x00pass"))},
		{Kind: "auth", Mech: "UNKNOWN", Raw: "YQ=="}, {Kind: "auth", Mech: "X-A", Raw: "!!!!"},
		{Kind: "response", Raw: "YWI="}, {Kind: "response", Raw: "="}, {Kind: "abort"},
		{Kind: "other", Name: "success", Space: nsSASL}, {Kind: "failure", Cond: "aborted"}, {Kind: "bad", Bad: 1},
		{Kind: "auth", Mech: "x-a", Raw: "YQ=="},
		{Kind: "auth", Mech: "PLAIN", Raw: b64([]byte("\x00test\x00pass")) + "!!!!"}, {Kind: "response", Raw: "YWI=AAA"},
	}
	sRed := []item{sFull[0], sFull[1], sFull[2], sFull[4], sFull[6]}
	runS := func(alpha []item, depth, k int) {
		for _, p := range stepPatterns(k) {
			for _, v := range [][]bool{{true}, {false, true}} {
				enumerate(alpha, depth, func(s []item) {
					x.one(&caseT{Role: "server", Tag: "smallscope", Mechs: []mechSpec{{Kind: "script", Name: "X-A"}, {Kind: "plain"}},
						Steps: p, Verdicts: v, Script: s})
				})
			}
		}
	}
	runS(sFull, full, 3)
	runS(sRed, reduced, 3)
	x.res.Extra["exhaustive_small_scope"] = fmt.Sprintf("all peer scripts up to length %d over %d client / %d server items and up to length %d over 5 items, x %d mechanism step patterns (x 2 verdict lists on the server)",
		full, len(cFull), len(sFull), reduced, len(stepPatterns(3)))
}

// ---- near misses of mechanism names: never equal, so never selected

func nearMisses(name string) []string {
	lower := []byte(name)
	for i, c := range lower {
		if c >= 'A' && c <= 'Z' {
			lower[i] = c + 32
		}
	}
	return []string{string(lower), name + " ", " " + name, name + "-PLUS", name[:len(name)-1], name + "\n", name + name, ""}
}

func nearMissCases(x *runner) {
	fin := []stepRes{{More: false, Resp: "61"}}
	for _, local := range []mechSpec{{Kind: "script", Name: "X-A"}, {Kind: "plain"}, {Kind: "scram-sha-1"}} {
		name := mechName(local)
		for _, nm := range nearMisses(name) {
			// initiator: only a near miss is advertised
			x.one(&caseT{Role: "client", Tag: "nearmiss", Mechs: []mechSpec{local}, Adv: []advName{{NS: true, Name: nm}}, User: "test", Pass: "pw", PeerPass: "pw",
				Steps: fin, Script: []item{{Kind: "success", Variant: 4}}})
			// the exact name, but outside the SASL namespace, next to a near miss inside
			x.one(&caseT{Role: "client", Tag: "nearmiss", Mechs: []mechSpec{local}, Adv: []advName{{NS: false, Name: name}, {NS: true, Name: nm}}, User: "test", Pass: "pw",
				Steps: fin, Script: []item{{Kind: "success", Variant: 4}}})
			// receiver: <auth/> names a near miss
			if local.Kind != "scram-sha-1" {
				x.one(&caseT{Role: "server", Tag: "nearmiss", Mechs: []mechSpec{local}, Steps: fin, Verdicts: []bool{true},
					Script: []item{{Kind: "auth", Mech: nm, Raw: b64([]byte("\x00test\x00pass"))}}})
			}
		}
	}
}

// ---- real mechanisms

func realClient(x *runner, r *hx.Rand, n int) {
	kinds := []string{"scram-sha-1", "scram-sha-256", "scram-sha-1-plus", "scram-sha-256-plus", "plain"}
	for i := 0; i < n; i++ {
		c := &caseT{Role: "client", Tag: "real", User: []string{"test", "user", ""}[r.Intn(3)], Pass: "secret", Ident: []string{"", "admin"}[r.Intn(2)]}
		c.PeerPass = c.Pass
		if r.Chance(1, 4) {
			c.PeerPass = "other"
		}
		// preference list
		for _, k := range kinds {
			if r.Chance(1, 2) {
				c.Mechs = append(c.Mechs, mechSpec{Kind: k})
			}
		}
		if len(c.Mechs) == 0 {
			c.Mechs = []mechSpec{{Kind: kinds[r.Intn(len(kinds))]}}
		}
		if r.Chance(1, 2) { // preference order other than strongest-first
			i, j := r.Intn(len(c.Mechs)), r.Intn(len(c.Mechs))
			c.Mechs[i], c.Mechs[j] = c.Mechs[j], c.Mechs[i]
		}
		for _, k := range kinds {
			if r.Chance(3, 5) {
				c.Adv = append(c.Adv, advName{NS: true, Name: realMech(k).Name})
			}
		}
		if r.Chance(1, 6) {
			c.Adv = append(c.Adv, advName{NS: true, Name: "X-OAUTH2"})
		}
		// peer behaviour
		first := item{Kind: "challenge", Dyn: "scram-first"}
		final := item{Kind: "success", Dyn: "scram-final"}
		switch r.Intn(12) {
		case 0, 1, 2, 3: // honest
			c.Script = []item{first, final}
		case 4: // server-final sent as a challenge, then success
			final.Kind = "challenge"
			c.Script = []item{first, final, {Kind: "success", Variant: 4}}
		case 5: // server-final sent as a challenge and nothing else
			final.Kind = "challenge"
			c.Script = []item{first, final}
		case 6: // tampered server signature
			final.Dyn = "scram-final-bad"
			c.Script = []item{first, final}
		case 7: // early success
			c.Script = []item{{Kind: "success", Variant: 4}}
		case 8: // server-first carried by <success/>
			first.Kind = "success"
			c.Script = []item{first, final}
		case 9: // repeated success
			c.Script = []item{first, final, final}
		case 10:
			c.Script = []item{first, {Kind: "failure", Cond: "not-authorized"}}
		default:
			c.Script = []item{first, genClientItem(r), final}
		}
		x.one(c)
	}
}

func realServer(x *runner, r *hx.Rand, n int) {
	for i := 0; i < n; i++ {
		c := &caseT{Role: "server", Tag: "real"}
		c.Mechs = []mechSpec{{Kind: "plain"}}
		if r.Chance(1, 2) {
			c.Mechs = append([]mechSpec{{Kind: []string{"scram-sha-1", "scram-sha-256"}[r.Intn(2)]}}, c.Mechs...)
		}
		if r.Chance(1, 3) {
			c.Mechs = append(c.Mechs, mechSpec{Kind: "script", Name: "X-A"})
			c.Steps = genSteps(r)
		}
		c.Verdicts = []bool{r.Chance(1, 2), r.Chance(1, 2)}
		names := []string{"PLAIN"}
		for _, m := range c.Mechs {
			names = append(names, mechName(m))
		}
		k := 1 + r.Intn(3)
		for j := 0; j < k; j++ {
			it := genServerItem(r, names)
			if j == 0 && r.Chance(3, 4) {
				it = item{Kind: "auth", Mech: names[r.Intn(len(names))], Raw: genCreds(r)}
			}
			if it.Kind == "auth" && (it.Mech == "SCRAM-SHA-1" || it.Mech == "SCRAM-SHA-256") && r.Chance(1, 2) {
				it.Raw = b64([]byte("n,,n=user,r=clientnonce"))
			}
			c.Script = append(c.Script, it)
		}
		x.one(c)
	}
}

// ---- corpus: minimised witnesses of defects and the shapes named in the property

func corpus() []*caseT {
	xa := []mechSpec{{Kind: "script", Name: "X-A"}}
	adv := []advName{{NS: true, Name: "X-A"}}
	two := []stepRes{{More: true, Resp: "61"}, {More: false}}
	cs := []*caseT{
		// the pinned defect: the mechanism completes on a <challenge/>, no <success/> ever arrives
		{Role: "client", Mechs: xa, Adv: adv, Steps: two, Script: []item{{Kind: "challenge", Raw: "YQ=="}}},
		{Role: "client", Mechs: xa, Adv: adv, Steps: two, Script: []item{{Kind: "challenge", Raw: "YQ=="}, {Kind: "failure", Cond: "not-authorized"}}},
		{Role: "client", Mechs: xa, Adv: adv, Steps: two, Script: []item{{Kind: "challenge", Raw: "YQ=="}, {Kind: "challenge", Raw: "YQ=="}}},
		{Role: "client", Mechs: xa, Adv: adv, Steps: two, Script: []item{{Kind: "challenge", Raw: "YQ=="}, {Kind: "success", Variant: 4}}},
		// same with real SCRAM: the server's final message arrives in a <challenge/>
		{Role: "client", Mechs: []mechSpec{{Kind: "scram-sha-1"}}, Adv: []advName{{NS: true, Name: "SCRAM-SHA-1"}}, User: "test", Pass: "secret", PeerPass: "secret",
			Script: []item{{Kind: "challenge", Dyn: "scram-first"}, {Kind: "challenge", Dyn: "scram-final"}}},
		// honest runs
		{Role: "client", Mechs: xa, Adv: adv, Steps: two, Script: []item{{Kind: "success", Raw: "YQ=="}}},
		{Role: "client", Mechs: []mechSpec{{Kind: "plain"}}, Adv: []advName{{NS: true, Name: "PLAIN"}}, User: "test", Script: []item{{Kind: "success", Variant: 4}}},
		{Role: "client", Mechs: []mechSpec{{Kind: "scram-sha-256"}}, Adv: []advName{{NS: true, Name: "SCRAM-SHA-256"}}, User: "test", Pass: "secret", PeerPass: "secret",
			Script: []item{{Kind: "challenge", Dyn: "scram-first"}, {Kind: "success", Dyn: "scram-final"}}},
		// premature and repeated success, challenge after completion, '=' payloads
		{Role: "client", Mechs: xa, Adv: adv, Steps: []stepRes{{More: true}, {More: true}, {More: false}}, Script: []item{{Kind: "success", Raw: "YQ=="}, {Kind: "success", Raw: "YQ=="}}},
		{Role: "client", Mechs: xa, Adv: adv, Steps: []stepRes{{More: false, Resp: "61"}}, Script: []item{{Kind: "challenge", Raw: "YQ=="}, {Kind: "success"}}},
		{Role: "client", Mechs: xa, Adv: adv, Steps: []stepRes{{More: false}}, Script: []item{{Kind: "success", Raw: "="}}},
		{Role: "client", Mechs: xa, Adv: adv, Steps: two, Script: []item{{Kind: "other", Name: "success", Space: "jabber:client"}}},
		// mechanism selection
		{Role: "client", Mechs: []mechSpec{{Kind: "script", Name: "X-A"}, {Kind: "plain"}}, Adv: []advName{{NS: true, Name: "PLAIN"}, {NS: false, Name: "X-A"}}, User: "test", Script: []item{{Kind: "success"}}},
		{Role: "client", Mechs: []mechSpec{{Kind: "script", Name: ""}, {Kind: "plain"}}, Adv: []advName{{NS: true, Name: ""}, {NS: true, Name: "PLAIN"}}, User: "test", Script: []item{{Kind: "success"}}},
		{Role: "client", Mechs: xa, Adv: []advName{{NS: true, Name: "X-B"}}, Steps: two, Script: []item{{Kind: "success"}}},
		// server
		{Role: "server", Mechs: []mechSpec{{Kind: "plain"}}, Verdicts: []bool{true}, Script: []item{{Kind: "auth", Mech: "PLAIN", Raw: "AHRlc3QAcGFzcw=="}}},
		{Role: "server", Mechs: []mechSpec{{Kind: "plain"}}, Verdicts: []bool{false}, Script: []item{{Kind: "auth", Mech: "PLAIN", Raw: "AHRlc3QAcGFzcw=="}}},
		{Role: "server", Mechs: []mechSpec{{Kind: "plain"}}, Verdicts: []bool{true}, Script: []item{{Kind: "auth", Mech: "PLAIN", Raw: "="}}},
		{Role: "server", Mechs: []mechSpec{{Kind: "plain"}}, Verdicts: []bool{true}, Script: []item{{Kind: "auth", Mech: "PLAIN", Raw: "AAA="}}},
		{Role: "server", Mechs: []mechSpec{{Kind: "plain"}}, Verdicts: []bool{true}, Script: []item{{Kind: "response", Raw: "AHRlc3QAcGFzcw=="}}},
		{Role: "server", Mechs: []mechSpec{{Kind: "plain"}}, Verdicts: []bool{true}, Script: []item{{Kind: "abort"}}},
		{Role: "server", Mechs: []mechSpec{{Kind: "plain"}}, Verdicts: []bool{true}, Script: []item{{Kind: "auth", Mech: "SCRAM-SHA-1", Raw: "biwsbj11c2VyLHI9Yw=="}}},
		{Role: "server", Mechs: xa, Steps: two, Script: []item{{Kind: "auth", Mech: "X-A", Raw: "YQ=="}, {Kind: "response", Raw: "YQ=="}}},
		{Role: "server", Mechs: xa, Steps: two, Script: []item{{Kind: "auth", Mech: "X-A", Raw: "YQ=="}, {Kind: "auth", Mech: "X-A", Raw: "YQ=="}}},
		{Role: "server", Mechs: xa, Steps: two, Script: []item{{Kind: "auth", Mech: "X-A", Raw: "YQ=="}, {Kind: "abort"}}},
		{Role: "server", Mechs: xa, Steps: two, Script: []item{{Kind: "auth", Mech: "X-A", Raw: "AA=A"}}},
		{Role: "server", Mechs: []mechSpec{{Kind: "scram-sha-1"}, {Kind: "plain"}}, Verdicts: []bool{true}, Script: []item{{Kind: "auth", Mech: "SCRAM-SHA-1", Raw: b64([]byte("n,,n=user,r=abc"))}}},
	}
	// undecodable payloads whose leading part decodes to a well-formed message: PLAIN credentials the
	// callback accepts, the initial response and a later response of a scripted mechanism; and the
	// initiator's side of the same (challenge / success data)
	for _, creds := range []string{"\x00test\x00pass", "\x00test\x00passwd", "admin\x00test\x00pw"} {
		for _, raw := range spoiled(b64([]byte(creds))) {
			cs = append(cs, &caseT{Role: "server", Mechs: []mechSpec{{Kind: "plain"}}, Verdicts: []bool{true}, Script: []item{{Kind: "auth", Mech: "PLAIN", Raw: raw}}})
		}
	}
	cs = append(cs, &caseT{Role: "server", Mechs: []mechSpec{{Kind: "plain"}}, Verdicts: []bool{true}, Script: []item{{Kind: "auth", Mech: "PLAIN", Raw: "AHRlc3QAcGFzc3dkAA=A"}}})
	for _, raw := range append(spoiled("YWJj"), spoiled("YQ==")...) {
		cs = append(cs,
			&caseT{Role: "server", Mechs: xa, Steps: []stepRes{{More: false}}, Script: []item{{Kind: "auth", Mech: "X-A", Raw: raw}}},
			&caseT{Role: "server", Mechs: xa, Steps: two, Script: []item{{Kind: "auth", Mech: "X-A", Raw: "YQ=="}, {Kind: "response", Raw: raw}}},
			&caseT{Role: "client", Mechs: xa, Adv: adv, Steps: two, Script: []item{{Kind: "success", Raw: raw}}},
			&caseT{Role: "client", Mechs: xa, Adv: adv, Steps: two, Script: []item{{Kind: "challenge", Raw: raw}, {Kind: "success", Variant: 4}}},
			&caseT{Role: "client", Mechs: xa, Adv: adv, Steps: []stepRes{{More: false}}, Script: []item{{Kind: "success", Raw: raw}}})
	}
	for _, c := range cs {
		c.Tag = "corpus"
	}
	return cs
}

func generate(x *runner, r *hx.Rand, o hx.Opts) {
	for _, c := range corpus() {
		x.one(c)
	}
	for _, c := range histCorpus() {
		x.one(c)
	}
	// base64 encoder
	for i := 0; i < 120; i++ {
		b := genBytes(r)
		if i < 8 {
			b = []byte("\xfb\xff\xfe\x00\x3e\x3f\xbf")[:i]
		}
		x.bc.Add(fmt.Sprintf("mkBcase %s %s", hx.CoqBytes(b), coqStr(b64(b))), map[string]string{"src": hx.Hex(b)})
	}
	full, reduced, n := 2, 3, 1200
	if o.Thorough() {
		full, reduced, n = 3, 4, 12000
	}
	if o.Search {
		full, reduced, n = 3, 4, 30000
	}
	smallScope(x, full, reduced)
	nearMissCases(x)
	for i := 0; i < n; i++ {
		switch i % 4 {
		case 0:
			c := honestClient(r)
			if r.Chance(2, 3) {
				mutate(r, c, func() item { return genClientItem(r) })
			}
			x.one(c)
		case 1:
			c := honestServer(r)
			if r.Chance(2, 3) {
				mutate(r, c, func() item { return genServerItem(r, []string{"X-A", "PLAIN", "X-B"}) })
			}
			x.one(c)
		case 2:
			c := &caseT{Role: "client", Tag: "random", User: []string{"test", ""}[r.Intn(2)], Pass: "pw", Ident: []string{"", "id"}[r.Intn(2)]}
			c.Mechs = genMechs(r, true)
			c.Adv = genAdv(r, c.Mechs)
			c.Steps = genSteps(r)
			for k := r.Intn(5); k > 0; k-- {
				c.Script = append(c.Script, genClientItem(r))
			}
			x.one(c)
		default:
			c := &caseT{Role: "server", Tag: "random"}
			c.Mechs = genMechs(r, true)
			c.Steps = genSteps(r)
			c.Verdicts = []bool{r.Bool(), r.Bool()}
			var names []string
			for _, m := range c.Mechs {
				names = append(names, mechName(m))
			}
			for k := r.Intn(5); k > 0; k-- {
				c.Script = append(c.Script, genServerItem(r, names))
			}
			x.one(c)
		}
	}
	realClient(x, r, n/6)
	realServer(x, r, n/6)
	e2eCases(x, r, n/40)
	histCases(x, r, o)
}
