package main

// Histories: several connections that share ONE SASL feature value.
//
// xmpp.SASL / xmpp.SASLServer return a StreamFeature whose List, Parse and
// Negotiate fields are closures of one activation of newSASL; the documentation
// allows the value to be used for any number of connections. What a connection's
// receiver advertised is per-connection data (Parse returns it, the negotiator
// stores it with the session and hands it to Negotiate); nothing of it may live
// in the state the closures share.
//
// A history case has one feature value (mechanism list, identity, password), a
// list of connections (each with its own advertised list, local JID, scripted
// mechanism results, permission verdicts and peer script) and a schedule. Every
// connection is a full xmpp.NewSession / xmpp.ReceiveSession in its own
// goroutine; the scheduler lets exactly one of them run at a time, from one
// gate to the next. Gates: before every chunk the scripted peer hands over
// (stream header, features list, each script item, ...) and at the entry of the
// feature's Negotiate. So "A's features list is parsed, then B's, then A
// negotiates" is a schedule, and so is any interleaving of the elements of two
// exchanges. The calls of the shared value's Parse and Negotiate go through a
// per-connection wrapper that logs them (the Coq model replays that log) and
// delegates to the one shared value.
//
// Judged per connection by the same implementation oracle as single runs (with
// the connection's OWN advertised list: "a mechanism that this connection's
// receiver did not offer is never used"), and compared with the Coq model of
// histories (C03/Hist.v, hcase_ok).

import (
	"context"
	"encoding/json"
	"encoding/xml"
	"errors"
	"fmt"
	"io"
	"strings"
	"time"

	"mellium.im/sasl"
	"mellium.im/xmpp"
	"verifharness/hx"
)

type sessSpec struct {
	Adv      []advName `json:"adv,omitempty"`
	User     string    `json:"user,omitempty"`
	Steps    []stepRes `json:"steps,omitempty"`
	Verdicts []bool    `json:"verdicts,omitempty"`
	Script   []item    `json:"script"`
}

// schedStep lets connection S run: through one gate (Until ""), until its
// features list has been parsed ("parse"), until its Negotiate has returned
// ("neg"), or until its session constructor has returned ("end"). Connections
// that are not finished when the schedule ends are completed in order.
type schedStep struct {
	S     int    `json:"s"`
	Until string `json:"until,omitempty"`
}

type hopT struct {
	Op string `json:"op"` // parse | neg
	I  int    `json:"i"`
}

type hevent struct {
	i   int
	fin bool
}

var errAborted = errors.New("history aborted")

type histRun struct {
	c       *caseT
	base    xmpp.StreamFeature
	runs    []*run
	cases   []*caseT
	cur     int
	gate    []chan struct{}
	status  chan hevent
	abort   chan struct{}
	done    []bool
	parsed  []bool
	negIn   []bool
	negDone []bool
	ops     []hopT
	sess    []*xmpp.Session
	errs    []error
	panics  []string
	hung    bool
}

// park reports to the scheduler that connection i is at a gate and waits to
// be let through; false when the history was aborted.
func (hr *histRun) park(i int) bool {
	select {
	case hr.status <- hevent{i, false}:
	case <-hr.abort:
		return false
	}
	select {
	case <-hr.gate[i]:
		return true
	case <-hr.abort:
		return false
	}
}

// release lets connection i run to its next gate or to its end.
func (hr *histRun) release(i int) bool {
	hr.cur = i
	t := time.NewTimer(10 * time.Second)
	defer t.Stop()
	select {
	case hr.gate[i] <- struct{}{}:
	case <-t.C:
		return false
	}
	select {
	case ev := <-hr.status:
		if ev.fin {
			hr.done[ev.i] = true
		}
		return true
	case <-t.C:
		return false
	}
}

func (hr *histRun) feature(i int) xmpp.StreamFeature {
	f := hr.base
	h := hr.runs[i]
	f.Parse = func(ctx context.Context, d *xml.Decoder, start *xml.StartElement) (bool, interface{}, error) {
		hr.ops = append(hr.ops, hopT{"parse", i})
		req, data, err := hr.base.Parse(ctx, d, start)
		hr.parsed[i] = true
		return req, data, err
	}
	f.Negotiate = func(ctx context.Context, s *xmpp.Session, data interface{}) (xmpp.SessionState, io.ReadWriter, error) {
		if !hr.park(i) {
			return 0, nil, errAborted
		}
		hr.ops = append(hr.ops, hopT{"neg", i})
		hr.negIn[i] = true
		mask, rw, err := hr.base.Negotiate(ctx, s, data)
		h.called, h.mask, h.negErr = true, mask, err
		hr.negDone[i] = true
		return mask, rw, err
	}
	return f
}

func runHist(c *caseT) (*histRun, []*obsT) {
	n := len(c.Sessions)
	hr := &histRun{c: c, status: make(chan hevent), abort: make(chan struct{}),
		done: make([]bool, n), parsed: make([]bool, n), negIn: make([]bool, n), negDone: make([]bool, n),
		sess: make([]*xmpp.Session, n), errs: make([]error, n), panics: make([]string, n)}
	for _, s := range c.Sessions {
		sc := &caseT{Role: c.Side, Mechs: c.Mechs, Adv: s.Adv, Ident: c.Ident, User: s.User, Pass: c.Pass, PeerPass: c.PeerPass, Tag: c.Tag,
			Steps: append([]stepRes(nil), s.Steps...), Verdicts: s.Verdicts, Script: append([]item(nil), s.Script...)}
		hr.cases = append(hr.cases, sc)
		hr.runs = append(hr.runs, &run{c: sc})
		hr.gate = append(hr.gate, make(chan struct{}))
	}
	// ONE feature value, with ONE list of mechanism values, for all connections
	who := func() *run { return hr.runs[hr.cur] }
	var mechs []sasl.Mechanism
	for _, m := range c.Mechs {
		mechs = append(mechs, mechOf(who, m))
	}
	if c.Side == "client" {
		hr.base = xmpp.SASL(c.Ident, c.Pass, mechs...)
	} else {
		hr.base = xmpp.SASLServer(func(n *sasl.Negotiator) bool { return who().perm(n) }, mechs...)
	}
	for i := range hr.runs {
		i := i
		hr.runs[i].park = func() {
			if !hr.park(i) {
				panic(errAborted)
			}
		}
		go func() {
			defer func() {
				select {
				case hr.status <- hevent{i, true}:
				case <-hr.abort:
				}
			}()
			if !hr.park(i) {
				return
			}
			hr.panics[i] = hx.Catch(func() { hr.sess[i], hr.errs[i] = hr.runs[i].serve(hr.feature(i)) })
		}()
	}
	ok := true
	// all connections arrive at their first gate
	for k := 0; k < n && ok; k++ {
		select {
		case <-hr.status:
		case <-time.After(10 * time.Second):
			ok = false
		}
	}
	step := func(st schedStep) {
		i := st.S
		if i < 0 || i >= n {
			return
		}
		reached := func() bool {
			switch st.Until {
			case "parse":
				return hr.parsed[i] || c.Side != "client"
			case "neg":
				return hr.negDone[i]
			case "end":
				return false
			}
			return true
		}
		for k := 0; ok && !hr.done[i] && k < 200; k++ {
			ok = hr.release(i)
			if reached() {
				break
			}
		}
	}
	for _, st := range c.Sched {
		if !ok {
			break
		}
		step(st)
	}
	for i := 0; i < n && ok; i++ {
		step(schedStep{S: i, Until: "end"})
		if !hr.done[i] {
			ok = false
		}
	}
	if !ok {
		hr.hung = true
		close(hr.abort)
		time.Sleep(20 * time.Millisecond)
	}
	obs := make([]*obsT, n)
	for i := range obs {
		obs[i] = &obsT{Panic: hr.panics[i]}
		switch {
		case hr.hung:
			obs[i].Hung = true
		case hr.panics[i] == "":
			hr.runs[i].observe(obs[i], hr.sess[i], hr.errs[i])
		}
	}
	return hr, obs
}

// ---------------------------------------------------------------- Coq term

func coqHistCase(hr *histRun, obs []*obsT) string {
	c := hr.c
	var sess, ops, os []string
	for i, sc := range hr.cases {
		var items []string
		if c.Side == "client" {
			var adv []string
			for _, a := range sc.Adv {
				adv = append(adv, fmt.Sprintf("(%s, %s)", hx.CoqBool(a.NS), coqStr(a.Name)))
			}
			for _, it := range sc.Script {
				items = append(items, coqClientItem(it))
			}
			sess = append(sess, fmt.Sprintf("HClient %s %s %s %s", coqList(adv), coqStr(sc.User), coqSteps(sc.Steps), coqList(items)))
		} else {
			var vs []string
			for _, v := range sc.Verdicts {
				vs = append(vs, hx.CoqBool(v))
			}
			for _, it := range sc.Script {
				items = append(items, coqServerItem(it))
			}
			sess = append(sess, fmt.Sprintf("HServer %s %s %s", coqSteps(sc.Steps), coqList(vs), coqList(items)))
		}
		if obs[i].Called {
			os = append(os, fmt.Sprintf("Some (%s, %s)", coqObs(obs[i]), hx.CoqBool(obs[i].Authn)))
		} else {
			os = append(os, "None")
		}
	}
	for _, op := range hr.ops {
		if op.Op == "parse" {
			ops = append(ops, "HParse "+hx.CoqNat(op.I))
		} else {
			ops = append(ops, "HNeg "+hx.CoqNat(op.I))
		}
	}
	return fmt.Sprintf("mkHcase (mkHist %s %s %s %s) %s %s", coqMechs(c.Mechs), coqStr(c.Ident), coqStr(c.Pass), coqList(sess), coqList(ops), coqList(os))
}

// ---------------------------------------------------------------- runner

type histRecord struct {
	Case *caseT  `json:"case"`
	Ops  []hopT  `json:"ops"`
	Obs  []*obsT `json:"obs"`
}

// histHung counts histories that did not finish; after a few of them the
// remaining history cases are skipped (each costs a 10 s watchdog).
var histHung int

func (x *runner) hist(c *caseT) {
	if histHung >= 4 {
		return
	}
	hr, obs := runHist(c)
	if hr.hung {
		histHung++
	}
	canon, _ := json.Marshal(c)
	classes := []string{"role/hist", "hist/side/" + c.Side, fmt.Sprintf("hist/connections/%d", len(c.Sessions)), "gen/" + c.Tag}
	called := 0
	firstParse := map[int]int{}
	for k, op := range hr.ops {
		if op.Op == "parse" {
			if _, seen := firstParse[op.I]; !seen {
				firstParse[op.I] = k
			}
			continue
		}
		// another connection's list was parsed between this one's Parse and its Negotiate
		if p, seen := firstParse[op.I]; seen {
			for _, mid := range hr.ops[p+1 : k] {
				if mid.Op == "parse" && mid.I != op.I {
					classes = append(classes, "hist/parse-between-parse-and-negotiate")
					break
				}
			}
		}
	}
	interleaved := false
	for i, o := range obs {
		if o.Called {
			called++
		}
		cls := "err:" + o.NegErr
		switch {
		case o.Hung:
			cls = "hung"
		case o.Panic != "":
			cls = "panic"
		case !o.Called:
			cls = "sasl-not-reached"
		case o.NegErr == "":
			cls = "authn"
		}
		classes = append(classes, "result/hist-"+c.Side+"/"+cls)
		for _, m := range hr.cases[i].Mechs {
			classes = append(classes, "mech/"+m.Kind)
		}
	}
	// Negotiate calls that overlap in time (element-level interleaving)
	for k := 0; k+1 < len(c.Sched); k++ {
		if c.Sched[k].Until == "" && c.Sched[k+1].S != c.Sched[k].S {
			interleaved = true
		}
	}
	if interleaved {
		classes = append(classes, "hist/gate-level-interleaving")
	}
	x.res.Count(string(canon), called >= 2, classes...)
	for i, o := range obs {
		wire := o.Wire
		o.Wire = ""
		for _, f := range oracle(hr.cases[i], o) {
			o.Wire = wire
			x.res.Fail(f.key, fmt.Sprintf("connection %d of %d sharing one SASL feature value (order of Parse/Negotiate calls: %s): %s", i, len(obs), opsText(hr.ops), f.what), c)
		}
	}
	rec := histRecord{c, hr.ops, obs}
	x.res.Sample(rec)
	if hr.hung {
		return
	}
	for i, o := range obs {
		// Negotiate entered but never returned: nothing to compare with
		if o.Panic != "" || o.Hung || (hr.negIn[i] && !hr.negDone[i]) {
			return
		}
	}
	x.hc.Add(coqHistCase(hr, obs), rec)
}

func opsText(ops []hopT) string {
	var xs []string
	for _, op := range ops {
		xs = append(xs, fmt.Sprintf("%s(%d)", op.Op, op.I))
	}
	return strings.Join(xs, " ")
}

// ---------------------------------------------------------------- generators

func nsAdv(names ...string) []advName {
	var a []advName
	for _, n := range names {
		a = append(a, advName{NS: true, Name: n})
	}
	return a
}

func pS(i int) schedStep { return schedStep{S: i, Until: "parse"} }
func nS(i int) schedStep { return schedStep{S: i, Until: "neg"} }
func gS(i int) schedStep { return schedStep{S: i} }

var histMechs = []mechSpec{{Kind: "script", Name: "X-A"}, {Kind: "script", Name: "X-B"}, {Kind: "plain"}}

func histCorpus() []*caseT {
	okc := []item{{Kind: "success", Variant: 4}}
	one := []stepRes{{More: false, Resp: "61"}}
	two := []stepRes{{More: true, Resp: "61"}, {More: false}}
	plain := []mechSpec{{Kind: "plain"}}
	cs := []*caseT{
		// the receiver of connection 0 offers SCRAM-SHA-256 only, the initiator has only PLAIN; connection 1
		// (same feature value) is offered PLAIN and reads its features list before connection 0 negotiates
		{Side: "client", Mechs: plain, Pass: "secret", Sessions: []sessSpec{
			{Adv: nsAdv("SCRAM-SHA-256"), User: "a", Script: okc}, {Adv: nsAdv("PLAIN"), User: "b", Script: okc}},
			Sched: []schedStep{pS(0), pS(1), nS(0), nS(1)}},
		// the same the other way round, and with the later list longer / shorter than the earlier one
		{Side: "client", Mechs: plain, Pass: "secret", Sessions: []sessSpec{
			{Adv: nsAdv("PLAIN"), User: "a", Script: okc}, {Adv: nsAdv("SCRAM-SHA-256"), User: "b", Script: okc}},
			Sched: []schedStep{pS(0), pS(1), nS(1), nS(0)}},
		{Side: "client", Mechs: histMechs, Pass: "pw", Sessions: []sessSpec{
			{Adv: nsAdv("X-B"), User: "a", Steps: one, Script: okc}, {Adv: nsAdv("X-A", "PLAIN", "X-OAUTH2"), User: "b", Steps: one, Script: okc}},
			Sched: []schedStep{pS(0), pS(1), nS(0), nS(1)}},
		{Side: "client", Mechs: histMechs, Pass: "pw", Sessions: []sessSpec{
			{Adv: nsAdv("DIGEST-MD5", "X-B", "X-OAUTH2"), User: "a", Steps: one, Script: okc}, {Adv: nsAdv("X-A"), User: "b", Steps: one, Script: okc}},
			Sched: []schedStep{pS(0), pS(1), nS(0), nS(1)}},
		// three connections: the second list outgrows the first one's array, the third is parsed after that
		{Side: "client", Mechs: histMechs, Pass: "pw", Sessions: []sessSpec{
			{Adv: nsAdv("X-B"), User: "a", Steps: one, Script: okc},
			{Adv: nsAdv("PLAIN", "X-OAUTH2", "DIGEST-MD5"), User: "b", Script: okc},
			{Adv: nsAdv("X-A"), User: "c", Steps: one, Script: okc}},
			Sched: []schedStep{pS(0), pS(1), pS(2), nS(0), nS(1), nS(2)}},
		{Side: "client", Mechs: histMechs, Pass: "pw", Sessions: []sessSpec{
			{Adv: nsAdv("X-B"), User: "a", Steps: one, Script: okc},
			{Adv: nil, User: "b", Script: okc},
			{Adv: nsAdv("X-A"), User: "c", Steps: one, Script: okc}},
			Sched: []schedStep{pS(2), pS(0), pS(1), nS(2), nS(1), nS(0)}},
		// a list is parsed while another connection is in the middle of its exchange
		{Side: "client", Mechs: histMechs, Pass: "pw", Sessions: []sessSpec{
			{Adv: nsAdv("X-A"), User: "a", Steps: two, Script: []item{{Kind: "challenge", Raw: "YQ=="}, {Kind: "success", Variant: 4}}},
			{Adv: nsAdv("X-B"), User: "b", Steps: one, Script: okc}},
			Sched: []schedStep{pS(0), gS(0), gS(0), pS(1), gS(0), nS(1), nS(0)}},
		// the advertised list of one connection is empty / outside the name space
		{Side: "client", Mechs: histMechs, Pass: "pw", Sessions: []sessSpec{
			{Adv: []advName{{NS: false, Name: "X-A"}}, User: "a", Steps: one, Script: okc}, {Adv: nsAdv("X-A"), User: "b", Steps: one, Script: okc}},
			Sched: []schedStep{pS(0), pS(1), nS(0), nS(1)}},
		// receiving side: two connections, the exchanges interleaved element by element: a <response/> on a
		// connection that never sent <auth/> while the other connection's mechanism waits for one
		{Side: "server", Mechs: histMechs, Sessions: []sessSpec{
			{Steps: two, Script: []item{{Kind: "auth", Mech: "X-A", Raw: "YQ=="}, {Kind: "response", Raw: "YQ=="}}},
			{Steps: two, Script: []item{{Kind: "response", Raw: "YQ=="}}}},
			Sched: []schedStep{gS(0), gS(0), gS(0), gS(1), gS(1), gS(1), gS(0), gS(1)}},
		{Side: "server", Mechs: histMechs, Sessions: []sessSpec{
			{Verdicts: []bool{false}, Script: []item{{Kind: "auth", Mech: "PLAIN", Raw: "AHRlc3QAcGFzcw=="}}},
			{Verdicts: []bool{true}, Script: []item{{Kind: "auth", Mech: "PLAIN", Raw: "AGFkbWluAHB3"}}}},
			Sched: []schedStep{gS(0), gS(1), gS(0), gS(1), gS(1), gS(0)}},
		{Side: "server", Mechs: histMechs, Sessions: []sessSpec{
			{Steps: two, Script: []item{{Kind: "auth", Mech: "X-A", Raw: "YQ=="}, {Kind: "abort"}}},
			{Steps: two, Script: []item{{Kind: "auth", Mech: "X-B", Raw: "YQ=="}, {Kind: "response", Raw: "YWI="}}}},
			Sched: []schedStep{gS(0), gS(1), gS(0), gS(1), gS(0), gS(1), gS(1), gS(0)}},
	}
	for _, c := range cs {
		c.Role, c.Tag = "hist", "hist-corpus"
	}
	return cs
}

// interleavings enumerates the orders of Parse(i), Negotiate(i) for n connections in which every
// connection parses before it negotiates.
func interleavings(n int) [][]schedStep {
	var out [][]schedStep
	state := make([]int, n) // 0 nothing yet, 1 parsed, 2 negotiated
	var rec func(cur []schedStep)
	rec = func(cur []schedStep) {
		if len(cur) == 2*n {
			out = append(out, append([]schedStep(nil), cur...))
			return
		}
		for i := 0; i < n; i++ {
			switch state[i] {
			case 0:
				state[i] = 1
				rec(append(cur, pS(i)))
				state[i] = 0
			case 1:
				state[i] = 2
				rec(append(cur, nS(i)))
				state[i] = 1
			}
		}
	}
	rec(nil)
	return out
}

func histSmallScope(x *runner, r *hx.Rand, triples int) {
	okc := []item{{Kind: "success", Variant: 4}}
	one := []stepRes{{More: false, Resp: "61"}}
	lists := [][]advName{nil, nsAdv("X-A"), nsAdv("X-B"), nsAdv("X-A", "X-B"), nsAdv("X-B", "X-A"), nsAdv("PLAIN"), nsAdv("X-B", "PLAIN", "X-A")}
	mk := func(ls [][]advName, sched []schedStep) *caseT {
		c := &caseT{Role: "hist", Tag: "hist-smallscope", Side: "client", Mechs: histMechs, Pass: "pw", Sched: sched}
		for i, l := range ls {
			c.Sessions = append(c.Sessions, sessSpec{Adv: l, User: string(rune('a' + i)), Steps: one, Script: okc})
		}
		return c
	}
	two := interleavings(2)
	for _, a := range lists {
		for _, b := range lists {
			for _, s := range two {
				x.one(mk([][]advName{a, b}, s))
			}
		}
	}
	three := interleavings(3)
	l3 := [][]advName{nsAdv("X-A"), nsAdv("X-B"), nsAdv("PLAIN"), nsAdv("X-B", "X-A")}
	total := len(l3) * len(l3) * len(l3) * len(three)
	for k := 0; k < total; k++ {
		if triples < total && r.Intn(total) >= triples {
			continue
		}
		q := k
		s := three[q%len(three)]
		q /= len(three)
		a, b, c := l3[q%4], l3[q/4%4], l3[q/16%4]
		x.one(mk([][]advName{a, b, c}, s))
	}
	x.res.Extra["exhaustive_histories"] = fmt.Sprintf("one feature value shared by two initiating connections: all %d x %d pairs of advertised lists x all %d orders of their Parse/Negotiate calls; three connections: %d of %d (lists x %d orders)",
		len(lists), len(lists), len(two), min(triples, total), total, len(three))
}

func randomSched(r *hx.Rand, n int) []schedStep {
	var s []schedStep
	for k := r.Intn(16); k > 0; k-- {
		s = append(s, schedStep{S: r.Intn(n), Until: []string{"", "", "", "parse", "neg"}[r.Intn(5)]})
	}
	return s
}

func randomHistClient(r *hx.Rand) *caseT {
	c := &caseT{Role: "hist", Tag: "hist-random", Side: "client", Pass: "pw", Ident: []string{"", "id"}[r.Intn(2)]}
	c.Mechs = genMechs(r, true)
	n := 2 + r.Intn(3)
	for i := 0; i < n; i++ {
		s := sessSpec{User: []string{"test", "", "u"}[r.Intn(3)]}
		if r.Chance(1, 2) {
			s.Adv = genAdv(r, c.Mechs)
		} else { // lists of different lengths over the feature's own names and foreign ones
			pool := []string{"X-A", "X-B", "PLAIN", "SCRAM-SHA-1", "X-OAUTH2", "DIGEST-MD5"}
			for k := r.Intn(5); k > 0; k-- {
				s.Adv = append(s.Adv, advName{NS: !r.Chance(1, 10), Name: pool[r.Intn(len(pool))]})
			}
		}
		if r.Chance(2, 3) { // a mechanism that completes at once or after one challenge, cooperative peer
			if r.Bool() {
				s.Steps = []stepRes{genStepRes(r, false)}
				s.Script = []item{{Kind: "success", Variant: 4 * r.Intn(2)}}
			} else {
				s.Steps = []stepRes{genStepRes(r, true), genStepRes(r, false)}
				s.Script = []item{{Kind: "challenge", Raw: b64(genBytes(r))}, {Kind: "success", Raw: b64(genBytes(r))}}
			}
		} else {
			s.Steps = genSteps(r)
			for k := r.Intn(4); k > 0; k-- {
				s.Script = append(s.Script, genClientItem(r))
			}
		}
		c.Sessions = append(c.Sessions, s)
	}
	c.Sched = randomSched(r, n)
	return c
}

func randomHistServer(r *hx.Rand) *caseT {
	c := &caseT{Role: "hist", Tag: "hist-random", Side: "server"}
	c.Mechs = genMechs(r, true)
	var names []string
	for _, m := range c.Mechs {
		names = append(names, mechName(m))
	}
	n := 2 + r.Intn(2)
	for i := 0; i < n; i++ {
		s := sessSpec{Verdicts: []bool{r.Bool(), r.Bool()}}
		if r.Chance(1, 2) {
			hs := honestServer(r)
			if mechsCover(c.Mechs, hs.Mechs) {
				s.Steps, s.Verdicts, s.Script = hs.Steps, hs.Verdicts, hs.Script
			}
		}
		if s.Script == nil {
			s.Steps = genSteps(r)
			for k := 1 + r.Intn(3); k > 0; k-- {
				s.Script = append(s.Script, genServerItem(r, names))
			}
			if r.Chance(1, 3) { // a connection that starts with a <response/>
				s.Script[0] = item{Kind: "response", Raw: genRaw(r)}
			}
		}
		c.Sessions = append(c.Sessions, s)
	}
	c.Sched = randomSched(r, n)
	return c
}

func mechsCover(have, want []mechSpec) bool {
	for _, w := range want {
		found := false
		for _, h := range have {
			if h == w {
				found = true
			}
		}
		if !found {
			return false
		}
	}
	return true
}

func histCases(x *runner, r *hx.Rand, o hx.Opts) {
	triples, n := 250, 150
	if o.Thorough() {
		triples, n = 1<<30, 1500
	}
	if o.Search {
		triples, n = 1<<30, 4000
	}
	histSmallScope(x, r, triples)
	for i := 0; i < n; i++ {
		x.one(randomHistClient(r))
		if i%3 != 2 {
			x.one(randomHistServer(r))
		}
	}
}
