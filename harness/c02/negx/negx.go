// Package negx holds what the C02 harness needs to drive a real negotiation:
// the description of a case (the inputs of coq/C02/Model.v's [run]), rendering
// of peer items to bytes, instrumented stream features, the callback log, the
// Coq rendering of all of these and a buffered in-memory socket pair.
//
// It began as a copy of the initiator half of harness/hx/c01_neg.go and
// c01_duplex.go (which belong to C01) so that C02 does not depend on them.
package negx

import (
	"context"
	"encoding/xml"
	"errors"
	"fmt"
	"io"
	"net"
	"strings"
	"sync"
	"time"

	"mellium.im/xmpp"
	"verifharness/hx"
)

// State bits (mirrors xmpp.SessionState; the Coq side gets them from the translator).
const (
	Secure   = uint8(xmpp.Secure)
	Authn    = uint8(xmpp.Authn)
	Ready    = uint8(xmpp.Ready)
	Received = uint8(xmpp.Received)
	S2S      = uint8(xmpp.S2S)
)

const (
	NSStartTLS = "urn:ietf:params:xml:ns:xmpp-tls"
	NSSASL     = "urn:ietf:params:xml:ns:xmpp-sasl"
	NSBind     = "urn:ietf:params:xml:ns:xmpp-bind"
	NSStream   = "http://etherx.jabber.org/streams"
)

// ErrScripted is what a scripted callback returns when told to fail.
var ErrScripted = errors.New("verif: scripted feature error")

type FeatSpec struct {
	Space string `json:"space"`
	Local string `json:"local"`
	Nec   uint8  `json:"nec"`
	Proh  uint8  `json:"proh"`
	Neg   bool   `json:"neg"`            // Negotiate != nil
	Kind  string `json:"kind,omitempty"` // "" = abstract, "starttls" = the real xmpp.StartTLS
}

type Outcome struct {
	Mask    uint8 `json:"mask"`
	Restart bool  `json:"restart,omitempty"`
	Err     bool  `json:"err,omitempty"`
}

type Child struct {
	Text  bool   `json:"text,omitempty"`
	Space string `json:"space,omitempty"`
	Local string `json:"local,omitempty"`
	Req   bool   `json:"req,omitempty"`
	PErr  bool   `json:"perr,omitempty"`
}

// Item kinds: header, features, streamerr, elem, garbage.
type Item struct {
	Sp   bool   `json:"sp,omitempty"`
	Kind string `json:"kind"`
	Bad  bool   `json:"bad,omitempty"` // header: version 0.9 (rejected)
	// header attributes: ID and Lang are the values of id and xml:lang ("" = the
	// defaults "s1" / none); Omit lists attributes left out altogether (id,
	// version, lang, xmlns, from, to); From/To override the addresses
	ID       string   `json:"id,omitempty"`
	Lang     string   `json:"lang,omitempty"`
	Omit     []string `json:"omit,omitempty"`
	From     string   `json:"from,omitempty"`
	To       string   `json:"to,omitempty"`
	Children []Child  `json:"children,omitempty"`
	Space    string   `json:"space,omitempty"`
	Local    string   `json:"local,omitempty"`
}

// CB is one logged callback (coq: cb).
type CB struct {
	K     string   `json:"k"` // parse, neg
	Space string   `json:"space"`
	Local string   `json:"local"`
	St    uint8    `json:"st,omitempty"`
	O     *Outcome `json:"o,omitempty"`
}

// WItem is one element the session wrote (coq: witem).
type WItem struct {
	Header bool   `json:"header,omitempty"`
	Space  string `json:"space,omitempty"`
	Local  string `json:"local,omitempty"`
}

// ---------------------------------------------------------------- rendering of peer items

func xmlEsc(s string) string {
	var sb strings.Builder
	_ = xml.EscapeText(&sb, []byte(s))
	return sb.String()
}

// RenderChild renders a child of <stream:features/>. The three built-in
// features get their real shape so that their real Parse functions accept
// them; everything else is an empty element with req/perr attributes, read by
// the instrumented Parse.
func RenderChild(c Child) string {
	if c.Text {
		return "x"
	}
	switch {
	case c.Space == NSStartTLS && c.Local == "starttls":
		if c.Req {
			return `<starttls xmlns='` + NSStartTLS + `'><required/></starttls>`
		}
		return `<starttls xmlns='` + NSStartTLS + `'/>`
	case c.Space == NSSASL && c.Local == "mechanisms":
		return `<mechanisms xmlns='` + NSSASL + `'><mechanism>PLAIN</mechanism></mechanisms>`
	case c.Space == NSBind && c.Local == "bind":
		return `<bind xmlns='` + NSBind + `'/>`
	}
	s := "<" + c.Local + " xmlns='" + xmlEsc(c.Space) + "'"
	if c.Req {
		s += " req='1'"
	}
	if c.PErr {
		s += " perr='1'"
	}
	return s + "/>"
}

// HeaderAttrs returns the attributes of a header item in the order id,
// version, xml:lang, xmlns, from, to; nil = absent.
func HeaderAttrs(it Item, s2s bool, domain string) [6]*string {
	p := func(s string) *string { return &s }
	id := it.ID
	if id == "" {
		id = "s1"
	}
	version := "1.0"
	if it.Bad {
		version = "0.9"
	}
	xmlns := "jabber:client"
	if s2s {
		xmlns = "jabber:server"
	}
	from, to := "srv."+domain, "me@"+domain
	if it.From != "" {
		from = it.From
	}
	if it.To != "" {
		to = it.To
	}
	a := [6]*string{p(id), p(version), nil, p(xmlns), p(from), p(to)}
	if it.Lang != "" {
		a[2] = p(it.Lang)
	}
	for _, o := range it.Omit {
		for i, name := range []string{"id", "version", "lang", "xmlns", "from", "to"} {
			if o == name {
				a[i] = nil
			}
		}
	}
	return a
}

// RenderItem renders one peer item for an initiating session me@domain talking to
// srv.domain (the two addresses differ in their domainpart on purpose).
func RenderItem(it Item, s2s bool, domain string) []byte {
	sp := ""
	if it.Sp {
		sp = " \n"
	}
	var s string
	switch it.Kind {
	case "header":
		a := HeaderAttrs(it, s2s, domain)
		s = `<?xml version='1.0'?>` + sp + `<stream:stream xmlns:stream='` + NSStream + `'`
		for i, name := range []string{"id", "version", "xml:lang", "xmlns", "from", "to"} {
			if a[i] != nil {
				s += " " + name + "='" + xmlEsc(*a[i]) + "'"
			}
		}
		s += ">"
	case "features":
		s = sp + `<stream:features xmlns:stream='` + NSStream + `'>`
		for _, c := range it.Children {
			s += RenderChild(c)
		}
		s += `</stream:features>`
	case "streamerr":
		s = sp + `<stream:error xmlns:stream='` + NSStream + `'><host-unknown xmlns='urn:ietf:params:xml:ns:xmpp-streams'/></stream:error>`
	case "elem":
		s = sp + "<" + it.Local + " xmlns='" + xmlEsc(it.Space) + "'/>"
	case "garbage":
		s = sp + "<<<"
	default:
		panic("unknown item kind " + it.Kind)
	}
	return []byte(s)
}

// ---------------------------------------------------------------- log

// Log collects callbacks; the features of one session run on one goroutine.
type Log struct {
	mu sync.Mutex
	Ev []CB
}

func (l *Log) Add(e CB) { l.mu.Lock(); l.Ev = append(l.Ev, e); l.mu.Unlock() }

func (l *Log) Events() []CB {
	l.mu.Lock()
	defer l.mu.Unlock()
	return append([]CB{}, l.Ev...)
}

// ParseWire splits bytes the session wrote into wire items: stream headers
// and other top-level elements.
func ParseWire(b []byte) []WItem {
	out := []WItem{}
	d := xml.NewDecoder(strings.NewReader(string(b)))
	d.Strict = false
	for {
		t, err := d.Token()
		if err != nil {
			return out
		}
		st, ok := t.(xml.StartElement)
		if !ok {
			continue
		}
		switch {
		case st.Name.Local == "stream" && (st.Name.Space == "stream" || st.Name.Space == NSStream):
			out = append(out, WItem{Header: true})
		default:
			out = append(out, WItem{Space: st.Name.Space, Local: st.Name.Local})
			_ = d.Skip()
		}
	}
}

// ---------------------------------------------------------------- instrumented features

// restartRW is what a scripted feature returns as its new io.ReadWriter.
type restartRW struct{ io.ReadWriter }

// LogOf finds the log of the session a callback belongs to: feature values (and
// the Negotiator built from them) may be shared by several sessions, so the
// log travels in the context given to NewSession.
type LogOf func(ctx context.Context) *Log

// AbstractFeature builds a stream feature whose callbacks log what they are
// asked and answer from the script.
func AbstractFeature(f FeatSpec, logOf LogOf, next func(ctx context.Context, f FeatSpec, st uint8) Outcome) xmpp.StreamFeature {
	sf := xmpp.StreamFeature{
		Name:       xml.Name{Space: f.Space, Local: f.Local},
		Necessary:  xmpp.SessionState(f.Nec),
		Prohibited: xmpp.SessionState(f.Proh),
		Parse: func(ctx context.Context, d *xml.Decoder, start *xml.StartElement) (bool, interface{}, error) {
			logOf(ctx).Add(CB{K: "parse", Space: f.Space, Local: f.Local})
			var req, perr bool
			for _, a := range start.Attr {
				switch a.Name.Local {
				case "req":
					req = true
				case "perr":
					perr = true
				}
			}
			if err := d.Skip(); err != nil {
				return req, nil, err
			}
			if perr {
				return req, nil, ErrScripted
			}
			return req, nil, nil
		},
	}
	if f.Neg {
		sf.Negotiate = func(ctx context.Context, s *xmpp.Session, data interface{}) (xmpp.SessionState, io.ReadWriter, error) {
			st := s.State()
			o := next(ctx, f, uint8(st))
			logOf(ctx).Add(CB{K: "neg", Space: f.Space, Local: f.Local, St: uint8(st), O: &o})
			var rw io.ReadWriter
			if o.Restart {
				rw = restartRW{s.Conn()}
			}
			var err error
			if o.Err {
				err = ErrScripted
			}
			return xmpp.SessionState(o.Mask), rw, err
		}
	}
	return sf
}

// LoggedFeature wraps a real feature: Parse and Negotiate calls are logged,
// everything else is the feature's own.
func LoggedFeature(f xmpp.StreamFeature, logOf LogOf) xmpp.StreamFeature {
	parse, neg := f.Parse, f.Negotiate
	sp, lo := f.Name.Space, f.Name.Local
	if parse != nil {
		f.Parse = func(ctx context.Context, d *xml.Decoder, start *xml.StartElement) (bool, interface{}, error) {
			logOf(ctx).Add(CB{K: "parse", Space: sp, Local: lo})
			return parse(ctx, d, start)
		}
	}
	if neg != nil {
		f.Negotiate = func(ctx context.Context, s *xmpp.Session, data interface{}) (xmpp.SessionState, io.ReadWriter, error) {
			st := s.State()
			mask, rw, err := neg(ctx, s, data)
			o := Outcome{Mask: uint8(mask), Restart: rw != nil, Err: err != nil}
			logOf(ctx).Add(CB{K: "neg", Space: sp, Local: lo, St: uint8(st), O: &o})
			return mask, rw, err
		}
	}
	return f
}

// ---------------------------------------------------------------- Coq rendering (terms of coq/C02/Model.v)

func CoqN(n uint8) string { return fmt.Sprintf("%d%%N", n) }

func CoqStr(s string) string { return hx.CoqBytes([]byte(s)) }

func CoqList(xs []string) string { return "[" + strings.Join(xs, "; ") + "]" }

func CoqFeat(f FeatSpec) string {
	kind := "KAbstract"
	if f.Kind == "starttls" {
		kind = "KStartTLS"
	}
	return fmt.Sprintf("(mkF %s %s %s %s %s %s)", CoqStr(f.Space), CoqStr(f.Local), CoqN(f.Nec), CoqN(f.Proh), hx.CoqBool(f.Neg), kind)
}

func CoqOutcome(o Outcome) string {
	return fmt.Sprintf("(mkO %s %s %s)", CoqN(o.Mask), hx.CoqBool(o.Restart), hx.CoqBool(o.Err))
}

func CoqItem(it Item, s2s bool, domain string) string {
	var b string
	switch it.Kind {
	case "header":
		a := HeaderAttrs(it, s2s, domain)
		b = "(PHeader (mkH"
		for _, v := range a {
			b += " " + CoqOptStr(v)
		}
		b += "))"
	case "features":
		var cs []string
		for _, c := range it.Children {
			if c.Text {
				cs = append(cs, "FCText")
			} else {
				cs = append(cs, fmt.Sprintf("FC %s %s %s %s", CoqStr(c.Space), CoqStr(c.Local), hx.CoqBool(c.Req), hx.CoqBool(c.PErr)))
			}
		}
		b = "(PFeatures " + CoqList(cs) + ")"
	case "streamerr":
		b = "PStreamErr"
	case "elem":
		b = fmt.Sprintf("(PElem %s %s)", CoqStr(it.Space), CoqStr(it.Local))
	case "garbage":
		b = "PGarbage"
	default:
		panic("unknown item kind " + it.Kind)
	}
	return fmt.Sprintf("(mkItem %s %s)", hx.CoqBool(it.Sp), b)
}

func CoqItems(its []Item, s2s bool, domain string) string {
	var xs []string
	for _, it := range its {
		xs = append(xs, CoqItem(it, s2s, domain))
	}
	return CoqList(xs)
}

func coqName(sp, lo string) string { return "(" + CoqStr(sp) + ", " + CoqStr(lo) + ")" }

func CoqCB(e CB) string {
	switch e.K {
	case "parse":
		return "CParse " + coqName(e.Space, e.Local)
	case "neg":
		return fmt.Sprintf("CNeg %s %s %s", coqName(e.Space, e.Local), CoqN(e.St), CoqOutcome(*e.O))
	}
	panic("unknown callback kind " + e.K)
}

func CoqWItem(w WItem) string {
	if w.Header {
		return "WHeader"
	}
	return fmt.Sprintf("WElem %s %s", CoqStr(w.Space), CoqStr(w.Local))
}

func CoqOptStr(s *string) string {
	if s == nil {
		return "None"
	}
	return "(Some " + CoqStr(*s) + ")"
}

func CoqConfig(feats []FeatSpec, hsOK bool, domain string) string {
	var fs []string
	for _, f := range feats {
		fs = append(fs, CoqFeat(f))
	}
	return fmt.Sprintf("(mkCfg %s %s %s %s %s)", CoqList(fs), hx.CoqBool(hsOK), CoqStr(domain), CoqStr("srv."+domain), CoqStr("me@"+domain))
}

// ---------------------------------------------------------------- in-memory socket pair

// A buffered duplex connection: writes never block, reads block until data
// arrives or the connection is closed; data written before a close can still
// be read. A real TLS handshake runs over it between the session under test
// and the scripted peer.

type dqueue struct {
	mu     sync.Mutex
	cond   *sync.Cond
	buf    []byte
	closed bool
}

func newDQueue() *dqueue {
	q := &dqueue{}
	q.cond = sync.NewCond(&q.mu)
	return q
}

func (q *dqueue) read(p []byte) (int, error) {
	q.mu.Lock()
	defer q.mu.Unlock()
	for len(q.buf) == 0 && !q.closed {
		q.cond.Wait()
	}
	if len(q.buf) == 0 {
		return 0, io.EOF
	}
	n := copy(p, q.buf)
	q.buf = q.buf[n:]
	q.cond.Broadcast()
	return n, nil
}

func (q *dqueue) write(p []byte) (int, error) {
	q.mu.Lock()
	defer q.mu.Unlock()
	if q.closed {
		return 0, io.ErrClosedPipe
	}
	q.buf = append(q.buf, p...)
	q.cond.Broadcast()
	return len(p), nil
}

func (q *dqueue) close() {
	q.mu.Lock()
	q.closed = true
	q.cond.Broadcast()
	q.mu.Unlock()
}

func (q *dqueue) waitDrained() {
	q.mu.Lock()
	for len(q.buf) > 0 && !q.closed {
		q.cond.Wait()
	}
	q.mu.Unlock()
}

type DuplexEnd struct {
	rd, wr *dqueue
}

type duplexAddr struct{}

func (duplexAddr) Network() string { return "duplex" }
func (duplexAddr) String() string  { return "duplex" }

var _ net.Conn = (*DuplexEnd)(nil)

func NewDuplex() (*DuplexEnd, *DuplexEnd) {
	a, b := newDQueue(), newDQueue()
	return &DuplexEnd{rd: a, wr: b}, &DuplexEnd{rd: b, wr: a}
}

func (d *DuplexEnd) Read(p []byte) (int, error)  { return d.rd.read(p) }
func (d *DuplexEnd) Write(p []byte) (int, error) { return d.wr.write(p) }

// Close closes both directions.
func (d *DuplexEnd) Close() error {
	d.rd.close()
	d.wr.close()
	return nil
}

// CloseWrite ends this side's output only: the other side reads what is
// buffered and then EOF, and can still write.
func (d *DuplexEnd) CloseWrite() { d.wr.close() }

// WaitDrained blocks until the other side has read everything written so far.
func (d *DuplexEnd) WaitDrained()                       { d.wr.waitDrained() }
func (d *DuplexEnd) LocalAddr() net.Addr                { return duplexAddr{} }
func (d *DuplexEnd) RemoteAddr() net.Addr               { return duplexAddr{} }
func (d *DuplexEnd) SetDeadline(t time.Time) error      { return nil }
func (d *DuplexEnd) SetReadDeadline(t time.Time) error  { return nil }
func (d *DuplexEnd) SetWriteDeadline(t time.Time) error { return nil }
