// Command c02 is the correspondence harness and implementation oracle for
// property C02 (a client asked to use STARTTLS never proceeds in clear text):
// features.go, negotiator.go, starttls.go, session.go, conn.go.
//
// Every case runs the real NewSession with the default negotiator and the real
// xmpp.StartTLS, xmpp.SASL and xmpp.BindResource features (plus scripted extra
// features that need a secured stream) against a scripted peer on an in-memory
// socket pair.  The peer answers the client's stream header and STARTTLS
// request from the case's clear-text script; what is left of that script when
// it says <proceed/> is pipelined behind it in the same write (or, in mode
// "plaintext", sent in a later segment, where the TLS client expects a record).
// It then runs a real tls.Server (throw-away certificate generated at start)
// that records the ClientHello's server name, and continues with the script's
// TLS-layer part (answering SASL PLAIN and resource binding itself).  Each
// script is run with the stream tee off / TeeIn / TeeOut / both, and optionally
// again for other domains with the same StartTLS feature value.  Observed: every
// byte the peer received before the first TLS record, the Parse/Negotiate
// callbacks with the session state they saw, server names, handshake results,
// the outcome and the final state.  The oracle restates C02 on these;
// coq/C02/Model.v must reproduce them (c2_ok).
package main

import (
	"bytes"
	"context"
	"crypto/ecdsa"
	"crypto/elliptic"
	"crypto/rand"
	"crypto/tls"
	"crypto/x509"
	"crypto/x509/pkix"
	"encoding/json"
	"errors"
	"fmt"
	"math/big"
	"os"
	"regexp"
	"strings"
	"sync"
	"time"

	"mellium.im/sasl"
	"mellium.im/xmpp"
	"mellium.im/xmpp/jid"
	"mellium.im/xmpp/stream"
	nx "verifharness/c02/negx"
	"verifharness/hx"
)

const imports = "From XV Require Import lib.Bytes gen.NegTables C02.Model.\n"

// watchdog for one NewSession call; generous, the machine is shared
const watchdog = 15 * time.Second

// HsMode: ok (client trusts the certificate), untrusted (explicit config
// without our root), nilcfg (StartTLS(nil): default config, our root unknown),
// abort (server refuses the ClientHello), plaintext (clear text follows
// <proceed/> in a later segment).
type c2Case struct {
	Note    string       `json:"note,omitempty"`
	Feat    string       `json:"feat"` // configured features, in order: t=starttls s=sasl b=bind x=scripted extra feature e=marker feature
	HsMode  string       `json:"hs_mode"`
	TLSName *string      `json:"tls_name,omitempty"` // ServerName of the config given to StartTLS; absent = StartTLS(nil)
	Domain  string       `json:"domain"`
	Bits    uint8        `json:"bits"`
	Tee     int          `json:"tee"` // bit 0: TeeIn, bit 1: TeeOut
	In      []nx.Item    `json:"in"`
	TLSIn   []nx.Item    `json:"tls_in,omitempty"`
	XOuts   []nx.Outcome `json:"x_outs,omitempty"` // what the extra feature's Negotiate returns, call by call
	// Reuse: further sessions that use the same StartTLS feature value (other domains)
	Reuse []string `json:"reuse,omitempty"`
	// Inter: sessions of these domains share one StartTLS feature value and run
	// CONCURRENTLY; Order lists, step by step, which session advances next. The
	// steps of a session are: start (its peer answers the stream header), proceed
	// (its peer answers the STARTTLS request), handshake (its peer's TLS server
	// answers the ClientHello, and everything after that).
	Inter *interSpec `json:"inter,omitempty"`
	// ShareNeg: the sessions of a Reuse/Inter history are negotiated with ONE
	// Negotiator value (xmpp.NewNegotiator called once), not only one feature value.
	ShareNeg bool `json:"share_negotiator,omitempty"`
	// LaterIn/LaterTLSIn: what the peers of the later sessions of a history
	// (every session but the first) send, when it differs from In/TLSIn.
	LaterIn    []nx.Item `json:"later_in,omitempty"`
	LaterTLSIn []nx.Item `json:"later_tls_in,omitempty"`
}

// forSession returns the case as session si of its history sees it.
func (c *c2Case) forSession(si int, domain string) *c2Case {
	cc := *c
	cc.Domain = domain
	if si > 0 && c.LaterIn != nil {
		cc.In, cc.TLSIn = c.LaterIn, c.LaterTLSIn
	}
	return &cc
}

type interSpec struct {
	Domains []string `json:"domains"`
	Order   []int    `json:"order"`
}

// info is what Session.In() reports.
type info struct {
	ID    string `json:"id"`
	Ver   string `json:"version"`
	Lang  string `json:"lang"`
	XMLNS string `json:"xmlns"`
	From  string `json:"from"`
	To    string `json:"to"`
}

func (c *c2Case) hsOK() bool { return c.HsMode == "ok" }

type observed struct {
	Class   string       `json:"class"` // ok, err, panic, timeout
	Bits    uint8        `json:"bits"`
	Clear   string       `json:"clear"` // bytes received by the peer before any TLS record
	Wire    []nx.WItem   `json:"wire"`
	CB      []nx.CB      `json:"callbacks"`
	SNI     []string     `json:"sni"`
	HS      []bool       `json:"hs"`
	TLSUp   bool         `json:"tls_up"`   // the session reports a completed handshake
	TLSHdr  bool         `json:"tls_hdr"`  // the peer received a stream header over TLS
	SentTLS int          `json:"sent_tls"` // TLS-layer script items the peer sent
	Proceed bool         `json:"proceed"`  // the peer answered the STARTTLS request with <proceed/>
	Feats   []string     `json:"feats"`    // name spaces Session.Feature reports as advertised, after NewSession returned
	Info    info         `json:"in"`       // Session.In() after NewSession returned
	Unexp   string       `json:"unexpected,omitempty"`
	ErrText string       `json:"err,omitempty"`
	Choices []string     `json:"-"`
	Outs    []nx.Outcome `json:"-"`
}

// ---------------------------------------------------------------- certificate

var (
	serverCert tls.Certificate
	rootPool   *x509.CertPool
)

func makeCert() {
	key, err := ecdsa.GenerateKey(elliptic.P256(), rand.Reader)
	if err != nil {
		panic(err)
	}
	tmpl := &x509.Certificate{
		SerialNumber:          big.NewInt(1),
		Subject:               pkix.Name{CommonName: "verif"},
		NotBefore:             time.Now().Add(-time.Hour),
		NotAfter:              time.Now().Add(24 * time.Hour),
		KeyUsage:              x509.KeyUsageDigitalSignature | x509.KeyUsageCertSign,
		ExtKeyUsage:           []x509.ExtKeyUsage{x509.ExtKeyUsageServerAuth},
		BasicConstraintsValid: true,
		IsCA:                  true,
		DNSNames:              []string{"example.net", "example.org", "third.example", "tls.example.net"},
	}
	der, err := x509.CreateCertificate(rand.Reader, tmpl, tmpl, &key.PublicKey, key)
	if err != nil {
		panic(err)
	}
	leaf, err := x509.ParseCertificate(der)
	if err != nil {
		panic(err)
	}
	serverCert = tls.Certificate{Certificate: [][]byte{der}, PrivateKey: key, Leaf: leaf}
	rootPool = x509.NewCertPool()
	rootPool.AddCert(leaf)
}

// ---------------------------------------------------------------- the scripted peer

type peer struct {
	conn      *nx.DuplexEnd
	c         *c2Case
	domain    string
	mu        sync.Mutex
	clear     []byte
	post      []byte // first bytes received after <proceed/> was sent
	sni       []string
	hs        []bool
	tlsHdr    bool
	sentTLS   int
	unexp     string
	proceeded bool
	in, tin   []nx.Item
	gates     *gates
	started   bool
}

// gates hold a scripted peer at three points so that sessions sharing a
// feature value can be advanced in a chosen order: 0 before the stream header
// is answered, 1 before the STARTTLS request is answered, 2 before the TLS
// server answers the ClientHello.  Arrival at a gate, and the return of
// NewSession, are reported on ev.
type gates struct {
	g  [3]chan struct{}
	ev chan string
}

func newGates() *gates {
	g := &gates{ev: make(chan string, 8)}
	for i := range g.g {
		g.g[i] = make(chan struct{})
	}
	return g
}

func (g *gates) wait(k int) {
	if g == nil {
		return
	}
	g.ev <- fmt.Sprintf("at:%d", k)
	<-g.g[k]
}

var (
	reHeader   = regexp.MustCompile(`^<stream:stream[^>]*>`)
	reDecl     = regexp.MustCompile(`^<\?xml[^>]*\?>`)
	reStartTLS = regexp.MustCompile(`^<starttls[^>]*(/>|></starttls>)`)
	reAuth     = regexp.MustCompile(`^<auth[^>]*(/>|>[^<]*</auth>)`)
	reIQ       = regexp.MustCompile(`(?s)^<iq[^>]*>.*?</iq>`)
	reID       = regexp.MustCompile(`id=['"]([^'"]*)['"]`)
	reClose    = regexp.MustCompile(`^</stream:stream>`)
)

func (p *peer) render(it nx.Item) []byte {
	return nx.RenderItem(it, p.c.Bits&nx.S2S != 0, p.domain)
}

// sendNext writes the next item of the given script; a good header is
// followed at once by the item after it. With nothing left to send the output
// is closed (the client reads EOF) while the client's writes are still taken.
func (p *peer) sendNext(script *[]nx.Item, w func([]byte) error, eof func(), count *int) {
	for {
		if len(*script) == 0 {
			eof()
			return
		}
		it := (*script)[0]
		*script = (*script)[1:]
		if count != nil {
			p.mu.Lock()
			*count++
			p.mu.Unlock()
		}
		if err := w(p.render(it)); err != nil {
			return
		}
		if it.Kind == "header" && !it.Bad {
			// whether or not the client accepts this header (it may lack an
			// attribute): if it does, it finds the next item; if not, it has gone
			continue
		}
		if len(*script) == 0 {
			eof()
		}
		return
	}
}

func isProceed(it *nx.Item) bool {
	return it != nil && it.Kind == "elem" && !it.Sp && it.Space == nx.NSStartTLS && it.Local == "proceed"
}

func (p *peer) run() {
	var pending []byte
	buf := make([]byte, 4096)
	wr := func(b []byte) error { _, err := p.conn.Write(b); return err }
	for {
		n, err := p.conn.Read(buf)
		if n > 0 {
			p.mu.Lock()
			p.clear = append(p.clear, buf[:n]...)
			p.mu.Unlock()
			pending = append(pending, buf[:n]...)
		}
		for {
			pending = bytes.TrimLeft(pending, " \r\n\t")
			if len(pending) == 0 {
				break
			}
			if m := reDecl.Find(pending); m != nil {
				pending = pending[len(m):]
				continue
			}
			if m := reHeader.Find(pending); m != nil {
				pending = pending[len(m):]
				if !p.started {
					p.started = true
					p.gates.wait(0)
				}
				p.sendNext(&p.in, wr, p.conn.CloseWrite, nil)
				continue
			}
			if m := reStartTLS.Find(pending); m != nil {
				pending = pending[len(m):]
				p.gates.wait(1)
				if len(p.in) == 0 {
					p.conn.CloseWrite()
					continue
				}
				// the answer; an exhausted script is noticed at the next read, not now
				it := p.in[0]
				p.in = p.in[1:]
				if !isProceed(&it) {
					wr(p.render(it))
					if len(p.in) == 0 {
						p.conn.CloseWrite()
					}
					continue
				}
				// what is left of the clear-text script travels behind <proceed/>
				var rest []byte
				for _, r := range p.in {
					rest = append(rest, p.render(r)...)
				}
				p.in = nil
				p.mu.Lock()
				p.proceeded = true
				if len(pending) > 0 {
					p.unexp = "bytes after the STARTTLS request: " + string(pending)
				}
				p.mu.Unlock()
				if p.c.HsMode == "plaintext" {
					// clear text in a later segment, where the TLS client expects a record
					// (queued once the client has taken <proceed/>, before any handshake byte)
					wr(p.render(it))
					p.conn.WaitDrained()
					if len(rest) == 0 {
						rest = []byte("<stream:features xmlns:stream='http://etherx.jabber.org/streams'/>")
					}
					wr(rest)
				} else {
					wr(append(p.render(it), rest...))
				}
				p.runTLS()
				return
			}
			if isPrefixOfAny(pending, "<?xml", "<stream:stream", "<starttls") {
				break // wait for the rest
			}
			p.mu.Lock()
			p.unexp = "unexpected clear text: " + string(pending)
			p.mu.Unlock()
			p.conn.Close()
			return
		}
		if err != nil {
			return
		}
	}
}

// recConn records what the TLS server reads from the wire.
type recConn struct {
	*nx.DuplexEnd
	p *peer
}

func (r recConn) Read(b []byte) (int, error) {
	n, err := r.DuplexEnd.Read(b)
	r.p.mu.Lock()
	if len(r.p.post) < 64 {
		r.p.post = append(r.p.post, b[:n]...)
	}
	r.p.mu.Unlock()
	return n, err
}

func isPrefixOfAny(b []byte, starts ...string) bool {
	for _, s := range starts {
		n := len(b)
		if n > len(s) {
			n = len(s)
		}
		if string(b[:n]) == s[:n] && !bytes.Contains(b, []byte(">")) {
			return true
		}
	}
	return false
}

func (p *peer) runTLS() {
	cfg := &tls.Config{
		Certificates: []tls.Certificate{serverCert},
		MinVersion:   tls.VersionTLS12,
		GetConfigForClient: func(chi *tls.ClientHelloInfo) (*tls.Config, error) {
			p.mu.Lock()
			p.sni = append(p.sni, chi.ServerName)
			p.mu.Unlock()
			p.gates.wait(2)
			if p.c.HsMode == "abort" {
				return nil, errors.New("verif: scripted handshake refusal")
			}
			return nil, nil
		},
	}
	srv := tls.Server(recConn{p.conn, p}, cfg)
	err := srv.Handshake()
	p.mu.Lock()
	p.hs = append(p.hs, err == nil)
	p.mu.Unlock()
	if err != nil {
		p.conn.Close()
		return
	}
	wr := func(b []byte) error { _, err := srv.Write(b); return err }
	var pending []byte
	buf := make([]byte, 4096)
	for {
		n, err := srv.Read(buf)
		pending = append(pending, buf[:n]...)
		for {
			pending = bytes.TrimLeft(pending, " \r\n\t")
			if len(pending) == 0 {
				break
			}
			if m := reDecl.Find(pending); m != nil {
				pending = pending[len(m):]
				continue
			}
			if m := reHeader.Find(pending); m != nil {
				pending = pending[len(m):]
				p.mu.Lock()
				p.tlsHdr = true
				p.mu.Unlock()
				p.sendNext(&p.tin, wr, func() { srv.CloseWrite() }, &p.sentTLS)
				continue
			}
			if m := reAuth.Find(pending); m != nil {
				pending = pending[len(m):]
				if wr([]byte(`<success xmlns='urn:ietf:params:xml:ns:xmpp-sasl'/>`)) != nil {
					return
				}
				continue
			}
			if m := reIQ.Find(pending); m != nil {
				pending = pending[len(m):]
				id := ""
				if mm := reID.FindSubmatch(m); mm != nil {
					id = string(mm[1])
				}
				xmlns := "jabber:client"
				if p.c.Bits&nx.S2S != 0 {
					xmlns = "jabber:server"
				}
				if wr([]byte(`<iq xmlns='`+xmlns+`' type='result' id='`+id+`'><bind xmlns='urn:ietf:params:xml:ns:xmpp-bind'><jid>me@`+p.domain+`/res</jid></bind></iq>`)) != nil {
					return
				}
				continue
			}
			if m := reClose.Find(pending); m != nil {
				pending = pending[len(m):]
				continue
			}
			if !bytes.Contains(pending, []byte(">")) || bytes.HasPrefix(pending, []byte("<auth")) || bytes.HasPrefix(pending, []byte("<iq")) {
				break
			}
			p.conn.Close()
			return
		}
		if err != nil {
			return
		}
	}
}

// ---------------------------------------------------------------- running one session

const (
	rosterSpace = "urn:xmpp:features:rosterver"
	sm3Space    = "urn:xmpp:sm:3"
	extraSpace  = "urn:x:sm"
	evilSpace   = "urn:x:pipelined" // advertised only by clear text pipelined behind <proceed/>
)

// buildFeatures returns the configured features (real ones wrapped for
// logging) and their model descriptions. stls, when non-nil, is a StartTLS
// feature value shared with other sessions.
// sessCtx is what the shared feature values need to know about the session a
// callback runs for; it travels in the context given to NewSession.
type sessCtx struct {
	log    *nx.Log
	c      *c2Case
	xcalls int
}

type sessKey struct{}

func sessOf(ctx context.Context) *sessCtx { return ctx.Value(sessKey{}).(*sessCtx) }

func logOf(ctx context.Context) *nx.Log { return sessOf(ctx).log }

// negotiation is a Negotiator value with the feature values it was built from
// (and their model descriptions); it may serve several sessions.
type negotiation struct {
	neg   xmpp.Negotiator
	specs []nx.FeatSpec
}

// newNegotiation builds the features of c (stls, when non-nil, is a StartTLS
// feature value shared with other negotiations) and one Negotiator from them.
func newNegotiation(c *c2Case, stls *xmpp.StreamFeature) *negotiation {
	feats, specs := buildFeatures(c, stls)
	tee := c.Tee
	var teeIn, teeOut syncBuffer
	neg := xmpp.NewNegotiator(func(*xmpp.Session, *xmpp.StreamConfig) xmpp.StreamConfig {
		sc := xmpp.StreamConfig{Features: feats}
		if tee&1 != 0 {
			sc.TeeIn = &teeIn
		}
		if tee&2 != 0 {
			sc.TeeOut = &teeOut
		}
		return sc
	})
	return &negotiation{neg: neg, specs: specs}
}

// syncBuffer is a tee target that several sessions may write to.
type syncBuffer struct {
	mu sync.Mutex
	n  int
}

func (b *syncBuffer) Write(p []byte) (int, error) {
	b.mu.Lock()
	b.n += len(p)
	b.mu.Unlock()
	return len(p), nil
}

// buildFeatures returns the configured features (real ones wrapped for
// logging) and their model descriptions. stls, when non-nil, is a StartTLS
// feature value shared with other sessions.
func buildFeatures(c *c2Case, stls *xmpp.StreamFeature) ([]xmpp.StreamFeature, []nx.FeatSpec) {
	var fs []xmpp.StreamFeature
	var specs []nx.FeatSpec
	spec := func(f xmpp.StreamFeature, kind string) nx.FeatSpec {
		return nx.FeatSpec{Space: f.Name.Space, Local: f.Name.Local, Nec: uint8(f.Necessary), Proh: uint8(f.Prohibited),
			Neg: f.Negotiate != nil, Kind: kind}
	}
	for _, ch := range c.Feat {
		switch ch {
		case 't':
			var f xmpp.StreamFeature
			if stls != nil {
				f = *stls
			} else {
				f = xmpp.StartTLS(clientTLSConfig(c))
			}
			specs = append(specs, spec(f, "starttls"))
			fs = append(fs, nx.LoggedFeature(f, logOf))
		case 's':
			f := xmpp.SASL("", "secret", sasl.Plain)
			specs = append(specs, spec(f, ""))
			fs = append(fs, nx.LoggedFeature(f, logOf))
		case 'b':
			f := xmpp.BindResource()
			specs = append(specs, spec(f, ""))
			fs = append(fs, nx.LoggedFeature(f, logOf))
		case 'x':
			sp := nx.FeatSpec{Space: extraSpace, Local: "sm", Nec: nx.Secure, Neg: true}
			specs = append(specs, sp)
			fs = append(fs, nx.AbstractFeature(sp, logOf, func(ctx context.Context, _ nx.FeatSpec, _ uint8) nx.Outcome {
				sc := sessOf(ctx)
				var o nx.Outcome
				if sc.xcalls < len(sc.c.XOuts) {
					o = sc.c.XOuts[sc.xcalls]
				}
				sc.xcalls++
				return o
			}))
		case 'e':
			sp := nx.FeatSpec{Space: evilSpace, Local: "p", Nec: nx.Secure, Neg: true}
			specs = append(specs, sp)
			fs = append(fs, nx.AbstractFeature(sp, logOf, func(context.Context, nx.FeatSpec, uint8) nx.Outcome { return nx.Outcome{Mask: nx.Ready} }))
		}
	}
	return fs, specs
}

func clientTLSConfig(c *c2Case) *tls.Config {
	if c.TLSName == nil {
		return nil
	}
	cfg := &tls.Config{ServerName: *c.TLSName, MinVersion: tls.VersionTLS12}
	if c.HsMode != "untrusted" {
		cfg.RootCAs = rootPool
	} else {
		cfg.RootCAs = x509.NewCertPool()
	}
	return cfg
}

// running is one session under way.
type running struct {
	c      *c2Case
	domain string
	p      *peer
	a, b   *nx.DuplexEnd
	log    *nx.Log
	specs  []nx.FeatSpec
	pdone  chan struct{}
	done   chan struct{}
	sess   *xmpp.Session
	err    error
	pmsg   string
}

// start launches the scripted peer and NewSession (each on its own goroutine).
func start(c *c2Case, domain string, stls *xmpp.StreamFeature, g *gates, ng *negotiation) *running {
	r := &running{c: c, domain: domain, log: &nx.Log{}, pdone: make(chan struct{}), done: make(chan struct{})}
	r.a, r.b = nx.NewDuplex()
	r.p = &peer{conn: r.b, c: c, domain: domain, in: append([]nx.Item(nil), c.In...), tin: append([]nx.Item(nil), c.TLSIn...), gates: g}
	go func() { defer close(r.pdone); r.p.run() }()

	if ng == nil {
		ng = newNegotiation(c, stls)
	}
	r.specs = ng.specs
	ctx := context.WithValue(context.Background(), sessKey{}, &sessCtx{log: r.log, c: c})
	go func() {
		r.pmsg = hx.Catch(func() {
			r.sess, r.err = xmpp.NewSession(ctx, jid.MustParse("srv."+domain), jid.MustParse("me@"+domain), r.a, xmpp.SessionState(c.Bits), ng.neg)
		})
		close(r.done)
		if g != nil {
			g.ev <- "done"
		}
	}()
	return r
}

func execute(c *c2Case, domain string, stls *xmpp.StreamFeature, ng *negotiation) (observed, []nx.FeatSpec) {
	return start(c, domain, stls, nil, ng).collect()
}

// collect waits for NewSession to return and gathers the observations.
func (r *running) collect() (observed, []nx.FeatSpec) {
	c, p, a, b, log, specs, pdone := r.c, r.p, r.a, r.b, r.log, r.specs, r.pdone
	done := true
	select {
	case <-r.done:
	case <-time.After(watchdog):
		done = false
	}
	var sess *xmpp.Session
	var err error
	var pmsg string
	if done {
		sess, err, pmsg = r.sess, r.err, r.pmsg
	}
	var o observed
	switch {
	case !done:
		o.Class = "timeout"
	case pmsg != "":
		o.Class, o.ErrText = "panic", pmsg
	case err != nil:
		o.Class, o.ErrText = "err", err.Error()
	default:
		o.Class = "ok"
	}
	o.Feats = []string{}
	if sess != nil && done {
		o.Bits = uint8(sess.State())
		o.TLSUp = sess.ConnectionState().HandshakeComplete
		for _, ns := range universe(c) {
			if _, ok := sess.Feature(ns); ok {
				o.Feats = append(o.Feats, ns)
			}
		}
		in := sess.In()
		o.Info = info{ID: in.ID, Lang: in.Lang, XMLNS: in.XMLNS, From: in.From.String(), To: in.To.String()}
		if in.Version != (stream.Version{}) {
			o.Info.Ver = in.Version.String()
		}
	}
	a.Close()
	select {
	case <-pdone:
	case <-time.After(watchdog):
	}
	b.Close()
	p.mu.Lock()
	defer p.mu.Unlock()
	o.Clear = string(p.clear)
	o.Wire = nx.ParseWire(p.clear)
	o.SNI = append([]string{}, p.sni...)
	o.HS = append([]bool{}, p.hs...)
	o.TLSHdr, o.SentTLS, o.Unexp, o.Proceed = p.tlsHdr, p.sentTLS, p.unexp, p.proceeded
	if len(p.post) > 0 && p.post[0] != 0x16 {
		o.Unexp = "clear text after <proceed/>: " + string(p.post)
	}
	o.CB = log.Events()
	// conn.go: a teeConn reports the TLS state only of a *tls.Conn it wraps
	// directly; once a scripted feature has returned a wrapper around the
	// connection the tee'd session reports no TLS state at all (outside C02:
	// noted in design/C02.md).  The peer's view of the handshake stands in.
	if c.Tee != 0 && !o.TLSUp && len(p.hs) > 0 && p.hs[len(p.hs)-1] {
		for _, e := range o.CB {
			if e.K == "neg" && e.Space == extraSpace && e.O.Restart {
				o.TLSUp = true
			}
		}
	}
	// the observed picks (every Negotiate call) and the outcomes of all features
	// other than STARTTLS, in call order
	for _, e := range o.CB {
		if e.K != "neg" {
			continue
		}
		o.Choices = append(o.Choices, e.Space)
		if e.Space != nx.NSStartTLS {
			o.Outs = append(o.Outs, *e.O)
		}
	}
	return o, specs
}

// universe lists the name spaces Session.Feature is asked about: every name
// space a features list of the case advertises (clear text, pipelined or over
// TLS) and those of all features the harness knows.
func universe(c *c2Case) []string {
	out := []string{nx.NSStartTLS, nx.NSSASL, nx.NSBind, extraSpace, evilSpace, rosterSpace, sm3Space, "urn:x:unknown"}
	seen := map[string]bool{}
	for _, ns := range out {
		seen[ns] = true
	}
	for _, its := range [][]nx.Item{c.In, c.TLSIn} {
		for _, it := range its {
			for _, ch := range it.Children {
				if !ch.Text && !seen[ch.Space] {
					seen[ch.Space] = true
					out = append(out, ch.Space)
				}
			}
		}
	}
	return out
}

// ---------------------------------------------------------------- oracle

// clearShape classifies what was sent in clear text: the number of stream
// headers and STARTTLS requests, whether they came in that order, and whatever
// is neither.
func clearShape(s string) (headers, requests int, ordered bool, rest string) {
	ordered = true
	s = strings.TrimLeft(s, " \r\n\t")
	for {
		switch {
		case reDecl.MatchString(s):
			s = s[len(reDecl.FindString(s)):]
		case reHeader.MatchString(s):
			if requests > 0 {
				ordered = false
			}
			headers++
			s = s[len(reHeader.FindString(s)):]
		case reStartTLS.MatchString(s) && strings.Contains(reStartTLS.FindString(s), nx.NSStartTLS):
			if headers == 0 {
				ordered = false
			}
			requests++
			s = s[len(reStartTLS.FindString(s)):]
		default:
			return headers, requests, ordered, s
		}
		s = strings.TrimLeft(s, " \r\n\t")
	}
}

// oracle restates C02 on one run; returns (key suffix, explanation) pairs.
func oracle(c *c2Case, domain string, o *observed) [][2]string {
	var fails [][2]string
	fail := func(k, w string) { fails = append(fails, [2]string{k, w}) }
	sentStartTLS := strings.Contains(o.Clear, "<starttls")
	// 1. nothing but one stream header and one STARTTLS request in clear text
	headers, requests, ordered, rest := clearShape(o.Clear)
	switch {
	case rest != "":
		fail("clear-wire/other-data", "sent in clear text: "+rest)
	case headers > 1 || requests > 1 || !ordered:
		fail("clear-wire/repeated", fmt.Sprintf("%d stream headers and %d STARTTLS requests in clear text", headers, requests))
	}
	if o.Unexp != "" && !strings.HasPrefix(o.Unexp, "unexpected clear text") {
		fail("clear-wire/other-data", o.Unexp)
	}
	// 2. established only over TLS
	if o.Class == "ok" {
		tlsUp := o.TLSUp && o.Bits&nx.Secure != 0 && len(o.HS) > 0 && o.HS[len(o.HS)-1]
		switch {
		case tlsUp && !(o.TLSHdr && o.SentTLS >= 2):
			// 4. ... and what made it ready came over the TLS layer
			fail("cleartext-reinterpreted/ready-without-tls-input", "session established although the peer's TLS-layer header and features were not both delivered: clear text received before the handshake was used")
		case tlsUp:
		case sentStartTLS && o.Proceed:
			fail("ready-in-clear/proceed-without-handshake", "session established right after <proceed/>: no TLS handshake, no stream restart")
		case sentStartTLS:
			fail("ready-in-clear/after-starttls-refused", "session established without TLS after its STARTTLS request was not honoured")
		default:
			fail("ready-in-clear/no-starttls-attempt", "session established in clear text without attempting STARTTLS")
		}
		if o.Bits&nx.Ready == 0 {
			fail("ready-bit", "established without the Ready bit")
		}
	}
	if o.Class == "panic" || o.Class == "timeout" {
		fail(o.Class, "negotiation "+o.Class+": "+o.ErrText)
	}
	// whatever the outcome: no state bit is gained while the stream is in clear text
	if !o.Proceed && o.Bits != c.Bits && o.Class == "err" {
		fail("ready-in-clear/bits-gained", fmt.Sprintf("state went from %d to %d although the peer never said <proceed/>", c.Bits, o.Bits))
	}
	// 4. clear text pipelined behind <proceed/> is never parsed: the marker
	// feature is advertised only there
	if !advertisesMarker(c.TLSIn) && !advertisesMarker(c.In[:min(len(c.In), 2)]) {
		for _, e := range o.CB {
			if e.Space == evilSpace {
				fail("cleartext-reinterpreted/pipelined-parsed", "a feature advertised only in clear text pipelined behind <proceed/> reached the session ("+e.K+" callback)")
				break
			}
		}
	}
	// ... nor kept as state of the protected stream: once the session has started
	// a handshake, what it reports as advertised (Session.Feature) was advertised
	// by a features list the peer sent over TLS
	if len(o.SNI) > 0 {
		sent := c.TLSIn
		if o.SentTLS < len(sent) {
			sent = sent[:o.SentTLS]
		}
		overTLS := map[string]bool{}
		for _, it := range sent {
			if it.Kind == "features" && !it.Sp {
				for _, ch := range it.Children {
					overTLS[ch.Space] = true
				}
			}
		}
		for _, ns := range o.Feats {
			if !overTLS[ns] {
				fail("cleartext-reinterpreted/feature-list-survives-tls", "Session.Feature reports "+ns+" for the protected stream; it was advertised only before the TLS layer was installed")
				break
			}
		}
	}
	// ... and so for Session.In(): on an established session every attribute is
	// the one of the last stream header the peer sent over TLS, and an attribute
	// that header omits is reported empty; from/to are the addresses the session
	// was created with (a header without id, version or content name space must
	// have been refused, so expecting "" for them makes that a failure too)
	if o.Class == "ok" && len(o.SNI) > 0 {
		var last *nx.Item
		for i := 0; i < o.SentTLS && i < len(c.TLSIn); i++ {
			if c.TLSIn[i].Kind == "header" {
				last = &c.TLSIn[i]
			}
		}
		if last != nil {
			a := nx.HeaderAttrs(*last, c.Bits&nx.S2S != 0, domain)
			want := func(p *string) string {
				if p == nil {
					return ""
				}
				return *p
			}
			got := []string{o.Info.ID, o.Info.Ver, o.Info.Lang, o.Info.XMLNS}
			for i, name := range []string{"id", "version", "xml:lang", "xmlns"} {
				if got[i] != want(a[i]) {
					fail("cleartext-reinterpreted/stream-info-survives-tls", fmt.Sprintf("Session.In() reports %s=%q for the protected stream, its header said %q (absent = \"\")", name, got[i], want(a[i])))
					break
				}
			}
			if o.Info.From != "srv."+domain || o.Info.To != "me@"+domain {
				fail("cleartext-reinterpreted/stream-info-survives-tls", fmt.Sprintf("Session.In() reports from=%q to=%q", o.Info.From, o.Info.To))
			}
		}
	}
	// no feature that needs a secured stream is negotiated before the handshake
	for _, e := range o.CB {
		if e.K == "neg" && e.Space != nx.NSStartTLS && e.St&nx.Secure == 0 {
			fail("ready-in-clear/feature-negotiated-in-clear", "feature "+e.Space+" negotiated while the session was not secure")
			break
		}
	}
	// 3. server name
	want := domain
	if c.TLSName != nil {
		want = *c.TLSName
	}
	for _, n := range o.SNI {
		if n != want {
			if c.TLSName == nil {
				fail("sni/not-own-domain", fmt.Sprintf("handshake named %q, the session's own domain is %q", n, want))
			} else {
				fail("sni/not-configured-name", fmt.Sprintf("handshake named %q, the configuration says %q", n, want))
			}
		}
	}
	// a handshake is only ever started after the peer said <proceed/>
	if len(o.SNI) > 0 && !sentStartTLS {
		fail("clear-wire/handshake-without-request", "TLS handshake started without a STARTTLS request")
	}
	return fails
}

func min(a, b int) int {
	if a < b {
		return a
	}
	return b
}

func advertisesMarker(its []nx.Item) bool {
	for _, it := range its {
		for _, ch := range it.Children {
			if ch.Space == evilSpace {
				return true
			}
		}
	}
	return false
}

// ---------------------------------------------------------------- generation

func sp(s string) *string { return &s }

func tlsChild(req bool) nx.Child { return nx.Child{Space: nx.NSStartTLS, Local: "starttls", Req: req} }

var (
	saslChild  = nx.Child{Space: nx.NSSASL, Local: "mechanisms", Req: true}
	bindChild  = nx.Child{Space: nx.NSBind, Local: "bind", Req: true}
	smChild    = nx.Child{Space: extraSpace, Local: "sm"}
	smReqChild = nx.Child{Space: extraSpace, Local: "sm", Req: true}
	smErrChild = nx.Child{Space: extraSpace, Local: "sm", PErr: true}
	evilChild  = nx.Child{Space: evilSpace, Local: "p"}
	unkChild   = nx.Child{Space: "urn:x:unknown", Local: "u"}
	rosterChld = nx.Child{Space: rosterSpace, Local: "ver"}
	sm3Child   = nx.Child{Space: sm3Space, Local: "sm"}
)

func feat(cs ...nx.Child) nx.Item { return nx.Item{Kind: "features", Children: cs} }

// the header of the clear-text stream carries an id and a language of its own
var hdr = nx.Item{Kind: "header", ID: "c1", Lang: "en"}

// headers of the protected stream: complete ones, and ones that leave out or
// change an attribute the clear-text header had
func tlsHeaders() []nx.Item {
	h := func(id, lang string, omit ...string) nx.Item {
		return nx.Item{Kind: "header", ID: id, Lang: lang, Omit: omit}
	}
	return []nx.Item{
		hdr, h("t1", "de"), h("t1", ""), h("t1", "de", "lang"), h("t1", "de", "id"), h("t1", "de", "version"),
		h("t1", "de", "xmlns"), h("t1", "de", "from"), h("t1", "de", "to"), h("t1", "de", "from", "to", "lang"),
		{Kind: "header", ID: "t1", From: "evil.example"}, {Kind: "header", ID: "t1", To: "other@example.net"},
	}
}

// the grammar of peer behaviours
func clearLists() []nx.Item {
	return []nx.Item{
		feat(tlsChild(true)), feat(tlsChild(false)), feat(tlsChild(true), saslChild), feat(saslChild), feat(saslChild, bindChild),
		feat(), feat(unkChild), feat(tlsChild(false), unkChild, saslChild, bindChild), feat(smChild),
		feat(nx.Child{Space: nx.NSStartTLS, Local: "other"}), feat(tlsChild(false), nx.Child{Text: true}),
		{Kind: "garbage"}, {Kind: "streamerr"}, {Kind: "elem", Space: "urn:x:unknown", Local: "u"}, {Kind: "features", Sp: true, Children: []nx.Child{tlsChild(true)}},
		feat(smReqChild, bindChild), feat(tlsChild(false), smChild), feat(smErrChild, tlsChild(true)), feat(tlsChild(true), tlsChild(false)),
		feat(tlsChild(true), rosterChld, sm3Child), feat(rosterChld, tlsChild(false), saslChild), feat(rosterChld, sm3Child),
	}
}

func replies() []nx.Item {
	return []nx.Item{
		{Kind: "elem", Space: nx.NSStartTLS, Local: "proceed"},
		{Kind: "elem", Space: nx.NSStartTLS, Local: "proceed"},
		{Kind: "elem", Space: nx.NSStartTLS, Local: "failure"},
		{Kind: "elem", Space: nx.NSStartTLS, Local: "other"},
		{Kind: "elem", Space: "urn:x:unknown", Local: "proceed"},
		{Kind: "elem", Space: nx.NSStartTLS, Local: "proceed", Sp: true},
		{Kind: "garbage"}, {Kind: "streamerr"}, feat(), feat(saslChild), {Kind: "elem", Space: "jabber:client", Local: "iq"}, {Kind: "header"},
	}
}

// clear text an attacker may pipeline behind <proceed/>
func pipelines() [][]nx.Item {
	return [][]nx.Item{
		{hdr, feat()},
		{hdr, feat(evilChild)},
		{hdr, feat(saslChild)},
		{feat()},
		{hdr},
		{{Kind: "garbage"}},
	}
}

func tlsScripts() [][]nx.Item {
	return [][]nx.Item{
		{hdr, feat()},
		{hdr, feat(saslChild), hdr, feat(bindChild)},
		{hdr, feat(saslChild, bindChild), hdr, feat(bindChild)},
		{hdr, feat(saslChild), hdr, feat()},
		{hdr, feat(smChild, saslChild), hdr, feat(bindChild, smChild)},
		{hdr, feat(smChild), hdr, feat(saslChild), hdr, feat(bindChild)},
		{hdr, feat(saslChild, rosterChld), hdr, feat(bindChild, sm3Child)},
		{hdr, feat(evilChild, smReqChild)},
		{{Kind: "header", Bad: true}},
		{hdr, {Kind: "garbage"}},
		{hdr, feat(tlsChild(true))},
		{hdr, feat(bindChild)},
		{hdr, feat(unkChild)},
		{hdr, feat(smReqChild)},
		{hdr, feat(smErrChild, saslChild)},
		{hdr},
		{},
	}
}

var featSets = []string{"tsb", "ts", "t", "stb", "bst", "tsbx", "xtsb", "tsbe", "tx", "etsbx"}
var hsModes = []string{"ok", "ok", "ok", "untrusted", "nilcfg", "abort", "plaintext"}
var xOutcomes = []nx.Outcome{{}, {}, {Restart: true}, {Err: true}, {Mask: nx.Authn}, {Mask: nx.Ready}, {Mask: nx.Authn, Restart: true}}

func genCase(r *hx.Rand) *c2Case {
	c := &c2Case{}
	c.Domain = "example.net"
	c.Feat = featSets[r.Intn(len(featSets))]
	c.HsMode = hsModes[r.Intn(len(hsModes))]
	if c.HsMode != "nilcfg" {
		c.TLSName = sp([]string{"example.net", "tls.example.net"}[r.Intn(2)])
	}
	if r.Chance(1, 8) {
		c.Bits = nx.S2S
	}
	h := hdr
	if r.Chance(1, 20) {
		h.Bad = true
	}
	h.Sp = r.Chance(1, 15)
	cl := clearLists()
	rp := replies()
	var list nx.Item
	if r.Chance(3, 5) {
		list = append(cl[:5:5], cl[len(cl)-3:]...)[r.Intn(8)] // the usual advertisements, with or without informational features
	} else {
		list = cl[r.Intn(len(cl))]
	}
	var reply nx.Item
	if r.Chance(1, 2) {
		reply = rp[r.Intn(2)]
	} else {
		reply = rp[r.Intn(len(rp))]
	}
	c.In = []nx.Item{h, list, reply}
	switch r.Intn(12) {
	case 0:
		c.In = c.In[:2] // no answer to the STARTTLS request
	case 1:
		c.In = c.In[:1]
	case 2, 3, 4:
		pl := pipelines()
		c.In = append(c.In, pl[r.Intn(len(pl))]...) // more clear text behind the answer
	}
	ts := tlsScripts()
	if r.Chance(1, 2) {
		c.TLSIn = ts[r.Intn(7)]
	} else {
		c.TLSIn = ts[r.Intn(len(ts))]
	}
	if strings.Contains(c.Feat, "x") {
		for i, n := 0, r.Intn(3); i < n; i++ {
			c.XOuts = append(c.XOuts, xOutcomes[r.Intn(len(xOutcomes))])
		}
	}
	// the headers of the protected stream: mostly complete, sometimes lacking an attribute
	th := tlsHeaders()
	c.TLSIn = append([]nx.Item(nil), c.TLSIn...)
	for i := range c.TLSIn {
		if c.TLSIn[i].Kind == "header" && !c.TLSIn[i].Bad {
			switch {
			case r.Chance(1, 2):
				c.TLSIn[i] = th[1]
			case r.Chance(1, 2):
				c.TLSIn[i] = th[r.Intn(len(th))]
			}
		}
	}
	// the clear-text header now and then lacks one too
	if r.Chance(1, 10) && !c.In[0].Bad {
		c.In[0].Omit = []string{[]string{"lang", "from", "to", "id", "version", "xmlns"}[r.Intn(6)]}
	}
	return c
}

// ---------------------------------------------------------------- bookkeeping

type runner struct {
	res *hx.Result
	cf  hx.CaseFile
}

func coqCase(c *c2Case, specs []nx.FeatSpec, domain string, o *observed) string {
	var outs, chs, wire, cbs, sni, hs, univ, feats []string
	for _, ns := range universe(c) {
		univ = append(univ, nx.CoqStr(ns))
	}
	for _, ns := range o.Feats {
		feats = append(feats, nx.CoqStr(ns))
	}
	for _, x := range o.Outs {
		outs = append(outs, nx.CoqOutcome(x))
	}
	for _, x := range o.Choices {
		chs = append(chs, nx.CoqStr(x))
	}
	for _, w := range o.Wire {
		wire = append(wire, nx.CoqWItem(w))
	}
	for _, e := range o.CB {
		cbs = append(cbs, nx.CoqCB(e))
	}
	for _, n := range o.SNI {
		sni = append(sni, nx.CoqStr(n))
	}
	for _, b := range o.HS {
		hs = append(hs, hx.CoqBool(b))
	}
	l := nx.CoqList
	s2s := c.Bits&nx.S2S != 0
	inf := fmt.Sprintf("(mkI %s %s %s %s %s %s)", nx.CoqStr(o.Info.ID), nx.CoqStr(o.Info.Ver), nx.CoqStr(o.Info.Lang),
		nx.CoqStr(o.Info.XMLNS), nx.CoqStr(o.Info.From), nx.CoqStr(o.Info.To))
	return fmt.Sprintf("mkC2 %s %s %s %s %s %s %s %s %s %s %s %s %s %s %s %s %s %s",
		hx.CoqBool(c.Tee != 0), nx.CoqConfig(specs, c.hsOK(), domain), nx.CoqOptStr(c.TLSName), nx.CoqN(c.Bits),
		nx.CoqItems(c.In, s2s, domain), nx.CoqItems(c.TLSIn, s2s, domain), l(outs), l(chs),
		hx.CoqBool(o.Class == "ok"), nx.CoqN(o.Bits), l(wire), l(cbs), l(sni), l(hs), hx.CoqNat(o.SentTLS), l(univ), l(feats), inf)
}

// one script, the four tee modes, optional further sessions with the same feature value
func (x *runner) run(c *c2Case) {
	if c.Inter != nil {
		x.runInterleaved(c)
		return
	}
	var base *observed
	for tee := 0; tee < 4; tee++ {
		cc := *c
		cc.Tee = tee
		var shared *xmpp.StreamFeature
		var ng *negotiation
		domains := []string{cc.Domain}
		if len(cc.Reuse) > 0 && (strings.Contains(cc.Feat, "t") || cc.ShareNeg) {
			f := xmpp.StartTLS(clientTLSConfig(&cc))
			shared = &f
			domains = append(domains, cc.Reuse...)
			if cc.ShareNeg {
				ng = newNegotiation(&cc, shared)
			}
		}
		for si, domain := range domains {
			sc := cc.forSession(si, domain)
			o, specs := execute(sc, domain, shared, ng)
			if os.Getenv("VERIF_DEBUG") != "" {
				b, _ := json.Marshal(o)
				fmt.Fprintf(os.Stderr, "tee=%d domain=%s %s\n", tee, domain, b)
			}
			x.record(sc, &cc, specs, domain, &o, si)
			if si == 0 {
				if base == nil {
					b := o
					base = &b
				} else if d := diff(base, &o); d != "" {
					x.res.Fail("C02/tee/outcome-differs", fmt.Sprintf("with tee mode %d: %s", tee, d), cc)
				}
			}
		}
	}
}

// runInterleaved runs the sessions of c.Inter.Domains concurrently with one
// StartTLS feature value and advances them in the order c.Inter.Order; every
// step is complete (the session is blocked at its next gate, or over) before
// the next one is released, so the interleaving is exact and repeatable.
func (x *runner) runInterleaved(c *c2Case) {
	n := len(c.Inter.Domains)
	f := xmpp.StartTLS(clientTLSConfig(c))
	rs := make([]*running, n)
	gs := make([]*gates, n)
	cs := make([]*c2Case, n)
	over := make([]bool, n)
	stuck := false
	wait := func(i int) {
		if over[i] || stuck {
			return
		}
		select {
		case ev := <-gs[i].ev:
			if ev == "done" {
				over[i] = true
			}
		case <-time.After(watchdog):
			stuck = true
		}
	}
	var ng *negotiation
	if c.ShareNeg {
		ng = newNegotiation(c, &f)
	}
	for i, d := range c.Inter.Domains {
		cs[i] = c.forSession(i, d)
		gs[i] = newGates()
		rs[i] = start(cs[i], d, &f, gs[i], ng)
	}
	for i := range rs {
		wait(i) // every session has sent its stream header
	}
	next := make([]int, n)
	for _, i := range c.Inter.Order {
		if i < 0 || i >= n || next[i] >= 3 {
			continue
		}
		close(gs[i].g[next[i]])
		next[i]++
		wait(i)
	}
	for i := range rs {
		for ; next[i] < 3; next[i]++ {
			close(gs[i].g[next[i]])
		}
	}
	for i := range rs {
		o, specs := rs[i].collect()
		if os.Getenv("VERIF_DEBUG") != "" {
			b, _ := json.Marshal(o)
			fmt.Fprintf(os.Stderr, "interleaved session %d domain=%s %s\n", i, cs[i].Domain, b)
		}
		if stuck && o.Class != "timeout" {
			x.res.Fail("C02/timeout", "an interleaved history did not advance", c)
		}
		x.record(cs[i], c, specs, cs[i].Domain, &o, i)
	}
}

// interleavings lists every order of the steps (three per session) of n sessions.
func interleavings(n int) [][]int {
	var out [][]int
	left := make([]int, n)
	for i := range left {
		left[i] = 3
	}
	var cur []int
	var rec func()
	rec = func() {
		done := true
		for i := 0; i < n; i++ {
			if left[i] > 0 {
				done = false
				left[i]--
				cur = append(cur, i)
				rec()
				cur = cur[:len(cur)-1]
				left[i]++
			}
		}
		if done {
			out = append(out, append([]int(nil), cur...))
		}
	}
	rec()
	return out
}

func diff(a, b *observed) string {
	ja, _ := json.Marshal(a)
	jb, _ := json.Marshal(b)
	if string(ja) == string(jb) {
		return ""
	}
	switch {
	case a.Class != b.Class:
		return fmt.Sprintf("outcome %s without tee, %s with", a.Class, b.Class)
	case a.Clear != b.Clear:
		return fmt.Sprintf("clear-text bytes differ: %q without tee, %q with", a.Clear, b.Clear)
	case a.Bits != b.Bits:
		return "final state differs"
	}
	return "observations differ: " + string(ja) + " vs " + string(jb)
}

// record files one session: c is the case as that session saw it (what the
// model is run on), hist the history it belongs to (what a replay must re-run).
func (x *runner) record(c, hist *c2Case, specs []nx.FeatSpec, domain string, o *observed, si int) {
	b, _ := json.Marshal(struct {
		C *c2Case
		D string
	}{c, domain})
	stage := "clear-error"
	switch {
	case o.Class == "ok":
		stage = "established"
	case len(o.HS) > 0 && o.HS[len(o.HS)-1]:
		stage = "error-after-tls"
	case len(o.SNI) > 0:
		stage = "handshake-failed"
	case strings.Contains(o.Clear, "<starttls"):
		stage = "starttls-refused"
	}
	classes := []string{"stage:" + stage, "hs:" + c.HsMode, fmt.Sprintf("tee:%d", c.Tee), "feats:" + c.Feat}
	if si > 0 {
		classes = append(classes, "reused-feature-value")
	}
	if c.Inter != nil {
		classes = append(classes, "interleaved-sessions")
	}
	if c.ShareNeg && si > 0 {
		classes = append(classes, "reused-negotiator-value")
	}
	if len(c.In) > 3 && isProceed(&c.In[2]) {
		classes = append(classes, "pipelined-behind-proceed")
	}
	x.res.Count(string(b), strings.Contains(o.Clear, "<starttls") || o.Class == "ok", classes...)
	for _, f := range oracle(c, domain, o) {
		x.res.Fail("C02/"+f[0], f[1], hist)
	}
	x.cf.Add(coqCase(c, specs, domain, o), hist)
	if c.Tee == 0 {
		x.res.Sample(map[string]interface{}{"case": c, "domain": domain, "observed": o})
	}
}

func main() {
	o := hx.ParseFlags()
	makeCert()
	res := hx.NewResult("C02")
	x := &runner{res: res}
	x.cf = hx.CaseFile{Name: "c2", Imports: imports, Ok: "c2_ok", Type: "c2case"}
	r := hx.NewRand(o.Seed)

	if o.Replay != "" {
		b, err := os.ReadFile(o.Replay)
		if err != nil {
			fmt.Fprintln(os.Stderr, err)
			os.Exit(2)
		}
		var rp struct {
			Case c2Case `json:"case"`
		}
		if err := json.Unmarshal(b, &rp); err != nil {
			fmt.Fprintln(os.Stderr, err)
			os.Exit(2)
		}
		x.run(&rp.Case)
	} else {
		for _, c := range corpus() {
			cc := c
			x.run(&cc)
		}
		n := 700
		if o.Thorough() {
			n = 4000
			exhaustive(x)
		}
		if o.Search {
			n = 3000
		}
		interleaved(x, r, o.Thorough() || o.Search)
		negotiatorHistories(x)
		for i := 0; i < n; i++ {
			c := genCase(r)
			if r.Chance(1, 6) && c.HsMode == "nilcfg" || r.Chance(1, 12) {
				c.Reuse = []string{"example.org", "third.example"}[:1+r.Intn(2)]
				c.ShareNeg = r.Bool()
			}
			x.run(c)
		}
	}
	res.Rule = "cases: corpus (witnesses of the defects seen on the pinned tree), then peer scripts drawn from a grammar of behaviours " +
		"(header good/bad; first list with STARTTLS required/optional/absent/alone/among others/twice/empty/malformed; answer proceed, proceed with " +
		"clear text pipelined behind it (header, features, a marker feature, garbage), failure, other element, other name space, garbage, stream error, nothing; " +
		"TLS handshake completed / certificate not trusted / default config / refused by the server / clear text instead of a record; TLS-layer script with " +
		"SASL, bind, a scripted extra feature (voluntary/required, restarting, failing, granting bits), empty or malformed lists), thorough tier: the whole " +
		"product of the grammar; every script x tee off/in/out/both x feature sets x c2s/s2s; one StartTLS value reused for 2-3 sessions of different domains; " +
		"distinct = hash of (case, domain); non-trivial = a STARTTLS request was sent or the session was established"
	res.CaseFiles = append(res.CaseFiles, x.cf.Write(o.Out, 500)...)
	res.Extra["model_cases"] = x.cf.Len()
	res.Write(o.Out)
}

// interleaved: histories of sessions that share one feature value and overlap.
// Two sessions: every interleaving of their steps (20), with a nil and with an
// explicit config; three sessions: seeded orders (all 1680 in the thorough tier).
func interleaved(x *runner, r *hx.Rand, all bool) {
	proceed := nx.Item{Kind: "elem", Space: nx.NSStartTLS, Local: "proceed"}
	failure := nx.Item{Kind: "elem", Space: nx.NSStartTLS, Local: "failure"}
	full := []nx.Item{hdr, feat(saslChild), hdr, feat(bindChild)}
	mk := func(domains []string, order []int, tee int, name *string, reply nx.Item) *c2Case {
		c := &c2Case{Feat: "tsb", HsMode: "nilcfg", TLSName: name, Tee: tee, Inter: &interSpec{Domains: domains, Order: order}}
		if name != nil {
			c.HsMode = "ok"
		}
		c.Domain = domains[0]
		c.In = []nx.Item{hdr, feat(tlsChild(true)), reply}
		c.TLSIn = full
		return c
	}
	two := []string{"example.net", "example.org"}
	for k, order := range interleavings(2) {
		c := mk(two, order, k%4, nil, proceed)
		c.ShareNeg = k%2 == 1
		x.run(c)
		if k%4 == 0 || all {
			x.run(mk(two, order, (k/4)%4, sp("tls.example.net"), proceed))
		}
		if k%5 == 0 {
			x.run(mk(two, order, 0, nil, failure))
		}
	}
	three := []string{"example.net", "example.org", "third.example"}
	orders := interleavings(3)
	m := 12
	if all {
		m = len(orders)
	}
	for k := 0; k < m; k++ {
		order := orders[k]
		if !all {
			order = orders[r.Intn(len(orders))]
		}
		x.run(mk(three, order, k%4, nil, proceed))
	}
}

// negotiatorHistories: two or three sessions negotiated with ONE Negotiator
// value (and one StartTLS value).  The earlier session completes, fails or is
// left waiting for <proceed/>; the peer of the later sessions omits STARTTLS
// from its first features list (empty list, unknown features only, mechanisms
// only) and says <proceed/> when asked all the same.  One after the other
// (x 4 tee modes) and, for two sessions, in every interleaving of their steps.
func negotiatorHistories(x *runner) {
	proceed := nx.Item{Kind: "elem", Space: nx.NSStartTLS, Local: "proceed"}
	failure := nx.Item{Kind: "elem", Space: nx.NSStartTLS, Local: "failure"}
	full := []nx.Item{hdr, feat(saslChild), hdr, feat(bindChild)}
	earlier := [][]nx.Item{
		{hdr, feat(tlsChild(true)), proceed}, // completes
		{hdr, feat(tlsChild(true)), failure}, // fails
		{hdr, feat(), proceed},               // itself without STARTTLS in the list
	}
	later := []nx.Item{feat(), feat(unkChild), feat(saslChild), feat(rosterChld, sm3Child)}
	for ei, e := range earlier {
		for li, l := range later {
			c := &c2Case{Note: "one Negotiator value, later session's peer omits STARTTLS", Feat: "tsb", HsMode: "nilcfg", ShareNeg: true}
			c.Domain = "example.net"
			c.In, c.TLSIn = e, full
			c.LaterIn, c.LaterTLSIn = []nx.Item{hdr, l, proceed}, full
			c.Reuse = []string{"example.org", "third.example"}[:1+(ei+li)%2]
			x.run(c)
		}
	}
	for k, order := range interleavings(2) {
		c := &c2Case{Note: "one Negotiator value, overlapping sessions, later session's peer omits STARTTLS", Feat: "tsb", HsMode: "nilcfg", ShareNeg: true, Tee: k % 4}
		c.Domain = "example.net"
		c.In, c.TLSIn = earlier[k%2], full
		c.LaterIn, c.LaterTLSIn = []nx.Item{hdr, later[k%len(later)], proceed}, full
		c.Inter = &interSpec{Domains: []string{"example.net", "example.org"}, Order: order}
		x.run(c)
	}
	// the earlier session is abandoned: it never gets past waiting for <proceed/>
	// while the later ones run to the end
	for li, l := range later {
		c := &c2Case{Note: "one Negotiator value, earlier session left waiting for <proceed/>", Feat: "tsb", HsMode: "nilcfg", ShareNeg: true, Tee: li % 4}
		c.Domain = "example.net"
		c.In, c.TLSIn = earlier[0], full
		c.LaterIn, c.LaterTLSIn = []nx.Item{hdr, l, proceed}, full
		c.Inter = &interSpec{Domains: []string{"example.net", "example.org", "third.example"}, Order: []int{0, 1, 1, 1, 2, 2, 2}}
		x.run(c)
	}
}

// exhaustive: the product of the behaviour grammar (thorough tier).
func exhaustive(x *runner) {
	cl, rp, ts, pl := clearLists(), replies(), tlsScripts(), pipelines()
	i := 0
	for li, list := range cl {
		for ri, reply := range rp {
			if ri == 1 {
				continue // same as 0
			}
			for _, mode := range []string{"ok", "nilcfg", "abort", "plaintext", "untrusted"} {
				for ti, t := range ts {
					// beyond a completed handshake only the "ok" mode gets anywhere; keep one TLS script for the others
					if mode != "ok" && ti != 1 {
						continue
					}
					// answers that are not <proceed/> never reach the TLS script either
					if ri > 1 && ti > 1 {
						continue
					}
					c := &c2Case{HsMode: mode, Feat: featSets[i%len(featSets)]}
					i++
					c.Domain = "example.net"
					if mode != "nilcfg" {
						c.TLSName = sp("example.net")
					} else if (li+ri)%3 == 0 {
						c.Reuse = []string{"example.org"}
					}
					c.In = []nx.Item{hdr, list, reply}
					if i%3 == 0 {
						c.In = append(c.In, pl[(i/3)%len(pl)]...)
					}
					if strings.Contains(c.Feat, "x") {
						c.XOuts = []nx.Outcome{xOutcomes[i%len(xOutcomes)], xOutcomes[(i/7)%len(xOutcomes)]}
					}
					c.TLSIn = append([]nx.Item(nil), t...)
					if th := tlsHeaders(); i%2 == 0 {
						for j := range c.TLSIn {
							if c.TLSIn[j].Kind == "header" && !c.TLSIn[j].Bad {
								c.TLSIn[j] = th[(i/2+j)%len(th)]
							}
						}
					}
					x.run(c)
				}
			}
		}
	}
}

// corpus: witnesses of the defects seen on the pinned tree; always run first.
func corpus() []c2Case {
	mk := func(note, feat, mode string, name *string, in, tin []nx.Item, reuse ...string) c2Case {
		c := c2Case{Note: note, Feat: feat, HsMode: mode, Reuse: reuse}
		c.Domain, c.TLSName, c.In, c.TLSIn = "example.net", name, in, tin
		return c
	}
	proceed := nx.Item{Kind: "elem", Space: nx.NSStartTLS, Local: "proceed"}
	failure := nx.Item{Kind: "elem", Space: nx.NSStartTLS, Local: "failure"}
	full := []nx.Item{hdr, feat(saslChild), hdr, feat(bindChild)}
	net := sp("example.net")
	s2s := mk("happy path, server to server", "ts", "ok", net, []nx.Item{hdr, feat(tlsChild(true)), proceed}, []nx.Item{hdr, feat()})
	s2s.Bits = nx.S2S
	return []c2Case{
		mk("optional <starttls/> answered by <failure/>", "tsb", "ok", net, []nx.Item{hdr, feat(tlsChild(false)), failure}, full),
		mk("optional <starttls/> among others answered by <failure/>", "tsbx", "ok", net, []nx.Item{hdr, feat(tlsChild(false), saslChild), failure}, full),
		mk("optional <starttls/> alone answered by <proceed/> (no required feature in the list)", "tsb", "ok", net, []nx.Item{hdr, feat(tlsChild(false)), proceed}, full),
		mk("empty first list (tee must not matter)", "tsb", "ok", net, []nx.Item{hdr, feat(), proceed}, full),
		mk("STARTTLS not advertised", "tsb", "ok", net, []nx.Item{hdr, feat(saslChild), proceed}, full),
		mk("empty first list, nobody answers", "t", "ok", net, []nx.Item{hdr, feat()}, nil),
		mk("default config reused for other domains", "tsb", "nilcfg", nil, []nx.Item{hdr, feat(tlsChild(true)), proceed}, full, "example.org", "third.example"),
		mk("explicit config reused for other domains", "tsb", "ok", sp("tls.example.net"), []nx.Item{hdr, feat(tlsChild(true)), proceed}, full, "example.org"),
		mk("header and empty list pipelined behind <proceed/>", "tsb", "ok", net, []nx.Item{hdr, feat(tlsChild(true)), proceed, hdr, feat()}, full),
		mk("marker feature pipelined behind <proceed/>", "tsbe", "ok", net, []nx.Item{hdr, feat(tlsChild(true)), proceed, hdr, feat(evilChild)}, full),
		mk("clear text instead of a TLS record", "tsb", "plaintext", net, []nx.Item{hdr, feat(tlsChild(true)), proceed, hdr, feat()}, full),
		mk("informational features advertised in clear text only", "tsb", "ok", net, []nx.Item{hdr, feat(tlsChild(true), rosterChld, sm3Child), proceed}, []nx.Item{hdr, feat()}),
		mk("informational features in clear text, others over TLS", "tsb", "ok", net, []nx.Item{hdr, feat(rosterChld, tlsChild(false)), proceed}, []nx.Item{hdr, feat(saslChild, sm3Child), hdr, feat(bindChild)}),
		mk("happy path", "tsb", "ok", sp("tls.example.net"), []nx.Item{hdr, feat(tlsChild(true)), proceed}, full),
		s2s,
	}
}
