package main

import (
	"context"
	"encoding/xml"
	"fmt"
	"io"
	"net"
	"strings"
	"sync"
	"time"

	"mellium.im/xmlstream"
	"mellium.im/xmpp"
	"mellium.im/xmpp/jid"
	"mellium.im/xmpp/stanza"
	"mellium.im/xmpp/stream"
)

// Stall probes (oracle only): the peer does not read while a closing write is
// in progress, and somebody needs the session state meanwhile. The property's
// "Serve returns when ..." and "closing is observable" presuppose that reading
// the session state never waits for the connection. The deterministic signal is
// taken at the moment the write is entered: is the state mutex locked?

type stallCase struct {
	Writer string `json:"writer"` // close | senderror (Serve ends with a handler error) | shutdown (Serve's deferred Close after the peer closed)
	Needer string `json:"needer"` // serve-read | serve-top | setdeadline | state
}

func (x *runner) stallProbes() {
	x.twoSessionDeadlock()
	x.writeDeadlineProbe()
	x.layeredDeadlineProbe()
	for _, w := range []string{"close", "senderror", "shutdown"} {
		for _, n := range []string{"serve-read", "serve-top", "setdeadline", "state"} {
			if w != "close" && strings.HasPrefix(n, "serve-") {
				continue // Serve is the writer itself
			}
			x.stallProbe(stallCase{w, n})
		}
	}
}

func (x *runner) stallProbe(sc stallCase) {
	desc := &Scenario{Mode: "stall", Note: sc.Writer + "/" + sc.Needer}
	progress(desc)
	x.res.Count("stall/"+desc.Note, true, "mode/stall")
	fail := func(key, what string) { x.res.Fail(key, what, desc) }
	rg, err := newRig(true, false, false)
	if err != nil {
		fail("C10/setup", err.Error())
		return
	}
	defer rg.close()
	c := newCtl()
	xmpp.VerifSetHook(c.hook)
	defer xmpp.VerifSetHook(nil)
	defer c.releaseAll()
	waitEv := func(actor int) (event, bool) {
		deadline := time.Now().Add(watchdog)
		for {
			e, ok := c.next(time.Until(deadline))
			if !ok || e.actor == actor {
				return e, ok
			}
		}
	}
	step := func(actor int, want string) bool {
		c.release(actor)
		e, ok := waitEv(actor)
		if !ok || e.point != want {
			fail("C10/stall/setup", fmt.Sprintf("%s/%s: actor %d did not reach %q (got %q, ok=%v)", sc.Writer, sc.Needer, actor, want, e.point, ok))
			return false
		}
		return true
	}
	// actor 0: Serve. Its handler fails for the writer "senderror".
	h := xmpp.HandlerFunc(func(t xmlstream.TokenReadEncoder, start *xml.StartElement) error {
		if sc.Writer == "senderror" {
			return errBoom
		}
		return nil
	})
	c.spawn(0, func() { rg.s.Serve(h) })
	if e, ok := waitEv(0); !ok || e.point != "serve.iter" {
		fail("C10/stall/setup", "Serve did not reach serve.iter")
		return
	}
	// bring the needer's Serve into position before the peer stops reading
	if sc.Needer == "serve-top" {
		rg.peerQ <- []byte(`<message id='x1'/>`)
		if !step(0, "serve.handler.before") {
			return
		}
	}
	rg.watch.Store(true)
	for len(rg.writeEntered) > 0 {
		<-rg.writeEntered
	}
	rg.pause()
	// the writer runs up to its connection write, which stays pending
	switch sc.Writer {
	case "close":
		c.spawn(1, func() { rg.s.Close() })
		if e, ok := waitEv(1); !ok || e.point != "close.enter" {
			fail("C10/stall/setup", "Close did not reach close.enter")
			return
		}
		if !step(1, "close.locked") {
			return
		}
		c.release(1)
	case "senderror":
		rg.peerQ <- []byte(`<message id='x2'/>`)
		if !step(0, "serve.handler.before") || !step(0, "senderror.enter") || !step(0, "senderror.locked") {
			return
		}
		c.release(0)
	case "shutdown":
		rg.peerQ <- []byte(`</stream:stream>`)
		if !step(0, "closeinput.enter") || !step(0, "close.enter") || !step(0, "close.locked") {
			return
		}
		c.release(0)
	}
	var locked bool
	select {
	case locked = <-rg.writeEntered:
	case <-time.After(watchdog):
		fail("C10/stall/setup", sc.Writer+": no write to the connection was entered")
		return
	}
	// now the needer: does it get the session state while the write is pending?
	done := make(chan struct{})
	switch sc.Needer {
	case "serve-read":
		rg.peerQ <- []byte(`<message id='x3'/>`)
		go func() { c.release(0); waitEv(0); close(done) }()
	case "serve-top":
		go func() { c.release(0); waitEv(0); close(done) }()
	case "setdeadline":
		go func() { rg.s.SetCloseDeadline(time.Now().Add(time.Hour)); close(done) }()
	case "state":
		go func() { rg.s.State(); close(done) }()
	}
	got := false
	wait := watchdog
	probe := hasStateLockProbe(rg.s)
	if locked {
		wait = 300 * time.Millisecond // informational only: the verdict is the locked mutex
	} else if !probe {
		wait = 2 * time.Second // no probe in this tree: a reader that does not get the state within 2 s counts as blocked
	}
	select {
	case <-done:
		got = true
	case <-time.After(wait):
	}
	switch {
	case !probe && !got:
		fail(keyStateLock, fmt.Sprintf("%s's write of the closing element was pending (the peer does not read) and %s did not get the session state within %v (this tree has no VerifStateLocked export: verdict by bounded wait)", sc.Writer, sc.Needer, wait))
	case locked:
		fail(keyStateLock, fmt.Sprintf("%s entered its write of the closing element while holding the session's state mutex; with the peer not reading, %s %s while that write was pending", sc.Writer, sc.Needer, map[bool]string{true: "still completed", false: "was blocked"}[got]))
	case !got:
		fail("C10/stall/state-reader-blocked", fmt.Sprintf("%s did not complete within %v while %s's write was pending, although the state mutex was free", sc.Needer, watchdog, sc.Writer))
	}
	rg.watch.Store(false)
	rg.resume()
	select {
	case <-done:
	case <-time.After(watchdog):
	}
}

// twoSessionDeadlock replays the schedule found on the unedited test
// TestResponseToTimedOutIQ: sessions A and B over one pipe; B is inside the
// handler for an IQ from A; A.Close() takes the output lock and writes the
// closing tag, which B does not read yet; A's serve loop wants the session
// state; B's handler replies, which A must read.
func (x *runner) twoSessionDeadlock() {
	desc := &Scenario{Mode: "stall", Note: "two sessions: A.Close while B handles an IQ from A"}
	progress(desc)
	x.res.Count("stall/two-sessions", true, "mode/stall")
	fail := func(key, what string) { x.res.Fail(key, what, desc) }
	ca, cb := net.Pipe()
	defer ca.Close()
	defer cb.Close()
	hdr := `<stream:stream id="123" version="1.0" xmlns="` + nsClient + `" xmlns:stream="` + stream.NS + `">`
	ra := &rig{writeEntered: make(chan bool, 16)}
	ra.cond = sync.NewCond(&ra.gate)
	mk := func(c net.Conn, r *rig) (*xmpp.Session, error) {
		var conn net.Conn = &plainHdrConn{Conn: c, r: io.MultiReader(strings.NewReader(hdr), c)}
		if r != nil {
			conn = &watchedConn{Conn: c, r: io.MultiReader(strings.NewReader(hdr), c), rig: r}
		}
		return xmpp.NewSession(context.Background(), jid.MustParse("example.net"), jid.MustParse("me@example.net"), conn, 0, readyNegotiator(nsClient))
	}
	a, err := mk(ca, ra)
	if err != nil {
		fail("C10/setup", err.Error())
		return
	}
	ra.s = a
	b, err := mk(cb, nil)
	if err != nil {
		fail("C10/setup", err.Error())
		return
	}
	c := newCtl()
	xmpp.VerifSetHook(c.hook)
	defer xmpp.VerifSetHook(nil)
	defer c.releaseAll()
	waitEv := func(actor int) (event, bool) {
		deadline := time.Now().Add(watchdog)
		for {
			e, ok := c.next(time.Until(deadline))
			if !ok || e.actor == actor {
				return e, ok
			}
		}
	}
	expect := func(actor int, want string) bool {
		e, ok := waitEv(actor)
		if !ok || e.point != want {
			fail("C10/stall/setup", fmt.Sprintf("two sessions: actor %d did not reach %q (got %q, ok=%v)", actor, want, e.point, ok))
			return false
		}
		return true
	}
	const aServe, bServe, aClose = 0, 1, 2
	// B answers IQs; A discards what it gets
	bh := xmpp.HandlerFunc(func(t xmlstream.TokenReadEncoder, start *xml.StartElement) error {
		iq, err := stanza.NewIQ(*start)
		if err != nil {
			return nil
		}
		_, err = xmlstream.Copy(t, iq.Result(nil))
		return err
	})
	c.spawn(bServe, func() { b.Serve(bh) })
	if !expect(bServe, "serve.iter") {
		return
	}
	c.release(bServe) // B reads
	c.spawn(aServe, func() { a.Serve(nil) })
	if !expect(aServe, "serve.iter") {
		return
	}
	// A's IQ to B (not an actor: it passes the yield points)
	sent := make(chan error, 1)
	go func() {
		sent <- a.Send(context.Background(), stanza.IQ{ID: "q1", Type: stanza.GetIQ}.Wrap(xmlstream.Wrap(nil, xml.StartElement{Name: xml.Name{Space: "urn:xmpp:ping", Local: "ping"}})))
	}()
	if !expect(bServe, "serve.handler.before") {
		return
	}
	<-sent
	ra.watch.Store(true)
	c.spawn(aClose, func() { a.Close() })
	if !expect(aClose, "close.enter") {
		return
	}
	c.release(aClose)
	if !expect(aClose, "close.locked") {
		return
	}
	c.release(aClose) // writes the closing tag: B is in its handler, nobody reads
	var locked bool
	select {
	case locked = <-ra.writeEntered:
	case <-time.After(watchdog):
		fail("C10/stall/setup", "two sessions: A.Close did not enter its write")
		return
	}
	c.release(aServe) // A's serve loop: token reader -> session state -> read
	c.release(bServe) // B's handler replies; A must read the reply
	wait := watchdog
	probe := hasStateLockProbe(a)
	if locked || !probe {
		wait = 2 * time.Second
	}
	closed := false
	deadline := time.Now().Add(wait)
	for !closed {
		e, ok := c.next(time.Until(deadline))
		if !ok {
			break
		}
		if e.actor == aClose && e.point == "" {
			closed = true
		} else if e.point != "" {
			c.release(e.actor) // let the serve loops run on
		}
	}
	switch {
	case !probe && !closed:
		fail(keyStateLock, fmt.Sprintf("two sessions over a pipe: A.Close wrote </stream:stream> while B was in its handler for an IQ from A; B's handler then replied and A's serve loop was released, but A.Close did not return within %v: A's serve loop does not read B's reply (it waits for the state mutex that Close holds), B cannot finish its reply, nobody reads A's closing tag (no VerifStateLocked export in this tree: verdict by bounded wait)", wait))
	case locked:
		fail(keyStateLock, fmt.Sprintf("two sessions over a pipe: A.Close entered its write of </stream:stream> holding A's state mutex while B was in its handler; A's serve loop then needs the state mutex before it can read B's reply, B cannot finish writing the reply, and nobody reads A's closing tag (A.Close returned within %v: %v)", wait, closed))
	case !closed:
		fail("C10/close/stuck", "two sessions over a pipe: A.Close did not return although the state mutex was free")
	}
	ra.watch.Store(false)
}

// plainHdrConn prepends the synthetic stream header to what is read.
type plainHdrConn struct {
	net.Conn
	r io.Reader
}

func (h *plainHdrConn) Read(b []byte) (int, error) { return h.r.Read(b) }

// ---- the transport's deadlines (oracle only) ----

// writeDeadlineProbe: a transmit call whose context is cancelled while it is
// blocked in a write to a peer that does not read. The library interrupts the
// write by expiring the connection's write deadline; it must clear it again,
// or the later Close marks the stream closed, fails with a time-out and the
// closing tag never reaches the wire.
func (x *runner) writeDeadlineProbe() {
	desc := &Scenario{Mode: "stall", Note: "Send with a context cancelled while blocked in its write; then Close"}
	progress(desc)
	x.res.Count("stall/write-deadline", true, "mode/stall")
	fail := func(key, what string) { x.res.Fail(key, what, desc) }
	xmpp.VerifSetHook(nil)
	rg, err := newRig(true, false, false)
	if err != nil {
		fail("C10/setup", err.Error())
		return
	}
	defer rg.close()
	rg.watch.Store(true)
	for len(rg.writeEntered) > 0 {
		<-rg.writeEntered
	}
	rg.pause()
	ctx, cancel := context.WithCancel(context.Background())
	sent := make(chan error, 1)
	go func() { sent <- rg.s.Send(ctx, msgReader("w1", "")) }()
	select {
	case <-rg.writeEntered:
	case <-time.After(watchdog):
		cancel()
		fail("C10/stall/setup", "Send did not enter its write")
		return
	}
	cancel() // the write is pending: the library expires the write deadline to get out of it
	var sendErr error
	select {
	case sendErr = <-sent:
	case <-time.After(watchdog):
		fail("C10/send/stuck", "Send did not return after its context was cancelled while it was blocked in a write")
		return
	}
	rg.watch.Store(false)
	rg.resume()
	// the goroutine that expired the deadline clears it right after; give it
	// (generously) time, observing the deadline itself: a zero-length write
	// fails at once while the deadline is expired
	cleared := false
	for deadline := time.Now().Add(3 * time.Second); time.Now().Before(deadline); time.Sleep(2 * time.Millisecond) {
		if _, err := rg.sess.Write(nil); err == nil {
			cleared = true
			break
		}
	}
	rg.watch.Store(true)
	cerr := rg.s.Close()
	rg.watch.Store(false)
	rg.wmu.Lock()
	attempts := rg.tagAttempts
	rg.wmu.Unlock()
	rg.sess.SetWriteDeadline(time.Time{})
	wire, _ := rg.finish()
	items, _, _ := parseItems(wire)
	tags := 0
	for _, it := range items {
		if it.Kind == "close" {
			tags++
		}
	}
	if !cleared || cerr != nil || tags != 1 {
		fail("C10/close/no-tag:write-deadline-left-expired", fmt.Sprintf("Send(ctx) was blocked in its write (the peer was not reading) when ctx was cancelled and returned %v; the peer reads again; the connection's write deadline was cleared afterwards: %v; Close returned %v; closing tags on the wire: %d (write attempts: %d); OutputStreamClosed: %v", sendErr, cleared, cerr, tags, attempts, rg.s.State()&xmpp.OutputStreamClosed != 0))
	}
}

// layeredNegotiator first puts a plain io.ReadWriter (no deadline methods: what
// a compression-like feature returns) over the connection, then reports Ready.
func layeredNegotiator(ns string, layer func(net.Conn) io.ReadWriter) xmpp.Negotiator {
	return func(ctx context.Context, in, out *stream.Info, s *xmpp.Session, data interface{}) (xmpp.SessionState, io.ReadWriter, interface{}, error) {
		if data == nil {
			return 0, layer(s.Conn()), "layered", nil
		}
		rc := s.TokenReader()
		_, err := rc.Token()
		rc.Close()
		in.XMLNS, out.XMLNS = ns, ns
		return xmpp.Ready, nil, data, err
	}
}

// layeredDeadlineProbe: SetCloseDeadline on a session whose connection is a
// wrapper without deadline methods over a net.Conn must still arm the read
// deadline of the underlying connection: with a silent peer Serve returns the
// deadline error.
func (x *runner) layeredDeadlineProbe() {
	desc := &Scenario{Mode: "stall", Note: "SetCloseDeadline on a session whose connection is a plain io.ReadWriter layered over a net.Conn; the peer stays silent"}
	progress(desc)
	x.res.Count("stall/layered-deadline", true, "mode/stall")
	fail := func(key, what string) { x.res.Fail(key, what, desc) }
	xmpp.VerifSetHook(nil)
	a, b := net.Pipe()
	defer a.Close()
	defer b.Close()
	go io.Copy(io.Discard, b)
	hdr := `<stream:stream id="123" version="1.0" xmlns="` + nsClient + `" xmlns:stream="` + stream.NS + `">`
	base := &plainHdrConn{Conn: a, r: io.MultiReader(strings.NewReader(hdr), a)}
	s, err := xmpp.NewSession(context.Background(), jid.MustParse("example.net"), jid.MustParse("me@example.net"), base, 0,
		layeredNegotiator(nsClient, func(c net.Conn) io.ReadWriter { return plainRW{Reader: c, Writer: c} }))
	if err != nil {
		fail("C10/setup", err.Error())
		return
	}
	if _, isNet := s.Conn().(*plainHdrConn); isNet {
		fail("C10/stall/setup", "the negotiator's layer was not installed")
		return
	}
	done := make(chan error, 1)
	go func() { done <- s.Serve(nil) }()
	time.Sleep(5 * time.Millisecond)
	if err := s.SetCloseDeadline(time.Now().Add(50 * time.Millisecond)); err != nil {
		fail("C10/Serve/deadline-not-armed", fmt.Sprintf("SetCloseDeadline returned %v on a layered connection", err))
	}
	s.Close()
	select {
	case err := <-done:
		if c := classify(err); c != "ETimeout" && c != "ECtxDeadline" {
			fail("C10/Serve/deadline-returns-"+c, fmt.Sprintf("the close deadline passed with a silent peer and Serve returned %v", err))
		}
	case <-time.After(3 * time.Second):
		fail("C10/Serve/deadline-not-armed", "SetCloseDeadline(50 ms from now) on a session whose connection is a plain io.ReadWriter layered over a net.Conn; the peer stays silent; 3 s later Serve is still blocked in its read: the read deadline of the underlying connection was never set")
	}
}
