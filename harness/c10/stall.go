package main

import (
	"context"
	"encoding/xml"
	"fmt"
	"io"
	"net"
	"strings"
	"sync"
	"time"

	"mellium.im/xmlstream"
	"mellium.im/xmpp"
	"mellium.im/xmpp/jid"
	"mellium.im/xmpp/stanza"
	"mellium.im/xmpp/stream"
)

// Stall probes (oracle only): the peer does not read while a closing write is
// in progress, and somebody needs the session state meanwhile. The property's
// "Serve returns when ..." and "closing is observable" presuppose that reading
// the session state never waits for the connection. The deterministic signal is
// taken at the moment the write is entered: is the state mutex locked?

type stallCase struct {
	Writer string `json:"writer"` // close | senderror (Serve ends with a handler error) | shutdown (Serve's deferred Close after the peer closed)
	Needer string `json:"needer"` // serve-read | serve-top | setdeadline | state
}

func (x *runner) stallProbes() {
	x.twoSessionDeadlock()
	for _, w := range []string{"close", "senderror", "shutdown"} {
		for _, n := range []string{"serve-read", "serve-top", "setdeadline", "state"} {
			if w != "close" && strings.HasPrefix(n, "serve-") {
				continue // Serve is the writer itself
			}
			x.stallProbe(stallCase{w, n})
		}
	}
}

func (x *runner) stallProbe(sc stallCase) {
	desc := &Scenario{Mode: "stall", Note: sc.Writer + "/" + sc.Needer}
	progress(desc)
	x.res.Count("stall/"+desc.Note, true, "mode/stall")
	fail := func(key, what string) { x.res.Fail(key, what, desc) }
	rg, err := newRig(true, false, false)
	if err != nil {
		fail("C10/setup", err.Error())
		return
	}
	defer rg.close()
	c := newCtl()
	xmpp.VerifSetHook(c.hook)
	defer xmpp.VerifSetHook(nil)
	defer c.releaseAll()
	waitEv := func(actor int) (event, bool) {
		deadline := time.Now().Add(watchdog)
		for {
			e, ok := c.next(time.Until(deadline))
			if !ok || e.actor == actor {
				return e, ok
			}
		}
	}
	step := func(actor int, want string) bool {
		c.release(actor)
		e, ok := waitEv(actor)
		if !ok || e.point != want {
			fail("C10/stall/setup", fmt.Sprintf("%s/%s: actor %d did not reach %q (got %q, ok=%v)", sc.Writer, sc.Needer, actor, want, e.point, ok))
			return false
		}
		return true
	}
	// actor 0: Serve. Its handler fails for the writer "senderror".
	h := xmpp.HandlerFunc(func(t xmlstream.TokenReadEncoder, start *xml.StartElement) error {
		if sc.Writer == "senderror" {
			return errBoom
		}
		return nil
	})
	c.spawn(0, func() { rg.s.Serve(h) })
	if e, ok := waitEv(0); !ok || e.point != "serve.iter" {
		fail("C10/stall/setup", "Serve did not reach serve.iter")
		return
	}
	// bring the needer's Serve into position before the peer stops reading
	if sc.Needer == "serve-top" {
		rg.peerQ <- []byte(`<message id='x1'/>`)
		if !step(0, "serve.handler.before") {
			return
		}
	}
	rg.watch.Store(true)
	for len(rg.writeEntered) > 0 {
		<-rg.writeEntered
	}
	rg.pause()
	// the writer runs up to its connection write, which stays pending
	switch sc.Writer {
	case "close":
		c.spawn(1, func() { rg.s.Close() })
		if e, ok := waitEv(1); !ok || e.point != "close.enter" {
			fail("C10/stall/setup", "Close did not reach close.enter")
			return
		}
		if !step(1, "close.locked") {
			return
		}
		c.release(1)
	case "senderror":
		rg.peerQ <- []byte(`<message id='x2'/>`)
		if !step(0, "serve.handler.before") || !step(0, "senderror.enter") || !step(0, "senderror.locked") {
			return
		}
		c.release(0)
	case "shutdown":
		rg.peerQ <- []byte(`</stream:stream>`)
		if !step(0, "closeinput.enter") || !step(0, "close.enter") || !step(0, "close.locked") {
			return
		}
		c.release(0)
	}
	var locked bool
	select {
	case locked = <-rg.writeEntered:
	case <-time.After(watchdog):
		fail("C10/stall/setup", sc.Writer+": no write to the connection was entered")
		return
	}
	// now the needer: does it get the session state while the write is pending?
	done := make(chan struct{})
	switch sc.Needer {
	case "serve-read":
		rg.peerQ <- []byte(`<message id='x3'/>`)
		go func() { c.release(0); waitEv(0); close(done) }()
	case "serve-top":
		go func() { c.release(0); waitEv(0); close(done) }()
	case "setdeadline":
		go func() { rg.s.SetCloseDeadline(time.Now().Add(time.Hour)); close(done) }()
	case "state":
		go func() { rg.s.State(); close(done) }()
	}
	got := false
	wait := watchdog
	probe := hasStateLockProbe(rg.s)
	if locked {
		wait = 300 * time.Millisecond // informational only: the verdict is the locked mutex
	} else if !probe {
		wait = 2 * time.Second // no probe in this tree: a reader that does not get the state within 2 s counts as blocked
	}
	select {
	case <-done:
		got = true
	case <-time.After(wait):
	}
	switch {
	case !probe && !got:
		fail(keyStateLock, fmt.Sprintf("%s's write of the closing element was pending (the peer does not read) and %s did not get the session state within %v (this tree has no VerifStateLocked export: verdict by bounded wait)", sc.Writer, sc.Needer, wait))
	case locked:
		fail(keyStateLock, fmt.Sprintf("%s entered its write of the closing element while holding the session's state mutex; with the peer not reading, %s %s while that write was pending", sc.Writer, sc.Needer, map[bool]string{true: "still completed", false: "was blocked"}[got]))
	case !got:
		fail("C10/stall/state-reader-blocked", fmt.Sprintf("%s did not complete within %v while %s's write was pending, although the state mutex was free", sc.Needer, watchdog, sc.Writer))
	}
	rg.watch.Store(false)
	rg.resume()
	select {
	case <-done:
	case <-time.After(watchdog):
	}
}

// twoSessionDeadlock replays the schedule found on the unedited test
// TestResponseToTimedOutIQ: sessions A and B over one pipe; B is inside the
// handler for an IQ from A; A.Close() takes the output lock and writes the
// closing tag, which B does not read yet; A's serve loop wants the session
// state; B's handler replies, which A must read.
func (x *runner) twoSessionDeadlock() {
	desc := &Scenario{Mode: "stall", Note: "two sessions: A.Close while B handles an IQ from A"}
	progress(desc)
	x.res.Count("stall/two-sessions", true, "mode/stall")
	fail := func(key, what string) { x.res.Fail(key, what, desc) }
	ca, cb := net.Pipe()
	defer ca.Close()
	defer cb.Close()
	hdr := `<stream:stream id="123" version="1.0" xmlns="` + nsClient + `" xmlns:stream="` + stream.NS + `">`
	ra := &rig{writeEntered: make(chan bool, 16)}
	ra.cond = sync.NewCond(&ra.gate)
	mk := func(c net.Conn, r *rig) (*xmpp.Session, error) {
		var conn net.Conn = &plainHdrConn{Conn: c, r: io.MultiReader(strings.NewReader(hdr), c)}
		if r != nil {
			conn = &watchedConn{Conn: c, r: io.MultiReader(strings.NewReader(hdr), c), rig: r}
		}
		return xmpp.NewSession(context.Background(), jid.MustParse("example.net"), jid.MustParse("me@example.net"), conn, 0, readyNegotiator(nsClient))
	}
	a, err := mk(ca, ra)
	if err != nil {
		fail("C10/setup", err.Error())
		return
	}
	ra.s = a
	b, err := mk(cb, nil)
	if err != nil {
		fail("C10/setup", err.Error())
		return
	}
	c := newCtl()
	xmpp.VerifSetHook(c.hook)
	defer xmpp.VerifSetHook(nil)
	defer c.releaseAll()
	waitEv := func(actor int) (event, bool) {
		deadline := time.Now().Add(watchdog)
		for {
			e, ok := c.next(time.Until(deadline))
			if !ok || e.actor == actor {
				return e, ok
			}
		}
	}
	expect := func(actor int, want string) bool {
		e, ok := waitEv(actor)
		if !ok || e.point != want {
			fail("C10/stall/setup", fmt.Sprintf("two sessions: actor %d did not reach %q (got %q, ok=%v)", actor, want, e.point, ok))
			return false
		}
		return true
	}
	const aServe, bServe, aClose = 0, 1, 2
	// B answers IQs; A discards what it gets
	bh := xmpp.HandlerFunc(func(t xmlstream.TokenReadEncoder, start *xml.StartElement) error {
		iq, err := stanza.NewIQ(*start)
		if err != nil {
			return nil
		}
		_, err = xmlstream.Copy(t, iq.Result(nil))
		return err
	})
	c.spawn(bServe, func() { b.Serve(bh) })
	if !expect(bServe, "serve.iter") {
		return
	}
	c.release(bServe) // B reads
	c.spawn(aServe, func() { a.Serve(nil) })
	if !expect(aServe, "serve.iter") {
		return
	}
	// A's IQ to B (not an actor: it passes the yield points)
	sent := make(chan error, 1)
	go func() {
		sent <- a.Send(context.Background(), stanza.IQ{ID: "q1", Type: stanza.GetIQ}.Wrap(xmlstream.Wrap(nil, xml.StartElement{Name: xml.Name{Space: "urn:xmpp:ping", Local: "ping"}})))
	}()
	if !expect(bServe, "serve.handler.before") {
		return
	}
	<-sent
	ra.watch.Store(true)
	c.spawn(aClose, func() { a.Close() })
	if !expect(aClose, "close.enter") {
		return
	}
	c.release(aClose)
	if !expect(aClose, "close.locked") {
		return
	}
	c.release(aClose) // writes the closing tag: B is in its handler, nobody reads
	var locked bool
	select {
	case locked = <-ra.writeEntered:
	case <-time.After(watchdog):
		fail("C10/stall/setup", "two sessions: A.Close did not enter its write")
		return
	}
	c.release(aServe) // A's serve loop: token reader -> session state -> read
	c.release(bServe) // B's handler replies; A must read the reply
	wait := watchdog
	probe := hasStateLockProbe(a)
	if locked || !probe {
		wait = 2 * time.Second
	}
	closed := false
	deadline := time.Now().Add(wait)
	for !closed {
		e, ok := c.next(time.Until(deadline))
		if !ok {
			break
		}
		if e.actor == aClose && e.point == "" {
			closed = true
		} else if e.point != "" {
			c.release(e.actor) // let the serve loops run on
		}
	}
	switch {
	case !probe && !closed:
		fail(keyStateLock, fmt.Sprintf("two sessions over a pipe: A.Close wrote </stream:stream> while B was in its handler for an IQ from A; B's handler then replied and A's serve loop was released, but A.Close did not return within %v: A's serve loop does not read B's reply (it waits for the state mutex that Close holds), B cannot finish its reply, nobody reads A's closing tag (no VerifStateLocked export in this tree: verdict by bounded wait)", wait))
	case locked:
		fail(keyStateLock, fmt.Sprintf("two sessions over a pipe: A.Close entered its write of </stream:stream> holding A's state mutex while B was in its handler; A's serve loop then needs the state mutex before it can read B's reply, B cannot finish writing the reply, and nobody reads A's closing tag (A.Close returned within %v: %v)", wait, closed))
	case !closed:
		fail("C10/close/stuck", "two sessions over a pipe: A.Close did not return although the state mutex was free")
	}
	ra.watch.Store(false)
}

// plainHdrConn prepends the synthetic stream header to what is read.
type plainHdrConn struct {
	net.Conn
	r io.Reader
}

func (h *plainHdrConn) Read(b []byte) (int, error) { return h.r.Read(b) }
