package main

import (
	"errors"
	"fmt"
	"strings"
	"sync"
	"time"

	"mellium.im/xmpp"
	"verifharness/hx"
)

// Problem is one failure of the implementation oracle (see oracle.go for the
// clauses evaluated on the final observables; the scheduler itself reports
// mutual-exclusion and liveness failures).
type Problem struct {
	Key  string `json:"key"`
	What string `json:"what"`
}

// Outcome is what a scenario produced on the real code.
type Outcome struct {
	Sched    []int    // realised schedule: one entry per release (or unblocking) of an actor
	Choices  []int    // the scheduler's decisions (replayable)
	Counts   []int    // number of alternatives at every decision
	Wire     []byte   // what the peer received
	Residual []byte   // what was left in the encoder buffer
	Res      []string // return class per actor ("" = did not return)
	OCL, ICL bool
	Problems []Problem
	Invalid  string // the scenario could not be realised as intended (timing of a real deadline): not counted

	afterClose             []bool // actor started after a closer had returned
	openAtErr              bool   // Serve entered sendError with the output open and nobody in between
	cause                  string // why Serve left its loop, as far as the scheduler knows
	served                 bool
	exitSeen, passedAtExit bool // Serve left its loop; the close deadline in force had passed by then
	elemsRead, handled     int  // elements of the peer that Serve has read / that the handler was called for
	TagAttempts, BytesAfter int // write attempts of the closing tag at the connection; bytes handed to it after the first
	faulted                bool
}

const keyStateLock = "C10/close/deadlock:state-lock-held-across-write"

const (
	watchdog     = 20 * time.Second
	realDeadline = 250 * time.Millisecond
)

var grace = 2 * time.Millisecond

type astate struct {
	status string // new parked blockedLock blockedInput done
	at     string
}

type forced struct {
	sc    *Scenario
	o     *Outcome
	c     *ctl
	r     *rig
	h     *handler
	st    []astate
	mu    sync.Mutex
	res   []string
	stash []event

	inside    int
	stateHeld bool
	pending   []int // peer events written but not yet read by Serve (actor indices)
	rdExpired bool
	// the close deadline: the SetCloseDeadline call (actor) in force, whether its
	// deadline has passed, and the real deadlines of the calls that have a timer
	inForce int
	passed  bool
	shortAt map[int]time.Time
	serve   int
	cur     *Pev
	closers int
	aborted bool
	panics  []string
}

func (f *forced) problem(key, what string) {
	f.o.Problems = append(f.o.Problems, Problem{key, what})
}

// timerFor: the setdeadline actor a timer belongs to (older scenario files
// have no index: the first SetCloseDeadline call with a time in the future).
func timerFor(sc *Scenario, t int) int {
	a := sc.Actors[t]
	if a.For >= 0 && a.For < len(sc.Actors) && sc.Actors[a.For].Kind == "setdeadline" {
		return a.For
	}
	for i, b := range sc.Actors {
		if b.Kind == "setdeadline" && !b.Past && !b.Zero {
			return i
		}
	}
	return -1
}

func (f *forced) hasTimer(i int) bool {
	for t, a := range f.sc.Actors {
		if a.Kind == "timer" && timerFor(f.sc, t) == i {
			return true
		}
	}
	return false
}

func (f *forced) enabled(i int) bool {
	a, st := f.sc.Actors[i], f.st[i]
	if st.status != "new" && st.status != "parked" {
		return false
	}
	if f.stateHeld && i != f.inside {
		// the holder is parked with the state mutex write-locked: only actors
		// whose next step stops at the output lock (or does not touch the
		// session) can be scheduled; a peer event or the timer would wake a
		// reading Serve into that mutex
		switch a.Kind {
		case "fault":
		case "peer", "timer":
			if f.serve >= 0 && f.st[f.serve].status == "blockedInput" {
				return false
			}
		case "close", "send", "encode", "encodenf", "encodeelement", "tokenwriter":
		default:
			return false
		}
	}
	if st.status == "new" {
		switch a.Kind {
		case "probe":
			return !f.stateHeld && f.r.s.State()&xmpp.InputStreamClosed != 0
		case "timer":
			j := timerFor(f.sc, i)
			return j >= 0 && f.st[j].status == "done"
		}
	}
	return true
}

func (f *forced) needsLock(i int) bool {
	a, st := f.sc.Actors[i], f.st[i]
	if st.status == "new" {
		switch a.Kind {
		case "encode", "encodenf", "encodeelement", "tokenwriter":
			return true
		}
		return false
	}
	switch st.at {
	case "close.enter", "send.enter", "senderror.enter":
		return true
	case "serve.handler.before":
		return f.cur != nil && f.cur.Reply
	}
	return false
}

// start launches the goroutine of actor i.
func (f *forced) start(i int) {
	a := f.sc.Actors[i]
	f.o.afterClose[i] = f.closers > 0
	switch a.Kind {
	case "serve":
		f.o.served = true
		f.c.spawn(i, func() {
			var err error
			if p := hx.Catch(func() { err = f.r.s.Serve(f.h) }); p != "" {
				f.mu.Lock()
				f.panics = append(f.panics, "Serve: "+p)
				f.mu.Unlock()
				err = errors.New("panic")
			}
			f.mu.Lock()
			f.res[i] = classify(err)
			f.mu.Unlock()
		})
	default:
		dl := time.Now().Add(time.Hour)
		if a.Kind == "setdeadline" {
			switch {
			case a.Past:
				dl = time.Now().Add(-time.Second)
			case a.Zero:
				dl = time.Time{}
			case f.hasTimer(i):
				// a short real deadline; the others are so far away that they
				// never pass within a scenario
				dl = time.Now().Add(realDeadline)
				f.shortAt[i] = dl
			}
		}
		f.c.spawn(i, func() {
			var err error
			if p := hx.Catch(func() { err = f.r.call(a, i, dl) }); p != "" {
				f.mu.Lock()
				f.panics = append(f.panics, apiName(a)+": "+p)
				f.mu.Unlock()
				err = errors.New("panic")
			}
			f.mu.Lock()
			f.res[i] = classify(err)
			f.mu.Unlock()
		})
	}
}

// waitFor waits for the next event of actor i; events of others (actors that
// were blocked and got going) are kept for later.
func (f *forced) waitFor(i int) (event, bool) {
	e, ok, _ := f.waitOrDefer(i, false)
	return e, ok
}

// waitOrDefer is waitFor, except that (with mayDefer) it gives up early when an
// actor that was blocked on the output lock has meanwhile parked at a point
// where it also holds the state mutex: actor i, on its way out of the region,
// may then be waiting for that mutex (Serve reads the input context under it
// at the top of its loop) and will only arrive once the other has moved on.
func (f *forced) waitOrDefer(i int, mayDefer bool) (event, bool, bool) {
	for k, e := range f.stash {
		if e.actor == i {
			f.stash = append(f.stash[:k], f.stash[k+1:]...)
			return e, true, false
		}
	}
	deadline := time.Now().Add(watchdog)
	var heldSince time.Time
	for {
		slice := time.Until(deadline)
		if mayDefer && slice > 5*time.Millisecond {
			slice = 5 * time.Millisecond
		}
		e, ok := f.c.next(slice)
		if ok {
			if e.actor == i {
				return e, true, false
			}
			f.stash = append(f.stash, e)
			if stateHeldPoint[e.point] && heldSince.IsZero() {
				heldSince = time.Now()
			}
			continue
		}
		if mayDefer && !heldSince.IsZero() && time.Since(heldSince) > 40*time.Millisecond {
			return event{}, false, true
		}
		if time.Now().After(deadline) {
			return event{}, false, false
		}
	}
}

// collectDeferred: the state mutex is free again; actors whose arrival was
// deferred reach their yield point now (their step is already in the schedule).
func (f *forced) collectDeferred() {
	for i := range f.st {
		if f.st[i].status == "deferred" && !f.aborted {
			e, ok := f.waitFor(i)
			if !ok {
				f.stuck(i)
				return
			}
			f.arrived(i, e)
		}
	}
}

func (f *forced) stuck(i int) {
	a := f.sc.Actors[i]
	f.problem("C10/"+a.Kind+"/stuck", fmt.Sprintf("actor %d (%s) released from %q did not reach its next yield point or return within %v", i, a.Kind, f.st[i].at, watchdog))
	f.aborted = true
}

// arrived processes an arrival (or completion) of actor i.
func (f *forced) arrived(i int, e event) {
	a := f.sc.Actors[i]
	if e.point == "" {
		f.st[i].status = "done"
		if i == f.inside {
			f.inside, f.stateHeld = -1, false
		}
		if a.Kind == "close" || a.Kind == "serve" {
			f.closers++
		}
	} else {
		f.st[i].status, f.st[i].at = "parked", e.point
		if regionPoint[e.point] {
			if f.inside != -1 && f.inside != i {
				f.problem("C10/lock/two-in-region", fmt.Sprintf("actor %d (%s) reached %q while actor %d (%s) was parked inside the output-lock region at %q",
					i, a.Kind, e.point, f.inside, f.sc.Actors[f.inside].Kind, f.st[f.inside].at))
			}
			f.inside, f.stateHeld = i, stateHeldPoint[e.point]
		} else if f.inside == i {
			f.inside, f.stateHeld = -1, false
		}
		if a.Kind == "serve" {
			switch e.point {
			case "senderror.enter":
				if f.o.cause == "" {
					f.o.cause = "handlerish"
				}
			case "closeinput.enter":
				if f.o.cause == "" {
					f.o.cause = "ctx"
				}
			}
			if (e.point == "senderror.enter" || e.point == "closeinput.enter") && !f.o.exitSeen {
				// Serve has just left its loop: had the deadline in force passed?
				f.o.exitSeen, f.o.passedAtExit = true, f.passed
			}
		}
	}
	if f.inside == -1 {
		f.collectDeferred()
	}
	f.settleLock()
}

// settleLock: when the region is free and actors are blocked on the output
// lock, exactly one of them gets it; wait for that one.
func (f *forced) settleLock() {
	if f.inside != -1 || f.aborted {
		return
	}
	var blocked []int
	for i := range f.st {
		if f.st[i].status == "blockedLock" {
			blocked = append(blocked, i)
		}
	}
	if len(blocked) == 0 {
		return
	}
	isBlocked := func(a int) bool {
		for _, b := range blocked {
			if a == b {
				return true
			}
		}
		return false
	}
	for k, e := range f.stash {
		if isBlocked(e.actor) {
			f.stash = append(f.stash[:k], f.stash[k+1:]...)
			f.o.Sched = append(f.o.Sched, e.actor)
			f.arrived(e.actor, e)
			return
		}
	}
	deadline := time.Now().Add(watchdog)
	for {
		e, ok := f.c.next(time.Until(deadline))
		if !ok {
			f.stuck(blocked[0])
			return
		}
		if isBlocked(e.actor) {
			f.o.Sched = append(f.o.Sched, e.actor)
			f.arrived(e.actor, e)
			return
		}
		f.stash = append(f.stash, e)
	}
}

// serveWakes: Serve was blocked reading and now has something to read (or its
// read deadline has expired).
func (f *forced) serveWakes() {
	if f.serve < 0 || f.st[f.serve].status != "blockedInput" || f.aborted {
		return
	}
	if !(f.rdExpired || len(f.pending) > 0) {
		return
	}
	f.consume()
	f.o.Sched = append(f.o.Sched, f.serve)
	e, ok := f.waitFor(f.serve)
	if !ok {
		f.stuck(f.serve)
		return
	}
	f.arrived(f.serve, e)
}

// consume: Serve's read takes the timeout or the next peer event.
func (f *forced) consume() {
	if f.rdExpired {
		f.cur = nil
		f.o.cause = "timeout"
		return
	}
	idx := f.pending[0]
	f.pending = f.pending[1:]
	f.cur = f.sc.Actors[idx].Ev
	switch f.cur.Type {
	case "close":
		f.o.cause = "peerclose"
	case "error":
		f.o.cause = "peererror"
	case "bad":
		f.o.cause = "bad"
	case "elem":
		f.o.elemsRead++
		if f.cur.Fail {
			f.o.cause = "handlerish"
		}
	}
}

// advance releases (or starts) actor i for one step.
func (f *forced) advance(i int) {
	a := f.sc.Actors[i]
	f.o.Sched = append(f.o.Sched, i)
	isNew := f.st[i].status == "new"
	switch a.Kind {
	case "peer":
		f.st[i].status = "done"
		f.res[i] = "ENil"
		f.pending = append(f.pending, i)
		f.r.peerQ <- peerBytes(a.Ev, i, f.sc.WS)
		f.serveWakes()
		return
	case "fault":
		f.r.fault.Store(true)
		f.st[i].status = "done"
		f.res[i] = "ENil"
		return
	case "timer":
		j := timerFor(f.sc, i)
		at := f.shortAt[j]
		inForce := f.inForce == j && !f.passed
		if inForce && time.Now().After(at.Add(-30*time.Millisecond)) {
			f.o.Invalid = "the real deadline passed before the schedule reached the timer step"
			f.aborted = true
			return
		}
		// real time passes the deadline that call j asked for, whether or not
		// it is still the one in force
		if d := time.Until(at); d > -20*time.Millisecond {
			time.Sleep(d + 20*time.Millisecond)
		}
		f.st[i].status = "done"
		f.res[i] = "ENil"
		if inForce {
			f.passed = true
			f.rdExpired = f.sc.DLSup
			f.serveWakes()
		}
		return
	}
	blockedByLock := f.needsLock(i) && f.inside != -1 && f.inside != i
	waitsInput := false
	if a.Kind == "serve" && !isNew && f.st[i].at == "serve.iter" {
		if f.rdExpired || len(f.pending) > 0 {
			f.consume()
		} else {
			waitsInput = true
		}
	}
	if a.Kind == "serve" && !isNew && f.st[i].at == "senderror.enter" && !blockedByLock && !f.stateHeld {
		f.o.openAtErr = f.r.s.State()&xmpp.OutputStreamClosed == 0
	}
	if isNew {
		f.start(i)
	} else {
		f.c.release(i)
	}
	switch {
	case blockedByLock:
		time.Sleep(grace)
		f.st[i].status = "blockedLock"
		for {
			e, ok := f.c.poll()
			if !ok {
				break
			}
			if e.actor == i {
				// it got into the region although another actor is parked inside
				f.arrived(i, e)
				return
			}
			f.stash = append(f.stash, e)
		}
		return
	case waitsInput:
		f.st[i].status = "blockedInput"
		return
	}
	e, ok, deferred := f.waitOrDefer(i, f.inside == i)
	if deferred {
		// i has left the region (another actor got the lock and is parked
		// holding the state mutex); i arrives once that actor has moved on
		f.st[i].status = "deferred"
		f.inside, f.stateHeld = -1, false
		f.settleLock()
		return
	}
	if !ok {
		f.stuck(i)
		return
	}
	f.arrived(i, e)
	if a.Kind == "setdeadline" && e.point == "" {
		// the call replaces the deadline in force
		f.inForce = i
		if a.Past {
			f.passed, f.rdExpired = true, f.sc.DLSup
		} else {
			f.passed, f.rdExpired = false, false
		}
		f.serveWakes()
	}
}

// runForced realises a schedule on the real code. choose picks among the
// enabled actors at every decision point.
func runForced(sc *Scenario, choose func(depth int, enabled []int) int) *Outcome {
	progress(sc)
	n := len(sc.Actors)
	for t := range sc.Actors {
		if sc.Actors[t].Kind == "timer" {
			sc.Actors[t].For = timerFor(sc, t)
		}
	}
	o := &Outcome{Res: make([]string, n), afterClose: make([]bool, n)}
	r, err := newRig(sc.DLSup, sc.Recv, sc.WS)
	if err != nil {
		o.Problems = append(o.Problems, Problem{"C10/setup", "could not build a ready session: " + err.Error()})
		return o
	}
	f := &forced{sc: sc, o: o, c: newCtl(), r: r, st: make([]astate, n), res: make([]string, n), inside: -1, serve: -1, inForce: -1, shortAt: map[int]time.Time{}}
	f.h = &handler{behave: map[string]*Pev{}, idx: map[string]int{}}
	for i, a := range sc.Actors {
		f.st[i].status = "new"
		if a.Kind == "serve" {
			f.serve = i
		}
		if a.Kind == "peer" && a.Ev != nil && a.Ev.Type == "elem" {
			id := fmt.Sprintf("p%d", i)
			if a.Ev.Form == "iq" {
				id = elemID(i)
			}
			f.h.behave[id], f.h.idx[id] = a.Ev, i
		}
	}
	xmpp.VerifSetHook(f.c.hook)
	// one actor moves at a time: whoever enters a connection write while the
	// state mutex is locked is holding that mutex itself across the write
	r.watch.Store(true)
	for depth := 0; !f.aborted && depth < 400; depth++ {
		var en []int
		for i := range sc.Actors {
			if f.enabled(i) {
				en = append(en, i)
			}
		}
		if len(en) == 0 {
			break
		}
		k := choose(depth, en)
		if k < 0 || k >= len(en) {
			k = 0
		}
		o.Choices = append(o.Choices, en[k])
		o.Counts = append(o.Counts, len(en))
		f.advance(en[k])
	}
	f.c.releaseAll()
	r.watch.Store(false)
	r.wmu.Lock()
	o.TagAttempts, o.BytesAfter, o.faulted = r.tagAttempts, r.bytesAfter, r.fault.Load()
	if len(r.lockedWrites) > 0 {
		who := "a goroutine of the library"
		if a := f.c.actorOf(r.lockedWrites[0]); a >= 0 {
			who = fmt.Sprintf("actor %d (%s)", a, sc.Actors[a].Kind)
		}
		o.Problems = append(o.Problems, Problem{keyStateLock, fmt.Sprintf("%s entered a write to the connection while holding the session's state mutex (%d such writes in this scenario): if the peer is not reading, every reader of the session state — Serve's loop and token reader, State, SetCloseDeadline — blocks behind that write", who, len(r.lockedWrites))})
	}
	r.wmu.Unlock()
	if !f.aborted {
		st := r.s.State()
		o.OCL, o.ICL = st&xmpp.OutputStreamClosed != 0, st&xmpp.InputStreamClosed != 0
	}
	f.h.mu.Lock()
	o.handled = len(f.h.handled)
	f.h.mu.Unlock()
	f.mu.Lock()
	copy(o.Res, f.res)
	for _, p := range f.panics {
		o.Problems = append(o.Problems, Problem{"C10/panic/" + strings.SplitN(p, ":", 2)[0], "panic: " + p})
	}
	f.mu.Unlock()
	for i := range f.st {
		if f.st[i].status != "done" {
			o.Res[i] = ""
		}
	}
	if f.aborted {
		r.close()
	} else {
		o.Wire, o.Residual = r.finish()
		if r.lockLeft {
			o.Problems = append(o.Problems, Problem{"C10/lock/output-lock-not-released", "every call had returned, but the output lock was still held 10 s later: a call returned without releasing it (later transmit and Close calls would block for ever)"})
		}
	}
	xmpp.VerifSetHook(nil)
	if f.aborted && o.Invalid == "" && len(o.Problems) == 0 {
		o.Invalid = "aborted"
	}
	return o
}
