package main

import (
	"runtime"
	"strconv"
	"strings"
	"sync"
	"time"
)

// ctl is an actor-aware schedule controller for the library's `verif` yield
// points. Every actor of a scenario runs in its own goroutine, registered by
// goroutine id; when a registered goroutine reaches one of the modelled yield
// points it parks there until the controller releases that very actor. Arrivals
// and completions are reported on a channel, so the controller observes, without
// timing assumptions, where every actor is.
type ctl struct {
	mu     sync.Mutex
	gids   map[uint64]int
	ever   map[uint64]int // goroutine -> actor, kept after the goroutine has finished
	parked map[int]chan struct{}
	events chan event
}

type event struct {
	actor int
	point string // "" : the actor's call returned
}

// the yield points the model knows (OYield in coq/C10/Model.v)
var modelled = map[string]bool{
	"close.enter": true, "close.locked": true, "senderror.enter": true, "senderror.locked": true,
	"send.enter": true, "send.locked": true, "send.started": true, "encode.locked": true,
	"encodeelement.locked": true, "tokenwriter.locked": true, "serve.iter": true,
	"serve.handler.before": true, "closeinput.enter": true,
}

// inside the output-lock region
var regionPoint = map[string]bool{
	"close.locked": true, "senderror.locked": true, "send.locked": true, "send.started": true,
	"encode.locked": true, "encodeelement.locked": true, "tokenwriter.locked": true,
}

// reached while the state mutex is write-locked as well
var stateHeldPoint = map[string]bool{"close.locked": true, "senderror.locked": true}

func newCtl() *ctl {
	return &ctl{gids: map[uint64]int{}, ever: map[uint64]int{}, parked: map[int]chan struct{}{}, events: make(chan event, 256)}
}

func goid() uint64 {
	var buf [64]byte
	n := runtime.Stack(buf[:], false)
	f := strings.Fields(string(buf[:n]))
	if len(f) < 2 {
		return 0
	}
	id, _ := strconv.ParseUint(f[1], 10, 64)
	return id
}

// hook is installed with xmpp.VerifSetHook.
func (c *ctl) hook(point string) {
	if !modelled[point] {
		return
	}
	id := goid()
	c.mu.Lock()
	a, ok := c.gids[id]
	if !ok {
		c.mu.Unlock()
		return
	}
	ch := make(chan struct{})
	c.parked[a] = ch
	c.mu.Unlock()
	c.events <- event{a, point}
	<-ch
}

// spawn starts f as actor a.
func (c *ctl) spawn(a int, f func()) {
	started := make(chan struct{})
	go func() {
		c.mu.Lock()
		c.gids[goid()] = a
		c.ever[goid()] = a
		c.mu.Unlock()
		close(started)
		defer func() {
			c.mu.Lock()
			delete(c.gids, goid())
			c.mu.Unlock()
			c.events <- event{a, ""}
		}()
		f()
	}()
	<-started
}

// release lets a parked actor continue.
func (c *ctl) release(a int) bool {
	c.mu.Lock()
	ch, ok := c.parked[a]
	delete(c.parked, a)
	c.mu.Unlock()
	if ok {
		close(ch)
	}
	return ok
}

// releaseAll frees everyone and stops parking (end of a scenario).
func (c *ctl) releaseAll() {
	c.mu.Lock()
	for a, ch := range c.parked {
		close(ch)
		delete(c.parked, a)
	}
	c.gids = map[uint64]int{}
	c.mu.Unlock()
}

// next waits for the next event (of anyone).
func (c *ctl) next(d time.Duration) (event, bool) {
	select {
	case e := <-c.events:
		return e, true
	case <-time.After(d):
		return event{}, false
	}
}

// poll returns an event if one is already there.
func (c *ctl) poll() (event, bool) {
	select {
	case e := <-c.events:
		return e, true
	default:
		return event{}, false
	}
}

// actorOf names the actor a goroutine belonged to (-1: none).
func (c *ctl) actorOf(g uint64) int {
	c.mu.Lock()
	defer c.mu.Unlock()
	if a, ok := c.ever[g]; ok {
		return a
	}
	return -1
}
