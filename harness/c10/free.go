package main

import (
	"context"
	"encoding/xml"
	"fmt"
	"net"
	"runtime"
	"strings"
	"sync"
	"sync/atomic"
	"time"

	"mellium.im/xmlstream"
	"mellium.im/xmpp"
	"mellium.im/xmpp/jid"
	"mellium.im/xmpp/websocket"
	"verifharness/hx"
)

// ---- free-running scenarios: no yield points, the Go scheduler decides ----

func freeScenario(r *hx.Rand) *Scenario {
	sc := &Scenario{Mode: "free", DLSup: r.Chance(2, 3), WS: r.Chance(1, 4)}
	var as []Actor
	for n := 1 + r.Intn(3); n > 0; n-- {
		as = append(as, Actor{Kind: "close"})
	}
	kinds := []string{"send", "send", "encode", "encodenf", "encodeelement", "tokenwriter"}
	for n := 2 + r.Intn(8); n > 0; n-- {
		k := kinds[r.Intn(len(kinds))]
		a := Actor{Kind: k}
		if k == "send" {
			a.API = sendAPIs[r.Intn(len(sendAPIs))]
		}
		as = append(as, a)
	}
	if r.Chance(3, 4) {
		as = append(as, Actor{Kind: "serve"})
		for n := r.Intn(4); n > 0; n-- {
			as = append(as, peer("elem", r.Chance(1, 2), false, ""))
		}
		switch r.Intn(5) {
		case 0, 1:
			as = append(as, peer("close", false, false, ""))
		case 2:
			as = append(as, peer("error", false, false, ""))
		case 3:
			as = append(as, peer("elem", r.Chance(1, 2), true, ""))
		}
		if r.Chance(1, 3) {
			as = append(as, Actor{Kind: "setdeadline", Past: r.Chance(1, 3)})
			if r.Chance(1, 3) {
				as = append(as, Actor{Kind: "setdeadline"})
			}
		}
		as = append(as, Actor{Kind: "probe"})
	}
	for i := len(as) - 1; i > 0; i-- {
		j := r.Intn(i + 1)
		as[i], as[j] = as[j], as[i]
	}
	sc.Actors = as
	return sc
}

func runFree(sc *Scenario, r *hx.Rand) *Outcome {
	progress(sc)
	n := len(sc.Actors)
	o := &Outcome{Res: make([]string, n), afterClose: make([]bool, n), cause: "unknown"}
	xmpp.VerifSetHook(nil)
	rg, err := newRig(sc.DLSup, sc.Recv, sc.WS)
	if err != nil {
		o.Problems = append(o.Problems, Problem{"C10/setup", err.Error()})
		return o
	}
	h := &handler{behave: map[string]*Pev{}, idx: map[string]int{}}
	serve, serveEnds := -1, false
	for i, a := range sc.Actors {
		switch a.Kind {
		case "serve":
			serve = i
		case "peer":
			if a.Ev.Type == "elem" {
				id := fmt.Sprintf("p%d", i)
				h.behave[id], h.idx[id] = a.Ev, i
				if a.Ev.Fail {
					serveEnds = true
				}
			} else {
				serveEnds = true
			}
		case "setdeadline":
			// only when no other call can replace the passed deadline
			others := false
			for j, b := range sc.Actors {
				if j != i && b.Kind == "setdeadline" {
					others = true
				}
			}
			if a.Past && sc.DLSup && !others {
				serveEnds = true
			}
		}
	}
	var closers atomic.Int32
	var mu sync.Mutex
	var wg sync.WaitGroup
	serveDone := make(chan struct{})
	spins := make([]int, n)
	for i := range spins {
		spins[i] = r.Intn(40)
	}
	for i, a := range sc.Actors {
		i, a := i, a
		switch a.Kind {
		case "peer", "probe", "fault":
			continue
		case "serve":
			o.served = true
			go func() {
				defer close(serveDone)
				err := rg.s.Serve(h)
				closers.Add(1)
				mu.Lock()
				o.Res[i] = classify(err)
				mu.Unlock()
			}()
			continue
		}
		wg.Add(1)
		go func() {
			defer wg.Done()
			for k := 0; k < spins[i]; k++ {
				runtime.Gosched()
			}
			after := closers.Load() > 0
			dl := time.Now().Add(time.Hour)
			if a.Past {
				dl = time.Now().Add(-time.Second)
			} else if a.Zero {
				dl = time.Time{}
			}
			err := rg.call(a, i, dl)
			if a.Kind == "close" {
				closers.Add(1)
			}
			mu.Lock()
			o.afterClose[i] = after
			o.Res[i] = classify(err)
			mu.Unlock()
		}()
	}
	for i, a := range sc.Actors {
		if a.Kind == "peer" {
			rg.peerQ <- peerBytes(a.Ev, i, sc.WS)
			mu.Lock()
			o.Res[i] = "ENil"
			mu.Unlock()
		}
	}
	if !hx.WithTimeout(watchdog, wg.Wait) {
		o.Problems = append(o.Problems, Problem{"C10/free/stuck", "a Close or transmit call did not return within the watchdog while running concurrently"})
		rg.close()
		return o
	}
	if serve >= 0 && serveEnds {
		select {
		case <-serveDone:
			for i, a := range sc.Actors {
				// a read on a stream that is not marked closed would block on the
				// connection: the missing bit is reported by the oracle instead
				if a.Kind == "probe" && rg.s.State()&xmpp.InputStreamClosed != 0 {
					err := rg.call(a, i, time.Time{})
					o.Res[i] = classify(err)
				}
			}
		case <-time.After(watchdog):
			o.Problems = append(o.Problems, Problem{"C10/Serve/stuck", "Serve did not return within the watchdog after a terminal event"})
			rg.close()
			return o
		}
	}
	mu.Lock()
	served := serve >= 0 && o.Res[serve] != ""
	mu.Unlock()
	if serve >= 0 && !served {
		// Serve is still reading: the state can be read, the pipe is then closed under it
		o.served = false
	}
	st := rg.s.State()
	o.OCL, o.ICL = st&xmpp.OutputStreamClosed != 0, st&xmpp.InputStreamClosed != 0
	mu.Lock()
	res := append([]string(nil), o.Res...)
	mu.Unlock()
	o.Wire, o.Residual = rg.finish()
	if rg.lockLeft {
		o.Problems = append(o.Problems, Problem{"C10/lock/output-lock-not-released", "every call had returned, but the output lock was still held 10 s later: a call returned without releasing it (later transmit and Close calls would block for ever)"})
	}
	if serve >= 0 && !served {
		<-serveDone
	}
	o.Res = res
	return o
}

// deadlineRaces calls SetCloseDeadline while Serve is running, as its
// documentation prescribes; the race detector (see parent) judges.
func (x *runner) deadlineRaces(n int) {
	for k := 0; k < n; k++ {
		sc := &Scenario{Mode: "race", DLSup: k%2 == 0, Note: "SetCloseDeadline while Serve runs"}
		xmpp.VerifSetHook(nil)
		rg, err := newRig(sc.DLSup, false, false)
		if err != nil {
			continue
		}
		done := make(chan error, 1)
		go func() { done <- rg.s.Serve(nil) }()
		var wg sync.WaitGroup
		wg.Add(1)
		go func() {
			defer wg.Done()
			for i := 0; i < 3; i++ {
				rg.s.SetCloseDeadline(time.Now().Add(time.Hour))
				runtime.Gosched()
			}
		}()
		for i := 0; i < 3; i++ {
			rg.peerQ <- []byte(`<message id='x'/>`)
		}
		wg.Wait()
		rg.s.Close()
		rg.peerQ <- []byte(`</stream:stream>`)
		select {
		case <-done:
		case <-time.After(watchdog):
			x.res.Fail("C10/Serve/stuck", "Serve did not return after the peer closed its stream", sc)
		}
		rg.close()
		x.res.Count(fmt.Sprintf("race-%d", k), true, "mode/race")
	}
}

// ---- WebSocket subprotocol sessions (oracle only; not modelled) ----

func (x *runner) wsProbes() {
	sc := &Scenario{Mode: "ws", Note: "websocket.NewSession over a pipe with a scripted server"}
	xmpp.VerifSetHook(nil)
	a, b := net.Pipe()
	defer a.Close()
	defer b.Close()
	var mu sync.Mutex
	var got strings.Builder
	opened := make(chan struct{})
	go func() {
		buf := make([]byte, 4096)
		first := true
		for {
			n, err := b.Read(buf)
			mu.Lock()
			got.Write(buf[:n])
			s := got.String()
			mu.Unlock()
			if err != nil {
				return
			}
			if first && strings.Contains(s, "/>") {
				first = false
				close(opened)
			}
		}
	}()
	go func() {
		<-opened
		b.SetWriteDeadline(time.Now().Add(10 * time.Second))
		b.Write([]byte(`<open xmlns="` + wsNS + `" version="1.0" id="abc" from="example.net"/><stream:features xmlns:stream="http://etherx.jabber.org/streams"/>`))
	}()
	ctx, cancel := context.WithTimeout(context.Background(), 15*time.Second)
	defer cancel()
	s, err := websocket.NewSession(ctx, jid.MustParse("me@example.net"), a)
	x.res.Count("ws", true, "mode/ws")
	if err != nil || s == nil {
		x.res.Fail("C10/websocket/setup", fmt.Sprintf("could not establish a WebSocket-subprotocol session: %v", err), sc)
		return
	}
	mu.Lock()
	n0 := got.Len()
	mu.Unlock()
	sawClose := make(chan struct{}, 1)
	done := make(chan error, 1)
	go func() {
		done <- s.Serve(xmpp.HandlerFunc(func(t xmlstream.TokenReadEncoder, start *xml.StartElement) error {
			if start.Name.Local == "close" && start.Name.Space == wsNS {
				select {
				case sawClose <- struct{}{}:
				default:
				}
			}
			return nil
		}))
	}()
	go func() {
		b.SetWriteDeadline(time.Now().Add(10 * time.Second))
		b.Write([]byte(`<close xmlns="` + wsNS + `"/>`))
	}()
	select {
	case err := <-done:
		if err != nil {
			x.res.Fail("C10/websocket/peer-close-returns-error", fmt.Sprintf("the peer sent <close/> and Serve returned %v", err), sc)
		}
	case <-sawClose:
		x.res.Fail("C10/websocket/peer-close-not-recognised", "the peer's <close xmlns='urn:ietf:params:xml:ns:xmpp-framing'/> was handed to the handler as an ordinary element; Serve did not end", sc)
	case <-time.After(watchdog):
		x.res.Fail("C10/websocket/peer-close-not-recognised", "Serve neither returned nor delivered the peer's <close/>", sc)
	}
	s.Close()
	a.SetWriteDeadline(time.Now().Add(5 * time.Second))
	a.Write([]byte(mark))
	deadline := time.Now().Add(watchdog)
	for {
		mu.Lock()
		w := got.String()[n0:]
		mu.Unlock()
		if i := strings.Index(w, mark); i >= 0 {
			w = w[:i]
			if !strings.Contains(w, `<close xmlns="`+wsNS+`"/>`) {
				x.res.Fail("C10/websocket/wrong-closing-tag", fmt.Sprintf("Close on a WebSocket-subprotocol session wrote %q instead of the framing <close/> element", w), sc)
			}
			break
		}
		if time.Now().After(deadline) {
			break
		}
		time.Sleep(time.Millisecond)
	}
}
