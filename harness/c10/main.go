// Command c10 is the correspondence harness and implementation oracle for
// property C10: closing a session is idempotent, final and observable.
//
// Forced schedules: every actor of a scenario (callers of Close, of each
// transmit family, of SetCloseDeadline, a token-reader probe, Serve, the peer,
// the deadline timer) is advanced from yield point to yield point of the
// instrumented library in an order chosen by the scheduler (exhaustively for
// small actor sets, at random for larger ones). The realised schedule, the wire,
// what was left in the encoder buffer, every return value and the closed bits
// go to Coq, where the model (coq/C10/Model.v) replays the same schedule.
// The oracle (oracle.go) states the property on the same observables.
// Free-running scenarios (no yield points, many goroutines) are judged by the
// oracle only. The binary is built with -race; it runs itself as a child so
// that race reports become oracle failures.
package main

import (
	"encoding/json"
	"fmt"
	"os"
	"os/exec"
	"path/filepath"
	"regexp"
	"sort"
	"strings"
	"sync"
	"time"

	"verifharness/hx"
)

const imports = "From XV Require Import lib.Bytes C10.Model.\n"

type runner struct {
	res *hx.Result
	cf  hx.CaseFile
	nf  int // forced scenarios realised
	inv int // scenarios dropped because a real deadline could not be met
	// every stuck actor costs a full watchdog period: after a few of them the
	// remaining scenarios are not run (the failures are already recorded)
	stuck int
	enum  []string
}

const maxStuck = 3

// progress monitor: a scenario that makes no progress for wedgeAfter is
// reported as a failure (the harness would otherwise only hit the orchestrator's
// time-out, which names no scenario)
var (
	progressMu   sync.Mutex
	lastProgress = time.Now()
	current      *Scenario
)

const wedgeAfter = 120 * time.Second

func progress(sc *Scenario) {
	progressMu.Lock()
	lastProgress, current = time.Now(), sc
	progressMu.Unlock()
}

func (x *runner) monitor(out string) {
	for {
		time.Sleep(5 * time.Second)
		progressMu.Lock()
		idle, sc := time.Since(lastProgress), current
		progressMu.Unlock()
		if idle > wedgeAfter {
			x.res.Fail("C10/harness/wedged", fmt.Sprintf("a scenario made no progress for %v: some call neither returned nor reached a yield point and the scheduler's watchdogs did not cover it", wedgeAfter), sc)
			x.res.CaseFiles = append(x.res.CaseFiles, x.cf.Write(out, 300)...)
			x.res.Extra["model_cases"] = x.cf.Len()
			x.res.Write(out)
			os.Exit(0)
		}
	}
}

func (x *runner) wedged() bool { return x.stuck >= maxStuck }

func classes(sc *Scenario) []string {
	cl := []string{"mode/" + sc.Mode}
	if sc.WS {
		cl = append(cl, "framing/websocket")
	} else {
		cl = append(cl, "framing/tcp")
	}
	if sc.DLSup {
		cl = append(cl, "transport/deadlines")
	} else {
		cl = append(cl, "transport/no-deadlines")
	}
	for _, a := range sc.Actors {
		k := "actor/" + a.Kind
		if a.Kind == "peer" {
			k += "/" + a.Ev.Type
		}
		if a.Kind == "send" {
			k = "api/" + apiName(a)
		}
		cl = append(cl, k)
	}
	return cl
}

func nontrivial(sc *Scenario) bool {
	for _, a := range sc.Actors {
		if a.Kind == "close" || a.Kind == "serve" {
			return true
		}
	}
	return false
}

// record judges an outcome and files it.
func (x *runner) record(sc *Scenario, o *Outcome) {
	progress(nil)
	if o.Invalid != "" && len(o.Problems) == 0 {
		x.inv++
		return
	}
	rec := *sc
	rec.Choices = o.Choices
	b, _ := json.Marshal(rec)
	x.res.Count(string(b), nontrivial(sc), classes(sc)...)
	for _, p := range o.Problems {
		x.res.Fail(p.Key, p.What, rec)
		if strings.HasSuffix(p.Key, "/stuck") || p.Key == "C10/lock/output-lock-not-released" {
			x.stuck++
		}
	}
	if o.Invalid != "" || hasKey(o.Problems, "C10/setup") || strings.Contains(keys(o.Problems), "/stuck") {
		return
	}
	wire, residual, tag, probs := judge(sc, o)
	for _, p := range probs {
		x.res.Fail(p.Key, p.What, rec)
	}
	if sc.Mode == "forced" && !hasKey(probs, "C10/wire/not-well-formed") {
		x.nf++
		x.cf.Add(coqCase(sc, o, wire, residual, tag), rec)
		x.res.Sample(rec)
	}
}

func hasKey(ps []Problem, k string) bool {
	for _, p := range ps {
		if p.Key == k {
			return true
		}
	}
	return false
}

func keys(ps []Problem) string {
	var s []string
	for _, p := range ps {
		s = append(s, p.Key)
	}
	return strings.Join(s, " ")
}

// ---- choosers ----

// inOrder: run the actors to completion in the listed order.
func inOrder(depth int, en []int) int { return 0 }

func replayChooser(choices []int) func(int, []int) int {
	return func(depth int, en []int) int {
		if depth < len(choices) {
			for k, a := range en {
				if a == choices[depth] {
					return k
				}
			}
		}
		return 0
	}
}

func randomChooser(r *hx.Rand) func(int, []int) int {
	last := -1
	return func(depth int, en []int) int {
		if last >= 0 && r.Chance(1, 2) {
			for k, a := range en {
				if a == last {
					return k
				}
			}
		}
		k := r.Intn(len(en))
		last = en[k]
		return k
	}
}

// explore enumerates schedules of sc depth first (stateless: every schedule is
// run from a fresh session), at most max of them.
func (x *runner) explore(sc *Scenario, max int) {
	var prefix []int
	runs, exhausted := 0, false
	defer func() {
		var ks []string
		for _, a := range sc.Actors {
			k := a.Kind
			if a.Ev != nil {
				k += ":" + a.Ev.Type
			}
			ks = append(ks, k)
		}
		x.enum = append(x.enum, fmt.Sprintf("%s: %d schedules, exhaustive=%v", strings.Join(ks, "+"), runs, exhausted))
	}()
	for n := 0; n < max && !x.wedged(); n++ {
		runs++
		o := runForced(sc, func(depth int, en []int) int {
			if depth < len(prefix) {
				return prefix[depth]
			}
			return 0
		})
		x.record(sc, o)
		// next schedule: bump the deepest decision that has an untried alternative
		idx := make([]int, len(o.Counts))
		copy(idx, prefix)
		d := len(o.Counts) - 1
		for ; d >= 0; d-- {
			if idx[d]+1 < o.Counts[d] {
				break
			}
		}
		if d < 0 {
			exhausted = true
			return
		}
		prefix = append(idx[:d:d], idx[d]+1)
	}
}

// ---- scenario generators ----

func peer(t string, reply, fail bool, form string) Actor {
	return Actor{Kind: "peer", Ev: &Pev{Type: t, Reply: reply, Fail: fail, Form: form}}
}

func corpus() []*Scenario {
	var out []*Scenario
	add := func(note string, dl bool, as ...Actor) {
		out = append(out, &Scenario{Mode: "forced", DLSup: dl, Actors: as, Note: note})
	}
	cl := Actor{Kind: "close"}
	sv := Actor{Kind: "serve"}
	add("close twice", true, cl, cl)
	add("close three times", false, cl, cl, cl)
	for _, api := range sendAPIs {
		add("transmit after close: "+api, true, cl, Actor{Kind: "send", API: api})
		add("transmit, close, transmit: "+api, false, Actor{Kind: "send", API: api}, cl, Actor{Kind: "send", API: api})
	}
	for _, api := range waitingAPIs {
		add("request after close: "+api, true, cl, Actor{Kind: "send", API: api})
	}
	for _, k := range []string{"encode", "encodenf", "encodeelement", "tokenwriter"} {
		add(k+" after close", true, cl, Actor{Kind: k})
		add(k+" before and after close", false, Actor{Kind: k}, cl, Actor{Kind: k})
	}
	add("unflushed element, close, transmit (the transmit must not flush the buffer behind the tag)", true,
		Actor{Kind: "encodenf"}, cl, Actor{Kind: "send"}, Actor{Kind: "encode"}, Actor{Kind: "tokenwriter"})
	add("handler error, then transmit (the buffered stream error must not follow the tag)", true,
		sv, peer("elem", false, true, ""), Actor{Kind: "send"}, Actor{Kind: "encodeelement"}, Actor{Kind: "probe"})
	add("peer closes", true, sv, peer("close", false, false, ""), Actor{Kind: "probe"}, Actor{Kind: "send"}, cl)
	add("peer closes, no deadlines", false, sv, peer("elem", true, false, ""), peer("close", false, false, ""), Actor{Kind: "probe"})
	add("peer stream error", true, sv, peer("error", false, false, ""), Actor{Kind: "probe"}, Actor{Kind: "tokenwriter"})
	add("peer stream error with text", false, sv, peer("error", false, false, "text"), cl)
	for _, f := range []string{"", "unknown", "procinst", "chardata", "restart"} {
		add("bad input: "+f, true, sv, peer("bad", false, false, f), Actor{Kind: "probe"})
	}
	add("close, then the peer closes", true, sv, cl, peer("close", false, false, ""))
	add("close deadline passes after Close", true, sv, Actor{Kind: "setdeadline", Past: true}, cl, Actor{Kind: "probe"})
	add("close deadline passes, output open", true, sv, Actor{Kind: "setdeadline", Past: true}, Actor{Kind: "probe"}, Actor{Kind: "send"})
	add("deadline far away, peer closes", true, sv, Actor{Kind: "setdeadline"}, cl, peer("close", false, false, ""))
	add("deadline passed before Serve starts", true, Actor{Kind: "setdeadline", Past: true}, sv, Actor{Kind: "probe"})
	add("no read deadlines: Serve notices at the next element", false, sv, Actor{Kind: "setdeadline", Past: true}, peer("elem", false, false, ""), Actor{Kind: "probe"})
	add("handler replies after Close", true, sv, cl, peer("elem", true, false, ""))
	add("default IQ reply after Close", true, sv, cl, peer("elem", true, false, "iq"))
	add("handler replies then fails", true, sv, peer("elem", true, true, ""), cl)
	add("default IQ reply, then close", false, sv, peer("elem", true, false, "iq"), peer("close", false, false, ""))
	addWS := func(note string, dl bool, as ...Actor) {
		out = append(out, &Scenario{Mode: "forced", DLSup: dl, WS: true, Actors: as, Note: "websocket: " + note})
	}
	addWS("peer closes with the framing <close/>", true, sv, peer("close", false, false, ""), Actor{Kind: "probe"}, Actor{Kind: "send"})
	addWS("peer closes, no deadlines", false, sv, peer("elem", true, false, ""), peer("close", false, false, ""), Actor{Kind: "probe"})
	addWS("close twice, then transmit", true, cl, cl, Actor{Kind: "send"}, Actor{Kind: "encode"}, Actor{Kind: "tokenwriter"})
	addWS("close, then the peer closes", true, sv, cl, peer("close", false, false, ""))
	addWS("peer stream error", true, sv, peer("error", false, false, ""), Actor{Kind: "probe"})
	addWS("peer restarts the stream", true, sv, peer("bad", false, false, "restart"), Actor{Kind: "probe"})
	addWS("handler fails", false, sv, peer("elem", false, true, ""), cl)
	addWS("deadline passes after Close", true, sv, Actor{Kind: "setdeadline", Past: true}, cl, Actor{Kind: "probe"})
	addWS("default IQ reply, then close", true, sv, peer("elem", true, false, "iq"), peer("close", false, false, ""))
	add("real deadline", true, sv, Actor{Kind: "setdeadline"}, cl, Actor{Kind: "timer", For: 1}, Actor{Kind: "probe"})
	add("real deadline, no deadlines on the transport", false, sv, Actor{Kind: "setdeadline"}, Actor{Kind: "timer", For: 1}, peer("elem", false, false, ""))
	// the connection refuses the closing tag: closing is final all the same
	flt := Actor{Kind: "fault"}
	add("the tag write fails; Close again, then transmit", true, flt, cl, cl, Actor{Kind: "send"}, Actor{Kind: "encode"}, Actor{Kind: "tokenwriter"})
	add("the tag write fails in Close; Serve's shutdown must not write it again", true, sv, flt, cl, peer("close", false, false, ""), Actor{Kind: "probe"})
	add("the tag write fails in Serve's shutdown; Close afterwards", false, sv, flt, peer("close", false, false, ""), cl, Actor{Kind: "send"})
	add("the tag write fails in sendError; Serve returns the connection's error", true, sv, flt, peer("elem", false, true, ""), cl, Actor{Kind: "probe"})
	add("the tag write fails after a stream error from the peer", false, sv, flt, peer("error", false, false, ""), Actor{Kind: "encodeelement"})
	add("the fault comes after a successful Close", true, cl, flt, cl, Actor{Kind: "send"})
	add("the tag write fails at the close deadline", true, sv, flt, Actor{Kind: "setdeadline", Past: true}, cl)
	out = append(out, &Scenario{Mode: "forced", DLSup: true, WS: true, Actors: []Actor{flt, cl, cl, {Kind: "send"}}, Note: "websocket: the <close/> write fails; Close again"})
	// handler errors that wrap io.EOF are handler errors, not the peer's close
	for _, e := range []string{"wrapeof", "eofcause"} {
		add("handler error that wraps io.EOF ("+e+")", true, sv, Actor{Kind: "peer", Ev: &Pev{Type: "elem", Fail: true, Err: e}}, Actor{Kind: "probe"}, Actor{Kind: "send"})
		add("handler replies, then fails with an error that wraps io.EOF ("+e+")", false, sv, Actor{Kind: "peer", Ev: &Pev{Type: "elem", Reply: true, Fail: true, Err: e}}, cl)
	}
	// SetCloseDeadline while Serve is running must not disturb it: the peer goes on, then closes
	for _, dl := range []bool{true, false} {
		add("deadline far away set while Serve runs; the peer sends two more elements and closes", dl, sv, peer("elem", false, false, ""),
			Actor{Kind: "setdeadline"}, peer("elem", true, false, ""), peer("elem", false, false, ""), peer("close", false, false, ""), Actor{Kind: "probe"})
		add("two far deadlines set while Serve runs; the peer sends an IQ and closes", dl, sv, Actor{Kind: "setdeadline"}, peer("elem", false, false, ""),
			Actor{Kind: "setdeadline"}, peer("elem", true, false, "iq"), peer("close", false, false, ""))
		add("zero-time deadline set while Serve runs; the peer goes on", dl, sv, Actor{Kind: "setdeadline", Zero: true}, peer("elem", false, false, ""), peer("elem", false, false, ""), peer("close", false, false, ""))
	}
	// the deadline is state that every call replaces
	sd, far, past, zero := Actor{Kind: "setdeadline"}, Actor{Kind: "setdeadline"}, Actor{Kind: "setdeadline", Past: true}, Actor{Kind: "setdeadline", Zero: true}
	for _, dl := range []bool{true, false} {
		add("deadline extended: the first one passes, the peer sends a stanza and closes", dl, sv, sd, far, Actor{Kind: "timer", For: 1}, peer("elem", false, false, ""), peer("close", false, false, ""), Actor{Kind: "probe"})
		add("deadline extended after Close, peer replies are refused, then closes", dl, sv, sd, cl, far, Actor{Kind: "timer", For: 1}, peer("elem", false, false, ""), peer("close", false, false, ""))
		add("deadline shortened: the second one passes", dl, sv, far, sd, Actor{Kind: "timer", For: 2}, peer("elem", false, false, ""), Actor{Kind: "probe"})
		add("deadline cleared with the zero time: the first one passes unnoticed", dl, sv, sd, zero, Actor{Kind: "timer", For: 1}, peer("elem", false, false, ""), peer("close", false, false, ""))
		add("the zero time alone is no deadline", dl, sv, zero, peer("elem", false, false, ""), peer("close", false, false, ""), Actor{Kind: "probe"})
		add("a passed deadline replaced by a later one before Serve looks", dl, past, far, sv, peer("elem", false, false, ""), peer("close", false, false, ""))
		add("a passed deadline replaced by the zero time", dl, sv, peer("elem", false, false, ""), past, zero, peer("close", false, false, ""))
		add("a later deadline replaced by one that has passed", dl, sv, far, past, peer("elem", false, false, ""), Actor{Kind: "probe"})
		add("three calls: short, extended, short again, which passes", dl, sv, sd, far, Actor{Kind: "setdeadline"}, Actor{Kind: "timer", For: 3}, peer("elem", false, false, ""), Actor{Kind: "probe"})
	}
	return out
}

// exhaustive: small actor sets whose schedules are enumerated.
func exhaustiveSets() []*Scenario {
	var out []*Scenario
	add := func(dl bool, as ...Actor) {
		out = append(out, &Scenario{Mode: "forced", DLSup: dl, Actors: as, Note: "enumerated"})
	}
	cl := Actor{Kind: "close"}
	sv := Actor{Kind: "serve"}
	add(true, cl, cl)
	add(true, cl, Actor{Kind: "send"})
	add(true, cl, Actor{Kind: "send", API: "SendIQElement"})
	add(false, cl, Actor{Kind: "encode"})
	add(true, cl, Actor{Kind: "encodenf"})
	add(true, cl, Actor{Kind: "encodeelement"})
	add(true, cl, Actor{Kind: "tokenwriter"})
	add(true, sv, peer("close", false, false, ""), cl)
	add(true, sv, peer("elem", false, true, ""), cl)
	add(true, sv, peer("elem", true, false, ""), cl)
	add(false, sv, peer("elem", true, false, "iq"), cl)
	add(true, sv, peer("error", false, false, ""), Actor{Kind: "send"})
	add(true, sv, peer("bad", false, false, ""), Actor{Kind: "encode"})
	add(true, sv, Actor{Kind: "setdeadline", Past: true}, cl)
	add(false, sv, Actor{Kind: "setdeadline", Past: true}, peer("elem", false, false, ""))
	add(true, sv, peer("elem", true, true, ""), Actor{Kind: "tokenwriter"})
	add(true, cl, cl, Actor{Kind: "send"})
	add(true, sv, peer("close", false, false, ""), cl, Actor{Kind: "send"})
	add(true, sv, peer("elem", false, true, ""), cl, Actor{Kind: "encodenf"})
	add(true, sv, Actor{Kind: "setdeadline", Past: true}, Actor{Kind: "setdeadline"}, peer("close", false, false, ""))
	add(false, sv, Actor{Kind: "setdeadline", Past: true}, Actor{Kind: "setdeadline", Zero: true}, peer("elem", false, false, ""))
	add(true, sv, Actor{Kind: "setdeadline"}, Actor{Kind: "setdeadline", Past: true}, peer("elem", false, false, ""))
	add(true, sv, Actor{Kind: "setdeadline"}, peer("elem", false, false, ""), peer("close", false, false, ""))
	add(false, sv, Actor{Kind: "peer", Ev: &Pev{Type: "elem", Fail: true, Err: "wrapeof"}}, cl)
	add(true, Actor{Kind: "fault"}, cl, cl)
	add(true, Actor{Kind: "fault"}, cl, Actor{Kind: "send"})
	add(true, sv, Actor{Kind: "fault"}, peer("close", false, false, ""), cl)
	add(false, sv, Actor{Kind: "fault"}, peer("elem", false, true, ""), cl)
	addWS := func(dl bool, as ...Actor) {
		out = append(out, &Scenario{Mode: "forced", DLSup: dl, WS: true, Actors: as, Note: "enumerated, websocket"})
	}
	addWS(true, cl, cl)
	addWS(true, cl, Actor{Kind: "send"})
	addWS(true, sv, peer("close", false, false, ""), cl)
	addWS(false, sv, peer("elem", true, false, ""), cl)
	addWS(true, sv, peer("error", false, false, ""), Actor{Kind: "encode"})
	return out
}

func randomScenario(r *hx.Rand) *Scenario {
	sc := &Scenario{Mode: "forced", DLSup: r.Chance(2, 3), Recv: r.Chance(1, 4), WS: r.Chance(1, 4)}
	var as []Actor
	for n := r.Intn(3); n > 0; n-- {
		as = append(as, Actor{Kind: "close"})
	}
	kinds := []string{"send", "send", "encode", "encodenf", "encodeelement", "tokenwriter"}
	for n := r.Intn(4); n > 0; n-- {
		k := kinds[r.Intn(len(kinds))]
		a := Actor{Kind: k}
		if k == "send" {
			a.API = sendAPIs[r.Intn(len(sendAPIs))]
		}
		as = append(as, a)
	}
	if r.Chance(2, 3) {
		as = append(as, Actor{Kind: "serve"})
		for n := r.Intn(3); n > 0; n-- {
			reply, fail := r.Chance(1, 2), r.Chance(1, 4)
			form := ""
			if reply && !fail && r.Chance(1, 3) {
				form = "iq"
			}
			a := peer("elem", reply, fail, form)
			if fail {
				a.Ev.Err = []string{"", "", "wrapeof", "eofcause"}[r.Intn(4)]
			}
			as = append(as, a)
		}
		if r.Chance(3, 4) {
			switch r.Intn(4) {
			case 0, 1:
				as = append(as, peer("close", false, false, ""))
			case 2:
				as = append(as, peer("error", false, false, []string{"", "text"}[r.Intn(2)]))
			default:
				as = append(as, peer("bad", false, false, []string{"", "unknown", "procinst", "chardata", "restart"}[r.Intn(5)]))
			}
		}
		if r.Chance(1, 2) {
			as = append(as, Actor{Kind: "probe"})
		}
	}
	// SetCloseDeadline any number of times: later, already passed, zero time
	if r.Chance(2, 5) {
		for n := 1 + r.Intn(3); n > 0; n-- {
			switch r.Intn(4) {
			case 0, 1:
				as = append(as, Actor{Kind: "setdeadline", Past: true})
			case 2:
				as = append(as, Actor{Kind: "setdeadline"})
			default:
				as = append(as, Actor{Kind: "setdeadline", Zero: true})
			}
		}
	}
	if r.Chance(1, 6) {
		as = append(as, Actor{Kind: "fault"})
	}
	if len(as) == 0 {
		as = append(as, Actor{Kind: "close"})
	}
	// peer events keep their relative order (they are queued in schedule order
	// anyway); everything else is shuffled
	for i := len(as) - 1; i > 0; i-- {
		j := r.Intn(i + 1)
		as[i], as[j] = as[j], as[i]
	}
	sc.Actors = as
	return sc
}

// timerScenario: one SetCloseDeadline call with a short real deadline that
// passes during the scenario, among other calls that extend, shorten (a time
// already passed) or clear it, with the peer acting in between.
func timerScenario(r *hx.Rand) *Scenario {
	sc := randomScenario(r)
	var as []Actor
	hasServe := false
	for _, a := range sc.Actors {
		if a.Kind == "setdeadline" || a.Kind == "timer" {
			continue
		}
		if a.Kind == "serve" {
			hasServe = true
		}
		as = append(as, a)
	}
	if !hasServe {
		as = append(as, Actor{Kind: "serve"})
	}
	if r.Chance(2, 3) {
		as = append(as, peer("elem", r.Chance(1, 3), false, ""))
	}
	if r.Chance(1, 2) {
		as = append(as, peer("close", false, false, ""))
	}
	for n := r.Intn(3); n > 0; n-- {
		switch r.Intn(3) {
		case 0:
			as = append(as, Actor{Kind: "setdeadline"}) // far away
		case 1:
			as = append(as, Actor{Kind: "setdeadline", Zero: true})
		default:
			as = append(as, Actor{Kind: "setdeadline", Past: true})
		}
	}
	for i := len(as) - 1; i > 0; i-- {
		j := r.Intn(i + 1)
		as[i], as[j] = as[j], as[i]
	}
	// the short one goes to a random place, its timer to the end (the index it
	// refers to must not move any more)
	at := r.Intn(len(as) + 1)
	as = append(as[:at:at], append([]Actor{{Kind: "setdeadline"}}, as[at:]...)...)
	as = append(as, Actor{Kind: "timer", For: at})
	sc.Actors = as
	sc.Note = "real deadline"
	return sc
}

// ---- race supervision ----

var frameRe = regexp.MustCompile(`(?m)^  (\S+)\(`)

func raceKey(rep string) string {
	var fns []string
	for _, blk := range strings.Split(rep, "\n\n") {
		t := strings.TrimSpace(blk)
		if !(strings.Contains(blk, " by goroutine") || strings.Contains(blk, " by main goroutine")) || strings.HasPrefix(t, "Goroutine") {
			continue
		}
		name := "?"
		for _, m := range frameRe.FindAllStringSubmatch(blk, -1) {
			if strings.Contains(m[1], "mellium.im/xmpp") {
				name = m[1][strings.LastIndex(m[1], "/")+1:]
				name = strings.TrimPrefix(name, "xmpp.")
				name = strings.NewReplacer("(*", "", ")", "").Replace(name)
				break
			}
		}
		fns = append(fns, name)
		if len(fns) == 2 {
			break
		}
	}
	sort.Strings(fns)
	return "C10/race/" + strings.Join(fns, "+")
}

func parent(o hx.Opts) int {
	old, _ := filepath.Glob(filepath.Join(o.Out, "race.*"))
	for _, f := range old {
		os.Remove(f)
	}
	cmd := exec.Command(os.Args[0], os.Args[1:]...)
	cmd.Env = append(os.Environ(), "C10_CHILD=1",
		"GORACE=log_path="+filepath.Join(o.Out, "race")+" exitcode=0 halt_on_error=0 history_size=2")
	cmd.Stdout, cmd.Stderr = os.Stdout, os.Stderr
	if err := cmd.Run(); err != nil {
		fmt.Fprintln(os.Stderr, "c10 child:", err)
		return 1
	}
	logs, _ := filepath.Glob(filepath.Join(o.Out, "race.*"))
	var reports []string
	for _, f := range logs {
		b, _ := os.ReadFile(f)
		for _, part := range strings.Split(string(b), "==================") {
			if strings.Contains(part, "WARNING: DATA RACE") {
				reports = append(reports, strings.TrimSpace(part))
			}
		}
		os.Remove(f)
	}
	if len(reports) == 0 {
		return 0
	}
	path := filepath.Join(o.Out, "result.json")
	b, err := os.ReadFile(path)
	if err != nil {
		fmt.Fprintln(os.Stderr, err)
		return 1
	}
	var res map[string]interface{}
	if err := json.Unmarshal(b, &res); err != nil {
		fmt.Fprintln(os.Stderr, err)
		return 1
	}
	fails, _ := res["oracle_failures"].([]interface{})
	seen := map[string]bool{}
	for _, rep := range reports {
		key := raceKey(rep)
		if seen[key] {
			continue
		}
		seen[key] = true
		if len(rep) > 4000 {
			rep = rep[:4000]
		}
		fails = append(fails, map[string]interface{}{
			"key":  key,
			"what": "the race detector reports unsynchronised access (the model's atomic steps are not atomic): " + strings.TrimPrefix(key, "C10/race/"),
			"case": Scenario{Mode: "race", Note: rep},
		})
	}
	res["oracle_failures"] = fails
	nb, _ := json.MarshalIndent(res, "", " ")
	if err := os.WriteFile(path, nb, 0o644); err != nil {
		fmt.Fprintln(os.Stderr, err)
		return 1
	}
	return 0
}

func main() {
	o := hx.ParseFlags()
	if os.Getenv("C10_CHILD") == "" {
		os.Exit(parent(o))
	}
	res := hx.NewResult("C10")
	x := &runner{res: res}
	x.cf = hx.CaseFile{Name: "sched", Imports: imports, Ok: "case_ok", Type: "ccase"}
	r := hx.NewRand(o.Seed)
	go x.monitor(o.Out)

	if o.Replay != "" {
		b, err := os.ReadFile(o.Replay)
		if err != nil {
			fmt.Fprintln(os.Stderr, err)
			os.Exit(2)
		}
		var rp struct {
			Case Scenario `json:"case"`
		}
		if err := json.Unmarshal(b, &rp); err != nil {
			fmt.Fprintln(os.Stderr, err)
			os.Exit(2)
		}
		sc := rp.Case
		switch sc.Mode {
		case "forced":
			x.record(&sc, runForced(&sc, replayChooser(sc.Choices)))
		case "free":
			for i := 0; i < 200; i++ {
				x.record(&sc, runFree(&sc, r))
			}
		case "race":
			x.deadlineRaces(40)
		case "ws":
			x.wsProbes()
		case "stall":
			x.stallProbes()
		}
	} else {
		nEnum, nRand, nFree, nTimer, nRace := 90, 1600, 250, 24, 12
		if o.Thorough() {
			nEnum, nRand, nFree, nTimer, nRace = 1200, 18000, 3000, 200, 100
			grace = 5 * 1000 * 1000
		}
		if o.Search {
			nEnum, nRand, nFree, nTimer, nRace = 600, 9000, 2000, 20, 60
		}
		for _, sc := range corpus() {
			if x.wedged() {
				break
			}
			x.record(sc, runForced(sc, inOrder))
		}
		for _, sc := range exhaustiveSets() {
			x.explore(sc, nEnum)
		}
		for i := 0; i < nRand && !x.wedged(); i++ {
			sc := randomScenario(r)
			x.record(sc, runForced(sc, randomChooser(r)))
		}
		for i := 0; i < nTimer && !x.wedged(); i++ {
			sc := timerScenario(r)
			x.record(sc, runForced(sc, randomChooser(r)))
		}
		for i := 0; i < nFree && !x.wedged(); i++ {
			sc := freeScenario(r)
			x.record(sc, runFree(sc, r))
		}
		x.deadlineRaces(nRace)
		x.wsProbes()
		x.stallProbes()
	}
	res.Rule = "forced schedules over the yield points of session.go: a built-in corpus run in order; every schedule (up to a cap) of 33 small actor sets (5 of them on WebSocket-subprotocol sessions); " +
		"random sets of 1-12 actors, a quarter of them on sessions negotiated by websocket.NewSession (Close x0-2, transmitters of every family and API, Serve with a peer script of elements/close/stream error/bad input, " +
		"a connection that starts refusing the closing tag (fault), SetCloseDeadline called 0-3 times with a later time / a time already passed / the zero time, token-reader probe) under random schedules; " +
		"real-timer scenarios (one call with a short real deadline that passes during the scenario, while other calls extend, shorten or clear it and the peer acts in between); free-running concurrent scenarios (oracle only); " +
		"stall probes: the peer stops reading while Close / sendError / Serve's shutdown writes the closing element and Serve, SetCloseDeadline or State need the session state (oracle only; every forced scenario also asks, at each connection write, whether the state mutex is locked). " +
		"distinct = hash of actors + realised decisions; non-trivial = the scenario contains a Close caller or Serve"
	res.CaseFiles = append(res.CaseFiles, x.cf.Write(o.Out, 300)...)
	res.Extra["model_cases"] = x.cf.Len()
	res.Extra["forced_scenarios"] = x.nf
	res.Extra["enumerated_sets"] = x.enum
	res.Extra["dropped_real_deadline_scenarios"] = x.inv
	res.Extra["stopped_early_after_stuck_actors"] = x.wedged()
	res.Write(o.Out)
}
