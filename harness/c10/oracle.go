package main

import (
	"bytes"
	"fmt"
	"strconv"
	"strings"

	"mellium.im/xmpp/stream"
	"verifharness/hx"
)

// Item is one top-level thing on the wire: an element (by the index of the
// actor that owns it), a stream error, or the closing tag.
type Item struct {
	Kind string // elem err close other
	N    int
}

func (it Item) coq() string {
	switch it.Kind {
	case "elem":
		return "IElem " + hx.CoqNat(it.N)
	case "err":
		return "IErr"
	case "close":
		return "IClose"
	}
	return "IElem 99999%nat"
}

var closeTags = [][]byte{[]byte(`</stream:stream>`), []byte(`<close xmlns="urn:ietf:params:xml:ns:xmpp-framing"/>`)}

// parseItems splits session output into items. tag is the closing tag as it
// was written (the first one).
func parseItems(b []byte) (items []Item, tag []byte, err error) {
	for len(bytes.TrimSpace(b)) > 0 {
		// the framing close is an ordinary element for the XML parser
		if bytes.HasPrefix(b, closeTags[1]) {
			if tag == nil {
				tag = closeTags[1]
			}
			items = append(items, Item{Kind: "close"})
			b = b[len(closeTags[1]):]
			continue
		}
		// a sentinel closing tag lets the parser end cleanly when the session
		// has not closed its stream
		withEnd := append(append([]byte(nil), b...), closeTags[0]...)
		elems, closed, rest, e := hx.ParseTopLevel(withEnd, nsClient)
		for _, el := range elems {
			it := itemOf(el)
			if it.Kind == "close" && tag == nil {
				tag = closeTags[1]
				if !bytes.Contains(b, closeTags[1]) {
					tag = []byte("<close/> in the framing name space, not in the canonical form")
				}
			}
			items = append(items, it)
		}
		if e != nil {
			return items, tag, e
		}
		if !closed || len(rest) == 0 && !bytes.HasSuffix(bytes.TrimSpace(b), closeTags[0]) {
			break
		}
		if len(rest) >= len(closeTags[0]) {
			rest = rest[:len(rest)-len(closeTags[0])]
		} else {
			rest = nil
		}
		items = append(items, Item{Kind: "close"})
		if tag == nil {
			tag = closeTags[0]
		}
		b = rest
	}
	return items, tag, nil
}

func itemOf(el hx.Elem) Item {
	// the closing element of the WebSocket framing is an ordinary element for the parser
	if el.Local == "close" && el.Space == wsNS {
		return Item{Kind: "close"}
	}
	if el.Local == "error" && el.Space == stream.NS {
		return Item{Kind: "err"}
	}
	if id, ok := el.Attr("id"); ok && strings.HasPrefix(id, "e") {
		if n, err := strconv.Atoi(id[1:]); err == nil {
			return Item{Kind: "elem", N: n}
		}
	}
	return Item{Kind: "other"}
}

func apiName(a Actor) string {
	switch a.Kind {
	case "send":
		if a.API == "" {
			return "Send"
		}
		if i := strings.Index(a.API, "/"); i >= 0 {
			return a.API[:i]
		}
		return a.API
	case "encode", "encodenf":
		return "Encode"
	case "encodeelement":
		return "EncodeElement"
	case "tokenwriter":
		return "TokenWriter"
	case "peer":
		return "handler-reply"
	}
	return a.Kind
}

// family names the function of session.go that an entry point ends up in: one
// defect there has one finding key, whatever API reached it.
func family(a Actor) string {
	if a.Kind == "send" {
		return "send"
	}
	return apiName(a)
}

// owner names the entry point that wrote an item.
func owner(sc *Scenario, it Item) string {
	switch it.Kind {
	case "err":
		return "sendError"
	case "close":
		return "Close"
	case "elem":
		if it.N >= 0 && it.N < len(sc.Actors) {
			return family(sc.Actors[it.N])
		}
	}
	return "unknown"
}

// judge evaluates the property's clauses on the observables of one scenario.
// It knows nothing of the Coq model.
func judge(sc *Scenario, o *Outcome) (wire, residual []Item, tag []byte, probs []Problem) {
	add := func(key, what string) { probs = append(probs, Problem{key, what}) }
	wire, tag, err := parseItems(o.Wire)
	if err != nil {
		add("C10/wire/not-well-formed", fmt.Sprintf("the session's output is not a sequence of whole elements: %v in %q", err, trunc(o.Wire)))
	}
	residual, _, _ = parseItems(o.Residual)
	// clause 1: the closing tag exactly once
	nclose, first := 0, -1
	for i, it := range wire {
		if it.Kind == "close" {
			nclose++
			if first < 0 {
				first = i
			}
		}
	}
	closerReturned := false
	for i, a := range sc.Actors {
		if (a.Kind == "close" || a.Kind == "serve") && o.Res[i] != "" {
			closerReturned = true
		}
	}
	if nclose > 1 {
		add("C10/close/tag-written-twice", fmt.Sprintf("%d closing tags on the wire: %q", nclose, trunc(o.Wire)))
	}
	if sc.Mode == "forced" {
		// exactly once means at most one write ATTEMPT of the closing tag at the
		// connection, whether or not the connection accepted it; closing is final:
		// once any Close (or Serve) has returned, with or without an error, the bit
		// is set and nothing more is handed to the connection
		if o.TagAttempts > 1 {
			add("C10/close/tag-write-attempted-twice", fmt.Sprintf("the closing tag was handed to the connection %d times (the connection %s the first attempt)", o.TagAttempts, map[bool]string{true: "refused", false: "accepted"}[o.faulted]))
		}
		if closerReturned && !o.OCL {
			add("C10/close/bit-not-set-after-close", fmt.Sprintf("a Close call (or Serve) has returned but OutputStreamClosed is not set (closing-tag write attempts: %d, the connection refuses the tag: %v)", o.TagAttempts, o.faulted))
		}
		if o.BytesAfter > 0 && o.TagAttempts <= 1 {
			add("C10/close/written-after-close-attempt", fmt.Sprintf("%d bytes were handed to the connection after the write attempt of the closing tag", o.BytesAfter))
		}
		if closerReturned && o.TagAttempts == 0 {
			add("C10/close/no-tag", "a Close call (or Serve) has returned but the closing tag was never handed to the connection")
		}
	}
	if closerReturned && nclose == 0 && !o.faulted {
		add("C10/close/no-tag", "a Close call (or Serve) has returned but no closing tag is on the wire")
	}
	if tag != nil {
		want := closeTags[0]
		if sc.WS {
			want = closeTags[1]
		}
		if !bytes.Equal(tag, want) {
			add("C10/close/wrong-closing-element", fmt.Sprintf("the stream was closed with %q, this kind of session closes with %q", tag, want))
		}
	}
	if o.OCL != (nclose > 0) && !o.faulted {
		add("C10/close/bit-disagrees-with-wire", fmt.Sprintf("OutputStreamClosed=%v but %d closing tags written", o.OCL, nclose))
	}
	// clause 2: nothing after the closing tag
	if first >= 0 && first+1 < len(wire) {
		nx := wire[first+1]
		if nx.Kind != "close" {
			add("C10/"+owner(sc, nx)+"/written-after-close", fmt.Sprintf("%s wrote behind the closing stream tag: %q", owner(sc, nx), trunc(o.Wire)))
		}
	}
	inWire := map[int]bool{}
	inRes := map[int]bool{}
	for _, it := range wire {
		if it.Kind == "elem" {
			inWire[it.N] = true
		}
	}
	for _, it := range residual {
		if it.Kind == "elem" {
			inRes[it.N] = true
		}
	}
	for i, a := range sc.Actors {
		if !isTransmit(a.Kind) || o.Res[i] == "" {
			continue
		}
		api, fam := apiName(a), family(a)
		switch o.Res[i] {
		case "EOutClosed":
			if inWire[i] || inRes[i] {
				add("C10/"+fam+"/error-but-written", fmt.Sprintf("%s returned ErrOutputStreamClosed but its element was encoded", api))
			}
		case "ENil":
			if !inWire[i] && !(a.Kind == "encodenf" && inRes[i]) {
				add("C10/"+fam+"/nil-but-not-written", fmt.Sprintf("%s returned nil but its element is not on the wire", api))
			}
		}
		// every transmit entry point started after a closer returned must fail with the output-closed error
		if o.afterClose[i] && o.Res[i] != "EOutClosed" {
			add("C10/"+fam+"/no-error-after-close", fmt.Sprintf("%s was called after Close had returned and returned %s instead of ErrOutputStreamClosed", api, o.Res[i]))
		}
	}
	// clause 3: Serve's outcomes
	for i, a := range sc.Actors {
		if a.Kind != "serve" || o.Res[i] == "" {
			continue
		}
		r := o.Res[i]
		if !o.OCL || !o.ICL {
			add("C10/Serve/bits-after-return", fmt.Sprintf("Serve returned but OutputStreamClosed=%v InputStreamClosed=%v", o.OCL, o.ICL))
		}
		switch o.cause {
		case "peerclose":
			if r != "ENil" && !(o.faulted && r == "EWrite") {
				add("C10/Serve/peer-close-returns-error", "the peer closed its stream and Serve returned "+r)
			}
		case "peererror":
			if r != "EStream" && !(o.faulted && r == "EWrite") {
				add("C10/Serve/peer-error-not-returned", "the peer sent a stream error and Serve returned "+r)
			}
		case "timeout":
			if r != "ETimeout" && r != "ECtxDeadline" && !(o.faulted && r == "EWrite") {
				add("C10/Serve/deadline-returns-"+r, "the close deadline passed and Serve returned "+r)
			}
		case "unknown":
		default:
			if r == "ENil" {
				add("C10/Serve/nil-without-peer-close", "Serve returned nil although the peer did not close its stream (cause: "+o.cause+")")
			}
		}
		// Serve left its loop at the top, through the test of the input context,
		// although nothing had happened to the context in force: the deadline in
		// force had not passed (and nothing but Serve's own shutdown cancels it)
		if o.cause == "ctx" && o.exitSeen && !o.passedAtExit {
			add("C10/Serve/returned-without-cause", fmt.Sprintf("Serve returned %s from the context test at the top of its loop although the peer had not closed, no stream error was exchanged and the close deadline in force had not passed (SetCloseDeadline calls: %s)", r, deadlineCalls(sc)))
		}
		// every element the peer sent before Serve left its loop was handed to the handler
		if o.handled != o.elemsRead {
			add("C10/Serve/elements-not-handled", fmt.Sprintf("Serve read %d elements of the peer but the handler was called for %d", o.elemsRead, o.handled))
		}
		// a deadline error only when the deadline in force has passed: a deadline
		// that a later SetCloseDeadline call has replaced (extended, shortened or
		// cleared with the zero time) must not end Serve
		if o.exitSeen && !o.passedAtExit && (r == "ETimeout" || r == "ECtxDeadline") {
			add("C10/Serve/deadline-not-in-force", fmt.Sprintf("Serve returned %s although the close deadline in force had not passed when it left its loop (SetCloseDeadline calls in this scenario: %s)", r, deadlineCalls(sc)))
		}
		// the stream error that sendError transmits must be on the wire before the closing tag
		if o.openAtErr {
			found := false
			for k, it := range wire {
				if it.Kind == "err" && (first < 0 || k < first) {
					found = true
				}
			}
			if !found {
				add("C10/sendError/stream-error-not-on-wire", "Serve ended with an error while the output was open: sendError encoded a stream error but it never reached the connection (not flushed before the closing tag)")
			}
		}
	}
	for i, a := range sc.Actors {
		if a.Kind == "probe" && o.Res[i] != "" && o.Res[i] != "EInClosed" {
			add("C10/TokenReader/read-after-input-closed", "a read after the input stream was marked closed returned "+o.Res[i])
		}
	}
	// when Serve has consumed a terminal event (or its deadline passed on a
	// transport with deadlines) it must return; the scheduler would have
	// reported it as stuck otherwise. Here: it must have returned by the end.
	if o.served && o.cause != "" && len(o.Problems) == 0 {
		for i, a := range sc.Actors {
			if a.Kind == "serve" && o.Res[i] == "" {
				add("C10/Serve/did-not-return", "Serve left its loop ("+o.cause+") but had not returned when every actor had been run to completion")
			}
		}
	}
	return
}

func deadlineCalls(sc *Scenario) string {
	var l []string
	for i, a := range sc.Actors {
		if a.Kind != "setdeadline" {
			continue
		}
		m := "later"
		switch {
		case a.Past:
			m = "already passed"
		case a.Zero:
			m = "zero time"
		}
		for t, b := range sc.Actors {
			if b.Kind == "timer" && timerFor(sc, t) == i {
				m += ", passes during the scenario"
			}
		}
		l = append(l, fmt.Sprintf("actor %d: %s", i, m))
	}
	return strings.Join(l, "; ")
}

func trunc(b []byte) string {
	if len(b) > 400 {
		return string(b[:400]) + "..."
	}
	return string(b)
}

// ---- Coq terms ----

func coqItems(l []Item) string {
	var s []string
	for _, it := range l {
		s = append(s, it.coq())
	}
	return "[" + strings.Join(s, "; ") + "]"
}

func coqKind(a Actor, idx int) string {
	n := hx.CoqNat(idx)
	switch a.Kind {
	case "close":
		return "KClose"
	case "send":
		return "KSend " + n
	case "encode":
		return "KEncode " + n
	case "encodenf":
		return "KEncodeNF " + n
	case "encodeelement":
		return "KEncodeElement " + n
	case "tokenwriter":
		return "KTokenWriter " + n
	case "setdeadline":
		switch {
		case a.Past:
			return "KSetDeadline DPast"
		case a.Zero:
			return "KSetDeadline DZero"
		}
		return "KSetDeadline DFuture"
	case "timer":
		return "KTimer " + hx.CoqNat(a.For)
	case "serve":
		return "KServe"
	case "probe":
		return "KProbe"
	case "fault":
		return "KFault"
	case "peer":
		ev := "PBad"
		switch a.Ev.Type {
		case "close":
			ev = "PClose"
		case "error":
			ev = "PErr"
		case "elem":
			ev = fmt.Sprintf("PElem %s %s %s", hx.CoqBool(a.Ev.Reply), hx.CoqBool(a.Ev.Fail), n)
		}
		return "KPeer [" + ev + "]"
	}
	return "KProbe"
}

func coqCase(sc *Scenario, o *Outcome, wire, residual []Item, tag []byte) string {
	var ks, sch, rs []string
	for i, a := range sc.Actors {
		ks = append(ks, coqKind(a, i))
	}
	for _, i := range o.Sched {
		sch = append(sch, hx.CoqNat(i))
	}
	for _, r := range o.Res {
		if r == "" {
			rs = append(rs, "None")
		} else {
			rs = append(rs, "Some "+r)
		}
	}
	return fmt.Sprintf("mkcase %s %s [%s] [%s] %s %s [%s] %s %s %s %s",
		hx.CoqBool(sc.DLSup), hx.CoqBool(sc.WS), strings.Join(ks, "; "), strings.Join(sch, "; "),
		coqItems(wire), coqItems(residual), strings.Join(rs, "; "),
		hx.CoqBool(o.OCL), hx.CoqBool(o.ICL), hx.CoqNat(o.TagAttempts), hx.CoqBytes(tag))
}
