package main

import (
	"bytes"
	"context"
	"encoding/xml"
	"errors"
	"fmt"
	"io"
	"net"
	"os"
	"strings"
	"sync"
	"sync/atomic"
	"time"

	"mellium.im/xmlstream"
	"mellium.im/xmpp"
	"mellium.im/xmpp/jid"
	"mellium.im/xmpp/stanza"
	"mellium.im/xmpp/stream"
	"mellium.im/xmpp/websocket"
	"verifharness/hx"
)

// ---- scenario language (mirrors `kind` of coq/C10/Model.v) ----

// Actor is one goroutine of a scenario.
type Actor struct {
	Kind string `json:"kind"`           // close send encode encodenf encodeelement tokenwriter setdeadline timer peer serve probe fault
	API  string `json:"api,omitempty"`  // variant of the entry point (same model kind)
	Past bool   `json:"past,omitempty"` // setdeadline: a deadline that has already passed
	Zero bool   `json:"zero,omitempty"` // setdeadline: the zero time (no deadline)
	For  int    `json:"for,omitempty"`  // timer: index of the setdeadline actor whose deadline passes
	Ev   *Pev   `json:"ev,omitempty"`   // peer: what it writes
}

// Pev is something the peer writes.
type Pev struct {
	Type  string `json:"type"`            // close error bad elem
	Reply bool   `json:"reply,omitempty"` // elem: the handler (or Serve by default) writes a reply
	Fail  bool   `json:"fail,omitempty"`  // elem: the handler returns an error
	Err   string `json:"err,omitempty"`   // elem, fail: which error ("" plain; wrapeof: an error that wraps io.EOF; eofcause: joined with io.EOF)
	Form  string `json:"form,omitempty"`  // textual variant
}

// Scenario is a set of actors plus the decisions of the scheduler.
type Scenario struct {
	Mode    string  `json:"mode"`  // forced | free
	DLSup   bool    `json:"dlsup"` // the transport is a net.Conn (read deadlines work)
	Recv    bool    `json:"recv,omitempty"`
	WS      bool    `json:"ws,omitempty"` // a session negotiated with the WebSocket subprotocol (websocket.NewSession)
	Actors  []Actor `json:"actors"`
	Choices []int   `json:"choices,omitempty"` // forced: the actor released at every decision point
	Note    string  `json:"note,omitempty"`
}

const nsClient = "jabber:client"

func isTransmit(k string) bool {
	switch k {
	case "send", "encode", "encodenf", "encodeelement", "tokenwriter":
		return true
	}
	return false
}

// ---- session over an in-memory pipe ----

// watchedConn is the session's end of the pipe: reads may go through a reader
// that first yields a synthetic stream header, and every Write is announced to
// the rig before it is passed on (the rig asks the session whether its state
// mutex is locked at that moment).
type watchedConn struct {
	net.Conn
	r   io.Reader
	rig *rig
}

func (h *watchedConn) Read(b []byte) (int, error) {
	if h.r != nil {
		return h.r.Read(b)
	}
	return h.Conn.Read(b)
}

func (h *watchedConn) Write(b []byte) (int, error) {
	h.rig.onWrite()
	if h.rig.tagWrite(b) {
		return 0, errWriteFault
	}
	return h.Conn.Write(b)
}

type watchedWriter struct {
	w   io.Writer
	rig *rig
}

func (h watchedWriter) Write(b []byte) (int, error) {
	h.rig.onWrite()
	if h.rig.tagWrite(b) {
		return 0, errWriteFault
	}
	return h.w.Write(b)
}

var errWriteFault = errors.New("harness: the connection refuses the closing tag")

// tagWrite counts what the session hands to the connection once it is
// established: attempts to write the closing element, and any bytes after the
// first attempt. It reports whether this write is to be refused.
func (r *rig) tagWrite(b []byte) bool {
	if r.s == nil || !r.watch.Load() {
		return false
	}
	isTag := bytes.Equal(b, closeTags[0]) || bytes.Equal(b, closeTags[1])
	r.wmu.Lock()
	defer r.wmu.Unlock()
	if isTag {
		r.tagAttempts++
		if r.tagAttempts > 1 {
			r.bytesAfter += len(b)
		}
		return r.fault.Load()
	}
	if r.tagAttempts > 0 {
		r.bytesAfter += len(b)
	}
	return false
}

type plainRW struct {
	io.Reader
	io.Writer
}

func readyNegotiator(ns string) xmpp.Negotiator {
	return func(ctx context.Context, in, out *stream.Info, s *xmpp.Session, data interface{}) (xmpp.SessionState, io.ReadWriter, interface{}, error) {
		rc := s.TokenReader()
		_, err := rc.Token()
		rc.Close()
		in.XMLNS, out.XMLNS = ns, ns
		return xmpp.Ready, nil, nil, err
	}
}

type rig struct {
	s        *xmpp.Session
	sess     net.Conn // the session's end
	peer     net.Conn
	mu       sync.Mutex
	out      bytes.Buffer
	capDone  chan struct{}
	peerQ    chan []byte
	peerWG   sync.WaitGroup
	cancel   context.CancelFunc
	lockLeft bool // finish: the output lock could not be taken
	closed   bool

	// the closing tag at the connection: write attempts (whether or not they
	// succeed), bytes the session wrote after the first attempt, and the fault:
	// from now on the connection refuses the closing tag
	fault        atomic.Bool
	tagAttempts  int
	bytesAfter   int

	// connection writes of the session
	watch        atomic.Bool // ask for the state mutex at every write
	wmu          sync.Mutex
	lockedWrites []uint64  // goroutines that entered a connection write while the state mutex was locked
	writeEntered chan bool // (stall probes) a write was entered; the value: state mutex locked

	// the peer's reading can be suspended (stall probes)
	gate   sync.Mutex
	cond   *sync.Cond
	paused bool
}

// stateLockProber is implemented by *xmpp.Session in trees that have the
// verif export VerifStateLocked; without it the harness falls back to bounded
// waits in the stall probes.
type stateLockProber interface{ VerifStateLocked() bool }

func hasStateLockProbe(s *xmpp.Session) bool {
	_, ok := interface{}(s).(stateLockProber)
	return ok
}

func (r *rig) onWrite() {
	if r.s == nil || !r.watch.Load() {
		return
	}
	locked := false
	if p, ok := interface{}(r.s).(stateLockProber); ok {
		locked = p.VerifStateLocked()
	}
	if locked {
		r.wmu.Lock()
		r.lockedWrites = append(r.lockedWrites, goid())
		r.wmu.Unlock()
	}
	select {
	case r.writeEntered <- locked:
	default:
	}
}

// pause makes the peer stop reading (a Read in progress is interrupted).
func (r *rig) pause() {
	r.gate.Lock()
	r.paused = true
	r.gate.Unlock()
	r.peer.SetReadDeadline(time.Now())
}

func (r *rig) resume() {
	r.gate.Lock()
	r.paused = false
	r.peer.SetReadDeadline(time.Time{})
	r.gate.Unlock()
	r.cond.Broadcast()
}

const (
	mark      = "<!--C10MARK-->"
	startMark = "<!--C10START-->"
	wsNS      = "urn:ietf:params:xml:ns:xmpp-framing"
)

func newRig(dlsup, recv, ws bool) (*rig, error) {
	a, b := net.Pipe()
	r := &rig{sess: a, peer: b, capDone: make(chan struct{}), peerQ: make(chan []byte, 64), writeEntered: make(chan bool, 16)}
	r.cond = sync.NewCond(&r.gate)
	hdr := `<stream:stream id="123" version="1.0" xmlns="` + nsClient + `" xmlns:stream="` + stream.NS + `">`
	rd := io.MultiReader(strings.NewReader(hdr), a)
	var rw io.ReadWriter
	if dlsup {
		rw = &watchedConn{Conn: a, r: rd, rig: r}
	} else {
		rw = plainRW{Reader: rd, Writer: watchedWriter{w: a, rig: r}}
	}
	go func() {
		defer close(r.capDone)
		buf := make([]byte, 4096)
		for {
			r.gate.Lock()
			for r.paused {
				r.cond.Wait()
			}
			r.gate.Unlock()
			n, err := b.Read(buf)
			r.mu.Lock()
			r.out.Write(buf[:n])
			r.mu.Unlock()
			if err != nil {
				if errors.Is(err, os.ErrDeadlineExceeded) {
					continue // interrupted by pause (or resumed meanwhile)
				}
				return
			}
		}
	}()
	r.peerWG.Add(1)
	go func() {
		defer r.peerWG.Done()
		for p := range r.peerQ {
			b.SetWriteDeadline(time.Now().Add(30 * time.Second))
			if _, err := b.Write(p); err != nil {
				return
			}
		}
	}()
	var err error
	if ws {
		// the real negotiation of the WebSocket subprotocol against a scripted
		// server that offers no features; what it wrote is cut off at startMark
		var wrw io.ReadWriter = &watchedConn{Conn: a, rig: r}
		if !dlsup {
			wrw = plainRW{Reader: a, Writer: watchedWriter{w: a, rig: r}}
		}
		r.peerQ <- []byte(`<open xmlns="` + wsNS + `" version="1.0" id="abc" from="example.net"/><stream:features xmlns:stream="` + stream.NS + `"/>`)
		// the context is only cancelled when the rig is closed: cancelling it as
		// soon as NewSession has returned races with the goroutine that maps the
		// context onto connection deadlines
		ctx, cancel := context.WithTimeout(context.Background(), 30*time.Second)
		r.cancel = cancel
		r.s, err = websocket.NewSession(ctx, jid.MustParse("me@example.net"), wrw)
		if err == nil {
			a.SetWriteDeadline(time.Now().Add(10 * time.Second))
			_, err = a.Write([]byte(startMark))
			a.SetWriteDeadline(time.Time{})
		}
	} else if recv {
		r.s, err = xmpp.ReceiveSession(context.Background(), rw, 0, readyNegotiator(nsClient))
	} else {
		r.s, err = xmpp.NewSession(context.Background(), jid.MustParse("example.net"), jid.MustParse("me@example.net"), rw, 0, readyNegotiator(nsClient))
	}
	if err != nil {
		r.close()
		return nil, err
	}
	return r, nil
}

// finish marks the end of the wire, drains the encoder buffer behind the mark
// and closes the pipe; it returns (wire, residual buffer).
func (r *rig) finish() (wire, residual []byte) {
	r.sess.SetWriteDeadline(time.Now().Add(10 * time.Second))
	r.sess.Write([]byte(mark))
	// every actor has returned (or waits for input): the output lock must be
	// free; a drain that cannot get it means that somebody returned holding it
	r.lockLeft = !hx.WithTimeout(watchdog/2, func() { r.s.VerifDrainOutput() })
	r.close()
	all := r.out.Bytes()
	if i := bytes.Index(all, []byte(startMark)); i >= 0 {
		all = all[i+len(startMark):]
	}
	if i := bytes.Index(all, []byte(mark)); i >= 0 {
		return append([]byte(nil), all[:i]...), append([]byte(nil), all[i+len(mark):]...)
	}
	return append([]byte(nil), all...), nil
}

func (r *rig) close() {
	if r.closed {
		return
	}
	r.closed = true
	r.watch.Store(false)
	r.resume()
	if r.cancel != nil {
		r.cancel()
	}
	close(r.peerQ)
	r.sess.Close()
	r.peer.Close()
	<-r.capDone
	r.peerWG.Wait()
}

// ---- what the actors do ----

func elemID(i int) string { return fmt.Sprintf("e%d", i) }

type msgValue struct {
	XMLName xml.Name `xml:"message"`
	ID      string   `xml:"id,attr"`
	Type    string   `xml:"type,attr,omitempty"`
}

type iqValue struct {
	XMLName xml.Name `xml:"iq"`
	ID      string   `xml:"id,attr"`
	Type    string   `xml:"type,attr"`
}

type presValue struct {
	XMLName xml.Name `xml:"presence"`
	ID      string   `xml:"id,attr"`
	Type    string   `xml:"type,attr"`
}

// writerTo is an xmlstream.WriterTo (Encode does not flush those).
type writerTo struct{ id string }

func (w writerTo) WriteXML(t xmlstream.TokenWriter) (int, error) {
	return xmlstream.Copy(t, w.TokenReader())
}
func (w writerTo) TokenReader() xml.TokenReader { return msgReader(w.id, "") }

func msgReader(id, typ string) xml.TokenReader {
	attrs := []xml.Attr{{Name: xml.Name{Local: "id"}, Value: id}}
	if typ != "" {
		attrs = append(attrs, xml.Attr{Name: xml.Name{Local: "type"}, Value: typ})
	}
	return xmlstream.Wrap(nil, xml.StartElement{Name: xml.Name{Local: "message"}, Attr: attrs})
}

var errBoom = errors.New("boom")

// handler errors that wrap io.EOF: Serve must treat them like any other handler
// error (only io.EOF itself, which the stream reader returns for the peer's
// closing element, ends Serve with nil)
var (
	errWrapEOF  = fmt.Errorf("handler: short payload: %w", io.EOF)
	errJoinEOF  = errors.Join(errBoom, io.EOF)
	handlerErrs = map[string]error{"": errBoom, "wrapeof": errWrapEOF, "eofcause": errJoinEOF}
)

type emptyReader struct{}

func (emptyReader) Token() (xml.Token, error) { return nil, io.EOF }

// APIs of the send family (all reach func send) that do not wait for a reply.
var sendAPIs = []string{"Send", "SendElement", "SendMessage", "SendMessageElement", "EncodeMessage", "EncodeMessageElement",
	"SendIQ", "SendIQElement", "EncodeIQ", "EncodeIQElement", "SendPresence", "SendPresenceElement", "EncodePresence", "EncodePresenceElement"}

// APIs of the send family that wait for a reply once the element is out; used
// only behind a completed Close, where they must fail at once.
var waitingAPIs = []string{"SendIQ/get", "UnmarshalIQ", "IterIQ", "SendMessage/chat", "SendPresence/probe", "UnmarshalIQElement", "IterIQElement"}

// call runs the entry point of a transmit / close / deadline / probe actor.
func (r *rig) call(a Actor, idx int, deadline time.Time) error {
	s := r.s
	ctx := context.Background()
	id := elemID(idx)
	switch a.Kind {
	case "close":
		return s.Close()
	case "setdeadline":
		return s.SetCloseDeadline(deadline)
	case "probe":
		rc := s.TokenReader()
		_, err := rc.Token()
		rc.Close()
		return err
	case "encode":
		return s.Encode(ctx, msgValue{ID: id})
	case "encodenf":
		return s.Encode(ctx, writerTo{id: id})
	case "encodeelement":
		return s.EncodeElement(ctx, msgValue{ID: id}, xml.StartElement{Name: xml.Name{Local: "message"}, Attr: []xml.Attr{{Name: xml.Name{Local: "id"}, Value: id}}})
	case "tokenwriter":
		w := s.TokenWriter()
		start := xml.StartElement{Name: xml.Name{Local: "message"}, Attr: []xml.Attr{{Name: xml.Name{Local: "id"}, Value: id}}}
		e1 := w.EncodeToken(start)
		e2 := w.EncodeToken(start.End())
		e3 := w.Close()
		for _, e := range []error{e1, e2, e3} {
			if e != nil {
				return e
			}
		}
		return nil
	case "send":
		return r.sendAPI(a.API, id)
	}
	return fmt.Errorf("harness: unknown actor kind %q", a.Kind)
}

func (r *rig) sendAPI(api, id string) error {
	s := r.s
	ctx := context.Background()
	var err error
	switch api {
	case "", "Send":
		return s.Send(ctx, msgReader(id, ""))
	case "SendElement":
		return s.SendElement(ctx, emptyReader{}, xml.StartElement{Name: xml.Name{Local: "message"}, Attr: []xml.Attr{{Name: xml.Name{Local: "id"}, Value: id}}})
	case "SendMessage":
		_, err = s.SendMessage(ctx, msgReader(id, "error"))
	case "SendMessageElement":
		_, err = s.SendMessageElement(ctx, nil, stanza.Message{ID: id, Type: stanza.ErrorMessage})
	case "EncodeMessage":
		_, err = s.EncodeMessage(ctx, msgValue{ID: id, Type: "error"})
	case "EncodeMessageElement":
		_, err = s.EncodeMessageElement(ctx, nil, stanza.Message{ID: id, Type: stanza.ErrorMessage})
	case "SendIQ":
		_, err = s.SendIQ(ctx, stanza.IQ{ID: id, Type: stanza.ResultIQ}.Wrap(nil))
	case "SendIQElement":
		_, err = s.SendIQElement(ctx, nil, stanza.IQ{ID: id, Type: stanza.ResultIQ})
	case "EncodeIQ":
		_, err = s.EncodeIQ(ctx, iqValue{ID: id, Type: "result"})
	case "EncodeIQElement":
		_, err = s.EncodeIQElement(ctx, nil, stanza.IQ{ID: id, Type: stanza.ResultIQ})
	case "SendPresence":
		_, err = s.SendPresence(ctx, stanza.Presence{ID: id, Type: stanza.ErrorPresence}.Wrap(nil))
	case "SendPresenceElement":
		_, err = s.SendPresenceElement(ctx, nil, stanza.Presence{ID: id, Type: stanza.ErrorPresence})
	case "EncodePresence":
		_, err = s.EncodePresence(ctx, presValue{ID: id, Type: "error"})
	case "EncodePresenceElement":
		_, err = s.EncodePresenceElement(ctx, nil, stanza.Presence{ID: id, Type: stanza.ErrorPresence})
	// waiting variants: bounded by a context so that an implementation that
	// writes instead of failing cannot wedge the harness
	case "SendIQ/get", "UnmarshalIQ", "IterIQ", "UnmarshalIQElement", "IterIQElement", "SendMessage/chat", "SendPresence/probe":
		wctx, cancel := context.WithTimeout(ctx, 300*time.Millisecond)
		defer cancel()
		iq := stanza.IQ{ID: id, Type: stanza.GetIQ}
		switch api {
		case "SendIQ/get":
			_, err = s.SendIQ(wctx, iq.Wrap(nil))
		case "UnmarshalIQ":
			err = s.UnmarshalIQ(wctx, iq.Wrap(nil), &struct{}{})
		case "UnmarshalIQElement":
			err = s.UnmarshalIQElement(wctx, nil, iq, &struct{}{})
		case "IterIQ":
			_, _, err = s.IterIQ(wctx, iq.Wrap(nil))
		case "IterIQElement":
			_, _, err = s.IterIQElement(wctx, nil, iq)
		case "SendMessage/chat":
			_, err = s.SendMessage(wctx, msgReader(id, "chat"))
		case "SendPresence/probe":
			_, err = s.SendPresence(wctx, stanza.Presence{ID: id, Type: stanza.ProbePresence}.Wrap(nil))
		}
	default:
		return fmt.Errorf("harness: unknown send API %q", api)
	}
	return err
}

// peerBytes renders what the peer writes; elem events carry the id that the
// reply (the handler's, or Serve's default error reply to an IQ) will have.
func peerBytes(ev *Pev, idx int, ws bool) []byte {
	// without an enclosing <stream:stream> (WebSocket framing: every frame is a
	// document of its own) the name spaces are declared on the element
	sns, cns := "", ""
	if ws {
		sns, cns = ` xmlns:stream='`+stream.NS+`'`, ` xmlns='`+nsClient+`'`
	}
	switch ev.Type {
	case "close":
		if ws {
			return []byte(`<close xmlns="` + wsNS + `"/>`)
		}
		return []byte(`</stream:stream>`)
	case "error":
		switch ev.Form {
		case "text":
			return []byte(`<stream:error` + sns + `><host-gone xmlns='urn:ietf:params:xml:ns:xmpp-streams'/><text xmlns='urn:ietf:params:xml:ns:xmpp-streams'>bye</text></stream:error>`)
		}
		return []byte(`<stream:error` + sns + `><not-authorized xmlns='urn:ietf:params:xml:ns:xmpp-streams'/></stream:error>`)
	case "bad":
		switch ev.Form {
		case "unknown":
			return []byte(`<stream:unknown` + sns + `/>`)
		case "procinst":
			return []byte(`<?x y?>`)
		case "chardata":
			return []byte(`x<a/>`)
		case "restart":
			if ws {
				return []byte(`<open xmlns="` + wsNS + `" version="1.0"/>`)
			}
			return []byte(`<stream:stream>`)
		}
		return []byte(`<!-- c -->`)
	case "elem":
		if ev.Form == "iq" {
			return []byte(`<iq` + cns + ` type='get' id='` + elemID(idx) + `'><q xmlns='urn:x'/></iq>`)
		}
		return []byte(`<message` + cns + ` id='p` + fmt.Sprint(idx) + `'><body>hi</body></message>`)
	}
	return nil
}

// handler implements the peer-chosen behaviours: the element's id encodes the
// actor index; the behaviour table is consulted by index.
type handler struct {
	mu      sync.Mutex
	behave  map[string]*Pev // by element id
	idx     map[string]int
	handled []string // ids of the elements the handler has been called for (and has dealt with)
}

func (h *handler) HandleXMPP(t xmlstream.TokenReadEncoder, start *xml.StartElement) error {
	var id string
	for _, a := range start.Attr {
		if a.Name.Local == "id" {
			id = a.Value
		}
	}
	h.mu.Lock()
	ev := h.behave[id]
	idx := h.idx[id]
	h.mu.Unlock()
	if ev == nil {
		return nil
	}
	h.mu.Lock()
	h.handled = append(h.handled, id)
	h.mu.Unlock()
	if ev.Reply && ev.Form != "iq" {
		st := xml.StartElement{Name: xml.Name{Local: "message"}, Attr: []xml.Attr{{Name: xml.Name{Local: "id"}, Value: elemID(idx)}}}
		if err := t.EncodeToken(st); err != nil {
			return err
		}
		if err := t.EncodeToken(st.End()); err != nil {
			return err
		}
	}
	if ev.Fail {
		return handlerErrs[ev.Err]
	}
	return nil
}

// ---- classification of return values (err of coq/C10/Model.v) ----

func classify(err error) string {
	var se stream.Error
	switch {
	case err == nil:
		return "ENil"
	case errors.Is(err, xmpp.ErrOutputStreamClosed):
		return "EOutClosed"
	case errors.Is(err, xmpp.ErrInputStreamClosed):
		return "EInClosed"
	case errors.Is(err, context.DeadlineExceeded):
		return "ECtxDeadline"
	case errors.Is(err, context.Canceled):
		return "ECtxCanceled"
	case errors.Is(err, os.ErrDeadlineExceeded):
		return "ETimeout"
	case errors.Is(err, errWriteFault):
		return "EWrite"
	case errors.Is(err, errBoom), err == errWrapEOF:
		return "EHandler"
	case errors.As(err, &se):
		return "EStream"
	}
	return "EBad"
}
