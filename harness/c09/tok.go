package main

// Token-level view of wire bytes (exactly what the library's readers yield)
// and its rendering as Coq terms of lib/Xml.v `token`.

import (
	"bytes"
	"encoding/xml"
	"fmt"
	"io"
	"strings"

	"mellium.im/xmpp"
	"mellium.im/xmpp/stream"

	"verifharness/hx"
)

const contentNS = "jabber:client"

var streamHdr = `<stream:stream id="123" version="1.0" xmlns="` + contentNS + `" xmlns:stream="` + stream.NS + `">`

// wireElement tokenises the first top-level element of b as a served session
// sees it (same decoder, same stream-level filter): the tokens up to and
// including the element's end tag, and whether the sequence ended cleanly
// (true) or with a decoder/stream error (false).
func wireElement(b []byte) (toks []xml.Token, clean bool) {
	// an element that is still open when the bytes end is cut by the peer's
	// closing stream tag (the harness sends it right after such an element)
	d := xml.NewDecoder(io.MultiReader(strings.NewReader(streamHdr), bytes.NewReader(b), strings.NewReader("</stream:stream>")))
	if _, err := d.Token(); err != nil {
		return nil, false
	}
	r := xmpp.VerifStreamReader(d, false)
	depth := 0
	for {
		t, err := r.Token()
		if err != nil {
			return toks, false
		}
		t = xml.CopyToken(t)
		switch t.(type) {
		case xml.StartElement:
			depth++
		case xml.EndElement:
			depth--
		case xml.CharData:
			if depth == 0 {
				continue // keep-alive white space between elements
			}
		}
		toks = append(toks, t)
		if depth == 0 {
			return toks, true
		}
	}
}

func clip(b []byte, n int) []byte {
	if len(b) > n {
		return b[:n]
	}
	return b
}

func coqName(n xml.Name) string {
	return "(mkname " + hx.CoqBytes(clip([]byte(n.Space), 96)) + " " + hx.CoqBytes(clip([]byte(n.Local), 96)) + ")"
}

func coqAttrs(as []xml.Attr) string {
	var sb strings.Builder
	sb.WriteString("[")
	for i, a := range as {
		if i > 0 {
			sb.WriteString("; ")
		}
		if i >= 12 { // the models look at named attributes only; keep terms bounded
			break
		}
		sb.WriteString("mkattr " + coqName(a.Name) + " " + hx.CoqBytes(clip([]byte(a.Value), 64)))
	}
	sb.WriteString("]")
	return strings.Replace(sb.String(), "; ]", "]", 1)
}

func coqToken(t xml.Token) string {
	switch x := t.(type) {
	case xml.StartElement:
		return "TStart " + coqName(x.Name) + " " + coqAttrs(x.Attr)
	case xml.EndElement:
		return "TEnd " + coqName(x.Name)
	case xml.CharData:
		return "TChar " + hx.CoqBytes(clip([]byte(x), 24))
	case xml.Comment:
		return "TMisc 0%nat " + hx.CoqBytes(clip([]byte(x), 24))
	case xml.ProcInst:
		return "TMisc 1%nat " + hx.CoqBytes(clip([]byte(x.Target), 24))
	case xml.Directive:
		return "TMisc 2%nat " + hx.CoqBytes(clip([]byte(x), 24))
	}
	return "TMisc 3%nat (B 0%nat [])"
}

// coqReader renders a token reader: the tokens it yields and how it ends.
func coqReader(toks []xml.Token, clean bool) string {
	var sb strings.Builder
	sb.WriteString("(mkrd [")
	for i, t := range toks {
		if i > 0 {
			sb.WriteString("; ")
		}
		sb.WriteString(coqToken(t))
	}
	if clean {
		sb.WriteString("] TmEOF)")
	} else {
		sb.WriteString("] TmErr)")
	}
	return sb.String()
}

func tokSummary(toks []xml.Token, clean bool) string {
	var sb strings.Builder
	for _, t := range toks {
		switch x := t.(type) {
		case xml.StartElement:
			fmt.Fprintf(&sb, "<%s>", x.Name.Local)
		case xml.EndElement:
			sb.WriteString("</>")
		case xml.CharData:
			sb.WriteString("T")
		default:
			sb.WriteString("?")
		}
	}
	if !clean {
		sb.WriteString("!")
	}
	return sb.String()
}
