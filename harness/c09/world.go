package main

// A served session whose multiplexer carries every extension handler of the
// library, with optional taps that record, per handler invocation, exactly the
// tokens the handler can read and how the invocation ended.

import (
	"context"
	"encoding/xml"
	"fmt"
	"io"
	"net"
	"regexp"
	"runtime"
	"runtime/debug"
	"strings"
	"sync"
	"sync/atomic"
	"time"

	"mellium.im/xmlstream"
	"mellium.im/xmpp"
	"mellium.im/xmpp/bin"
	"mellium.im/xmpp/blocklist"
	"mellium.im/xmpp/carbons"
	"mellium.im/xmpp/disco"
	"mellium.im/xmpp/disco/info"
	"mellium.im/xmpp/history"
	"mellium.im/xmpp/ibb"
	"mellium.im/xmpp/jid"
	"mellium.im/xmpp/muc"
	"mellium.im/xmpp/mux"
	"mellium.im/xmpp/ping"
	"mellium.im/xmpp/receipts"
	"mellium.im/xmpp/roster"
	"mellium.im/xmpp/stanza"
	"mellium.im/xmpp/version"
	"mellium.im/xmpp/xtime"

	"verifharness/hx"
)

var (
	localJID  = jid.MustParse("me@example.net/res")
	remoteJID = jid.MustParse("example.net")
	roomJID   = jid.MustParse("room@muc.example.net/nick")
)

const watchdog = 15 * time.Second

// ---- panics with their stack ----

type rePanic struct {
	msg   string
	stack string
}

// catchStack runs f; a panic is returned with the stack of the panicking
// goroutine at the point of the panic.
func catchStack(f func()) (p string, stack string) {
	defer func() {
		if r := recover(); r != nil {
			if rp, is := r.(rePanic); is {
				p, stack = rp.msg, rp.stack
				return
			}
			p, stack = fmt.Sprint(r), string(debug.Stack())
		}
	}()
	f()
	return "", ""
}

var frameRe = regexp.MustCompile(`(?m)^(mellium\.im/xmpp[^\s(]*(?:\(\*?[A-Za-z0-9_]+\))?[^\s(]*)\(.*\n\s+(\S+?):(\d+)`)

// libFrame returns "<pkgdir/file.go>:<Func>" of the first frame of the trace
// that is in the library (skipping runtime, encoding/xml, the harness...).
func libFrame(stack string) string {
	for _, m := range frameRe.FindAllStringSubmatch(stack, -1) {
		fn, file := m[1], m[2]
		if strings.HasPrefix(fn, "mellium.im/xmpp/internal/verifhook") || strings.Contains(fn, ".Must") {
			continue // Must* helpers panic by design: the frame of interest is their caller
		}
		rest := strings.TrimPrefix(fn, "mellium.im/xmpp")
		pkg, name := "", strings.TrimPrefix(rest, ".")
		if strings.HasPrefix(rest, "/") {
			head := rest
			if i := strings.Index(head, "("); i >= 0 {
				head = head[:i]
			}
			k := strings.LastIndex(head, "/")
			dot := k + strings.Index(rest[k:], ".")
			pkg, name = rest[1:dot], rest[dot+1:]
		}
		name = strings.NewReplacer("(*", "", ")", "", "(", "").Replace(name)
		if i := strings.Index(name, ".func"); i >= 0 { // closures belong to their function
			name = name[:i]
		}
		base := file[strings.LastIndex(file, "/")+1:]
		if pkg != "" {
			return pkg + "/" + base + ":" + name
		}
		return base + ":" + name
	}
	return "unknown"
}

// goroutineWith returns the stack of the first goroutine whose trace contains
// marker ("" if none).
func goroutineWith(marker string) string {
	buf := make([]byte, 8<<20)
	n := runtime.Stack(buf, true)
	for _, g := range strings.Split(string(buf[:n]), "\n\n") {
		if strings.Contains(g, marker) {
			return g
		}
	}
	return ""
}

// ---- handler invocations recorded by the taps ----

type Inv struct {
	Comp  string
	Env   envT
	Start xml.StartElement
	Toks  []xml.Token
	Clean bool
	Class string // ok | err | panic | blocked
}

type envT struct {
	Tracked []string // history: query ids being tracked
	Ready   bool     // a partner for the handler's hand-over is there (consumer / released iterator)
	Type    string   // stanza type as the multiplexer parsed it
	OK      bool     // an oracle's answer where the case needs one
	Full    bool     // the session's local address is a full JID
	Hist    []string // application-side history (constructors of the model's aop)
	Match   bool     // ibb: the <open/> is for the session Expect was called for
}

type tapLog struct {
	mu   sync.Mutex
	invs []*Inv
}

func (l *tapLog) begin(v *Inv) {
	l.mu.Lock()
	v.Class = "blocked" // until it returns
	l.invs = append(l.invs, v)
	l.mu.Unlock()
}

func (l *tapLog) end(v *Inv, class string) {
	l.mu.Lock()
	v.Class = class
	l.mu.Unlock()
}

func (l *tapLog) snapshot() []Inv {
	l.mu.Lock()
	defer l.mu.Unlock()
	out := make([]Inv, len(l.invs))
	for i, v := range l.invs {
		out[i] = *v
	}
	return out
}

type replay struct {
	toks []xml.Token
	i    int
	term error
}

func (r *replay) Token() (xml.Token, error) {
	if r.i < len(r.toks) {
		r.i++
		return r.toks[r.i-1], nil
	}
	return nil, r.term
}

func preread(r xml.TokenReader) ([]xml.Token, error) {
	var toks []xml.Token
	for {
		t, err := r.Token()
		if t != nil {
			toks = append(toks, xml.CopyToken(t))
		}
		if err != nil {
			return toks, err
		}
		if len(toks) > 200000 {
			return toks, io.ErrUnexpectedEOF
		}
	}
}

type tapped struct {
	xml.TokenReader
	xmlstream.Encoder
}

func (w *world) run(comp string, start *xml.StartElement, typ string, ok bool, r xmlstream.TokenReadEncoder, f func(xmlstream.TokenReadEncoder) error) error {
	toks, term := preread(r)
	v := &Inv{Comp: comp, Toks: toks, Clean: term == io.EOF, Env: w.envFor(comp, typ)}
	v.Env.OK = ok
	if comp == "HIbbIQ" && start != nil {
		v.Env.Match = w.expectedOpen(start)
	}
	if start != nil {
		v.Start = start.Copy()
	}
	w.log.begin(v)
	var err error
	p, st := catchStack(func() { err = f(tapped{TokenReader: &replay{toks: toks, term: term}, Encoder: r}) })
	switch {
	case p != "":
		w.log.end(v, "panic")
		panic(rePanic{p, st})
	case err != nil:
		w.log.end(v, "err")
	default:
		w.log.end(v, "ok")
		// what the handler did to the state it keeps between stanzas
		switch comp {
		case "HReceipts":
			if receiptFor(toks) == "r1" {
				w.note("ARSignal") // ignored by the model when no message awaits that receipt
			}
		case "HIbbIQ":
			w.stMu.Lock()
			lstOpen := w.lstOpen
			w.stMu.Unlock()
			if v.Env.Match && ok && lstOpen && start != nil && start.Name.Local == "open" {
				w.note("AEOpen")
			}
		}
	}
	return err
}

// receiptFor returns the id of the receipt the handler acts on: the first
// child element of the message named received or request decides.
func receiptFor(toks []xml.Token) string {
	depth := 0
	for _, t := range toks {
		switch x := t.(type) {
		case xml.StartElement:
			depth++
			if depth == 2 {
				switch x.Name.Local {
				case "request":
					return ""
				case "received":
					for _, a := range x.Attr {
						if a.Name.Local == "id" {
							return a.Value
						}
					}
					return ""
				}
			}
		case xml.EndElement:
			depth--
		}
	}
	return ""
}

// expectedOpen: the <open/> (or <close/>) is for the session (from peerJID, sid
// s1) the harness's Expect calls wait for (the local Write is on).
func (w *world) expectedOpen(start *xml.StartElement) bool {
	if start.Name.Local != "open" && start.Name.Local != "close" {
		return false
	}
	for _, a := range start.Attr {
		if a.Name.Local == "sid" {
			return a.Value == "s1" && w.lastFrom == peerJID
		}
	}
	return false
}

type msgTap struct {
	comp string
	h    mux.MessageHandler
	w    *world
}

func (t msgTap) HandleMessage(m stanza.Message, r xmlstream.TokenReadEncoder) error {
	return t.w.run(t.comp, nil, string(m.Type), true, r, func(rr xmlstream.TokenReadEncoder) error { return t.h.HandleMessage(m, rr) })
}

func (t msgTap) ForFeatures(node string, f func(info.Feature) error) error {
	if fi, ok := t.h.(info.FeatureIter); ok {
		return fi.ForFeatures(node, f)
	}
	return nil
}

type presTap struct {
	comp string
	h    mux.PresenceHandler
	w    *world
}

func (t presTap) HandlePresence(p stanza.Presence, r xmlstream.TokenReadEncoder) error {
	// the occupant the application-side history is about is roomJID
	ours := p.From.String() == roomJID.String()
	err := t.w.run(t.comp, nil, string(p.Type), ours, r, func(rr xmlstream.TokenReadEncoder) error { return t.h.HandlePresence(p, rr) })
	if err == nil && ours && p.Type == stanza.UnavailablePresence {
		t.w.note("AMDepart") // ignored by the model when the occupant was not managed
	}
	return err
}

type iqTap struct {
	comp string
	h    mux.IQHandler
	w    *world
}

func (t iqTap) HandleIQ(iq stanza.IQ, r xmlstream.TokenReadEncoder, start *xml.StartElement) error {
	if strings.HasPrefix(iq.ID, "bar-") {
		return t.h.HandleIQ(iq, r, start) // the harness's own barrier ping: not a case
	}
	// ibb looks its listener up under the address the request is sent to
	toLocal := iq.To.String() == t.w.sess.LocalAddr().String()
	t.w.lastFrom = iq.From.String()
	return t.w.run(t.comp, start, string(iq.Type), toLocal, r, func(rr xmlstream.TokenReadEncoder) error { return t.h.HandleIQ(iq, rr, start) })
}

func (t iqTap) ForFeatures(node string, f func(info.Feature) error) error {
	if fi, ok := t.h.(info.FeatureIter); ok {
		return fi.ForFeatures(node, f)
	}
	return nil
}

// ---- the world ----

type world struct {
	pipe *hx.Pipe
	sess *xmpp.Session
	mux  *mux.ServeMux
	log  *tapLog
	ctx  context.Context
	stop context.CancelFunc

	hist *history.Handler
	rcpt *receipts.Handler
	ibbh *ibb.Handler
	mucc *muc.Client

	stMu        sync.Mutex
	histIDs     []string
	histReady   bool
	ibbNoAccept bool
	ahist       []string // application-side history

	local      jid.JID
	lst        *ibb.Listener
	lstOpen    bool
	conns      []net.Conn
	expCancel  context.CancelFunc
	mucCh      chan *muc.Channel
	mucChan    *muc.Channel
	hit        *history.Iter
	rcptCancel context.CancelFunc
	nbar       int
	lastFrom   string
	nilCB      bool // handlers are constructed with their optional callbacks left nil
	gate       *gatedConn
	expLive    int32 // Expect calls that have not returned

	done       chan struct{}
	servePanic string
	serveStack string
	serveErr   error
}

// note records an application-side event in the history the model sees.
func (w *world) note(ev string) {
	w.stMu.Lock()
	w.ahist = append(w.ahist, ev)
	w.stMu.Unlock()
}

func (w *world) envFor(comp, typ string) envT {
	w.stMu.Lock()
	defer w.stMu.Unlock()
	ready := true
	tracked := append([]string(nil), w.histIDs...)
	switch comp {
	case "HReceipts":
		tracked = []string{"r1"} // the id the harness's SendMessage calls use
	case "HHistory":
		ready = w.histReady || len(w.histIDs) == 0
	case "HIbbIQ":
		ready = !w.ibbNoAccept
	}
	return envT{Tracked: tracked, Ready: ready, Type: typ, OK: true,
		Full: w.local.Resourcepart() != "", Hist: append([]string(nil), w.ahist...)}
}

func drain(r xml.TokenReader) {
	if r == nil {
		return
	}
	for i := 0; i < 1<<20; i++ {
		if _, err := r.Token(); err != nil {
			return
		}
	}
}

func (w *world) options(tap bool) []mux.Option {
	w.hist = history.NewHandler(mux.MessageHandlerFunc(func(m stanza.Message, r xmlstream.TokenReadEncoder) error {
		drain(r)
		return nil
	}))
	w.rcpt = &receipts.Handler{Unhandled: func(string) {}}
	if w.nilCB {
		w.rcpt = &receipts.Handler{} // every optional callback left nil
	}
	w.ibbh = &ibb.Handler{}
	w.mucc = &muc.Client{HandleInvite: func(muc.Invitation) {}, HandleUserPresence: func(stanza.Presence, muc.Item) {}}
	if w.nilCB {
		w.mucc = &muc.Client{}
	}
	rost := roster.Handler{Push: func(ver string, item roster.Item) error {
		if item.Name == "refuse" {
			return stanza.Error{Type: stanza.Cancel, Condition: stanza.NotAllowed}
		}
		return nil
	}}
	carb := carbons.Handler{F: func(m stanza.Message, sent bool, inner xml.TokenReader) error {
		drain(inner)
		return nil
	}}
	blk := blocklist.Handler{
		Block: func(blocklist.Item) {}, Unblock: func(jid.JID) {}, UnblockAll: func() {},
		List: func(c chan<- jid.JID) { c <- remoteJID; c <- localJID.Bare() },
	}
	xt := xtime.Handler{TimeFunc: func() time.Time { return time.Unix(1700000000, 0).UTC() }}
	if w.nilCB {
		xt = xtime.Handler{}
		blk = blocklist.Handler{}
		w.hist = history.NewHandler(nil)
	}
	ver := version.Query{Name: "verif", Version: "1", OS: "none"}
	common := []mux.Option{
		disco.Handle(),
		disco.HandleCaps(func(stanza.Presence, disco.Caps) {}),
		muc.HandleInvite(func(muc.Invitation) {}),
		version.Handle(ver),
		bin.Handle(bin.Handler{}),
	}
	if !tap {
		return append(common,
			ibb.Handle(w.ibbh), history.Handle(w.hist), receipts.Handle(w.rcpt), muc.HandleClient(w.mucc),
			ping.Handle(), xtime.Handle(xt), roster.Handle(rost), carbons.Handle(carb), blocklist.Handle(blk))
	}
	// the same registrations as the packages' Handle options, with a tap around each handler
	mt := func(c string, h mux.MessageHandler) mux.MessageHandler { return msgTap{c, h, w} }
	it := func(c string, h mux.IQHandler) mux.IQHandler { return iqTap{c, h, w} }
	ibbData := xml.Name{Space: ibb.NS, Local: "data"}
	userX := xml.Name{Space: muc.NSUser, Local: "x"}
	rcvd := xml.Name{Space: receipts.NS, Local: "received"}
	req := xml.Name{Space: receipts.NS, Local: "request"}
	crecv := xml.Name{Space: carbons.NS, Local: "received"}
	csent := xml.Name{Space: carbons.NS, Local: "sent"}
	opts := append(common,
		mux.Message(stanza.NormalMessage, ibbData, mt("HIbbMsg", w.ibbh)),
		mux.IQ(stanza.SetIQ, ibbData, it("HIbbIQ", w.ibbh)),
		mux.IQ(stanza.SetIQ, xml.Name{Space: ibb.NS, Local: "open"}, it("HIbbIQ", w.ibbh)),
		mux.IQ(stanza.SetIQ, xml.Name{Space: ibb.NS, Local: "close"}, it("HIbbIQ", w.ibbh)),
		mux.Message(stanza.NormalMessage, xml.Name{Space: history.NS, Local: "result"}, mt("HHistory", w.hist)),
		mux.Presence(stanza.AvailablePresence, userX, presTap{"HMucPres", w.mucc, w}),
		mux.Presence(stanza.UnavailablePresence, userX, presTap{"HMucPres", w.mucc, w}),
		mux.Message(stanza.NormalMessage, userX, mt("HMucMsg", w.mucc)),
		mux.IQ(stanza.GetIQ, xml.Name{Local: "ping", Space: ping.NS}, it("HPing", ping.Handler{})),
		mux.IQ(stanza.GetIQ, xml.Name{Local: "time", Space: xtime.NS}, it("HXtime", xt)),
		mux.IQ(stanza.SetIQ, xml.Name{Local: "query", Space: roster.NS}, it("HRoster", rost)),
		mux.IQ(stanza.GetIQ, xml.Name{Space: blocklist.NS, Local: "blocklist"}, it("HBlocklist", blk)),
		mux.IQ(stanza.SetIQ, xml.Name{Space: blocklist.NS, Local: "block"}, it("HBlocklist", blk)),
		mux.IQ(stanza.SetIQ, xml.Name{Space: blocklist.NS, Local: "unblock"}, it("HBlocklist", blk)),
	)
	for _, typ := range []stanza.MessageType{stanza.NormalMessage, stanza.ChatMessage, stanza.HeadlineMessage, stanza.GroupChatMessage} {
		opts = append(opts, mux.Message(typ, rcvd, mt("HReceipts", w.rcpt)), mux.Message(typ, req, mt("HReceipts", w.rcpt)))
	}
	opts = append(opts, mux.Message(stanza.ErrorMessage, rcvd, mt("HReceipts", w.rcpt)))
	for _, typ := range []stanza.MessageType{stanza.NormalMessage, stanza.ChatMessage} {
		opts = append(opts, mux.Message(typ, crecv, mt("HCarbons", carb)), mux.Message(typ, csent, mt("HCarbons", carb)))
	}
	return opts
}

// newWorld builds the session and starts Serve (under a recover).
func newWorld(tap bool, bare bool, nilCB ...bool) (*world, error) {
	w := &world{pipe: hx.NewPipe(), log: &tapLog{}, done: make(chan struct{}), local: localJID, mucCh: make(chan *muc.Channel, 8)}
	w.nilCB = len(nilCB) > 0 && nilCB[0]
	if bare {
		w.local = localJID.Bare()
	}
	w.ctx, w.stop = context.WithCancel(context.Background())
	var regPanic string
	regPanic = hx.Catch(func() { w.mux = mux.New(contentNS, w.options(tap)...) })
	if regPanic != "" {
		return nil, fmt.Errorf("registration panicked: %s", regPanic)
	}
	w.gate = &gatedConn{Conn: w.pipe.Sess}
	s, err := hx.NewReadySession(w.gate, contentNS, 0, remoteJID, w.local) // (location, origin): LocalAddr() is w.local
	if err != nil {
		return nil, err
	}
	w.sess = s
	go func() {
		defer close(w.done)
		w.servePanic, w.serveStack = catchStack(func() { w.serveErr = serveMarker(s, w.mux) })
	}()
	return w, nil
}

// serveMarker only exists to give the serving goroutine a recognisable frame.
//
//go:noinline
func serveMarker(s *xmpp.Session, h xmpp.Handler) error { return s.Serve(h) }

func (w *world) waitServe(d time.Duration) bool {
	select {
	case <-w.done:
		return true
	case <-time.After(d):
		return false
	}
}

// gatedConn lets the harness hold back what the session writes (the peer stops
// reading for a while): writers park in Write until the gate is released.
type gatedConn struct {
	net.Conn
	mu      sync.Mutex
	hold    chan struct{}
	waiting int32
}

func (g *gatedConn) Write(b []byte) (int, error) {
	g.mu.Lock()
	h := g.hold
	g.mu.Unlock()
	if h != nil {
		atomic.AddInt32(&g.waiting, 1)
		<-h
		atomic.AddInt32(&g.waiting, -1)
	}
	return g.Conn.Write(b)
}

func (g *gatedConn) holdWrites() {
	g.mu.Lock()
	if g.hold == nil {
		g.hold = make(chan struct{})
	}
	g.mu.Unlock()
}

func (g *gatedConn) release() {
	g.mu.Lock()
	if g.hold != nil {
		close(g.hold)
		g.hold = nil
	}
	g.mu.Unlock()
}

func (w *world) close() {
	w.stop()
	if w.gate != nil {
		w.gate.release()
	}
	w.pipe.Peer.Close()
	w.pipe.Sess.Close()
}
