package main

// Running one case against the real library: a served session fed a stanza
// sequence, a request helper driven against a scripted replying peer, or a
// token-level library function.

import (
	"context"
	"encoding/xml"
	"errors"
	"fmt"
	"os"
	"strings"
	"sync"
	"sync/atomic"
	"time"

	"mellium.im/xmpp/blocklist"
	"mellium.im/xmpp/bookmarks"
	"mellium.im/xmpp/carbons"
	"mellium.im/xmpp/commands"
	"mellium.im/xmpp/delay"
	"mellium.im/xmpp/disco"
	"mellium.im/xmpp/disco/items"
	"mellium.im/xmpp/forward"
	"mellium.im/xmpp/history"
	"mellium.im/xmpp/jid"
	"mellium.im/xmpp/muc"
	"mellium.im/xmpp/ping"
	"mellium.im/xmpp/pubsub"
	"mellium.im/xmpp/roster"
	"mellium.im/xmpp/stanza"
	"mellium.im/xmpp/upload"
	"mellium.im/xmpp/version"
	"mellium.im/xmpp/xtime"

	"verifharness/hx"
)

type Case struct {
	Kind    string   `json:"kind"` // serve | helper | func
	Tap     bool     `json:"tap,omitempty"`
	Setup   []string `json:"setup,omitempty"`
	Bare    bool     `json:"bare,omitempty"`  // the session's local address is a bare JID
	NilCB   bool     `json:"nilcb,omitempty"` // handlers constructed with their optional callbacks nil
	Seq     []string `json:"seq,omitempty"`
	End     string   `json:"end,omitempty"` // close | eof
	Helper  string   `json:"helper,omitempty"`
	Replies []string `json:"replies,omitempty"`
	Func    string   `json:"func,omitempty"`
	Par     int      `json:"par,omitempty"` // flood: number of application goroutines
	Labels  []string `json:"labels,omitempty"`
}

type Fail struct {
	Key  string `json:"key"`
	What string `json:"what"`
}

type Obs struct {
	Class   string   `json:"class"`
	Detail  string   `json:"detail,omitempty"`
	Fails   []Fail   `json:"fails,omitempty"`
	Terms   []string `json:"terms,omitempty"` // Coq case terms
	Descs   []string `json:"descs,omitempty"` // one description per term
	Classes []string `json:"classes,omitempty"`
	NonTriv bool     `json:"nontriv"`
}

func (o *Obs) fail(key, what string) { o.Fails = append(o.Fails, Fail{key, what}) }

func has(list []string, s string) bool {
	for _, x := range list {
		if x == s {
			return true
		}
	}
	return false
}

// send writes b to the session unless Serve ends first. It reports whether the
// bytes were taken (false: Serve ended, or nothing read them before the
// watchdog expired).
func (w *world) send(b []byte) (taken bool, served bool) {
	select {
	case <-w.done:
		return false, true
	default:
	}
	res := make(chan error, 1)
	w.pipe.Peer.SetWriteDeadline(time.Now().Add(watchdog))
	go func() {
		_, err := w.pipe.Peer.Write(b)
		res <- err
	}()
	select {
	case err := <-res:
		return err == nil, false
	case <-w.done:
		w.pipe.Peer.SetWriteDeadline(time.Now())
		<-res
		return false, true
	}
}

// ---- scripted peer: answers every get/set IQ the session sends ----

func (w *world) scriptedPeer(replies []string, stop <-chan struct{}) {
	answered := 0
	for {
		select {
		case <-stop:
			return
		case <-w.done:
			return
		default:
		}
		els, _, _, _ := hx.ParseTopLevel(w.pipe.Written(), contentNS)
		n := 0
		for _, e := range els {
			typ, _ := e.Attr("type")
			if e.Local != "iq" || (typ != "get" && typ != "set") {
				continue
			}
			n++
			if n <= answered {
				continue
			}
			answered = n
			id, _ := e.Attr("id")
			rep := errReply
			if n-1 < len(replies) {
				rep = replies[n-1]
			}
			rep = strings.ReplaceAll(rep, "{ID}", esc(id))
			_, clean := wireElement([]byte(rep))
			if !clean {
				// damaged reply: make sure it ends (an element left open would
				// just make the session wait for more input)
				rep += "</stream:stream>"
			}
			taken, _ := w.send([]byte(rep))
			if !clean {
				// ... and that the input really ends: an unterminated comment,
				// processing instruction or attribute value would swallow the tag
				w.pipe.Peer.Close()
			}
			if !taken {
				return
			}
		}
		time.Sleep(300 * time.Microsecond)
	}
}

// ---- state set up before the sequence is fed ----

func (w *world) setup(ops []string) {
	for _, op := range ops {
		switch op {
		case "hist-consumer", "hist-noconsumer", "hist-closer":
			it := w.hist.Fetch(w.ctx, history.Query{ID: "q1"}, remoteJID, w.sess)
			w.stMu.Lock()
			w.histIDs = append(w.histIDs, "q1")
			w.histReady = op != "hist-noconsumer"
			w.stMu.Unlock()
			switch op {
			case "hist-consumer":
				go func() {
					for it.Next() {
						drain(it.Current())
					}
				}()
			case "hist-closer":
				// nobody reads; the iterator is abandoned and closed a little later
				go func() {
					time.Sleep(150 * time.Millisecond)
					it.Close()
				}()
			}
		case "ibb-listen":
			l := w.ibbh.Listen(w.sess)
			w.lst, w.lstOpen = l, true
			w.note("ALListen")
			w.note("ALAcceptor")
			go func() {
				for {
					c, err := l.Accept()
					if err != nil {
						return
					}
					_ = c
				}
			}()
		case "ibb-listen-noaccept":
			w.lst, w.lstOpen = w.ibbh.Listen(w.sess), true
			w.note("ALListen")
			w.stMu.Lock()
			w.ibbNoAccept = true
			w.stMu.Unlock()
		case "receipt-pending":
			go func() {
				_ = w.rcpt.SendMessageElement(w.ctx, w.sess, nil, stanza.Message{ID: "r1", To: remoteJID, Type: stanza.ChatMessage})
			}()
		case "muc-join":
			w.note("AMJoin")
			go func() {
				ch, _ := w.mucc.Join(w.ctx, roomJID, w.sess)
				w.mucCh <- ch
			}()
		}
	}
	if len(ops) > 0 {
		// let the requests of the set-up reach the wire before input is fed
		w.pipe.WaitQuiet(2*time.Millisecond, 500*time.Millisecond)
	}
}

// ---- serve level ----

func runServe(c Case) Obs {
	var o Obs
	w, err := newWorld(c.Tap, c.Bare, c.NilCB)
	if err != nil {
		o.Class = "panic"
		o.fail("C09/harness/setup", err.Error())
		return o
	}
	defer w.close()
	w.setup(c.Setup)
	stuck := false
	for _, st := range c.Seq {
		if strings.HasPrefix(st, "@") {
			if !w.op(st) {
				stuck = true
				break
			}
			continue
		}
		if c.Bare {
			st = strings.ReplaceAll(st, "me@example.net/res", "me@example.net")
		}
		taken, served := w.send([]byte(st))
		if served {
			break
		}
		if !taken {
			stuck = true
			break
		}
	}
	{
		// the input ends (also when an operation's barrier got no answer: Serve may
		// be rightly waiting for the rest of an element; a Serve that is parked in
		// a handler stays parked): with or without the closing stream tag, the
		// connection is closed (an unterminated comment, processing instruction
		// or attribute value in the input would otherwise swallow the tag and
		// leave Serve rightly waiting for more)
		if c.End != "eof" && !stuck {
			w.send([]byte("</stream:stream>"))
			w.waitServe(time.Second) // not an oracle: only spares the normal case a broken pipe
		}
		w.pipe.Peer.Close()
	}
	wait := watchdog
	if stuck {
		wait = 3 * time.Second // the watchdog has already expired once, in the write or in a barrier
	}
	returned := w.waitServe(wait)
	switch {
	case !returned:
		o.Class = "blocked"
		g := goroutineWith("main.serveMarker")
		fr := libFrame(g)
		if fr == "ibb/ibb.go:handleOpen" {
			// an <open/> for a session some live Expect call waits for must be
			// delivered to it; an unexpected one parks until Accept (known)
			if atomic.LoadInt32(&w.expLive) > 0 && lastOpenExpected(c.Seq) {
				fr += ":expected-session"
			} else {
				fr += ":nobody-accepts"
			}
		}
		o.Detail = fr
		o.fail("C09/serve/wedge/"+fr, "Serve did not return within the watchdog after the end of input; it is parked in "+fr)
	case w.servePanic != "":
		o.Class = "panic"
		fr := libFrame(w.serveStack)
		o.Detail = w.servePanic
		o.fail("C09/serve/panic/"+fr, "Serve panicked in "+fr+": "+w.servePanic)
	case w.serveErr != nil:
		o.Class = "err"
	default:
		o.Class = "ok"
	}
	if os.Getenv("C09_DEBUG") != "" {
		fmt.Fprintf(os.Stderr, "DEBUG local=%s class=%s err=%v wrote=%s\n", w.sess.LocalAddr(), o.Class, w.serveErr, w.pipe.Written())
	}
	o.Classes = append(o.Classes, "serve/"+o.Class, fmt.Sprintf("seq-len/%d", len(c.Seq)), "end/"+c.End)
	if c.Tap {
		for _, v := range w.log.snapshot() {
			o.NonTriv = true
			o.Classes = append(o.Classes, "handler/"+v.Comp+"/"+v.Class)
			term := fmt.Sprintf("mkcase %s %s (%s) [%s] %s", v.Comp, coqEnv(v.Env), coqToken(v.Start), coqReader(v.Toks, v.Clean), coqClass(v.Class))
			o.Terms = append(o.Terms, term)
			o.Descs = append(o.Descs, v.Comp+" "+tokSummary(v.Toks, v.Clean)+" -> "+v.Class)
		}
	}
	return o
}

// lastOpenExpected: the last <open/> of the sequence is for the session the
// harness's Expect calls wait for (sid s1 from peerJID).
func lastOpenExpected(seq []string) bool {
	for i := len(seq) - 1; i >= 0; i-- {
		if strings.Contains(seq[i], "<open") {
			return strings.Contains(seq[i], "sid='s1'") && strings.Contains(seq[i], "from='"+peerJID+"'")
		}
	}
	return false
}

func coqClass(c string) string {
	switch c {
	case "ok":
		return "COk"
	case "err":
		return "CErr"
	case "panic":
		return "CPanic"
	}
	return "CBlocked"
}

func coqEnv(e envT) string {
	var sb strings.Builder
	sb.WriteString("(mkenv [")
	for i, id := range e.Tracked {
		if i > 0 {
			sb.WriteString("; ")
		}
		sb.WriteString(hx.CoqBytes([]byte(id)))
	}
	sb.WriteString("] " + hx.CoqBool(e.Ready) + " " + hx.CoqBytes([]byte(e.Type)) + " " + hx.CoqBool(e.OK) + " " + hx.CoqBool(e.Full) + " [" + strings.Join(e.Hist, "; ") + "] " + hx.CoqBool(e.Match) + ")")
	return sb.String()
}

// ---- request helpers ----

type helperFn func(ctx context.Context, w *world) error

func both(a, b error) error {
	if a != nil {
		return a
	}
	return b
}

var helpers = map[string]helperFn{
	"ping": func(ctx context.Context, w *world) error { return ping.Send(ctx, w.sess, remoteJID) },
	"version": func(ctx context.Context, w *world) error {
		_, err := version.Get(ctx, w.sess, remoteJID)
		return err
	},
	"xtime": func(ctx context.Context, w *world) error {
		_, err := xtime.Get(ctx, w.sess, remoteJID)
		return err
	},
	"carbons-enable": func(ctx context.Context, w *world) error { return carbons.Enable(ctx, w.sess) },
	"upload": func(ctx context.Context, w *world) error {
		slot, err := upload.GetSlot(ctx, upload.File{Name: "f.jpg", Size: 10}, remoteJID, w.sess)
		if err != nil {
			return err
		}
		_, err = slot.Put(ctx, strings.NewReader("0123456789"))
		return err
	},
	"history-fetch": func(ctx context.Context, w *world) error {
		_, err := history.Fetch(ctx, history.Query{}, remoteJID, w.sess)
		return err
	},
	"history-iter": func(ctx context.Context, w *world) error {
		it := w.hist.Fetch(ctx, history.Query{ID: "hq"}, remoteJID, w.sess)
		for it.Next() {
			drain(it.Current())
		}
		return both(it.Err(), it.Close())
	},
	"disco-info": func(ctx context.Context, w *world) error {
		_, err := disco.GetInfo(ctx, "", remoteJID, w.sess)
		return err
	},
	"disco-items": func(ctx context.Context, w *world) error {
		it := disco.FetchItems(ctx, items.Item{JID: remoteJID}, w.sess)
		for n := 0; it.Next() && n < 1000; n++ {
		}
		err := it.Err()
		return both(err, it.Close())
	},
	"disco-walk": func(ctx context.Context, w *world) error {
		return disco.WalkItem(ctx, items.Item{JID: remoteJID}, w.sess, func(level int, item items.Item, err error) error {
			if level > 3 {
				return disco.ErrSkipItem
			}
			return err
		})
	},
	"commands-fetch": func(ctx context.Context, w *world) error {
		it := commands.Fetch(ctx, remoteJID, w.sess)
		for n := 0; it.Next() && n < 1000; n++ {
			_ = it.Command()
		}
		err := it.Err()
		return both(err, it.Close())
	},
	"commands-exec": func(ctx context.Context, w *world) error {
		_, payload, err := commands.Command{JID: remoteJID, Node: "list"}.Execute(ctx, nil, w.sess)
		if err != nil {
			return err
		}
		drain(payload)
		return payload.Close()
	},
	"roster-fetch": func(ctx context.Context, w *world) error {
		it := roster.Fetch(ctx, w.sess)
		for it.Next() {
			_ = it.Item()
		}
		err := it.Err()
		return both(err, it.Close())
	},
	"roster-set": func(ctx context.Context, w *world) error {
		return roster.Set(ctx, w.sess, roster.Item{JID: jid.MustParse("nurse@example.com"), Name: "Nurse"})
	},
	"blocklist-fetch": func(ctx context.Context, w *world) error {
		it := blocklist.Fetch(ctx, w.sess)
		for it.Next() {
			_ = it.JID()
		}
		err := it.Err()
		return both(err, it.Close())
	},
	"blocklist-add": func(ctx context.Context, w *world) error {
		return blocklist.Add(ctx, w.sess, jid.MustParse("romeo@montague.net"))
	},
	"pubsub-fetch": func(ctx context.Context, w *world) error {
		it := pubsub.Fetch(ctx, w.sess, pubsub.Query{Node: "princely_musings"})
		for it.Next() {
			_, r := it.Item()
			drain(r)
		}
		err := it.Err()
		return both(err, it.Close())
	},
	"bookmarks-fetch": func(ctx context.Context, w *world) error {
		it := bookmarks.Fetch(ctx, w.sess)
		for it.Next() {
			_ = it.Bookmark()
		}
		err := it.Err()
		return both(err, it.Close())
	},
	"unmarshal-struct": func(ctx context.Context, w *world) error {
		v := struct {
			XMLName xml.Name
			A       string `xml:"a,attr"`
			B       string `xml:"b"`
		}{}
		return w.sess.UnmarshalIQ(ctx, stanza.IQ{Type: stanza.GetIQ, To: remoteJID}.Wrap(
			xmlstreamWrapEmpty(xml.Name{Space: "urn:example:q", Local: "query"})), &v)
	},
	"iter-plain": func(ctx context.Context, w *world) error {
		it, _, err := w.sess.IterIQ(ctx, stanza.IQ{Type: stanza.GetIQ, To: remoteJID}.Wrap(
			xmlstreamWrapEmpty(xml.Name{Space: "urn:example:q", Local: "query"})))
		if err != nil {
			return err
		}
		for it.Next() {
			_, r := it.Current()
			drain(r)
		}
		err = it.Err()
		return both(err, it.Close())
	},
	// fetch a form from the peer, then submit it (decoded form re-encoded by Submit)
	"muc-config": func(ctx context.Context, w *world) error {
		f, err := muc.GetConfig(ctx, roomJID.Bare(), w.sess)
		if err != nil {
			return err
		}
		return muc.SetConfig(ctx, roomJID.Bare(), f, w.sess)
	},
	"pubsub-config": func(ctx context.Context, w *world) error {
		f, err := pubsub.GetConfig(ctx, w.sess, "princely_musings")
		if err != nil {
			return err
		}
		return pubsub.SetConfig(ctx, w.sess, "princely_musings", f)
	},
	"ibb-open": func(ctx context.Context, w *world) error {
		_, err := w.ibbh.Open(ctx, w.sess, remoteJID)
		return err
	},
}

//go:noinline
func helperMarker(f helperFn, ctx context.Context, w *world) error { return f(ctx, w) }

func runHelper(c Case) Obs {
	var o Obs
	f := helpers[c.Helper]
	if f == nil {
		o.fail("C09/harness/setup", "unknown helper "+c.Helper)
		return o
	}
	w, err := newWorld(false, c.Bare)
	if err != nil {
		o.fail("C09/harness/setup", err.Error())
		return o
	}
	defer w.close()
	stopPeer := make(chan struct{})
	defer close(stopPeer)
	go w.scriptedPeer(c.Replies, stopPeer)

	ctx, cancel := context.WithTimeout(w.ctx, 4*watchdog)
	defer cancel()
	// an application stops waiting for replies when Serve has returned
	go func() {
		select {
		case <-w.done:
			cancel()
		case <-ctx.Done():
		}
	}()
	hdone := make(chan struct{})
	var herr error
	var hp, hst string
	go func() {
		defer close(hdone)
		hp, hst = catchStack(func() { herr = helperMarker(f, ctx, w) })
	}()
	returned := true
	select {
	case <-hdone:
	case <-time.After(watchdog):
		returned = false
	}
	switch {
	case !returned:
		o.Class = "blocked"
		fr := libFrame(goroutineWith("main.helperMarker"))
		o.Detail = fr
		o.fail("C09/helper/"+c.Helper+"/wedge", "the helper did not return within the watchdog although every request was answered; it is parked in "+fr)
	case hp != "":
		o.Class = "panic"
		fr := libFrame(hst)
		o.Detail = hp
		o.fail("C09/helper/panic/"+fr, "helper "+c.Helper+" panicked in "+fr+": "+hp)
	case herr != nil:
		o.Class = "err"
		if errors.Is(herr, context.DeadlineExceeded) {
			o.Detail = "deadline"
		}
	default:
		o.Class = "ok"
	}
	// whatever the reply was, the session must go on and end with its input
	if returned {
		w.send([]byte("</stream:stream>"))
		if !w.waitServe(time.Second) {
			w.pipe.Peer.Close()
		}
		if !w.waitServe(watchdog) {
			fr := libFrame(goroutineWith("main.serveMarker"))
			o.fail("C09/helper/"+c.Helper+"/serve-wedged", "after the helper returned ("+o.Class+") Serve did not return at the end of input; it is parked in "+fr+" (the response was never closed)")
			o.Class = "blocked"
		} else if w.servePanic != "" {
			fr := libFrame(w.serveStack)
			o.fail("C09/serve/panic/"+fr, "Serve panicked in "+fr+": "+w.servePanic)
		}
	}
	o.NonTriv = true
	o.Classes = append(o.Classes, "helper/"+c.Helper+"/"+o.Class)
	// the model's view: the tokens of each reply as the response reader yields them
	var rds []string
	var sum []string
	newiqOK := true
	for i, rep := range c.Replies {
		toks, clean := wireElement([]byte(strings.ReplaceAll(rep, "{ID}", "id"+fmt.Sprint(i))))
		rds = append(rds, coqReader(toks, clean))
		sum = append(sum, tokSummary(toks, clean))
		if len(toks) > 0 {
			if st, ok := toks[0].(xml.StartElement); ok {
				if _, err := stanza.NewIQ(st); err != nil && i == 0 {
					newiqOK = false
				}
			}
		}
	}
	if comp := helperComp[c.Helper]; comp != "" {
		env := envT{Ready: true, Type: "", OK: newiqOK}
		o.Terms = append(o.Terms, fmt.Sprintf("mkcase %s %s (TEnd (mkname (B 0%%nat []) (B 0%%nat []))) [%s] %s", comp, coqEnv(env), strings.Join(rds, "; "), coqClass(o.Class)))
		o.Descs = append(o.Descs, c.Helper+" "+strings.Join(sum, " | ")+" -> "+o.Class)
	}
	return o
}

// which model component each helper corresponds to
var helperComp = map[string]string{
	"ping": "QPing", "version": "(QUnmarshal false)", "xtime": "(QUnmarshal false)", "carbons-enable": "(QUnmarshal false)",
	"upload": "QUpload", "history-fetch": "(QUnmarshal false)", "history-iter": "QHistIter", "disco-info": "(QUnmarshal false)",
	"disco-items": "QItems", "commands-fetch": "QItems", "commands-exec": "QExecute",
	"roster-fetch": "QRoster", "roster-set": "QSendOnly", "blocklist-fetch": "QBlocklist", "blocklist-add": "QSendOnly",
	"pubsub-fetch": "QPubsub", "bookmarks-fetch": "QBookmarks", "unmarshal-struct": "(QUnmarshal false)", "iter-plain": "QIterPlain",
	"ibb-open": "QSendOnly", "muc-config": "QSendOnly", "pubsub-config": "QSendOnly",
}

// ---- token-level library functions ----

func runFunc(c Case) Obs {
	var o Obs
	if len(c.Seq) == 0 {
		return o
	}
	toks, clean := wireElement([]byte(c.Seq[0]))
	skip := 1
	comp := "FCarbonsUnwrap"
	if c.Func == "forward-unwrap" {
		skip, comp = 2, "FForwardUnwrap"
	}
	if len(toks) < skip {
		skip = len(toks)
	}
	in := toks[skip:]
	term := errors.New("xml: syntax error")
	if clean {
		term = nil
	}
	var err error
	done := make(chan struct{})
	var p, st string
	go func() {
		defer close(done)
		p, st = catchStack(func() {
			rd := &replay{toks: in, term: eofOr(term)}
			var out xml.TokenReader
			d := &delay.Delay{}
			if c.Func == "forward-unwrap" {
				out, err = forward.Unwrap(d, rd)
			} else {
				out, _, err = carbons.Unwrap(d, rd)
			}
			if err == nil {
				for i := 0; i < 1<<20; i++ {
					if _, e := out.Token(); e != nil {
						break
					}
				}
			}
		})
	}()
	select {
	case <-done:
		switch {
		case p != "":
			o.Class = "panic"
			fr := libFrame(st)
			o.fail("C09/func/panic/"+fr, c.Func+" panicked in "+fr+": "+p)
		case err != nil:
			o.Class = "err"
		default:
			o.Class = "ok"
		}
	case <-time.After(watchdog):
		o.Class = "blocked"
		o.fail("C09/func/"+c.Func+"/wedge", c.Func+" did not return on a finite token sequence")
	}
	o.NonTriv = true
	o.Classes = append(o.Classes, "func/"+c.Func+"/"+o.Class)
	env := envT{Ready: true, OK: true}
	o.Terms = append(o.Terms, fmt.Sprintf("mkcase %s %s (TEnd (mkname (B 0%%nat []) (B 0%%nat []))) [%s] %s", comp, coqEnv(env), coqReader(in, clean), coqClass(o.Class)))
	o.Descs = append(o.Descs, c.Func+" "+tokSummary(in, clean)+" -> "+o.Class)
	return o
}

func runCase(c Case) Obs {
	switch c.Kind {
	case "serve":
		return runServe(c)
	case "helper":
		return runHelper(c)
	case "func":
		return runFunc(c)
	case "flood":
		return runFlood(c)
	}
	return Obs{}
}

// ---- concurrent request helpers against a flood of results ----

// runFlood: 1-4 application goroutines issue IQ requests with known ids in a
// loop (some give up at once, some wait a little) while the peer floods the
// session with result/error stanzas carrying those ids and unknown ones. The
// serve loop looks every one of them up in the table the requests are
// registered in and removed from at the same time.
func runFlood(c Case) Obs {
	var o Obs
	w, err := newWorld(false, c.Bare)
	if err != nil {
		o.fail("C09/harness/setup", err.Error())
		return o
	}
	defer w.close()
	g, n := c.Par, 300
	if g < 1 {
		g = 1
	}
	var wg sync.WaitGroup
	var panics sync.Map
	for k := 0; k < g; k++ {
		k := k
		wg.Add(1)
		go func() {
			defer wg.Done()
			p, st := catchStack(func() {
				for i := 0; i < n; i++ {
					d := time.Duration((i*7+k*3)%5) * 200 * time.Microsecond
					ctx, cancel := context.WithTimeout(w.ctx, d)
					iq := ping.IQ{IQ: stanza.IQ{ID: fmt.Sprintf("k%d-%d", k, i), Type: stanza.GetIQ, To: remoteJID}}
					resp, _ := w.sess.SendIQ(ctx, iq.TokenReader())
					if resp != nil {
						resp.Close()
					}
					cancel()
				}
			})
			if p != "" {
				panics.Store(libFrame(st), p)
			}
		}()
	}
	floodDone := make(chan struct{})
	go func() {
		defer close(floodDone)
		for i := 0; i < n; i++ {
			var sb strings.Builder
			for k := 0; k < g; k++ {
				fmt.Fprintf(&sb, "<iq type='result' id='k%d-%d' from='example.net'/>", k, i)
				fmt.Fprintf(&sb, "<iq type='error' id='zz%d-%d' from='example.net'><error type='cancel'><item-not-found xmlns='%s'/></error></iq>", k, i, nsErr)
				fmt.Fprintf(&sb, "<message type='error' id='k%d-%d' from='example.net'/>", k, (i+1)%n)
			}
			if taken, _ := w.send([]byte(sb.String())); !taken {
				return
			}
		}
	}()
	appDone := make(chan struct{})
	go func() { wg.Wait(); close(appDone) }()
	o.Class = "ok"
	select {
	case <-appDone:
	case <-time.After(2 * watchdog):
		o.Class = "blocked"
		o.fail("C09/flood/helper-wedge", "request helpers running concurrently with a flood of results did not all return")
	}
	panics.Range(func(k, v interface{}) bool {
		o.Class = "panic"
		o.fail("C09/flood/panic/"+k.(string), "a request helper panicked in "+k.(string)+": "+v.(string))
		return true
	})
	select {
	case <-floodDone:
	case <-time.After(watchdog):
	}
	w.send([]byte("</stream:stream>"))
	if !w.waitServe(time.Second) {
		w.pipe.Peer.Close()
	}
	if !w.waitServe(watchdog) {
		fr := libFrame(goroutineWith("main.serveMarker"))
		o.Class = "blocked"
		o.fail("C09/serve/wedge/"+fr, "Serve did not return after a flood of results concurrent with request helpers; it is parked in "+fr)
	} else if w.servePanic != "" {
		fr := libFrame(w.serveStack)
		o.Class = "panic"
		o.fail("C09/serve/panic/"+fr, "Serve panicked in "+fr+": "+w.servePanic)
	}
	o.NonTriv = true
	o.Classes = append(o.Classes, fmt.Sprintf("flood/%d/%s", g, o.Class))
	return o
}
