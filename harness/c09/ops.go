package main

// Application-side operations interleaved with the peer's stanzas: the calls an
// application makes between stanzas leave state inside the handlers (the ibb
// listener table, the muc client's managed channels and their one-slot depart
// channels, history iterators, pending receipts) that later peer input touches.
// A sequence element that starts with '@' is such an operation.

import (
	"context"
	"fmt"
	"net"
	"strings"
	"sync/atomic"
	"time"

	"mellium.im/xmpp/history"
	"mellium.im/xmpp/jid"
	"mellium.im/xmpp/muc"
	"mellium.im/xmpp/stanza"

	"verifharness/hx"
)

var peerFull = jid.MustParse(peerJID)

// barrier makes sure that everything sent so far has been handled: it sends a
// ping and waits for the answer. It reports false when Serve no longer answers
// within the watchdog (it is parked, or gone).
func (w *world) barrier() bool {
	w.nbar++
	id := fmt.Sprintf("bar-%d", w.nbar)
	taken, served := w.send([]byte(`<iq type='get' id='` + id + `' from='example.net'><ping xmlns='urn:xmpp:ping'/></iq>`))
	if served {
		return true // Serve has returned: nothing is pending
	}
	if !taken {
		return false
	}
	deadline := time.Now().Add(watchdog)
	for time.Now().Before(deadline) {
		out := string(w.pipe.Written())
		if strings.Contains(out, `id="`+id+`"`) || strings.Contains(out, `id='`+id+`'`) {
			return true
		}
		select {
		case <-w.done:
			return true
		default:
		}
		time.Sleep(200 * time.Microsecond)
	}
	return false
}

// settle lets an operation started in a goroutine reach the wire.
func (w *world) settle() { w.pipe.WaitQuiet(2*time.Millisecond, 300*time.Millisecond) }

func (w *world) channel() *muc.Channel {
	if w.mucChan != nil {
		return w.mucChan
	}
	select {
	case ch := <-w.mucCh:
		w.mucChan = ch
	case <-time.After(2 * time.Second):
	}
	return w.mucChan
}

// op performs one application-side operation. It reports false when Serve
// stopped answering (the sequence is abandoned and the oracle decides).
func (w *world) op(name string) bool {
	switch name {
	case "@barrier":
		return w.barrier()
	case "@out-release": // no barrier: nothing the session writes gets through before this
		w.gate.release()
		return true
	}
	// operations see the state left by everything the peer sent before them
	if !w.barrier() {
		return false
	}
	switch name {
	case "@ibb-listen":
		w.lst = w.ibbh.Listen(w.sess)
		w.lstOpen = true
		w.note("ALListen")
	case "@ibb-acceptor":
		if w.lst != nil && w.lstOpen {
			l := w.lst
			w.note("ALAcceptor")
			go func() {
				for {
					c, err := l.Accept()
					if err != nil {
						return
					}
					w.stMu.Lock()
					w.conns = append(w.conns, c)
					w.stMu.Unlock()
				}
			}()
			time.Sleep(time.Millisecond)
		}
	case "@ibb-close-listener":
		if w.lst != nil && w.lstOpen { // closing twice is the application's mistake
			w.lstOpen = false
			hx.Catch(func() { w.lst.Close() })
			w.note("ALClose")
		}
	case "@ibb-expect":
		// a second call for the same session supersedes the first (the library
		// cancels it): wait until the superseded call has returned
		if w.lst != nil && w.lstOpen {
			ctx, cancel := context.WithCancel(w.ctx)
			w.expCancel = cancel
			l := w.lst
			before := atomic.LoadInt32(&w.expLive)
			atomic.AddInt32(&w.expLive, 1)
			w.note("AEExpect")
			go func() {
				_, _ = l.Expect(ctx, peerFull, "s1")
				atomic.AddInt32(&w.expLive, -1)
			}()
			deadline := time.Now().Add(2 * time.Second)
			for before > 0 && atomic.LoadInt32(&w.expLive) > 1 && time.Now().Before(deadline) {
				time.Sleep(200 * time.Microsecond)
			}
			time.Sleep(2 * time.Millisecond) // let the new call register
		}
	case "@ibb-expect-cancel":
		if w.expCancel != nil {
			w.expCancel()
			w.expCancel = nil
			w.note("AECancel")
			deadline := time.Now().Add(2 * time.Second)
			for atomic.LoadInt32(&w.expLive) > 0 && time.Now().Before(deadline) {
				time.Sleep(200 * time.Microsecond)
			}
		}
	case "@ibb-write":
		// a local Write on an accepted stream, in a goroutine of the application: on a
		// stream acknowledged by IQs it sends its data and parks until the peer
		// acknowledges, holding the stream's write lock (this peer does not acknowledge)
		var c net.Conn
		deadline := time.Now().Add(time.Second)
		for c == nil && time.Now().Before(deadline) {
			w.stMu.Lock()
			if len(w.conns) > 0 {
				c = w.conns[len(w.conns)-1]
			}
			w.stMu.Unlock()
			if c == nil {
				time.Sleep(200 * time.Microsecond)
			}
		}
		if c != nil {
			w.note("AWWrite")
			go func() {
				hx.Catch(func() {
					_, _ = c.Write([]byte("hello from the application"))
					if f, ok := c.(interface{ Flush() error }); ok {
						_ = f.Flush()
					}
				})
			}()
			w.settle()
		}
	case "@ibb-conn-close":
		w.stMu.Lock()
		conns := w.conns
		w.conns = nil
		w.stMu.Unlock()
		for _, c := range conns {
			c := c
			go func() { hx.Catch(func() { c.Close() }) }()
		}
		w.settle()
	case "@muc-join":
		w.note("AMJoin")
		go func() {
			ch, _ := w.mucc.Join(w.ctx, roomJID, w.sess)
			w.mucCh <- ch
		}()
		w.settle()
	case "@muc-rejoin":
		if ch := w.channel(); ch != nil {
			w.note("AMJoin")
			go func() { _ = ch.Join(w.ctx) }()
			w.settle()
		}
	case "@muc-leave":
		if ch := w.channel(); ch != nil {
			w.note("AMLeave")
			go func() { _ = ch.Leave(w.ctx, "bye") }()
			w.settle()
		}
	case "@hist-fetch-consume":
		if w.hit != nil {
			break // one query at a time: a second Fetch with the same id is refused
		}
		it := w.hist.Fetch(w.ctx, history.Query{ID: "q1"}, remoteJID, w.sess)
		w.hit = it
		w.stMu.Lock()
		w.histIDs = []string{"q1"}
		w.histReady = true
		w.stMu.Unlock()
		go func() {
			for it.Next() {
				drain(it.Current())
			}
		}()
		w.settle()
	case "@hist-close":
		if w.hit != nil {
			w.hit.Close()
			w.hit = nil
			w.stMu.Lock()
			w.histIDs = nil // the query is no longer tracked: later results go to the inner handler
			w.stMu.Unlock()
		}
	case "@rcpt-send", "@rcpt-send-held":
		if name == "@rcpt-send-held" {
			// the peer stops reading: the call registers the message and then parks
			// in the write, so it cannot consume the receipt's signal yet
			w.gate.holdWrites()
		}
		ctx, cancel := context.WithCancel(w.ctx)
		w.rcptCancel = cancel
		w.note("ARSend")
		go func() {
			_ = w.rcpt.SendMessageElement(ctx, w.sess, nil, stanza.Message{ID: "r1", To: remoteJID, Type: stanza.ChatMessage})
			w.note("ARGone")
		}()
		if name == "@rcpt-send-held" {
			deadline := time.Now().Add(2 * time.Second)
			for atomic.LoadInt32(&w.gate.waiting) == 0 && time.Now().Before(deadline) {
				time.Sleep(200 * time.Microsecond)
			}
		} else {
			w.settle()
		}
	case "@rcpt-cancel":
		if w.rcptCancel != nil {
			w.rcptCancel()
			w.rcptCancel = nil
			time.Sleep(2 * time.Millisecond)
		}
	}
	return true
}
