package main

// Grammar-based generation: canonical stanzas (the XEPs' examples for every
// handler the multiplexer carries) and canonical replies for every request
// helper, parsed into small trees and mutated structurally — text where an
// element is expected, missing/duplicated/odd attributes, wrong name spaces,
// removed/duplicated/nested children, empty forms, huge values — plus raw
// byte-level damage for the malformed stream.

import (
	"bytes"
	"encoding/xml"
	"strings"

	"verifharness/hx"
)

type node struct {
	text   string // character data when name == ""
	name   string // raw (possibly prefixed) name
	attrs  [][2]string
	kids   []*node
	rawTxt bool // text is written unescaped
}

func parseTree(s string) *node {
	d := xml.NewDecoder(strings.NewReader(s))
	root := &node{name: "#root"}
	stack := []*node{root}
	for {
		t, err := d.RawToken()
		if err != nil {
			break
		}
		top := stack[len(stack)-1]
		switch x := t.(type) {
		case xml.StartElement:
			n := &node{name: rawName(x.Name)}
			for _, a := range x.Attr {
				n.attrs = append(n.attrs, [2]string{rawName(a.Name), a.Value})
			}
			top.kids = append(top.kids, n)
			stack = append(stack, n)
		case xml.EndElement:
			if len(stack) > 1 {
				stack = stack[:len(stack)-1]
			}
		case xml.CharData:
			top.kids = append(top.kids, &node{text: string(x)})
		}
	}
	if len(root.kids) == 0 {
		return &node{text: s, rawTxt: true}
	}
	return root.kids[0]
}

func rawName(n xml.Name) string {
	if n.Space != "" {
		return n.Space + ":" + n.Local
	}
	return n.Local
}

func esc(s string) string {
	var b bytes.Buffer
	_ = xml.EscapeText(&b, []byte(s))
	return b.String()
}

func (n *node) render(sb *strings.Builder) {
	if n.name == "" {
		if n.rawTxt {
			sb.WriteString(n.text)
		} else {
			sb.WriteString(esc(n.text))
		}
		return
	}
	sb.WriteString("<" + n.name)
	for _, a := range n.attrs {
		sb.WriteString(" " + a[0] + "='" + strings.ReplaceAll(esc(a[1]), "'", "&apos;") + "'")
	}
	if len(n.kids) == 0 {
		sb.WriteString("/>")
		return
	}
	sb.WriteString(">")
	for _, k := range n.kids {
		k.render(sb)
	}
	sb.WriteString("</" + n.name + ">")
}

func (n *node) String() string {
	var sb strings.Builder
	n.render(&sb)
	return sb.String()
}

func (n *node) clone() *node {
	c := &node{text: n.text, name: n.name, rawTxt: n.rawTxt}
	c.attrs = append([][2]string(nil), n.attrs...)
	for _, k := range n.kids {
		c.kids = append(c.kids, k.clone())
	}
	return c
}

func (n *node) elements(out *[]*node) {
	if n.name == "" {
		return
	}
	*out = append(*out, n)
	for _, k := range n.kids {
		k.elements(out)
	}
}

var oddValues = []string{"", " ", "@@", "a@b/c@d", "-1", "0", "65536", "4294967296", "99999999999999999999", "1e9", "true", "é世", "x'\"<&>", "=====", "!!!!", "QQ", "QUJD", "QUJDRA==", "2006-01-02T15:04:05Z", "Z", "+25:00", "http://[::1", "sha-1"}

var oddTexts = []string{"text", "lorem ipsum dolor sit amet", " ", "\n\t ", "&amp;", "]]", "0", "QUJD", "a@b", "<![CDATA[<x/>]]>"}

var oddNS = []string{"", "urn:example:other", "jabber:client", "jabber:x:data", "urn:xmpp:forward:0", "http://jabber.org/protocol/rsm"}

// mutate applies one structural mutation somewhere below (or at) the root and
// returns its label. keepTop protects the root's id/type attributes and name
// (replies must stay replies).
func mutate(r *hx.Rand, root *node, keepTop bool) string {
	var els []*node
	root.elements(&els)
	if len(els) == 0 {
		return "none"
	}
	pick := func(skipRoot bool) *node {
		if skipRoot {
			if len(els) == 1 {
				return &node{name: "#none"} // a scratch node: the mutation has no effect
			}
			return els[1+r.Intn(len(els)-1)]
		}
		return els[r.Intn(len(els))]
	}
	switch r.Intn(16) {
	case 0: // text where an element is expected: first child
		n := pick(false)
		n.kids = append([]*node{{text: oddTexts[r.Intn(len(oddTexts))], rawTxt: true}}, n.kids...)
		return "text-first"
	case 1: // text between / after children
		n := pick(false)
		i := r.Intn(len(n.kids) + 1)
		n.kids = append(n.kids[:i:i], append([]*node{{text: oddTexts[r.Intn(len(oddTexts))], rawTxt: true}}, n.kids[i:]...)...)
		return "text-between"
	case 2: // drop an attribute
		n := pick(keepTop)
		if len(n.attrs) == 0 {
			return "none"
		}
		i := r.Intn(len(n.attrs))
		if n.attrs[i][0] == "xmlns" && r.Chance(1, 2) {
			return "none"
		}
		n.attrs = append(n.attrs[:i:i], n.attrs[i+1:]...)
		return "attr-drop"
	case 3: // duplicate an attribute
		n := pick(keepTop)
		if len(n.attrs) == 0 {
			return "none"
		}
		n.attrs = append(n.attrs, n.attrs[r.Intn(len(n.attrs))])
		return "attr-dup"
	case 4: // odd attribute value
		n := pick(keepTop)
		if len(n.attrs) == 0 {
			return "none"
		}
		i := r.Intn(len(n.attrs))
		if n.attrs[i][0] == "xmlns" {
			return "none"
		}
		n.attrs[i][1] = oddValues[r.Intn(len(oddValues))]
		return "attr-odd"
	case 5: // huge attribute value
		n := pick(keepTop)
		if len(n.attrs) == 0 {
			n.attrs = append(n.attrs, [2]string{"x", ""})
		}
		i := r.Intn(len(n.attrs))
		if n.attrs[i][0] == "xmlns" {
			return "none"
		}
		n.attrs[i][1] = strings.Repeat("A", 1<<(8+r.Intn(9)))
		return "attr-huge"
	case 6: // drop all attributes
		n := pick(keepTop)
		var keep [][2]string
		for _, a := range n.attrs {
			if a[0] == "xmlns" {
				keep = append(keep, a)
			}
		}
		n.attrs = keep
		return "attrs-none"
	case 7: // remove a child
		n := pick(false)
		if len(n.kids) == 0 {
			return "none"
		}
		i := r.Intn(len(n.kids))
		n.kids = append(n.kids[:i:i], n.kids[i+1:]...)
		return "child-drop"
	case 8: // remove all children (empty payload / empty form)
		n := pick(false)
		n.kids = nil
		return "children-none"
	case 9: // duplicate a child
		n := pick(false)
		if len(n.kids) == 0 {
			return "none"
		}
		n.kids = append(n.kids, n.kids[r.Intn(len(n.kids))].clone())
		return "child-dup"
	case 10: // wrong name space
		n := pick(keepTop)
		ns := oddNS[r.Intn(len(oddNS))]
		found := false
		for i := range n.attrs {
			if n.attrs[i][0] == "xmlns" {
				n.attrs[i][1], found = ns, true
			}
		}
		if !found {
			n.attrs = append(n.attrs, [2]string{"xmlns", ns})
		}
		return "ns-wrong"
	case 11: // wrong local name
		n := pick(keepTop)
		n.name = []string{"x", "item", "query", "error", "set", "data", "forwarded", "message"}[r.Intn(8)]
		return "name-wrong"
	case 12: // nest an element inside a copy of itself, several levels
		n := pick(keepTop)
		depth := 1 << r.Intn(9)
		inner := n.clone()
		cur := inner
		for i := 0; i < depth; i++ {
			w := &node{name: n.name, attrs: n.attrs, kids: []*node{cur}}
			cur = w
		}
		n.kids = []*node{cur}
		return "nest-deep"
	case 13: // replace content by text only
		n := pick(false)
		n.kids = []*node{{text: oddTexts[r.Intn(len(oddTexts))], rawTxt: true}}
		return "content-text"
	case 14: // swap two children
		n := pick(false)
		if len(n.kids) < 2 {
			return "none"
		}
		i, j := r.Intn(len(n.kids)), r.Intn(len(n.kids))
		n.kids[i], n.kids[j] = n.kids[j], n.kids[i]
		return "child-swap"
	default: // stanza type
		if keepTop {
			return "none"
		}
		types := []string{"get", "set", "result", "error", "chat", "normal", "groupchat", "headline", "unavailable", "subscribe", "bogus", ""}
		t := types[r.Intn(len(types))]
		for i := range root.attrs {
			if root.attrs[i][0] == "type" {
				root.attrs[i][1] = t
				return "type-change"
			}
		}
		root.attrs = append(root.attrs, [2]string{"type", t})
		return "type-add"
	}
}

// damage applies byte-level damage (the malformed stream).
func damage(r *hx.Rand, s string) (string, string) {
	b := []byte(s)
	if len(b) == 0 {
		return s, "none"
	}
	switch r.Intn(8) {
	case 0:
		return string(b[:r.Intn(len(b))]), "truncate"
	case 1:
		i := r.Intn(len(b))
		return string(b[:i]) + "<" + string(b[i:]), "stray-lt"
	case 2:
		i := r.Intn(len(b))
		return string(b[:i]) + "&bogus;" + string(b[i:]), "bad-entity"
	case 3:
		i := r.Intn(len(b))
		return string(b[:i]) + "\xff\xfe" + string(b[i:]), "bad-utf8"
	case 4:
		i := strings.Index(s, ">")
		if i < 0 {
			return s, "none"
		}
		return s[:i+1] + "<!-- c -->" + s[i+1:], "comment"
	case 5:
		i := strings.Index(s, ">")
		if i < 0 {
			return s, "none"
		}
		return s[:i+1] + "<?pi x?>" + s[i+1:], "procinst"
	case 6:
		i := strings.LastIndex(s, "</")
		if i < 0 {
			return s, "none"
		}
		return s[:i] + "</wrong>", "bad-close"
	default:
		i := r.Intn(len(b))
		b[i] = byte(r.Intn(256))
		return string(b), "byte-flip"
	}
}

const (
	nsIBB   = "http://jabber.org/protocol/ibb"
	nsMAM   = "urn:xmpp:mam:2"
	nsFwd   = "urn:xmpp:forward:0"
	nsErr   = "urn:ietf:params:xml:ns:xmpp-stanzas"
	peerJID = "peer@example.net/r"
)

const fwdMsg = `<forwarded xmlns='urn:xmpp:forward:0'><delay xmlns='urn:xmpp:delay' stamp='2010-07-10T23:08:25Z'/><message xmlns='jabber:client' from='witch@shakespeare.lit' to='macbeth@shakespeare.lit' type='chat'><body>Hail to thee</body></message></forwarded>`

// canonical inbound stanzas, by family
var canon = map[string][]string{
	"ping":    {`<iq type='get' id='p1' from='example.net'><ping xmlns='urn:xmpp:ping'/></iq>`},
	"version": {`<iq type='get' id='v1' from='` + peerJID + `'><query xmlns='jabber:iq:version'/></iq>`},
	"time":    {`<iq type='get' id='t1' from='` + peerJID + `'><time xmlns='urn:xmpp:time'/></iq>`},
	"disco": {
		`<iq type='get' id='d1' from='` + peerJID + `'><query xmlns='http://jabber.org/protocol/disco#info'/></iq>`,
		`<iq type='get' id='d2' from='` + peerJID + `'><query xmlns='http://jabber.org/protocol/disco#info' node='n1'/></iq>`,
		`<iq type='get' id='d3' from='` + peerJID + `'><query xmlns='http://jabber.org/protocol/disco#items'/></iq>`,
	},
	"roster": {
		`<iq type='set' id='r1'><query xmlns='jabber:iq:roster' ver='v2'><item jid='nurse@example.com' name='Nurse' subscription='both'><group>Servants</group></item></query></iq>`,
		`<iq type='set' id='r2'><query xmlns='jabber:iq:roster'><item jid='nurse@example.com' name='refuse' subscription='remove'/></query></iq>`,
	},
	"blocklist": {
		`<iq type='get' id='b1'><blocklist xmlns='urn:xmpp:blocking'/></iq>`,
		`<iq type='set' id='b2'><block xmlns='urn:xmpp:blocking'><item jid='romeo@montague.net'/><item jid='iago@shakespeare.lit'><report xmlns='urn:xmpp:reporting:1' reason='urn:xmpp:reporting:spam'><text>spam</text></report></item></block></iq>`,
		`<iq type='set' id='b3'><unblock xmlns='urn:xmpp:blocking'><item jid='romeo@montague.net'/></unblock></iq>`,
		`<iq type='set' id='b4'><unblock xmlns='urn:xmpp:blocking'/></iq>`,
	},
	"ibb": {
		`<iq type='set' id='i1' from='` + peerJID + `' to='me@example.net/res'><open xmlns='` + nsIBB + `' block-size='4096' sid='s1' stanza='iq'/></iq>`,
		`<iq type='set' id='i2' from='` + peerJID + `' to='me@example.net/res'><data xmlns='` + nsIBB + `' seq='0' sid='s1'>aGVsbG8gd29ybGQ=</data></iq>`,
		`<message from='` + peerJID + `' to='me@example.net/res'><data xmlns='` + nsIBB + `' seq='1' sid='s1'>aGVsbG8=</data></message>`,
		`<iq type='set' id='i3' from='` + peerJID + `' to='me@example.net/res'><close xmlns='` + nsIBB + `' sid='s1'/></iq>`,
		`<iq type='set' id='i4' from='` + peerJID + `' to='me@example.net/res'><data xmlns='` + nsIBB + `' seq='0' sid='nosuch'>aGVsbG8=</data></iq>`,
		`<iq type='set' id='i5' from='` + peerJID + `' to='me@example.net/res'><open xmlns='` + nsIBB + `' block-size='65535' sid='s2' stanza='message'/></iq>`,
	},
	"bob": {`<iq type='get' id='x1' from='` + peerJID + `'><data xmlns='urn:xmpp:bob' cid='sha1+8f35fef110ffc5df08d579a50083ff9308fb6242@bob.xmpp.org'/></iq>`},
	"history": {
		`<message id='m1' to='me@example.net/res'><result xmlns='` + nsMAM + `' queryid='q1' id='28482-98726-73623'>` + fwdMsg + `</result></message>`,
		`<message id='m2' to='me@example.net/res'><result xmlns='` + nsMAM + `' queryid='other' id='5d398-28273-f7382'>` + fwdMsg + `</result></message>`,
		`<message id='m3' to='me@example.net/res'><result xmlns='` + nsMAM + `' id='x'/></message>`,
	},
	"receipts": {
		`<message id='rq1' from='` + peerJID + `' type='chat'><body>hi</body><request xmlns='urn:xmpp:receipts'/></message>`,
		`<message from='` + peerJID + `'><received xmlns='urn:xmpp:receipts' id='r1'/></message>`,
		`<message from='` + peerJID + `' type='error'><received xmlns='urn:xmpp:receipts' id='nosuch'/></message>`,
	},
	"carbons": {
		`<message from='me@example.net' to='me@example.net/res' type='chat'><received xmlns='urn:xmpp:carbons:2'><forwarded xmlns='` + nsFwd + `'><message xmlns='jabber:client' from='juliet@capulet.example/balcony' to='me@example.net/res' type='chat'><body>What man art thou</body></message></forwarded></received></message>`,
		`<message from='me@example.net' to='me@example.net/res' type='chat'><sent xmlns='urn:xmpp:carbons:2'><forwarded xmlns='` + nsFwd + `'><message xmlns='jabber:client' to='juliet@capulet.example/balcony' from='me@example.net/home' type='chat'><body>Neither</body></message></forwarded></sent></message>`,
	},
	"muc": {
		`<presence from='room@muc.example.net/nick' to='me@example.net/res'><x xmlns='http://jabber.org/protocol/muc#user'><item affiliation='member' role='participant' jid='me@example.net/res'/><status code='110'/></x></presence>`,
		`<presence from='room@muc.example.net/other' to='me@example.net/res'><x xmlns='http://jabber.org/protocol/muc#user'><item affiliation='none' role='visitor'/></x></presence>`,
		`<presence from='room@muc.example.net/nick' to='me@example.net/res' type='unavailable'><x xmlns='http://jabber.org/protocol/muc#user'><item affiliation='member' role='none'/><status code='110'/></x></presence>`,
		`<message from='room@muc.example.net' to='me@example.net'><x xmlns='http://jabber.org/protocol/muc#user'><invite from='crone1@shakespeare.lit/desktop'><reason>Hey</reason></invite><password>cauldronburn</password></x></message>`,
		`<message from='crone1@shakespeare.lit/desktop' to='me@example.net'><x xmlns='jabber:x:conference' jid='darkcave@macbeth.shakespeare.lit' password='cauldronburn' reason='Hey'/></message>`,
		`<presence from='room@muc.example.net/nick' to='me@example.net/res' type='error'><x xmlns='http://jabber.org/protocol/muc'/><error type='auth'><forbidden xmlns='` + nsErr + `'/></error></presence>`,
	},
	"caps": {`<presence from='romeo@montague.lit/orchard'><c xmlns='http://jabber.org/protocol/caps' hash='sha-1' node='http://code.google.com/p/exodus' ver='QgayPKawpkPSDYmwT/WM94uAlu0='/></presence>`},
	"reply": {
		`<iq type='result' id='zzz' from='example.net'/>`,
		`<iq type='error' id='zzz' from='example.net'><error type='cancel'><item-not-found xmlns='` + nsErr + `'/></error></iq>`,
	},
	"plain": {
		`<message from='` + peerJID + `' type='chat'><body>hello</body></message>`,
		`<presence from='` + peerJID + `'/>`,
		`<message/>`,
		`<iq type='get' id='u1'><query xmlns='urn:example:unknown'/></iq>`,
	},
	"stream": {
		` `,
		`<foo xmlns='urn:example:top'/>`,
		`<stream:features/>`,
	},
}

var families []string

func init() {
	for k := range canon {
		families = append(families, k)
	}
	sortStrings(families)
}

func sortStrings(a []string) {
	for i := 1; i < len(a); i++ {
		for j := i; j > 0 && a[j] < a[j-1]; j-- {
			a[j], a[j-1] = a[j-1], a[j]
		}
	}
}

// genStanza returns one inbound stanza and its labels.
func genStanza(r *hx.Rand, fam string) (string, []string) { return genStanzaD(r, fam, true) }

// genStanzaD is genStanza with byte-level damage optional: a stanza that is not
// well-formed ends the stream (or leaves an element open that swallows what
// follows), so sequences that go on after it use well-formed mutants only.
func genStanzaD(r *hx.Rand, fam string, damageOK bool) (string, []string) {
	list := canon[fam]
	s := list[r.Intn(len(list))]
	labels := []string{"fam/" + fam}
	if fam == "stream" {
		return s, append(labels, "mut/none")
	}
	n := r.Intn(10)
	if !damageOK && n >= 9 {
		n = 5
	}
	switch {
	case n < 2: // canonical
		return s, append(labels, "mut/none")
	case n < 9: // 1-3 structural mutations
		t := parseTree(s)
		k := 1 + r.Intn(3)
		for i := 0; i < k; i++ {
			labels = append(labels, "mut/"+mutate(r, t, false))
		}
		return t.String(), labels
	default: // byte-level damage
		d, l := damage(r, s)
		return d, append(labels, "dmg/"+l)
	}
}

// ---- replies for the request helpers ----

const rsmSet = `<set xmlns='http://jabber.org/protocol/rsm'><first index='0'>a</first><last>z</last><count>9</count></set>`

const formX = `<x xmlns='jabber:x:data' type='result'><field var='FORM_TYPE' type='hidden'><value>urn:xmpp:dataforms:softwareinfo</value></field><field var='os'><value>Mac</value></field></x>`

// a configuration form as a room or a node sends it (XEP-0045 / XEP-0060), with fields of every kind
const cfgForm = `<x xmlns='jabber:x:data' type='form'><title>Configuration</title><instructions>Fill in</instructions>` +
	`<field type='hidden' var='FORM_TYPE'><value>http://jabber.org/protocol/muc#roomconfig</value></field>` +
	`<field label='Name' type='text-single' var='muc#roomconfig_roomname'><value>A Dark Cave</value></field>` +
	`<field label='Description' type='text-multi' var='muc#roomconfig_roomdesc'><value>The place for all good witches!</value><value>second line</value></field>` +
	`<field label='Public' type='boolean' var='muc#roomconfig_publicroom'><value>0</value></field>` +
	`<field label='Max' type='list-single' var='muc#roomconfig_maxusers'><value>10</value><option label='10'><value>10</value></option><option label='20'><value>20</value></option></field>` +
	`<field label='Roles' type='list-multi' var='muc#roomconfig_presencebroadcast'><value>moderator</value><value>participant</value><option><value>moderator</value></option><option><value>participant</value></option></field>` +
	`<field label='Admins' type='jid-multi' var='muc#roomconfig_roomadmins'><value>wiccarocks@shakespeare.lit</value></field>` +
	`<field label='Owner' type='jid-single' var='muc#roomconfig_owner'><value>hecate@shakespeare.lit</value></field>` +
	`<field type='fixed'><value>Section</value></field></x>`

// values at the boundaries of line splitting and trimming
var formBoundary = []string{"", "a&#13;", "a\n", "a&#13;\n", "&#13;", "\n", "\n\n", "&#13;\n&#13;\n", "a\n\nb", "a&#13;b", " ", "\t", strings.Repeat("x", 5000), "a\n" + strings.Repeat("y", 3000) + "&#13;"}

// formBoundaryMutate replaces the content of 1-3 <value/> elements by boundary values.
func formBoundaryMutate(r *hx.Rand, root *node) {
	var els, vals []*node
	root.elements(&els)
	for _, e := range els {
		if e.name == "value" {
			vals = append(vals, e)
		}
	}
	if len(vals) == 0 {
		return
	}
	for k := 1 + r.Intn(3); k > 0; k-- {
		v := vals[r.Intn(len(vals))]
		v.kids = []*node{{text: formBoundary[r.Intn(len(formBoundary))], rawTxt: true}}
	}
}

var errReply = `<iq type='error' id='{ID}' from='example.net'><error type='cancel'><service-unavailable xmlns='` + nsErr + `'/><text xmlns='` + nsErr + `' xml:lang='en'>no</text></error></iq>`

func res(payload string) string {
	return `<iq type='result' id='{ID}' from='example.net'>` + payload + `</iq>`
}

// canonical result replies per helper
var canonReply = map[string][]string{
	"ping":           {res(``)},
	"version":        {res(`<query xmlns='jabber:iq:version'><name>Exodus</name><version>0.7.0.4</version><os>Windows-XP 5.01.2600</os></query>`)},
	"xtime":          {res(`<time xmlns='urn:xmpp:time'><tzo>-06:00</tzo><utc>2006-12-19T17:58:35Z</utc></time>`)},
	"carbons-enable": {res(``), res(`<enable xmlns='urn:xmpp:carbons:2'/>`)},
	"upload": {res(`<slot xmlns='urn:xmpp:http:upload:0'><put url='https://upload.montague.tld/4a771ac1/tr.jpg'><header name='Authorization'>Basic Base64String==</header><header name='Cookie'>foo=bar</header></put><get url='https://download.montague.tld/4a771ac1/tr.jpg'/></slot>`),
		res(`<slot xmlns='urn:xmpp:http:upload:0'><get url='https://download.montague.tld/x'/></slot>`)},
	"history-fetch": {res(`<fin xmlns='` + nsMAM + `' complete='true'><set xmlns='http://jabber.org/protocol/rsm'><first index='0'>a</first><last>b</last><count>2</count></set></fin>`)},
	"history-iter":  {res(`<fin xmlns='` + nsMAM + `' complete='true'><set xmlns='http://jabber.org/protocol/rsm'><first index='0'>a</first><last>b</last><count>2</count></set></fin>`)},
	"disco-info": {res(`<query xmlns='http://jabber.org/protocol/disco#info'><identity category='conference' type='text' name='Play'/><feature var='http://jabber.org/protocol/disco#info'/><feature var='http://jabber.org/protocol/muc'/>` + formX + `</query>`),
		res(`<query xmlns='http://jabber.org/protocol/disco#info'><x xmlns='jabber:x:data' type='result'/></query>`)},
	"disco-items": {res(`<query xmlns='http://jabber.org/protocol/disco#items'><item jid='people.shakespeare.lit' name='Directory'/><item jid='catalog.shakespeare.lit' node='books' name='Books'/></query>`),
		res(`<query xmlns='http://jabber.org/protocol/disco#items'><item jid='people.shakespeare.lit' name='Directory'/>` + rsmSet + `</query>`)},
	"disco-walk":     {res(`<query xmlns='http://jabber.org/protocol/disco#items'><item jid='people.shakespeare.lit' name='Directory'/><item jid='example.net' node='books'/></query>`)},
	"commands-fetch": {res(`<query xmlns='http://jabber.org/protocol/disco#items' node='http://jabber.org/protocol/commands'><item jid='responder@domain' node='list' name='List Service Configurations'/><item jid='responder@domain' node='config' name='Configure Service'/></query>`)},
	"commands-exec": {res(`<command xmlns='http://jabber.org/protocol/commands' sessionid='list:20020923T213616Z-700' node='list' status='completed'><x xmlns='jabber:x:data' type='result'><title>Available Services</title></x></command>`),
		res(`<command xmlns='http://jabber.org/protocol/commands' sessionid='config:1' node='config' status='executing'><actions execute='next'><next/></actions><note type='info'>n</note></command>`)},
	"roster-fetch":     {res(`<query xmlns='jabber:iq:roster' ver='ver11'><item jid='romeo@example.net' name='Romeo' subscription='both'><group>Friends</group></item><item jid='mercutio@example.com' name='Mercutio' subscription='from'/></query>`)},
	"roster-set":       {res(``)},
	"blocklist-fetch":  {res(`<blocklist xmlns='urn:xmpp:blocking'><item jid='romeo@montague.net'/><item jid='iago@shakespeare.lit'/></blocklist>`)},
	"blocklist-add":    {res(``)},
	"pubsub-fetch":     {res(`<pubsub xmlns='http://jabber.org/protocol/pubsub'><items node='princely_musings'><item id='368866411b877c30064a5f62b917cffe'><entry xmlns='http://www.w3.org/2005/Atom'><title>The Uses of This World</title></entry></item><item id='3300659945416e274474e469a1f0154c'><entry xmlns='http://www.w3.org/2005/Atom'><title>Ghostly Encounters</title></entry></item></items></pubsub>`)},
	"bookmarks-fetch":  {res(`<pubsub xmlns='http://jabber.org/protocol/pubsub'><items node='urn:xmpp:bookmarks:1'><item id='theplay@conference.shakespeare.lit'><conference xmlns='urn:xmpp:bookmarks:1' name='The Play' autojoin='true'><nick>JC</nick></conference></item><item id='orchard@conference.shakespeare.lit'><conference xmlns='urn:xmpp:bookmarks:1' name='The Orchard' autojoin='1'><nick>JC</nick><extensions><state xmlns='http://myclient.example/bookmark/state' minimized='true'/></extensions></conference></item></items></pubsub>`)},
	"unmarshal-struct": {res(`<query xmlns='urn:example:q' a='1'><b>2</b></query>`)},
	"iter-plain":       {res(`<query xmlns='urn:example:q'><a/><b>t</b><c><d/></c></query>`)},
	"ibb-open":         {res(``)},
	"muc-config":       {res(`<query xmlns='http://jabber.org/protocol/muc#owner'>` + cfgForm + `</query>`)},
	"pubsub-config":    {res(`<pubsub xmlns='http://jabber.org/protocol/pubsub#owner'><configure node='princely_musings'>` + cfgForm + `</configure></pubsub>`)},
}

var helperNames []string

func init() {
	for k := range canonReply {
		helperNames = append(helperNames, k)
	}
	sortStrings(helperNames)
}

// genReply returns one reply (with the {ID} placeholder) and its labels.
func genReply(r *hx.Rand, helper string) (string, []string) {
	list := canonReply[helper]
	s := list[r.Intn(len(list))]
	n := r.Intn(20)
	if strings.Contains(s, "jabber:x:data") && r.Chance(1, 2) {
		// a form the helper will decode (and possibly submit again): values at the
		// boundaries of line splitting
		t := parseTree(s)
		formBoundaryMutate(r, t)
		labels := []string{"reply/form-boundary"}
		if r.Chance(1, 3) {
			labels = append(labels, "mut/"+mutate(r, t, true))
		}
		return t.String(), labels
	}
	switch {
	case n < 3:
		return s, []string{"reply/canonical"}
	case n < 5:
		return errReply, []string{"reply/error"}
	case n == 5:
		return res(``), []string{"reply/empty"}
	case n == 6: // text first
		t := parseTree(s)
		t.kids = append([]*node{{text: oddTexts[r.Intn(len(oddTexts))], rawTxt: true}}, t.kids...)
		return t.String(), []string{"reply/text-first"}
	case n == 7: // wrong payload
		return res(`<query xmlns='urn:example:wrong'><item/></query>`), []string{"reply/wrong-payload"}
	case n == 8: // error reply, mutated
		t := parseTree(errReply)
		l := mutate(r, t, true)
		return t.String(), []string{"reply/error-mutated", "mut/" + l}
	case n == 9: // damaged bytes after the start tag (the id must survive)
		i := strings.Index(s, ">") + 1
		d, l := damage(r, s[i:])
		return s[:i] + d, []string{"reply/damaged", "dmg/" + l}
	default:
		t := parseTree(s)
		labels := []string{"reply/mutated"}
		k := 1 + r.Intn(3)
		for i := 0; i < k; i++ {
			labels = append(labels, "mut/"+mutate(r, t, true))
		}
		return t.String(), labels
	}
}
