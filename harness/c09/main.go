// Command c09 is the correspondence harness and implementation oracle for
// property C09: no peer input can panic or wedge the library.
//
// The process started by ./check is a supervisor: it derives the list of cases
// from the seed, and runs them in worker processes (the same binary), because a
// panic in a goroutine the library itself started cannot be recovered and takes
// the process down. A worker that dies is a finding: the supervisor re-runs the
// cases that were in flight one by one to find the one that kills it and
// records the panic with the library frame taken from the crash trace.
package main

import (
	"bufio"
	"bytes"
	"encoding/json"
	"encoding/xml"
	"fmt"
	"io"
	"os"
	"os/exec"
	"path/filepath"
	"strconv"
	"strings"
	"sync"

	"mellium.im/xmlstream"

	"verifharness/hx"
)

const imports = "From XV Require Import lib.Bytes lib.Xml gen.C09Sites C09.Model.\n"

func xmlstreamWrapEmpty(n xml.Name) xml.TokenReader {
	return xmlstream.Wrap(nil, xml.StartElement{Name: n})
}

func eofOr(err error) error {
	if err == nil {
		return io.EOF
	}
	return err
}

// ---- the case list (a function of seed, tier, search) ----

const rcvd1 = `<message from='` + peerJID + `' type='chat'><received xmlns='urn:xmpp:receipts' id='r1'/></message>`
const rcvd3 = `<message from='` + peerJID + `' type='chat'><received xmlns='urn:xmpp:receipts' id='r1'/><received xmlns='urn:xmpp:receipts' id='r1'/><received xmlns='urn:xmpp:receipts' id='r1'/></message>`

func corpus() []Case {
	txt := func(s string) []string { return []string{s} }
	cs := []Case{
		// history: the first child of the message is character data
		{Kind: "serve", Seq: txt(`<message id='m1'>text<result xmlns='` + nsMAM + `' queryid='q1' id='1'>` + fwdMsg + `</result></message>`), Labels: []string{"corpus/history-text-first"}},
		{Kind: "serve", Setup: []string{"hist-consumer"}, Seq: txt(`<message id='m1'> <result xmlns='` + nsMAM + `' queryid='q1' id='1'>` + fwdMsg + `</result></message>`), Labels: []string{"corpus/history-space-first-tracked"}},
		{Kind: "serve", Setup: []string{"hist-consumer"}, Seq: []string{canon["history"][0], canon["history"][0], canon["history"][1]}, Labels: []string{"corpus/history-tracked"}},
		// history: tracked result and nobody iterating; the iterator is closed later
		{Kind: "serve", Setup: []string{"hist-closer"}, Seq: []string{canon["history"][0], canon["ping"][0]}, Labels: []string{"corpus/history-abandoned-iterator"}},
		// other handlers: character data among the children
		{Kind: "serve", Seq: txt(`<message from='` + peerJID + `' type='chat'>text<request xmlns='urn:xmpp:receipts'/></message>`), Labels: []string{"corpus/receipts-text-child"}},
		{Kind: "serve", Seq: txt(`<message from='me@example.net' type='chat'>text<received xmlns='urn:xmpp:carbons:2'/></message>`), Labels: []string{"corpus/carbons-text-child"}},
		{Kind: "serve", Seq: txt(`<iq type='set' id='b2'><block xmlns='urn:xmpp:blocking'> <item jid='romeo@montague.net'/></block></iq>`), Labels: []string{"corpus/blocklist-space-child"}},
		{Kind: "serve", Seq: txt(`<iq type='set' id='b2'><block xmlns='urn:xmpp:blocking'><item/></block></iq>`), Labels: []string{"corpus/blocklist-no-attr"}},
		{Kind: "serve", Seq: txt(`<iq type='set' id='b2'><unblock xmlns='urn:xmpp:blocking'><item jid='@@'/></unblock></iq>`), Labels: []string{"corpus/blocklist-bad-jid"}},
		{Kind: "serve", Setup: []string{"ibb-listen"}, Seq: canon["ibb"], Labels: []string{"corpus/ibb-session"}},
		{Kind: "serve", Setup: []string{"receipt-pending"}, Seq: []string{canon["receipts"][1], canon["receipts"][1]}, Labels: []string{"corpus/receipts-pending"}},
		{Kind: "serve", Setup: []string{"muc-join"}, Seq: []string{canon["muc"][1], canon["muc"][0], canon["muc"][2]}, Labels: []string{"corpus/muc-join"}},
		// application-side state between stanzas (full local address unless Bare)
		// ibb: the listener is closed, then the peer opens a stream to the session's address
		{Kind: "serve", Seq: []string{"@ibb-listen", "@ibb-acceptor", "@ibb-close-listener", canon["ibb"][0], canon["ping"][0]}, Labels: []string{"corpus/ibb-open-after-listener-close"}},
		{Kind: "serve", Seq: []string{"@ibb-listen", "@ibb-close-listener", canon["ibb"][0], "@ibb-listen", "@ibb-acceptor", canon["ibb"][5], canon["ibb"][1]}, Labels: []string{"corpus/ibb-listen-close-listen"}},
		{Kind: "serve", Bare: true, Seq: []string{"@ibb-listen", "@ibb-acceptor", canon["ibb"][0], "@ibb-close-listener", canon["ibb"][5]}, Labels: []string{"corpus/ibb-open-after-listener-close-bare"}},
		{Kind: "serve", Seq: []string{"@ibb-listen", "@ibb-acceptor", "@ibb-expect", canon["ibb"][0], canon["ibb"][1], "@ibb-expect", "@ibb-expect-cancel", canon["ibb"][5], "@ibb-conn-close", canon["ibb"][2]}, Labels: []string{"corpus/ibb-expect-cancel"}},
		// muc: joined, removed by the room with no Leave pending, joined again, removed again
		{Kind: "serve", Seq: []string{"@muc-join", canon["muc"][0], canon["muc"][2], "@muc-rejoin", canon["muc"][0], canon["muc"][2], canon["ping"][0]}, Labels: []string{"corpus/muc-removed-twice"}},
		{Kind: "serve", Seq: []string{"@muc-join", canon["muc"][0], canon["muc"][2], "@muc-rejoin", canon["muc"][0], "@muc-leave", canon["muc"][2], "@muc-rejoin", canon["muc"][0], canon["muc"][2]}, Labels: []string{"corpus/muc-removed-leave-removed"}},
		// ibb: Expect taken over by a second call for the same session; nobody in Accept; then the peer opens it
		{Kind: "serve", Seq: []string{"@ibb-listen", "@ibb-expect", "@ibb-expect", canon["ibb"][0], canon["ping"][0]}, Labels: []string{"corpus/ibb-expect-takeover"}},
		{Kind: "serve", Seq: []string{"@ibb-listen", "@ibb-expect", "@ibb-expect", "@ibb-expect", canon["ibb"][0], canon["ibb"][1]}, Labels: []string{"corpus/ibb-expect-takeover-twice"}},
		{Kind: "serve", Seq: []string{"@ibb-listen", "@ibb-acceptor", "@ibb-expect", "@ibb-expect-cancel", "@ibb-expect", canon["ibb"][0], canon["ibb"][5]}, Labels: []string{"corpus/ibb-expect-cancel-expect"}},
		// ibb: a local Write on an IQ-acknowledged stream waits for its ack; the peer sends <close/> instead
		{Kind: "serve", Seq: []string{"@ibb-listen", "@ibb-acceptor", canon["ibb"][0], "@ibb-write", canon["ibb"][3], canon["ping"][0]}, Labels: []string{"corpus/ibb-close-while-writing"}},
		{Kind: "serve", Bare: true, Seq: []string{"@ibb-listen", "@ibb-acceptor", canon["ibb"][0], canon["ibb"][1], "@ibb-write", canon["ibb"][3], canon["ibb"][0], "@ibb-write", canon["ibb"][3]}, Labels: []string{"corpus/ibb-close-while-writing-bare"}},
		// receipts: the same receipt several times while the message awaits it (the sender cannot run: the peer
		// does not read), then a probe stanza that is only read once the receipts have been handled
		{Kind: "serve", Seq: []string{"@rcpt-send-held", rcvd3, `<message type='chat'><body>probe</body></message>`, "@out-release", canon["ping"][0]}, Labels: []string{"corpus/receipts-repeated-while-pending"}},
		{Kind: "serve", Seq: []string{"@rcpt-send", rcvd3, rcvd1, rcvd1, rcvd1, canon["ping"][0]}, Labels: []string{"corpus/receipts-repeated"}},
		{Kind: "serve", Seq: []string{rcvd3, rcvd1, rcvd1, "@rcpt-send", "@rcpt-cancel", rcvd1, rcvd3}, Labels: []string{"corpus/receipts-repeated-none-pending"}},
		// history: a tracked result cut short by the end of input / by invalid XML after the result's start tag
		{Kind: "serve", Setup: []string{"hist-consumer"}, Seq: []string{`<message id='m1' to='me@example.net/res'><result xmlns='` + nsMAM + `' queryid='q1' id='1'><forwarded xmlns='urn:xmpp:forward:0'>`}, End: "eof", Labels: []string{"corpus/history-tracked-truncated"}},
		{Kind: "serve", Setup: []string{"hist-consumer"}, Seq: []string{canon["history"][0], `<message id='m1' to='me@example.net/res'><result xmlns='` + nsMAM + `' queryid='q1' id='1'><forwarded xmlns='urn:xmpp:forward:0'><<</forwarded></result></message>`}, Labels: []string{"corpus/history-tracked-bad-xml"}},
		{Kind: "serve", Seq: []string{"@hist-fetch-consume", `<message id='m1' to='me@example.net/res'><result xmlns='` + nsMAM + `' queryid='q1' id='1'><!-- c --></result></message>`}, Labels: []string{"corpus/history-tracked-comment"}},
		// handlers constructed without their optional callbacks; receipts nobody waits for, several in a row
		{Kind: "serve", NilCB: true, Seq: []string{rcvd1, rcvd1, rcvd1, canon["ping"][0]}, Labels: []string{"corpus/receipts-unmatched-no-callback"}},
		{Kind: "serve", NilCB: true, Seq: []string{canon["receipts"][2], rcvd3, "@rcpt-send", rcvd1, rcvd1, canon["receipts"][0]}, Labels: []string{"corpus/receipts-unmatched-no-callback-2"}},
		{Kind: "serve", NilCB: true, Seq: []string{"@muc-join", canon["muc"][0], canon["muc"][1], canon["muc"][3], canon["muc"][2], canon["history"][1], canon["blocklist"][0], canon["blocklist"][1], canon["blocklist"][3], canon["time"][0]}, Labels: []string{"corpus/no-callbacks-tour"}},
		// history and receipts: iterators and pending sends opened and given up between stanzas
		{Kind: "serve", Seq: []string{"@hist-fetch-consume", canon["history"][0], "@hist-close", canon["history"][0], canon["history"][1]}, Labels: []string{"corpus/history-close-between"}},
		{Kind: "serve", Seq: []string{"@rcpt-send", "@rcpt-cancel", canon["receipts"][1], "@rcpt-send", canon["receipts"][1], canon["receipts"][1]}, Labels: []string{"corpus/receipts-cancel-between"}},
		// helpers
		{Kind: "helper", Helper: "version", Replies: txt(res(`text<query xmlns='jabber:iq:version'/>`)), Labels: []string{"corpus/unmarshal-text-first"}},
		{Kind: "helper", Helper: "version", Replies: txt(res(` <query xmlns='jabber:iq:version'><name>n</name></query>`)), Labels: []string{"corpus/unmarshal-space-first"}},
		{Kind: "helper", Helper: "history-iter", Replies: txt(res(`text`)), Labels: []string{"corpus/history-iter-text"}},
		{Kind: "helper", Helper: "commands-exec", Replies: txt(res(``)), Labels: []string{"corpus/commands-empty-result"}},
		{Kind: "helper", Helper: "commands-exec", Replies: txt(res(`text`)), Labels: []string{"corpus/commands-text"}},
		{Kind: "helper", Helper: "roster-fetch", Replies: txt(`<iq type='result' id='{ID}'><query xmlns='jabber:iq:roster'><item jid='a@example.net'/><<`), Labels: []string{"corpus/iter-close-after-bad-xml"}},
		{Kind: "helper", Helper: "pubsub-fetch", Replies: txt(`<iq type='result' id='{ID}'><pubsub xmlns='http://jabber.org/protocol/pubsub'><items node='n'><item id='1'><a/></item><<`), Labels: []string{"corpus/pubsub-close-after-bad-xml"}},
		{Kind: "helper", Helper: "disco-items", Replies: []string{canonReply["disco-items"][1], errReply}, Labels: []string{"corpus/items-next-page-fails"}},
		{Kind: "helper", Helper: "disco-items", Replies: []string{canonReply["disco-items"][1], canonReply["disco-items"][0]}, Labels: []string{"corpus/items-two-pages"}},
		{Kind: "helper", Helper: "upload", Replies: txt(canonReply["upload"][1]), Labels: []string{"corpus/upload-no-put-url"}},
		{Kind: "helper", Helper: "ping", Replies: txt(errReply), Labels: []string{"corpus/ping-unavailable"}},
		// a form fetched from the peer and submitted again: text-multi values ending in CR, LF, CR LF
		{Kind: "helper", Helper: "muc-config", Replies: txt(strings.Replace(canonReply["muc-config"][0], "second line", "second line&#13;", 1)), Labels: []string{"corpus/form-value-ends-in-cr"}},
		{Kind: "helper", Helper: "muc-config", Replies: txt(strings.Replace(canonReply["muc-config"][0], "second line", "a&#13;\nb\n", 1)), Labels: []string{"corpus/form-value-crlf"}},
		{Kind: "helper", Helper: "pubsub-config", Replies: txt(strings.Replace(canonReply["pubsub-config"][0], "second line", "&#13;", 1)), Labels: []string{"corpus/form-value-lone-cr"}},
		{Kind: "func", Func: "carbons-unwrap", Seq: txt(canon["carbons"][0]), Labels: []string{"corpus/carbons-unwrap"}},
		{Kind: "func", Func: "forward-unwrap", Seq: txt(canon["carbons"][1]), Labels: []string{"corpus/forward-unwrap"}},
	}
	// every canonical stanza alone and every canonical reply
	for _, fam := range families {
		for _, s := range canon[fam] {
			cs = append(cs, Case{Kind: "serve", Seq: txt(s), Labels: []string{"corpus/canon", "fam/" + fam}})
		}
	}
	for _, h := range helperNames {
		for _, rep := range canonReply[h] {
			cs = append(cs, Case{Kind: "helper", Helper: h, Replies: txt(rep), Labels: []string{"corpus/canon-reply"}})
		}
		cs = append(cs, Case{Kind: "helper", Helper: h, Replies: txt(errReply), Labels: []string{"corpus/error-reply"}})
	}
	// request helpers in 1-4 goroutines against a flood of results with known and unknown ids
	for g := 1; g <= 4; g++ {
		cs = append(cs, Case{Kind: "flood", Par: g, Bare: g == 2, Labels: []string{"corpus/flood"}})
	}
	cs = append(cs, Case{Kind: "flood", Par: 4, Labels: []string{"corpus/flood"}}, Case{Kind: "flood", Par: 3, Labels: []string{"corpus/flood"}})
	var out []Case
	for _, c := range cs {
		if c.Kind == "serve" {
			if c.End == "" {
				c.End = "close"
			}
			t := c
			t.Tap = true
			out = append(out, c, t)
		} else {
			out = append(out, c)
		}
	}
	return out
}

func genCases(o hx.Opts) []Case {
	r := hx.NewRand(o.Seed)
	nSeq, nRep, nFun := 3000, 150, 800
	if o.Thorough() {
		nSeq, nRep, nFun = 15000, 700, 4000
	}
	if o.Search {
		nSeq, nRep, nFun = nSeq*4, nRep*4, nFun*2
	}
	cs := corpus()
	if o.Thorough() {
		// a listener nobody accepts from: parks Serve for the whole watchdog (known finding, C15's file)
		cs = append(cs, Case{Kind: "serve", End: "close", Setup: []string{"ibb-listen-noaccept"}, Seq: []string{canon["ibb"][0], canon["ping"][0]}, Labels: []string{"corpus/ibb-listen-noaccept"}})
	}
	setups := [][]string{nil, nil, nil, {"hist-consumer"}, {"hist-consumer", "ibb-listen"}, {"ibb-listen", "receipt-pending"}, {"muc-join"}, {"hist-consumer", "ibb-listen", "receipt-pending", "muc-join"}}
	for i := 0; i < nSeq; i++ {
		c := Case{Kind: "serve", End: "close", Setup: setups[r.Intn(len(setups))], Bare: r.Chance(3, 10), NilCB: r.Chance(3, 10)}
		if r.Chance(1, 5) {
			c.End = "eof"
		}
		if r.Chance(1, 4) {
			// application-side operations interleaved with the peer's stanzas
			c.Setup = nil
			c.Seq, c.Labels = genOpSeq(r)
			t := c
			t.Tap = true
			cs = append(cs, c, t)
			continue
		}
		n := 1 + r.Intn(5)
		// a sequence stays mostly within one family so that state from earlier stanzas is exercised
		fam := families[r.Intn(len(families))]
		for j := 0; j < n; j++ {
			f := fam
			if r.Chance(1, 3) {
				f = families[r.Intn(len(families))]
			}
			s, labels := genStanza(r, f)
			c.Seq = append(c.Seq, s)
			c.Labels = append(c.Labels, labels...)
		}
		t := c
		t.Tap = true
		cs = append(cs, c, t)
	}
	for _, h := range helperNames {
		for i := 0; i < nRep; i++ {
			rep, labels := genReply(r, h)
			c := Case{Kind: "helper", Helper: h, Replies: []string{rep}, Labels: labels}
			if (h == "disco-items" || h == "commands-fetch" || h == "disco-walk") && r.Chance(1, 2) {
				rep2, l2 := genReply(r, h)
				c.Replies = append(c.Replies, rep2)
				c.Labels = append(c.Labels, l2...)
			}
			cs = append(cs, c)
		}
	}
	for i := 0; i < nFun; i++ {
		s, labels := genStanza(r, "carbons")
		f := "carbons-unwrap"
		if r.Chance(1, 2) {
			f = "forward-unwrap"
		}
		cs = append(cs, Case{Kind: "func", Func: f, Seq: []string{s}, Labels: labels})
	}
	return cs
}

// genOpSeq interleaves application-side operations with (mostly mutated)
// stanzas of one family. The walk keeps to histories in which a registered
// listener is always accepted from: a listener nobody accepts from parks Serve
// by design (known finding, exercised by one corpus case of the thorough tier).
func genOpSeq(r *hx.Rand) (seq []string, labels []string) {
	st := func(fam string, i int) {
		if i >= 0 && r.Chance(2, 3) {
			seq = append(seq, canon[fam][i]) // the canonical stanza: state moves on
			labels = append(labels, "fam/"+fam, "mut/none")
			return
		}
		s, l := genStanzaD(r, fam, false)
		seq = append(seq, s)
		labels = append(labels, l...)
	}
	n := 3 + r.Intn(6)
	switch r.Intn(4) {
	case 0: // ibb
		if r.Chance(1, 4) {
			// nobody accepts, but every <open/> is for the session a live Expect call
			// waits for (calls taken over, cancelled and renewed in between): each must
			// be delivered to that call
			labels = append(labels, "ops/ibb-expect-only")
			seq = append(seq, "@ibb-listen")
			for i := 0; i < 1+r.Intn(3); i++ {
				seq = append(seq, "@ibb-expect")
				for j := r.Intn(3); j > 0; j-- {
					if r.Chance(1, 3) {
						seq = append(seq, "@ibb-expect-cancel")
					}
					seq = append(seq, "@ibb-expect")
				}
				seq = append(seq, canon["ibb"][0])
				if r.Chance(1, 2) {
					seq = append(seq, canon["ibb"][1]) // data for the stream just opened
				}
			}
			return seq, labels
		}
		labels = append(labels, "ops/ibb")
		open := false
		for i := 0; i < n; i++ {
			switch k := r.Intn(9); {
			case k == 0 && !open:
				seq = append(seq, "@ibb-listen", "@ibb-acceptor")
				open = true
			case k == 1 && open:
				seq = append(seq, "@ibb-close-listener")
				open = false
			case k == 2 && open:
				seq = append(seq, "@ibb-expect")
				switch r.Intn(3) {
				case 0:
					seq = append(seq, "@ibb-expect-cancel")
				case 1:
					seq = append(seq, "@ibb-expect") // takes the first call over
				}
			case k == 3:
				if r.Chance(1, 2) {
					seq = append(seq, "@ibb-conn-close")
				} else if open {
					// a stream of ours with a Write waiting for its ack, then the peer closes it
					seq = append(seq, canon["ibb"][0], "@ibb-write")
					if r.Chance(2, 3) {
						seq = append(seq, canon["ibb"][3])
					}
					labels = append(labels, "ibb/write-then-close")
				}
			case k == 4:
				st("ibb", 0)
			case k == 5:
				st("ibb", 5)
			default:
				st("ibb", -1)
			}
		}
		st("ibb", 0)
	case 1: // muc
		labels = append(labels, "ops/muc")
		joined, ever := false, false
		for i := 0; i < n; i++ {
			switch k := r.Intn(8); {
			case (k == 0 || !ever) && !joined:
				if !ever {
					seq = append(seq, "@muc-join")
				} else {
					seq = append(seq, "@muc-rejoin")
				}
				seq = append(seq, canon["muc"][0])
				joined, ever = true, true
			case k == 1 && joined:
				seq = append(seq, "@muc-leave")
			case (k == 2 || k == 3) && joined:
				seq = append(seq, canon["muc"][2])
				joined = false
			case k == 4:
				seq = append(seq, "@muc-rejoin", canon["muc"][0])
				joined = true
			default:
				st("muc", -1)
			}
		}
	case 2: // history
		labels = append(labels, "ops/history")
		for i := 0; i < n; i++ {
			switch r.Intn(5) {
			case 0:
				seq = append(seq, "@hist-fetch-consume")
			case 1:
				seq = append(seq, "@hist-close")
			default:
				st("history", -1)
			}
		}
		// the last stanza may be cut short or not well formed
		if s, l := genStanza(r, "history"); true {
			seq = append(seq, s)
			labels = append(labels, l...)
		}
	default: // receipts
		labels = append(labels, "ops/receipts")
		for i := 0; i < n; i++ {
			switch r.Intn(7) {
			case 0:
				seq = append(seq, "@rcpt-send")
			case 1:
				seq = append(seq, "@rcpt-cancel")
			case 2, 3: // the same receipt 2-5 times, in one message or back to back
				if r.Chance(1, 2) {
					seq = append(seq, rcvd3)
				}
				for j, m := 0, 2+r.Intn(4); j < m; j++ {
					seq = append(seq, rcvd1)
				}
				labels = append(labels, "receipts/repeated")
			default:
				st("receipts", -1)
			}
		}
	}
	return seq, labels
}

// ---- worker ----

func worker(cases []Case, idx []int, par int) {
	out := bufio.NewWriter(os.Stdout)
	var mu sync.Mutex
	emit := func(s string) {
		mu.Lock()
		out.WriteString(s + "\n")
		out.Flush()
		mu.Unlock()
	}
	ch := make(chan int)
	var wg sync.WaitGroup
	for p := 0; p < par; p++ {
		wg.Add(1)
		go func() {
			defer wg.Done()
			for i := range ch {
				emit(fmt.Sprintf("@@START %d", i))
				o := runCase(cases[i])
				b, _ := json.Marshal(o)
				emit(fmt.Sprintf("@@RESULT %d %s", i, b))
			}
		}()
	}
	for _, i := range idx {
		ch <- i
	}
	close(ch)
	wg.Wait()
}

// ---- supervisor ----

type sup struct {
	o      hx.Opts
	cases  []Case
	obs    map[int]Obs
	nspawn int
}

// spawn runs a worker on idx and returns the indices that were started but
// produced no result (the worker died) and the crash output.
func (s *sup) spawn(idx []int, par int) (inflight []int, crash string) {
	strs := make([]string, len(idx))
	for i, v := range idx {
		strs[i] = strconv.Itoa(v)
	}
	// the index list goes through a file: an environment string is limited to 128 KiB
	s.nspawn++
	listFile := filepath.Join(s.o.Out, fmt.Sprintf("worker_%d.idx", s.nspawn))
	if err := os.WriteFile(listFile, []byte(strings.Join(strs, ",")), 0o644); err != nil {
		return idx, err.Error()
	}
	defer os.Remove(listFile)
	cmd := exec.Command(os.Args[0], os.Args[1:]...)
	cmd.Env = append(os.Environ(), "C09_WORKER="+listFile, "C09_PAR="+strconv.Itoa(par), "GOTRACEBACK=all")
	var stderr bytes.Buffer
	cmd.Stderr = &stderr
	stdout, err := cmd.StdoutPipe()
	if err != nil {
		return idx, err.Error()
	}
	if err := cmd.Start(); err != nil {
		return nil, "cannot start worker: " + err.Error()
	}
	started := map[int]bool{}
	sc := bufio.NewScanner(stdout)
	sc.Buffer(make([]byte, 1<<20), 1<<30)
	for sc.Scan() {
		line := sc.Text()
		switch {
		case strings.HasPrefix(line, "@@START "):
			i, _ := strconv.Atoi(line[8:])
			started[i] = true
		case strings.HasPrefix(line, "@@RESULT "):
			rest := line[9:]
			sp := strings.IndexByte(rest, ' ')
			i, _ := strconv.Atoi(rest[:sp])
			var o Obs
			if json.Unmarshal([]byte(rest[sp+1:]), &o) == nil {
				s.obs[i] = o
				delete(started, i)
			}
		}
	}
	werr := cmd.Wait()
	if werr == nil && len(started) == 0 {
		return nil, ""
	}
	for _, i := range idx {
		if started[i] {
			inflight = append(inflight, i)
		}
	}
	return inflight, stderr.String()
}

func crashObs(crash string) Obs {
	var o Obs
	o.Class = "panic"
	msg := crash
	if i := strings.Index(crash, "fatal error: "); i >= 0 {
		// the runtime aborts the process (concurrent map access, deadlock ...): not a panic
		msg = crash[i:]
		first := msg
		if j := strings.IndexByte(first, '\n'); j >= 0 {
			first = first[:j]
		}
		kind := strings.NewReplacer("fatal error: ", "", " ", "-").Replace(first)
		if strings.Contains(first, "concurrent map") {
			kind = "concurrent-map"
		}
		fr := libFrame(msg)
		o.Detail = first
		o.fail("C09/crash/fatal/"+kind, "the Go runtime aborted the process ("+first+"); first library frame "+fr)
		o.NonTriv = true
		o.Classes = []string{"crash"}
		return o
	}
	if i := strings.Index(crash, "panic: "); i >= 0 {
		msg = crash[i:]
	}
	first := msg
	if i := strings.IndexByte(first, '\n'); i >= 0 {
		first = first[:i]
	}
	// the panicking goroutine's trace is the first one after the message
	trace := msg
	if i := strings.Index(trace, "\n\n"); i >= 0 {
		if j := strings.Index(trace[i+2:], "\n\n"); j >= 0 {
			trace = trace[:i+2+j]
		}
	}
	fr := libFrame(trace)
	o.Detail = first
	o.fail("C09/crash/panic/"+fr, "a goroutine started by the library panicked in "+fr+" and took the process down: "+first)
	o.NonTriv = true
	o.Classes = []string{"crash"}
	return o
}

func (s *sup) runAll(par int) {
	pending := make([]int, len(s.cases))
	for i := range pending {
		pending[i] = i
	}
	for len(pending) > 0 {
		inflight, crash := s.spawn(pending, par)
		if len(inflight) > 0 {
			// find the killers: run the in-flight cases one at a time
			reproduced := false
			for _, i := range inflight {
				if _, ok := s.obs[i]; ok {
					continue
				}
				fl, cr := s.spawn([]int{i}, 1)
				if len(fl) > 0 {
					s.obs[i] = crashObs(cr)
					reproduced = true
				} else if _, ok := s.obs[i]; !ok {
					s.obs[i] = crashObs(cr)
					reproduced = true
				}
			}
			if !reproduced && (strings.Contains(crash, "fatal error: ") || strings.Contains(crash, "panic: ")) {
				// the crash depends on scheduling and did not come back alone: it is
				// still a finding; blame the concurrent case that was in flight
				blame := inflight[0]
				for _, i := range inflight {
					if s.cases[i].Kind == "flood" {
						blame = i
					}
				}
				ob := s.obs[blame]
				co := crashObs(crash)
				ob.Fails = append(ob.Fails, co.Fails...)
				ob.Class = "panic"
				s.obs[blame] = ob
			}
		} else if crash != "" && len(inflight) == 0 {
			// the worker failed outside any case: give up on what is left
			for _, i := range pending {
				if _, ok := s.obs[i]; !ok {
					o := Obs{Class: "panic"}
					o.fail("C09/harness/worker", "worker failed: "+crash[:min(len(crash), 400)])
					s.obs[i] = o
				}
			}
		}
		var rest []int
		for _, i := range pending {
			if _, ok := s.obs[i]; !ok {
				rest = append(rest, i)
			}
		}
		if len(rest) == len(pending) {
			break
		}
		pending = rest
	}
}

func min(a, b int) int {
	if a < b {
		return a
	}
	return b
}

func main() {
	o := hx.ParseFlags()
	var cases []Case
	if o.Replay != "" {
		b, err := os.ReadFile(o.Replay)
		if err != nil {
			fmt.Fprintln(os.Stderr, err)
			os.Exit(2)
		}
		var rp struct {
			Case Case `json:"case"`
		}
		if err := json.Unmarshal(b, &rp); err != nil {
			fmt.Fprintln(os.Stderr, err)
			os.Exit(2)
		}
		cases = []Case{rp.Case}
	} else {
		cases = genCases(o)
	}
	if ws := os.Getenv("C09_WORKER"); ws != "" {
		var idx []int
		lb, err := os.ReadFile(ws)
		if err != nil {
			fmt.Fprintln(os.Stderr, err)
			os.Exit(2)
		}
		for _, f := range strings.Split(string(lb), ",") {
			i, err := strconv.Atoi(f)
			if err == nil && i >= 0 && i < len(cases) {
				idx = append(idx, i)
			}
		}
		par, _ := strconv.Atoi(os.Getenv("C09_PAR"))
		if par < 1 {
			par = 1
		}
		worker(cases, idx, par)
		return
	}

	s := &sup{o: o, cases: cases, obs: map[int]Obs{}}
	s.runAll(6)

	res := hx.NewResult("C09")
	res.Rule = "non-trivial = the input reached an extension handler of the multiplexer (tapped serve cases), a request helper parsing a scripted reply, or a token-level library function"
	cf := hx.CaseFile{Name: "c", Imports: imports, Ok: "case_ok", Type: "ccase"}
	for i, c := range cases {
		ob, ok := s.obs[i]
		if !ok {
			res.Fail("C09/harness/worker", "case was not run", c)
			continue
		}
		b, _ := json.Marshal(c)
		classes := append(append([]string{"kind/" + c.Kind}, ob.Classes...), c.Labels...)
		res.Count(string(b), ob.NonTriv, classes...)
		for _, f := range ob.Fails {
			res.Fail(f.Key, f.What, c)
		}
		if !o.Search {
			for j, t := range ob.Terms {
				cf.Add(t, map[string]interface{}{"case": c, "what": ob.Descs[j]})
			}
		}
		if ob.NonTriv && (ob.Class == "err" || ob.Class == "ok") && len(ob.Descs) > 0 && i%7 == 0 {
			res.Sample(map[string]interface{}{"case": c, "observed": ob.Class, "model_view": ob.Descs})
		}
	}
	res.Extra["model_cases"] = cf.Len()
	res.CaseFiles = cf.Write(o.Out, 400)
	res.Write(o.Out)
}
