package hx

import (
	"sync"
	"time"
)

// Gate forces goroutine schedules through the library's `verif` yield points
// (xmpp.VerifSetHook(g.Hook)). A goroutine reaching a blocked point parks until
// the harness releases it; arrivals are observable, so the harness can order
// events deterministically ("park A inside the region, let B run towards it").
// The hook is process-global: run forced schedules one at a time.
type Gate struct {
	mu      sync.Mutex
	blocked map[string]bool
	queue   map[string][]chan struct{}
	arrived map[string]int
	log     []string
}

func NewGate() *Gate {
	return &Gate{blocked: map[string]bool{}, queue: map[string][]chan struct{}{}, arrived: map[string]int{}}
}

// Hook is the function to install with VerifSetHook.
func (g *Gate) Hook(point string) {
	g.mu.Lock()
	g.arrived[point]++
	if len(g.log) < 10000 {
		g.log = append(g.log, point)
	}
	if !g.blocked[point] {
		g.mu.Unlock()
		return
	}
	c := make(chan struct{})
	g.queue[point] = append(g.queue[point], c)
	g.mu.Unlock()
	<-c
}

// Block makes goroutines park at the given points from now on.
func (g *Gate) Block(points ...string) {
	g.mu.Lock()
	for _, p := range points {
		g.blocked[p] = true
	}
	g.mu.Unlock()
}

// Unblock stops parking at point and releases everyone parked there.
func (g *Gate) Unblock(point string) {
	g.mu.Lock()
	delete(g.blocked, point)
	q := g.queue[point]
	delete(g.queue, point)
	g.mu.Unlock()
	for _, c := range q {
		close(c)
	}
}

// UnblockAll releases everything (call at the end of every schedule).
func (g *Gate) UnblockAll() {
	g.mu.Lock()
	var all []chan struct{}
	for p, q := range g.queue {
		all = append(all, q...)
		delete(g.queue, p)
	}
	g.blocked = map[string]bool{}
	g.mu.Unlock()
	for _, c := range all {
		close(c)
	}
}

// Release lets one goroutine parked at point continue (FIFO); false if none.
func (g *Gate) Release(point string) bool {
	g.mu.Lock()
	q := g.queue[point]
	if len(q) == 0 {
		g.mu.Unlock()
		return false
	}
	c := q[0]
	g.queue[point] = q[1:]
	g.mu.Unlock()
	close(c)
	return true
}

// Parked returns how many goroutines are parked at point right now.
func (g *Gate) Parked(point string) int {
	g.mu.Lock()
	defer g.mu.Unlock()
	return len(g.queue[point])
}

// Arrived returns how many times point has been reached so far.
func (g *Gate) Arrived(point string) int {
	g.mu.Lock()
	defer g.mu.Unlock()
	return g.arrived[point]
}

// WaitArrived waits until point has been reached at least n times.
func (g *Gate) WaitArrived(point string, n int, d time.Duration) bool {
	deadline := time.Now().Add(d)
	for {
		if g.Arrived(point) >= n {
			return true
		}
		if time.Now().After(deadline) {
			return false
		}
		time.Sleep(200 * time.Microsecond)
	}
}

// WaitParked waits until at least n goroutines are parked at point.
func (g *Gate) WaitParked(point string, n int, d time.Duration) bool {
	deadline := time.Now().Add(d)
	for {
		if g.Parked(point) >= n {
			return true
		}
		if time.Now().After(deadline) {
			return false
		}
		time.Sleep(200 * time.Microsecond)
	}
}

// Log returns the sequence of points reached so far.
func (g *Gate) Log() []string {
	g.mu.Lock()
	defer g.mu.Unlock()
	return append([]string(nil), g.log...)
}
