package hx

// A buffered in-memory duplex connection (like a socket pair): writes never
// block, reads block until data arrives or the connection is closed. Used by
// the C02 harness, where a real TLS handshake runs between the session under
// test and the scripted peer.

import (
	"io"
	"net"
	"sync"
	"time"
)

type dqueue struct {
	mu     sync.Mutex
	cond   *sync.Cond
	buf    []byte
	closed bool
}

func newDQueue() *dqueue {
	q := &dqueue{}
	q.cond = sync.NewCond(&q.mu)
	return q
}

func (q *dqueue) read(p []byte) (int, error) {
	q.mu.Lock()
	defer q.mu.Unlock()
	for len(q.buf) == 0 && !q.closed {
		q.cond.Wait()
	}
	if len(q.buf) == 0 {
		return 0, io.EOF
	}
	n := copy(p, q.buf)
	q.buf = q.buf[n:]
	q.cond.Broadcast()
	return n, nil
}

func (q *dqueue) write(p []byte) (int, error) {
	q.mu.Lock()
	defer q.mu.Unlock()
	if q.closed {
		return 0, io.ErrClosedPipe
	}
	q.buf = append(q.buf, p...)
	q.cond.Broadcast()
	return len(p), nil
}

func (q *dqueue) close() {
	q.mu.Lock()
	q.closed = true
	q.cond.Broadcast()
	q.mu.Unlock()
}

// waitDrained waits until everything written has been read (or the queue is closed).
func (q *dqueue) waitDrained() {
	q.mu.Lock()
	for len(q.buf) > 0 && !q.closed {
		q.cond.Wait()
	}
	q.mu.Unlock()
}

type DuplexEnd struct {
	rd, wr *dqueue
}

type duplexAddr struct{}

func (duplexAddr) Network() string { return "duplex" }
func (duplexAddr) String() string  { return "duplex" }

var _ net.Conn = (*DuplexEnd)(nil)

func NewDuplex() (*DuplexEnd, *DuplexEnd) {
	a, b := newDQueue(), newDQueue()
	return &DuplexEnd{rd: a, wr: b}, &DuplexEnd{rd: b, wr: a}
}

func (d *DuplexEnd) Read(p []byte) (int, error)  { return d.rd.read(p) }
func (d *DuplexEnd) Write(p []byte) (int, error) { return d.wr.write(p) }

// Close closes both directions.
func (d *DuplexEnd) Close() error {
	d.rd.close()
	d.wr.close()
	return nil
}

// CloseWrite ends this side's output only: the other side reads what is
// buffered and then EOF, and can still write.
func (d *DuplexEnd) CloseWrite() { d.wr.close() }

// WaitDrained blocks until the other side has read everything written so far.
func (d *DuplexEnd) WaitDrained()                       { d.wr.waitDrained() }
func (d *DuplexEnd) LocalAddr() net.Addr                { return duplexAddr{} }
func (d *DuplexEnd) RemoteAddr() net.Addr               { return duplexAddr{} }
func (d *DuplexEnd) SetDeadline(t time.Time) error      { return nil }
func (d *DuplexEnd) SetReadDeadline(t time.Time) error  { return nil }
func (d *DuplexEnd) SetWriteDeadline(t time.Time) error { return nil }
