// Package hx holds what every property harness shares: the seeded PRNG, the
// result file, oracle-failure records and the Coq case-file emitter.
package hx

import (
	"crypto/sha256"
	"encoding/hex"
	"encoding/json"
	"flag"
	"fmt"
	"os"
	"path/filepath"
	"sort"
	"strings"
)

// ---- PRNG: splitmix64, every random choice of a run derives from one state ----

type Rand struct{ s uint64 }

// NewRand hashes the seed through two splitmix rounds before using it as the
// state, so that the streams of neighbouring seeds are unrelated (a state that
// is linear in the seed makes seed k+1 the stream of seed k shifted by one draw).
func NewRand(seed uint64) *Rand {
	r := &Rand{s: seed ^ 0x5851F42D4C957F2D}
	a := r.Uint64()
	b := r.Uint64()
	return &Rand{s: a ^ (b << 1) ^ 0x1234567}
}

func (r *Rand) Uint64() uint64 {
	r.s += 0x9E3779B97F4A7C15
	z := r.s
	z = (z ^ (z >> 30)) * 0xBF58476D1CE4E5B9
	z = (z ^ (z >> 27)) * 0x94D049BB133111EB
	return z ^ (z >> 31)
}

// Intn returns a value in [0,n).
func (r *Rand) Intn(n int) int {
	if n <= 0 {
		return 0
	}
	return int(r.Uint64() % uint64(n))
}

func (r *Rand) Bool() bool { return r.Uint64()&1 == 1 }

// Chance is true with probability num/den.
func (r *Rand) Chance(num, den int) bool { return r.Intn(den) < num }

// Fork returns an independent generator derived from this one.
func (r *Rand) Fork() *Rand { return &Rand{s: r.Uint64()} }

// ---- flags ----

type Opts struct {
	Seed   uint64
	Tier   string
	Out    string
	Replay string
	Search bool
}

func ParseFlags() Opts {
	var o Opts
	flag.Uint64Var(&o.Seed, "seed", 1, "PRNG seed")
	flag.StringVar(&o.Tier, "tier", "quick", "quick|thorough")
	flag.StringVar(&o.Out, "out", "", "output directory")
	flag.StringVar(&o.Replay, "replay", "", "replay file: run only that case")
	flag.BoolVar(&o.Search, "search", false, "search mode: larger budget, oracle only")
	flag.Parse()
	if o.Out == "" {
		fmt.Fprintln(os.Stderr, "missing -out")
		os.Exit(2)
	}
	if err := os.MkdirAll(o.Out, 0o755); err != nil {
		fmt.Fprintln(os.Stderr, err)
		os.Exit(2)
	}
	return o
}

func (o Opts) Thorough() bool { return o.Tier == "thorough" }

// ---- results ----

// Failure is one failure of the implementation oracle: the property, stated
// directly on the observables of the real code, is false on Case.
type Failure struct {
	Key  string      `json:"key"`  // finding key: clause / entry point / trigger class
	What string      `json:"what"` // one line
	Case interface{} `json:"case"` // concrete input, replayable
}

type Result struct {
	Property    string         `json:"property"`
	Evaluations int            `json:"evaluations"`
	Distinct    int            `json:"distinct_nontrivial"`
	Rule        string         `json:"rule"`
	Samples     []interface{}  `json:"samples"`
	Histogram   map[string]int `json:"histogram"`
	Failures    []Failure      `json:"oracle_failures"`
	CaseFiles   []string       `json:"case_files"`
	Extra       map[string]any `json:"extra,omitempty"`

	seen     map[string]bool
	failKeys map[string]int
}

func NewResult(prop string) *Result {
	return &Result{Property: prop, Histogram: map[string]int{}, seen: map[string]bool{}, failKeys: map[string]int{}, Extra: map[string]any{}}
}

// Count records one evaluated case. canon identifies the case (distinctness);
// nontrivial says whether it exercises a property-relevant branch.
func (r *Result) Count(canon string, nontrivial bool, classes ...string) {
	r.Evaluations++
	for _, c := range classes {
		r.Histogram[c]++
	}
	if !nontrivial {
		return
	}
	h := sha256.Sum256([]byte(canon))
	k := string(h[:12])
	if !r.seen[k] {
		r.seen[k] = true
		r.Distinct++
	}
}

func (r *Result) Sample(v interface{}) {
	if len(r.Samples) < 8 {
		r.Samples = append(r.Samples, v)
	}
}

// Fail records an oracle failure; at most 5 cases are kept per key.
func (r *Result) Fail(key, what string, c interface{}) {
	r.failKeys[key]++
	if r.failKeys[key] <= 5 {
		r.Failures = append(r.Failures, Failure{Key: key, What: what, Case: c})
	}
}

func (r *Result) Write(dir string) {
	if r.Samples == nil {
		r.Samples = []interface{}{}
	}
	if r.Failures == nil {
		r.Failures = []Failure{}
	}
	if r.CaseFiles == nil {
		r.CaseFiles = []string{}
	}
	fk := map[string]int{}
	for k, v := range r.failKeys {
		fk[k] = v
	}
	r.Extra["failure_counts"] = fk
	b, err := json.MarshalIndent(r, "", " ")
	if err != nil {
		panic(err)
	}
	if err := os.WriteFile(filepath.Join(dir, "result.json"), b, 0o644); err != nil {
		panic(err)
	}
}

// ---- Coq emitter ----

func Hex(b []byte) string { return hex.EncodeToString(b) }

func UnHex(s string) []byte {
	b, err := hex.DecodeString(s)
	if err != nil {
		panic(err)
	}
	return b
}

// CoqBytes renders a byte string as a Coq term of type bytes.
func CoqBytes(b []byte) string {
	var sb strings.Builder
	fmt.Fprintf(&sb, "(B %d%%nat [", len(b))
	for i := 0; i < len(b); i += 7 {
		j := i + 7
		if j > len(b) {
			j = len(b)
		}
		if i > 0 {
			sb.WriteByte(';')
		}
		sb.WriteString("0x")
		sb.WriteString(Hex(b[i:j]))
	}
	sb.WriteString("])")
	return sb.String()
}

// CoqNat renders a nat literal that is safe inside uint63_scope.
func CoqNat(n int) string { return fmt.Sprintf("%d%%nat", n) }

func CoqBool(b bool) string {
	if b {
		return "true"
	}
	return "false"
}

// CaseFile accumulates Coq case terms and writes them in shards. Each shard
// evaluates `failing <ok> 0 cases` with vm_compute; the orchestrator reads the
// printed index list. Index i of shard k refers to line i of <name>_<k>.jsonl.
type CaseFile struct {
	Name    string   // e.g. "tr"
	Imports string   // Require lines
	Ok      string   // boolean checker: case -> bool
	Type    string   // Coq type of a case
	terms   []string // Coq terms
	descs   []string // JSON description of each case
}

func (c *CaseFile) Add(term string, desc interface{}) {
	b, _ := json.Marshal(desc)
	c.terms = append(c.terms, term)
	c.descs = append(c.descs, string(b))
}

func (c *CaseFile) Len() int { return len(c.terms) }

// Write emits shards of at most per cases (and at most ~200 KB of terms) and
// returns the file names.
func (c *CaseFile) Write(dir string, per int) []string {
	var files []string
	k := 0
	for lo := 0; lo < len(c.terms); k++ {
		hi, size := lo, 0
		for hi < len(c.terms) && hi-lo < per && size < 200000 {
			size += len(c.terms[hi])
			hi++
		}
		var sb strings.Builder
		sb.WriteString(c.Imports)
		sb.WriteString("\nFrom Coq Require Import Uint63.\nFrom XV Require Import lib.Pack.\nOpen Scope uint63_scope.\n")
		fmt.Fprintf(&sb, "Definition cases : list (%s) := [\n", c.Type)
		for i := lo; i < hi; i++ {
			sb.WriteString("  ")
			sb.WriteString(c.terms[i])
			if i+1 < hi {
				sb.WriteString(";")
			}
			sb.WriteString("\n")
		}
		sb.WriteString("].\n")
		fmt.Fprintf(&sb, "Definition bad := Eval vm_compute in failing (%s) 0%%nat cases.\nPrint bad.\n", c.Ok)
		base := fmt.Sprintf("%s_%d", c.Name, k)
		if err := os.WriteFile(filepath.Join(dir, base+".v"), []byte(sb.String()), 0o644); err != nil {
			panic(err)
		}
		if err := os.WriteFile(filepath.Join(dir, base+".jsonl"), []byte(strings.Join(c.descs[lo:hi], "\n")+"\n"), 0o644); err != nil {
			panic(err)
		}
		files = append(files, base+".v")
		lo = hi
	}
	return files
}

// SortedKeys is a small helper for deterministic iteration.
func SortedKeys(m map[string]int) []string {
	ks := make([]string, 0, len(m))
	for k := range m {
		ks = append(ks, k)
	}
	sort.Strings(ks)
	return ks
}

// Catch runs f and reports a recovered panic as a string ("" if none).
func Catch(f func()) (p string) {
	defer func() {
		if r := recover(); r != nil {
			p = fmt.Sprint(r)
		}
	}()
	f()
	return ""
}
