package hx

import (
	"bytes"
	"context"
	"encoding/xml"
	"fmt"
	"io"
	"net"
	"strings"
	"sync"
	"time"

	"mellium.im/xmpp"
	"mellium.im/xmpp/jid"
	"mellium.im/xmpp/stream"
)

// ReadyNegotiator returns a Negotiator that pops the (synthetic) stream start
// token, sets the content namespace on both stream infos and reports the
// session Ready|extra without sending anything: it gives a served session
// without running the real negotiation code.
func ReadyNegotiator(ns string, extra xmpp.SessionState) xmpp.Negotiator {
	return func(ctx context.Context, in, out *stream.Info, s *xmpp.Session, data interface{}) (xmpp.SessionState, io.ReadWriter, interface{}, error) {
		rc := s.TokenReader()
		_, err := rc.Token()
		rc.Close()
		in.XMLNS, out.XMLNS = ns, ns
		return xmpp.Ready | extra, nil, nil, err
	}
}

type rw struct {
	io.Reader
	io.Writer
}

// NewReadySession builds a Ready session on conn. The peer must NOT send a
// stream header: a synthetic one is prepended to what the session reads, so the
// peer's stanzas are children of an open <stream:stream> and its
// </stream:stream> is a proper close. state may include xmpp.Received /
// xmpp.S2S / Secure / Authn.
func NewReadySession(conn io.ReadWriter, ns string, state xmpp.SessionState, local, remote jid.JID) (*xmpp.Session, error) {
	hdr := `<stream:stream id="123" version="1.0" xmlns="` + ns + `" xmlns:stream="` + stream.NS + `">`
	r := io.MultiReader(strings.NewReader(hdr), conn)
	var rwc io.ReadWriter = rw{Reader: r, Writer: conn}
	if state&xmpp.Received == xmpp.Received {
		return xmpp.ReceiveSession(context.Background(), rwc, state, ReadyNegotiator(ns, state))
	}
	return xmpp.NewSession(context.Background(), local, remote, rwc, state, ReadyNegotiator(ns, state))
}

// Pipe is an in-memory duplex connection whose peer side the harness drives
// with raw bytes. Everything the session writes is captured.
type Pipe struct {
	Sess net.Conn // given to the session
	Peer net.Conn // driven by the harness

	mu  sync.Mutex
	out bytes.Buffer
	done chan struct{}
}

// NewPipe returns a pipe and starts capturing the session's output.
func NewPipe() *Pipe {
	a, b := net.Pipe()
	p := &Pipe{Sess: a, Peer: b, done: make(chan struct{})}
	go func() {
		defer close(p.done)
		buf := make([]byte, 4096)
		for {
			n, err := b.Read(buf)
			p.mu.Lock()
			p.out.Write(buf[:n])
			p.mu.Unlock()
			if err != nil {
				return
			}
		}
	}()
	return p
}

// Written returns a copy of everything the session has written so far.
func (p *Pipe) Written() []byte {
	p.mu.Lock()
	defer p.mu.Unlock()
	return append([]byte(nil), p.out.Bytes()...)
}

// WaitQuiet waits until the captured output has not grown for d (at most max).
func (p *Pipe) WaitQuiet(d, max time.Duration) []byte {
	deadline := time.Now().Add(max)
	last, lastT := -1, time.Now()
	for time.Now().Before(deadline) {
		n := len(p.Written())
		if n != last {
			last, lastT = n, time.Now()
		} else if time.Since(lastT) >= d {
			break
		}
		time.Sleep(d / 4)
	}
	return p.Written()
}

// Send writes raw bytes to the session (with a deadline so that a session that
// stopped reading cannot wedge the harness).
func (p *Pipe) Send(b []byte) error {
	p.Peer.SetWriteDeadline(time.Now().Add(5 * time.Second))
	_, err := p.Peer.Write(b)
	return err
}

func (p *Pipe) Close() { p.Peer.Close(); p.Sess.Close(); <-p.done }

// ---- XML canonicalisation of wire output ----

// Elem is a parsed element; namespaces are resolved by encoding/xml.
type Elem struct {
	Space    string   `json:"ns,omitempty"`
	Local    string   `json:"name"`
	Attrs    []string `json:"attrs,omitempty"` // "space local=value", xmlns declarations dropped
	Children []Node   `json:"children,omitempty"`
}

// Node is an element or character data.
type Node struct {
	Elem *Elem  `json:"e,omitempty"`
	Text string `json:"t,omitempty"`
}

// ParseTopLevel parses a sequence of top-level elements as they appear inside
// an open stream (prefix "stream" bound). It returns the complete elements,
// whether a closing </stream:stream> was seen, and what followed it.
func ParseTopLevel(b []byte, ns string) (elems []Elem, closed bool, rest []byte, err error) {
	hdr := `<stream:stream xmlns="` + ns + `" xmlns:stream="` + stream.NS + `">`
	d := xml.NewDecoder(io.MultiReader(strings.NewReader(hdr), bytes.NewReader(b)))
	if _, err = d.Token(); err != nil {
		return nil, false, nil, err
	}
	var stack []*Elem
	for {
		tok, e := d.Token()
		if e != nil {
			if e == io.EOF {
				e = nil
			}
			return elems, closed, rest, e
		}
		switch t := tok.(type) {
		case xml.StartElement:
			el := &Elem{Space: t.Name.Space, Local: t.Name.Local}
			for _, a := range t.Attr {
				if a.Name.Space == "xmlns" || (a.Name.Space == "" && a.Name.Local == "xmlns") {
					continue
				}
				el.Attrs = append(el.Attrs, strings.TrimSpace(a.Name.Space+" "+a.Name.Local)+"="+a.Value)
			}
			stack = append(stack, el)
		case xml.EndElement:
			if len(stack) == 0 {
				closed = true
				off := int(d.InputOffset()) - len(hdr)
				if off >= 0 && off <= len(b) {
					rest = b[off:]
				}
				return elems, closed, rest, nil
			}
			el := stack[len(stack)-1]
			stack = stack[:len(stack)-1]
			if len(stack) == 0 {
				elems = append(elems, *el)
			} else {
				p := stack[len(stack)-1]
				p.Children = append(p.Children, Node{Elem: el})
			}
		case xml.CharData:
			if len(stack) > 0 {
				p := stack[len(stack)-1]
				p.Children = append(p.Children, Node{Text: string(t)})
			}
		}
	}
}

// Attr returns the value of the attribute with the given local name ("" space).
func (e Elem) Attr(local string) (string, bool) {
	for _, a := range e.Attrs {
		if strings.HasPrefix(a, local+"=") {
			return a[len(local)+1:], true
		}
	}
	return "", false
}

func (e Elem) String() string { return fmt.Sprintf("<%s %s %v %d children>", e.Space, e.Local, e.Attrs, len(e.Children)) }

// WithTimeout runs f and reports whether it returned within d.
func WithTimeout(d time.Duration, f func()) bool {
	done := make(chan struct{})
	go func() { defer close(done); f() }()
	select {
	case <-done:
		return true
	case <-time.After(d):
		return false
	}
}
