package hx

// Shared by the negotiation harnesses (c01, c02): the case description (the
// inputs of coq/Neg/Model.v's [run]), rendering of peer items to bytes, the
// scripted in-memory connection, instrumented stream features, the unified
// event log and its Coq rendering.

import (
	"context"
	"crypto/tls"
	"encoding/xml"
	"errors"
	"fmt"
	"io"
	"net"
	"strings"
	"time"

	"mellium.im/xmlstream"
	"mellium.im/xmpp"
	"mellium.im/xmpp/stream"
)

// State bits (mirrors xmpp.SessionState; the Coq side gets them from the translator).
const (
	NegSecure   = uint8(xmpp.Secure)
	NegAuthn    = uint8(xmpp.Authn)
	NegReady    = uint8(xmpp.Ready)
	NegReceived = uint8(xmpp.Received)
	NegS2S      = uint8(xmpp.S2S)
)

const (
	NSStartTLS = "urn:ietf:params:xml:ns:xmpp-tls"
	NSSASL     = "urn:ietf:params:xml:ns:xmpp-sasl"
	NSBind     = "urn:ietf:params:xml:ns:xmpp-bind"
	NSStream   = "http://etherx.jabber.org/streams"
	NSFraming  = "urn:ietf:params:xml:ns:xmpp-framing"
)

// ErrScripted is what a scripted callback returns when told to fail.
var ErrScripted = errors.New("verif: scripted feature error")

type FeatSpec struct {
	Space string `json:"space"`
	Local string `json:"local"`
	Nec   uint8  `json:"nec"`
	Proh  uint8  `json:"proh"`
	Neg   bool   `json:"neg"`            // Negotiate != nil
	Kind  string `json:"kind,omitempty"` // "" = abstract, "starttls" = the real xmpp.StartTLS
	LReq  bool   `json:"lreq,omitempty"`
	LErr  bool   `json:"lerr,omitempty"`
}

type Outcome struct {
	Mask    uint8 `json:"mask"`
	Restart bool  `json:"restart,omitempty"`
	Err     bool  `json:"err,omitempty"`
	// RW: the kind of io.ReadWriter a restarting Negotiate returns (coq: o_rw):
	// "" a bare io.ReadWriter wrapper, "same" the session's own connection,
	// "plain" a net.Conn without a ConnectionState method, "tls" a net.Conn with one.
	RW string `json:"rw,omitempty"`
}

type Child struct {
	Text  bool   `json:"text,omitempty"`
	Space string `json:"space,omitempty"`
	Local string `json:"local,omitempty"`
	Req   bool   `json:"req,omitempty"`
	PErr  bool   `json:"perr,omitempty"`
}

// Item kinds: header, features, streamerr, elem, iq, iqbad, garbage.
type Item struct {
	Sp       bool    `json:"sp,omitempty"`
	Kind     string  `json:"kind"`
	Bad      bool    `json:"bad,omitempty"` // header: rejected (unsupported version)
	Children []Child `json:"children,omitempty"`
	Space    string  `json:"space,omitempty"`
	Local    string  `json:"local,omitempty"`
	Raw      string  `json:"raw,omitempty"` // extra bytes appended to the same write (C02: pipelined clear text); not part of the model
}

type NegCase struct {
	Feats   []FeatSpec `json:"feats"`
	Tee     int        `json:"tee,omitempty"` // bit 0: TeeIn, bit 1: TeeOut
	WS      bool       `json:"ws,omitempty"`
	HsOK    bool       `json:"hs_ok,omitempty"`
	Domain  string     `json:"domain,omitempty"`
	TLSName *string    `json:"tls_name,omitempty"`
	Bits    uint8      `json:"bits"`
	In      []Item     `json:"in"`
	TLSIn   []Item     `json:"tls_in,omitempty"`
	Outs    []Outcome  `json:"outs,omitempty"`
	// NetConn: the connection handed to NewSession/ReceiveSession is a net.Conn
	// (without a ConnectionState method) rather than a bare io.ReadWriter. Not an
	// input of the model: negotiateSession must behave the same on both.
	NetConn bool `json:"net_conn,omitempty"`
	// TeeFirst says which negotiator.go the case was observed on (coq: c_teefirst):
	// true when `first` survives the tee-wrapping call (C02's repair), false on main.
	TeeFirst bool `json:"tee_first,omitempty"`
}

// REvent is one entry of the unified observation log (coq: revent).
// K: in, eof, out-header, out-features, out-elem, list, parse, neg, switch, handshake.
type REvent struct {
	K      string      `json:"k"`
	Item   *Item       `json:"item,omitempty"`
	Names  [][2]string `json:"names,omitempty"`
	Closed bool        `json:"closed,omitempty"`
	Space  string      `json:"space,omitempty"`
	Local  string      `json:"local,omitempty"`
	St     uint8       `json:"st,omitempty"`
	O      *Outcome    `json:"o,omitempty"`
	OK     bool        `json:"ok,omitempty"`
	raw    []byte
}

type Observed struct {
	Class   string   `json:"class"` // ok, policy, feature, other, panic, timeout
	Bits    uint8    `json:"bits"`
	Trace   []REvent `json:"trace"`
	Choices []string `json:"choices,omitempty"`
	ErrText string   `json:"err,omitempty"`
}

// ---------------------------------------------------------------- rendering of peer items

func xmlEsc(s string) string {
	var sb strings.Builder
	_ = xml.EscapeText(&sb, []byte(s))
	return sb.String()
}

// RenderChild renders a child of <stream:features/>. The three built-in
// features get their real shape so that their real Parse functions accept
// them; everything else is an empty element with req/perr attributes, read by
// the instrumented Parse.
func RenderChild(c Child, real bool) string {
	if c.Text {
		return "x"
	}
	switch {
	case !real:
	case c.Space == NSStartTLS && c.Local == "starttls":
		if c.Req {
			return `<starttls xmlns='` + NSStartTLS + `'><required/></starttls>`
		}
		return `<starttls xmlns='` + NSStartTLS + `'/>`
	case c.Space == NSSASL && c.Local == "mechanisms":
		return `<mechanisms xmlns='` + NSSASL + `'><mechanism>PLAIN</mechanism></mechanisms>`
	case c.Space == NSBind && c.Local == "bind":
		return `<bind xmlns='` + NSBind + `'/>`
	}
	s := "<" + c.Local + " xmlns='" + xmlEsc(c.Space) + "'"
	if c.Req {
		s += " req='1'"
	}
	if c.PErr {
		s += " perr='1'"
	}
	return s + "/>"
}

// RenderItem renders one peer item. initiator says which side the session
// under test plays (it decides the addresses on a header); real selects the
// built-in features' own child shapes.
func RenderItem(it Item, ws, initiator, s2s, real bool) []byte {
	return RenderItemFor(it, ws, initiator, s2s, real, "example.net")
}

// RenderItemFor is RenderItem for a session whose server domain is domain.
func RenderItemFor(it Item, ws, initiator, s2s, real bool, domain string) []byte {
	sp := ""
	if it.Sp {
		sp = " \n"
	}
	var s string
	switch it.Kind {
	case "header":
		version := "1.0"
		if it.Bad {
			version = "0.9"
		}
		addr := " from='" + domain + "' to='me@" + domain + "'"
		if !initiator {
			addr = " from='me@" + domain + "' to='" + domain + "'"
		}
		if s2s {
			addr = " from='example.net' to='example.org'"
			if !initiator {
				// ReceiveSession starts without addresses and, for s2s, insists that
				// the header's from equals the (empty) origin it already has
				addr = " to='example.net'"
			}
		}
		xmlns := "jabber:client"
		if s2s {
			xmlns = "jabber:server"
		}
		if ws {
			s = sp + `<open xmlns='` + NSFraming + `' version='` + version + `' id='s1'` + addr + `/>`
		} else {
			s = `<?xml version='1.0'?>` + sp + `<stream:stream xmlns='` + xmlns + `' xmlns:stream='` + NSStream + `' version='` + version + `' id='s1'` + addr + `>`
		}
	case "features":
		s = sp + `<stream:features xmlns:stream='` + NSStream + `'>`
		for _, c := range it.Children {
			s += RenderChild(c, real)
		}
		s += `</stream:features>`
	case "streamerr":
		s = sp + `<stream:error xmlns:stream='` + NSStream + `'><host-unknown xmlns='urn:ietf:params:xml:ns:xmpp-streams'/></stream:error>`
	case "elem":
		s = sp + "<" + it.Local + " xmlns='" + xmlEsc(it.Space) + "'/>"
	case "iq":
		xmlns := "jabber:client"
		if s2s {
			xmlns = "jabber:server"
		}
		s = sp + `<iq xmlns='` + xmlns + `' type='set' id='q1'><` + it.Local + ` xmlns='` + xmlEsc(it.Space) + `'/></iq>`
	case "iqbad":
		xmlns := "jabber:client"
		if s2s {
			xmlns = "jabber:server"
		}
		s = sp + `<iq xmlns='` + xmlns + `' type='set' id='q1'>text</iq>`
	case "garbage":
		s = sp + "<<<"
	default:
		panic("unknown item kind " + it.Kind)
	}
	return []byte(s + it.Raw)
}

// ---------------------------------------------------------------- log

type NegLog struct {
	Ev []REvent
}

func (l *NegLog) Add(e REvent) { l.Ev = append(l.Ev, e) }

// Write records bytes written to the peer; consecutive writes are merged and
// parsed into wire items by Finish.
func (l *NegLog) Write(p []byte) {
	if n := len(l.Ev); n > 0 && l.Ev[n-1].K == "w" {
		l.Ev[n-1].raw = append(l.Ev[n-1].raw, p...)
		return
	}
	l.Add(REvent{K: "w", raw: append([]byte(nil), p...)})
}

// ParseWire splits bytes the session wrote into wire items: stream headers
// (either framing), features lists (possibly left open), other elements.
func ParseWire(b []byte) []REvent {
	var out []REvent
	d := xml.NewDecoder(strings.NewReader(string(b)))
	d.Strict = false
	for {
		t, err := d.Token()
		if err != nil {
			return out
		}
		st, ok := t.(xml.StartElement)
		if !ok {
			continue
		}
		switch {
		case st.Name.Local == "stream" && (st.Name.Space == "stream" || st.Name.Space == NSStream):
			out = append(out, REvent{K: "out-header"})
		case st.Name.Local == "open" && st.Name.Space == NSFraming:
			out = append(out, REvent{K: "out-header"})
			_ = d.Skip()
		case st.Name.Local == "features" && (st.Name.Space == "stream" || st.Name.Space == NSStream):
			ev := REvent{K: "out-features", Names: [][2]string{}}
			for {
				t, err := d.Token()
				if err != nil {
					break
				}
				if c, ok := t.(xml.StartElement); ok {
					ev.Names = append(ev.Names, [2]string{c.Name.Space, c.Name.Local})
					_ = d.Skip()
					continue
				}
				if _, ok := t.(xml.EndElement); ok {
					ev.Closed = true
					break
				}
			}
			out = append(out, ev)
		default:
			out = append(out, REvent{K: "out-elem", Space: st.Name.Space, Local: st.Name.Local})
			_ = d.Skip()
		}
	}
}

// Finish replaces raw write entries by the wire items they contain.
func (l *NegLog) Finish() []REvent {
	var out []REvent
	for _, e := range l.Ev {
		if e.K == "w" {
			out = append(out, ParseWire(e.raw)...)
			continue
		}
		out = append(out, e)
	}
	return out
}

// ---------------------------------------------------------------- scripted connection

// ScriptConn is an io.ReadWriter: every Read delivers the next peer item
// (logged), every Write is logged. Nothing happens concurrently, so the log is
// a total order of what the code under test did.
type ScriptConn struct {
	Log    *NegLog
	Items  []Item
	Render func(Item) []byte
	// Next, when set, produces further items once Items is exhausted (adaptive
	// generation); what it produced is appended to Items, so the run can be
	// replayed from Items alone.
	Next func() (Item, bool)
	pos  int
	rest []byte
}

func (c *ScriptConn) Read(p []byte) (int, error) {
	if len(c.rest) == 0 {
		if c.pos >= len(c.Items) && c.Next != nil {
			if it, ok := c.Next(); ok {
				c.Items = append(c.Items, it)
			} else {
				c.Next = nil
			}
		}
		if c.pos >= len(c.Items) {
			c.Log.Add(REvent{K: "eof"})
			return 0, io.EOF
		}
		it := c.Items[c.pos]
		c.Log.Add(REvent{K: "in", Item: &it})
		c.rest = c.Render(it)
		c.pos++
	}
	n := copy(p, c.rest)
	c.rest = c.rest[n:]
	return n, nil
}

func (c *ScriptConn) Write(p []byte) (int, error) {
	c.Log.Write(p)
	return len(p), nil
}

// restartRW is what a scripted feature returns as its new io.ReadWriter (kind "").
type restartRW struct{ io.ReadWriter }

// plainConn is a net.Conn without a ConnectionState method, whatever it wraps.
type plainConn struct{ net.Conn }

// tlsLikeConn is a net.Conn with a ConnectionState method.
type tlsLikeConn struct{ net.Conn }

func (tlsLikeConn) ConnectionState() tls.ConnectionState { return tls.ConnectionState{} }

// RestartRW builds the io.ReadWriter of the given kind around the session's connection.
func RestartRW(kind string, c net.Conn) io.ReadWriter {
	switch kind {
	case "same":
		return c
	case "plain":
		return plainConn{c}
	case "tls":
		return tlsLikeConn{c}
	}
	return restartRW{c}
}

// ScriptNetConn makes a ScriptConn a net.Conn (no ConnectionState method).
type ScriptNetConn struct{ *ScriptConn }

type scriptAddr struct{}

func (scriptAddr) Network() string { return "script" }
func (scriptAddr) String() string  { return "script" }

func (ScriptNetConn) Close() error                       { return nil }
func (ScriptNetConn) LocalAddr() net.Addr                { return scriptAddr{} }
func (ScriptNetConn) RemoteAddr() net.Addr               { return scriptAddr{} }
func (ScriptNetConn) SetDeadline(t time.Time) error      { return nil }
func (ScriptNetConn) SetReadDeadline(t time.Time) error  { return nil }
func (ScriptNetConn) SetWriteDeadline(t time.Time) error { return nil }

// ---------------------------------------------------------------- instrumented features

// AbstractFeature builds a stream feature whose callbacks log what they are
// asked and answer from the script.
func AbstractFeature(f FeatSpec, log *NegLog, next func(f FeatSpec, st uint8) Outcome) xmpp.StreamFeature {
	name := xml.Name{Space: f.Space, Local: f.Local}
	sf := xmpp.StreamFeature{
		Name:       name,
		Necessary:  xmpp.SessionState(f.Nec),
		Prohibited: xmpp.SessionState(f.Proh),
		List: func(ctx context.Context, e xmlstream.TokenWriter, start xml.StartElement) (bool, error) {
			log.Add(REvent{K: "list", Space: f.Space, Local: f.Local})
			if f.LErr {
				return f.LReq, ErrScripted
			}
			if err := e.EncodeToken(start); err != nil {
				return f.LReq, err
			}
			return f.LReq, e.EncodeToken(start.End())
		},
		Parse: func(ctx context.Context, d *xml.Decoder, start *xml.StartElement) (bool, interface{}, error) {
			log.Add(REvent{K: "parse", Space: f.Space, Local: f.Local})
			var req, perr bool
			for _, a := range start.Attr {
				switch a.Name.Local {
				case "req":
					req = true
				case "perr":
					perr = true
				}
			}
			if err := d.Skip(); err != nil {
				return req, nil, err
			}
			if perr {
				return req, nil, ErrScripted
			}
			return req, nil, nil
		},
	}
	if f.Neg {
		sf.Negotiate = func(ctx context.Context, s *xmpp.Session, data interface{}) (xmpp.SessionState, io.ReadWriter, error) {
			st := s.State()
			if st&xmpp.Received != 0 {
				// consume the selection element (and its <iq/> wrapper)
				r := s.TokenReader()
				if _, err := r.Token(); err == nil {
					_ = xmlstream.Skip(r)
				}
				r.Close()
			}
			o := next(f, uint8(st))
			log.Add(REvent{K: "neg", Space: f.Space, Local: f.Local, St: uint8(st), O: &o})
			var rw io.ReadWriter
			if o.Restart {
				rw = RestartRW(o.RW, s.Conn())
			}
			var err error
			if o.Err {
				err = ErrScripted
			}
			return xmpp.SessionState(o.Mask), rw, err
		}
	}
	return sf
}

// LoggedFeature wraps a real feature: Parse and Negotiate calls are logged,
// everything else is the feature's own.
func LoggedFeature(f xmpp.StreamFeature, log *NegLog) xmpp.StreamFeature {
	parse, neg := f.Parse, f.Negotiate
	sp, lo := f.Name.Space, f.Name.Local
	if parse != nil {
		f.Parse = func(ctx context.Context, d *xml.Decoder, start *xml.StartElement) (bool, interface{}, error) {
			log.Add(REvent{K: "parse", Space: sp, Local: lo})
			return parse(ctx, d, start)
		}
	}
	if neg != nil {
		f.Negotiate = func(ctx context.Context, s *xmpp.Session, data interface{}) (xmpp.SessionState, io.ReadWriter, error) {
			st := s.State()
			mask, rw, err := neg(ctx, s, data)
			o := Outcome{Mask: uint8(mask), Restart: rw != nil, Err: err != nil}
			log.Add(REvent{K: "neg", Space: sp, Local: lo, St: uint8(st), O: &o})
			return mask, rw, err
		}
	}
	return f
}

// ErrClass maps an error to the model's result classes.
func ErrClass(err error) string {
	switch {
	case err == nil:
		return "ok"
	case errors.Is(err, ErrScripted):
		return "feature"
	case errors.Is(err, stream.PolicyViolation):
		return "policy"
	}
	return "other"
}

// ---------------------------------------------------------------- Coq rendering

func CoqN(n uint8) string { return fmt.Sprintf("%d%%N", n) }

func CoqStr(s string) string { return CoqBytes([]byte(s)) }

func coqList(xs []string) string { return "[" + strings.Join(xs, "; ") + "]" }

func CoqFeat(f FeatSpec) string {
	kind := "KAbstract"
	if f.Kind == "starttls" {
		kind = "KStartTLS"
	}
	return fmt.Sprintf("(mkF %s %s %s %s %s %s %s %s)", CoqStr(f.Space), CoqStr(f.Local), CoqN(f.Nec), CoqN(f.Proh),
		CoqBool(f.Neg), kind, CoqBool(f.LReq), CoqBool(f.LErr))
}

func CoqOutcome(o Outcome) string {
	kind := map[string]string{"": "RWWrap", "same": "RWSame", "plain": "RWPlain", "tls": "RWTls"}[o.RW]
	return fmt.Sprintf("(mkO %s %s %s %s)", CoqN(o.Mask), CoqBool(o.Restart), CoqBool(o.Err), kind)
}

func CoqItem(it Item) string {
	var b string
	switch it.Kind {
	case "header":
		if it.Bad {
			b = "(PHeader HBad)"
		} else {
			b = "(PHeader HGood)"
		}
	case "features":
		var cs []string
		for _, c := range it.Children {
			if c.Text {
				cs = append(cs, "FCText")
			} else {
				cs = append(cs, fmt.Sprintf("FC %s %s %s %s", CoqStr(c.Space), CoqStr(c.Local), CoqBool(c.Req), CoqBool(c.PErr)))
			}
		}
		b = "(PFeatures " + coqList(cs) + ")"
	case "streamerr":
		b = "PStreamErr"
	case "elem":
		b = fmt.Sprintf("(PElem %s %s)", CoqStr(it.Space), CoqStr(it.Local))
	case "iq":
		b = fmt.Sprintf("(PIq %s %s)", CoqStr(it.Space), CoqStr(it.Local))
	case "iqbad":
		b = "PIqBad"
	case "garbage":
		b = "PGarbage"
	default:
		panic("unknown item kind " + it.Kind)
	}
	return fmt.Sprintf("(mkItem %s %s)", CoqBool(it.Sp), b)
}

func CoqItems(its []Item) string {
	var xs []string
	for _, it := range its {
		xs = append(xs, CoqItem(it))
	}
	return coqList(xs)
}

func coqName(sp, lo string) string { return "(" + CoqStr(sp) + ", " + CoqStr(lo) + ")" }

func CoqREvent(e REvent) string {
	switch e.K {
	case "in":
		return "RIn " + CoqItem(*e.Item)
	case "eof":
		return "REof"
	case "out-header":
		return "ROut RWHeader"
	case "out-features":
		var ns []string
		for _, n := range e.Names {
			ns = append(ns, coqName(n[0], n[1]))
		}
		return fmt.Sprintf("ROut (RWFeatures %s %s)", coqList(ns), CoqBool(e.Closed))
	case "out-elem":
		return fmt.Sprintf("ROut (RWElem %s %s)", CoqStr(e.Space), CoqStr(e.Local))
	case "list":
		return "RList " + coqName(e.Space, e.Local)
	case "parse":
		return "RParse " + coqName(e.Space, e.Local)
	case "neg":
		return fmt.Sprintf("RNeg %s %s %s", coqName(e.Space, e.Local), CoqN(e.St), CoqOutcome(*e.O))
	case "switch":
		return "RSwitch " + CoqStr(e.Space)
	case "handshake":
		return "RHandshake " + CoqBool(e.OK)
	}
	panic("unknown event kind " + e.K)
}

func CoqTrace(tr []REvent) string {
	var xs []string
	for _, e := range tr {
		xs = append(xs, CoqREvent(e))
	}
	return coqList(xs)
}

func CoqClass(c string) string {
	switch c {
	case "ok":
		return "ROk"
	case "policy":
		return "(RErr EPolicy)"
	case "feature":
		return "(RErr EFeature)"
	case "other":
		return "(RErr EOther)"
	}
	return "RStuck" // panic / timeout: never equal to what the model computes
}

func CoqConfig(c NegCase) string {
	var fs []string
	for _, f := range c.Feats {
		fs = append(fs, CoqFeat(f))
	}
	tn := "None"
	if c.TLSName != nil {
		tn = "(Some " + CoqStr(*c.TLSName) + ")"
	}
	return fmt.Sprintf("(mkCfg %s %s %s %s %s %s %s)", coqList(fs), CoqBool(c.Tee != 0), CoqBool(c.WS), CoqBool(c.HsOK), CoqStr(c.Domain), tn, CoqBool(c.TeeFirst))
}

// CoqNegCase renders `mkNCase cfg bits in tls outs choices class bits' trace`.
func CoqNegCase(c NegCase, o Observed) string {
	var outs, chs []string
	for _, x := range c.Outs {
		outs = append(outs, CoqOutcome(x))
	}
	for _, x := range o.Choices {
		chs = append(chs, CoqStr(x))
	}
	return fmt.Sprintf("mkNCase %s %s %s %s %s %s %s %s %s", CoqConfig(c), CoqN(c.Bits), CoqItems(c.In), CoqItems(c.TLSIn),
		coqList(outs), coqList(chs), CoqClass(o.Class), CoqN(o.Bits), CoqTrace(o.Trace))
}
