package main

// Two more families of schedules.
//
// 1. The life of a response after the hand-off: every blocking helper x a reply
//    that is well formed, cut (connection ends) or corrupted (mismatched end tag)
//    at every token boundary x what the caller then does with what it got (read
//    everything, stop early, read past an error, close twice, not close after an
//    error). Oracle: nothing panics, the serve loop is released exactly once.
// 2. An in-band bytestream writer that holds the write lock while it waits for
//    the acknowledgement of a data packet, against a close request of the peer
//    that is handled on the serve goroutine ("close overtakes ack").

import (
	"bytes"
	"context"
	"encoding/json"
	"encoding/xml"
	"errors"
	"fmt"
	"io"
	"net"
	"regexp"
	"strings"
	"time"

	"mellium.im/xmlstream"
	"mellium.im/xmpp"
	"mellium.im/xmpp/ibb"
	"mellium.im/xmpp/jid"
	"mellium.im/xmpp/mux"
	"mellium.im/xmpp/stanza"
	"verifharness/hx"
)

const importsLife = "From Coq Require Import List NArith.\nImport ListNotations.\nFrom XV Require Import lib.Lts C06.Model C06.ModelLife C06.Tables.\n"

// ---------------------------------------------------------------------------
// 1. response life
// ---------------------------------------------------------------------------

type lifeCase struct {
	Mode   string `json:"mode"` // life
	Helper string `json:"helper"`
	Reply  string `json:"reply"` // result | error
	Cut    string `json:"cut"`   // none | mismatch | eof
	At     int    `json:"at"`    // token boundary (1-based) where the reply is cut or corrupted
	Caller string `json:"caller"`
}

var lifeHelpers = []string{"SendIQ", "EncodeIQElement", "UnmarshalIQ", "UnmarshalIQElement", "IterIQ", "IterIQElement", "SendMessage", "SendPresenceElement"}

func lifeKind(helper string) string {
	switch {
	case strings.Contains(helper, "Message"):
		return "message"
	case strings.Contains(helper, "Presence"):
		return "presence"
	}
	return "iq"
}

func lifeCallers(helper string) []string {
	switch {
	case strings.HasPrefix(helper, "Unmarshal"):
		return []string{"-"}
	case strings.HasPrefix(helper, "Iter"):
		return []string{"iterate-close", "stop-early", "past-error", "double-close", "no-close-after-error"}
	}
	return []string{"readall-close", "stop-early", "past-error", "double-close", "close-only"}
}

// replyPieces: the reply split at its token boundaries.
func replyPieces(kind, id, typ string) []string {
	open := fmt.Sprintf(`<%s type="%s" id="%s">`, kind, typ, id)
	if typ == "error" {
		return []string{open, `<error type="cancel">`, `<item-not-found xmlns="urn:ietf:params:xml:ns:xmpp-stanzas">`, `</item-not-found>`,
			`<text xmlns="urn:ietf:params:xml:ns:xmpp-stanzas">`, `7`, `</text>`, `</error>`, `</` + kind + `>`}
	}
	return []string{open, `<m xmlns="` + nsC06 + `" n="7">`, `<a>`, `</a>`, `<b>`, `t`, `</b>`, `</m>`, `</` + kind + `>`}
}

type lifeObs struct {
	Labels   []string `json:"labels"`
	Panic    bool     `json:"panic"`
	Released int      `json:"released"`
}

// lifeRun runs one schedule; it returns the finding (key, what) or "".
func (x *runner) lifeRun(c lifeCase) {
	setCurrent(c)
	var b base
	if err := b.start(nil, []string{"serve.iter", "serve.awaitclose.after"}, logHandler{make(chan int, 64)}); err != nil {
		x.res.Fail("C06/harness/setup", err.Error(), nil)
		return
	}
	defer b.stop()
	kind := lifeKind(c.Helper)
	id := "life1"
	cfg := reqCfg{Entry: c.Helper, ID: id, Kind: kind, NS: "", Typ: map[string]string{"iq": "get", "message": "chat", "presence": ""}[kind]}
	cfg.normalise()
	ctx, cancel := context.WithCancel(context.Background())
	defer cancel()

	type result struct {
		labels     []string
		helperPan  string
		callerPan  string
		callerStep string
		class      string
	}
	done := make(chan result, 1)
	go func() {
		var r result
		var out lifeResult
		r.helperPan = hx.Catch(func() { out = lifeCall(b.s, ctx, cfg) })
		if r.helperPan != "" {
			done <- r
			return
		}
		r.class = out.class
		lab := func(l string) { r.labels = append(r.labels, l) }
		switch {
		case strings.HasPrefix(c.Helper, "Unmarshal"):
			if out.class == "senderr" { // not a stanza error, not nil: reading the reply failed
				lab("RTokErr")
			} else {
				lab("RTokOk")
			}
			lab("RClose")
		case strings.HasPrefix(c.Helper, "Iter"):
			if out.iter == nil {
				if out.class == "senderr" {
					lab("RTokErr")
				} else {
					lab("RTokOk")
				}
				lab("RClose")
				break
			}
			it := out.iter
			failed := false
			next := func() bool {
				ok := it.Next()
				if !ok && it.Err() != nil && !failed {
					failed = true
					lab("RTokErr")
				} else if !failed {
					lab("RTokOk")
				}
				return ok
			}
			closeIt := func(first bool) {
				if !first {
					it.Close() // a second Close of an iterator does nothing
					return
				}
				err := it.Close()
				switch {
				case failed:
					lab("RTokErr") // drains first: the reader returns its error again; the reader is not closed again
				case err != nil:
					failed = true
					lab("RTokErr")
				default:
					lab("RTokOk")
					lab("RClose")
				}
			}
			r.callerPan = hx.Catch(func() {
				switch c.Caller {
				case "iterate-close":
					r.callerStep = "iterate"
					for next() {
					}
					r.callerStep = "close"
					closeIt(true)
				case "stop-early":
					r.callerStep = "iterate"
					next()
					r.callerStep = "close"
					closeIt(true)
				case "past-error":
					r.callerStep = "iterate"
					for next() {
					}
					it.Next() // returns false without reading once the iterator has failed or ended
					r.callerStep = "close"
					closeIt(true)
				case "double-close":
					r.callerStep = "iterate"
					for next() {
					}
					r.callerStep = "close"
					closeIt(true)
					r.callerStep = "second-close"
					closeIt(false)
				case "no-close-after-error":
					r.callerStep = "iterate"
					for next() {
					}
					if !failed {
						r.callerStep = "close"
						closeIt(true)
					}
				}
			})
		default:
			if out.resp == nil {
				break // the call returned an error: there is nothing to close
			}
			resp := out.resp
			read := func() (more bool) {
				_, err := resp.Token()
				switch {
				case err == nil:
					lab("RTokOk")
					return true
				case err == io.EOF:
					lab("RTokOk")
					return false
				}
				lab("RTokErr")
				return false
			}
			cl := func() { resp.Close(); lab("RClose") }
			r.callerPan = hx.Catch(func() {
				switch c.Caller {
				case "readall-close":
					r.callerStep = "read"
					for read() {
					}
					r.callerStep = "close"
					cl()
				case "stop-early":
					r.callerStep = "read"
					read()
					r.callerStep = "close"
					cl()
				case "past-error":
					r.callerStep = "read"
					for read() {
					}
					read()
					read()
					r.callerStep = "close"
					cl()
				case "double-close":
					r.callerStep = "read"
					for read() {
					}
					r.callerStep = "close"
					cl()
					r.callerStep = "second-close"
					lab("RClose") // the operation is attempted whether or not it panics
					resp.Close()
				case "close-only":
					r.callerStep = "close"
					cl()
				}
			})
		}
		done <- r
	}()

	cc := c
	fail := func(key, what string) { x.res.Fail(key, what, cc) }
	// the request is on the wire: answer it
	deadline := time.Now().Add(watchdog)
	for !bytes.Contains(b.p.Written(), []byte(`id="`+id+`"`)) {
		if time.Now().After(deadline) {
			fail("C06/"+group(c.Helper)+"/call-stuck:send", "the request never appeared on the wire")
			return
		}
		time.Sleep(100 * time.Microsecond)
	}
	pieces := replyPieces(kind, id, c.Reply)
	go func() {
		switch c.Cut {
		case "none":
			b.p.Send([]byte(strings.Join(pieces, "")))
		case "mismatch":
			b.p.Send([]byte(strings.Join(pieces[:c.At], "") + `</bogus>`))
		case "eof":
			b.p.Send([]byte(strings.Join(pieces[:c.At], "")))
			b.p.Peer.Close()
		}
	}()
	var r result
	select {
	case r = <-done:
	case <-time.After(watchdog):
		fail("C06/"+group(c.Helper)+"/call-never-returns:ill-formed-reply", "the call (or what the caller does with its result) did not finish after the reply arrived")
		return
	}
	classes := []string{"life/" + c.Helper, "life/cut-" + c.Cut, "life/caller-" + c.Caller, "life/reply-" + c.Reply}
	canon, _ := json.Marshal(c)
	x.res.Count(string(canon), c.Cut != "none" || c.Caller != "readall-close", classes...)
	panicked := r.helperPan != "" || r.callerPan != ""
	switch {
	case r.helperPan != "" && strings.Contains(r.helperPan, "close of closed channel"):
		fail("C06/response/closed-twice", "the blocking call panicked instead of returning once: the response was closed a second time inside "+c.Helper+" ("+r.helperPan+")")
	case r.helperPan != "":
		fail("C06/call/panic", c.Helper+" panicked: "+r.helperPan)
	case r.callerPan != "" && r.callerStep == "second-close" && !strings.HasPrefix(c.Helper, "Iter"):
		fail("C06/response/caller-double-close-panics", "closing the response returned by "+c.Helper+" a second time panics: "+r.callerPan)
	case r.callerPan != "" && strings.Contains(r.callerPan, "close of closed channel"):
		fail("C06/response/closed-twice", "the response was closed a second time by the library while the caller did '"+r.callerStep+"' on what "+c.Helper+" returned ("+r.callerPan+")")
	case r.callerPan != "":
		fail("C06/call/panic", "the caller's '"+r.callerStep+"' on what "+c.Helper+" returned panicked: "+r.callerPan)
	}
	// the serve loop must have been released exactly once (every path closes the response)
	released := 0
	got := r.class == "reply" || len(r.labels) > 0
	wait := time.After(watchdog)
	settled := false
	for !settled {
		select {
		case e := <-b.serve.ev:
			if e == "@serve.awaitclose.after" {
				released++
			}
			if e == "@serve.iter" && released > 0 {
				settled = true
			}
		case <-b.serveDone: // an ill-formed reply ends the session once it has been released
			for {
				select {
				case e := <-b.serve.ev:
					if e == "@serve.awaitclose.after" {
						released++
					}
					continue
				default:
				}
				break
			}
			settled = true
		case <-wait:
			settled = true
			if got && !panicked {
				fail("C06/response/not-released", "the call got its response and everything the caller does with it is over, but the serve loop is still waiting for the response to be closed")
				return
			}
		}
	}
	if b.panicked("C06/serve/panic") {
		fail(b.failKey, b.failWhat)
		return
	}
	if got && !panicked && released != 1 {
		fail("C06/response/not-released", fmt.Sprintf("the serve loop was released %d times for one response", released))
		return
	}
	if !got || (panicked && !(r.callerStep == "second-close")) {
		return // no model case: the model has no label for a panic inside the library
	}
	cfgName := "rl_code_raw"
	if strings.HasPrefix(c.Helper, "Iter") {
		cfgName = "rl_code_iter"
	}
	o := lifeObs{Labels: r.labels, Panic: panicked, Released: released}
	x.life.Add(fmt.Sprintf("mkrlcase %s [%s] %s %d%%nat", cfgName, strings.Join(r.labels, ";"), hx.CoqBool(panicked), released),
		map[string]interface{}{"case": c, "observed": o})
}

type lifeResult struct {
	callResult
	resp xmlstream.TokenReadCloser
	iter *xmlstream.Iter
}

// lifeCall is doCall without consuming what the helper returns.
func lifeCall(sess *xmpp.Session, ctx context.Context, c reqCfg) (out lifeResult) {
	payload := xmlstream.Wrap(nil, xml.StartElement{Name: xml.Name{Space: nsC06, Local: "q"}})
	name := xml.Name{Space: c.NS, Local: c.Kind}
	iq := stanza.IQ{XMLName: name, ID: c.ID, Type: stanza.IQType(c.Typ)}
	msg := stanza.Message{XMLName: name, ID: c.ID, Type: stanza.MessageType(c.Typ)}
	pres := stanza.Presence{XMLName: name, ID: c.ID, Type: stanza.PresenceType(c.Typ)}
	var err error
	switch c.Entry {
	case "SendIQ":
		out.resp, err = sess.SendIQ(ctx, iq.Wrap(payload))
	case "EncodeIQElement":
		out.resp, err = sess.EncodeIQElement(ctx, payloadQ{C: 0}, iq)
	case "SendMessage":
		out.resp, err = sess.SendMessage(ctx, msg.Wrap(payload))
	case "SendPresenceElement":
		out.resp, err = sess.SendPresenceElement(ctx, payload, pres)
	case "UnmarshalIQ", "UnmarshalIQElement":
		var v markerM
		if c.Entry == "UnmarshalIQ" {
			err = sess.UnmarshalIQ(ctx, iq.Wrap(payload), &v)
		} else {
			err = sess.UnmarshalIQElement(ctx, payload, iq, &v)
		}
		if err == nil {
			out.class = "reply"
			return out
		}
	case "IterIQ":
		out.iter, _, err = sess.IterIQ(ctx, iq.Wrap(payload))
	case "IterIQElement":
		out.iter, _, err = sess.IterIQElement(ctx, payload, iq)
	default:
		panic("unknown helper " + c.Entry)
	}
	if err != nil {
		out.iter, out.resp = nil, nil
		var se stanza.Error
		switch {
		case errors.As(err, &se):
			out.class = "reply" // a well formed error reply
		case errors.Is(err, context.Canceled):
			out.class = "ctx"
		default:
			out.class = "senderr" // reading the reply failed
		}
		out.err = err.Error()
		return out
	}
	out.class = "reply"
	return out
}

// lifeAll: every helper x reply kind x cut kind at every boundary x caller
// behaviour (thorough), or a seeded sample of the boundaries (quick).
func (x *runner) lifeAll(r *hx.Rand, thorough bool) {
	for _, h := range lifeHelpers {
		replies := []string{"result", "error"}
		for _, rep := range replies {
			n := len(replyPieces(lifeKind(h), "x", rep))
			for _, caller := range lifeCallers(h) {
				x.lifeRun(lifeCase{Mode: "life", Helper: h, Reply: rep, Cut: "none", Caller: caller})
				for _, cut := range []string{"mismatch", "eof"} {
					for at := 1; at < n; at++ {
						// quick: the boundaries inside what the helper itself parses always, the others sampled
						if !thorough && at > 3 && !r.Chance(1, 4) {
							continue
						}
						x.lifeRun(lifeCase{Mode: "life", Helper: h, Reply: rep, Cut: cut, At: at, Caller: caller})
					}
				}
			}
		}
	}
}

// ---------------------------------------------------------------------------
// 2. ibb: writer waiting for its acknowledgement vs. the peer's close
// ---------------------------------------------------------------------------

var iwPark = []string{"sendresp.registered", "sendresp.select.before"}
var iwNote = []string{"serve.iter"}

type iwAction struct {
	Op string `json:"op"` // write wgo ack nak close lclose again snap
}

type iwCase struct {
	Mode    string     `json:"mode"` // ibb-writer
	Actions []iwAction `json:"actions"`
}

type iwRun struct {
	base
	conn    *ibb.Conn
	writer  *actor
	wpos    string // idle hold wait ret
	wok     bool
	werr    error
	wpanic  string
	closed  bool
	aborted bool
	broken  bool // a data packet failed: the buffered writer keeps that error
	nwrites int
	nsent   int      // data packets sent
	life    []string // cases of the response-life model observed on the way
}

func newIwRun() (*iwRun, error) {
	x := &iwRun{wpos: "idle"}
	h := &ibb.Handler{}
	if err := x.start(iwPark, iwNote, mux.New(stanza.NSClient, ibb.Handle(h))); err != nil {
		return nil, err
	}
	l := h.Listen(x.s)
	acc := make(chan net.Conn, 1)
	go func() {
		c, _ := l.Accept()
		acc <- c
	}()
	open := `<iq type="set" id="o1" from="` + peerFull + `" to="` + x.s.LocalAddr().String() + `"><open xmlns="http://jabber.org/protocol/ibb" sid="w1" block-size="4096" stanza="iq"/></iq>`
	if err := x.p.Send([]byte(open)); err != nil {
		return nil, err
	}
	select {
	case c := <-acc:
		x.conn, _ = c.(*ibb.Conn)
	case <-time.After(watchdog):
		return nil, fmt.Errorf("the stream was not accepted")
	}
	if x.conn == nil {
		return nil, fmt.Errorf("no *ibb.Conn")
	}
	if e := await(x.serve, watchdog); e != "@serve.iter" {
		return nil, fmt.Errorf("open not finished: %q", e)
	}
	return x, nil
}

func (x *iwRun) enabled(a iwAction) bool {
	switch a.Op {
	case "write":
		return x.wpos == "idle"
	case "wgo":
		return x.wpos == "hold"
	case "ack", "nak":
		return x.wpos == "wait"
	case "close":
		return !x.closed
	case "lclose":
		return !x.closed && (x.wpos == "idle" || x.wpos == "ret")
	case "again":
		return x.wpos == "ret"
	case "snap":
		return true
	}
	return false
}

var dataIQ = regexp.MustCompile(`<iq[^>]*id="([^"]+)"[^>]*><data `)

func (x *iwRun) writerReturned() {
	x.wpos = "ret"
	if x.wpanic != "" {
		x.fail("C06/ibb-write/panic", "Write/Flush panicked: "+x.wpanic)
	}
	x.wok = x.werr == nil
}

func (x *iwRun) do(a iwAction) {
	if x.failed || !x.enabled(a) {
		return
	}
	switch a.Op {
	case "write":
		x.nwrites++
		x.writer = newActor(fmt.Sprintf("writer%d", x.nwrites))
		w := x.writer
		go func() {
			x.g.bind(w)
			x.wpanic = hx.Catch(func() {
				_, x.werr = x.conn.Write([]byte("012345678")) // a multiple of 3: one base64 group run, one data packet per Flush
				if x.werr == nil {
					x.werr = x.conn.Flush()
				}
			})
			w.ev <- "ret"
		}()
		e := x.expect(w, "C06/ibb-write/call-stuck:start", "C06/ibb-close/handler-panic", "Write/Flush neither failed nor registered its data packet", "sendresp.registered", "ret")
		if e == "" {
			return
		}
		x.label("WStart")
		if e == "ret" {
			x.writerReturned()
			if x.werr == nil {
				x.fail("C06/ibb-write/wrong-outcome", "Write/Flush returned nil without sending a data packet")
			}
			if !x.closed && !x.broken {
				x.fail("C06/ibb-write/spurious-error", fmt.Sprintf("Write/Flush on an open stream failed at once: %v", x.werr))
			}
		} else {
			x.wpos = "hold"
			if x.closed {
				x.fail("C06/ibb-write/writes-after-close", "Write/Flush started to send a data packet on a stream that is closed")
			}
		}
	case "wgo":
		if !x.g.release(x.writer) {
			x.fail("C06/harness/unexpected-step", "the parked writer could not be released")
			return
		}
		if x.expect(x.writer, "C06/ibb-write/call-stuck:send", "C06/ibb-close/handler-panic", "the data packet was not sent", "sendresp.select.before") == "" {
			return
		}
		// let it enter its wait; it holds the write lock until the reply comes
		x.g.release(x.writer)
		x.wpos = "wait"
		x.nsent++
		x.label("WSend")
	case "ack", "nak":
		// the capture of the session's output may lag behind: look until the packet is there
		want := x.nsent
		ms := dataIQ.FindAllSubmatch(x.p.Written(), -1)
		for deadline := time.Now().Add(6 * watchdog); len(ms) < want && time.Now().Before(deadline); {
			time.Sleep(200 * time.Microsecond)
			ms = dataIQ.FindAllSubmatch(x.p.Written(), -1)
		}
		if len(ms) == 0 {
			x.fail("C06/ibb-write/packet-not-sent", "no data packet on the wire although the writer waits for its acknowledgement")
			return
		}
		id := string(ms[len(ms)-1][1])
		raw := fmt.Sprintf(`<iq type="result" id="%s" from="%s"/>`, id, peerFull)
		if a.Op == "nak" {
			raw = fmt.Sprintf(`<iq type="error" id="%s" from="%s"><error type="cancel"><item-not-found xmlns="urn:ietf:params:xml:ns:xmpp-stanzas"/></error></iq>`, id, peerFull)
		}
		if err := x.p.Send([]byte(raw)); err != nil {
			x.fail("C06/ibb-close/serve-stall:writer-waiting-for-ack", "the serve loop does not read the acknowledgement of the writer's data packet: "+err.Error())
			return
		}
		if x.expect(x.writer, "C06/ibb-write/call-never-returns", "C06/ibb-close/handler-panic", "the writer did not return after the reply to its data packet arrived", "ret") == "" {
			return
		}
		x.writerReturned()
		if a.Op == "nak" {
			x.broken = true
		}
		x.label("WAck %s", hx.CoqBool(a.Op == "ack"))
		if x.wok != (a.Op == "ack") {
			x.fail("C06/ibb-write/wrong-outcome", fmt.Sprintf("the reply to the data packet was %s but Write/Flush returned %v", a.Op, x.werr))
		}
		if x.expect(x.serve, "C06/ibb/serve-stall:after-ack", "C06/ibb-close/handler-panic", "the serve loop did not continue after the acknowledgement", "@serve.iter") == "" {
			return
		}
	case "close":
		holds := x.wpos == "hold" || x.wpos == "wait"
		raw := fmt.Sprintf(`<iq type="set" id="c1" from="%s" to="%s"><close xmlns="http://jabber.org/protocol/ibb" sid="w1"/></iq>`, peerFull, x.s.LocalAddr())
		if err := x.p.Send([]byte(raw)); err != nil {
			x.fail("C06/ibb/serve-stall:not-reading", err.Error())
			return
		}
		key, what := "C06/ibb/handler-stall:close", "the close handler did not return"
		if holds {
			key, what = "C06/ibb-close/serve-stall:writer-waiting-for-ack", "the peer's close request arrived while a Write/Flush holds the write lock (waiting for the acknowledgement of its data packet, which only the serve goroutine can deliver): the serve goroutine is blocked in the close handler, for good"
		}
		select {
		case <-x.serveDone:
			// not a stall: the close handler returned an error and Serve ended with it
			x.fail("C06/ibb-close/serve-ended:stale-write-error", "the peer's close request ended the whole session: closeNoNotify flushes the write buffer, which still holds the error of an earlier refused data packet, the handler returns it and Serve stops; the close request is never answered")
			return
		case e := <-x.serve.ev:
			x.serve.ev <- e // put it back for expect
		case <-time.After(watchdog):
		}
		if x.expect(x.serve, key, "C06/ibb-close/handler-panic", what, "@serve.iter") == "" {
			return
		}
		x.closed = true
		x.label("VCloseArrive")
		x.label("VTry")
		if holds {
			x.aborted = true
			x.classes["close-overtakes-ack"] = true
		} else {
			x.label("VFlushDone")
		}
		if !regexp.MustCompile(`<iq[^>]*type=["']result["'][^>]*id=["']c1["']|<iq[^>]*id=["']c1["'][^>]*type=["']result["']`).Match(x.p.WaitQuiet(2*time.Millisecond, 200*time.Millisecond)) {
			x.fail("C06/ibb-close/not-answered", "the peer's close request was not answered with a result")
		}
	case "lclose":
		// the application closes the stream: flush, then the close request (a
		// blocking call inside ibb); the peer answers; whatever Close returns, the
		// reply must have been closed or the serve loop stays parked on it
		done := make(chan error, 1)
		go func() { done <- x.conn.Close() }()
		var id string
		deadline := time.Now().Add(watchdog)
		for id == "" && time.Now().Before(deadline) {
			if m := closeIQ.FindSubmatch(x.p.Written()); m != nil {
				id = string(m[1])
			} else {
				time.Sleep(200 * time.Microsecond)
			}
		}
		if id == "" {
			x.fail("C06/ibb-close/close-not-sent", "Conn.Close did not send a close request")
			return
		}
		if err := x.p.Send([]byte(fmt.Sprintf(`<iq type="result" id="%s" from="%s"/>`, id, peerFull))); err != nil {
			x.fail("C06/ibb/serve-stall:not-reading", err.Error())
			return
		}
		var cerr error
		select {
		case cerr = <-done:
		case <-time.After(watchdog):
			x.fail("C06/ibb-close/call-stuck", "Conn.Close did not return after its close request was answered")
			return
		}
		if (cerr != nil) != x.broken {
			x.fail("C06/ibb-close/wrong-outcome", fmt.Sprintf("Conn.Close returned %v (a data packet had failed before: %v)", cerr, x.broken))
			return
		}
		if x.expect(x.serve, "C06/ibb-close/serve-stall:close-reply-not-closed", "C06/ibb-close/handler-panic", "Conn.Close has returned but the reply to its close request was not closed: the serve loop stays parked waiting for that response and reads nothing any more", "@serve.iter") == "" {
			return
		}
		x.closed = true
		x.label("CLocalClose")
		x.life = append(x.life, "mkrlcase rl_code_raw [RClose] false 1%nat")
		x.classes["local-close"] = true
		if x.broken {
			x.classes["local-close-after-refused-packet"] = true
		}
	case "again":
		x.wpos = "idle"
		x.label("WAgain")
	}
}

func (x *iwRun) finish() {
	if x.enabled(iwAction{Op: "wgo"}) {
		x.do(iwAction{Op: "wgo"})
	}
	if !x.closed {
		x.do(iwAction{Op: "close"})
	}
	if x.enabled(iwAction{Op: "ack"}) {
		x.do(iwAction{Op: "ack"})
	}
	if x.failed {
		return
	}
	if x.wpos != "idle" && x.wpos != "ret" {
		x.fail("C06/ibb-write/call-never-returns", "the writer has not returned")
		return
	}
	if err := x.p.Send([]byte(`<message id="sentinel" from="` + peerFull + `"><body>x</body></message>`)); err != nil {
		x.fail("C06/ibb/serve-stall:not-reading", err.Error())
		return
	}
	x.expect(x.serve, "C06/ibb/serve-stall:sentinel", "C06/ibb-close/handler-panic", "the serve loop did not process the final element", "@serve.iter")
	x.panicked("C06/ibb-close/handler-panic")
}

func (x *iwRun) coqCase() (string, map[string]interface{}) {
	w := map[string]int{"idle": 0, "hold": 1, "wait": 2, "ret": 4}[x.wpos]
	if x.wpos == "ret" && x.wok {
		w = 3
	}
	return fmt.Sprintf("mkiwcase [%s] %d%%nat 0%%nat %s", x.labelString(), w, hx.CoqBool(x.closed)),
		map[string]interface{}{"writer": w, "closed": x.closed}
}

func (x *runner) iwEmit(run *iwRun, acts []iwAction, note string) {
	term, o := run.coqCase()
	x.iw.Add(term, map[string]interface{}{"case": iwCase{Mode: "ibb-writer", Actions: append([]iwAction(nil), acts...)}, "observed": o, "labels": run.labels, "note": note})
}

func (x *runner) iwFinish(run *iwRun, acts []iwAction, class string) {
	run.finish()
	x.noteSlow("ibb-writer", run.failed, run.failWhat)
	cc := iwCase{Mode: "ibb-writer", Actions: acts}
	canon, _ := json.Marshal(cc)
	cls := []string{"ibb-writer/" + class}
	for c := range run.classes {
		cls = append(cls, "ibb-writer/saw-"+c)
	}
	x.res.Count(string(canon), run.classes["close-overtakes-ack"] || run.closed, cls...)
	if run.failed {
		x.res.Fail(run.failKey, run.failWhat, cc)
	} else {
		x.iwEmit(run, acts, "final")
		for _, t := range run.life {
			x.life.Add(t, map[string]interface{}{"case": cc, "observed": "Conn.Close: reply closed once, serve loop released"})
		}
	}
	run.stop()
}

func (x *runner) iwReplay(acts []iwAction, class string) {
	if x.skip("ibb-writer") && class != "replay" {
		return
	}
	setCurrent(iwCase{Mode: "ibb-writer", Actions: acts})
	run, err := newIwRun()
	if err != nil {
		x.res.Fail("C06/harness/setup", err.Error(), nil)
		return
	}
	for _, a := range acts {
		run.do(a)
		if a.Op == "snap" && !run.failed {
			x.iwEmit(run, acts, "snapshot")
		}
	}
	x.iwFinish(run, acts, class)
}

func (x *runner) iwWalk(r *hx.Rand, steps int) {
	if x.skip("ibb-writer") {
		return
	}
	run, err := newIwRun()
	if err != nil {
		x.res.Fail("C06/harness/setup", err.Error(), nil)
		return
	}
	var acts []iwAction
	for k := 0; k < steps && !run.failed; k++ {
		var cs []iwAction
		var ws []int
		add := func(op string, w int) {
			if run.enabled(iwAction{Op: op}) {
				cs, ws = append(cs, iwAction{Op: op}), append(ws, w)
			}
		}
		add("write", 4)
		add("wgo", 4)
		add("ack", 3)
		add("nak", 1)
		add("close", 2)
		add("lclose", 1)
		add("again", 4)
		add("snap", 1)
		tot := 0
		for _, w := range ws {
			tot += w
		}
		pick := r.Intn(tot)
		var a iwAction
		for j, w := range ws {
			if pick < w {
				a = cs[j]
				break
			}
			pick -= w
		}
		acts = append(acts, a)
		setCurrent(iwCase{Mode: "ibb-writer", Actions: acts})
		run.do(a)
		if a.Op == "snap" && !run.failed {
			x.iwEmit(run, acts, "snapshot")
		}
	}
	x.iwFinish(run, acts, "walk")
}

var iwCorpus = [][]iwAction{
	// the peer's close overtakes the acknowledgement of a data packet
	{{Op: "write"}, {Op: "wgo"}, {Op: "close"}, {Op: "snap"}, {Op: "ack"}, {Op: "again"}, {Op: "write"}},
	// ... the packet is registered but not sent yet
	{{Op: "write"}, {Op: "close"}, {Op: "wgo"}, {Op: "nak"}},
	// close on an idle stream, then a write
	{{Op: "close"}, {Op: "write"}},
	// ordinary order
	{{Op: "write"}, {Op: "wgo"}, {Op: "ack"}, {Op: "again"}, {Op: "write"}, {Op: "wgo"}, {Op: "ack"}, {Op: "close"}},
	// a refused data packet (the writer keeps that error), then the application closes:
	// the reply to the close request must be closed whatever Close returns
	{{Op: "write"}, {Op: "wgo"}, {Op: "nak"}, {Op: "lclose"}},
	{{Op: "write"}, {Op: "wgo"}, {Op: "ack"}, {Op: "lclose"}, {Op: "again"}, {Op: "write"}},
	{{Op: "lclose"}},
}

// ---------------------------------------------------------------------------
// 3. ibb: the table of expected sessions (Listener.Expect / handleOpen)
// ---------------------------------------------------------------------------

type exAction struct {
	Op string `json:"op"` // expect cancel open accept snap
	I  int    `json:"i,omitempty"`
}

type exCase struct {
	Mode    string     `json:"mode"` // ibb-expect-table
	Actions []exAction `json:"actions"`
}

type exCall struct {
	a      *actor
	cancel context.CancelFunc
	ret    chan struct{}
	pos    string // wait ret
	conn   net.Conn
	err    error
}

type exRun struct {
	base
	l        *ibb.Listener
	calls    []*exCall
	owner    int    // the call whose entry is in the table (-1: none)
	spos     string // idle accept
	opened   bool
	pendingA int // Accept calls waiting
	accepted int
	acc      chan net.Conn
}

func newExRun() (*exRun, error) {
	x := &exRun{owner: -1, spos: "idle", acc: make(chan net.Conn, 8)}
	h := &ibb.Handler{}
	if err := x.start(nil, []string{"serve.iter"}, mux.New(stanza.NSClient, ibb.Handle(h))); err != nil {
		return nil, err
	}
	x.l = h.Listen(x.s)
	return x, nil
}

func (x *exRun) enabled(a exAction) bool {
	switch a.Op {
	case "expect":
		return len(x.calls) < 4 && !x.opened
	case "cancel":
		return a.I >= 0 && a.I < len(x.calls) && x.calls[a.I].pos == "wait"
	case "open":
		return !x.opened && x.spos == "idle"
	case "accept":
		return x.pendingA == 0 && x.accepted == 0
	case "snap":
		return true
	}
	return false
}

// returned waits for call i to return with the context error after its context ended.
func (x *exRun) returned(i int, why string) bool {
	c := x.calls[i]
	select {
	case <-c.ret:
	case <-time.After(watchdog):
		x.fail("C06/ibb-expect/call-never-returns", fmt.Sprintf("Expect call %d did not return after %s", i, why))
		return false
	}
	c.pos = "ret"
	if !errors.Is(c.err, context.Canceled) {
		x.fail("C06/ibb-expect/wrong-outcome", fmt.Sprintf("Expect call %d returned (%v, %v) after %s", i, c.conn != nil, c.err, why))
		return false
	}
	x.label("ECtx %d%%nat", i)
	x.label("ECleanup %d%%nat", i)
	return true
}

func (x *exRun) do(a exAction) {
	if x.failed || !x.enabled(a) {
		return
	}
	switch a.Op {
	case "expect":
		i := len(x.calls)
		c := &exCall{a: newActor(fmt.Sprintf("expect%d", i)), ret: make(chan struct{}), pos: "wait"}
		var ctx context.Context
		ctx, c.cancel = context.WithCancel(context.Background())
		x.calls = append(x.calls, c)
		go func() {
			x.g.bind(c.a)
			c.conn, c.err = x.l.Expect(ctx, jid.MustParse(peerFull), "sx")
			close(c.ret)
		}()
		if !waitBlocked(c.a, watchdog, "select") {
			x.fail("C06/harness/unexpected-step", "Expect did not block in its select")
			return
		}
		x.label("EStart")
		if old := x.owner; old >= 0 {
			// the documented take-over: the call whose entry was there is cancelled
			x.classes["take-over"] = true
			if !x.returned(old, "a second Expect call for the same session took over") {
				return
			}
		}
		x.owner = i
	case "cancel":
		c := x.calls[a.I]
		c.cancel()
		x.label("ECancel %d%%nat", a.I)
		if !x.returned(a.I, "its context was cancelled") {
			return
		}
		if x.owner == a.I {
			x.owner = -1
		}
		x.classes["cancel"] = true
	case "open":
		x.opened = true
		open := `<iq type="set" id="ox" from="` + peerFull + `" to="` + x.s.LocalAddr().String() + `"><open xmlns="http://jabber.org/protocol/ibb" sid="sx" block-size="4096" stanza="iq"/></iq>`
		if err := x.p.Send([]byte(open)); err != nil {
			x.fail("C06/ibb/serve-stall:not-reading", err.Error())
			return
		}
		x.label("OArrive")
		if j := x.owner; j >= 0 {
			// a live Expect call waits for exactly this session: it must get it
			if waitBlockedOrEvent(x.serve, watchdog, "chan send") {
				x.fail("C06/ibb-expect/handler-stall:entry-removed-by-other-call", fmt.Sprintf("Expect call %d is waiting for this session with a live context, but its entry is gone (removed by another Expect call that gave up): the open request is handed to Accept instead, nobody accepts, the open is never answered and the serve loop is blocked", j))
				return
			}
			c := x.calls[j]
			select {
			case <-c.ret:
			case <-time.After(watchdog):
				x.fail("C06/ibb-expect/open-not-delivered", fmt.Sprintf("the serve loop went on but Expect call %d did not get the stream it waits for", j))
				return
			}
			c.pos = "ret"
			if c.err != nil || c.conn == nil {
				x.fail("C06/ibb-expect/wrong-outcome", fmt.Sprintf("Expect call %d returned (%v, %v) for the open request it waited for", j, c.conn != nil, c.err))
				return
			}
			x.owner = -1
			x.label("ODeliver %d%%nat", j)
			x.classes["delivered"] = true
			return
		}
		if x.pendingA > 0 {
			select {
			case <-x.acc:
			case <-time.After(watchdog):
				x.fail("C06/ibb-accept/stream-lost", "a pending Accept call did not get the stream nobody expects")
				return
			}
			x.pendingA--
			x.accepted++
			x.label("AAccept")
			if x.expect(x.serve, "C06/ibb/handler-stall:open", "C06/ibb-close/handler-panic", "the open handler did not return after Accept took the stream", "@serve.iter") == "" {
				return
			}
			return
		}
		if !waitBlockedOrEvent(x.serve, watchdog, "chan send") {
			x.fail("C06/ibb-expect/phantom-receiver", "nobody expects or accepts the stream, yet the open handler handed it to somebody")
			return
		}
		x.spos = "accept"
	case "accept":
		go func() { c, _ := x.l.Accept(); x.acc <- c }()
		if x.spos == "accept" {
			select {
			case <-x.acc:
			case <-time.After(watchdog):
				x.fail("C06/ibb-accept/stream-lost", "Accept did not get the stream that waits for it")
				return
			}
			x.accepted++
			x.label("AAccept")
			x.spos = "idle"
			if x.expect(x.serve, "C06/ibb/handler-stall:open", "C06/ibb-close/handler-panic", "the open handler did not return after Accept took the stream", "@serve.iter") == "" {
				return
			}
		} else {
			x.pendingA++
		}
	}
}

func (x *exRun) finish() {
	for i, c := range x.calls {
		if c.pos == "wait" {
			x.do(exAction{Op: "cancel", I: i})
		}
	}
	if x.spos == "accept" && x.enabled(exAction{Op: "accept"}) {
		x.do(exAction{Op: "accept"})
	}
	if x.failed {
		return
	}
	if x.spos != "idle" {
		x.fail("C06/ibb/serve-stall:"+x.spos, "the serve loop is still busy with the open request")
		return
	}
	if err := x.p.Send([]byte(`<message id="sentinel" from="` + peerFull + `"><body>x</body></message>`)); err != nil {
		x.fail("C06/ibb/serve-stall:not-reading", err.Error())
		return
	}
	x.expect(x.serve, "C06/ibb/serve-stall:sentinel", "C06/ibb-close/handler-panic", "the serve loop did not process the final element", "@serve.iter")
}

func (x *exRun) coqCase() (string, map[string]interface{}) {
	var codes []string
	for _, c := range x.calls {
		switch {
		case c.pos == "wait":
			codes = append(codes, "0%nat")
		case c.err == nil:
			codes = append(codes, "1%nat")
		default:
			codes = append(codes, "2%nat")
		}
	}
	h := 0
	if x.spos == "accept" {
		h = 2
	}
	return fmt.Sprintf("mkexcase [%s] [%s] %d%%nat %d%%nat", x.labelString(), strings.Join(codes, ";"), h, x.accepted),
		map[string]interface{}{"codes": codes, "h": h, "accepted": x.accepted}
}

func (x *runner) exEmit(run *exRun, acts []exAction, note string) {
	term, o := run.coqCase()
	x.ex.Add(term, map[string]interface{}{"case": exCase{Mode: "ibb-expect-table", Actions: append([]exAction(nil), acts...)}, "observed": o, "labels": run.labels, "note": note})
}

func (x *runner) exFinish(run *exRun, acts []exAction, class string) {
	run.finish()
	x.noteSlow("ibb-expect-table", run.failed, run.failWhat)
	cc := exCase{Mode: "ibb-expect-table", Actions: acts}
	canon, _ := json.Marshal(cc)
	cls := []string{"ibb-expect-table/" + class}
	for c := range run.classes {
		cls = append(cls, "ibb-expect-table/saw-"+c)
	}
	x.res.Count(string(canon), run.classes["take-over"] || run.classes["cancel"] || run.classes["delivered"], cls...)
	if run.failed {
		x.res.Fail(run.failKey, run.failWhat, cc)
	} else {
		x.exEmit(run, acts, "final")
	}
	for _, c := range run.calls {
		c.cancel()
	}
	run.stop()
}

func (x *runner) exReplay(acts []exAction, class string) {
	if x.skip("ibb-expect-table") && class != "replay" {
		return
	}
	setCurrent(exCase{Mode: "ibb-expect-table", Actions: acts})
	run, err := newExRun()
	if err != nil {
		x.res.Fail("C06/harness/setup", err.Error(), nil)
		return
	}
	for _, a := range acts {
		run.do(a)
		if a.Op == "snap" && !run.failed {
			x.exEmit(run, acts, "snapshot")
		}
	}
	x.exFinish(run, acts, class)
}

func (x *runner) exWalk(r *hx.Rand, steps int) {
	if x.skip("ibb-expect-table") {
		return
	}
	run, err := newExRun()
	if err != nil {
		x.res.Fail("C06/harness/setup", err.Error(), nil)
		return
	}
	var acts []exAction
	for k := 0; k < steps && !run.failed; k++ {
		var cs []exAction
		var ws []int
		add := func(a exAction, w int) {
			if run.enabled(a) {
				cs, ws = append(cs, a), append(ws, w)
			}
		}
		add(exAction{Op: "expect"}, 4)
		for i := range run.calls {
			add(exAction{Op: "cancel", I: i}, 2)
		}
		add(exAction{Op: "open"}, 2)
		add(exAction{Op: "accept"}, 1)
		add(exAction{Op: "snap"}, 1)
		tot := 0
		for _, w := range ws {
			tot += w
		}
		pick := r.Intn(tot)
		var a exAction
		for j, w := range ws {
			if pick < w {
				a = cs[j]
				break
			}
			pick -= w
		}
		acts = append(acts, a)
		setCurrent(exCase{Mode: "ibb-expect-table", Actions: acts})
		run.do(a)
		if a.Op == "snap" && !run.failed {
			x.exEmit(run, acts, "snapshot")
		}
	}
	x.exFinish(run, acts, "walk")
}

var exCorpus = [][]exAction{
	// a second Expect takes over; the cancelled first one gives up; then the peer opens
	{{Op: "expect"}, {Op: "expect"}, {Op: "snap"}, {Op: "open"}},
	// the first one is cancelled by its caller, then a second Expect, then the open
	{{Op: "expect"}, {Op: "cancel", I: 0}, {Op: "expect"}, {Op: "open"}},
	// take-over, then the second one is cancelled too: the open goes to a pending Accept
	{{Op: "accept"}, {Op: "expect"}, {Op: "expect"}, {Op: "cancel", I: 1}, {Op: "open"}},
	// three in a row
	{{Op: "expect"}, {Op: "expect"}, {Op: "expect"}, {Op: "open"}},
	// plain
	{{Op: "expect"}, {Op: "open"}},
	// nobody expects: the open waits for Accept
	{{Op: "expect"}, {Op: "cancel", I: 0}, {Op: "open"}, {Op: "snap"}, {Op: "accept"}},
}
