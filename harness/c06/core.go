package main

// Forced schedules for the core hand-off (session.go sendResp /
// handleInputStream / iqResponder).
//
// A schedule is a list of harness actions; every action is followed by a
// "settle" phase that waits for exactly the yield-point arrivals the action
// must cause (a goroutine that is supposed to block produces none and is not
// waited for). What really happened is written down as model labels; the Coq
// model then decides whether that label sequence and the end observables are
// possible (correspondence), and the oracle below states the property on the
// Go-side observables alone.

import (
	"context"
	"encoding/xml"
	"errors"
	"fmt"
	"io"
	"regexp"
	"strconv"
	"strings"
	"time"

	"mellium.im/xmlstream"
	"mellium.im/xmpp"
	"mellium.im/xmpp/jid"
	"mellium.im/xmpp/stanza"
	"verifharness/hx"
)

const nsC06 = "urn:c06"

var corePark = []string{
	"sendresp.registered", "sendresp.senderr", "sendresp.select.before", "sendresp.received", "sendresp.ctxdone",
	"serve.lookup.after", "serve.offer.before", "serve.awaitclose.before", "serve.awaitclose.after",
	"serve.offer.ctxdone", "serve.handler.before",
}

// send.enter is noted (not parked) so that the oracle sees whether a call
// starts writing its element before it has registered its id
var coreNote = []string{"serve.iter", "send.enter"}

// generous: a stall is inferred only from the absence of an arrival, and the
// machine may be heavily loaded; passing runs never wait for it
var watchdog = 10 * time.Second

type reqCfg struct {
	Entry    string `json:"entry"`
	ID       string `json:"id"`
	Kind     string `json:"kind"` // iq message presence
	NS       string `json:"ns"`   // "" jabber:client jabber:server
	Typ      string `json:"typ"`
	SendFail bool   `json:"sendfail,omitempty"`
	// IDForm: the shape of the request's id: "" a caller-chosen id (ID), "none" no
	// id attribute, "empty" id="", "qualified" only ext:id=ID in a foreign name space
	IDForm string `json:"idform,omitempty"`
	Idx    int    `json:"-"` // number of the call (set when it is started)
}

type peerSt struct {
	Kind string `json:"kind"`
	ID   string `json:"id"`
	Typ  string `json:"typ"`
	// extension attributes in a foreign name space, written BEFORE the real
	// ones: ext:id / ext:type. They are not the stanza's id and type.
	ExtID  string `json:"extid,omitempty"`
	ExtTyp string `json:"exttyp,omitempty"`
	// For: the element answers call *For: its id is the id that call has on the
	// wire (resolved when the element is sent; generated ids differ between runs)
	For *int `json:"for,omitempty"`
}

// normalise: EncodeIQ/EncodeMessage/EncodePresence marshal a struct whose
// XMLName tag fixes the element name without a name space, so the name the
// call registers has the empty name space whatever XMLName holds.
func (c *reqCfg) normalise() {
	switch c.Entry {
	case "EncodeIQ", "EncodeMessage", "EncodePresence":
		c.NS = ""
	}
	if !canSendFail(c.Entry) {
		c.SendFail = false
	}
	// what the API shape can express
	if c.IDForm != "" {
		switch c.Entry {
		case "SendIQ", "SendMessage", "SendPresence", "UnmarshalIQ", "IterIQ":
			// token reader: every shape
		case "EncodeIQ", "EncodePresence":
			c.IDForm = "empty" // the marshaled struct has id=""
		default:
			c.IDForm = "none" // a stanza value with an empty ID has no id attribute
		}
	}
}

// startElement builds the request's start element by hand for the id shapes a
// stanza value cannot express.
func (c reqCfg) startElement() xml.StartElement {
	st := xml.StartElement{Name: xml.Name{Space: c.NS, Local: c.Kind}}
	switch c.IDForm {
	case "empty":
		st.Attr = append(st.Attr, xml.Attr{Name: xml.Name{Local: "id"}, Value: ""})
	case "qualified":
		st.Attr = append(st.Attr, xml.Attr{Name: xml.Name{Space: "urn:c06:ext", Local: "id"}, Value: c.ID})
	}
	if c.Typ != "" {
		st.Attr = append(st.Attr, xml.Attr{Name: xml.Name{Local: "type"}, Value: c.Typ})
	}
	return st
}

func (p peerSt) isResp() bool { return p.Typ == "result" || p.Typ == "error" }

type action struct {
	Op  string  `json:"op"` // start go cancel close peer serve snap
	I   int     `json:"i,omitempty"`
	Cfg *reqCfg `json:"cfg,omitempty"`
	St  *peerSt `json:"st,omitempty"`
}

type coreCase struct {
	Mode    string   `json:"mode"`
	Actions []action `json:"actions"`
	Note    string   `json:"note,omitempty"`
}

// ---- one call ----

type callResult struct {
	class  string // reply ctx senderr other
	marker int    // arrival number of the response (-1 unknown)
	closer io.Closer
	err    string
	panic  string
}

type rstate struct {
	cfg      reqCfg
	key      string // the id the call is registered under, as far as the harness knows: the id on the wire
	wireID   string
	matched  bool // a reply carrying the wire id was matched to the call
	a        *actor
	pos      string // registered senderr selbefore inselect received ctxdone ret
	canc     bool
	cancel   context.CancelFunc
	ctx      context.Context
	res      callResult
	closed   bool
	closeCmd chan struct{}
}

type failingReader struct{}

func (failingReader) Token() (xml.Token, error) { return nil, errors.New("c06: payload reader fails") }

type payloadQ struct {
	XMLName xml.Name `xml:"urn:c06 q"`
	C       int      `xml:"c,attr"` // the number of the call: how the harness finds the request on the wire
}

type markerM struct {
	XMLName xml.Name `xml:"urn:c06 m"`
	N       int      `xml:"n,attr"`
}

func autoClosing(entry string) bool { return strings.HasPrefix(entry, "Unmarshal") }

var entriesByKind = map[string][]string{
	"iq":       {"SendIQ", "SendIQElement", "EncodeIQ", "EncodeIQElement", "UnmarshalIQ", "UnmarshalIQElement", "IterIQ", "IterIQElement"},
	"message":  {"SendMessage", "SendMessageElement", "EncodeMessage", "EncodeMessageElement"},
	"presence": {"SendPresence", "SendPresenceElement", "EncodePresence", "EncodePresenceElement"},
}

func canSendFail(entry string) bool {
	switch entry {
	case "SendIQ", "SendIQElement", "UnmarshalIQ", "UnmarshalIQElement", "IterIQ", "IterIQElement",
		"SendMessage", "SendMessageElement", "SendPresence", "SendPresenceElement":
		return true
	}
	return false
}

// markerOf reads the arrival number out of a response token stream.
func markerOf(r xml.TokenReader) int {
	m := -1
	inText := false
	for {
		tok, err := r.Token()
		if tok != nil {
			switch t := tok.(type) {
			case xml.StartElement:
				for _, a := range t.Attr {
					if a.Name.Local == "n" && m < 0 {
						if v, e := strconv.Atoi(a.Value); e == nil {
							m = v
						}
					}
				}
				inText = t.Name.Local == "text"
			case xml.CharData:
				if inText && m < 0 {
					if v, e := strconv.Atoi(strings.TrimSpace(string(t))); e == nil {
						m = v
					}
				}
			case xml.EndElement:
				inText = false
			}
		}
		if err != nil {
			return m
		}
	}
}

func classifyErr(err error) (string, int) {
	var se stanza.Error
	switch {
	case errors.Is(err, context.Canceled), errors.Is(err, context.DeadlineExceeded):
		return "ctx", -1
	case errors.As(err, &se):
		m := -1
		for _, v := range se.Text {
			if n, e := strconv.Atoi(strings.TrimSpace(v)); e == nil {
				m = n
			}
		}
		return "reply", m
	}
	return "senderr", -1
}

func doCall(s *xmpp.Session, ctx context.Context, c reqCfg) (out callResult) {
	out.marker = -1
	var payload xml.TokenReader = xmlstream.Wrap(nil, xml.StartElement{Name: xml.Name{Space: nsC06, Local: "q"},
		Attr: []xml.Attr{{Name: xml.Name{Local: "c"}, Value: strconv.Itoa(c.Idx)}}})
	if c.SendFail {
		payload = failingReader{}
	}
	name := xml.Name{Space: c.NS, Local: c.Kind}
	id := c.ID
	if c.IDForm != "" {
		id = ""
	}
	iq := stanza.IQ{XMLName: name, ID: id, Type: stanza.IQType(c.Typ)}
	msg := stanza.Message{XMLName: name, ID: id, Type: stanza.MessageType(c.Typ)}
	pres := stanza.Presence{XMLName: name, ID: id, Type: stanza.PresenceType(c.Typ)}
	// the whole element as a token reader, for the methods that take one
	whole := func(std xml.TokenReader) xml.TokenReader {
		if c.IDForm == "" {
			return std
		}
		return xmlstream.Wrap(payload, c.startElement())
	}
	var resp xmlstream.TokenReadCloser
	var err error
	switch c.Entry {
	case "SendIQ":
		resp, err = s.SendIQ(ctx, whole(iq.Wrap(payload)))
	case "SendIQElement":
		resp, err = s.SendIQElement(ctx, payload, iq)
	case "EncodeIQ":
		resp, err = s.EncodeIQ(ctx, struct {
			stanza.IQ
			Q payloadQ
		}{IQ: iq, Q: payloadQ{C: c.Idx}})
	case "EncodeIQElement":
		resp, err = s.EncodeIQElement(ctx, payloadQ{C: c.Idx}, iq)
	case "UnmarshalIQ", "UnmarshalIQElement":
		var v markerM
		v.N = -1
		if c.Entry == "UnmarshalIQ" {
			err = s.UnmarshalIQ(ctx, whole(iq.Wrap(payload)), &v)
		} else {
			err = s.UnmarshalIQElement(ctx, payload, iq, &v)
		}
		if err == nil {
			out.class, out.marker = "reply", v.N
		} else {
			out.class, out.marker = classifyErr(err)
			out.err = err.Error()
		}
		return out
	case "IterIQ", "IterIQElement":
		var it *xmlstream.Iter
		var st *xml.StartElement
		if c.Entry == "IterIQ" {
			it, st, err = s.IterIQ(ctx, whole(iq.Wrap(payload)))
		} else {
			it, st, err = s.IterIQElement(ctx, payload, iq)
		}
		if err != nil {
			out.class, out.marker = classifyErr(err)
			out.err = err.Error()
			return out
		}
		out.class = "reply"
		if st != nil {
			for _, a := range st.Attr {
				if a.Name.Local == "n" {
					out.marker, _ = strconv.Atoi(a.Value)
				}
			}
		}
		out.closer = it
		return out
	case "SendMessage":
		resp, err = s.SendMessage(ctx, whole(msg.Wrap(payload)))
	case "SendMessageElement":
		resp, err = s.SendMessageElement(ctx, payload, msg)
	case "EncodeMessage":
		resp, err = s.EncodeMessage(ctx, struct {
			stanza.Message
			Q payloadQ
		}{Message: msg, Q: payloadQ{C: c.Idx}})
	case "EncodeMessageElement":
		resp, err = s.EncodeMessageElement(ctx, payloadQ{C: c.Idx}, msg)
	case "SendPresence":
		resp, err = s.SendPresence(ctx, whole(pres.Wrap(payload)))
	case "SendPresenceElement":
		resp, err = s.SendPresenceElement(ctx, payload, pres)
	case "EncodePresence":
		resp, err = s.EncodePresence(ctx, struct {
			stanza.Presence
			Q payloadQ
		}{Presence: pres, Q: payloadQ{C: c.Idx}})
	case "EncodePresenceElement":
		resp, err = s.EncodePresenceElement(ctx, payloadQ{C: c.Idx}, pres)
	default:
		panic("unknown entry " + c.Entry)
	}
	if err != nil {
		out.class, out.marker = classifyErr(err)
		if out.class == "reply" { // a Send* method never returns a stanza error
			out.class = "senderr"
		}
		out.err = err.Error()
		return out
	}
	if resp == nil {
		out.class = "other"
		out.err = "nil response and nil error"
		return out
	}
	out.class = "reply"
	out.marker = markerOf(resp)
	out.closer = resp
	return out
}

// ---- handler ----

type logHandler struct {
	ch chan int
}

func (h logHandler) HandleXMPP(t xmlstream.TokenReadEncoder, start *xml.StartElement) error {
	m := -1
	for _, a := range start.Attr {
		if a.Name.Local == "n" {
			m, _ = strconv.Atoi(a.Value)
		}
	}
	h.ch <- m
	return nil
}

func stanzaBytes(st peerSt, n int) []byte {
	var sb strings.Builder
	fmt.Fprintf(&sb, `<%s`, st.Kind)
	if st.ExtID != "" || st.ExtTyp != "" {
		sb.WriteString(` xmlns:ext="urn:c06:ext"`)
		if st.ExtID != "" {
			fmt.Fprintf(&sb, ` ext:id="%s"`, st.ExtID)
		}
		if st.ExtTyp != "" {
			fmt.Fprintf(&sb, ` ext:type="%s"`, st.ExtTyp)
		}
	}
	if st.Typ != "" {
		fmt.Fprintf(&sb, ` type="%s"`, st.Typ)
	}
	if st.ID != "" {
		fmt.Fprintf(&sb, ` id="%s"`, st.ID)
	}
	fmt.Fprintf(&sb, ` n="%d">`, n)
	if st.Typ == "error" {
		fmt.Fprintf(&sb, `<error type="cancel"><item-not-found xmlns="urn:ietf:params:xml:ns:xmpp-stanzas"/><text xmlns="urn:ietf:params:xml:ns:xmpp-stanzas">%d</text></error>`, n)
	} else {
		fmt.Fprintf(&sb, `<m xmlns="%s" n="%d"/>`, nsC06, n)
	}
	fmt.Fprintf(&sb, `</%s>`, st.Kind)
	return []byte(sb.String())
}

// ---- the run ----

type coreRun struct {
	g          *agate
	p          *hx.Pipe
	s          *xmpp.Session
	serve      *actor
	spos       string // idle lookupafter offerbefore offering awaitbefore awaiting awaitafter offerctx handlerbefore
	offerTo    int
	curSt      int // arrival number being processed
	lookupID   string
	reqs       []*rstate
	table      map[string]int // mirror of the pending table: id -> call index
	arrivals   []peerSt
	handled    []int
	hlog       chan int
	labels     []string
	ids        map[string]int
	servePanic chan string
	serveDone  chan struct{}
	failed     bool
	failKey    string
	failWhat   string
	classes    map[string]bool
}

func nsNum(ns string) int {
	switch ns {
	case "":
		return 0
	case "jabber:client":
		return 1
	case "jabber:server":
		return 2
	}
	return 3
}

func kindNum(k string) int {
	switch k {
	case "iq":
		return 1
	case "message":
		return 2
	case "presence":
		return 3
	}
	return 4
}

func (x *coreRun) idNum(id string) int {
	if n, ok := x.ids[id]; ok {
		return n
	}
	n := len(x.ids) + 1
	x.ids[id] = n
	return n
}

func coqName(ns string, kind string) string {
	return fmt.Sprintf("(mkname %d%%N %d%%N)", nsNum(ns), kindNum(kind))
}

func (x *coreRun) label(format string, args ...interface{}) {
	x.labels = append(x.labels, fmt.Sprintf(format, args...))
}

func (x *coreRun) fail(key, what string) {
	if !x.failed {
		x.failed, x.failKey, x.failWhat = true, key, what
	}
}

func newCoreRun() (*coreRun, error) {
	x := &coreRun{table: map[string]int{}, ids: map[string]int{}, offerTo: -1, curSt: -1, classes: map[string]bool{}}
	x.g = newGate(corePark, coreNote)
	curGate.Store(x.g)
	x.p = hx.NewPipe()
	s, err := hx.NewReadySession(x.p.Sess, "jabber:client", 0, jid.MustParse("me@example.net/r"), jid.MustParse("example.net"))
	if err != nil {
		return nil, err
	}
	x.s = s
	x.serve = newActor("serve")
	x.hlog = make(chan int, 1024)
	x.servePanic = make(chan string, 1)
	x.serveDone = make(chan struct{})
	go func() {
		defer close(x.serveDone)
		x.g.bind(x.serve)
		if p := hx.Catch(func() { s.Serve(logHandler{x.hlog}) }); p != "" {
			x.servePanic <- p
		}
	}()
	if e := await(x.serve, watchdog); e != "@serve.iter" {
		return nil, fmt.Errorf("serve did not start: %q", e)
	}
	x.spos = "idle"
	return x, nil
}

func (x *coreRun) teardown() {
	for _, r := range x.reqs {
		if r.cancel != nil {
			r.cancel()
		}
		select {
		case <-r.closeCmd:
		default:
			close(r.closeCmd)
		}
	}
	x.g.freeAll()
	x.p.Close()
	select {
	case <-x.serveDone:
	case <-time.After(200 * time.Millisecond):
	}
}

// expect waits for one of the given events of actor a.
func (x *coreRun) expect(a *actor, key, what string, evs ...string) string {
	e := awaitPatient(a, watchdog)
	for e == "@send.enter" {
		for _, w := range evs {
			if w == "sendresp.registered" {
				x.fail("C06/sendresp/sent-before-registration", "the call started to send its element before it registered its id: a fast reply finds no entry, goes to the handler, and the call waits until its context ends")
				return ""
			}
		}
		e = await(a, watchdog)
	}
	for _, w := range evs {
		if e == w {
			return e
		}
	}
	select {
	case p := <-x.servePanic:
		x.fail("C06/serve/panic", "the serve goroutine panicked: "+p)
		return ""
	default:
	}
	if e == "" {
		x.fail(key, what+fmt.Sprintf(" (no arrival at any of %v within %v)", evs, watchdog))
	} else {
		x.fail("C06/core/unexpected-step", fmt.Sprintf("%s: expected one of %v, got %q", what, evs, e))
	}
	return ""
}

func (x *coreRun) entryCtxDone(i int) bool {
	r := x.reqs[i]
	return r.canc || r.pos == "ret"
}

func (x *coreRun) callReturned(r *rstate, i int) {
	// the goroutine posted "ret": its result is visible now
	r.pos = "ret"
	delete(x.table, r.key) // the deferred delete is by id, whoever registered it
	x.label("LDereg %d%%nat", i)
	if r.res.panic != "" {
		x.fail("C06/"+group(r.cfg.Entry)+"/panic", "the call panicked: "+r.res.panic)
	}
	if r.res.class == "reply" && r.res.closer == nil {
		r.closed = true
		x.label("LClose %d%%nat", i)
	}
}

func group(entry string) string {
	switch {
	case strings.Contains(entry, "Message"):
		return "message"
	case strings.Contains(entry, "Presence"):
		return "presence"
	}
	return "iq"
}

// settle waits for everything the current abstract state forces to happen.
func (x *coreRun) settle() {
	for !x.failed {
		progressed := false
		// hand-off or context on both sides
		if x.spos == "offering" && x.offerTo >= 0 {
			i := x.offerTo
			r := x.reqs[i]
			switch {
			case r.pos == "inselect":
				e := x.expect(r.a, "C06/"+group(r.cfg.Entry)+"/call-stuck:reply-offered", "a call at its select with the serve loop offering its reply did not receive it", "sendresp.received", "sendresp.ctxdone")
				if e == "" {
					return
				}
				if e == "sendresp.received" {
					if x.expect(x.serve, "C06/serve/stall:after-handoff", "serve did not reach the wait for the close after the hand-off", "serve.awaitclose.before") == "" {
						return
					}
					r.pos, x.spos = "received", "awaitbefore"
					x.label("LRecv %d%%nat", i)
					x.classes["handoff"] = true
				} else {
					if !r.canc {
						x.fail("C06/"+group(r.cfg.Entry)+"/spurious-ctx-error", "a call took ctx.Done although its context was not cancelled")
						return
					}
					r.pos = "ctxdone"
					x.label("LCtxDone %d%%nat", i)
					if x.expect(x.serve, "C06/serve/stall:offer-to-cancelled-call", "serve kept offering a reply to a call whose context is done", "serve.offer.ctxdone") == "" {
						return
					}
					x.spos = "offerctx"
					x.label("LOfferCtx")
					x.classes["both-ctx"] = true
				}
				progressed = true
			case x.entryCtxDone(i):
				key, what := "C06/serve/stall:offer-to-cancelled-call", "serve kept offering a reply to a call whose context is done"
				if !r.canc {
					key, what = "C06/serve/stall:offer-to-returned-call", "serve keeps offering a reply to a call that has returned (send failure) and whose context is never cancelled: the serve loop is stalled for good"
				}
				if x.expect(x.serve, key, what, "serve.offer.ctxdone") == "" {
					return
				}
				x.spos = "offerctx"
				x.label("LOfferCtx")
				x.classes["offerctx"] = true
				progressed = true
			}
		}
		// a cancelled call at its select with nobody offering
		for i, r := range x.reqs {
			if r.pos == "inselect" && r.canc && !(x.spos == "offering" && x.offerTo == i) {
				if x.expect(r.a, "C06/"+group(r.cfg.Entry)+"/call-stuck:cancelled", "a call whose context was cancelled did not leave its select", "sendresp.ctxdone") == "" {
					return
				}
				r.pos = "ctxdone"
				x.label("LCtxDone %d%%nat", i)
				x.classes["ctxdone"] = true
				progressed = true
			}
		}
		// the awaited close has happened
		if x.spos == "awaiting" && x.offerTo >= 0 && x.reqs[x.offerTo].closed {
			if x.expect(x.serve, "C06/serve/stall:after-close", "the response was closed but the serve loop did not continue", "serve.awaitclose.after") == "" {
				return
			}
			x.spos = "awaitafter"
			x.label("LAwaitDone")
			progressed = true
		}
		if !progressed {
			return
		}
	}
}

func (x *coreRun) enabled(a action) bool {
	switch a.Op {
	case "start":
		return a.Cfg != nil && len(x.reqs) < 8
	case "go":
		if a.I < 0 || a.I >= len(x.reqs) {
			return false
		}
		switch x.reqs[a.I].pos {
		case "registered", "senderr", "selbefore", "received", "ctxdone":
			return true
		}
		return false
	case "cancel":
		return a.I >= 0 && a.I < len(x.reqs) && !x.reqs[a.I].canc
	case "close":
		if a.I < 0 || a.I >= len(x.reqs) {
			return false
		}
		r := x.reqs[a.I]
		return r.pos == "ret" && r.res.class == "reply" && !r.closed
	case "peer":
		return a.St != nil && x.spos == "idle"
	case "serve":
		switch x.spos {
		case "lookupafter", "offerbefore", "awaitbefore", "awaitafter", "offerctx", "handlerbefore":
			return true
		}
		return false
	case "snap":
		return true
	}
	return false
}

func (x *coreRun) do(a action) {
	if x.failed || !x.enabled(a) {
		return
	}
	switch a.Op {
	case "start":
		i := len(x.reqs)
		a.Cfg.normalise()
		a.Cfg.Idx = i
		r := &rstate{cfg: *a.Cfg, a: newActor(fmt.Sprintf("call%d", i)), closeCmd: make(chan struct{})}
		r.ctx, r.cancel = context.WithCancel(context.Background())
		x.reqs = append(x.reqs, r)
		go func() {
			x.g.bind(r.a)
			var out callResult
			if p := hx.Catch(func() { out = doCall(x.s, r.ctx, r.cfg) }); p != "" {
				out.panic = p
				out.class = "other"
			}
			r.res = out
			r.a.ev <- "ret"
			<-r.closeCmd
			if out.closer != nil {
				if p := hx.Catch(func() { out.closer.Close() }); p != "" {
					r.a.ev <- "closepanic:" + p
					return
				}
			}
			r.a.ev <- "closed"
		}()
		if x.expect(r.a, "C06/"+group(r.cfg.Entry)+"/call-stuck:before-registration", "the call did not reach its registration", "sendresp.registered") == "" {
			return
		}
		r.pos = "registered"
		r.key = r.cfg.ID
		if r.cfg.IDForm != "" {
			r.key = fmt.Sprintf("~gen%d", i) // generated by the library: known once it is on the wire
			x.classes["idform-"+r.cfg.IDForm] = true
		}
		if r.cfg.IDForm == "" {
			x.table[r.key] = i // a generated id enters the mirror when it is seen on the wire
		}
		x.label("LStart %d%%N %s", x.idNum(r.key), coqName(r.cfg.NS, r.cfg.Kind))
	case "go":
		r := x.reqs[a.I]
		from := r.pos
		if !x.g.release(r.a) {
			x.fail("C06/core/unexpected-step", "a parked call could not be released")
			return
		}
		switch from {
		case "registered":
			e := x.expect(r.a, "C06/"+group(r.cfg.Entry)+"/call-stuck:send", "the call did not finish sending", "sendresp.select.before", "sendresp.senderr")
			if e == "" {
				return
			}
			if e == "sendresp.senderr" {
				r.pos = "senderr"
				x.label("LSendFail %d%%nat", a.I)
				x.classes["sendfail"] = true
			} else {
				r.pos = "selbefore"
				x.label("LSendOk %d%%nat", a.I)
				x.sawOnWire(r, a.I)
			}
		case "selbefore":
			r.pos = "inselect"
		case "senderr", "received", "ctxdone":
			if x.expect(r.a, "C06/"+group(r.cfg.Entry)+"/call-stuck:return", "the call did not return", "ret") == "" {
				return
			}
			x.callReturned(r, a.I)
		}
	case "cancel":
		r := x.reqs[a.I]
		r.cancel()
		r.canc = true
		x.label("LCancel %d%%nat", a.I)
	case "close":
		r := x.reqs[a.I]
		close(r.closeCmd)
		e := x.expect(r.a, "C06/"+group(r.cfg.Entry)+"/close-stuck", "closing the response did not return", "closed")
		if e == "" {
			return
		}
		r.closed = true
		x.label("LClose %d%%nat", a.I)
	case "peer":
		if a.St.For != nil && *a.St.For >= 0 && *a.St.For < len(x.reqs) {
			a.St.ID = x.reqs[*a.St.For].key
			if strings.HasPrefix(a.St.ID, "~gen") {
				a.St.ID = fmt.Sprintf("unsent%d", *a.St.For) // that call's id was never on the wire: nobody can answer it
			}
		}
		n := len(x.arrivals)
		x.arrivals = append(x.arrivals, *a.St)
		if err := x.p.Send(stanzaBytes(*a.St, n)); err != nil {
			x.fail("C06/serve/stall:not-reading", "the serve loop is idle but does not read: "+err.Error())
			return
		}
		e := x.expect(x.serve, "C06/serve/stall:not-reading", "the serve loop did not pick up the next element", "serve.lookup.after", "serve.handler.before")
		if e == "" {
			return
		}
		x.curSt = n
		x.label("LArrive %d%%N %s %s", x.idNum(a.St.ID), coqName("jabber:client", a.St.Kind), hx.CoqBool(a.St.isResp()))
		x.label("LLookup")
		if e == "serve.lookup.after" {
			x.spos = "lookupafter"
			x.offerTo = -1
			if i, ok := x.table[a.St.ID]; ok {
				x.offerTo = i
			}
			if !a.St.isResp() {
				x.fail("C06/serve/lookup-for-non-reply", "the table was consulted for an element that is not a reply")
			}
		} else {
			x.spos = "handlerbefore"
			if a.St.isResp() {
				x.fail("C06/serve/no-lookup-for-reply", "a reply was passed to the handler without a table lookup")
			}
		}
	case "serve":
		from := x.spos
		if !x.g.release(x.serve) {
			x.fail("C06/core/unexpected-step", "the parked serve goroutine could not be released")
			return
		}
		switch from {
		case "lookupafter":
			e := x.expect(x.serve, "C06/serve/stall:after-lookup", "serve did not continue after the lookup", "serve.offer.before", "serve.handler.before")
			if e == "" {
				return
			}
			x.label("LDecide")
			if e == "serve.offer.before" {
				x.spos = "offerbefore"
				if x.offerTo < 0 {
					x.fail("C06/serve/offer-without-entry", "serve offers a reply although no call is registered for its id")
				} else {
					x.reqs[x.offerTo].matched = true
				}
			} else {
				if i := x.offerTo; i >= 0 && x.curSt >= 0 {
					r, st := x.reqs[i], x.arrivals[x.curSt]
					if st.Kind == r.cfg.Kind && (r.cfg.NS == "" || r.cfg.NS == "jabber:client") {
						x.fail("C06/serve/reply-not-matched", fmt.Sprintf("a %s reply carrying id %q — the id call %d (%s) has on the wire — was not matched to that call but passed to the handler: the call is registered under another id and will end with its context error instead of its reply", st.Kind, st.ID, i, r.cfg.Entry))
						return
					}
				}
				x.spos = "handlerbefore"
				x.offerTo = -1
			}
		case "offerbefore":
			x.spos = "offering"
		case "awaitbefore":
			x.spos = "awaiting"
		case "awaitafter", "offerctx":
			if x.expect(x.serve, "C06/serve/stall:drain", "serve did not finish the element", "@serve.iter") == "" {
				return
			}
			x.spos, x.offerTo = "idle", -1
			x.label("LDrain")
		case "handlerbefore":
			if x.expect(x.serve, "C06/serve/stall:handler", "serve did not return from the handler", "@serve.iter") == "" {
				return
			}
			select {
			case m := <-x.hlog:
				x.handled = append(x.handled, m)
			default:
				x.fail("C06/serve/handler-not-called", "an unmatched element did not reach the handler")
			}
			x.spos, x.offerTo = "idle", -1
			x.label("LHandler")
			x.classes["handler"] = true
		}
	case "snap":
	}
	x.settle()
}

var wireAttrID = regexp.MustCompile(`(?:^|\s)id=(?:"([^"]*)"|'([^']*)')`)

// sawOnWire reads the id of the request the call has written (found by the
// call's number in its payload) and re-keys the harness's mirror of the table
// with it: the id the peer sees is the id a reply is matched on.
func (x *coreRun) sawOnWire(r *rstate, i int) {
	re := regexp.MustCompile(`<(?:iq|message|presence)((?:\s+[A-Za-z_:][-A-Za-z0-9_:.]*=(?:"[^"]*"|'[^']*'))*)\s*>\s*<q xmlns="` + nsC06 + `" c="` + strconv.Itoa(i) + `"`)
	var m [][]byte
	deadline := time.Now().Add(watchdog)
	for m == nil {
		if m = re.FindSubmatch(x.p.Written()); m == nil {
			if time.Now().After(deadline) {
				x.fail("C06/"+group(r.cfg.Entry)+"/request-not-on-wire", "the call reached its wait but its request is not on the wire")
				return
			}
			time.Sleep(100 * time.Microsecond)
		}
	}
	id := ""
	if am := wireAttrID.FindSubmatch(m[1]); am != nil {
		id = string(am[1]) + string(am[2])
	}
	r.wireID = id
	g := group(r.cfg.Entry)
	switch {
	case id == "":
		x.fail("C06/"+g+"/empty-id-on-wire", fmt.Sprintf("call %d (%s) waits for a reply but its request went out without an id", i, r.cfg.Entry))
		return
	case r.cfg.IDForm == "" && id != r.cfg.ID:
		x.fail("C06/"+g+"/id-not-kept", fmt.Sprintf("call %d (%s) chose id %q but %q is on the wire", i, r.cfg.Entry, r.cfg.ID, id))
		return
	}
	if r.cfg.IDForm != "" {
		// the generated id is known now: re-key the mirror (the model label keeps its number)
		if _, taken := x.table[id]; taken {
			x.fail("C06/"+g+"/generated-id-collides", "a generated id equals an id that is already pending")
			return
		}
		if j, ok := x.table[r.key]; ok && j == i {
			delete(x.table, r.key)
		}
		x.ids[id] = x.idNum(r.key)
		r.key = id
		x.table[id] = i
	}
}

// ---- observables and oracle ----

type coreObs struct {
	Codes   []string `json:"codes"`
	Handled []int    `json:"handled"`
	Pending int      `json:"pending"`
	Serve   int      `json:"serve"`
}

func (x *coreRun) observe() coreObs {
	var o coreObs
	for _, r := range x.reqs {
		c := "CNone"
		if r.pos == "ret" {
			switch r.res.class {
			case "reply":
				c = fmt.Sprintf("(CReply %d%%nat %s)", r.res.marker, hx.CoqBool(r.closed))
			case "ctx":
				c = "CCtx"
			default:
				c = "CSend"
			}
		}
		o.Codes = append(o.Codes, c)
	}
	o.Handled = append([]int{}, x.handled...)
	o.Pending = x.s.VerifPending()
	switch x.spos {
	case "idle":
		o.Serve = 0
	case "offerbefore", "offering":
		o.Serve = 1
	case "awaitbefore", "awaiting":
		o.Serve = 2
	default:
		o.Serve = 3
	}
	return o
}

func coqNatList(l []int) string {
	s := make([]string, len(l))
	for i, v := range l {
		s[i] = fmt.Sprintf("%d%%nat", v)
	}
	return "[" + strings.Join(s, ";") + "]"
}

func (x *coreRun) coqCase(o coreObs) string {
	return fmt.Sprintf("mkcase true [%s] [%s] %s %d%%nat %d%%nat",
		strings.Join(x.labels, ";"), strings.Join(o.Codes, ";"), coqNatList(o.Handled), o.Pending, o.Serve)
}

// oracle: the property on the Go-side observables (no model involved).
func (x *coreRun) oracle(final bool) {
	if x.failed {
		return
	}
	delivered := map[int]int{}
	for i, r := range x.reqs {
		g := group(r.cfg.Entry)
		if r.pos != "ret" {
			if final {
				x.fail("C06/"+g+"/call-never-returns", fmt.Sprintf("call %d has not returned although its context was cancelled", i))
			}
			continue
		}
		switch r.res.class {
		case "reply":
			m := r.res.marker
			if m < 0 || m >= len(x.arrivals) {
				x.fail("C06/"+g+"/foreign-reply", fmt.Sprintf("call %d returned a response that is none of the peer's elements (marker %d)", i, m))
				continue
			}
			st := x.arrivals[m]
			if st.ID != r.key || st.Kind != r.cfg.Kind || !st.isResp() {
				x.fail("C06/"+g+"/foreign-reply", fmt.Sprintf("call %d (%s id=%s) got element %d (%s id=%s type=%s)", i, r.cfg.Kind, r.cfg.ID, m, st.Kind, st.ID, st.Typ))
			}
			if j, dup := delivered[m]; dup {
				x.fail("C06/serve/reply-duplicated", fmt.Sprintf("element %d reached calls %d and %d", m, j, i))
			}
			delivered[m] = i
		case "ctx":
			if !r.canc {
				x.fail("C06/"+g+"/spurious-ctx-error", fmt.Sprintf("call %d returned a context error but its context was never cancelled", i))
			}
		case "senderr":
			if !r.cfg.SendFail {
				x.fail("C06/"+g+"/spurious-error", fmt.Sprintf("call %d returned %q", i, r.res.err))
			}
		default:
			x.fail("C06/"+g+"/no-outcome", fmt.Sprintf("call %d returned neither a response nor an error (%s %s)", i, r.res.err, r.res.panic))
		}
	}
	seen := map[int]bool{}
	for _, m := range x.handled {
		if seen[m] {
			x.fail("C06/serve/reply-duplicated", fmt.Sprintf("element %d reached the handler twice", m))
		}
		seen[m] = true
		if _, ok := delivered[m]; ok {
			x.fail("C06/serve/reply-duplicated", fmt.Sprintf("element %d reached a call and the handler", m))
		}
	}
	if final {
		for m, st := range x.arrivals {
			_, d := delivered[m]
			if d || seen[m] {
				continue
			}
			if !st.isResp() {
				x.fail("C06/serve/element-lost", fmt.Sprintf("element %d (not a reply) never reached the handler", m))
				continue
			}
			// a reply may be drained only when a call for its id gave up
			ok := false
			for _, r := range x.reqs {
				if r.key == st.ID && (r.canc || r.res.class == "senderr") {
					ok = true
				}
			}
			if !ok {
				x.fail("C06/serve/reply-lost", fmt.Sprintf("reply %d (id=%s) reached neither a call nor the handler and no call for that id gave up", m, st.ID))
			}
		}
		if n := x.s.VerifPending(); n != 0 {
			x.fail("C06/sendresp/entry-leak", fmt.Sprintf("%d table entries remain after every call has returned", n))
		}
	}
}

// finish drives everything to completion: contexts cancelled, parked
// goroutines released, responses closed, and a sentinel element through the
// serve loop.
func (x *coreRun) finish() {
	for i, r := range x.reqs {
		if !r.canc && r.pos != "ret" {
			x.do(action{Op: "cancel", I: i})
		}
	}
	for round := 0; round < 64 && !x.failed; round++ {
		moved := false
		for i, r := range x.reqs {
			if x.enabled(action{Op: "go", I: i}) {
				x.do(action{Op: "go", I: i})
				moved = true
			}
			if x.enabled(action{Op: "close", I: i}) {
				x.do(action{Op: "close", I: i})
				moved = true
			}
			_ = r
		}
		if x.enabled(action{Op: "serve"}) {
			x.do(action{Op: "serve"})
			moved = true
		}
		if !moved {
			break
		}
	}
	if x.failed {
		return
	}
	if x.spos != "idle" {
		key := "C06/serve/stall:" + x.spos
		if x.spos == "offering" && x.offerTo >= 0 && x.reqs[x.offerTo].pos == "ret" {
			key = "C06/serve/stall:offer-to-returned-call"
		}
		x.fail(key, "every call has returned and every response is closed but the serve loop is still at "+x.spos)
		return
	}
	x.do(action{Op: "peer", St: &peerSt{Kind: "message", ID: "sentinel", Typ: "chat"}})
	x.do(action{Op: "serve"})
	if !x.failed && (x.spos != "idle" || len(x.handled) == 0 || x.handled[len(x.handled)-1] != len(x.arrivals)-1) {
		x.fail("C06/serve/stall:sentinel", "the serve loop did not pass the final element to the handler")
	}
	select {
	case p := <-x.servePanic:
		x.fail("C06/serve/panic", "the serve goroutine panicked: "+p)
	default:
	}
}

var _ = io.EOF
