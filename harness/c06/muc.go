package main

// Forced schedules for muc.Channel.JoinPresence / LeavePresence against
// muc.Client.HandlePresence (the depart channel has capacity 1 and
// LeavePresence drops a stale notification when it starts).

import (
	"bytes"
	"context"
	"encoding/json"
	"errors"
	"fmt"
	"strings"
	"time"

	"mellium.im/xmpp/jid"
	"mellium.im/xmpp/muc"
	"mellium.im/xmpp/mux"
	"mellium.im/xmpp/stanza"
	"verifharness/hx"
)

var mucPark = []string{"muc.join.wait.before", "muc.leave.wait.before", "muc.presence.join.taken", "muc.presence.depart.before"}
var mucNote = []string{"serve.iter"}

var roomJID = jid.MustParse("room@conf.example.net/nick")

type mucAction struct {
	Op string `json:"op"` // join leave enter cancel avail unavail errreply serve snap
	C  int    `json:"c,omitempty"`
}

type mucCase struct {
	Mode    string      `json:"mode"`
	Actions []mucAction `json:"actions"`
}

type mucCall struct {
	kind   string // join leave
	id     string
	a      *actor
	pos    string // spawned wait ret
	canc   bool
	errOff bool // an error reply was handed to the call's goroutine
	cancel context.CancelFunc
	err    error
	panic  string
	// what the oracle needs
	startedBeforeUnavail bool
}

type mucRun struct {
	base
	client      *muc.Client
	ch          *muc.Channel
	calls       []*mucCall
	joinbuf     bool
	spos        string // idle taken inner depart errhold
	holdFor     int
	user        int
	userSeen    int
	unavailSent bool
	unavailDone bool
	departTo    int
	dtok        bool   // a depart notification is buffered
	leftVia     string // label for a Leave call that returns nil: MDepartTo (direct) or MDepartRecv (buffered)
	lateLeave   bool   // a Leave call started after the departure was handled
}

func newMucRun() (*mucRun, error) {
	x := &mucRun{spos: "idle", holdFor: -1, departTo: -1, leftVia: "MDepartTo"}
	x.client = &muc.Client{}
	x.client.HandleUserPresence = func(stanza.Presence, muc.Item) { x.userSeen++ } // serve goroutine only
	m := mux.New(stanza.NSClient, muc.HandleClient(x.client))
	if err := x.start(mucPark, mucNote, m); err != nil {
		return nil, err
	}
	return x, nil
}

func (x *mucRun) teardown() {
	for _, c := range x.calls {
		c.cancel()
	}
	x.stop()
}

func mucOutcome(c *mucCall) string {
	var se stanza.Error
	switch {
	case c.err == nil && c.kind == "join":
		return "MCJoined"
	case c.err == nil:
		return "MCLeft"
	case errors.Is(c.err, context.Canceled):
		return "MCCtx"
	case errors.As(c.err, &se):
		return "MCErr"
	}
	return "other:" + c.err.Error()
}

func (x *mucRun) callRet(c *mucCall, i int, how string) {
	c.pos = "ret"
	if c.panic != "" {
		x.fail("C06/muc-"+c.kind+"/panic", "the call panicked: "+c.panic)
		return
	}
	out := mucOutcome(c)
	switch out {
	case "MCJoined":
		x.label("MJoinRecv %d%%nat", i)
		x.classes["joined"] = true
	case "MCLeft":
		if x.leftVia == "MDepartRecv" {
			if !x.dtok {
				x.fail("C06/muc-leave/phantom-depart", "a Leave call returned nil although no departure notification was pending")
			}
			x.dtok = false
			x.classes["left-buffered"] = true
		}
		x.label("%s %d%%nat", x.leftVia, i)
		x.departTo = i
		x.classes["left"] = true
	case "MCCtx":
		if !c.canc {
			x.fail("C06/muc-"+c.kind+"/spurious-ctx-error", "the call returned a context error but its context was never cancelled")
		}
		x.label("MCtx %d%%nat", i)
		x.classes["ctx"] = true
	case "MCErr":
		if !c.errOff {
			x.fail("C06/muc-"+c.kind+"/spurious-error", "the call returned a stanza error although no error reply was sent")
		}
		x.label("MErrRecv %d%%nat", i)
		x.classes["err"] = true
	default:
		x.fail("C06/muc-"+c.kind+"/spurious-error", "the call returned "+out)
	}
	if how != "" && how != out && !x.failed {
		x.fail("C06/muc-"+c.kind+"/wrong-outcome", fmt.Sprintf("expected %s, got %s", how, out))
	}
}

func (x *mucRun) serveIdle(key, what string) bool {
	if x.expect(x.serve, key, "C06/muc/handler-panic", what, "@serve.iter") == "" {
		return false
	}
	x.spos, x.holdFor = "idle", -1
	return true
}

func (x *mucRun) settle() {
	for !x.failed {
		progressed := false
		for i, c := range x.calls {
			if c.pos == "wait" && c.kind == "leave" && x.dtok && !(c.canc || c.errOff) {
				if x.expect(c.a, "C06/muc-leave/lost-depart", "C06/muc/handler-panic", "the room's unavailable presence was handled before the Leave call reached its select and the notification was not kept for it: the call blocks until its context ends", "ret") == "" {
					return
				}
				x.leftVia = "MDepartRecv"
				x.callRet(c, i, "MCLeft")
				progressed = true
				continue
			}
			if c.pos == "wait" && (c.canc || c.errOff) {
				if x.expect(c.a, "C06/muc-"+c.kind+"/call-stuck", "C06/muc/handler-panic", "a call whose context is cancelled or whose error reply arrived did not return", "ret") == "" {
					return
				}
				x.leftVia = "MDepartRecv" // with a buffered notification the select may take that instead
				x.callRet(c, i, "")
				progressed = true
			}
		}
		if x.spos == "inner" {
			j := x.calls[0]
			switch {
			case j.pos == "wait":
				if x.expect(j.a, "C06/muc-join/call-stuck:presence-taken", "C06/muc/handler-panic", "the join call did not receive the room's presence", "ret") == "" {
					return
				}
				x.callRet(j, 0, "")
				if mucOutcome(j) != "MCJoined" && !x.failed {
					// it left through ctx/err instead: the handler skips it
					x.label("MSkip")
					x.label("MTake")
					x.user++
				}
				if !x.serveIdle("C06/muc/handler-stall:join", "the presence handler did not return after the join hand-off") {
					return
				}
				progressed = true
			case j.canc || j.pos == "ret":
				if !x.serveIdle("C06/muc/handler-stall:stale-join", "the presence handler kept waiting for a join call whose context is done") {
					return
				}
				x.label("MSkip")
				x.label("MTake")
				x.user++
				x.classes["skip"] = true
				progressed = true
			}
		}
		if x.spos == "errhold" {
			c := x.calls[x.holdFor]
			if c.pos == "ret" || c.canc {
				if !x.serveIdle("C06/muc/serve-stall:error-reply-held", "the serve loop is still blocked on the error reply although its call is gone") {
					return
				}
				progressed = true
			}
		}
		if !progressed {
			return
		}
	}
}

func (x *mucRun) enabled(a mucAction) bool {
	switch a.Op {
	case "join":
		return len(x.calls) == 0
	case "leave":
		return len(x.calls) > 0 && len(x.calls) < 3 && x.calls[0].pos == "ret" && x.ch != nil
	case "enter":
		return a.C >= 0 && a.C < len(x.calls) && x.calls[a.C].pos == "spawned"
	case "cancel":
		return a.C >= 0 && a.C < len(x.calls) && !x.calls[a.C].canc && x.calls[a.C].pos != "ret"
	case "avail":
		return x.spos == "idle" && len(x.calls) > 0 && !x.unavailSent
	case "unavail":
		return x.spos == "idle" && len(x.calls) > 0 && !x.unavailSent
	case "errreply":
		if a.C < 0 || a.C >= len(x.calls) || x.spos != "idle" {
			return false
		}
		c := x.calls[a.C]
		return c.pos != "ret" && !c.canc && !c.errOff
	case "serve":
		return x.spos == "taken" || x.spos == "depart"
	case "snap":
		return true
	}
	return false
}

func (x *mucRun) waitWritten(id string) bool {
	deadline := time.Now().Add(watchdog)
	for time.Now().Before(deadline) {
		if bytes.Contains(x.p.Written(), []byte(`id="`+id+`"`)) {
			return true
		}
		time.Sleep(200 * time.Microsecond)
	}
	return false
}

func (x *mucRun) do(a mucAction) {
	if x.failed || !x.enabled(a) {
		return
	}
	switch a.Op {
	case "join", "leave":
		i := len(x.calls)
		c := &mucCall{kind: a.Op, id: fmt.Sprintf("%s%d", a.Op[:1], i), a: newActor(fmt.Sprintf("%s%d", a.Op, i))}
		var ctx context.Context
		ctx, c.cancel = context.WithCancel(context.Background())
		c.startedBeforeUnavail = !x.unavailDone
		x.calls = append(x.calls, c)
		go func() {
			x.g.bind(c.a)
			c.panic = hx.Catch(func() {
				if c.kind == "join" {
					var ch *muc.Channel
					ch, c.err = x.client.JoinPresence(ctx, stanza.Presence{To: roomJID, ID: c.id}, x.s)
					x.ch = ch // read by the harness only after "ret"
				} else {
					c.err = x.ch.LeavePresence(ctx, "", stanza.Presence{ID: c.id})
				}
			})
			c.a.ev <- "ret"
		}()
		if x.expect(c.a, "C06/muc-"+c.kind+"/call-stuck:start", "C06/muc/handler-panic", "the call did not reach its final select", "muc."+c.kind+".wait.before") == "" {
			return
		}
		c.pos = "spawned"
		if c.kind == "join" {
			x.joinbuf = true
			x.label("MStartJoin")
		} else {
			x.label("MStartLeave")
			x.dtok = false // LeavePresence drops a notification left from before it started
			if x.unavailDone {
				x.lateLeave = true
			}
		}
	case "enter":
		c := x.calls[a.C]
		if !x.g.release(c.a) {
			x.fail("C06/harness/unexpected-step", "a parked call could not be released")
			return
		}
		c.pos = "wait"
		x.label("MEnter %d%%nat", a.C)
		willReturn := c.canc || c.errOff || (x.spos == "inner" && a.C == 0) || (c.kind == "leave" && x.dtok)
		if !willReturn && !waitBlocked(c.a, watchdog, "select") {
			x.fail("C06/harness/unexpected-step", "the call did not block in its select")
			return
		}
	case "cancel":
		c := x.calls[a.C]
		c.cancel()
		c.canc = true
		x.label("MCancel %d%%nat", a.C)
	case "avail":
		raw := `<presence from="` + roomJID.String() + `" id="pa"><x xmlns="http://jabber.org/protocol/muc#user"><item affiliation="member" role="participant"/><status code="110"/></x></presence>`
		if err := x.p.Send([]byte(raw)); err != nil {
			x.fail("C06/muc/serve-stall:not-reading", err.Error())
			return
		}
		e := x.expect(x.serve, "C06/muc/handler-stall:available", "C06/muc/handler-panic", "the presence handler did not get to its join check", "muc.presence.join.taken", "@serve.iter")
		if e == "" {
			return
		}
		x.label("MAvailArrive")
		x.label("MTake")
		if e == "@serve.iter" {
			x.user++
			if x.joinbuf {
				x.fail("C06/muc-join/presence-missed", "a join is pending but the room's presence was treated as an ordinary one")
			}
		} else {
			if !x.joinbuf {
				x.fail("C06/muc-join/phantom-join", "the handler found a pending join although none was started")
			}
			x.joinbuf = false
			x.spos = "taken"
		}
	case "unavail":
		x.unavailSent = true
		raw := `<presence type="unavailable" from="` + roomJID.String() + `" id="pu"><x xmlns="http://jabber.org/protocol/muc#user"><item affiliation="member" role="none"/><status code="110"/></x></presence>`
		if err := x.p.Send([]byte(raw)); err != nil {
			x.fail("C06/muc/serve-stall:not-reading", err.Error())
			return
		}
		if x.expect(x.serve, "C06/muc/handler-stall:unavailable", "C06/muc/handler-panic", "the presence handler did not reach the depart notification", "muc.presence.depart.before") == "" {
			return
		}
		x.spos = "depart"
		x.label("MUnavailArrive")
	case "errreply":
		c := x.calls[a.C]
		if !x.waitWritten(c.id) {
			x.fail("C06/muc-"+c.kind+"/presence-not-sent", "the call's presence never appeared on the wire")
			return
		}
		raw := `<presence type="error" from="` + roomJID.String() + `" id="` + c.id + `"><error type="auth"><not-authorized xmlns="urn:ietf:params:xml:ns:xmpp-stanzas"/></error></presence>`
		if err := x.p.Send([]byte(raw)); err != nil {
			x.fail("C06/muc/serve-stall:not-reading", err.Error())
			return
		}
		c.errOff = true
		x.label("MErrReply %d%%nat", a.C)
		x.spos, x.holdFor = "errhold", a.C
	case "serve":
		from := x.spos
		if !x.g.release(x.serve) {
			x.fail("C06/harness/unexpected-step", "the parked handler could not be released")
			return
		}
		if from == "taken" {
			x.spos = "inner"
		} else {
			// the non-blocking depart notification
			if !x.serveIdle("C06/muc/handler-stall:depart", "the presence handler did not return after the depart notification") {
				return
			}
			x.unavailDone = true
			got := -1
			deadline := time.Now().Add(watchdog) // failing direction only: a call blocked in its select is certain to be found by the send
			waiting := 0
			for _, c := range x.calls {
				if c.kind == "leave" && c.pos == "wait" {
					waiting++
				}
			}
			for waiting > 0 && got < 0 && time.Now().Before(deadline) {
				for i, c := range x.calls {
					if c.kind == "leave" && c.pos == "wait" {
						if e := pendingEvent(c.a); e == "ret" {
							got = i
							break
						}
					}
				}
				if got < 0 {
					time.Sleep(200 * time.Microsecond)
				}
			}
			if got >= 0 {
				x.leftVia = "MDepartTo"
				x.callRet(x.calls[got], got, "MCLeft")
			} else {
				if waiting > 0 {
					x.fail("C06/muc-leave/depart-not-delivered", "a Leave call was blocked in its select but did not receive the depart notification")
					return
				}
				if x.dtok {
					x.label("MDepartLost")
					x.classes["depart-lost"] = true
				} else {
					x.label("MDepartKept")
					x.dtok = true
					x.classes["depart-kept"] = true
				}
			}
		}
	}
	x.settle()
}

func (x *mucRun) finish() {
	// let every call reach its select first: a call that is owed an outcome must get it without cancellation
	for i := range x.calls {
		if x.enabled(mucAction{Op: "enter", C: i}) {
			x.do(mucAction{Op: "enter", C: i})
		}
	}
	if x.enabled(mucAction{Op: "serve"}) {
		x.do(mucAction{Op: "serve"})
	}
	// oracle (the C06 claim for Leave): the room's unavailable presence was processed while the call was in progress
	if !x.failed && x.unavailDone {
		for i, c := range x.calls {
			if c.kind == "leave" && c.startedBeforeUnavail && c.pos != "ret" && !c.canc && !c.errOff && x.departTo < 0 {
				if x.lateLeave {
					x.fail("C06/muc-leave/lost-depart:drained-by-later-leave", fmt.Sprintf("Leave call %d was in progress when the room's unavailable presence was handled; the notification was kept for it, but a second Leave call that started afterwards discarded it as stale: both block until their contexts end", i))
				} else {
					x.fail("C06/muc-leave/lost-depart", fmt.Sprintf("Leave call %d was in progress when the room's unavailable presence was handled, but the notification was dropped (the caller had not reached its select): the call blocks until its context ends", i))
				}
				return
			}
		}
	}
	for i, c := range x.calls {
		if !c.canc && c.pos != "ret" {
			x.do(mucAction{Op: "cancel", C: i})
		}
	}
	for i := range x.calls {
		if x.enabled(mucAction{Op: "enter", C: i}) {
			x.do(mucAction{Op: "enter", C: i})
		}
	}
	if x.enabled(mucAction{Op: "serve"}) {
		x.do(mucAction{Op: "serve"})
	}
	if x.failed {
		return
	}
	for i, c := range x.calls {
		if c.pos != "ret" {
			x.fail("C06/muc-"+c.kind+"/call-never-returns", fmt.Sprintf("call %d has not returned although its context was cancelled", i))
			return
		}
	}
	if x.spos != "idle" {
		x.fail("C06/muc/serve-stall:"+x.spos, "every call has returned but the serve loop is still busy")
		return
	}
	// sentinel: an ordinary presence still reaches HandleUserPresence (if the room is still managed) or is ignored
	if err := x.p.Send([]byte(`<presence from="other@example.net/x" id="ps"/>`)); err != nil {
		x.fail("C06/muc/serve-stall:not-reading", err.Error())
		return
	}
	x.serveIdle("C06/muc/serve-stall:sentinel", "the serve loop did not process the final presence")
	if !x.failed && x.userSeen != x.user {
		x.fail("C06/muc/user-presence-count", fmt.Sprintf("HandleUserPresence ran %d times, expected %d", x.userSeen, x.user))
	}
	x.panicked("C06/muc/handler-panic")
}

type mucObs struct {
	Codes   []string `json:"codes"`
	User    int      `json:"user"`
	Handler int      `json:"handler"`
}

func (x *mucRun) observe() mucObs {
	var o mucObs
	for _, c := range x.calls {
		code := "MCNone"
		if c.pos == "ret" {
			code = mucOutcome(c)
		}
		o.Codes = append(o.Codes, code)
	}
	o.User = x.userSeen
	if x.spos == "taken" || x.spos == "inner" || x.spos == "depart" {
		o.Handler = 1
	}
	return o
}

func (x *mucRun) coqCase(o mucObs) string {
	return fmt.Sprintf("mkmuccase [%s] [%s] %d%%nat %d%%nat", x.labelString(), strings.Join(o.Codes, ";"), o.User, o.Handler)
}

// ---- driver ----

func (x *runner) mucEmit(run *mucRun, acts []mucAction, note string) {
	if run.spos == "errhold" {
		return // the serve goroutine is inside the core hand-off, which this model does not show
	}
	o := run.observe()
	x.muc.Add(run.coqCase(o), map[string]interface{}{"case": mucCase{Mode: "muc", Actions: append([]mucAction(nil), acts...)}, "observed": o, "labels": run.labels, "note": note})
}

func (x *runner) mucFinish(run *mucRun, acts []mucAction, class string) {
	run.finish()
	x.noteSlow("muc", run.failed, run.failWhat)
	cc := mucCase{Mode: "muc", Actions: acts}
	canon, _ := json.Marshal(cc)
	cls := []string{"muc/" + class}
	for c := range run.classes {
		cls = append(cls, "muc/saw-"+c)
	}
	x.res.Count(string(canon), run.classes["joined"] || run.classes["left"] || run.classes["depart-kept"] || run.classes["skip"], cls...)
	if run.failed {
		x.res.Fail(run.failKey, run.failWhat, cc)
	} else {
		x.mucEmit(run, acts, "final")
	}
	run.teardown()
}

func (x *runner) mucReplay(acts []mucAction, class string) {
	if x.skip("muc") && class != "replay" {
		return
	}
	run, err := newMucRun()
	if err != nil {
		x.res.Fail("C06/harness/setup", err.Error(), nil)
		return
	}
	setCurrent(mucCase{Mode: "muc", Actions: acts})
	for _, a := range acts {
		run.do(a)
		if a.Op == "snap" && !run.failed {
			x.mucEmit(run, acts, "snapshot")
		}
	}
	x.mucFinish(run, acts, class)
}

func (x *runner) mucWalk(r *hx.Rand, steps int) {
	if x.skip("muc") {
		return
	}
	run, err := newMucRun()
	if err != nil {
		x.res.Fail("C06/harness/setup", err.Error(), nil)
		return
	}
	var acts []mucAction
	run.do(mucAction{Op: "join"})
	acts = append(acts, mucAction{Op: "join"})
	for k := 0; k < steps && !run.failed; k++ {
		var cs []mucAction
		var ws []int
		add := func(a mucAction, w int) {
			if run.enabled(a) {
				cs, ws = append(cs, a), append(ws, w)
			}
		}
		add(mucAction{Op: "leave"}, 3)
		for i := range run.calls {
			add(mucAction{Op: "enter", C: i}, 3)
			add(mucAction{Op: "cancel", C: i}, 1)
			add(mucAction{Op: "errreply", C: i}, 1)
		}
		add(mucAction{Op: "avail"}, 3)
		add(mucAction{Op: "unavail"}, 1)
		add(mucAction{Op: "serve"}, 4)
		add(mucAction{Op: "snap"}, 1)
		tot := 0
		for _, w := range ws {
			tot += w
		}
		pick := r.Intn(tot)
		var a mucAction
		for j, w := range ws {
			if pick < w {
				a = cs[j]
				break
			}
			pick -= w
		}
		acts = append(acts, a)
		setCurrent(mucCase{Mode: "muc", Actions: acts})
		run.do(a)
		if a.Op == "snap" && !run.failed {
			x.mucEmit(run, acts, "snapshot")
		}
	}
	x.mucFinish(run, acts, "walk")
}

var mucCorpus = [][]mucAction{
	// the room's unavailable presence is handled before the Leave caller reaches its select
	// (the pinned design dropped the notification: 69447fe)
	{{Op: "join"}, {Op: "enter", C: 0}, {Op: "avail"}, {Op: "serve"}, {Op: "leave"}, {Op: "unavail"}, {Op: "serve"}, {Op: "snap"}, {Op: "enter", C: 1}},
	// ... and a second Leave call that starts afterwards discards the kept notification
	{{Op: "join"}, {Op: "enter", C: 0}, {Op: "avail"}, {Op: "serve"}, {Op: "leave"}, {Op: "unavail"}, {Op: "serve"}, {Op: "leave"}, {Op: "enter", C: 1}, {Op: "enter", C: 2}},
	// a Leave call that starts after the departure waits for its own context (stale notification dropped)
	{{Op: "join"}, {Op: "enter", C: 0}, {Op: "avail"}, {Op: "serve"}, {Op: "unavail"}, {Op: "serve"}, {Op: "leave"}, {Op: "enter", C: 1}},
	// the ordinary order
	{{Op: "join"}, {Op: "enter", C: 0}, {Op: "avail"}, {Op: "serve"}, {Op: "leave"}, {Op: "enter", C: 1}, {Op: "unavail"}, {Op: "serve"}},
	// join: presence taken before the caller reaches its select; error reply; stale joinCtx skipped
	{{Op: "join"}, {Op: "avail"}, {Op: "serve"}, {Op: "enter", C: 0}},
	{{Op: "join"}, {Op: "enter", C: 0}, {Op: "errreply", C: 0}, {Op: "avail"}, {Op: "serve"}, {Op: "avail"}},
	{{Op: "join"}, {Op: "cancel", C: 0}, {Op: "enter", C: 0}, {Op: "avail"}, {Op: "serve"}},
	{{Op: "join"}, {Op: "avail"}, {Op: "serve"}, {Op: "cancel", C: 0}, {Op: "enter", C: 0}},
	// leave answered with an error; two Leave calls, one notification
	{{Op: "join"}, {Op: "enter", C: 0}, {Op: "avail"}, {Op: "serve"}, {Op: "leave"}, {Op: "enter", C: 1}, {Op: "errreply", C: 1}},
	{{Op: "join"}, {Op: "enter", C: 0}, {Op: "avail"}, {Op: "serve"}, {Op: "leave"}, {Op: "leave"}, {Op: "enter", C: 1}, {Op: "enter", C: 2}, {Op: "unavail"}, {Op: "serve"}},
}
