package main

import (
	"bytes"
	"runtime"
	"strconv"
	"strings"
	"sync"
	"sync/atomic"
	"time"
)

// An actor is one goroutine of a forced schedule: a caller of a blocking
// library method, the serve goroutine, or a goroutine the library starts on
// behalf of a caller. At the yield points listed in agate.park the goroutine
// reports the point on ev and waits for resume.
type actor struct {
	name   string
	ev     chan string
	resume chan struct{}
	goid   atomic.Int64
}

// agate forces schedules through the library's `verif` yield points, per
// goroutine (hx.Gate is per point): goroutines are told apart by their
// runtime id, so that "release call 2 from sendresp.select.before" is
// well-defined when several calls are parked at the same point.
type agate struct {
	mu    sync.Mutex
	byGo  map[int64]*actor
	park  map[string]bool
	note  map[string]bool
	adopt []adoption
	free  chan struct{}
	freed bool
}

// adoption binds the next unbound goroutine that reaches point to a.
type adoption struct {
	point string
	a     *actor
}

var curGate atomic.Pointer[agate]

func hookDispatch(point string) {
	if g := curGate.Load(); g != nil {
		g.hook(point)
	}
}

func goid() int64 {
	var buf [64]byte
	n := runtime.Stack(buf[:], false)
	// "goroutine 123 [running]:"
	b := buf[10:n]
	i := 0
	for i < len(b) && b[i] >= '0' && b[i] <= '9' {
		i++
	}
	id, _ := strconv.ParseInt(string(b[:i]), 10, 64)
	return id
}

func newGate(park, note []string) *agate {
	g := &agate{byGo: map[int64]*actor{}, park: map[string]bool{}, note: map[string]bool{}, free: make(chan struct{})}
	for _, p := range park {
		g.park[p] = true
	}
	for _, p := range note {
		g.note[p] = true
	}
	return g
}

func newActor(name string) *actor {
	return &actor{name: name, ev: make(chan string, 256), resume: make(chan struct{})}
}

// bind must be called by the goroutine itself.
func (g *agate) bind(a *actor) {
	id := goid()
	a.goid.Store(id)
	g.mu.Lock()
	g.byGo[id] = a
	g.mu.Unlock()
}

// expectAdoption: the next unbound goroutine reaching point becomes a.
func (g *agate) expectAdoption(point string, a *actor) {
	g.mu.Lock()
	g.adopt = append(g.adopt, adoption{point, a})
	g.mu.Unlock()
}

func (g *agate) hook(point string) {
	g.mu.Lock()
	if g.freed {
		g.mu.Unlock()
		return
	}
	id := goid()
	a := g.byGo[id]
	if a == nil {
		for k, ad := range g.adopt {
			if ad.point == point {
				a = ad.a
				a.goid.Store(id)
				g.byGo[id] = a
				g.adopt = append(g.adopt[:k], g.adopt[k+1:]...)
				break
			}
		}
	}
	if a == nil {
		g.mu.Unlock()
		return
	}
	p, n := g.park[point], g.note[point]
	g.mu.Unlock()
	if p {
		a.ev <- point
		select {
		case <-a.resume:
		case <-g.free:
		}
	} else if n {
		select {
		case a.ev <- "@" + point:
		default:
		}
	}
}

// release lets a parked actor continue.
func (g *agate) release(a *actor) bool {
	select {
	case a.resume <- struct{}{}:
		return true
	case <-time.After(watchdog):
		return false
	}
}

// await returns the next event of a (a parked point, "@note", or whatever the
// goroutine itself posts on a.ev), or "" on timeout.
func await(a *actor, d time.Duration) string {
	t := time.NewTimer(d)
	defer t.Stop()
	select {
	case e := <-a.ev:
		return e
	case <-t.C:
		return ""
	}
}

// pending reports an event that is already there, without waiting.
func pendingEvent(a *actor) string {
	select {
	case e := <-a.ev:
		return e
	default:
		return ""
	}
}

// freeAll ends forcing: everything parked continues, later hooks pass through.
func (g *agate) freeAll() {
	g.mu.Lock()
	if !g.freed {
		g.freed = true
		close(g.free)
	}
	g.mu.Unlock()
}

// waitBlocked waits until the goroutine of a is blocked in one of the given
// runtime wait states ("chan receive", "select", ...): after that a
// non-blocking send to the channel it waits on is certain to find it.
func waitBlocked(a *actor, d time.Duration, states ...string) bool {
	deadline := time.Now().Add(d)
	id := a.goid.Load()
	for id == 0 { // the goroutine has not bound itself yet
		if time.Now().After(deadline) {
			return false
		}
		time.Sleep(100 * time.Microsecond)
		id = a.goid.Load()
	}
	needle := []byte("goroutine " + strconv.FormatInt(id, 10) + " [")
	buf := make([]byte, 1<<20)
	for {
		n := runtime.Stack(buf, true)
		b := buf[:n]
		if i := bytes.Index(b, needle); i >= 0 {
			rest := b[i+len(needle):]
			if j := bytes.IndexByte(rest, ']'); j >= 0 {
				st := string(rest[:j])
				for _, w := range states {
					if strings.HasPrefix(st, w) {
						return true
					}
				}
			}
		}
		if time.Now().After(deadline) {
			return false
		}
		time.Sleep(100 * time.Microsecond)
	}
}

// waitBlockedOrEvent waits until the goroutine of a is blocked in one of the
// given runtime wait states (true) or posts an event (false; the event is
// consumed).
func waitBlockedOrEvent(a *actor, d time.Duration, states ...string) bool {
	deadline := time.Now().Add(d)
	for time.Now().Before(deadline) {
		if e := pendingEvent(a); e != "" {
			return false
		}
		if waitBlocked(a, 2*time.Millisecond, states...) {
			// blocked for real only if it stays there and no event is pending
			if e := pendingEvent(a); e != "" {
				return false
			}
			return true
		}
	}
	return false
}

// looksBlocked reports whether the goroutine of a is parked in a blocking
// operation right now (as opposed to running, runnable or not yet scheduled):
// only then is a missing arrival a stall and not mere slowness of the machine.
func looksBlocked(a *actor) bool {
	id := a.goid.Load()
	if id == 0 {
		return true // unknown goroutine: no second opinion available
	}
	needle := []byte("goroutine " + strconv.FormatInt(id, 10) + " [")
	buf := make([]byte, 1<<20)
	n := runtime.Stack(buf, true)
	b := buf[:n]
	i := bytes.Index(b, needle)
	if i < 0 {
		return true // it has exited: nothing more will arrive
	}
	rest := b[i+len(needle):]
	j := bytes.IndexByte(rest, ']')
	if j < 0 {
		return true
	}
	st := string(rest[:j])
	for _, w := range []string{"running", "runnable", "sleep", "syscall"} {
		if strings.HasPrefix(st, w) {
			return false
		}
	}
	return true
}

// awaitPatient is await, except that a timeout is only believed when the
// goroutine is parked in a blocking operation; while it is merely slow (the
// machine is loaded or was suspended) the wait is extended, up to 6 periods.
func awaitPatient(a *actor, d time.Duration) string {
	for k := 0; k < 6; k++ {
		if e := await(a, d); e != "" {
			return e
		}
		if quiescent(a) {
			// one more short look: an arrival may be in flight
			return await(a, 50*time.Millisecond)
		}
	}
	return ""
}

// quiescent: every goroutine of the current run that the gate knows (callers,
// the serve goroutine, goroutines the library started for them) is parked in a
// blocking operation. As long as one of them is running or runnable the system
// may still produce the arrival that is awaited.
func quiescent(a *actor) bool {
	g := curGate.Load()
	if g == nil {
		return looksBlocked(a)
	}
	g.mu.Lock()
	var as []*actor
	for _, x := range g.byGo {
		as = append(as, x)
	}
	g.mu.Unlock()
	for _, x := range as {
		if !looksBlocked(x) {
			return false
		}
	}
	return looksBlocked(a)
}
