package main

// Forced schedules for receipts.Handler: SendMessage/SendMessageElement block
// until the receipt for their message id arrives (HandleMessage) or their
// context is done.

import (
	"context"
	"encoding/json"
	"encoding/xml"
	"errors"
	"fmt"
	"strings"
	"time"

	"mellium.im/xmpp/mux"
	"mellium.im/xmpp/receipts"
	"mellium.im/xmpp/stanza"
	"verifharness/hx"
)

var rxPark = []string{"receipts.registered", "receipts.senderr", "receipts.wait.before", "receipts.ctxdone", "receipts.notify.before"}
var rxNote = []string{"serve.iter", "receipts.notify.after"}

type rxAction struct {
	Op   string `json:"op"` // start go cancel peer serve snap
	I    int    `json:"i,omitempty"`
	ID   string `json:"id,omitempty"`
	Via  string `json:"via,omitempty"` // SendMessage | SendMessageElement
	Fail bool   `json:"fail,omitempty"`
	// Typ: the message type of the tracked message (start) / of the message that
	// carries the receipt (peer): normal chat groupchat headline error, "none"
	// (no type attribute), "weird" (an unknown type); "" is chat
	Typ string `json:"typ,omitempty"`
}

var rxTypes = []string{"normal", "chat", "groupchat", "headline", "error", "none", "weird"}

func rxTypeAttr(t string) string {
	switch t {
	case "":
		return "chat"
	case "none":
		return ""
	}
	return t
}

// rxTypeCode: the number of the type in C06/ModelLife.v (norm_mtype maps 5.. to normal)
func rxTypeCode(t string) int {
	return map[string]int{"normal": 0, "chat": 1, "": 1, "groupchat": 2, "headline": 3, "error": 4, "none": 5, "weird": 6}[t]
}

type rxCase struct {
	Mode    string     `json:"mode"`
	Actions []rxAction `json:"actions"`
}

type rxSender struct {
	id, via string
	typ     string
	fail    bool
	a       *actor
	pos     string // registered senderr waitbefore inselect ctxdone ret
	canc    bool
	token   bool // the handler has signalled this sender
	cancel  context.CancelFunc
	err     error
	panic   string
}

type rxRun struct {
	base
	h         *receipts.Handler
	senders   []*rxSender
	table     map[string]int
	spos      string // idle notifybefore
	notifyTo  int
	arrivals  []string
	unhandled []string
	notified  map[int]int // arrival -> sender
	rlabels   []string    // the same schedule with the message type of every receipt (routed system)
}

func newRxRun() (*rxRun, error) {
	x := &rxRun{table: map[string]int{}, notified: map[int]int{}, notifyTo: -1, spos: "idle"}
	x.h = &receipts.Handler{}
	x.h.Unhandled = func(id string) { x.unhandled = append(x.unhandled, id) } // called on the serve goroutine only
	m := mux.New(stanza.NSClient, receipts.Handle(x.h))
	if err := x.start(rxPark, rxNote, m); err != nil {
		return nil, err
	}
	return x, nil
}

// label records a step for the receipts system and, wrapped, for the routed system.
func (x *rxRun) label(format string, args ...interface{}) {
	l := fmt.Sprintf(format, args...)
	x.labels = append(x.labels, l)
	x.rlabels = append(x.rlabels, "RL ("+l+")")
}

func (x *rxRun) teardown() {
	for _, s := range x.senders {
		s.cancel()
	}
	x.stop()
}

func (x *rxRun) idNum(id string) int {
	n := 0
	for _, c := range id {
		n = n*7 + int(c)
	}
	return n%1000 + 1
}

func (x *rxRun) settle() {
	for !x.failed {
		progressed := false
		for i, s := range x.senders {
			if s.pos != "inselect" {
				continue
			}
			switch {
			case s.token && !s.canc:
				if x.expect(s.a, "C06/receipts/call-stuck:receipt-arrived", "C06/receipts/handler-panic", "a sender whose receipt was signalled did not return", "ret") == "" {
					return
				}
				x.returned(s, i, true)
				progressed = true
			case s.token && s.canc:
				e := x.expect(s.a, "C06/receipts/call-stuck:receipt-arrived", "C06/receipts/handler-panic", "a sender with receipt and cancelled context did not leave its select", "ret", "receipts.ctxdone")
				if e == "" {
					return
				}
				if e == "ret" {
					x.returned(s, i, true)
				} else {
					s.pos = "ctxdone"
					x.label("XCtxDone %d%%nat", i)
				}
				progressed = true
			case s.canc:
				if x.expect(s.a, "C06/receipts/call-stuck:cancelled", "C06/receipts/handler-panic", "a cancelled sender did not leave its select", "receipts.ctxdone") == "" {
					return
				}
				s.pos = "ctxdone"
				x.label("XCtxDone %d%%nat", i)
				x.classes["ctxdone"] = true
				progressed = true
			}
		}
		if !progressed {
			return
		}
	}
}

func (x *rxRun) returned(s *rxSender, i int, viaToken bool) {
	s.pos = "ret"
	if s.panic != "" {
		x.fail("C06/receipts/sender-panic", "the sending call panicked: "+s.panic)
		return
	}
	if viaToken {
		x.label("XRecv %d%%nat", i)
		x.classes["notified"] = true
		if s.err != nil {
			x.fail("C06/receipts/wrong-outcome", fmt.Sprintf("sender %d got its receipt but returned %v", i, s.err))
		}
	} else {
		delete(x.table, s.id)
		x.label("XDereg %d%%nat", i)
	}
}

func (x *rxRun) enabled(a rxAction) bool {
	switch a.Op {
	case "start":
		return len(x.senders) < 8
	case "go":
		if a.I < 0 || a.I >= len(x.senders) {
			return false
		}
		switch x.senders[a.I].pos {
		case "registered", "senderr", "waitbefore", "ctxdone":
			return true
		}
		return false
	case "cancel":
		return a.I >= 0 && a.I < len(x.senders) && !x.senders[a.I].canc
	case "peer":
		return x.spos == "idle"
	case "serve":
		return x.spos == "notifybefore"
	case "snap":
		return true
	}
	return false
}

func (x *rxRun) do(a rxAction) {
	if x.failed || !x.enabled(a) {
		return
	}
	switch a.Op {
	case "start":
		i := len(x.senders)
		s := &rxSender{id: a.ID, via: a.Via, fail: a.Fail, typ: a.Typ, a: newActor(fmt.Sprintf("sender%d", i))}
		var ctx context.Context
		ctx, s.cancel = context.WithCancel(context.Background())
		x.senders = append(x.senders, s)
		go func() {
			x.g.bind(s.a)
			msg := stanza.Message{XMLName: xml.Name{Space: stanza.NSClient, Local: "message"}, ID: s.id, To: serverJID, Type: stanza.MessageType(rxTypeAttr(s.typ))}
			var payload xml.TokenReader
			if s.fail {
				payload = failingReader{}
			}
			s.panic = hx.Catch(func() {
				if s.via == "SendMessage" && !s.fail {
					s.err = x.h.SendMessage(ctx, x.s, msg.Wrap(nil))
				} else {
					s.err = x.h.SendMessageElement(ctx, x.s, payload, msg)
				}
			})
			s.a.ev <- "ret"
		}()
		if x.expect(s.a, "C06/receipts/call-stuck:before-registration", "C06/receipts/handler-panic", "the sender did not register", "receipts.registered") == "" {
			return
		}
		s.pos = "registered"
		x.table[s.id] = i
		x.label("XStart %d%%N", x.idNum(s.id))
	case "go":
		s := x.senders[a.I]
		from := s.pos
		if !x.g.release(s.a) {
			x.fail("C06/harness/unexpected-step", "a parked sender could not be released")
			return
		}
		switch from {
		case "registered":
			e := x.expect(s.a, "C06/receipts/call-stuck:send", "C06/receipts/handler-panic", "the sender did not finish sending", "receipts.wait.before", "receipts.senderr")
			if e == "" {
				return
			}
			if e == "receipts.senderr" {
				s.pos = "senderr"
				x.label("XSendFail %d%%nat", a.I)
				x.classes["sendfail"] = true
			} else {
				s.pos = "waitbefore"
				x.label("XSendOk %d%%nat", a.I)
			}
		case "waitbefore":
			s.pos = "inselect"
		case "senderr", "ctxdone":
			if x.expect(s.a, "C06/receipts/call-stuck:return", "C06/receipts/handler-panic", "the sender did not return", "ret") == "" {
				return
			}
			x.returned(s, a.I, false)
			if from == "ctxdone" && !errors.Is(s.err, context.Canceled) {
				x.fail("C06/receipts/wrong-outcome", fmt.Sprintf("sender %d left through ctx.Done but returned %v", a.I, s.err))
			}
			if from == "senderr" && (s.err == nil || errors.Is(s.err, context.Canceled)) {
				x.fail("C06/receipts/wrong-outcome", fmt.Sprintf("sender %d failed to send but returned %v", a.I, s.err))
			}
		}
	case "cancel":
		s := x.senders[a.I]
		s.cancel()
		s.canc = true
		x.label("XCancel %d%%nat", a.I)
	case "peer":
		n := len(x.arrivals)
		x.arrivals = append(x.arrivals, a.ID)
		before := len(x.unhandled)
		ta := ""
		if t := rxTypeAttr(a.Typ); t != "" {
			ta = ` type="` + t + `"`
		}
		raw := fmt.Sprintf(`<message from="example.net" id="r%d"%s><received xmlns="urn:xmpp:receipts" id="%s"/></message>`, n, ta, a.ID)
		x.classes["type-"+a.Typ] = true
		if err := x.p.Send([]byte(raw)); err != nil {
			x.fail("C06/receipts/handler-stall:not-reading", "the serve loop does not read: "+err.Error())
			return
		}
		e := x.expect(x.serve, "C06/receipts/handler-stall:lookup", "C06/receipts/handler-panic", "the receipt handler did not finish its lookup", "receipts.notify.before", "@serve.iter")
		if e == "" {
			return
		}
		x.label("XArrive %d%%N", x.idNum(a.ID))
		x.rlabels[len(x.rlabels)-1] = fmt.Sprintf("RArrive %d%%N %d%%N", rxTypeCode(a.Typ), x.idNum(a.ID))
		x.label("XLookup")
		i, ok := x.table[a.ID]
		if e == "receipts.notify.before" {
			if !ok {
				// the entry of a sender that has returned is still registered?
				for j := len(x.senders) - 1; j >= 0; j-- {
					if x.senders[j].id == a.ID && x.senders[j].pos == "ret" && x.senders[j].fail {
						i, ok = j, true
						break
					}
				}
			}
			if !ok {
				x.fail("C06/receipts/notify-without-entry", "the handler signals a sender although nobody waits for that id")
				return
			}
			delete(x.table, a.ID)
			x.spos, x.notifyTo = "notifybefore", i
			x.notified[n] = i
		} else {
			if ok {
				what := "a sender waits for this id but the receipt was reported unhandled"
				if len(x.unhandled) == before {
					what = fmt.Sprintf("a sender waits for this id, but the receipt (message type %q) reached neither the receipts handler nor Unhandled: the handler is not registered for that type; the sender will end with its context error although its receipt came first", rxTypeAttr(a.Typ))
				}
				x.fail("C06/receipts/receipt-lost", what)
				return
			}
			if len(x.unhandled) != before+1 || x.unhandled[before] != a.ID {
				x.fail("C06/receipts/receipt-lost", "a receipt nobody waits for was not passed to Unhandled")
				return
			}
			x.label("XUnhandled")
			x.classes["unhandled"] = true
		}
	case "serve":
		i := x.notifyTo
		s := x.senders[i]
		if !x.g.release(x.serve) {
			x.fail("C06/harness/unexpected-step", "the parked handler could not be released")
			return
		}
		key, what := "C06/receipts/handler-stall:sender-not-waiting", "the receipt handler blocks the serve loop until the sender reaches its select"
		if s.pos == "ret" {
			key, what = "C06/receipts/handler-stall:abandoned-channel", "the receipt handler blocks the serve loop for good: the sender it signals has returned (send failure or cancellation)"
		}
		if x.expect(x.serve, key, "C06/receipts/handler-panic:closed-channel", what, "@receipts.notify.after") == "" {
			return
		}
		if x.expect(x.serve, "C06/receipts/handler-stall:return", "C06/receipts/handler-panic", "the receipt handler did not return", "@serve.iter") == "" {
			return
		}
		s.token = true
		x.spos, x.notifyTo = "idle", -1
		x.label("XNotify")
	}
	x.settle()
}

func (x *rxRun) finish() {
	for i, s := range x.senders {
		if !s.canc && s.pos != "ret" {
			x.do(rxAction{Op: "cancel", I: i})
		}
	}
	for round := 0; round < 32 && !x.failed; round++ {
		moved := false
		for i := range x.senders {
			if x.enabled(rxAction{Op: "go", I: i}) {
				x.do(rxAction{Op: "go", I: i})
				moved = true
			}
		}
		if x.enabled(rxAction{Op: "serve"}) {
			x.do(rxAction{Op: "serve"})
			moved = true
		}
		if !moved {
			break
		}
	}
	if x.failed {
		return
	}
	for i, s := range x.senders {
		if s.pos != "ret" {
			x.fail("C06/receipts/call-never-returns", fmt.Sprintf("sender %d has not returned although its context was cancelled", i))
			return
		}
	}
	// the serve loop still works: a receipt nobody waits for reaches Unhandled
	x.do(rxAction{Op: "peer", ID: "sentinel"})
	if !x.failed && (len(x.unhandled) == 0 || x.unhandled[len(x.unhandled)-1] != "sentinel") {
		x.fail("C06/receipts/handler-stall:sentinel", "the serve loop did not process the final receipt")
	}
	x.panicked("C06/receipts/handler-panic")
}

// oracle: one outcome per sender, consistent with what arrived.
func (x *rxRun) oracle() {
	if x.failed {
		return
	}
	got := map[int]bool{}
	for _, i := range x.notified {
		if got[i] {
			x.fail("C06/receipts/double-notify", fmt.Sprintf("sender %d was signalled for two receipts", i))
		}
		got[i] = true
	}
	for i, s := range x.senders {
		if s.pos != "ret" {
			continue
		}
		switch {
		case s.err == nil:
			ok := false
			for n, j := range x.notified {
				if j == i && x.arrivals[n] == s.id {
					ok = true
				}
			}
			if !ok {
				x.fail("C06/receipts/foreign-receipt", fmt.Sprintf("sender %d (id %s) returned success without a receipt for its id", i, s.id))
			}
		case errors.Is(s.err, context.Canceled):
			if !s.canc {
				x.fail("C06/receipts/spurious-ctx-error", fmt.Sprintf("sender %d returned a context error but was never cancelled", i))
			}
		default:
			if !s.fail {
				x.fail("C06/receipts/spurious-error", fmt.Sprintf("sender %d returned %v", i, s.err))
			}
		}
	}
}

type rxObs struct {
	Codes     []string `json:"codes"`
	Unhandled int      `json:"unhandled"`
	Handler   int      `json:"handler"`
}

func (x *rxRun) observe() rxObs {
	var o rxObs
	for _, s := range x.senders {
		c := "XNone"
		if s.pos == "ret" {
			switch {
			case s.err == nil:
				c = "XCOk"
			case errors.Is(s.err, context.Canceled):
				c = "XCCtx"
			default:
				c = "XCSend"
			}
		}
		o.Codes = append(o.Codes, c)
	}
	o.Unhandled = len(x.unhandled)
	if x.spos != "idle" {
		o.Handler = 1
	}
	return o
}

func (x *rxRun) coqCase(o rxObs) string {
	return fmt.Sprintf("mkrxcase [%s] [%s] %d%%nat %d%%nat", x.labelString(), strings.Join(o.Codes, ";"), o.Unhandled, o.Handler)
}

// ---- driver ----

func (x *runner) rxEmit(run *rxRun, acts []rxAction, note string) {
	o := run.observe()
	x.rxr.Add(fmt.Sprintf("mkrxrcase [%s] [%s] %d%%nat", strings.Join(run.rlabels, ";"), strings.Join(o.Codes, ";"), o.Unhandled),
		map[string]interface{}{"case": rxCase{Mode: "receipts", Actions: append([]rxAction(nil), acts...)}, "observed": o})
	x.rx.Add(run.coqCase(o), map[string]interface{}{"case": rxCase{Mode: "receipts", Actions: append([]rxAction(nil), acts...)}, "observed": o, "labels": run.labels, "note": note})
}

func (x *runner) rxFinish(run *rxRun, acts []rxAction, class string) {
	run.finish()
	x.noteSlow("receipts", run.failed, run.failWhat)
	run.oracle()
	cc := rxCase{Mode: "receipts", Actions: acts}
	canon, _ := json.Marshal(cc)
	cls := []string{"receipts/" + class}
	for c := range run.classes {
		cls = append(cls, "receipts/saw-"+c)
	}
	x.res.Count(string(canon), run.classes["notified"] || run.classes["ctxdone"], cls...)
	if run.failed {
		x.res.Fail(run.failKey, run.failWhat, cc)
	} else {
		x.rxEmit(run, acts, "final")
	}
	run.teardown()
}

func (x *runner) rxReplay(acts []rxAction, class string) {
	if x.skip("receipts") && class != "replay" {
		return
	}
	run, err := newRxRun()
	if err != nil {
		x.res.Fail("C06/harness/setup", err.Error(), nil)
		return
	}
	setCurrent(rxCase{Mode: "receipts", Actions: acts})
	for _, a := range acts {
		run.do(a)
		if a.Op == "snap" && !run.failed {
			x.rxEmit(run, acts, "snapshot")
		}
	}
	x.rxFinish(run, acts, class)
}

func (x *runner) rxWalk(r *hx.Rand, maxSenders, steps int) {
	if x.skip("receipts") {
		return
	}
	run, err := newRxRun()
	if err != nil {
		x.res.Fail("C06/harness/setup", err.Error(), nil)
		return
	}
	var acts []rxAction
	for k := 0; k < steps && !run.failed; k++ {
		var cs []rxAction
		var ws []int
		add := func(a rxAction, w int) { cs, ws = append(cs, a), append(ws, w) }
		if len(run.senders) < maxSenders {
			add(rxAction{Op: "start"}, 3)
		}
		for i, s := range run.senders {
			if run.enabled(rxAction{Op: "go", I: i}) {
				add(rxAction{Op: "go", I: i}, 3)
			}
			if !s.canc && s.pos != "ret" {
				add(rxAction{Op: "cancel", I: i}, 1)
			}
		}
		if run.spos == "idle" {
			add(rxAction{Op: "peer"}, 3)
		}
		if run.spos == "notifybefore" {
			add(rxAction{Op: "serve"}, 4)
		}
		add(rxAction{Op: "snap"}, 1)
		tot := 0
		for _, w := range ws {
			tot += w
		}
		pick := r.Intn(tot)
		var a rxAction
		for j, w := range ws {
			if pick < w {
				a = cs[j]
				break
			}
			pick -= w
		}
		switch a.Op {
		case "start":
			if r.Chance(3, 10) {
				a.ID = idPool[r.Intn(len(idPool))]
			} else {
				a.ID = fmt.Sprintf("m%d", len(run.senders))
			}
			a.Via = []string{"SendMessage", "SendMessageElement"}[r.Intn(2)]
			a.Fail = r.Chance(3, 20)
			a.Typ = rxTypes[r.Intn(len(rxTypes))]
		case "peer":
			a.Typ = rxTypes[r.Intn(len(rxTypes))]
			if len(run.senders) > 0 && r.Chance(4, 5) {
				sd := run.senders[r.Intn(len(run.senders))]
				a.ID = sd.id
				if !r.Chance(1, 5) {
					a.Typ = sd.typ
				}
			} else {
				a.ID = []string{"zz", "a", "b"}[r.Intn(3)]
			}
		}
		acts = append(acts, a)
		setCurrent(rxCase{Mode: "receipts", Actions: acts})
		run.do(a)
		if a.Op == "snap" && !run.failed {
			x.rxEmit(run, acts, "snapshot")
		}
	}
	x.rxFinish(run, acts, "walk")
}

// rxConcurrentFirstUse: two calls use a fresh Handler at the same time (the
// documentation promises that SendMessageElement is safe for concurrent use).
// Free-running; the race detector is the oracle (finding key C06/race/receipts)
// and both calls must return.
func (x *runner) rxConcurrentFirstUse() {
	var b base
	h := &receipts.Handler{}
	if err := b.start(nil, rxNote, mux.New(stanza.NSClient, receipts.Handle(h))); err != nil {
		x.res.Fail("C06/harness/setup", err.Error(), nil)
		return
	}
	defer b.stop()
	cc := map[string]interface{}{"mode": "receipts-first-use", "scenario": "two SendMessageElement calls on a fresh Handler, started together, contexts cancelled"}
	x.res.Count("receipts-first-use", true, "receipts/concurrent-first-use")
	ctx, cancel := context.WithCancel(context.Background())
	ret := make(chan string, 2)
	begin := make(chan struct{})
	for i := 0; i < 2; i++ {
		id := fmt.Sprintf("f%d", i)
		go func() {
			<-begin
			ret <- hx.Catch(func() {
				msg := stanza.Message{XMLName: xml.Name{Space: stanza.NSClient, Local: "message"}, ID: id, To: serverJID, Type: stanza.ChatMessage}
				h.SendMessageElement(ctx, b.s, nil, msg)
			})
		}()
	}
	close(begin)
	time.AfterFunc(5*time.Millisecond, cancel)
	for i := 0; i < 2; i++ {
		select {
		case p := <-ret:
			if p != "" {
				x.res.Fail("C06/receipts/sender-panic", "concurrent first use of a Handler panicked: "+p, cc)
			}
		case <-time.After(watchdog):
			x.res.Fail("C06/receipts/call-never-returns", "a sender did not return after its context was cancelled (concurrent first use)", cc)
			return
		}
	}
}

// rxTypeCorpus: for every message type, the receipt arrives after the sender
// reached its select, and before it has even sent.
func rxTypeCorpus() [][]rxAction {
	var out [][]rxAction
	for _, t := range rxTypes {
		out = append(out,
			[]rxAction{{Op: "start", ID: "m1", Via: "SendMessageElement", Typ: t}, {Op: "go"}, {Op: "go"}, {Op: "peer", ID: "m1", Typ: t}, {Op: "serve"}},
			[]rxAction{{Op: "start", ID: "m1", Via: "SendMessage", Typ: t}, {Op: "peer", ID: "m1", Typ: t}, {Op: "serve"}, {Op: "go"}, {Op: "go"}})
	}
	return out
}

var rxCorpus = [][]rxAction{
	// the handler has taken the entry; the sender is cancelled and leaves; then the handler signals
	{{Op: "start", ID: "m1", Via: "SendMessageElement"}, {Op: "go"}, {Op: "go"}, {Op: "peer", ID: "m1"}, {Op: "cancel"}, {Op: "go"}, {Op: "serve"}},
	// the send fails; a receipt for that id arrives later
	{{Op: "start", ID: "m1", Via: "SendMessageElement", Fail: true}, {Op: "go"}, {Op: "go"}, {Op: "peer", ID: "m1"}, {Op: "serve"}},
	// the receipt arrives before the sender reaches its select
	{{Op: "start", ID: "m1", Via: "SendMessage"}, {Op: "peer", ID: "m1"}, {Op: "serve"}, {Op: "go"}, {Op: "go"}},
	// plain, duplicate receipt, unknown id
	{{Op: "start", ID: "m1", Via: "SendMessage"}, {Op: "go"}, {Op: "go"}, {Op: "peer", ID: "m1"}, {Op: "serve"}, {Op: "peer", ID: "m1"}, {Op: "peer", ID: "zz"}},
	// cancelled first, receipt late
	{{Op: "start", ID: "m1", Via: "SendMessageElement"}, {Op: "go"}, {Op: "go"}, {Op: "cancel"}, {Op: "go"}, {Op: "peer", ID: "m1"}},
	// two senders, one id
	{{Op: "start", ID: "a", Via: "SendMessage"}, {Op: "start", ID: "a", Via: "SendMessageElement"}, {Op: "go", I: 0}, {Op: "go", I: 0}, {Op: "go", I: 1}, {Op: "go", I: 1},
		{Op: "peer", ID: "a"}, {Op: "serve"}, {Op: "snap"}, {Op: "peer", ID: "a"}},
}
