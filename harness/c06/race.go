package main

import (
	"encoding/json"
	"fmt"
	"io"
	"os"
	"os/exec"
	"path/filepath"
	"regexp"
	"strings"
)

// The harness is built with -race. A race report invalidates the atomicity
// assumption of the models, so it is an oracle failure; to turn reports into
// finding records the harness runs itself as a child with the race detector
// logging to files and not changing the exit status.
func superviseRaces(out string) {
	if os.Getenv("C06_CHILD") != "" {
		return
	}
	logBase := filepath.Join(out, "race")
	cmd := exec.Command(os.Args[0], os.Args[1:]...)
	cmd.Env = append(os.Environ(), "C06_CHILD=1", "GORACE=log_path="+logBase+" exitcode=0 halt_on_error=0")
	var tail tailBuf
	cmd.Stdout, cmd.Stderr = os.Stdout, io.MultiWriter(os.Stderr, &tail)
	os.Remove(filepath.Join(out, "result.json"))
	err := cmd.Run()
	rp := filepath.Join(out, "result.json")
	b, rerr := os.ReadFile(rp)
	if err != nil || rerr != nil {
		// The child died: a panic in a goroutine the library started (nothing
		// can recover it) or a fatal error of the Go runtime (concurrent map
		// access, ...). That is an oracle failure of the schedule that was
		// running, which the child wrote down before it started it.
		fmt.Fprintln(os.Stderr, "c06: child died:", err, rerr)
		var cur interface{}
		if cb, e := os.ReadFile(filepath.Join(out, "current.json")); e == nil {
			json.Unmarshal(cb, &cur)
		}
		res := map[string]interface{}{
			"property": "C06", "evaluations": 0, "distinct_nontrivial": 0, "rule": "the harness process died", "samples": []interface{}{},
			"histogram": map[string]int{}, "case_files": []string{},
			"oracle_failures": []interface{}{map[string]interface{}{
				"key":  "C06/process/crash",
				"what": "the process died while this schedule was running (unrecoverable panic in a goroutine started by the library, or a Go runtime fatal error): " + tail.String(),
				"case": cur,
			}},
		}
		nb, _ := json.MarshalIndent(res, "", " ")
		os.WriteFile(rp, nb, 0o644)
		os.Exit(0)
	}
	logs, _ := filepath.Glob(logBase + ".*")
	if len(logs) == 0 {
		os.Exit(0)
	}
	var res map[string]interface{}
	if json.Unmarshal(b, &res) != nil {
		os.Exit(1)
	}
	fails, _ := res["oracle_failures"].([]interface{})
	frame := regexp.MustCompile(`mellium\.im/xmpp(/[a-z0-9/]+)?\.[^\s(]*`)
	seen := map[string]bool{}
	for _, lf := range logs {
		lb, _ := os.ReadFile(lf)
		for _, rep := range strings.Split(string(lb), "WARNING: DATA RACE")[1:] {
			pkg := "session"
			if m := frame.FindStringSubmatch(rep); m != nil && m[1] != "" {
				pkg = strings.Trim(m[1], "/")
			}
			key := "C06/race/" + pkg
			if seen[key] {
				continue
			}
			seen[key] = true
			if len(rep) > 1500 {
				rep = rep[:1500]
			}
			fails = append(fails, map[string]interface{}{
				"key":  key,
				"what": "the race detector reports a data race in " + pkg + " (lock-protected regions are assumed atomic by the models)",
				"case": map[string]interface{}{"mode": "race", "report": rep},
			})
		}
		os.Remove(lf)
	}
	res["oracle_failures"] = fails
	nb, _ := json.MarshalIndent(res, "", " ")
	os.WriteFile(rp, nb, 0o644)
	os.Exit(0)
}

// tailBuf keeps the first 1500 bytes written to it (the head of a panic message names the cause).
type tailBuf struct{ b []byte }

func (t *tailBuf) Write(p []byte) (int, error) {
	if room := 1500 - len(t.b); room > 0 {
		if len(p) < room {
			room = len(p)
		}
		t.b = append(t.b, p[:room]...)
	}
	return len(p), nil
}

func (t *tailBuf) String() string { return string(t.b) }

var currentPath string

// setCurrent writes down the schedule that is about to run (see superviseRaces).
func setCurrent(v interface{}) {
	if currentPath == "" {
		return
	}
	if b, err := json.Marshal(v); err == nil {
		os.WriteFile(currentPath, b, 0o644)
	}
}
