package main

import (
	"encoding/json"
	"fmt"
	"os"
	"os/exec"
	"path/filepath"
	"regexp"
	"strings"
)

// The harness is built with -race. A race report invalidates the atomicity
// assumption of the models, so it is an oracle failure; to turn reports into
// finding records the harness runs itself as a child with the race detector
// logging to files and not changing the exit status.
func superviseRaces(out string) {
	if os.Getenv("C06_CHILD") != "" {
		return
	}
	logBase := filepath.Join(out, "race")
	cmd := exec.Command(os.Args[0], os.Args[1:]...)
	cmd.Env = append(os.Environ(), "C06_CHILD=1", "GORACE=log_path="+logBase+" exitcode=0 halt_on_error=0")
	cmd.Stdout, cmd.Stderr = os.Stdout, os.Stderr
	err := cmd.Run()
	rp := filepath.Join(out, "result.json")
	b, rerr := os.ReadFile(rp)
	if err != nil || rerr != nil {
		fmt.Fprintln(os.Stderr, "c06: child failed:", err, rerr)
		os.Exit(1)
	}
	logs, _ := filepath.Glob(logBase + ".*")
	if len(logs) == 0 {
		os.Exit(0)
	}
	var res map[string]interface{}
	if json.Unmarshal(b, &res) != nil {
		os.Exit(1)
	}
	fails, _ := res["oracle_failures"].([]interface{})
	frame := regexp.MustCompile(`mellium\.im/xmpp(/[a-z0-9/]+)?\.[^\s(]*`)
	seen := map[string]bool{}
	for _, lf := range logs {
		lb, _ := os.ReadFile(lf)
		for _, rep := range strings.Split(string(lb), "WARNING: DATA RACE")[1:] {
			pkg := "session"
			if m := frame.FindStringSubmatch(rep); m != nil && m[1] != "" {
				pkg = strings.Trim(m[1], "/")
			}
			key := "C06/race/" + pkg
			if seen[key] {
				continue
			}
			seen[key] = true
			if len(rep) > 1500 {
				rep = rep[:1500]
			}
			fails = append(fails, map[string]interface{}{
				"key":  key,
				"what": "the race detector reports a data race in " + pkg + " (lock-protected regions are assumed atomic by the models)",
				"case": map[string]interface{}{"mode": "race", "report": rep},
			})
		}
		os.Remove(lf)
	}
	res["oracle_failures"] = fails
	nb, _ := json.MarshalIndent(res, "", " ")
	os.WriteFile(rp, nb, 0o644)
	os.Exit(0)
}
